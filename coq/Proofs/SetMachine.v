(* The dns.set.Set machine of Model/SetM.v: every public method keeps every set duplicate-free,
   for all operation sequences; the algebra of Proofs/SetAlg.v instantiated at records. *)
From Coq Require Import Permutation.
From DV Require Import Base.Prelude Model.SetM Proofs.SetAlg Proofs.SetRdata.
Open Scope Z_scope.

Definition ND : list rdata -> Prop := NoDupE rdata rd_eqb.

(* ---------- register file helpers ---------- *)

Lemma Forall_set_nth {A} (P : A -> Prop) st n v : Forall P st -> P v -> Forall P (set_nth st n v).
Proof.
  intros H Hv. revert n. induction H as [|x l Hx Hl IH]; intros n; cbn; [constructor|].
  destruct n; constructor; auto.
Qed.

Lemma Forall_assign {A} (P : A -> Prop) st d v st' :
  Forall P st -> P v -> assign st d v = Some st' -> Forall P st'.
Proof.
  intros H Hv. unfold assign.
  destruct (Nat.ltb d (length st)).
  - intros E; inversion E; subst. apply Forall_set_nth; assumption.
  - destruct (Nat.eqb d (length st)); [|discriminate].
    intros E; inversion E; subst. apply Forall_app. split; [assumption|constructor; auto].
Qed.

Lemma Forall_nth_error {A} (P : A -> Prop) st n x : Forall P st -> nth_error st n = Some x -> P x.
Proof. intros H E. rewrite Forall_forall in H. apply H. eapply nth_error_In, E. Qed.

(* ---------- instantiated algebra ---------- *)

Definition rd_equiv_refl := rd_eqb_refl.
Definition rd_equiv_sym := rd_eqb_sym.
Definition rd_equiv_trans := rd_eqb_trans.

Lemma salg_is_g a s o same : salg a s o same = salg_g rdata rd_eqb a s o same.
Proof. destruct a; reflexivity. Qed.

Lemma ND_salg a s o same : ND s -> ND o -> (same = true -> o = s) -> ND (salg a s o same).
Proof.
  intros. rewrite salg_is_g.
  apply (salg_nodup rdata rd_eqb rd_eqb_refl rd_eqb_sym rd_eqb_trans); assumption.
Qed.

Lemma ND_sadd x s : ND s -> ND (sadd rd_eqb x s).
Proof. apply (nodup_sadd rdata rd_eqb rd_eqb_sym). Qed.

Lemma ND_sdel x s : ND s -> ND (sdel rd_eqb x s).
Proof. apply (nodup_sdel rdata rd_eqb rd_eqb_sym rd_eqb_trans). Qed.

Lemma ND_supdate o s : ND s -> ND (supdate rd_eqb s o).
Proof. apply (nodup_supdate rdata rd_eqb rd_eqb_sym). Qed.

Lemma ND_nil : ND [].
Proof. constructor. Qed.

Lemma ND_fold_sdel l s : ND s -> ND (fold_left (fun acc x => sdel rd_eqb x acc) l s).
Proof. apply (nodup_fold_sdel rdata rd_eqb rd_eqb_sym rd_eqb_trans). Qed.

Lemma ND_spop s x s' : ND s -> spop s = Ok (x, s') -> ND s'.
Proof. apply (nodup_spop rdata rd_eqb). Qed.

(* ---------- one step ---------- *)

Lemma same_reg st r o (s os : sset) :
  nth_error st r = Some s -> nth_error st o = Some os -> Nat.eqb r o = true -> os = s.
Proof. intros H1 H2 E. apply Nat.eqb_eq in E. subst. congruence. Qed.

Ltac dm := match goal with |- context [match ?x with _ => _ end] => destruct x eqn:? end.
Ltac ndreg := eapply Forall_nth_error; eassumption.

Theorem sstep_nodup st op : Forall ND st -> Forall ND (fst (sstep st op)).
Proof.
  intros H.
  destruct op; cbn [sstep]; unfold bad, sremove, sdelitem, sdelslice;
    repeat dm; cbn [fst]; try exact H;
    repeat match goal with
           | E : match ?x with _ => _ end = _ |- _ => destruct x eqn:?; try discriminate E
           end;
    repeat match goal with E : Ok _ = Ok _ |- _ => inversion E; subst; clear E end;
    try (apply Forall_set_nth; [exact H|]);
    try (eapply Forall_assign; [exact H| |eassumption]).
  - apply ND_supdate, ND_nil.
  - apply ND_sadd. ndreg.
  - apply ND_sdel. ndreg.
  - apply ND_sdel. ndreg.
  - eapply ND_spop; [|eassumption]. ndreg.
  - apply ND_nil.
  - ndreg.
  - apply ND_salg; [ndreg|ndreg|]. eapply same_reg; eassumption.
  - apply ND_supdate. ndreg.
  - apply ND_salg; [ndreg|ndreg|discriminate].
  - apply ND_supdate. ndreg.
  - apply ND_sdel. ndreg.
  - apply ND_fold_sdel. ndreg.
Qed.

(* every reachable state of the Set machine: all sets duplicate-free *)
Theorem sexec_nodup ops st : Forall ND st -> Forall ND (sexec st ops).
Proof.
  revert st. induction ops as [|op ops IH]; intros st H; cbn; [exact H|].
  apply IH, sstep_nodup, H.
Qed.

Corollary set_machine_nodup ops : Forall ND (sexec [] ops).
Proof. apply sexec_nodup. constructor. Qed.

(* ---------- the algebra at records (used by Props/C07.v) ---------- *)

Definition rmem := mem rd_eqb.

Theorem set_alg_mem a s o same x :
  ND s -> ND o -> (same = true -> o = s) ->
  rmem x (salg a s o same) = alg_bool a (rmem x s) (rmem x o).
Proof.
  intros. rewrite salg_is_g.
  apply (salg_mem rdata rd_eqb rd_eqb_refl rd_eqb_sym rd_eqb_trans); assumption.
Qed.

Theorem set_alg_order a s o :
  ND s -> ND o -> salg a s o false = alg_order rdata rd_eqb a s o.
Proof.
  intros. rewrite salg_is_g.
  apply (salg_order rdata rd_eqb rd_eqb_refl rd_eqb_sym rd_eqb_trans); assumption.
Qed.

Theorem set_alg_aliased a s :
  salg a s s true = match a with AUnion | AInter => s | ADiff | ASym => [] end.
Proof. rewrite salg_is_g. apply salg_same. Qed.

Theorem set_eq_ignores_order s o :
  ND s -> ND o -> (seq rd_eqb s o = true <-> forall x, rmem x s = rmem x o).
Proof. apply (seq_spec rdata rd_eqb rd_eqb_refl rd_eqb_sym rd_eqb_trans). Qed.

Corollary set_eq_perm s s' : ND s -> Permutation s s' -> seq rd_eqb s s' = true.
Proof.
  intros Hs Hp. unfold seq. rewrite (Permutation_length Hp), Nat.eqb_refl. cbn.
  apply forallb_forall. intros x Hx. apply (mem_In rdata rd_eqb rd_eqb_refl).
  eapply Permutation_in; eassumption.
Qed.

(* ---------- named forms, in-place (with the aliasing flag) and copying ---------- *)

Section Named.
  Variables (s o : list rdata) (same : bool) (x : rdata).
  Hypothesis Hs : ND s.
  Hypothesis Ho : ND o.
  Hypothesis Hsame : same = true -> o = s.

  Lemma union_update_mem : rmem x (sunion_update rd_eqb s o same) = rmem x s || rmem x o.
  Proof. exact (set_alg_mem AUnion s o same x Hs Ho Hsame). Qed.
  Lemma inter_update_mem : rmem x (sinter_update rd_eqb s o same) = rmem x s && rmem x o.
  Proof. exact (set_alg_mem AInter s o same x Hs Ho Hsame). Qed.
  Lemma diff_update_mem : rmem x (sdiff_update rd_eqb s o same) = rmem x s && negb (rmem x o).
  Proof. exact (set_alg_mem ADiff s o same x Hs Ho Hsame). Qed.
  Lemma sym_update_mem : rmem x (ssym_update rd_eqb s o same) = xorb (rmem x s) (rmem x o).
  Proof. exact (set_alg_mem ASym s o same x Hs Ho Hsame). Qed.
End Named.

Section NamedCopy.
  (* o may be s itself: a.union(a) etc. *)
  Variables (s o : list rdata) (x : rdata).
  Hypothesis Hs : ND s.
  Hypothesis Ho : ND o.

  Let nosame : false = true -> o = s.
  Proof. discriminate. Qed.

  Lemma union_mem : rmem x (sunion rd_eqb s o) = rmem x s || rmem x o.
  Proof. exact (set_alg_mem AUnion s o false x Hs Ho nosame). Qed.
  Lemma inter_mem : rmem x (sinter rd_eqb s o) = rmem x s && rmem x o.
  Proof. exact (set_alg_mem AInter s o false x Hs Ho nosame). Qed.
  Lemma diff_mem : rmem x (sdiff rd_eqb s o) = rmem x s && negb (rmem x o).
  Proof. exact (set_alg_mem ADiff s o false x Hs Ho nosame). Qed.
  Lemma sym_mem : rmem x (ssym rd_eqb s o) = xorb (rmem x s) (rmem x o).
  Proof. exact (set_alg_mem ASym s o false x Hs Ho nosame). Qed.

  (* first-insertion order: the exact key lists *)
  Lemma union_order : sunion rd_eqb s o = s ++ filter (fun y => negb (rmem y s)) o.
  Proof. exact (set_alg_order AUnion s o Hs Ho). Qed.
  Lemma inter_order : sinter rd_eqb s o = filter (fun y => rmem y o) s.
  Proof. exact (set_alg_order AInter s o Hs Ho). Qed.
  Lemma diff_order : sdiff rd_eqb s o = filter (fun y => negb (rmem y o)) s.
  Proof. exact (set_alg_order ADiff s o Hs Ho). Qed.
  Lemma sym_order :
    ssym rd_eqb s o = filter (fun y => negb (rmem y o)) s ++ filter (fun y => negb (rmem y s)) o.
  Proof. exact (set_alg_order ASym s o Hs Ho). Qed.
End NamedCopy.

Lemma order_first_insertion_all s o :
  ND s -> ND o ->
  sunion_update rd_eqb s o false = s ++ filter (fun y => negb (rmem y s)) o /\
  sinter_update rd_eqb s o false = filter (fun y => rmem y o) s /\
  sdiff_update rd_eqb s o false = filter (fun y => negb (rmem y o)) s /\
  ssym_update rd_eqb s o false
    = filter (fun y => negb (rmem y o)) s ++ filter (fun y => negb (rmem y s)) o.
Proof.
  intros Hs Ho. repeat split.
  - exact (set_alg_order AUnion s o Hs Ho).
  - exact (set_alg_order AInter s o Hs Ho).
  - exact (set_alg_order ADiff s o Hs Ho).
  - exact (set_alg_order ASym s o Hs Ho).
Qed.

Lemma add_spec x s :
  ND s -> sadd rd_eqb x s = (if rmem x s then s else s ++ [x]) /\ ND (sadd rd_eqb x s).
Proof. intros H. split; [reflexivity|apply ND_sadd, H]. Qed.

Theorem subset_spec s o :
  sissubset rd_eqb s o = true <-> (forall x, rmem x s = true -> rmem x o = true).
Proof. apply (sissubset_spec rdata rd_eqb rd_eqb_refl rd_eqb_sym rd_eqb_trans). Qed.

Theorem superset_spec s o :
  sissuperset rd_eqb s o = true <-> (forall x, rmem x o = true -> rmem x s = true).
Proof. apply (sissuperset_spec rdata rd_eqb rd_eqb_refl rd_eqb_sym rd_eqb_trans). Qed.

Theorem disjoint_spec s o :
  sisdisjoint rd_eqb s o = true <-> (forall x, rmem x s = true -> rmem x o = true -> False).
Proof. apply (sisdisjoint_spec rdata rd_eqb rd_eqb_refl rd_eqb_sym rd_eqb_trans). Qed.

(* ---------- single-element methods ---------- *)

(* Set(items) / update(iterable): duplicates collapse, also inside the argument *)
Theorem sof_list_spec l x : ND (sof_list rd_eqb l) /\ rmem x (sof_list rd_eqb l) = rmem x l.
Proof.
  split; [apply ND_supdate, ND_nil|].
  unfold sof_list, rmem. rewrite (mem_supdate rdata rd_eqb rd_eqb_sym rd_eqb_trans). reflexivity.
Qed.

Theorem supdate_spec s l x :
  ND s -> ND (supdate rd_eqb s l) /\ rmem x (supdate rd_eqb s l) = rmem x s || rmem x l.
Proof.
  intros H. split; [apply ND_supdate, H|].
  apply (mem_supdate rdata rd_eqb rd_eqb_sym rd_eqb_trans).
Qed.

(* remove: ValueError (and no change) when absent; otherwise exactly the equal member goes,
   the others keep their order *)
Theorem sremove_spec s x :
  ND s ->
  (rmem x s = false -> sremove rd_eqb x s = Lib eValueError) /\
  (rmem x s = true ->
     sremove rd_eqb x s = Ok (filter (fun k => negb (rd_eqb k x)) s) /\
     forall y, rmem y (filter (fun k => negb (rd_eqb k x)) s) = rmem y s && negb (rd_eqb y x)).
Proof.
  intros H. unfold sremove, rmem. split; intros E; rewrite E; [reflexivity|].
  rewrite (sdel_filter rdata rd_eqb rd_eqb_sym rd_eqb_trans) by exact H.
  split; [reflexivity|]. intros y.
  apply (mem_filter rdata rd_eqb _ y s (neq_compat rdata rd_eqb rd_eqb_sym rd_eqb_trans x)).
Qed.

Theorem sdiscard_spec s x y :
  ND s -> rmem y (sdiscard rd_eqb x s) = rmem y s && negb (rd_eqb y x).
Proof. intros H. apply (mem_sdel rdata rd_eqb rd_eqb_sym rd_eqb_trans), H. Qed.

(* pop: the newest member; KeyError exactly on the empty set *)
Theorem spop_spec (s : list rdata) :
  (s = [] -> spop s = Internal iKeyError) /\
  (forall x s', spop s = Ok (x, s') -> s = s' ++ [x]) /\
  (s <> [] -> exists x s', spop s = Ok (x, s')).
Proof.
  split; [intros ->; reflexivity|]. split; [intros x s'; apply spop_snoc|].
  induction s as [|k r IH]; [congruence|]. intros _. cbn.
  destruct r as [|k2 r2]; [eauto|].
  destruct IH as (x & s' & E); [discriminate|]. rewrite E. eauto.
Qed.

(* s[i] is the i-th member in insertion order *)
Theorem sget_spec (s : list rdata) i :
  0 <= i -> sget s i = match nth_error s (Z.to_nat i) with Some x => Ok x | None => Internal iStopIteration end.
Proof. intros H. unfold sget. destruct (Z.ltb_spec i 0); [lia|reflexivity]. Qed.

(* ---------- the algebra at the level of the machine: for every reachable state the
   hypotheses of the algebra (duplicate-free operands, aliasing only of a register with itself)
   hold by the invariant ---------- *)

Theorem set_machine_inplace ops w a r o s os :
  let st := sexec [] ops in
  nth_error st r = Some s -> nth_error st o = Some os -> inplace_alg w = Some a ->
  exists s', sstep st (SInpl w r (Some o)) = (set_nth st r s', N) /\
    ND s' /\ (forall x, rmem x s' = alg_bool a (rmem x s) (rmem x os)) /\
    (r <> o -> s' = alg_order rdata rd_eqb a s os).
Proof.
  cbv zeta. intros Es Eo Ea.
  pose proof (set_machine_nodup ops) as Hnd.
  assert (Hs : ND s) by (eapply Forall_nth_error; eassumption).
  assert (Ho : ND os) by (eapply Forall_nth_error; eassumption).
  assert (Hsame : Nat.eqb r o = true -> os = s) by (intros E; eapply same_reg; eassumption).
  cbn [sstep]. rewrite Es, Eo, Ea. eexists. split; [reflexivity|].
  split; [apply ND_salg; assumption|]. split.
  - intros x. apply set_alg_mem; assumption.
  - intros Hne. apply Nat.eqb_neq in Hne. rewrite Hne. apply set_alg_order; assumption.
Qed.

Theorem set_machine_copying ops w d r o s os st' :
  let st := sexec [] ops in
  nth_error st r = Some s -> nth_error st o = Some os ->
  assign st d (salg (func_alg w) s os false) = Some st' ->
  sstep st (SFunc w d r (Some o)) = (st', N) /\
  ND (salg (func_alg w) s os false) /\
  (forall x, rmem x (salg (func_alg w) s os false) = alg_bool (func_alg w) (rmem x s) (rmem x os)) /\
  salg (func_alg w) s os false = alg_order rdata rd_eqb (func_alg w) s os.
Proof.
  cbv zeta. intros Es Eo Ed.
  pose proof (set_machine_nodup ops) as Hnd.
  assert (Hs : ND s) by (eapply Forall_nth_error; eassumption).
  assert (Ho : ND os) by (eapply Forall_nth_error; eassumption).
  cbn [sstep]. rewrite Es, Eo. unfold sclone. rewrite Ed.
  split; [reflexivity|]. split; [apply ND_salg; try assumption; discriminate|]. split.
  - intros x. apply set_alg_mem; try assumption. discriminate.
  - apply set_alg_order; assumption.
Qed.

Theorem set_machine_pred ops w r o s os :
  let st := sexec [] ops in
  nth_error st r = Some s -> nth_error st o = Some os ->
  sstep st (SPred w r (Some o)) = (st, ob (spred w s os)) /\
  (spred PEq s os = true <-> forall x, rmem x s = rmem x os) /\
  (spred PSubset s os = true <-> forall x, rmem x s = true -> rmem x os = true) /\
  (spred PSuperset s os = true <-> forall x, rmem x os = true -> rmem x s = true) /\
  (spred PDisjoint s os = true <-> forall x, rmem x s = true -> rmem x os = true -> False) /\
  spred PNe s os = negb (spred PEq s os).
Proof.
  cbv zeta. intros Es Eo.
  pose proof (set_machine_nodup ops) as Hnd.
  assert (Hs : ND s) by (eapply Forall_nth_error; eassumption).
  assert (Ho : ND os) by (eapply Forall_nth_error; eassumption).
  cbn [sstep]. rewrite Es, Eo. split; [reflexivity|].
  split; [apply set_eq_ignores_order; assumption|].
  split; [apply subset_spec|]. split; [apply superset_spec|]. split; [apply disjoint_spec|reflexivity].
Qed.
