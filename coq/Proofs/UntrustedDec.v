(* The concrete per-type parsers of the model satisfy the API discipline the reader theorems assume
   (non-vacuity), dns.rdata.from_wire, and the position of the parser after each record. *)
From DV Require Import Base.Prelude Model.NameM Model.ParserM Model.UntrustedM
                       Proofs.NameValid Proofs.ParserSafe Proofs.ParserProg Proofs.UntrustedSafe.
Open Scope Z_scope.

Section Dec.
  Variable wire : list Z.
  Hypothesis Hwire : bytes_ok wire.

  Notation tame := (tame wire).

  Lemma tame_of_good {A} lo (m : M A) P (Q : pstate -> A -> pstate -> Prop) :
    (forall s, wfl wire lo s -> good wire lo P s (m s) (Q s)) -> tame lo m.
  Proof.
    intros H s W. specialize (H s W). unfold good in H.
    destruct (m s) as [[a|[e|e]] s1]; cbn; [| |contradiction].
    - destruct H as (? & ? & ? & ?). auto.
    - destruct H as (? & ? & ? & ?). auto.
  Qed.

  Lemma tame_ret {A} lo (a : A) : tame lo (ret a).
  Proof. intros s W. cbn. split; [exact W|split; [reflexivity|lia]]. Qed.

  Lemma tame_raise {A} lo x : tame lo (@raise A x).
  Proof. intros s W. cbn. split; [exact W|split; [reflexivity|lia]]. Qed.

  Lemma tame_bind {A B} lo (m : M A) (k : A -> M B) :
    tame lo m -> (forall a, tame lo (k a)) -> tame lo (mbind m k).
  Proof.
    intros Hm Hk s W. specialize (Hm s W). unfold mbind.
    destruct (m s) as [[a|x] s1]; cbn in Hm |- *; auto.
    destruct Hm as (W1 & E1 & F1). specialize (Hk a s1 W1).
    destruct Hk as (W2 & E2 & F2). repeat split; auto; try congruence; try lia; apply W2.
  Qed.

  Lemma tame_get_bytes lo size : 0 <= lo -> tame lo (get_bytes wire size).
  Proof.
    intros Hlo s W. destruct (Z_lt_le_dec size 0) as [Hn|Hn].
    - unfold get_bytes. destruct (size <? 0) eqn:E; [|lia]. cbn. split; [exact W|split; [reflexivity|lia]].
    - pose proof (good_get_bytes wire Hwire lo size s Hlo W Hn) as G. unfold good in G.
      destruct (get_bytes wire size s) as [[a|[e|e]] s1]; cbn; [| |contradiction].
      + destruct G as (? & ? & ? & ?). auto.
      + destruct G as (? & ? & ? & ?). auto.
  Qed.

  Lemma tame_get_struct lo ws : 0 <= lo -> tame lo (get_struct wire ws).
  Proof.
    intros Hlo. unfold get_struct. apply tame_bind; [apply tame_get_bytes; auto|].
    intros data. destruct (unpack ws data); [apply tame_ret|apply tame_raise].
  Qed.

  Lemma tame_get_uint lo w : 0 <= lo -> tame lo (get_uint wire w).
  Proof.
    intros Hlo. unfold get_uint. apply tame_bind; [apply tame_get_struct; auto|].
    intros [|v [|? ?]]; try apply tame_raise. apply tame_ret.
  Qed.

  Lemma tame_get_uint48 lo : 0 <= lo -> tame lo (get_uint48 wire).
  Proof. intros Hlo. unfold get_uint48. apply tame_bind; [apply tame_get_bytes; auto|]. intros; apply tame_ret. Qed.

  Lemma tame_get_counted lo k : 0 <= lo -> tame lo (get_counted_bytes wire k).
  Proof.
    intros Hlo. unfold get_counted_bytes. apply tame_bind; [apply tame_get_bytes; auto|].
    intros; apply tame_get_bytes; auto.
  Qed.

  Lemma tame_get_remaining lo : 0 <= lo -> tame lo (get_remaining wire).
  Proof. intros Hlo s W. unfold get_remaining. apply (tame_get_bytes lo (remaining s) Hlo s W). Qed.

  Lemma tame_get_name lo origin : 0 <= lo -> tame lo (get_name wire origin).
  Proof.
    intros Hlo. eapply (tame_of_good lo _ _ (fun s _ s' => pcur s' = pfur s' /\ pcur s < pcur s' /\ (pfur s <= pend s -> pcur s' <= pend s'))).
    intros s W. apply good_get_name; auto.
  Qed.

  Lemma tame_restrict_to {A} lo size (body : M A) : 0 <= lo -> tame lo body -> tame lo (restrict_to size body).
  Proof.
    intros Hlo Hb s W. pose proof W as (Hc & He & Hf). unfold restrict_to, remaining.
    destruct (size <? 0) eqn:E1; [cbn; split; [exact W|split; [reflexivity|lia]]|].
    destruct (size >? pend s - pcur s) eqn:E2; [cbn; split; [exact W|split; [reflexivity|lia]]|].
    assert (W0 : wfl wire lo (set_end s (pcur s + size))) by (unfold wfl, set_end; cbn; repeat split; lia).
    specialize (Hb _ W0).
    destruct (body (set_end s (pcur s + size))) as [[a|x] s1]; cbn in Hb |- *.
    - destruct Hb as ((? & ? & ?) & E & F). cbn in E, F.
      destruct (pcur s1 =? pend s1); cbn; unfold wfl; cbn; repeat split; auto; lia.
    - destruct Hb as ((? & ? & ?) & E & F). cbn in E, F. unfold wfl; cbn; repeat split; auto; lia.
  Qed.

  Lemma tame_ext {A} lo (m m' : M A) : (forall s, m s = m' s) -> tame lo m' -> tame lo m.
  Proof. intros E H s W. rewrite E. apply H; auto. Qed.

  Lemma tame_txt_loop lo : 0 <= lo -> forall fuel n, tame lo (txt_loop wire fuel n).
  Proof.
    intros Hlo. induction fuel as [|f IH]; intros n; cbn [txt_loop]; [apply tame_raise|].
    intros s W. destruct (remaining s >? 0).
    - apply (tame_bind lo (get_counted_bytes wire 1) (fun _ => txt_loop wire f (S n))); auto.
      apply tame_get_counted; auto.
    - cbn. split; [exact W|split; [reflexivity|lia]].
  Qed.

  Lemma tame_dec_txt lo : 0 <= lo -> tame lo (dec_txt wire).
  Proof.
    intros Hlo s W. unfold dec_txt.
    apply (tame_bind lo (txt_loop wire (S (Z.to_nat (remaining s))) 0%nat)
                     (fun n => match n with O => raise (XInt iValueError) | _ => ret tt end)); auto.
    - apply tame_txt_loop; auto.
    - intros [|?]; [apply tame_raise|apply tame_ret].
  Qed.

  Lemma tame_dec_option lo otype : 0 <= lo -> tame lo (dec_option wire otype).
  Proof.
    intros Hlo. unfold dec_option.
    repeat match goal with |- tame lo (if ?b then _ else _) => destruct b end.
    - unfold dec_ecs. apply tame_bind; [apply tame_get_struct; auto|].
      intros [|family [|src [|scope [|? ?]]]]; try apply tame_raise.
      apply tame_bind; [apply tame_get_bytes; auto|]. intros _.
      repeat match goal with |- tame lo (if ?b then _ else _) => destruct b end;
        first [apply tame_ret | apply tame_raise].
    - unfold dec_cookie. apply tame_bind; [apply tame_get_bytes; auto|]. intros _.
      apply tame_bind; [apply tame_get_remaining; auto|]. intros server.
      match goal with |- tame lo (if ?b then _ else _) => destruct b end; [apply tame_ret|apply tame_raise].
    - unfold dec_ede. apply tame_bind; [apply tame_get_uint; auto|]. intros _.
      apply tame_bind; [apply tame_get_remaining; auto|]. intros [|? ?]; [apply tame_ret|].
      match goal with |- tame lo (if ?b then _ else _) => destruct b end; [apply tame_ret|apply tame_raise].
    - apply tame_bind; [apply tame_get_name; auto|]. intros; apply tame_ret.
    - unfold dec_text_option. apply tame_bind; [apply tame_get_remaining; auto|]. intros text.
      match goal with |- tame lo (if ?b then _ else _) => destruct b end; [apply tame_ret|apply tame_raise].
    - apply tame_bind; [apply tame_get_remaining; auto|]. intros; apply tame_ret.
  Qed.

  Lemma tame_opt_loop lo : 0 <= lo -> forall fuel, tame lo (opt_loop wire fuel).
  Proof.
    intros Hlo. induction fuel as [|f IH]; cbn [opt_loop]; [apply tame_raise|].
    intros s W. destruct (remaining s >? 0).
    - apply (tame_bind lo (get_struct wire [2; 2])
               (fun h => match h with
                         | [otype; olen] => dom _ <- restrict_to olen (dec_option wire otype); opt_loop wire f
                         | _ => raise (XInt iIndexError)
                         end)); auto.
      + apply tame_get_struct; auto.
      + intros [|otype [|olen [|? ?]]]; try apply tame_raise.
        apply tame_bind; [apply tame_restrict_to; auto; apply tame_dec_option; auto|]. intros; apply IH.
    - cbn. split; [exact W|split; [reflexivity|lia]].
  Qed.

  Lemma tame_dec_opt lo : 0 <= lo -> tame lo (dec_opt wire).
  Proof. intros Hlo s W. unfold dec_opt. apply tame_opt_loop; auto. Qed.

  Lemma tame_dec_tsig lo : 0 <= lo -> tame lo (dec_tsig wire).
  Proof.
    intros Hlo. unfold dec_tsig.
    repeat (apply tame_bind; [first [apply tame_get_name | apply tame_get_uint48 | apply tame_get_uint
                                    | apply tame_get_counted | apply tame_get_struct]; auto | intros ?]).
    match goal with |- tame lo (match ?h with _ => _ end) => destruct h as [|? [|error [|? ?]]] end;
      try apply tame_raise.
    destruct (error >? 4095); [apply tame_raise|apply tame_ret].
  Qed.

  Lemma tame_dec_soa lo origin : 0 <= lo -> tame lo (dec_soa wire origin).
  Proof.
    intros Hlo. unfold dec_soa.
    repeat (apply tame_bind; [first [apply tame_get_name | apply tame_get_struct]; auto | intros ?]).
    apply tame_ret.
  Qed.

  (* the instance used by `run`: every modelled per-type parser is disciplined *)
  Theorem dec_rdata_disciplined origin rdclass rdtype : api_disciplined wire (dec_rdata wire origin rdclass rdtype).
  Proof.
    intros lo Hlo. unfold dec_rdata.
    repeat match goal with |- tame lo (if ?b then _ else _) => destruct b end.
    - apply tame_bind; [apply tame_get_name; auto|]. intros; apply tame_ret.
    - apply tame_bind; [apply tame_get_uint; auto|]. intros.
      apply tame_bind; [apply tame_get_name; auto|]. intros; apply tame_ret.
    - apply tame_dec_soa; auto.
    - apply tame_dec_txt; auto.
    - apply tame_dec_opt; auto.
    - apply tame_dec_tsig; auto.
    - apply tame_bind; [apply tame_get_remaining; auto|]. intros b.
      destruct (zlen b =? 4); [apply tame_ret|apply tame_raise].
    - apply tame_bind; [apply tame_get_remaining; auto|]. intros b.
      destruct (zlen b =? 16); [apply tame_ret|apply tame_raise].
    - apply tame_bind; [apply tame_get_remaining; auto|]. intros; apply tame_ret.
  Qed.

  (* ---------- dns.rdata.from_wire ---------- *)
  Section Rdata.
    Variable rdparse : Z -> Z -> M unit.
    Hypothesis rd_api : forall c t, api_disciplined wire (rdparse c t).

    Theorem rdata_from_wire_family rdclass rdtype current rdlen :
      0 <= rdlen ->
      match rdata_from_wire wire rdparse rdclass rdtype current rdlen with
      | (Val _, s) => pcur s = current + rdlen /\ current + rdlen <= zlen wire
      | (Exn (XLib e), _) => is_form e = true
      | (Exn (XInt _), _) => False
      end.
    Proof.
      intros Hr. unfold rdata_from_wire.
      pose proof (parser_init_spec wire current) as Hi.
      destruct (parser_init wire current) as [s0|x]; [|subst x; reflexivity].
      destruct Hi as (W & Hf & Hc & Hle & He).
      pose proof (good_restrict_to wire 0 (isFormFam) rdlen
                    (rdata_from_wire_parser rdparse rdclass rdtype) s0 (fun _ _ => True)
                    ltac:(lia) W Hr eq_refl) as G.
      unfold good in G.
      match type of G with ?X -> _ => assert (HX : X) end.
      { intros s1 W1 _ _ _. unfold rdata_from_wire_parser. apply good_wrapped; auto. apply rd_api. lia. }
      specialize (G HX).
      destruct (restrict_to rdlen (rdata_from_wire_parser rdparse rdclass rdtype) s0) as [[a|[e|e]] s1]; auto.
      - destruct G as (_ & _ & _ & (s2 & _ & -> & C & E & L)). cbn. lia.
      - destruct G as (P & _). exact P.
    Qed.
  End Rdata.

  (* ---------- where the parser stands after a record ---------- *)
  Section Position.
    Variable rdparse : Z -> Z -> M unit.
    Hypothesis rd_api : forall c t, api_disciplined wire (rdparse c t).

    Lemma parse_rr_header_state section rdclass rdtype m s :
      snd (parse_rr_header section rdclass rdtype m s) = s /\ snd (fst (parse_rr_header section rdclass rdtype m s)) = m.
    Proof.
      unfold parse_rr_header, mmbind, getm, mret, mraise. cbn.
      repeat match goal with |- context [if ?b then _ else _] => destruct b end; cbn; auto.
      all: destruct (zone_classes m); cbn; auto.
      all: repeat match goal with |- context [if ?b then _ else _] => destruct b end; cbn; auto.
    Qed.

    Lemma parse_special_state section count position nm rdclass rdtype m s :
      snd (parse_special_rr_header section count position nm rdclass rdtype m s) = s
      /\ snd (fst (parse_special_rr_header section count position nm rdclass rdtype m s)) = m.
    Proof.
      unfold parse_special_rr_header, mmbind, getm, mret, mraise. cbn.
      repeat match goal with |- context [if ?b then _ else _] => destruct b end; cbn; auto.
    Qed.

    (* `with parser.restrict_to(rdlen): rd = dns.rdata.from_wire_parser(...)` returning normally
       leaves the parser exactly at rdata_start + rdlen *)
    Lemma mrestrict_traced_position rdclass rdtype rdlen m s a m' s' :
      wfl wire 0 s -> 0 <= rdlen ->
      mrestrict_to rdlen (traced_rdata rdparse rdclass rdtype) m s = (Val a, m', s') ->
      pcur s' = pcur s + rdlen.
    Proof.
      intros W Hr. pose proof W as (Hc & He & Hf). unfold mrestrict_to, remaining.
      destruct (rdlen <? 0) eqn:E1; [lia|].
      destruct (rdlen >? pend s - pcur s) eqn:E2; [discriminate|].
      assert (W0 : wfl wire 0 (set_end s (pcur s + rdlen))) by (unfold wfl, set_end; cbn; repeat split; lia).
      unfold traced_rdata, rdata_from_wire_parser, wrap.
      pose proof (rd_api rdclass rdtype 0 ltac:(lia) _ W0) as (W1 & P1 & F1).
      destruct (rdparse rdclass rdtype (set_end s (pcur s + rdlen))) as [[u|[e|e]] s1]; cbn in P1, W1, F1 |- *.
      - destruct (pcur s1 =? pend s1) eqn:E3; [|discriminate].
        intros X; inversion X; subst. cbn. lia.
      - destruct (is_form e); discriminate.
      - discriminate.
    Qed.

    Theorem get_rr_position o section count i fu m0 s nm s1 rdtype rdclass ttl rdlen s2 r m' s' :
      get_name wire None s = (Val nm, s1) ->
      get_struct wire [2; 2; 4; 2] s1 = (Val [rdtype; rdclass; ttl; rdlen], s2) ->
      wfl wire 0 s2 -> 0 <= rdlen ->
      get_rr wire rdparse o section count i fu m0 s = (Val r, m', s') ->
      pcur s' = pcur s2 + rdlen.
    Proof.
      intros H1 H2 W2 Hr. unfold get_rr.
      unfold mmbind at 1. unfold liftP at 1. rewrite H1.
      unfold mmbind at 1. unfold liftP at 1. rewrite H2.
      unfold mmbind at 1.
      set (hdr := (if (rdtype =? tOPT) || (rdtype =? tTSIG)
                   then parse_special_rr_header section count i nm rdclass rdtype
                   else parse_rr_header section rdclass rdtype) m0 s2).
      assert (Hh : snd hdr = s2 /\ snd (fst hdr) = m0).
      { unfold hdr. destruct ((rdtype =? tOPT) || (rdtype =? tTSIG));
          [apply parse_special_state|apply parse_rr_header_state]. }
      destruct hdr as [[[[[rdclass' deleting] empty]|x] mh] sh]; cbn in Hh; destruct Hh as [-> ->]; [|discriminate].
      unfold mmbind at 1. unfold getp at 1. unfold catch.
      (* the try body *)
      match goal with |- (match ?body m0 s2 with _ => _ end) = _ -> _ => destruct (body m0 s2) as [[[v|x] mb] sb] eqn:EB end.
      - (* no exception: the rdata was consumed exactly *)
        intros X; inversion X; subst; clear X.
        revert EB. unfold mmbind at 1.
        match goal with |- (match ?first m0 s2 with _ => _ end) = _ -> _ => destruct (first m0 s2) as [[[hv|x] m4] s4] eqn:EF end; [|discriminate].
        assert (P4 : pcur s4 = pcur s2 + rdlen).
        { destruct empty.
          - destruct (rdlen >? 0) eqn:E0; [discriminate|]. unfold mret in EF. inversion EF; subst. lia.
          - revert EF. unfold mmbind at 1.
            destruct (mrestrict_to rdlen (traced_rdata rdparse rdclass' rdtype) m0 s2) as [[[u|x] m3] s3] eqn:ER; [|discriminate].
            unfold mret. intros X; inversion X; subst.
            eapply mrestrict_traced_position; eauto. }
        (* the bookkeeping after it does not move the parser *)
        destruct (rdtype =? tOPT).
        { unfold mmbind, upd, mret. intros X; inversion X; subst. exact P4. }
        destruct (rdtype =? tTSIG).
        { destruct (negb (ttl =? 0)); [discriminate|].
          destruct (negb (o_keyring_false o)); [discriminate|].
          unfold mmbind, upd, mret. intros X; inversion X; subst. exact P4. }
        unfold mmbind, upd, mret. intros X; inversion X; subst. exact P4.
      - (* an exception: only continue_on_error returns normally, after seek(rdata_start + rdlen) *)
        destruct (o_coe o); [|discriminate].
        unfold mmbind, getp, upd, liftP, seek, mret. cbn.
        destruct ((pcur s2 + rdlen <? 0) || (pcur s2 + rdlen >? pend sb)); [discriminate|].
        intros X; inversion X; subst. reflexivity.
    Qed.
  End Position.
  (* hypothesis-free instance: the executable reader of `run` (the one the correspondence ties
     to dns.message.from_wire) never ends in a Python-level exception *)
  Theorem message_from_wire_concrete (origin : option name) bits :
    match message_from_wire wire (dec_rdata wire origin) (opts_of_bits bits) with
    | (Exn (XInt _), _) => False
    | (Exn (XLib e), m) =>
        (is_form e = true \/ e = eUnknownTSIGKey) \/ (e = eTruncated /\ o_raise_trunc (opts_of_bits bits) = true)
    | (Val _, m) => True
    end.
  Proof.
    pose proof (message_from_wire_family wire Hwire (dec_rdata wire origin)
                  (fun c t => dec_rdata_disciplined origin c t) (opts_of_bits bits)) as H.
    destruct (message_from_wire wire (dec_rdata wire origin) (opts_of_bits bits)) as [[a|[e|e]] m]; auto.
    destruct H as (_ & H). exact H.
  Qed.
End Dec.
