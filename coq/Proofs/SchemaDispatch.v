(* get_rdata_class: for every history of lookups and load_all_types calls that never asks for
   class ANY of a type that exists only for specific classes, every lookup returns the
   history-free answer (own module, else ANY module, else GenericRdata).  The excluded
   history is a genuine upstream defect (known finding): dispatch_any_first_refuted. *)
From DV Require Import Base.Prelude Model.DispatchM.
Open Scope Z_scope.

Lemma key_eqb_eq : forall a b, key_eqb a b = true <-> a = b.
Proof.
  intros [a1 a2] [b1 b2]. unfold key_eqb. cbn [fst snd]. rewrite andb_true_iff, !Z.eqb_eq.
  split; [intros [-> ->]; reflexivity|intros H; inversion H; auto].
Qed.

Lemma cache_get_set : forall c k i k',
  cache_get (cache_set c k i) k' = if key_eqb k' k then Some i else cache_get c k'.
Proof. reflexivity. Qed.

Lemma cache_get_set_same : forall c k i, cache_get (cache_set c k i) k = Some i.
Proof. intros. rewrite cache_get_set. replace (key_eqb k k) with true; [reflexivity|]. symmetry. apply key_eqb_eq. reflexivity. Qed.

(* setting a key that was unbound keeps every existing binding *)
Lemma cache_set_mono : forall c k i k' j,
  cache_get c k = None -> cache_get c k' = Some j -> cache_get (cache_set c k i) k' = Some j.
Proof.
  intros c k i k' j Hn Hs. rewrite cache_get_set. destruct (key_eqb k' k) eqn:E; [|exact Hs].
  apply key_eqb_eq in E. subst. congruence.
Qed.

Section Dispatch.
  Variable mods : list key.
  Variable all_types : list Z.

  (* no type has both a class-specific and a class-independent module *)
  Definition mods_ok : bool :=
    forallb (fun k => (fst k =? cANY) || negb (has_module mods cANY (snd k))) mods.
  (* load_all_types reaches every module: IN and ANY modules through the RdataType members,
     and the one CH module (A) explicitly *)
  Definition loadable : bool :=
    forallb (fun k => (((fst k =? cIN) || (fst k =? cANY)) && existsb (Z.eqb (snd k)) all_types)
                      || key_eqb k (cCH, 1)) mods.

  Definition type_has_module (t : Z) : bool := existsb (fun k => snd k =? t) mods.
  (* the poisoning lookup: class ANY for a type without ANY module but with some other module *)
  Definition safe_query (c t : Z) : bool :=
    negb (c =? cANY) || has_module mods cANY t || negb (type_has_module t).
  Definition safe_step (s : step) : bool :=
    match s with Query c t => safe_query c t | LoadAll _ => true end.

  Hypothesis Hmods : mods_ok = true.
  Hypothesis Hload : loadable = true.

  Lemma has_module_in : forall d t, has_module mods d t = true <-> In (d, t) mods.
  Proof.
    intros d t. induction mods as [|k r IH]; cbn [has_module In]; [split; [discriminate|tauto]|].
    rewrite orb_true_iff, key_eqb_eq, IH. split; intros [H|H]; auto.
  Qed.

  Lemma mods_sep : forall c t, c <> cANY -> has_module mods c t = true -> has_module mods cANY t = false.
  Proof.
    intros c t Hc H. apply has_module_in in H.
    unfold mods_ok in Hmods. rewrite forallb_forall in Hmods. specialize (Hmods _ H). cbn [fst snd] in Hmods.
    apply orb_prop in Hmods as [E|E]; [apply Z.eqb_eq in E; contradiction|].
    destruct (has_module mods cANY t); [discriminate|reflexivity].
  Qed.

  Lemma has_module_type : forall d t, has_module mods d t = true -> type_has_module t = true.
  Proof.
    intros d t H. apply has_module_in in H. unfold type_has_module. apply existsb_exists.
    exists (d, t). split; [exact H|apply Z.eqb_refl].
  Qed.

  Definition covered (st : dstate) (d t : Z) : Prop := cache_get (cache st) (d, t) = Some (Typed d t).

  Record Inv (st : dstate) : Prop := {
    inv_val : forall c t i, cache_get (cache st) (c, t) = Some i -> i = stateless mods c t;
    inv_gen : forall t, cache_get (cache st) (cANY, t) = Some Generic -> type_has_module t = false;
    inv_any : forall c t, cache_get (cache st) (c, t) = Some (Typed cANY t) -> covered st cANY t;
    inv_full : dyn st = false -> forall d t, has_module mods d t = true -> covered st d t
  }.

  Lemma inv_init : Inv init_state.
  Proof. split; cbn; intros; discriminate. Qed.

  Lemma stateless_own : forall c t, has_module mods c t = true -> stateless mods c t = Typed c t.
  Proof. intros c t H. unfold stateless. rewrite H. reflexivity. Qed.

  Lemma stateless_any : forall c t, has_module mods cANY t = true -> stateless mods c t = Typed cANY t.
  Proof.
    intros c t H. unfold stateless. destruct (has_module mods c t) eqn:E.
    - destruct (Z.eq_dec c cANY) as [->|Hc]; [reflexivity|].
      rewrite (mods_sep c t Hc E) in H. discriminate.
    - rewrite H. reflexivity.
  Qed.

  Lemma stateless_none : forall c t, type_has_module t = false -> stateless mods c t = Generic.
  Proof.
    intros c t H. unfold stateless.
    destruct (has_module mods c t) eqn:E1; [apply has_module_type in E1; congruence|].
    destruct (has_module mods cANY t) eqn:E2; [apply has_module_type in E2; congruence|reflexivity].
  Qed.

  Lemma stateless_typed_inv : forall c t d t', stateless mods c t = Typed d t' ->
    t' = t /\ has_module mods d t = true /\ (d = c \/ (d = cANY /\ has_module mods c t = false)).
  Proof.
    intros c t d t' H. unfold stateless in H.
    destruct (has_module mods c t) eqn:E1; [inversion H; subst; auto|].
    destruct (has_module mods cANY t) eqn:E2; [inversion H; subst; auto|discriminate].
  Qed.

  (* the state after the "both cache probes missed" branch, and the answer *)
  Definition miss_result (ug : bool) (st : dstate) (c t : Z) : option impl * dstate :=
    if dyn st then
      if has_module mods c t then
        (Some (Typed c t), mk_dstate (cache_set (cache st) (c, t) (Typed c t)) (dyn st))
      else if has_module mods cANY t then
        (Some (Typed cANY t),
         mk_dstate (cache_set (cache_set (cache st) (cANY, t) (Typed cANY t)) (c, t) (Typed cANY t)) (dyn st))
      else if ug then (Some Generic, mk_dstate (cache_set (cache st) (c, t) Generic) (dyn st))
      else (None, st)
    else if ug then (Some Generic, mk_dstate (cache_set (cache st) (c, t) Generic) (dyn st))
    else (None, st).

  Lemma get_class_cases : forall ug st c t,
    get_class mods ug st c t =
    match cache_get (cache st) (c, t) with
    | Some i => (Some i, st)
    | None => match cache_get (cache st) (cANY, t) with
              | Some i => (Some i, st)
              | None => miss_result ug st c t
              end
    end.
  Proof.
    intros. unfold get_class, miss_result.
    destruct (cache_get (cache st) (c, t)); [reflexivity|].
    destruct (cache_get (cache st) (cANY, t)); [reflexivity|].
    destruct (dyn st); [|reflexivity].
    destruct (has_module mods c t); [reflexivity|].
    destruct (has_module mods cANY t); reflexivity.
  Qed.

  Definition mono (st st' : dstate) : Prop :=
    forall k i, cache_get (cache st) k = Some i -> cache_get (cache st') k = Some i.

  Lemma mono_refl : forall st, mono st st.
  Proof. intros st k i H. exact H. Qed.
  Lemma mono_trans : forall a b c, mono a b -> mono b c -> mono a c.
  Proof. intros a b c H1 H2 k i H. apply H2, H1, H. Qed.

  (* a new binding (c,t) := v with v = stateless, on a state where (c,t) was unbound *)
  Lemma inv_set : forall st c t v,
    Inv st -> cache_get (cache st) (c, t) = None -> v = stateless mods c t ->
    (v = Generic -> c = cANY -> type_has_module t = false) ->
    (forall t', v = Typed cANY t' -> c = cANY \/ covered st cANY t') ->
    (dyn st = false -> forall d t', has_module mods d t' = true -> (d, t') <> (c, t)) ->
    Inv (mk_dstate (cache_set (cache st) (c, t) v) (dyn st)).
  Proof.
    intros st c t v HI Hn Hv Hg Ha Hf. split; cbn [cache dyn].
    - intros c' t' i H. rewrite cache_get_set in H. destruct (key_eqb (c', t') (c, t)) eqn:E.
      + apply key_eqb_eq in E. injection E as -> ->. injection H as <-. exact Hv.
      + eapply inv_val; eauto.
    - intros t' H. rewrite cache_get_set in H. destruct (key_eqb (cANY, t') (c, t)) eqn:E.
      + apply key_eqb_eq in E. injection E as <- ->. injection H as Hvv. apply Hg; [exact Hvv|reflexivity].
      + eapply inv_gen; eauto.
    - intros c' t' H. unfold covered. cbn [cache]. rewrite cache_get_set in H.
      destruct (key_eqb (c', t') (c, t)) eqn:E.
      + apply key_eqb_eq in E. injection E as -> ->. injection H as Hvv.
        destruct (Ha t Hvv) as [Hc|Hc].
        * subst c. rewrite cache_get_set_same. congruence.
        * rewrite cache_get_set. destruct (key_eqb (cANY, t) (c, t)) eqn:E2; [|exact Hc].
          rewrite Hvv. reflexivity.
      + pose proof (inv_any st HI c' t' H) as Hc. unfold covered in Hc.
        apply cache_set_mono; assumption.
    - intros Hd d t' Hm. unfold covered. cbn [cache].
      pose proof (inv_full st HI Hd d t' Hm) as Hc. unfold covered in Hc.
      apply cache_set_mono; assumption.
  Qed.

  Lemma get_class_spec : forall ug st c t,
    Inv st -> safe_query c t = true ->
    Inv (snd (get_class mods ug st c t)) /\
    dyn (snd (get_class mods ug st c t)) = dyn st /\
    mono st (snd (get_class mods ug st c t)) /\
    (fst (get_class mods ug st c t) = Some (stateless mods c t) \/
     (ug = false /\ fst (get_class mods ug st c t) = None)) /\
    (dyn st = true -> has_module mods c t = true -> covered (snd (get_class mods ug st c t)) c t) /\
    (dyn st = true -> has_module mods c t = false -> has_module mods cANY t = true ->
       covered (snd (get_class mods ug st c t)) cANY t).
  Proof.
    intros ug st c t HI Hs. rewrite get_class_cases.
    destruct (cache_get (cache st) (c, t)) as [i|] eqn:E1.
    { pose proof (inv_val st HI c t i E1) as Hi. cbn [fst snd].
      split; [exact HI|]. split; [reflexivity|]. split; [apply mono_refl|].
      split; [left; congruence|]. split.
      - intros _ Hm. unfold covered. rewrite E1, Hi, (stateless_own c t Hm). reflexivity.
      - intros _ Hm Ha. apply (inv_any st HI c t). rewrite E1, Hi. unfold stateless. rewrite Hm, Ha. reflexivity. }
    destruct (cache_get (cache st) (cANY, t)) as [i|] eqn:E2.
    { pose proof (inv_val st HI cANY t i E2) as Hi. cbn [fst snd].
      split; [exact HI|]. split; [reflexivity|]. split; [apply mono_refl|].
      assert (Hans : i = stateless mods c t).
      { destruct i as [d t'|].
        - symmetry in Hi. apply stateless_typed_inv in Hi as (-> & Hm & [->|[-> _]]);
            symmetry; apply stateless_any; exact Hm.
        - rewrite (stateless_none c t); [reflexivity|]. eapply inv_gen; eauto. }
      split; [left; congruence|]. split.
      - intros _ Hm. exfalso.
        destruct (Z.eq_dec c cANY) as [->|Hc]; [congruence|].
        pose proof (mods_sep c t Hc Hm) as Hna.
        assert (Hig : i = Generic) by (rewrite Hi; unfold stateless; rewrite Hna; reflexivity).
        rewrite Hig in E2.
        pose proof (inv_gen st HI t E2). apply has_module_type in Hm. congruence.
      - intros _ _ Ha. unfold covered. rewrite E2, Hi. unfold stateless. rewrite Ha. reflexivity. }
    (* both probes missed *)
    unfold miss_result.
    destruct (dyn st) eqn:Ed.
    - destruct (has_module mods c t) eqn:Hm.
      + cbn [fst snd]. split.
        { rewrite <- Ed. apply inv_set; auto.
          - symmetry. apply stateless_own. exact Hm.
          - discriminate.
          - intros t' H. inversion H; subst. left. reflexivity.
          - rewrite Ed. discriminate. }
        split; [reflexivity|]. split; [intros k i H; apply cache_set_mono; assumption|].
        split; [left; rewrite (stateless_own c t Hm); reflexivity|]. split.
        * intros _ _. unfold covered. cbn [cache]. apply cache_get_set_same.
        * intros _ H. discriminate.
      + destruct (has_module mods cANY t) eqn:Ha.
        * cbn [fst snd].
          assert (HI1 : Inv (mk_dstate (cache_set (cache st) (cANY, t) (Typed cANY t)) (dyn st))).
          { apply inv_set; auto.
            - symmetry. apply stateless_any. exact Ha.
            - discriminate.
            - rewrite Ed. discriminate. }
          split.
          { destruct (Z.eq_dec c cANY) as [->|Hc]; [congruence|].
            rewrite <- Ed.
            change (mk_dstate (cache_set (cache_set (cache st) (cANY, t) (Typed cANY t)) (c, t) (Typed cANY t)) (dyn st))
              with (mk_dstate (cache_set (cache (mk_dstate (cache_set (cache st) (cANY, t) (Typed cANY t)) (dyn st))) (c, t) (Typed cANY t))
                              (dyn (mk_dstate (cache_set (cache st) (cANY, t) (Typed cANY t)) (dyn st)))).
            apply inv_set; auto.
            - cbn [cache]. rewrite cache_get_set.
              destruct (key_eqb (c, t) (cANY, t)) eqn:E; [apply key_eqb_eq in E; inversion E; contradiction|exact E1].
            - symmetry. apply stateless_any. exact Ha.
            - discriminate.
            - intros t' H. inversion H; subst. right. unfold covered. cbn [cache]. apply cache_get_set_same.
            - cbn [dyn]. rewrite Ed. discriminate. }
          split; [reflexivity|]. split.
          { intros k i H. cbn [cache].
            destruct (Z.eq_dec c cANY) as [->|Hc]; [congruence|].
            apply cache_set_mono.
            - rewrite cache_get_set.
              destruct (key_eqb (c, t) (cANY, t)) eqn:E; [apply key_eqb_eq in E; inversion E; contradiction|exact E1].
            - apply cache_set_mono; assumption. }
          split; [left; rewrite (stateless_any c t Ha); reflexivity|]. split; [intros _ H; discriminate|].
          intros _ _ _. unfold covered. cbn [cache]. rewrite cache_get_set.
          destruct (key_eqb (cANY, t) (c, t)) eqn:E; [reflexivity|apply cache_get_set_same].
        * (* no module at all for this class: GenericRdata *)
          assert (Hst : stateless mods c t = Generic) by (unfold stateless; rewrite Hm, Ha; reflexivity).
          destruct ug; cbn [fst snd].
          -- split.
             { rewrite <- Ed. apply inv_set; auto.
               - intros _ ->. unfold safe_query in Hs. rewrite Ha in Hs. cbn in Hs.
                 destruct (type_has_module t); [discriminate|reflexivity].
               - discriminate.
               - rewrite Ed. discriminate. }
             split; [reflexivity|]. split; [intros k i H; apply cache_set_mono; assumption|].
             split; [left; congruence|]. split; intros; discriminate.
          -- split; [exact HI|]. split; [exact Ed|]. split; [apply mono_refl|].
             split; [right; auto|]. split; intros; discriminate.
    - (* dynamic loading disabled: the cache is complete, so nothing exists for (c,t) *)
      assert (Hm : has_module mods c t = false).
      { destruct (has_module mods c t) eqn:Hm; [|reflexivity].
        pose proof (inv_full st HI Ed c t Hm) as Hc. unfold covered in Hc. congruence. }
      assert (Ha : has_module mods cANY t = false).
      { destruct (has_module mods cANY t) eqn:Ha; [|reflexivity].
        pose proof (inv_full st HI Ed cANY t Ha) as Hc. unfold covered in Hc. congruence. }
      assert (Hst : stateless mods c t = Generic) by (unfold stateless; rewrite Hm, Ha; reflexivity).
      destruct ug; cbn [fst snd].
      + split.
        { rewrite <- Ed. apply inv_set; auto.
          - intros _ ->. unfold safe_query in Hs. rewrite Ha in Hs. cbn in Hs.
            destruct (type_has_module t); [discriminate|reflexivity].
          - discriminate.
          - intros _ d t' Hd E. inversion E; subst. congruence. }
        split; [reflexivity|]. split; [intros k i H; apply cache_set_mono; assumption|].
        split; [left; congruence|]. split; intros; congruence.
      + split; [exact HI|]. split; [exact Ed|]. split; [apply mono_refl|].
        split; [right; auto|]. split; intros; congruence.
  Qed.

  Lemma safe_non_any : forall c t, c <> cANY -> safe_query c t = true.
  Proof. intros c t H. unfold safe_query. destruct (Z.eqb_spec c cANY); [contradiction|reflexivity]. Qed.

  (* the preload loop of load_all_types *)
  Lemma preload_spec : forall ts st,
    Inv st -> dyn st = true ->
    let st' := fold_left (fun s t => snd (get_class mods false s cIN t)) ts st in
    Inv st' /\ dyn st' = true /\ mono st st' /\
    forall t, In t ts -> (has_module mods cIN t = true -> covered st' cIN t) /\
                         (has_module mods cANY t = true -> covered st' cANY t).
  Proof.
    induction ts as [|t ts IH]; intros st HI Hd; cbn [fold_left].
    - split; [exact HI|]. split; [exact Hd|]. split; [apply mono_refl|]. intros t [].
    - pose proof (get_class_spec false st cIN t HI (safe_non_any cIN t ltac:(discriminate)))
        as (HI1 & Hd1 & Hm1 & _ & Hc1 & Hc2).
      rewrite Hd in Hd1.
      destruct (IH _ HI1 Hd1) as (HI2 & Hd2 & Hm2 & Hcov).
      split; [exact HI2|]. split; [exact Hd2|]. split; [eapply mono_trans; eauto|].
      intros t' [<-|Hin]; [|apply Hcov; exact Hin].
      split.
      + intros H. apply Hm2. apply Hc1; assumption.
      + intros H. apply Hm2. apply Hc2; auto.
        destruct (has_module mods cIN t) eqn:E; [|reflexivity].
        rewrite (mods_sep cIN t ltac:(discriminate) E) in H. discriminate.
  Qed.

  Lemma preload_nodyn : forall ts st,
    Inv st -> dyn st = false ->
    let st' := fold_left (fun s t => snd (get_class mods false s cIN t)) ts st in
    Inv st' /\ dyn st' = false.
  Proof.
    induction ts as [|t ts IH]; intros st HI Hd; cbn [fold_left]; [auto|].
    pose proof (get_class_spec false st cIN t HI (safe_non_any cIN t ltac:(discriminate))) as (HI1 & Hd1 & _).
    rewrite Hd in Hd1. apply IH; assumption.
  Qed.

  Lemma load_all_inv : forall disable st, Inv st -> Inv (load_all mods all_types disable st).
  Proof.
    intros disable st HI. unfold load_all.
    destruct (dyn st) eqn:Hd.
    - destruct (preload_spec all_types st HI Hd) as (HI1 & Hd1 & Hm1 & Hcov).
      set (st1 := fold_left (fun s t => snd (get_class mods false s cIN t)) all_types st) in *.
      pose proof (get_class_spec false st1 cCH 1 HI1 (safe_non_any cCH 1 ltac:(discriminate)))
        as (HI2 & Hd2 & Hm2 & _ & Hc1 & _).
      set (st2 := snd (get_class mods false st1 cCH 1)) in *.
      destruct disable; [|exact HI2].
      constructor; cbn [cache dyn].
      + apply (inv_val st2 HI2).
      + apply (inv_gen st2 HI2).
      + intros c t H. apply (inv_any st2 HI2 c t H).
      + intros _ d t Hm. 
        unfold loadable in Hload. rewrite forallb_forall in Hload.
        pose proof (Hload (d, t) (proj1 (has_module_in d t) Hm)) as Hl. cbn [fst snd] in Hl.
        apply orb_prop in Hl as [Hl|Hl].
        * apply andb_prop in Hl as [Hdir Hin]. apply existsb_exists in Hin as (t' & Hin & Et).
          apply Z.eqb_eq in Et. subst t'.
          apply Hm2. apply orb_prop in Hdir as [Hdir|Hdir]; apply Z.eqb_eq in Hdir; subst d;
            apply (Hcov t Hin); exact Hm.
        * apply key_eqb_eq in Hl. inversion Hl; subst. apply Hc1; [rewrite Hd1; reflexivity|exact Hm].
    - destruct (preload_nodyn all_types st HI Hd) as (HI1 & Hd1).
      set (st1 := fold_left (fun s t => snd (get_class mods false s cIN t)) all_types st) in *.
      pose proof (get_class_spec false st1 cCH 1 HI1 (safe_non_any cCH 1 ltac:(discriminate)))
        as (HI2 & Hd2 & _).
      set (st2 := snd (get_class mods false st1 cCH 1)) in *.
      destruct disable; [|exact HI2].
      constructor; cbn [cache dyn].
      + apply (inv_val st2 HI2).
      + apply (inv_gen st2 HI2).
      + intros c t H. apply (inv_any st2 HI2 c t H).
      + intros _. apply (inv_full st2 HI2). rewrite Hd2. exact Hd1.
  Qed.

  Fixpoint expected (h : list step) : list obs :=
    match h with
    | [] => []
    | Query c t :: r => obs_of_impl (Some (stateless mods c t)) :: expected r
    | LoadAll _ :: r => expected r
    end.

  Lemma history_correct_from : forall h st,
    Inv st -> forallb safe_step h = true -> run_history mods all_types h st = expected h.
  Proof.
    induction h as [|s h IH]; intros st HI Hs; [reflexivity|].
    cbn [forallb] in Hs. apply andb_prop in Hs as [Hs1 Hs2].
    destruct s as [c t|d]; cbn [run_history expected].
    - pose proof (get_class_spec true st c t HI Hs1) as (HI1 & _ & _ & Hans & _).
      destruct (get_class mods true st c t) as [r st'] eqn:E. cbn [fst snd] in *.
      destruct Hans as [->|[Hf _]]; [|discriminate].
      f_equal. apply IH; assumption.
    - apply IH; [apply load_all_inv; exact HI|exact Hs2].
  Qed.

  Theorem dispatch_history_correct_thm : forall h,
    forallb safe_step h = true -> run_history mods all_types h init_state = expected h.
  Proof. intros h Hs. apply history_correct_from; [apply inv_init|exact Hs]. Qed.
End Dispatch.

(* the excluded history on the smallest module set: IN A exists, nothing for class ANY.
   Asking for (ANY, A) first makes every later (IN, A) lookup answer GenericRdata. *)
Theorem dispatch_any_first_refuted_thm :
  let mods := [(cIN, 1)] in
  mods_ok mods = true /\ loadable mods [1] = true /\
  run_history mods [1] [Query cANY 1; Query cIN 1] init_state = [I 0; I 0] /\
  stateless mods cIN 1 = Typed cIN 1.
Proof. repeat split; reflexivity. Qed.
