(* RFC 3597 generic form: GenericRdata.to_styled_text with any hex chunk size >= 0 and any separator
   made of blanks is read back by dns.rdata.from_text as the same octets, both for an unknown type
   (GenericRdata.from_text) and for a known type (generic syntax branch: wire extracted, decoded by
   the type's from_wire, re-encoded and compared). *)
From DV Require Import Base.Prelude Model.TokM Proofs.TokEsc Proofs.TokWords Proofs.TokDec Proofs.TokHex.
Open Scope Z_scope.

Definition hash_tok : token := mkTok tIDENT [92; 35] true None.

(* the token `\#` followed by a blank *)
Lemma get0_hash r :
  get0 (mkSt (92 :: 35 :: 32 :: r) 0%nat false None) = Ok (hash_tok, mkSt (32 :: r) 0%nat false None).
Proof.
  unfold get0, get. cbn [ungot]. unfold get_fresh. cbn [multiline inp quoting].
  replace (skip_ws 0 (92 :: 35 :: 32 :: r)) with (0%nat, 92 :: 35 :: 32 :: r) by reflexivity.
  cbn [andb]. unfold get_fuel. cbn [length].
  replace (get_loop (S (S (S (S (length r))))) false (92 :: 35 :: 32 :: r) 0 false [] tIDENT false)
    with (get_loop (S (S (S (length r)))) false (32 :: r) 0 false [35; 92] tIDENT true) by reflexivity.
  rewrite gl_word_end; [reflexivity| |discriminate].
  right. exists 32, r. split; reflexivity.
Qed.

Lemma zlist_eqb_refl l : zlist_eqb l l = true.
Proof. induction l as [|x l IH]; [reflexivity|]. cbn [zlist_eqb]. rewrite Z.eqb_refl, IH. reflexivity. Qed.

Lemma eol_not_ws te : is_eol_or_eof te = true -> (ttype te =? tWS) = false /\ (ttype te =? tCOMMENT) = false.
Proof.
  unfold is_eol_or_eof. intros H. apply orb_true_iff in H as [H|H]; apply Z.eqb_eq in H; rewrite H; split; reflexivity.
Qed.

Lemma get_eol_ungot st te : ungot st = Some te -> is_eol_or_eof te = true ->
  exists st', get_eol_as_token st = Ok (te, st').
Proof.
  intros Hu He. unfold get_eol_as_token, get0, get. rewrite Hu.
  destruct (eol_not_ws te He) as [A B]. rewrite A, B. cbn [bind fst]. rewrite He. cbn [negb].
  eexists. reflexivity.
Qed.

(* everything after the `\#` token *)
Lemma generic_tail d chunk sep rest :
  all_bytes d = true -> forallb is_blank sep = true -> line_end rest ->
  let st1 := mkSt (32 :: dec (zlen d) ++ 32 :: styled_hexify d chunk sep ++ rest) 0%nat false None in
  exists te st3, is_eol_or_eof te = true /\ ungot st3 = Some te /\
    (do ls <- get_int st1 10;
     let '(len, st2) := ls in
     do hs <- concatenate_remaining_identifiers st2 true;
     let '(hex, st3) := hs in
     do hexb <- utf8_encode hex;
     do data <- unhexlify hexb;
     if negb (zlen data =? len) then Lib eSyntax else Ok (data, st3)) = Ok (d, st3).
Proof.
  intros Hd Hsep Hrest st1. subst st1.
  destruct (hexlify_safe d Hd) as [Hs Ha].
  (* the length *)
  unfold get_int.
  change (32 :: dec (zlen d) ++ 32 :: styled_hexify d chunk sep ++ rest)
    with ([32] ++ dec (zlen d) ++ (32 :: styled_hexify d chunk sep ++ rest)).
  rewrite get_unescaped_word;
    [|reflexivity|apply dec_safe; unfold zlen; lia|apply dec_nonempty|right; eexists _, _; split; reflexivity].
  cbn [bind fst snd]. rewrite as_int_dec by (unfold zlen; lia). cbn [bind].
  (* the hex chunks *)
  assert (Hch : chunked (hexlify d) (32 :: styled_hexify d chunk sep)).
  { apply ch_blank; [reflexivity|]. apply wordbreak_chunked; assumption. }
  change (32 :: styled_hexify d chunk sep ++ rest) with ((32 :: styled_hexify d chunk sep) ++ rest).
  destruct (concatenate_chunked _ _ rest true Hch Hrest (or_introl eq_refl)) as (te & st3 & H1 & H2 & E).
  rewrite E. cbn [bind]. rewrite utf8_ascii by exact Ha. cbn [bind].
  rewrite unhexlify_hexlify by exact Hd. cbn [bind]. rewrite Z.eqb_refl. cbn [negb].
  exists te, st3. split; [exact H1|]. split; [exact H2|reflexivity].
Qed.

Lemma generic_text_shape d chunk sep rest :
  generic_to_text d chunk sep ++ rest
  = 92 :: 35 :: 32 :: dec (zlen d) ++ 32 :: styled_hexify d chunk sep ++ rest.
Proof. unfold generic_to_text. cbn [app]. rewrite <- !app_assoc. reflexivity. Qed.

Theorem generic_roundtrip_unknown d chunk sep rest :
  all_bytes d = true -> forallb is_blank sep = true -> line_end rest ->
  rdata_from_text_generic (generic_to_text d chunk sep ++ rest) = Ok d.
Proof.
  intros Hd Hsep Hrest. unfold rdata_from_text_generic, generic_from_text, init.
  rewrite generic_text_shape, get0_hash. cbn [bind]. unfold hash_tok at 1 2, is_identifier. cbn [ttype tvalue].
  replace (tIDENT =? tIDENT) with true by reflexivity. rewrite zlist_eqb_refl. cbn [negb orb].
  destruct (generic_tail d chunk sep rest Hd Hsep Hrest) as (te & st3 & H1 & H2 & E).
  cbv zeta in E. rewrite E. cbn [bind fst snd].
  destruct (get_eol_ungot st3 te H2 H1) as (st' & E2). rewrite E2. reflexivity.
Qed.

(* known type: fw = the type's from_wire (all exceptions already wrapped), tw = its to_wire *)
Theorem generic_roundtrip_known {V} (ft : tstate -> res (V * tstate))
        (fw : list Z -> res V) (tw : V -> res (list Z)) (v : V) (w : list Z) chunk sep rest :
  tw v = Ok w -> fw w = Ok v ->
  all_bytes w = true -> forallb is_blank sep = true -> line_end rest ->
  rdata_from_text ft fw tw (generic_to_text w chunk sep ++ rest) = Ok v.
Proof.
  intros Htw Hfw Hd Hsep Hrest. unfold rdata_from_text, init.
  rewrite generic_text_shape, get0_hash. cbn [bind]. unfold unget at 1. cbn [ungot bind inp multiline quoting].
  unfold hash_tok at 1 2, is_identifier at 1. cbn [ttype tvalue].
  replace (tIDENT =? tIDENT) with true by reflexivity. rewrite zlist_eqb_refl. cbn [andb].
  unfold generic_from_text. unfold get0 at 1, get at 1. cbn [ungot].
  unfold hash_tok, is_identifier. cbn [ttype tvalue].
  change (tIDENT =? tWS) with false. change (tIDENT =? tCOMMENT) with false.
  change (tIDENT =? tIDENT) with true. cbv iota.
  cbn [bind inp multiline quoting ttype tvalue]. rewrite ?zlist_eqb_refl.
  change (tIDENT =? tIDENT) with true. cbn [negb orb].
  destruct (generic_tail w chunk sep rest Hd Hsep Hrest) as (te & st3 & H1 & H2 & E).
  cbv zeta in E. rewrite E. cbn [bind]. rewrite Hfw. cbn [bind]. rewrite Htw. cbn [bind].
  rewrite zlist_eqb_refl. cbn [negb bind fst snd].
  destruct (get_eol_ungot st3 te H2 H1) as (st' & E2). rewrite E2. reflexivity.
Qed.

(* instance: TXT-like types in generic syntax *)
Lemma txt_wire_roundtrip_acc strings : Forall (fun s => all_bytes s = true /\ zlen s <= 255) strings ->
  forall fuel acc, (length (txt_to_wire strings) < fuel)%nat ->
  txt_wire_loop fuel (txt_to_wire strings) acc = Ok (rev acc ++ strings).
Proof.
  induction strings as [|s ss IH]; intros Hss fuel acc Hf.
  - destruct fuel; [cbn in Hf; lia|]. cbn. rewrite app_nil_r. reflexivity.
  - inversion Hss as [|? ? [Hb Hl] Hss']; subst.
    destruct fuel; [cbn in Hf; lia|].
    unfold txt_to_wire in *. cbn [flat_map app txt_wire_loop].
    cbn [flat_map app length] in Hf. rewrite !app_length in Hf.
    replace (Z.to_nat (zlen s)) with (length s) by (unfold zlen; lia).
    rewrite app_length.
    replace (length s + length (flat_map (fun s0 : list Z => zlen s0 :: s0) ss) <? length s)%nat with false
      by (symmetry; apply Nat.ltb_ge; lia).
    rewrite skipn_app, skipn_all, Nat.sub_diag, firstn_app, firstn_all, Nat.sub_diag. cbn [skipn firstn app].
    rewrite app_nil_r. rewrite IH by (auto; lia). cbn [rev]. rewrite <- app_assoc. reflexivity.
Qed.

Lemma txt_to_wire_bytes strings : Forall (fun s => all_bytes s = true /\ zlen s <= 255) strings ->
  all_bytes (txt_to_wire strings) = true.
Proof.
  induction 1 as [|s ss [Hb Hl] _ IH]; [reflexivity|].
  unfold txt_to_wire, all_bytes in *. cbn [flat_map]. rewrite forallb_app. cbn [forallb].
  rewrite Hb, IH. unfold is_byte, zlen in *. replace ((0 <=? Z.of_nat (length s)) && (Z.of_nat (length s) <? 256)) with true by lia.
  reflexivity.
Qed.

Theorem txt_generic_roundtrip strings chunk sep rest :
  strings <> [] -> Forall (fun s => all_bytes s = true /\ zlen s <= 255) strings ->
  forallb is_blank sep = true -> line_end rest ->
  rdata_from_text_txt (generic_to_text (txt_to_wire strings) chunk sep ++ rest) = Ok strings.
Proof.
  intros Hne Hss Hsep Hrest. unfold rdata_from_text_txt.
  apply generic_roundtrip_known with (w := txt_to_wire strings); try assumption; [reflexivity| |].
  - unfold txt_from_wire. rewrite txt_wire_roundtrip_acc by (auto; lia). cbn [bind rev app].
    destruct strings; [congruence|reflexivity].
  - apply txt_to_wire_bytes, Hss.
Qed.
