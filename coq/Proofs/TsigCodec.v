(* The TSIG record the library writes is read back as the same owner and rdata:
   tsig_from_wire (tsig_to_wire t) = t, and the reader's step on `... ++ tsig_rr owner t`
   hands exactly (owner, t, start of the RR) to validate.  With sign_then_validate this is the
   wire-level "every message it signs validates" for the TSIG record itself (the records before
   it are skipped by the reader independently of the TSIG). *)
From DV Require Import Base.Prelude.
From DV Require Model.NameM.
From DV Require Import Proofs.NameValid Proofs.NameWire.
From DV Require Import Model.TsigM Proofs.TsigSpec Proofs.TsigLemmas Proofs.TsigInj Proofs.TsigReader.
Open Scope Z_scope.
Ltac Zify.zify_post_hook ::= Z.to_euclidean_division_equations.

Lemma be_val_app : forall a b acc, be_val (a ++ b) acc = be_val b (be_val a acc).
Proof. induction a; intros; cbn [app be_val]; [reflexivity|apply IHa]. Qed.

Lemma be_val_be : forall n v acc,
  0 <= v < 256 ^ Z.of_nat n -> be_val (be n v) acc = acc * 256 ^ Z.of_nat n + v.
Proof.
  induction n; intros v acc Hv.
  - change (256 ^ Z.of_nat 0) with 1 in *. cbn [be be_val]. lia.
  - cbn [be]. rewrite be_val_app. cbn [be_val].
    rewrite Nat2Z.inj_succ, Z.pow_succ_r in * by lia.
    rewrite IHn by lia. lia.
Qed.

Lemma get_bytes_mid : forall (a b c : bytes) e,
  (length a + length b <= e)%nat ->
  get_bytes (a ++ b ++ c) e (length a) (length b) = Ok (b, (length a + length b)%nat).
Proof.
  intros. unfold get_bytes.
  destruct (Nat.ltb_spec (e - length a) (length b)); [lia|].
  rewrite skipn_app_len, firstn_app_len. reflexivity.
Qed.

Lemma get_uint_mid : forall (a c : bytes) n v e,
  0 <= v < 256 ^ Z.of_nat n -> (length a + n <= e)%nat ->
  get_uint (a ++ be n v ++ c) e (length a) n = Ok (v, (length a + n)%nat).
Proof.
  intros a c n v e Hv He. unfold get_uint.
  pose proof (get_bytes_mid a (be n v) c e) as G. rewrite be_length in G. rewrite G by lia.
  cbn [bind fst snd]. rewrite be_val_be by assumption.
  replace (0 * 256 ^ Z.of_nat n + v) with v by lia. reflexivity.
Qed.

Lemma get_counted2_mid : forall (a b c : bytes) e,
  zlen b < 65536 -> (length a + 2 + length b <= e)%nat ->
  get_counted2 (a ++ be 2 (zlen b) ++ b ++ c) e (length a) = Ok (b, (length a + 2 + length b)%nat).
Proof.
  intros a b c e Lb He. unfold get_counted2.
  rewrite get_uint_mid; [|change (256 ^ Z.of_nat 2) with 65536; unfold zlen in *; lia|lia].
  cbn [bind fst snd].
  replace (a ++ be 2 (zlen b) ++ b ++ c) with ((a ++ be 2 (zlen b)) ++ b ++ c) by now rewrite <- app_assoc.
  replace (length a + 2)%nat with (length (a ++ be 2 (zlen b))) by (rewrite app_length, be_length; reflexivity).
  unfold zlen. rewrite Nat2Z.id.
  rewrite get_bytes_mid; [reflexivity|]. rewrite app_length, be_length. lia.
Qed.

Lemma get_name_mid : forall n (a c : bytes) e,
  Valid n -> NameM.is_absolute n = true ->
  e = (length a + length (NameM.wire_labels false n) + length c)%nat ->
  get_name (a ++ NameM.wire_labels false n ++ c) e (length a)
  = Ok (n, (length a + length (NameM.wire_labels false n))%nat).
Proof.
  intros n a c e V A ->. unfold get_name.
  rewrite firstn_all2 by (rewrite !app_length; lia).
  destruct (wire_roundtrip n a c V A) as [_ R]. rewrite R. reflexivity.
Qed.

(* the rdata constructor's conditions, plus what rendering needs *)
Definition tsig_ok (t : tsig) : Prop :=
  Valid (t_alg t) /\ NameM.is_absolute (t_alg t) = true /\
  0 <= t_time t < 281474976710656 /\ 0 <= t_fudge t < 65536 /\ 0 <= t_oid t < 65536 /\
  0 <= t_error t <= 4095 /\ zlen (t_mac t) < 65536 /\ zlen (t_other t) < 65536.

Lemma mk_tsig_ok : forall t, tsig_ok t ->
  mk_tsig (t_alg t) (t_time t) (t_fudge t) (t_mac t) (t_oid t) (t_error t) (t_other t) = Ok t.
Proof.
  intros t (_ & _ & T & F & O & E & _ & _). unfold mk_tsig.
  replace (in_u48 (t_time t)) with true by (symmetry; unfold in_u48; apply andb_true_iff; split; [apply Z.leb_le|apply Z.ltb_lt]; lia).
  replace (in_u16 (t_fudge t)) with true by (symmetry; apply in_u16_iff; lia).
  replace (in_u16 (t_oid t)) with true by (symmetry; apply in_u16_iff; lia).
  replace ((0 <=? t_error t) && (t_error t <=? 4095)) with true
    by (symmetry; apply andb_true_iff; split; apply Z.leb_le; lia).
  cbn [negb]. destruct t; reflexivity.
Qed.

Lemma tsig_to_wire_ok : forall t, tsig_ok t ->
  tsig_to_wire t = Ok (NameM.wire_labels false (t_alg t) ++ be 6 (t_time t) ++ be 2 (t_fudge t)
                       ++ be 2 (zlen (t_mac t)) ++ t_mac t ++ be 2 (t_oid t) ++ be 2 (t_error t)
                       ++ be 2 (zlen (t_other t)) ++ t_other t).
Proof.
  intros t (V & A & T & F & O & E & M & Ot). unfold tsig_to_wire.
  unfold NameM.to_wire. rewrite A. cbn [bind].
  assert (I1 : in_u16 (t_fudge t) = true) by (apply in_u16_iff; lia).
  assert (I2 : in_u16 (zlen (t_mac t)) = true) by (apply in_u16_iff; unfold zlen in *; lia).
  assert (I3 : in_u16 (t_oid t) = true) by (apply in_u16_iff; lia).
  assert (I4 : in_u16 (t_error t) = true) by (apply in_u16_iff; lia).
  assert (I5 : in_u16 (zlen (t_other t)) = true) by (apply in_u16_iff; unfold zlen in *; lia).
  rewrite I1, I2, I3, I4, I5. cbn [andb negb].
  rewrite (u16_be (t_fudge t)), (u16_be (zlen (t_mac t))), (u16_be (t_oid t)), (u16_be (t_error t)),
          (u16_be (zlen (t_other t))) by assumption.
  f_equal. f_equal. rewrite app_assoc, time_be. reflexivity.
Qed.

(* decode(encode t) = t, anywhere inside a message, consuming exactly the rdata *)
Lemma tsig_codec_roundtrip : forall t rdw (pre post : bytes),
  tsig_ok t -> tsig_to_wire t = Ok rdw ->
  tsig_from_wire (pre ++ rdw ++ post) (length pre + length rdw) (length pre) = Ok t.
Proof.
  intros t rdw pre post OKt W. rewrite (tsig_to_wire_ok t OKt) in W.
  assert (rdw = NameM.wire_labels false (t_alg t) ++ be 6 (t_time t) ++ be 2 (t_fudge t)
                ++ be 2 (zlen (t_mac t)) ++ t_mac t ++ be 2 (t_oid t) ++ be 2 (t_error t)
                ++ be 2 (zlen (t_other t)) ++ t_other t) by congruence.
  subst rdw. clear W.
  destruct OKt as (V & A & T & F & O & E & M & Ot).
  set (an := NameM.wire_labels false (t_alg t)).
  unfold tsig_from_wire.
  set (e := (length pre + length (an ++ be 6 (t_time t) ++ be 2 (t_fudge t) ++ be 2 (zlen (t_mac t))
               ++ t_mac t ++ be 2 (t_oid t) ++ be 2 (t_error t) ++ be 2 (zlen (t_other t)) ++ t_other t))%nat).
  assert (E0 : e = (length pre + length an + 6 + 2 + 2 + length (t_mac t) + 2 + 2 + 2 + length (t_other t))%nat).
  { unfold e. repeat rewrite app_length. rewrite !be_length. lia. }
  (* the name: within firstn e *)
  assert (GN : get_name (pre ++ (an ++ be 6 (t_time t) ++ be 2 (t_fudge t) ++ be 2 (zlen (t_mac t))
               ++ t_mac t ++ be 2 (t_oid t) ++ be 2 (t_error t) ++ be 2 (zlen (t_other t)) ++ t_other t) ++ post)
               e (length pre) = Ok (t_alg t, (length pre + length an)%nat)).
  { unfold get_name.
    replace (firstn e _) with (pre ++ an ++ (be 6 (t_time t) ++ be 2 (t_fudge t) ++ be 2 (zlen (t_mac t))
               ++ t_mac t ++ be 2 (t_oid t) ++ be 2 (t_error t) ++ be 2 (zlen (t_other t)) ++ t_other t)).
    - destruct (wire_roundtrip (t_alg t) pre (be 6 (t_time t) ++ be 2 (t_fudge t) ++ be 2 (zlen (t_mac t))
               ++ t_mac t ++ be 2 (t_oid t) ++ be 2 (t_error t) ++ be 2 (zlen (t_other t)) ++ t_other t) V A) as [_ R].
      fold an in R. rewrite R. reflexivity.
    - rewrite app_assoc. rewrite firstn_app.
      replace (e - length pre)%nat with (length (an ++ be 6 (t_time t) ++ be 2 (t_fudge t) ++ be 2 (zlen (t_mac t))
               ++ t_mac t ++ be 2 (t_oid t) ++ be 2 (t_error t) ++ be 2 (zlen (t_other t)) ++ t_other t)) by (unfold e; lia).
      rewrite firstn_app_len.
      rewrite firstn_all2 by (unfold e; lia). rewrite <- app_assoc. reflexivity. }
  rewrite GN. cbn [bind fst snd].
  (* regroup so that each field sits between a prefix and a suffix *)
  repeat rewrite <- app_assoc.
  remember (pre ++ an) as p1 eqn:P1.
  assert (L1 : (length pre + length an)%nat = length p1) by (subst p1; now rewrite app_length).
  rewrite L1.
  replace (pre ++ an ++ be 6 (t_time t) ++ be 2 (t_fudge t) ++ be 2 (zlen (t_mac t)) ++ t_mac t ++ be 2 (t_oid t)
             ++ be 2 (t_error t) ++ be 2 (zlen (t_other t)) ++ t_other t ++ post)
     with (p1 ++ be 6 (t_time t) ++ (be 2 (t_fudge t) ++ be 2 (zlen (t_mac t)) ++ t_mac t ++ be 2 (t_oid t)
             ++ be 2 (t_error t) ++ be 2 (zlen (t_other t)) ++ t_other t ++ post))
     by (subst p1; now rewrite <- app_assoc).
  rewrite get_uint_mid; [|change (256 ^ Z.of_nat 6) with 281474976710656; lia|lia].
  cbn [bind fst snd].
  (* fudge *)
  remember (p1 ++ be 6 (t_time t)) as p2 eqn:P2.
  assert (L2 : (length p1 + 6)%nat = length p2) by (subst p2; now rewrite app_length, be_length).
  rewrite L2.
  replace (p1 ++ be 6 (t_time t) ++ be 2 (t_fudge t) ++ be 2 (zlen (t_mac t)) ++ t_mac t ++ be 2 (t_oid t)
             ++ be 2 (t_error t) ++ be 2 (zlen (t_other t)) ++ t_other t ++ post)
     with (p2 ++ be 2 (t_fudge t) ++ (be 2 (zlen (t_mac t)) ++ t_mac t ++ be 2 (t_oid t)
             ++ be 2 (t_error t) ++ be 2 (zlen (t_other t)) ++ t_other t ++ post))
     by (subst p2; now rewrite <- app_assoc).
  rewrite get_uint_mid; [|change (256 ^ Z.of_nat 2) with 65536; lia|lia].
  cbn [bind fst snd].
  (* mac *)
  remember (p2 ++ be 2 (t_fudge t)) as p3 eqn:P3.
  assert (L3 : (length p2 + 2)%nat = length p3) by (subst p3; now rewrite app_length, be_length).
  rewrite L3.
  replace (p2 ++ be 2 (t_fudge t) ++ be 2 (zlen (t_mac t)) ++ t_mac t ++ be 2 (t_oid t)
             ++ be 2 (t_error t) ++ be 2 (zlen (t_other t)) ++ t_other t ++ post)
     with (p3 ++ be 2 (zlen (t_mac t)) ++ t_mac t ++ (be 2 (t_oid t)
             ++ be 2 (t_error t) ++ be 2 (zlen (t_other t)) ++ t_other t ++ post))
     by (subst p3; now rewrite <- app_assoc).
  rewrite get_counted2_mid; [|assumption|lia].
  cbn [bind fst snd].
  (* original id *)
  remember (p3 ++ be 2 (zlen (t_mac t)) ++ t_mac t) as p4 eqn:P4.
  assert (L4 : (length p3 + 2 + length (t_mac t))%nat = length p4)
    by (subst p4; rewrite !app_length, be_length; lia).
  rewrite L4.
  replace (p3 ++ be 2 (zlen (t_mac t)) ++ t_mac t ++ be 2 (t_oid t)
             ++ be 2 (t_error t) ++ be 2 (zlen (t_other t)) ++ t_other t ++ post)
     with (p4 ++ be 2 (t_oid t) ++ (be 2 (t_error t) ++ be 2 (zlen (t_other t)) ++ t_other t ++ post))
     by (subst p4; now rewrite <- !app_assoc).
  rewrite get_uint_mid; [|change (256 ^ Z.of_nat 2) with 65536; lia|lia].
  cbn [bind fst snd].
  (* error *)
  remember (p4 ++ be 2 (t_oid t)) as p5 eqn:P5.
  assert (L5 : (length p4 + 2)%nat = length p5) by (subst p5; now rewrite app_length, be_length).
  rewrite L5.
  replace (p4 ++ be 2 (t_oid t) ++ be 2 (t_error t) ++ be 2 (zlen (t_other t)) ++ t_other t ++ post)
     with (p5 ++ be 2 (t_error t) ++ (be 2 (zlen (t_other t)) ++ t_other t ++ post))
     by (subst p5; now rewrite <- app_assoc).
  rewrite get_uint_mid; [|change (256 ^ Z.of_nat 2) with 65536; lia|lia].
  cbn [bind fst snd].
  (* other *)
  remember (p5 ++ be 2 (t_error t)) as p6 eqn:P6.
  assert (L6 : (length p5 + 2)%nat = length p6) by (subst p6; now rewrite app_length, be_length).
  rewrite L6.
  replace (p5 ++ be 2 (t_error t) ++ be 2 (zlen (t_other t)) ++ t_other t ++ post)
     with (p6 ++ be 2 (zlen (t_other t)) ++ t_other t ++ post)
     by (subst p6; now rewrite <- app_assoc).
  rewrite get_counted2_mid; [|assumption|lia].
  cbn [bind fst snd].
  rewrite mk_tsig_ok by (unfold tsig_ok; auto 10).
  cbn [bind wrap_formerror fst snd].
  replace (Nat.eqb (length p6 + 2 + length (t_other t)) e) with true; [reflexivity|].
  symmetry. apply Nat.eqb_eq. lia.
Qed.

Section WithH.
  Variable H : hashid -> bytes -> bytes -> bytes.

  (* the reader's step on a message that ends with `tsig_rr owner t`, positioned at that RR *)
  Lemma get_rr_on_tsig_rr : forall (pre : bytes) owner t rr kr rmac now multi count st,
    Valid owner -> NameM.is_absolute owner = true -> tsig_ok t ->
    tsig_rr owner t = Ok rr ->
    r_pos st = length pre -> r_origin st = None ->
    get_rr H (pre ++ rr) kr rmac now multi 3 count (count - 1) st =
      (do ko <- find_key kr owner (t_alg t);
       do ctx' <- (match ko with
                   | Some k => validate H (pre ++ rr) k owner t now rmac (length pre) (r_ctx st) multi
                   | None => Ok (r_ctx st)
                   end);
       Ok {| r_pos := length (pre ++ rr); r_tsig := Some (owner, t); r_ctx := ctx';
             r_recs := (3, TSIG, ANY, length pre) :: r_recs st; r_opt := r_opt st; r_origin := None |}).
  Proof.
    intros pre owner t rr kr rmac now multi count st V A OKt RR P ON.
    unfold tsig_rr in RR. unfold NameM.to_wire in RR. rewrite A in RR. cbn [bind] in RR.
    destruct (tsig_to_wire t) as [rdw| |] eqn:TW; cbn [bind] in RR; try discriminate.
    destruct (zlen rdw >? 65535) eqn:LR; [discriminate|].
    assert (rr = NameM.wire_labels false owner ++ u16 250 ++ u16 255 ++ u32 0 ++ u16 (zlen rdw) ++ rdw) by congruence.
    subst rr. clear RR.
    assert (LRb : in_u16 (zlen rdw) = true).
    { apply in_u16_iff. rewrite Z.gtb_ltb in LR. apply Z.ltb_ge in LR. unfold zlen in *. lia. }
    rewrite (u16_be 250), (u16_be 255), u32_be0, (u16_be (zlen rdw)) by (assumption || reflexivity).
    set (on := NameM.wire_labels false owner).
    unfold get_rr. rewrite P, ON.
    rewrite (get_name_mid owner pre (be 2 250 ++ be 2 255 ++ be 4 0 ++ be 2 (zlen rdw) ++ rdw) _ V A)
      by (unfold on; rewrite !app_length; lia).
    cbn [bind fst snd]. fold on.
    remember (pre ++ on) as p1 eqn:P1.
    assert (L1 : (length pre + length on)%nat = length p1) by (subst p1; now rewrite app_length).
    rewrite L1.
    replace (pre ++ on ++ be 2 250 ++ be 2 255 ++ be 4 0 ++ be 2 (zlen rdw) ++ rdw)
       with (p1 ++ be 2 250 ++ (be 2 255 ++ be 4 0 ++ be 2 (zlen rdw) ++ rdw))
       by (subst p1; now rewrite <- app_assoc).
    set (w := p1 ++ be 2 250 ++ be 2 255 ++ be 4 0 ++ be 2 (zlen rdw) ++ rdw).
    assert (LW : length w = (length p1 + 2 + 2 + 4 + 2 + length rdw)%nat).
    { unfold w. rewrite !app_length, !be_length. lia. }
    unfold w at 1.
    rewrite get_uint_mid; [|change (256 ^ Z.of_nat 2) with 65536; lia|fold w; lia].
    cbn [bind fst snd].
    remember (p1 ++ be 2 250) as p2 eqn:P2.
    assert (L2 : (length p1 + 2)%nat = length p2) by (subst p2; now rewrite app_length, be_length).
    rewrite L2.
    assert (W2 : w = p2 ++ be 2 255 ++ (be 4 0 ++ be 2 (zlen rdw) ++ rdw))
      by (unfold w; subst p2; now rewrite <- app_assoc).
    rewrite W2 at 1.
    rewrite get_uint_mid; [|change (256 ^ Z.of_nat 2) with 65536; lia|lia].
    cbn [bind fst snd].
    remember (p2 ++ be 2 255) as p3 eqn:P3.
    assert (L3 : (length p2 + 2)%nat = length p3) by (subst p3; now rewrite app_length, be_length).
    rewrite L3.
    assert (W3 : w = p3 ++ be 4 0 ++ (be 2 (zlen rdw) ++ rdw))
      by (rewrite W2; subst p3; now rewrite <- app_assoc).
    rewrite W3 at 1.
    rewrite get_uint_mid; [|change (256 ^ Z.of_nat 4) with 4294967296; lia|lia].
    cbn [bind fst snd].
    remember (p3 ++ be 4 0) as p4 eqn:P4.
    assert (L4 : (length p3 + 4)%nat = length p4) by (subst p4; now rewrite app_length, be_length).
    rewrite L4.
    assert (W4 : w = p4 ++ be 2 (zlen rdw) ++ (rdw ++ []))
      by (rewrite W3; subst p4; now rewrite <- app_assoc, app_nil_r).
    rewrite W4 at 1.
    rewrite get_uint_mid; [|change (256 ^ Z.of_nat 2) with 65536; apply in_u16_iff in LRb; lia|lia].
    cbn [bind fst snd].
    change (250 =? OPT) with false. change (250 =? TSIG) with true. cbn iota.
    change (3 =? 3) with true. change (255 =? ANY) with true. rewrite Z.eqb_refl. cbn [negb orb].
    remember (p4 ++ be 2 (zlen rdw)) as p5 eqn:P5.
    assert (L5 : (length p4 + 2)%nat = length p5) by (subst p5; now rewrite app_length, be_length).
    rewrite L5.
    destruct (Nat.ltb_spec (length w - length p5) (Z.to_nat (zlen rdw))) as [Bad|_]; [unfold zlen in Bad; rewrite Nat2Z.id in Bad; lia|].
    assert (W5 : w = p5 ++ rdw ++ []) by (rewrite W4; subst p5; now rewrite <- app_assoc).
    replace (Z.to_nat (zlen rdw)) with (length rdw) by (unfold zlen; now rewrite Nat2Z.id).
    assert (TF : tsig_from_wire w (length p5 + length rdw) (length p5) = Ok t)
      by (rewrite W5; exact (tsig_codec_roundtrip t rdw p5 [] OKt TW)).
    rewrite TF. cbn [bind].
    change (0 =? 0) with true. cbn [negb].
    replace (length p5 + length rdw)%nat with (length w) by lia.
    replace (length p1 - length on)%nat with (length pre) by (subst p1; rewrite app_length; lia).
    assert (PRE : length pre = r_pos st) by (symmetry; exact P).
    reflexivity.
  Qed.
End WithH.
