(* C19 - `_visit_preorder_by_node` on the store (`sdump`, the walk the harness compares with the
   real node structure): it visits exactly the footprint of the tree, every node once, parent
   before children, children left to right - and what it sees is the preorder of the value-level
   tree the store represents. *)
From DV Require Import Base.Prelude Model.BTreeM Model.BTreeStoreM Proofs.BTreeBase Proofs.BTreeWf Proofs.BTreeInsert
  Proofs.BTreeLookup Proofs.BTreeDelete Proofs.BTreeTop Proofs.BTreeStore Proofs.BTreeIsolation
  Proofs.BTreeRefine Proofs.BTreeRefine4 Proofs.BTreeRefine5.

Definition dump_id (o : obs) : nat := match o with L (I z :: _) => Z.to_nat z | _ => O end.

(* [leaf; flat elts] of a dumped node *)
Definition dump_node (o : obs) : obs := match o with L [_; _; lf; es; _] => L [lf; es] | _ => N end.

Fixpoint preorder (n : tree) : list obs :=
  let '(Node lf es ks) := n in
  L [ob lf; L (flat_map (fun e => [I (fst e); I (snd e)]) es)] :: flat_map preorder ks.

Lemma sdump_rep s : forall id tr fp, rep s id tr fp -> forall fuel, (length fp <= fuel)%nat ->
  map dump_id (sdump fuel s id) = fp /\ map dump_node (sdump fuel s id) = preorder tr.
Proof.
  apply (rep_mind s
    (fun id tr fp _ => forall fuel, (length fp <= fuel)%nat ->
       map dump_id (sdump fuel s id) = fp /\ map dump_node (sdump fuel s id) = preorder tr)
    (fun ids trs fps _ => forall fuel, (length (concat fps) <= fuel)%nat ->
       map dump_id (flat_map (sdump fuel s) ids) = concat fps /\
       map dump_node (flat_map (sdump fuel s) ids) = flat_map preorder trs)).
  - intros id n kids fps Hn Hlk Hr IH Hnd fuel Hf. destruct fuel as [|f]; [cbn in Hf; lia|].
    cbn [sdump]. rewrite Hn. cbn [map dump_id dump_node preorder]. rewrite Nat2Z.id.
    destruct (IH f ltac:(cbn in Hf; lia)) as (-> & ->). auto.
  - intros fuel _. auto.
  - intros k ks tr trs fp fps Hr IH Hrs IHs fuel Hf. cbn [concat] in Hf. rewrite app_length in Hf.
    cbn [flat_map concat]. rewrite !map_app.
    destruct (IH fuel ltac:(lia)) as (-> & ->). destruct (IHs fuel ltac:(lia)) as (-> & ->). auto.
Qed.

(* in every reachable world, for every tree: the preorder walk from its root lists pairwise
   distinct node ids (no node is reached twice: the structure really is a tree) and sees the
   preorder of the value-level tree *)
Theorem preorder_walk_proof xs k sb b :
  let sw := execs (mkSW [] []) xs in
  nth_error (sw_trees sw) k = Some sb -> nth_error (vexecs [] xs) k = Some b ->
  let d := sdump (S (length (sw_store sw))) (sw_store sw) (sb_root sb) in
  NoDup (map dump_id d) /\ map dump_node d = preorder (b_root b).
Proof.
  intros sw H1 H2 d. destruct (store_refines_proof xs) as (_ & _ & Hrel).
  destruct (Hrel k sb b H1 H2) as ((_ & _ & _ & _ & fp & Hr) & _).
  destruct (sdump_rep _ _ _ _ Hr (S (length (sw_store sw)))) as (Hi & Hn).
  { pose proof (fp_le_store _ _ _ _ Hr). unfold sw. lia. }
  unfold d. fold sw in Hi, Hn |- *. rewrite Hi, Hn. split; [eapply rep_nodup; eauto|reflexivity].
Qed.

(* ---------------------------------------------------------------- the value-level operation touches only its target *)

Lemma v_mutate_other ts i r k : i <> k -> nth_error (fst (v_mutate ts i r)) k = nth_error ts k.
Proof. intros Hne. destruct r as [(b' & o)| |]; cbn [v_mutate fst]; [now apply nth_set_nth_ne|reflexivity|reflexivity]. Qed.

Lemma vexec_prim_other ts x k :
  target x <> Some k -> (k < length ts)%nat -> nth_error (fst (vexec_prim ts x)) k = nth_error ts k.
Proof.
  intros Hne Hk. destruct x; cbn [vexec_prim target] in *; try reflexivity.
  - destruct (Z.to_nat t <? 3)%nat; cbn [fst]; [reflexivity|now apply nth_error_app1].
  - unfold v_with. destruct (nth_error ts (Z.to_nat ti)); [|reflexivity]. apply v_mutate_other. congruence.
  - unfold v_with. destruct (nth_error ts (Z.to_nat ti)); [|reflexivity]. apply v_mutate_other. congruence.
  - unfold v_with. destruct (nth_error ts (Z.to_nat ti)); [|reflexivity]. cbn [fst]. apply nth_set_nth_ne. congruence.
  - unfold v_with. destruct (nth_error ts (Z.to_nat ti)); [|reflexivity].
    destruct (b_immut b); cbn [fst]; [now apply nth_error_app1|reflexivity].
Qed.

Lemma vexec_prim_length ts ti k ex m : length (fst (vexec_prim ts (SDel ti k ex m))) = length ts.
Proof.
  cbn [vexec_prim]. unfold v_with. destruct (nth_error ts (Z.to_nat ti)); [|reflexivity].
  match goal with |- context [v_mutate ts ?i ?r] => destruct r as [(b' & o)| |] end; cbn [v_mutate fst];
    [apply length_set_nth|reflexivity|reflexivity].
Qed.

Lemma v_clear_other ti k : Z.to_nat ti <> k -> forall fuel ts, (k < length ts)%nat ->
  nth_error (v_clear fuel ts ti) k = nth_error ts k.
Proof.
  intros Hne. induction fuel as [|f IH]; intros ts Hk; [reflexivity|]. cbn [v_clear].
  destruct (v_first ts ti) as [e|]; [|reflexivity].
  rewrite IH by (now rewrite vexec_prim_length). apply vexec_prim_other; [cbn [target]; congruence|assumption].
Qed.

Theorem vexec_other_proof ts x k :
  target x <> Some k -> (k < length ts)%nat -> nth_error (fst (vexec ts x)) k = nth_error ts k.
Proof.
  intros Hne Hk. destruct x; cbn [vexec]; try (now apply vexec_prim_other).
  - destruct (v_lookup ts ti k0); [|reflexivity]. apply vexec_prim_other; [cbn [target] in *; congruence|assumption].
  - destruct (v_first ts ti); [|reflexivity]. apply vexec_prim_other; [cbn [target] in *; congruence|assumption].
  - cbn [fst]. apply v_clear_other; [cbn [target] in Hne; congruence|assumption].
  - destruct (v_lookup ts ti k0); [reflexivity|]. apply vexec_prim_other; [cbn [target] in *; congruence|assumption].
Qed.
