(* Message-level form of "altered messages never verify": two wire messages that the reader
   accepts as validated under the same key, request MAC and MAC value either carry identical
   authenticated content or exhibit a collision of the truncated keyed hash. *)
From DV Require Import Base.Prelude.
From DV Require Model.NameM.
From DV Require Import Model.TsigM Proofs.TsigSpec Proofs.TsigLemmas Proofs.TsigInj Proofs.TsigReader.
Open Scope Z_scope.

Lemma In_firstn : forall (A : Type) (x : A) n l, In x (firstn n l) -> In x l.
Proof. intros A x n l. rewrite <- (firstn_skipn n l) at 2. intros. apply in_or_app. now left. Qed.

Lemma In_skipn : forall (A : Type) (x : A) n l, In x (skipn n l) -> In x l.
Proof. intros A x n l. rewrite <- (firstn_skipn n l) at 2. intros. apply in_or_app. now right. Qed.

Lemma be_val_bound : forall l acc,
  (forall x, In x l -> 0 <= x < 256) -> 0 <= acc ->
  0 <= be_val l acc < (acc + 1) * 256 ^ Z.of_nat (length l).
Proof.
  induction l as [|b l IH]; intros acc Hb Ha; cbn [be_val length].
  - change (256 ^ Z.of_nat 0) with 1. lia.
  - assert (Bb : 0 <= b < 256) by (apply Hb; now left).
    assert (IHl := IH (acc * 256 + b) (fun x Hx => Hb x (or_intror Hx))).
    rewrite Nat2Z.inj_succ, Z.pow_succ_r by lia.
    assert (0 < 256 ^ Z.of_nat (length l)) by (apply Z.pow_pos_nonneg; lia).
    split; [apply IHl; lia|].
    eapply Z.lt_le_trans; [apply IHl; lia|]. nia.
Qed.

Lemma all_bytes_In : forall w x, all_bytes w = true -> In x w -> 0 <= x < 256.
Proof.
  intros w x A I. unfold all_bytes in A. rewrite forallb_forall in A. apply A in I.
  unfold is_byte in I. apply andb_true_iff in I as [I1 I2]. apply Z.leb_le in I1. apply Z.ltb_lt in I2. lia.
Qed.

Lemma get_uint_bound : forall w e p n v p',
  all_bytes w = true -> get_uint w e p n = Ok (v, p') -> 0 <= v < 256 ^ Z.of_nat n.
Proof.
  intros w e p n v p' A G. unfold get_uint, get_bytes in G.
  destruct (Nat.ltb (e - p) n); cbn [bind] in G; [discriminate|]. cbn [fst snd] in G.
  assert (v = be_val (firstn n (skipn p w)) 0) by congruence. subst v.
  pose proof (be_val_bound (firstn n (skipn p w)) 0) as B.
  assert (L : (length (firstn n (skipn p w)) <= n)%nat) by apply firstn_le_length.
  destruct B as [B1 B2].
  { intros x Hx. apply In_firstn, In_skipn in Hx. eapply all_bytes_In; eassumption. }
  { lia. }
  split; [assumption|].
  eapply Z.lt_le_trans; [exact B2|]. rewrite Z.add_0_l, Z.mul_1_l.
  apply Z.pow_le_mono_r; lia.
Qed.

Lemma get_counted2_len : forall w e p b p',
  all_bytes w = true -> get_counted2 w e p = Ok (b, p') -> zlen b < 65536.
Proof.
  intros w e p b p' A G. unfold get_counted2 in G.
  destruct (get_uint w e p 2) as [[v q]| |] eqn:U; cbn [bind] in G; try discriminate.
  apply get_uint_bound in U; [|assumption]. change (256 ^ Z.of_nat 2) with 65536 in U.
  cbn [fst snd] in G. unfold get_bytes in G.
  destruct (Nat.ltb (e - q) (Z.to_nat v)); [discriminate|].
  assert (b = firstn (Z.to_nat v) (skipn q w)) by congruence. subst b.
  unfold zlen. pose proof (firstn_le_length (Z.to_nat v) (skipn q w)). lia.
Qed.

Lemma tsig_from_wire_wf : forall w e p rd,
  all_bytes w = true -> tsig_from_wire w e p = Ok rd -> tsig_wf rd.
Proof.
  intros w e p rd A T. unfold tsig_from_wire in T.
  match type of T with context [wrap_formerror ?x] => destruct x as [[t q]| |] eqn:X end;
    cbn [wrap_formerror bind] in T.
  2:{ destruct (is_formerror e0); discriminate. }
  2:{ discriminate. }
  cbn [fst snd] in T. destruct (Nat.eqb q e); [|discriminate].
  assert (t = rd) by congruence. subst t. clear T.
  destruct (get_name w e p) as [ap| |]; cbn [bind] in X; try discriminate.
  destruct (get_uint w e (snd ap) 6) as [tp| |]; cbn [bind] in X; try discriminate.
  destruct (get_uint w e (snd tp) 2) as [fp| |]; cbn [bind] in X; try discriminate.
  destruct (get_counted2 w e (snd fp)) as [mp| |]; cbn [bind] in X; try discriminate.
  destruct (get_uint w e (snd mp) 2) as [ip| |]; cbn [bind] in X; try discriminate.
  destruct (get_uint w e (snd ip) 2) as [ep| |]; cbn [bind] in X; try discriminate.
  destruct (get_counted2 w e (snd ep)) as [[ot oq]| |] eqn:O; cbn [bind] in X; try discriminate.
  destruct (mk_tsig _ _ _ _ _ _ _) as [t| |] eqn:M; cbn [bind] in X; try discriminate.
  assert (t = rd) by congruence. subst t.
  eapply mk_tsig_wf; [exact M|]. cbn [fst]. eapply get_counted2_len; eassumption.
Qed.

Section WithH.
  Variable H : hashid -> bytes -> bytes -> bytes.

  Lemma read_tamper_needs_collision_lemma :
    forall k rmac ctx multi w1 now1 m1 owner1 rd1 w2 now2 m2 owner2 rd2,
      (ctx = None \/ multi = false) ->
      all_bytes w1 = true -> all_bytes w2 = true ->
      read H w1 (KR_Key k) rmac ctx multi now1 = Ok m1 -> m_tsig m1 = Some (owner1, rd1) ->
      read H w2 (KR_Key k) rmac ctx multi now2 = Ok m2 -> m_tsig m2 = Some (owner2, rd2) ->
      t_mac rd1 = t_mac rd2 ->
      exists body1 start1 body2 start2 ad1 ad2 h sz,
        m_recs m1 = body1 ++ [(3, TSIG, ANY, start1)] /\ m_recs m2 = body2 ++ [(3, TSIG, ANY, start2)] /\
        get_adcount w1 = Ok ad1 /\ get_adcount w2 = Ok ad2 /\
        assoc_name hashes (kalg k) = Some (h, sz) /\
        let d1 := rfc8945_input (omac rmac) (t_oid rd1) (rfc_received_message w1 ad1 start1) (vars_of k rd1 (t_time rd1)) in
        let d2 := rfc8945_input (omac rmac) (t_oid rd2) (rfc_received_message w2 ad2 start2) (vars_of k rd2 (t_time rd2)) in
        ((length (skipn 2 (rfc_received_message w1 ad1 start1)) = length (skipn 2 (rfc_received_message w2 ad2 start2))
          \/ length (t_other rd1) = length (t_other rd2)) ->
         authenticated w1 ad1 start1 rd1 = authenticated w2 ad2 start2 rd2
         \/ (d1 <> d2 /\
             rfc_truncate (trunc_of sz) (H h (ksecret k) d1) = rfc_truncate (trunc_of sz) (H h (ksecret k) d2))).
  Proof.
    intros until rd2. intros F A1 A2 R1 T1 R2 T2 M.
    apply read_ok in R1 as (body1 & _ & [(_ & N1 & _) | (o1 & r1 & start1 & Rc1 & S1 & _ & D1)]); [congruence|].
    apply read_ok in R2 as (body2 & _ & [(_ & N2 & _) | (o2 & r2 & start2 & Rc2 & S2 & _ & D2)]); [congruence|].
    rewrite T1 in S1. rewrite T2 in S2. inversion S1; subst o1 r1. inversion S2; subst o2 r2.
    destruct D1 as ((e1 & p1 & P1) & ko1 & FK1 & V1). destruct D2 as ((e2 & p2 & P2) & ko2 & FK2 & V2).
    cbn [find_key] in FK1, FK2. inversion FK1; subst ko1. inversion FK2; subst ko2.
    apply tsig_from_wire_wf in P1; [|assumption]. apply tsig_from_wire_wf in P2; [|assumption].
    destruct (tamper_needs_collision_lemma H k rmac ctx multi w1 owner1 rd1 now1 start1 _ w2 owner2 rd2 now2 start2 _
                F A1 A2 P1 P2 V1 V2 M) as (ad1 & ad2 & h & sz & G1 & G2 & Hh & Concl).
    exists body1, start1, body2, start2, ad1, ad2, h, sz. repeat split; assumption.
  Qed.
End WithH.
