(* Message-level form of "altered messages never verify": two wire messages that the reader
   accepts as validated under the same key, request MAC and MAC value either carry identical
   authenticated content or exhibit a collision of the truncated keyed hash. *)
From DV Require Import Base.Prelude.
From DV Require Model.NameM.
From DV Require Import Model.TsigM Proofs.TsigSpec Proofs.TsigLemmas Proofs.TsigInj Proofs.TsigReader.
Open Scope Z_scope.

Lemma In_firstn : forall (A : Type) (x : A) n l, In x (firstn n l) -> In x l.
Proof. intros A x n l. rewrite <- (firstn_skipn n l) at 2. intros. apply in_or_app. now left. Qed.

Lemma In_skipn : forall (A : Type) (x : A) n l, In x (skipn n l) -> In x l.
Proof. intros A x n l. rewrite <- (firstn_skipn n l) at 2. intros. apply in_or_app. now right. Qed.

Lemma be_val_bound : forall l acc,
  (forall x, In x l -> 0 <= x < 256) -> 0 <= acc ->
  0 <= be_val l acc < (acc + 1) * 256 ^ Z.of_nat (length l).
Proof.
  induction l as [|b l IH]; intros acc Hb Ha; cbn [be_val length].
  - change (256 ^ Z.of_nat 0) with 1. lia.
  - assert (Bb : 0 <= b < 256) by (apply Hb; now left).
    assert (IHl := IH (acc * 256 + b) (fun x Hx => Hb x (or_intror Hx))).
    rewrite Nat2Z.inj_succ, Z.pow_succ_r by lia.
    assert (0 < 256 ^ Z.of_nat (length l)) by (apply Z.pow_pos_nonneg; lia).
    split; [apply IHl; lia|].
    eapply Z.lt_le_trans; [apply IHl; lia|]. nia.
Qed.

Lemma all_bytes_In : forall w x, all_bytes w = true -> In x w -> 0 <= x < 256.
Proof.
  intros w x A I. unfold all_bytes in A. rewrite forallb_forall in A. apply A in I.
  unfold is_byte in I. apply andb_true_iff in I as [I1 I2]. apply Z.leb_le in I1. apply Z.ltb_lt in I2. lia.
Qed.

Lemma get_uint_bound : forall w e p n v p',
  all_bytes w = true -> get_uint w e p n = Ok (v, p') -> 0 <= v < 256 ^ Z.of_nat n.
Proof.
  intros w e p n v p' A G. unfold get_uint, get_bytes in G.
  destruct (Nat.ltb (e - p) n); cbn [bind] in G; [discriminate|]. cbn [fst snd] in G.
  assert (v = be_val (firstn n (skipn p w)) 0) by congruence. subst v.
  pose proof (be_val_bound (firstn n (skipn p w)) 0) as B.
  assert (L : (length (firstn n (skipn p w)) <= n)%nat) by apply firstn_le_length.
  destruct B as [B1 B2].
  { intros x Hx. apply In_firstn, In_skipn in Hx. eapply all_bytes_In; eassumption. }
  { lia. }
  split; [assumption|].
  eapply Z.lt_le_trans; [exact B2|]. rewrite Z.add_0_l, Z.mul_1_l.
  apply Z.pow_le_mono_r; lia.
Qed.

Lemma get_counted2_len : forall w e p b p',
  all_bytes w = true -> get_counted2 w e p = Ok (b, p') -> zlen b < 65536.
Proof.
  intros w e p b p' A G. unfold get_counted2 in G.
  destruct (get_uint w e p 2) as [[v q]| |] eqn:U; cbn [bind] in G; try discriminate.
  apply get_uint_bound in U; [|assumption]. change (256 ^ Z.of_nat 2) with 65536 in U.
  cbn [fst snd] in G. unfold get_bytes in G.
  destruct (Nat.ltb (e - q) (Z.to_nat v)); [discriminate|].
  assert (b = firstn (Z.to_nat v) (skipn q w)) by congruence. subst b.
  unfold zlen. pose proof (firstn_le_length (Z.to_nat v) (skipn q w)). lia.
Qed.

Lemma tsig_from_wire_wf : forall w e p rd,
  all_bytes w = true -> tsig_from_wire w e p = Ok rd -> tsig_wf rd.
Proof.
  intros w e p rd A T. unfold tsig_from_wire in T.
  match type of T with context [wrap_formerror ?x] => destruct x as [[t q]| |] eqn:X end;
    cbn [wrap_formerror bind] in T.
  2:{ destruct (is_formerror e0); discriminate. }
  2:{ discriminate. }
  cbn [fst snd] in T. destruct (Nat.eqb q e); [|discriminate].
  assert (t = rd) by congruence. subst t. clear T.
  destruct (get_name w e p) as [ap| |]; cbn [bind] in X; try discriminate.
  destruct (get_uint w e (snd ap) 6) as [tp| |]; cbn [bind] in X; try discriminate.
  destruct (get_uint w e (snd tp) 2) as [fp| |]; cbn [bind] in X; try discriminate.
  destruct (get_counted2 w e (snd fp)) as [mp| |]; cbn [bind] in X; try discriminate.
  destruct (get_uint w e (snd mp) 2) as [ip| |]; cbn [bind] in X; try discriminate.
  destruct (get_uint w e (snd ip) 2) as [ep| |]; cbn [bind] in X; try discriminate.
  destruct (get_counted2 w e (snd ep)) as [[ot oq]| |] eqn:O; cbn [bind] in X; try discriminate.
  destruct (mk_tsig _ _ _ _ _ _ _) as [t| |] eqn:M; cbn [bind] in X; try discriminate.
  assert (t = rd) by congruence. subst t.
  eapply mk_tsig_wf; [exact M|]. cbn [fst]. eapply get_counted2_len; eassumption.
Qed.

Section WithH.
  Variable H : hashid -> bytes -> bytes -> bytes.

  Lemma read_tamper_needs_collision_lemma :
    forall origin1 origin2 k rmac ctx multi w1 now1 m1 owner1 rd1 w2 now2 m2 owner2 rd2,
      (ctx = None \/ multi = false) ->
      all_bytes w1 = true -> all_bytes w2 = true ->
      read_gen H origin1 w1 (KR_Key k) rmac ctx multi now1 = Ok m1 -> m_tsig m1 = Some (owner1, rd1) ->
      read_gen H origin2 w2 (KR_Key k) rmac ctx multi now2 = Ok m2 -> m_tsig m2 = Some (owner2, rd2) ->
      t_mac rd1 = t_mac rd2 ->
      exists body1 start1 body2 start2 ad1 ad2 h sz,
        m_recs m1 = body1 ++ [(3, TSIG, ANY, start1)] /\ m_recs m2 = body2 ++ [(3, TSIG, ANY, start2)] /\
        get_adcount w1 = Ok ad1 /\ get_adcount w2 = Ok ad2 /\
        assoc_name hashes (kalg k) = Some (h, sz) /\
        let d1 := rfc8945_input (omac rmac) (t_oid rd1) (rfc_received_message w1 ad1 start1) (vars_of k rd1 (t_time rd1)) in
        let d2 := rfc8945_input (omac rmac) (t_oid rd2) (rfc_received_message w2 ad2 start2) (vars_of k rd2 (t_time rd2)) in
        ((length (skipn 2 (rfc_received_message w1 ad1 start1)) = length (skipn 2 (rfc_received_message w2 ad2 start2))
          \/ length (t_other rd1) = length (t_other rd2)) ->
         authenticated w1 ad1 start1 rd1 = authenticated w2 ad2 start2 rd2
         \/ (d1 <> d2 /\
             rfc_truncate (trunc_of sz) (H h (ksecret k) d1) = rfc_truncate (trunc_of sz) (H h (ksecret k) d2))).
  Proof.
    intros until rd2. intros F A1 A2 R1 T1 R2 T2 M.
    apply read_ok in R1 as (body1 & _ & [(_ & N1 & _) | (o1 & r1 & start1 & Rc1 & S1 & _ & D1)]); [congruence|].
    apply read_ok in R2 as (body2 & _ & [(_ & N2 & _) | (o2 & r2 & start2 & Rc2 & S2 & _ & D2)]); [congruence|].
    rewrite T1 in S1. rewrite T2 in S2. inversion S1; subst o1 r1. inversion S2; subst o2 r2.
    destruct D1 as ((e1 & p1 & P1) & ko1 & FK1 & V1). destruct D2 as ((e2 & p2 & P2) & ko2 & FK2 & V2).
    cbn [find_key] in FK1, FK2. inversion FK1; subst ko1. inversion FK2; subst ko2.
    apply tsig_from_wire_wf in P1; [|assumption]. apply tsig_from_wire_wf in P2; [|assumption].
    destruct (tamper_needs_collision_lemma H k rmac ctx multi w1 owner1 rd1 now1 start1 _ w2 owner2 rd2 now2 start2 _
                F A1 A2 P1 P2 V1 V2 M) as (ad1 & ad2 & h & sz & G1 & G2 & Hh & Concl).
    exists body1, start1, body2, start2, ad1, ad2, h, sz. repeat split; assumption.
  Qed.
End WithH.

(* ---------- which octets of a received message are authenticated ---------- *)

Lemma nth_error_firstn_lt : forall (A : Type) (l : list A) n p, (p < n)%nat -> nth_error (firstn n l) p = nth_error l p.
Proof.
  intros A l. induction l as [|x l IH]; intros n p L.
  - rewrite firstn_nil. reflexivity.
  - destruct n; [lia|]. destruct p; [reflexivity|]. cbn. apply IH. lia.
Qed.

Lemma nth_error_skipn_add : forall (A : Type) (l : list A) n p, nth_error (skipn n l) p = nth_error l (n + p).
Proof.
  intros A l. induction l as [|x l IH]; intros n p.
  - rewrite skipn_nil. destruct p, n; reflexivity.
  - destruct n; [reflexivity|]. cbn. apply IH.
Qed.

(* octet p of the received wire, 2 <= p < 10 or 12 <= p < tsig_start, is octet p of the message
   that RFC 8945 4.3.2 digests (octets 0-1 are replaced by the original id, 10-11 by ARCOUNT-1) *)
Lemma received_message_octet : forall (wire : bytes) ad start p,
  (10 <= length wire)%nat ->
  ((p < 10)%nat \/ (12 <= p < start)%nat) ->
  nth_error (rfc_received_message wire ad start) p = nth_error wire p.
Proof.
  intros wire ad start p L [P|P]; unfold rfc_received_message.
  - rewrite nth_error_app1 by (rewrite firstn_length_le; lia).
    apply nth_error_firstn_lt. exact P.
  - rewrite nth_error_app2 by (rewrite firstn_length_le; lia).
    rewrite firstn_length_le by lia.
    rewrite nth_error_app2 by (rewrite be_length; lia). rewrite be_length.
    rewrite nth_error_firstn_lt by lia. rewrite nth_error_skipn_add. f_equal. lia.
Qed.

(* hence: two received messages (same cut point) that differ in such an octet have different
   authenticated content, whatever the rest is *)
Lemma altered_octet_changes_authenticated_lemma :
  forall (w1 w2 : bytes) ad1 ad2 start rd1 rd2 p,
    (10 <= length w1)%nat -> (10 <= length w2)%nat ->
    ((2 <= p < 10)%nat \/ (12 <= p < start)%nat) ->
    nth_error w1 p <> nth_error w2 p ->
    authenticated w1 ad1 start rd1 <> authenticated w2 ad2 start rd2.
Proof.
  intros w1 w2 ad1 ad2 start rd1 rd2 p L1 L2 P D E. unfold authenticated in E.
  assert (S : skipn 2 (rfc_received_message w1 ad1 start) = skipn 2 (rfc_received_message w2 ad2 start))
    by congruence.
  apply D.
  rewrite <- (received_message_octet w1 ad1 start p L1) by (destruct P; [left|right]; lia).
  rewrite <- (received_message_octet w2 ad2 start p L2) by (destruct P; [left|right]; lia).
  replace p with (2 + (p - 2))%nat by (destruct P; lia).
  rewrite <- !nth_error_skipn_add. now rewrite S.
Qed.

(* ARCOUNT is authenticated too (as ARCOUNT - 1) *)
Lemma altered_arcount_changes_authenticated_lemma :
  forall (w1 w2 : bytes) ad1 ad2 start1 start2 rd1 rd2,
    (10 <= length w1)%nat -> (10 <= length w2)%nat ->
    0 < ad1 < 65536 -> 0 < ad2 < 65536 -> ad1 <> ad2 ->
    authenticated w1 ad1 start1 rd1 <> authenticated w2 ad2 start2 rd2.
Proof.
  intros w1 w2 ad1 ad2 start1 start2 rd1 rd2 L1 L2 A1 A2 D E. unfold authenticated in E.
  assert (S : skipn 2 (rfc_received_message w1 ad1 start1) = skipn 2 (rfc_received_message w2 ad2 start2))
    by congruence.
  unfold rfc_received_message in S.
  assert (F : forall (w : bytes) (x : octets), (10 <= length w)%nat ->
              skipn 2 (firstn 10 w ++ x) = skipn 2 (firstn 10 w) ++ x).
  { intros w x Lw. rewrite skipn_app. rewrite firstn_length_le by lia. reflexivity. }
  rewrite !F in S by assumption.
  apply app_inv_len in S as [_ S].
  2:{ rewrite !skipn_length, !firstn_length_le by lia. reflexivity. }
  apply app_inv_len in S as [S _]; [|now rewrite !be_length].
  apply be_inj in S; [lia| |]; change (256 ^ Z.of_nat 2) with 65536; lia.
Qed.
