(* C09: the class and type fields the printer writes are read back as that class / type and are
   never mistaken for a TTL or a class - for every 16-bit code; the printer's name sort only
   reorders. *)
From DV Require Import Base.Prelude Model.NameM Model.ZoneTextM Proofs.ZoneTextBase Proofs.ZoneTextLex
  Proofs.ZoneTextRespell Proofs.ZoneTextRead Proofs.ZoneTextRecord.
From Coq Require Import Permutation.
Open Scope Z_scope.

Lemma upper_l_digits d : all_digits d = true -> upper_l d = d.
Proof.
  induction d as [|c d IH]; [reflexivity|]. unfold all_digits. cbn [forallb upper_l map].
  intros H. apply andb_true_iff in H as [Hc Hd]. rewrite (upper_digit c Hc). f_equal. apply IH. exact Hd.
Qed.

Section Generic.
  Variables (n : Z) (d : list Z).
  Hypothesis Hn : 0 <= n <= 65535.
  Hypothesis Ha : all_digits d = true.
  Hypothesis Hi : int_of_digits d = n.
  Hypothesis Hne : d <> [].

  Lemma generic_type_from_text : type_from_text (sTYPE ++ d) = Some n.
  Proof.
    unfold type_from_text, upper_l. rewrite map_app. fold (upper_l d). rewrite (upper_l_digits d Ha).
    cbn [sTYPE map upper Z.leb Z.compare andb app].
    cbn [type_table tbl_by_name zlist_eqb Z.eqb Pos.eqb andb tA tNS tCNAME tSOA tPTR tMX tTXT tKEY tAAAA tSRV tDNAME tRRSIG tNSEC].
    cbn [is_prefix sTYPE Z.eqb Pos.eqb andb skipn].
    destruct d as [|c0 d0]; [congruence|].
    rewrite Ha, Hi. replace (n <=? 65535) with true by (symmetry; apply Z.leb_le; lia). reflexivity.
  Qed.

  Lemma generic_type_not_class : class_from_text (sTYPE ++ d) = None.
  Proof.
    unfold class_from_text, upper_l. rewrite map_app. fold (upper_l d). rewrite (upper_l_digits d Ha).
    cbn [sTYPE map upper Z.leb Z.compare andb app].
    cbn [class_names assoc_l zlist_eqb Z.eqb Pos.eqb andb is_prefix sCLASS]. reflexivity.
  Qed.

  Lemma generic_type_clean : id_clean (sTYPE ++ d) = true.
  Proof.
    unfold id_clean. cbn [sTYPE app id_clean_go Z.eqb Pos.eqb is_delim orb negb andb].
    apply digits_clean_go. exact Ha.
  Qed.

  Lemma generic_class_from_text : class_from_text (sCLASS ++ d) = Some n.
  Proof.
    unfold class_from_text, upper_l. rewrite map_app. fold (upper_l d). rewrite (upper_l_digits d Ha).
    cbn [sCLASS map upper Z.leb Z.compare andb app].
    cbn [class_names assoc_l zlist_eqb Z.eqb Pos.eqb andb is_prefix sCLASS skipn].
    destruct d as [|c0 d0]; [congruence|].
    rewrite Ha, Hi. replace (n <=? 65535) with true by (symmetry; apply Z.leb_le; lia). reflexivity.
  Qed.

  Lemma generic_class_clean : id_clean (sCLASS ++ d) = true.
  Proof.
    unfold id_clean. cbn [sCLASS app id_clean_go Z.eqb Pos.eqb is_delim orb negb andb].
    apply digits_clean_go. exact Ha.
  Qed.
End Generic.

Lemma type_ok_all ty : 0 <= ty <= 65535 -> type_ok ty.
Proof.
  intros H. unfold type_ok, type_text_ok, type_to_text, tbl_by_code, type_table.
  repeat match goal with
         | |- context [if ?k =? ty then _ else _] =>
             destruct (Z.eqb_spec k ty); [subst ty; vm_compute; repeat split; reflexivity|]
         end.
  destruct (dec_spec ty ltac:(lia)) as (Ha & Hi & Hne).
  split; [split; [|split]|].
  - apply generic_type_from_text; assumption.
  - apply generic_type_not_class; assumption.
  - apply ttl_from_text_nondigit. reflexivity.
  - apply generic_type_clean; assumption.
Qed.

Lemma class_ok_all c : 0 <= c_class c <= 65535 -> class_ok c.
Proof.
  intros H. unfold class_ok, class_to_text.
  repeat match goal with
         | |- context [if c_class c =? ?k then _ else _] =>
             destruct (Z.eqb_spec (c_class c) k) as [->|?]; [split; reflexivity|]
         end.
  destruct (dec_spec (c_class c) ltac:(lia)) as (Ha & Hi & Hne).
  split; [apply generic_class_from_text; assumption|apply generic_class_clean; assumption].
Qed.

(* ---------- names.sort() only reorders ---------- *)
Lemma zinsert_perm e z : Permutation (zinsert e z) (e :: z).
Proof.
  induction z as [|x z IH]; cbn [zinsert]; [reflexivity|].
  destruct (order (fst x) (fst e) <? 0); [|reflexivity].
  rewrite IH. apply perm_swap.
Qed.

Lemma zsort_perm z : Permutation (zsort z) z.
Proof.
  induction z as [|e z IH]; cbn [zsort]; [reflexivity|].
  rewrite zinsert_perm. constructor. exact IH.
Qed.
