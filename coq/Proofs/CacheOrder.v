(* C17 - real-time order: in every execution the body of a call (its position in the
   sequential witness) lies between the call's invocation and its response. *)
From DV Require Import Base.Prelude Model.CacheM Proofs.CacheConc.

Definition tid_of (l : label) : option nat :=
  match l with
  | LInv t _ | LAcq t | LBody t _ _ | LRel t | LRes t _ _ => Some t
  | LEnv _ => None
  end.

Definition silent (t : nat) (ls : list label) : Prop := forall x, In x ls -> tid_of x <> Some t.

Lemma call_eqb_eq : forall a b, call_eqb a b = true -> a = b.
Proof.
  intros a b H. destruct a as [k|k v|[k|]|m|k| | | |], b as [k'|k' v'|[k'|]|m'|k'| | | |]; cbn in H;
    try discriminate; try reflexivity;
    try (apply Z.eqb_eq in H; subst; reflexivity).
  apply andb_true_iff in H. destruct H as [H H3]. apply andb_true_iff in H. destruct H as [H1 H2].
  apply Z.eqb_eq in H1, H2, H3. destruct v, v'. cbn in *. subst. reflexivity.
Qed.

Lemma tnext_silent : forall t st x, tid_of x <> Some t -> tnext t st x = Some st.
Proof.
  intros t st x H. destruct x as [u c|u|u c ds|u|u c r|d]; cbn in *; try reflexivity;
    (destruct (Nat.eqb u t) eqn:E; [apply Nat.eqb_eq in E; congruence|reflexivity]).
Qed.

Lemma trun_silent : forall t ls st, silent t ls -> trun t st ls = Some st.
Proof.
  intros t ls. induction ls as [|x r IH]; intros st H; cbn; [reflexivity|].
  rewrite tnext_silent by (apply H; left; reflexivity). apply IH. intros y Hy. apply H. right. exact Hy.
Qed.

Lemma trun_app : forall t l1 l2 st, trun t st (l1 ++ l2) =
  match trun t st l1 with Some st' => trun t st' l2 | None => None end.
Proof.
  intros t l1. induction l1 as [|x r IH]; intros l2 st; cbn; [reflexivity|].
  destruct (tnext t st x); [apply IH|reflexivity].
Qed.

Lemma tid_dec : forall (o : option nat) t, {o = Some t} + {o <> Some t}.
Proof.
  intros [u|] t; [|right; discriminate].
  destruct (Nat.eq_dec u t) as [->|H]; [left; reflexivity|right; congruence].
Qed.

(* split a thread's run at its last own label *)
Lemma last_own_label : forall t ls st0 st, trun t st0 ls = Some st ->
  (silent t ls /\ st = st0) \/
  exists p x q st1, ls = p ++ x :: q /\ tid_of x = Some t /\ silent t q /\
                    trun t st0 p = Some st1 /\ tnext t st1 x = Some st.
Proof.
  intros t ls. induction ls as [|y l IH] using rev_ind; intros st0 st H.
  - left. cbn in H. inversion H. split; [intros x []|reflexivity].
  - rewrite trun_app in H. destruct (trun t st0 l) as [st1|] eqn:E; [|discriminate].
    cbn in H. destruct (tnext t st1 y) as [st2|] eqn:E2; [|discriminate]. inversion H; subst st2.
    destruct (tid_dec (tid_of y) t) as [Hy|Hy].
    + right. exists l, y, [], st1. repeat split; auto. intros x [].
    + rewrite tnext_silent in E2 by exact Hy. inversion E2; subst st1.
      destruct (IH _ _ E) as [[Hs ->]|[p [x [q [s1 [-> [Hx [Hq [Hp Hn]]]]]]]]].
      * left. split; [|reflexivity]. intros x Hx. apply in_app_or in Hx. destruct Hx as [Hx|[<-|[]]]; auto.
      * right. exists p, x, (q ++ [y]), s1. rewrite <- app_assoc. cbn. repeat split; auto.
        intros z Hz. apply in_app_or in Hz. destruct Hz as [Hz|[<-|[]]]; auto.
Qed.

Lemma tnext_own_inv : forall t s x s', tid_of x = Some t -> tnext t s x = Some s' ->
  match s' with
  | TWait c => x = LInv t c /\ s = TIdle
  | THold c => x = LAcq t /\ s = TWait c
  | TFin c => (exists ds, x = LBody t c ds) /\ s = THold c
  | TRel c => x = LRel t /\ s = TFin c
  | TIdle => exists c r, x = LRes t c r /\ s = TRel c
  end.
Proof.
  intros t s x s' Ht H. destruct x as [u c|u|u c ds|u|u c r|d]; cbn in Ht; inversion Ht; subst u;
    cbn in H; rewrite Nat.eqb_refl in H; destruct s as [|c0|c0|c0|c0]; try discriminate.
  - inversion H; subst. auto.
  - inversion H; subst. auto.
  - destruct (call_eqb c c0) eqn:E; [|discriminate]. apply call_eqb_eq in E. subst c0.
    inversion H; subst. split; [eauto|reflexivity].
  - inversion H; subst. auto.
  - destruct (call_eqb c c0) eqn:E; [|discriminate]. apply call_eqb_eq in E. subst c0.
    inversion H; subst. eauto.
Qed.

(* labels of thread t that begin, linearize or end a call *)
Definition call_event (t : nat) (x : label) : Prop :=
  match x with
  | LInv u _ | LBody u _ _ | LRes u _ _ => u = t
  | _ => False
  end.

Lemma silent_no_call : forall t q x, silent t q -> In x q -> ~ call_event t x.
Proof.
  intros t q x Hs Hx Hc. apply (Hs x Hx). destruct x; cbn in *; try contradiction; congruence.
Qed.

(* the step back from a state that only an own label can produce *)
Lemma back_step : forall t pre st, trun t TIdle pre = Some st -> st <> TIdle ->
  exists p x q s1, pre = p ++ x :: q /\ tid_of x = Some t /\ silent t q /\
                   trun t TIdle p = Some s1 /\ tnext t s1 x = Some st.
Proof.
  intros t pre st H Hne. destruct (last_own_label _ _ _ _ H) as [[_ E]|H']; [congruence|exact H'].
Qed.

Section Order.
  Context {St : Type}.
  Variable step : call -> St -> clk -> res (ret * St * clk).

  (* Whenever a call of thread t returns, that same call was invoked earlier, its body ran in
     between, and thread t did nothing else in between: the linearization point lies inside
     the call's interval. *)
  Theorem body_within_call : forall s t0 ls cf pre t c r post,
    exec step (init_conf s t0) ls cf -> ls = pre ++ LRes t c r :: post ->
    exists p1 p2 p3 ds,
      pre = p1 ++ LInv t c :: p2 ++ LBody t c ds :: p3 /\
      (forall x, In x p2 -> ~ call_event t x) /\ (forall x, In x p3 -> ~ call_event t x).
  Proof.
    intros s t0 ls cf pre t c r post He ->.
    pose proof (thread_protocol step s t0 _ cf t He) as HP.
    rewrite trun_app in HP. destruct (trun t TIdle pre) as [st|] eqn:E0; [|discriminate].
    cbn [trun] in HP. destruct (tnext t st (LRes t c r)) as [st'|] eqn:E1; [|discriminate].
    cbn [tnext] in E1. rewrite Nat.eqb_refl in E1.
    destruct st as [|c0|c0|c0|c0]; try discriminate.
    destruct (call_eqb c c0) eqn:Ec; [|discriminate]. apply call_eqb_eq in Ec. subst c0.
    (* TRel c <- LRel *)
    destruct (back_step _ _ _ E0) as [pA [x1 [q1 [s1 [-> [T1 [S1 [R1 N1]]]]]]]]; [discriminate|].
    pose proof (tnext_own_inv _ _ _ _ T1 N1) as [-> ->]. cbn in *.
    (* TFin c <- LBody *)
    destruct (back_step _ _ _ R1) as [pB [x2 [q2 [s2 [-> [T2 [S2 [R2 N2]]]]]]]]; [discriminate|].
    pose proof (tnext_own_inv _ _ _ _ T2 N2) as [[ds ->] ->]. cbn in *.
    (* THold c <- LAcq *)
    destruct (back_step _ _ _ R2) as [pC [x3 [q3 [s3 [-> [T3 [S3 [R3 N3]]]]]]]]; [discriminate|].
    pose proof (tnext_own_inv _ _ _ _ T3 N3) as [-> ->]. cbn in *.
    (* TWait c <- LInv *)
    destruct (back_step _ _ _ R3) as [pD [x4 [q4 [s4 [-> [T4 [S4 [R4 N4]]]]]]]]; [discriminate|].
    pose proof (tnext_own_inv _ _ _ _ T4 N4) as [-> ->]. cbn in *.
    exists pD, (q4 ++ LAcq t :: q3), (q2 ++ LRel t :: q1), ds. split.
    - repeat (rewrite <- app_assoc; cbn [app]). reflexivity.
    - split; intros x Hx; apply in_app_or in Hx; destruct Hx as [Hx|[<-|Hx]].
      + eapply silent_no_call; [exact S4|exact Hx].
      + cbn. tauto.
      + eapply silent_no_call; [exact S3|exact Hx].
      + eapply silent_no_call; [exact S2|exact Hx].
      + cbn. tauto.
      + eapply silent_no_call; [exact S1|exact Hx].
  Qed.
End Order.

(* ------------------------------------------------------------------ body order = lock-acquisition order *)
Fixpoint acq_tids (ls : list label) : list nat :=
  match ls with
  | [] => []
  | LAcq t :: r => t :: acq_tids r
  | _ :: r => acq_tids r
  end.

Fixpoint body_tids (ls : list label) : list nat :=
  match ls with
  | [] => []
  | LBody t _ _ :: r => t :: body_tids r
  | _ :: r => body_tids r
  end.

Section AcqOrder.
  Context {St : Type}.
  Variable step : call -> St -> clk -> res (ret * St * clk).

  (* the thread that holds the lock and has not run its body yet *)
  Definition holding (cf : @conf St) : list nat :=
    match cf_lock cf with
    | Some u => match cf_ph cf u with Holding _ => [u] | _ => [] end
    | None => []
    end.

  Lemma holding_upd_other : forall (cf : @conf St) o n lk t p,
    cf_lock cf = lk ->
    (forall u, lk = Some u -> u <> t) ->
    holding (mkConf o n lk (upd (cf_ph cf) t p)) = holding cf.
  Proof.
    intros cf o n lk t p Hl Hne. unfold holding. cbn [cf_lock cf_ph]. rewrite Hl.
    destruct lk as [u|]; [|reflexivity]. rewrite upd_other by (apply Hne; reflexivity). reflexivity.
  Qed.

  Lemma acq_body_order : forall cf ls cf', exec step cf ls cf' -> mutex_inv cf ->
    holding cf ++ acq_tids ls = body_tids ls ++ holding cf'.
  Proof.
    induction 1 as [cf|cf l cf1 ls cf2 Hs He IH]; intros HI.
    - cbn. rewrite app_nil_r. reflexivity.
    - pose proof (mutex_step step _ _ _ Hs HI) as HI1. specialize (IH HI1).
      inversion Hs as [cf0 u c Hph | cf0 u c Hph Hl | cf0 u c ds r s' k' Hph Hl Hds Hst
                      | cf0 u c r Hph Hl | cf0 u c r Hph | cf0 d Hd]; subst;
        cbn [acq_tids body_tids].
      + (* inv *)
        rewrite <- IH. f_equal. symmetry. apply holding_upd_other; [reflexivity|].
        intros x Hx Ex. subst x. apply HI in Hx. rewrite Hph in Hx. discriminate.
      + (* acq *)
        rewrite <- IH. unfold holding at 1. rewrite Hl. cbn [app].
        unfold holding. cbn [cf_lock cf_ph]. rewrite upd_same. reflexivity.
      + (* body *)
        unfold holding at 1. rewrite Hl, Hph. cbn [app]. f_equal.
        rewrite <- IH. unfold holding. cbn [cf_lock cf_ph]. rewrite Hl, upd_same. reflexivity.
      + (* rel *)
        rewrite <- IH. unfold holding at 1. rewrite Hl, Hph.
        unfold holding. cbn [cf_lock]. reflexivity.
      + (* res *)
        rewrite <- IH. f_equal. symmetry. apply holding_upd_other; [reflexivity|].
        intros x Hx Ex. subst x. apply HI in Hx. rewrite Hph in Hx. discriminate.
      + (* env *)
        rewrite <- IH. reflexivity.
  Qed.

  (* the order in which bodies run - the order of the sequential witness - is the order in
     which the threads acquired the lock (the last acquirer may not have run its body yet) *)
  Theorem witness_in_acquisition_order : forall s t0 ls cf,
    exec step (init_conf s t0) ls cf -> acq_tids ls = body_tids ls ++ holding cf.
  Proof.
    intros s t0 ls cf He.
    assert (HI : mutex_inv (init_conf s t0)) by (intros x; cbn; split; discriminate).
    pose proof (acq_body_order _ _ _ He HI) as H. cbn in H. exact H.
  Qed.
End AcqOrder.
