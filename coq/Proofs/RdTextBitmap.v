(* NSEC / NSEC3 / CSYNC type bitmaps (dns/rdtypes/util.py Bitmap): the list of types printed by
   Bitmap.to_text, read back by Bitmap.from_rdtypes, gives the same windows - for every canonical
   bitmap (RFC 4034 4.1.2: windows in increasing order, 1..32 octets each, no trailing zero octet;
   type 0 is not representable in text). *)
From Coq Require Import Sorted.
From DV Require Import Base.Prelude Model.NameM Model.TokM Model.RdTextM Proofs.TokEsc.
Open Scope Z_scope.

Ltac Zify.zify_post_hook ::= Z.to_euclidean_division_equations.

(* ---------- per-octet facts: finite sweep over 256 values ---------- *)
Definition mask (j : Z) : Z := Z.shiftr 128 j.

Definition octet_bits_ok (b : Z) : bool :=
  (fold_left (fun acc j => if bit_set b j then Z.lor acc (mask j) else acc) [0; 1; 2; 3; 4; 5; 6; 7] 0 =? b).

Lemma octet_bits_all : forallb octet_bits_ok (map Z.of_nat (seq 0 256)) = true.
Proof. vm_compute. reflexivity. Qed.

Lemma octet_bits b : 0 <= b < 256 ->
  fold_left (fun acc j => if bit_set b j then Z.lor acc (mask j) else acc) [0; 1; 2; 3; 4; 5; 6; 7] 0 = b.
Proof.
  intros Hb. pose proof octet_bits_all as H. rewrite forallb_forall in H. specialize (H b).
  assert (Hin : In b (map Z.of_nat (seq 0 256))).
  { rewrite <- (Z2Nat.id b) by lia. apply in_map. apply in_seq. lia. }
  apply Z.eqb_eq. apply (H Hin).
Qed.

(* ---------- set_nth ---------- *)
Lemma set_nth_app pre x suf f :
  set_nth (length pre) f (pre ++ x :: suf) = pre ++ f x :: suf.
Proof. induction pre as [|y pre IH]; [reflexivity|]. cbn [length app set_nth]. rewrite IH. reflexivity. Qed.

(* ---------- one type of the current window ---------- *)
(* state while the types of window w are being processed *)
Lemma frt_step w i j r o p pre x suf acc :
  0 <= w -> 0 <= i < 32 -> 0 <= j < 8 -> length pre = Z.to_nat i -> w * 256 + i * 8 + j <> p ->
  frt_loop ((w * 256 + i * 8 + j) :: r) w o p (pre ++ x :: suf) acc
  = frt_loop r w (i + 1) (w * 256 + i * 8 + j) (pre ++ Z.lor x (mask j) :: suf) acc.
Proof.
  intros Hw Hi Hj Hl Hp. cbn [frt_loop].
  replace (w * 256 + i * 8 + j =? p) with false by lia.
  replace ((w * 256 + i * 8 + j) / 256) with w by lia.
  rewrite Z.eqb_refl. cbn [negb andb].
  replace ((w * 256 + i * 8 + j) mod 256 / 8) with i by lia.
  replace (((w * 256 + i * 8 + j) mod 256) mod 8) with j by lia.
  rewrite <- Hl. rewrite set_nth_app. reflexivity.
Qed.

(* the (up to 8) types of one octet, bits from position j0 on *)
Lemma frt_bits w i b pre suf acc r : 0 <= w -> 0 <= i < 32 -> length pre = Z.to_nat i ->
  forall js x o p,
  (forall j, In j js -> 0 <= j < 8) -> StronglySorted Z.lt js ->
  (forall j, In j js -> bit_set b j = true -> p < w * 256 + i * 8 + j) ->
  exists o' p',
    frt_loop (flat_map (fun j => if bit_set b j then [w * 256 + i * 8 + j] else []) js ++ r) w o p (pre ++ x :: suf) acc
    = frt_loop r w o' p'
        (pre ++ fold_left (fun a j => if bit_set b j then Z.lor a (mask j) else a) js x :: suf) acc
    /\ (existsb (bit_set b) js = true -> o' = i + 1 /\ exists j, In j js /\ p' = w * 256 + i * 8 + j)
    /\ (existsb (bit_set b) js = false -> o' = o /\ p' = p)
    /\ p <= p'.
Proof.
  intros Hw Hi Hl. induction js as [|j js IH]; intros x o p Hr Hs Hp.
  - exists o, p. cbn. repeat split; try discriminate; auto; lia.
  - inversion Hs as [|? ? Hs' Hlt]; subst. cbn [flat_map fold_left existsb].
    assert (Hj : 0 <= j < 8) by (apply Hr; left; reflexivity).
    destruct (bit_set b j) eqn:Eb.
    + cbn [app]. rewrite frt_step; try assumption; [|specialize (Hp j (or_introl eq_refl) Eb); lia].
      destruct (IH (Z.lor x (mask j)) (i + 1) (w * 256 + i * 8 + j)) as (o' & p' & E & H1 & H2 & H3).
      { intros k Hk. apply Hr. right. exact Hk. }
      { exact Hs'. }
      { intros k Hk _. rewrite Forall_forall in Hlt. specialize (Hlt k Hk). lia. }
      exists o', p'. split; [exact E|]. cbn [orb]. split; [|split; [discriminate|]].
      * intros _. destruct (existsb (bit_set b) js) eqn:Ee.
        -- destruct (H1 eq_refl) as [-> (k & Hk & ->)]. split; [reflexivity|]. exists k. split; [right; exact Hk|reflexivity].
        -- destruct (H2 eq_refl) as [-> ->]. split; [reflexivity|]. exists j. split; [left; reflexivity|reflexivity].
      * specialize (Hp j (or_introl eq_refl) Eb). lia.
    + cbn [app orb].
      destruct (IH x o p) as (o' & p' & E & H1 & H2 & H3).
      { intros k Hk. apply Hr. right. exact Hk. }
      { exact Hs'. }
      { intros k Hk Hbk. apply Hp; [right; exact Hk|exact Hbk]. }
      exists o', p'. split; [exact E|]. split; [|split; assumption].
      intros He. destruct (H1 He) as [-> (k & Hk & ->)]. split; [reflexivity|]. exists k. split; [right; exact Hk|reflexivity].
Qed.

Lemma sorted8 : StronglySorted Z.lt [0; 1; 2; 3; 4; 5; 6; 7].
Proof. repeat (constructor; [|repeat constructor; lia]). constructor. Qed.

(* one octet of the current window: position i holds 0 before and b afterwards *)
Lemma frt_octet w i b pre suf acc r o p : 0 <= w -> 0 <= i < 32 -> 0 <= b < 256 -> length pre = Z.to_nat i ->
  (forall j, 0 <= j < 8 -> bit_set b j = true -> p < w * 256 + i * 8 + j) -> p < w * 256 + (i + 1) * 8 ->
  exists o' p',
    frt_loop (byte_types (w * 256 + i * 8) b ++ r) w o p (pre ++ 0 :: suf) acc
    = frt_loop r w o' p' (pre ++ b :: suf) acc
    /\ (b <> 0 -> o' = i + 1) /\ (b = 0 -> o' = o) /\ p <= p' /\ p' < w * 256 + (i + 1) * 8.
Proof.
  intros Hw Hi Hb Hl Hp Hp2. unfold byte_types.
  destruct (frt_bits w i b pre suf acc r Hw Hi Hl [0; 1; 2; 3; 4; 5; 6; 7] 0 o p) as (o' & p' & E & H1 & H2 & H3).
  { intros j Hj. cbn in Hj. lia. }
  { exact sorted8. }
  { intros j Hj Hbj. apply Hp; [cbn in Hj; lia|exact Hbj]. }
  exists o', p'. rewrite octet_bits in E by exact Hb. split; [exact E|].
  destruct (existsb (bit_set b) [0; 1; 2; 3; 4; 5; 6; 7]) eqn:Ee.
  - destruct (H1 eq_refl) as [-> (j & Hj & ->)]. cbn in Hj.
    split; [reflexivity|]. split; [|split; lia].
    intros ->. exfalso. clear - Ee. vm_compute in Ee. discriminate.
  - destruct (H2 eq_refl) as [-> ->]. split; [|split; [reflexivity|split; lia]].
    intros Hnz. exfalso. apply Hnz.
    pose proof (octet_bits b Hb) as Hob.
    assert (forall js a, existsb (bit_set b) js = false ->
              fold_left (fun acc j => if bit_set b j then Z.lor acc (mask j) else acc) js a = a) as Hf.
    { induction js as [|j js IHjs]; intros a He; [reflexivity|]. cbn [existsb] in He. apply orb_false_iff in He as [Hj He].
      cbn [fold_left]. rewrite Hj. apply IHjs, He. }
    rewrite Hf in Hob by exact Ee. congruence.
Qed.

(* ---------- the types of one window ---------- *)
Lemma repeat_S_cons {A} (x : A) n : repeat x (S n) = x :: repeat x n.
Proof. reflexivity. Qed.

Lemma frt_window w : 0 <= w -> forall bm i pre acc r o p,
  0 <= i -> i + zlen bm <= 32 -> length pre = Z.to_nat i -> all_bytes bm = true ->
  (forall j, 0 <= j < 8 -> bit_set (hd 0 bm) j = true -> p < w * 256 + i * 8 + j) -> p < w * 256 + (i + 1) * 8 ->
  exists o' p',
    frt_loop (window_types w i bm ++ r) w o p (pre ++ repeat 0 (Z.to_nat (32 - i))) acc
    = frt_loop r w o' p' (pre ++ bm ++ repeat 0 (Z.to_nat (32 - i - zlen bm))) acc
    /\ (bm <> [] -> last bm 0 <> 0 -> o' = i + zlen bm)
    /\ (bm = [] -> o' = o /\ p' = p)
    /\ p <= p' /\ (bm <> [] -> p' < w * 256 + (i + zlen bm) * 8).
Proof.
  intros Hw. induction bm as [|b bm IH]; intros i pre acc r o p Hi Hlen Hl Hb Hp Hp2.
  - exists o, p. unfold zlen. cbn [window_types app length]. replace (32 - i - Z.of_nat 0) with (32 - i) by lia.
    split; [reflexivity|]. split; [congruence|]. split; [split; reflexivity|]. split; [lia|congruence].
  - cbn [all_bytes forallb] in Hb. apply andb_true_iff in Hb as [Hb0 Hb]. apply is_byte_range in Hb0.
    unfold zlen in *. cbn [length] in Hlen. rewrite Nat2Z.inj_succ in Hlen.
    cbn [window_types]. rewrite <- app_assoc.
    replace (Z.to_nat (32 - i)) with (S (Z.to_nat (32 - i - 1))) by lia. rewrite repeat_S_cons.
    destruct (frt_octet w i b pre (repeat 0 (Z.to_nat (32 - i - 1))) acc (window_types w (i + 1) bm ++ r) o p
                Hw ltac:(lia) Hb0 Hl Hp Hp2)
      as (o1 & p1 & E1 & A1 & A2 & A3 & A4).
    rewrite E1.
    replace (pre ++ b :: repeat 0 (Z.to_nat (32 - i - 1))) with ((pre ++ [b]) ++ repeat 0 (Z.to_nat (32 - (i + 1))))
      by (rewrite <- app_assoc; cbn [app]; do 3 f_equal; lia).
    assert (L1 : length (pre ++ [b]) = Z.to_nat (i + 1)) by (rewrite app_length; cbn [length]; lia).
    assert (Q1 : forall j, 0 <= j < 8 -> bit_set (hd 0 bm) j = true -> p1 < w * 256 + (i + 1) * 8 + j) by (intros; lia).
    destruct (IH (i + 1) (pre ++ [b]) acc r o1 p1 ltac:(lia) ltac:(lia) L1 Hb Q1 ltac:(lia))
      as (o2 & p2 & E2 & B1 & B2 & B3 & B4).
    rewrite E2. exists o2, p2.
    split.
    { rewrite <- app_assoc. cbn [app length]. rewrite Nat2Z.inj_succ.
      replace (32 - i - Z.succ (Z.of_nat (length bm))) with (32 - (i + 1) - Z.of_nat (length bm)) by lia. reflexivity. }
    cbn [length]. rewrite Nat2Z.inj_succ.
    split; [|split; [discriminate|split; [lia|]]].
    + intros _ Hlast. destruct bm as [|b2 bm'].
      * cbn [last] in Hlast. destruct (B2 eq_refl) as [-> _]. rewrite (A1 Hlast). cbn [length]. lia.
      * change (last (b :: b2 :: bm') 0) with (last (b2 :: bm') 0) in Hlast.
        rewrite (B1 ltac:(discriminate) Hlast). lia.
    + intros _. destruct bm as [|b2 bm'].
      * destruct (B2 eq_refl) as [_ ->]. cbn [length]. lia.
      * specialize (B4 ltac:(discriminate)). lia.
Qed.

(* the types of a window are in its range, ascending *)
Lemma byte_types_range base b t : In t (byte_types base b) -> base <= t < base + 8.
Proof.
  unfold byte_types. intros H. apply in_flat_map in H as (j & Hj & Ht). cbn in Hj.
  destruct (bit_set b j); [|contradiction]. destruct Ht as [<-|[]]. lia.
Qed.

Lemma sorted_app (a b : list Z) m : StronglySorted Z.lt a -> StronglySorted Z.lt b ->
  (forall x, In x a -> x < m) -> (forall y, In y b -> m <= y) -> StronglySorted Z.lt (a ++ b).
Proof.
  intros Ha Hb H1 H2. induction Ha as [|x a Ha IH Hx]; [exact Hb|]. cbn [app]. constructor.
  - apply IH. intros y Hy. apply H1. right. exact Hy.
  - apply Forall_app. split; [exact Hx|]. apply Forall_forall. intros y Hy.
    specialize (H1 x (or_introl eq_refl)). specialize (H2 y Hy). lia.
Qed.

Lemma byte_types_sorted base b : StronglySorted Z.lt (byte_types base b).
Proof.
  unfold byte_types.
  assert (G : forall js, StronglySorted Z.lt js ->
            StronglySorted Z.lt (flat_map (fun j => if bit_set b j then [base + j] else []) js)
            /\ forall t, In t (flat_map (fun j => if bit_set b j then [base + j] else []) js) -> exists j, In j js /\ t = base + j).
  { induction 1 as [|j js Hs IH Hlt]; [split; [constructor|intros t []]|]. destruct IH as [I1 I2]. cbn [flat_map]. split.
    - destruct (bit_set b j); [|exact I1]. cbn [app]. constructor; [exact I1|].
      apply Forall_forall. intros t Ht. destruct (I2 t Ht) as (k & Hk & ->). rewrite Forall_forall in Hlt.
      specialize (Hlt k Hk). lia.
    - intros t Ht. apply in_app_or in Ht as [Ht|Ht].
      + destruct (bit_set b j); [|contradiction]. destruct Ht as [<-|[]]. exists j. split; [left; reflexivity|reflexivity].
      + destruct (I2 t Ht) as (k & Hk & ->). exists k. split; [right; exact Hk|reflexivity]. }
  apply (G _ sorted8).
Qed.

Lemma window_types_facts w bm : forall i,
  StronglySorted Z.lt (window_types w i bm) /\
  forall t, In t (window_types w i bm) -> w * 256 + i * 8 <= t < w * 256 + (i + zlen bm) * 8.
Proof.
  induction bm as [|b bm IH]; intros i; [split; [constructor|intros t []]|].
  destruct (IH (i + 1)) as [I1 I2]. cbn [window_types]. unfold zlen in *. cbn [length]. rewrite Nat2Z.inj_succ. split.
  - apply (sorted_app _ _ (w * 256 + (i + 1) * 8)); [apply byte_types_sorted|exact I1| |].
    + intros x Hx. apply byte_types_range in Hx. lia.
    + intros y Hy. specialize (I2 y Hy). lia.
  - intros t Ht. apply in_app_or in Ht as [Ht|Ht].
    + apply byte_types_range in Ht. lia.
    + specialize (I2 t Ht). lia.
Qed.

(* insertion sort leaves an ascending list alone *)
Lemma sort_sorted l : StronglySorted Z.lt l -> sort_z l = l.
Proof.
  induction 1 as [|x l Hs IH Hx]; [reflexivity|]. unfold sort_z in *. cbn [fold_right]. rewrite IH.
  destruct l as [|y l]; [reflexivity|]. cbn [insert_sorted]. inversion Hx; subst.
  replace (x <=? y) with true by lia. reflexivity.
Qed.

(* ---------- the sequence of windows ---------- *)
Definition canon_window (wb : bwindow) : Prop :=
  0 <= fst wb < 256 /\ snd wb <> [] /\ zlen (snd wb) <= 32 /\ all_bytes (snd wb) = true /\ last (snd wb) 0 <> 0.

(* window numbers strictly increasing, all above lo *)
Fixpoint canon_from (lo : Z) (ws : list bwindow) : Prop :=
  match ws with
  | [] => True
  | wb :: r => lo < fst wb /\ canon_window wb /\ canon_from (fst wb) r
  end.

Definition finish_windows (st : Z * Z * list Z * list bwindow) : list bwindow :=
  let '(window, octets, bitmap, acc) := st in
  if negb (octets =? 0) then acc ++ [(window, firstn (Z.to_nat octets) bitmap)] else acc.

(* a window whose last octet is not zero prints at least one type, and its first type is in the window *)
Lemma window_types_nonempty w bm : bm <> [] -> all_bytes bm = true -> last bm 0 <> 0 -> forall i,
  window_types w i bm <> [].
Proof.
  induction bm as [|b bm IH]; intros Hne Hb Hlast i; [congruence|].
  cbn [all_bytes forallb] in Hb. apply andb_true_iff in Hb as [Hb0 Hb]. apply is_byte_range in Hb0.
  cbn [window_types]. destruct bm as [|b2 bm'].
  - cbn [last] in Hlast. cbn [window_types]. rewrite app_nil_r. unfold byte_types.
    intros E. apply Hlast.
    pose proof (octet_bits b Hb0) as Hob.
    assert (forall js a, flat_map (fun j => if bit_set b j then [w * 256 + i * 8 + j] else []) js = [] ->
              fold_left (fun acc j => if bit_set b j then Z.lor acc (mask j) else acc) js a = a) as Hf.
    { induction js as [|j js IHjs]; intros a He; [reflexivity|]. cbn [flat_map] in He. cbn [fold_left].
      destruct (bit_set b j); [discriminate|]. apply IHjs, He. }
    rewrite Hf in Hob by exact E. congruence.
  - intros E. apply app_eq_nil in E as [_ E]. revert E. apply IH; [discriminate|exact Hb|exact Hlast].
Qed.

(* entering a new window: the reset can be done before looking at the type *)
Lemma frt_enter t r w w' o p B acc : t / 256 = w' -> w' <> w -> t <> p ->
  frt_loop (t :: r) w o p B acc
  = frt_loop (t :: r) w' o p (repeat 0 32)
      (if negb (o =? 0) then acc ++ [(w, firstn (Z.to_nat o) B)] else acc).
Proof.
  intros Ht Hw Hp. cbn [frt_loop]. replace (t =? p) with false by lia. rewrite Ht.
  replace (w' =? w) with false by lia. rewrite Z.eqb_refl. cbn [negb andb]. reflexivity.
Qed.

Lemma firstn_exact {A} (a b : list A) : firstn (length a) (a ++ b) = a.
Proof. rewrite firstn_app, Nat.sub_diag, firstn_all. cbn [firstn]. apply app_nil_r. Qed.

Lemma frt_windows ws : forall w o p B acc,
  canon_from w ws -> 0 <= w -> p < (w + 1) * 256 ->
  finish_windows (frt_loop (bitmap_types ws) w o p B acc)
  = (if negb (o =? 0) then acc ++ [(w, firstn (Z.to_nat o) B)] else acc) ++ ws.
Proof.
  induction ws as [|[w' bm] ws IH]; intros w o p B acc Hc Hw Hp.
  - cbn [bitmap_types flat_map frt_loop finish_windows]. rewrite app_nil_r. reflexivity.
  - cbn [canon_from fst] in Hc. destruct Hc as (Hlt & (Hr & Hne & Hl32 & Hb & Hlast) & Hc). cbn [fst snd] in *.
    cbn [bitmap_types flat_map fst snd].
    change (flat_map (fun w0 : bwindow => window_types (fst w0) 0 (snd w0)) ws) with (bitmap_types ws).
    pose proof (window_types_nonempty w' bm Hne Hb Hlast 0) as Hwt.
    destruct (window_types_facts w' bm 0) as [_ Hrange].
    destruct (window_types w' 0 bm) as [|t rest] eqn:Et; [congruence|].
    assert (Ht : w' * 256 <= t < w' * 256 + zlen bm * 8) by (specialize (Hrange t (or_introl eq_refl)); lia).
    fold (bitmap_types ws). rewrite <- app_comm_cons.
    rewrite (frt_enter t (rest ++ bitmap_types ws) w w' o p B acc) by lia.
    rewrite app_comm_cons. rewrite <- Et.
    set (acc' := if negb (o =? 0) then acc ++ [(w, firstn (Z.to_nat o) B)] else acc).
    destruct (frt_window w' ltac:(lia) bm 0 [] acc' (bitmap_types ws) o p ltac:(lia) ltac:(lia) eq_refl Hb)
      as (o' & p' & E & C1 & C2 & C3 & C4).
    { intros j Hj _. lia. }
    { lia. }
    cbn [app] in E. replace (32 - 0) with 32 in E by lia. change (Z.to_nat 32) with 32%nat in E. rewrite E.
    rewrite (IH w' o' p' _ acc' Hc ltac:(lia)) by (specialize (C4 Hne); lia).
    assert (Hz : 0 < zlen bm) by (unfold zlen; destruct bm as [|? ?]; [exfalso; apply Hne; reflexivity|cbn [length]; lia]).
    rewrite (C1 Hne Hlast). replace (0 + zlen bm =? 0) with false by lia.
    cbn [negb]. replace (Z.to_nat (0 + zlen bm)) with (length bm) by (unfold zlen; lia).
    rewrite firstn_exact. rewrite <- app_assoc. reflexivity.
Qed.

(* all printed types are positive when type 0 is not set *)
Definition no_type0 (ws : list bwindow) : Prop :=
  match ws with
  | (w, b :: _) :: _ => w = 0 -> bit_set b 0 = false
  | _ => True
  end.

Lemma bitmap_types_sorted ws : forall lo, canon_from lo ws ->
  StronglySorted Z.lt (bitmap_types ws) /\ forall t, In t (bitmap_types ws) -> (lo + 1) * 256 <= t.
Proof.
  induction ws as [|[w bm] ws IH]; intros lo Hc; [split; [constructor|intros t []]|].
  cbn [canon_from fst] in Hc. destruct Hc as (Hlt & (Hr & Hne & Hl32 & Hb & Hlast) & Hc). cbn [fst snd] in *.
  destruct (IH w Hc) as [I1 I2]. destruct (window_types_facts w bm 0) as [W1 W2].
  cbn [bitmap_types flat_map fst snd].
  change (flat_map (fun w0 : bwindow => window_types (fst w0) 0 (snd w0)) ws) with (bitmap_types ws). split.
  - apply (sorted_app _ _ ((w + 1) * 256)); [exact W1|exact I1| |exact I2].
    intros x Hx. specialize (W2 x Hx). lia.
  - intros t Ht. apply in_app_or in Ht as [Ht|Ht]; [specialize (W2 t Ht); lia|specialize (I2 t Ht); lia].
Qed.

Theorem bitmap_text_roundtrip ws :
  canon_from (-1) ws -> no_type0 ws -> from_rdtypes (bitmap_types ws) = ws.
Proof.
  intros Hc H0. unfold from_rdtypes.
  destruct (bitmap_types_sorted ws (-1) Hc) as [Hs _]. rewrite sort_sorted by exact Hs.
  change (let '(window, octets, bitmap, acc) := frt_loop (bitmap_types ws) 0 0 0 (repeat 0 32) [] in
          if negb (octets =? 0) then acc ++ [(window, firstn (Z.to_nat octets) bitmap)] else acc)
    with (finish_windows (frt_loop (bitmap_types ws) 0 0 0 (repeat 0 32) [])).
  destruct ws as [|[w bm] ws]; [reflexivity|].
  cbn [canon_from fst] in Hc. destruct Hc as (Hlt & (Hr & Hne & Hl32 & Hb & Hlast) & Hc). cbn [fst snd] in *.
  destruct (Z.eq_dec w 0) as [->|Hw0].
  - (* the first window is window 0: no reset happens *)
    unfold bitmap_types at 1. cbn [flat_map fst snd]. fold (bitmap_types ws).
    destruct bm as [|b bm']; [congruence|]. cbn [no_type0] in H0. specialize (H0 eq_refl).
    destruct (frt_window 0 ltac:(lia) (b :: bm') 0 [] [] (bitmap_types ws) 0 0 ltac:(lia) ltac:(lia) eq_refl Hb)
      as (o' & p' & E & C1 & C2 & C3 & C4).
    { intros j Hj Hbj. cbn [hd] in Hbj. assert (j <> 0) by (intros ->; congruence). lia. }
    { lia. }
    cbn [app] in E. replace (32 - 0) with 32 in E by lia. change (Z.to_nat 32) with 32%nat in E. rewrite E.
    rewrite (frt_windows ws 0 o' p' _ [] Hc ltac:(lia)) by (specialize (C4 ltac:(discriminate)); unfold zlen in *; lia).
    rewrite (C1 ltac:(discriminate) Hlast).
    assert (Hz : 0 < zlen (b :: bm')) by (unfold zlen; cbn [length]; lia).
    replace (0 + zlen (b :: bm') =? 0) with false by lia.
    cbn [negb]. replace (Z.to_nat (0 + zlen (b :: bm'))) with (length (b :: bm')) by (unfold zlen; lia).
    rewrite app_comm_cons. rewrite firstn_exact. reflexivity.
  - etransitivity; [apply (frt_windows ((w, bm) :: ws) 0 0 0 (repeat 0 32) []); [|lia|lia]|reflexivity].
    cbn [canon_from fst]. split; [lia|]. split; [|exact Hc].
    unfold canon_window. cbn [fst snd]. repeat split; try assumption; lia.
Qed.
