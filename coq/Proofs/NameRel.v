(* C06: the relation / nlabels components of fullcompare, is_subdomain / is_superdomain,
   parent, split, relativize / derelativize. *)
From DV Require Import Base.Prelude Model.NameM Proofs.NameOrder Proofs.NameValid.
Open Scope Z_scope.

Definition label_eq_dec : forall x y : label, {x = y} + {x <> y} := list_eq_dec Z.eq_dec.

(* length of the longest common prefix of two label sequences *)
Fixpoint lcp (a b : list label) : nat :=
  match a, b with
  | x :: a', y :: b' => if label_eq_dec x y then S (lcp a' b') else O
  | _, _ => O
  end.

(* number of labels of the longest common case-insensitive suffix (independent of fc_loop) *)
Definition common_suffix (a b : name) : nat := lcp (ci_key a) (ci_key b).

(* the relation as a function of the two lengths and the common label count *)
Definition rel_of (la lb k : nat) : Z :=
  if Nat.eqb k la && Nat.eqb k lb then rEQUAL
  else if Nat.eqb k lb then rSUB
  else if Nat.eqb k la then rSUPER
  else if Nat.ltb 0 k then rCOMMON else rNONE.

Lemma fc_loop_rel : forall ra rb ld nl (m : nat),
  ld = zlen ra - zlen rb -> nl = Z.of_nat m ->
  fc_loop ra rb ld nl =
    (rel_of (m + length ra) (m + length rb) (m + lcp (map lower_l ra) (map lower_l rb)),
     snd (fst (fc_loop ra rb ld nl)),
     Z.of_nat (m + lcp (map lower_l ra) (map lower_l rb))).
Proof.
  change label with (list Z) in *.
  induction ra as [|x ra IH]; intros rb ld nl m Hl Hn.
  - destruct rb as [|y rb]; cbn [fc_loop map lcp length fst snd]; unfold zlen in Hl; cbn [length] in Hl.
    + replace (ld <? 0) with false by lia. replace (ld >? 0) with false by lia.
      unfold rel_of. rewrite !Nat.add_0_r, Nat.eqb_refl. cbn. subst. reflexivity.
    + replace (ld <? 0) with true by lia.
      unfold rel_of. rewrite !Nat.add_0_r, Nat.eqb_refl.
      replace (Nat.eqb m (m + S (length rb))) with false by (symmetry; apply Nat.eqb_neq; lia).
      cbn. subst. reflexivity.
  - destruct rb as [|y rb]; cbn [fc_loop map lcp length fst snd]; unfold zlen in Hl; cbn [length] in Hl.
    + replace (ld <? 0) with false by lia. replace (ld >? 0) with true by lia.
      unfold rel_of. rewrite !Nat.add_0_r, Nat.eqb_refl.
      replace (Nat.eqb m (m + S (length ra))) with false by (symmetry; apply Nat.eqb_neq; lia).
      cbn. subst. reflexivity.
    + destruct (cmp_bytes (lower_l x) (lower_l y)) eqn:E.
      * apply cmp_bytes_eq in E. destruct (label_eq_dec (lower_l x) (lower_l y)); [|contradiction].
        rewrite (IH rb ld (nl + 1) (S m)) by (unfold zlen; lia). cbn [fst snd].
        replace (S m + length ra)%nat with (m + S (length ra))%nat by lia.
        replace (S m + length rb)%nat with (m + S (length rb))%nat by lia.
        replace (S m + lcp (map lower_l ra) (map lower_l rb))%nat
          with (m + S (lcp (map lower_l ra) (map lower_l rb)))%nat by lia.
        reflexivity.
      * destruct (label_eq_dec (lower_l x) (lower_l y)) as [e|_];
          [rewrite e, cmp_bytes_refl in E; discriminate|].
        cbn [fst snd]. unfold rel_of. rewrite Nat.add_0_r.
        replace (Nat.eqb m (m + S (length ra))) with false by (symmetry; apply Nat.eqb_neq; lia).
        replace (Nat.eqb m (m + S (length rb))) with false by (symmetry; apply Nat.eqb_neq; lia).
        cbn [andb]. subst nl.
        destruct m; cbn; reflexivity.
      * destruct (label_eq_dec (lower_l x) (lower_l y)) as [e|_];
          [rewrite e, cmp_bytes_refl in E; discriminate|].
        cbn [fst snd]. unfold rel_of. rewrite Nat.add_0_r.
        replace (Nat.eqb m (m + S (length ra))) with false by (symmetry; apply Nat.eqb_neq; lia).
        replace (Nat.eqb m (m + S (length rb))) with false by (symmetry; apply Nat.eqb_neq; lia).
        cbn [andb]. subst nl.
        destruct m; cbn; reflexivity.
Qed.

(* relation and nlabels against the independent definitions *)
Theorem relation_spec a b :
  is_absolute a = is_absolute b ->
  reln a b = rel_of (length a) (length b) (common_suffix a b) /\
  common a b = Z.of_nat (common_suffix a b).
Proof.
  intros Hab. unfold reln, common, fullcompare. rewrite Hab, eqb_reflx. cbn [negb].
  rewrite (fc_loop_rel (rev a) (rev b) _ 0 0) by (unfold zlen; rewrite ?rev_length; lia).
  cbn [fst snd Nat.add]. rewrite !rev_length, !map_rev. split; reflexivity.
Qed.

Theorem relation_spec_mixed a b :
  is_absolute a <> is_absolute b -> reln a b = rNONE /\ common a b = 0.
Proof.
  intros Hab. unfold reln, common, fullcompare.
  destruct (is_absolute a), (is_absolute b); try congruence; cbn; auto.
Qed.

(* ---------- lcp facts ---------- *)

Lemma lcp_le_l : forall a b, (lcp a b <= length a)%nat.
Proof. induction a; destruct b; cbn; try lia. destruct (label_eq_dec _ _); cbn; [specialize (IHa b)|]; lia. Qed.

Lemma lcp_le_r : forall a b, (lcp a b <= length b)%nat.
Proof. induction a; destruct b; cbn; try lia. destruct (label_eq_dec _ _); cbn; [specialize (IHa b)|]; lia. Qed.

Lemma lcp_full_r : forall a b, lcp a b = length b <-> exists q, a = b ++ q.
Proof.
  induction a as [|x a IH]; destruct b as [|y b]; cbn [lcp length].
  - split; eauto. intros _. exists []. reflexivity.
  - split; [discriminate|]. intros [q H]. discriminate.
  - split; eauto. intros _. eexists. reflexivity.
  - destruct (label_eq_dec x y) as [->|n].
    + split.
      * intros H. inversion H as [H1]. apply IH in H1. destruct H1 as [q ->]. exists q. reflexivity.
      * intros [q H]. injection H as Hq. f_equal. apply IH. exists q. exact Hq.
    + split; [discriminate|]. intros [q H]. inversion H. contradiction.
Qed.

Lemma lcp_sym : forall a b, lcp a b = lcp b a.
Proof.
  induction a as [|x a IH]; destruct b as [|y b]; cbn; auto.
  destruct (label_eq_dec x y), (label_eq_dec y x); try congruence.
Qed.

Lemma common_suffix_sym a b : common_suffix a b = common_suffix b a.
Proof. apply lcp_sym. Qed.

(* ---------- is_subdomain / is_superdomain ---------- *)

Lemma rel_of_sub la lb k : (k <= la)%nat -> (k <= lb)%nat ->
  ((rel_of la lb k =? rSUB) || (rel_of la lb k =? rEQUAL) = true <-> k = lb).
Proof.
  intros H1 H2. unfold rel_of.
  destruct (Nat.eqb_spec k la), (Nat.eqb_spec k lb); cbn; try (split; auto; lia).
  destruct k; cbn; split; intros; try discriminate; lia.
Qed.

Lemma rel_of_super la lb k : (k <= la)%nat -> (k <= lb)%nat ->
  ((rel_of la lb k =? rSUPER) || (rel_of la lb k =? rEQUAL) = true <-> k = la).
Proof.
  intros H1 H2. unfold rel_of.
  destruct (Nat.eqb_spec k la), (Nat.eqb_spec k lb); cbn; try (split; auto; lia).
  destruct k; cbn; split; intros; try discriminate; lia.
Qed.

Lemma common_suffix_le_l a b : (common_suffix a b <= length a)%nat.
Proof.
  unfold common_suffix, ci_key.
  pose proof (lcp_le_l (rev (map lower_l a)) (rev (map lower_l b))) as H.
  rewrite rev_length, map_length in H. exact H.
Qed.

Lemma common_suffix_le_r a b : (common_suffix a b <= length b)%nat.
Proof. rewrite common_suffix_sym. apply common_suffix_le_l. Qed.

(* b is a case-insensitive suffix of a *)
Definition ci_suffix (b a : name) : Prop := exists p s, a = p ++ s /\ ci_equal s b.

Lemma map_eq_app_inv {A B} (f : A -> B) : forall l x y, map f l = x ++ y ->
  exists l1 l2, l = l1 ++ l2 /\ map f l1 = x /\ map f l2 = y.
Proof.
  intros l x. revert l. induction x as [|b x IH]; intros l y H.
  - exists [], l. auto.
  - destruct l as [|a l]; [discriminate|]. cbn in H. inversion H as [[H1 H2]].
    apply IH in H2. destruct H2 as (l1 & l2 & -> & <- & <-). exists (a :: l1), l2. auto.
Qed.

Lemma common_suffix_full a b : common_suffix a b = length b <-> ci_suffix b a.
Proof.
  unfold common_suffix, ci_key, ci_suffix, ci_equal.
  replace (length b) with (length (rev (map lower_l b))) by (rewrite rev_length, map_length; reflexivity).
  rewrite lcp_full_r. split.
  - intros [q H]. apply (f_equal (@rev _)) in H. rewrite rev_app_distr, !rev_involutive in H.
    apply map_eq_app_inv in H. destruct H as (p & s & -> & _ & Hs). eauto.
  - intros (p & s & -> & Hs). exists (rev (map lower_l p)).
    rewrite map_app, rev_app_distr. f_equal. f_equal. exact Hs.
Qed.

Theorem is_subdomain_iff a b :
  is_subdomain a b = true <-> is_absolute a = is_absolute b /\ ci_suffix b a.
Proof.
  unfold is_subdomain.
  destruct (Bool.bool_dec (is_absolute a) (is_absolute b)) as [E|E].
  - destruct (relation_spec a b E) as [-> _].
    rewrite rel_of_sub by (apply common_suffix_le_l || apply common_suffix_le_r).
    rewrite common_suffix_full. tauto.
  - destruct (relation_spec_mixed a b E) as [-> _]. cbn. split; [discriminate|tauto].
Qed.

Theorem is_superdomain_flip a b : is_superdomain a b = is_subdomain b a.
Proof.
  unfold is_superdomain, is_subdomain.
  destruct (Bool.bool_dec (is_absolute a) (is_absolute b)) as [E|E].
  - destruct (relation_spec a b E) as [-> _]. destruct (relation_spec b a (eq_sym E)) as [-> _].
    apply eq_true_iff_eq.
    rewrite rel_of_super by (apply common_suffix_le_l || apply common_suffix_le_r).
    rewrite rel_of_sub by (apply common_suffix_le_l || apply common_suffix_le_r).
    rewrite (common_suffix_sym b a). tauto.
  - destruct (relation_spec_mixed a b E) as [-> _].
    destruct (relation_spec_mixed b a (fun H => E (eq_sym H))) as [-> _]. reflexivity.
Qed.

Corollary is_superdomain_iff a b :
  is_superdomain a b = true <-> is_absolute a = is_absolute b /\ ci_suffix a b.
Proof. rewrite is_superdomain_flip, is_subdomain_iff. intuition congruence. Qed.

(* EQUAL exactly for ci-equal names *)
Theorem reln_equal_iff a b : reln a b = rEQUAL <-> ci_equal a b.
Proof.
  split.
  - intros H. destruct (Bool.bool_dec (is_absolute a) (is_absolute b)) as [E|E].
    + destruct (relation_spec a b E) as [R _]. rewrite R in H. unfold rel_of in H.
      destruct (Nat.eqb_spec (common_suffix a b) (length a)) as [Ha|],
               (Nat.eqb_spec (common_suffix a b) (length b)) as [Hb|]; cbn in H;
        try discriminate; try (destruct (common_suffix a b); discriminate).
      pose proof Hb as Hb0. apply common_suffix_full in Hb. destruct Hb as (p & s & -> & Hs).
      assert (length p = 0%nat) as Hp.
      { pose proof (f_equal (@length _) Hs) as L. rewrite !map_length in L.
        rewrite Ha in Hb0. rewrite app_length in *. change label with (list Z) in *. lia. }
      destruct p; [|discriminate]. exact Hs.
    + destruct (relation_spec_mixed a b E) as [R _]. rewrite R in H. discriminate.
  - intros H. pose proof (ci_equal_absolute _ _ H) as E.
    destruct (relation_spec a b E) as [-> _].
    assert (length a = length b) as L
      by (pose proof (f_equal (@length _) H) as L; rewrite !map_length in L; exact L).
    assert (common_suffix a b = length b) as K
      by (apply common_suffix_full; exists [], a; split; [reflexivity|exact H]).
    unfold rel_of. rewrite K, L, Nat.eqb_refl. reflexivity.
Qed.

(* ---------- parent / split ---------- *)

Lemma ci_suffix_refl a : ci_suffix a a.
Proof. exists [], a. split; reflexivity. Qed.

Lemma ci_suffix_app p a : ci_suffix a (p ++ a).
Proof. exists p, a. split; reflexivity. Qed.

Theorem parent_spec n p :
  parent n = Ok p ->
  exists l, n = l :: p /\ Valid p /\
    is_subdomain n p = true /\ is_superdomain p n = true /\ common n p = zlen p /\ reln n p = rSUB.
Proof.
  unfold parent. destruct (name_eqb n root || name_eqb n empty) eqn:E; [discriminate|].
  apply orb_false_elim in E. destruct E as [E1 E2].
  intros H. apply mk_name_ok in H. destruct H as [-> V].
  destruct n as [|l n].
  { exfalso. vm_compute in E2. discriminate. }
  cbn [tl] in *. exists l. split; [reflexivity|]. split; [exact V|].
  assert (is_absolute (l :: n) = is_absolute n) as A.
  { destruct n as [|y n]; [|reflexivity]. cbn. destruct l; [|reflexivity].
    exfalso. vm_compute in E1. discriminate. }
  assert (is_subdomain (l :: n) n = true) as Sd
    by (apply is_subdomain_iff; split; [exact A|apply (ci_suffix_app [l])]).
  split; [exact Sd|]. split; [rewrite is_superdomain_flip; exact Sd|].
  destruct (relation_spec (l :: n) n A) as [R C].
  assert (common_suffix (l :: n) n = length n) as K
    by (apply common_suffix_full; apply (ci_suffix_app [l])).
  split; [rewrite C, K; reflexivity|].
  rewrite R, K. unfold rel_of. cbn [length]. rewrite Nat.eqb_refl.
  replace (Nat.eqb (length n) (S (length n))) with false by (symmetry; apply Nat.eqb_neq; lia).
  reflexivity.
Qed.

Lemma firstn_skipn_len {A} (l : list A) k : (k <= length l)%nat ->
  length (skipn (length l - k) l) = k.
Proof. intros H. rewrite skipn_length. lia. Qed.

Theorem split_spec n d p s :
  split n d = Ok (p, s) ->
  n = p ++ s /\ zlen s = d /\
  (s <> [] -> is_subdomain n s = true /\ is_superdomain s n = true /\ common n s = d).
Proof.
  unfold split.
  assert (forall p s, n = p ++ s -> s <> [] ->
            is_subdomain n s = true /\ is_superdomain s n = true /\ common n s = zlen s) as Key.
  { intros p0 s0 -> Hs.
    assert (is_absolute (p0 ++ s0) = is_absolute s0) as A
      by (destruct s0; [congruence|apply is_absolute_app]).
    assert (is_subdomain (p0 ++ s0) s0 = true) as Sd
      by (apply is_subdomain_iff; split; [exact A|apply ci_suffix_app]).
    split; [exact Sd|]. split; [rewrite is_superdomain_flip; exact Sd|].
    destruct (relation_spec _ _ A) as [_ ->]. unfold zlen. f_equal.
    apply common_suffix_full. apply ci_suffix_app. }
  destruct (d =? 0) eqn:E0.
  { intros H; inversion H; subst. rewrite app_nil_r. split; [reflexivity|]. split; [apply Z.eqb_eq in E0; cbn; lia|]. intros X. exfalso. apply X. reflexivity. }
  destruct (d =? zlen n) eqn:E1.
  { intros H; inversion H; subst. split; [reflexivity|]. split; [lia|]. intros Hs.
    destruct (Key [] s eq_refl Hs) as (? & ? & ?). repeat split; auto. lia. }
  destruct ((d <? 0) || (d >? zlen n)) eqn:E2; [discriminate|].
  apply orb_false_elim in E2. destruct E2 as [E2 E3].
  unfold bind. destruct (mk_name (drop_last _ n)) as [p'| |] eqn:P; try discriminate.
  destruct (mk_name (take_last _ n)) as [s'| |] eqn:Sd; try discriminate.
  intros H; inversion H; subst.
  apply mk_name_ok in P, Sd. destruct P as [-> _], Sd as [-> _].
  unfold drop_last, take_last. unfold zlen in *.
  assert (n = firstn (length n - Z.to_nat d) n ++ skipn (length n - Z.to_nat d) n) as Hn
    by (symmetry; apply firstn_skipn).
  split; [exact Hn|].
  assert (Z.of_nat (length (skipn (length n - Z.to_nat d) n)) = d) as L
    by (rewrite skipn_length; lia).
  split; [exact L|]. intros Hs. destruct (Key _ _ Hn Hs) as (? & ? & C). repeat split; auto.
  rewrite C. exact L.
Qed.

(* ---------- relativize / derelativize ---------- *)

Lemma ci_equal_length a b : ci_equal a b -> length a = length b.
Proof. intros H. apply (f_equal (@length _)) in H. rewrite !map_length in H. exact H. Qed.

Lemma ci_equal_label_len : forall a b, ci_equal a b -> map (@length Z) a = map (@length Z) b.
Proof.
  induction a as [|x a IH]; destruct b as [|y b]; intros H; try discriminate; [reflexivity|].
  inversion H as [[H1 H2]]. cbn [map]. f_equal; [|apply IH; exact H2].
  apply (f_equal (@length _)) in H1. unfold lower_l in H1. rewrite !map_length in H1. exact H1.
Qed.

Lemma wire_length_lens n : wire_length n = fold_right (fun k acc => Z.of_nat k + 1 + acc) 0 (map (@length Z) n).
Proof. induction n as [|l n IH]; [reflexivity|]. cbn [map fold_right]. rewrite wire_length_cons, IH. reflexivity. Qed.

Lemma lower_l_nil_iff l : lower_l l = [] <-> l = [].
Proof. destruct l; cbn; split; congruence. Qed.

Lemma app_inj_len {A} : forall (a c b d : list A), length a = length c -> a ++ b = c ++ d -> a = c /\ b = d.
Proof.
  induction a as [|x a IH]; destruct c as [|y c]; intros b d L H; try discriminate; [auto|].
  cbn in H. injection H as -> H. injection L as L. destruct (IH _ _ _ L H) as [-> ->]. auto.
Qed.

Lemma ci_equal_app_inv a b c d : length a = length c -> ci_equal (a ++ b) (c ++ d) -> ci_equal a c /\ ci_equal b d.
Proof.
  unfold ci_equal. rewrite !map_app. intros L H.
  apply app_inj_len in H; [exact H | rewrite !map_length; exact L].
Qed.

Lemma ci_equal_app a b c d : ci_equal a c -> ci_equal b d -> ci_equal (a ++ b) (c ++ d).
Proof. unfold ci_equal. rewrite !map_app. intros H1 H2. f_equal; assumption. Qed.

(* validity only depends on the label lengths, hence is invariant under ci_equal *)
Lemma Valid_ci a b : ci_equal a b -> Valid a -> Valid b.
Proof.
  intros H (V1 & V2 & V3).
  pose proof (ci_equal_label_len _ _ H) as L.
  repeat split.
  - clear V2 V3. revert b H L. induction a as [|x a IH]; destruct b as [|y b]; intros H L; try discriminate; [constructor|].
    inversion V1; subst. inversion L. inversion H. constructor.
    + unfold zlen in *. congruence.
    + apply IH; auto.
  - rewrite wire_length_lens, <- L, <- wire_length_lens. exact V2.
  - clear V1 V2 L. revert b H V3. induction a as [|x a IH]; destruct b as [|y b]; intros H V3; try discriminate; [constructor|].
    inversion H as [[H1 H2]].
    destruct a as [|x2 a]; destruct b as [|y2 b]; try discriminate; [constructor|].
    rewrite removelast_cons2 in *. inversion V3; subst. constructor.
    + intros ->. cbn in H1. apply H4. destruct x; [reflexivity|discriminate].
    + apply IH; auto.
Qed.

(* relativize n o, for n a subdomain of the origin, strips exactly length o labels;
   derelativizing the result restores a name ci-equal to n whose prefix labels are
   byte-identical to those of n.  Holds for every origin, the empty one included. *)
Theorem rel_derel n o :
  Valid n -> is_subdomain n o = true ->
  exists r, relativize n o = Ok r /\ n = r ++ skipn (length r) n /\
    ci_equal (skipn (length r) n) o /\
    derelativize r o = Ok (r ++ o) /\ ci_equal (r ++ o) n.
Proof.
  intros Vn Sd. unfold relativize. rewrite Sd.
  apply is_subdomain_iff in Sd. destruct Sd as [A (p & s & -> & Hs)].
  pose proof (ci_equal_length _ _ Hs) as L.
  assert (drop_last (length o) (p ++ s) = p) as D.
  { unfold drop_last. rewrite app_length, <- L.
    replace (length p + length s - length s)%nat with (length p) by lia.
    rewrite firstn_app, firstn_all, Nat.sub_diag. cbn [firstn]. apply app_nil_r. }
  rewrite D. exists p.
  rewrite (mk_name_valid p) by (eapply Valid_prefix; eauto).
  assert (skipn (length p) (p ++ s) = s) as K
    by (rewrite skipn_app, skipn_all, Nat.sub_diag; reflexivity).
  rewrite K. split; [reflexivity|]. split; [reflexivity|]. split; [exact Hs|].
  assert (ci_equal (p ++ o) (p ++ s)) as C
    by (apply ci_equal_app; [reflexivity|symmetry; exact Hs]).
  split; [|exact C].
  unfold derelativize, concatenate.
  assert (is_absolute p = false) as Ap.
  { destruct s as [|s0 s'].
    - destruct o; [|discriminate]. rewrite app_nil_r in A. exact A.
    - eapply Valid_prefix_relative; eauto. }
  rewrite Ap. cbn [negb andb].
  apply mk_name_valid. eapply Valid_ci; [symmetry; exact C|exact Vn].
Qed.

(* the converse direction, byte-exact: a relative name derelativized and relativized again *)
Theorem derel_rel r o :
  Valid r -> Valid o -> is_absolute r = false -> is_absolute o = true ->
  Valid (r ++ o) ->
  derelativize r o = Ok (r ++ o) /\ relativize (r ++ o) o = Ok r.
Proof.
  intros Vr Vo Ar Ao V.
  assert (derelativize r o = Ok (r ++ o)) as D.
  { unfold derelativize, concatenate. rewrite Ar. cbn [negb andb]. apply mk_name_valid, V. }
  split; [exact D|].
  destruct o as [|o0 o']; [discriminate|].
  unfold relativize.
  assert (is_subdomain (r ++ o0 :: o') (o0 :: o') = true) as Sd
    by (apply is_subdomain_iff; split; [apply is_absolute_app|apply ci_suffix_app]).
  rewrite Sd. unfold drop_last. rewrite app_length.
  replace (length r + length (o0 :: o') - length (o0 :: o'))%nat with (length r) by lia.
  rewrite firstn_app, firstn_all, Nat.sub_diag. cbn [firstn]. rewrite app_nil_r.
  apply mk_name_valid, Vr.
Qed.

(* outside the origin: relativize leaves the name alone, and so does derelativize for an
   absolute name (a relative name is made absolute - its denotation under the origin) *)
Theorem rel_derel_outside n o :
  is_subdomain n o = false ->
  relativize n o = Ok n /\ (is_absolute n = true -> derelativize n o = Ok n).
Proof.
  intros H. unfold relativize, derelativize. rewrite H. split; [reflexivity|].
  intros ->. reflexivity.
Qed.
