(* The Rdataset machine of Model/SetM.v: invariants of every reachable state (duplicate-free,
   no foreign record, singleton types hold at most one record), registers that an operation
   does not name are untouched (no aliasing effects), immutable rdatasets never change. *)
From DV Require Import Base.Prelude Model.SetM Proofs.SetAlg Proofs.SetRdata Proofs.SetMachine
  Proofs.SetRds.
Open Scope Z_scope.

(* ---------- sub-list facts for the removing algorithms ---------- *)

Lemma fold_sdel_In l : forall acc x,
  In x (fold_left (fun acc y => sdel rd_eqb y acc) l acc) -> In x acc.
Proof.
  induction l as [|y l IH]; intros acc x H; cbn in *; [exact H|].
  eapply In_sdel, IH, H.
Qed.

Lemma fold_sdel_len l : forall acc,
  (length (fold_left (fun acc y => sdel rd_eqb y acc) l acc) <= length acc)%nat.
Proof.
  induction l as [|y l IH]; intros acc; cbn; [lia|].
  etransitivity; [apply IH|apply length_sdel_le].
Qed.

Lemma fold_cond_sdel_In (c : rdata -> bool) l : forall acc x,
  In x (fold_left (fun acc y => if c y then acc else sdel rd_eqb y acc) l acc) -> In x acc.
Proof.
  induction l as [|y l IH]; intros acc x H; cbn in *; [exact H|].
  apply IH in H. destruct (c y); [exact H|eapply In_sdel, H].
Qed.

Lemma fold_cond_sdel_len (c : rdata -> bool) l : forall acc,
  (length (fold_left (fun acc y => if c y then acc else sdel rd_eqb y acc) l acc) <= length acc)%nat.
Proof.
  induction l as [|y l IH]; intros acc; cbn; [lia|].
  etransitivity; [apply IH|]. destruct (c y); [lia|apply length_sdel_le].
Qed.

Lemma sinter_sub s o same x : In x (sinter_update rd_eqb s o same) -> In x s.
Proof. unfold sinter_update. destruct same; [auto|]. apply fold_cond_sdel_In. Qed.
Lemma sinter_len s o same : (length (sinter_update rd_eqb s o same) <= length s)%nat.
Proof. unfold sinter_update. destruct same; [lia|]. apply fold_cond_sdel_len. Qed.
Lemma sdiff_sub s o same x : In x (sdiff_update rd_eqb s o same) -> In x s.
Proof. unfold sdiff_update, sdiscard. destruct same; [contradiction|]. apply fold_sdel_In. Qed.
Lemma sdiff_len s o same : (length (sdiff_update rd_eqb s o same) <= length s)%nat.
Proof. unfold sdiff_update, sdiscard. destruct same; [cbn; lia|]. apply fold_sdel_len. Qed.

(* ---------- well-formedness is preserved by every method ---------- *)

Lemma wf_rclone s : wf s -> wf (rclone s).
Proof. intros H. unfold rclone. destruct (kd s); try exact H. eapply wf_ext; [..|exact H]; reflexivity. Qed.

Lemma wf_rimm s : wf s -> wf (rimm s).
Proof. intros H. eapply wf_ext; [..|exact H]; reflexivity. Qed.

Lemma wf_r_inter self other same :
  wf self -> wf other -> (same = true -> other = self) -> wf (fst (r_inter_update self other same)).
Proof.
  intros Hs Ho Hsame. rewrite r_inter_update_spec. cbn [fst].
  set (s1 := update_ttl self _).
  assert (H1 : wf s1) by (apply wf_update_ttl, Hs).
  assert (Ei : items s1 = items self) by (destruct (update_ttl_fields self (if same then ttl self else ttl other)) as (_&_&_&_&E&_); exact E).
  apply wf_sub; [exact H1| | |].
  - apply (ND_salg AInter); [apply Hs|apply Ho|]. intros E. rewrite (Hsame E). reflexivity.
  - intros x Hx. rewrite Ei. eapply sinter_sub, Hx.
  - rewrite Ei. apply sinter_len.
Qed.

Lemma wf_r_diff self other same :
  wf self -> wf other -> (same = true -> other = self) -> wf (fst (r_diff_update self other same)).
Proof.
  intros Hs Ho Hsame. rewrite r_diff_update_spec. cbn [fst].
  apply wf_sub; [exact Hs| | |].
  - apply (ND_salg ADiff); [apply Hs|apply Ho|]. intros E. rewrite (Hsame E). reflexivity.
  - intros x Hx. eapply sdiff_sub, Hx.
  - apply sdiff_len.
Qed.

Lemma wf_r_union self other same : wf self -> wf (fst (r_union_update self other same)).
Proof.
  intros Hs. unfold r_union_update. destruct same; cbn [fst].
  - apply wf_update_ttl, Hs.
  - apply wf_radd_all, wf_update_ttl, Hs.
Qed.

Lemma wf_r_update self other same : wf self -> wf (fst (r_update self other same)).
Proof. intros Hs. unfold r_update. apply wf_radd_all, wf_update_ttl, Hs. Qed.

Lemma wf_r_sym self other same :
  wf self -> wf other -> wf (fst (r_sym_update self other same)).
Proof.
  intros Hs Ho. unfold r_sym_update. destruct same; cbn [fst].
  - apply wf_sub; [exact Hs|constructor|contradiction|cbn; lia].
  - pose proof (wf_r_union self other false Hs) as H1.
    destruct (r_union_update self other false) as [s1 [[]| |]]; cbn [fst] in *; try exact H1.
    apply wf_r_diff; [exact H1| |discriminate].
    apply wf_r_inter; [apply wf_rclone, Hs|exact Ho|discriminate].
Qed.

Lemma wf_ralg a self other same :
  wf self -> wf other -> (same = true -> other = self) -> wf (fst (ralg a self other same)).
Proof.
  intros Hs Ho Hsame. destruct a; cbn [ralg].
  - apply wf_r_union, Hs.
  - apply wf_r_inter; assumption.
  - apply wf_r_diff; assumption.
  - apply wf_r_sym; assumption.
Qed.

Lemma wf_r_inplace w self other same :
  wf self -> wf other -> (same = true -> other = self) -> wf (fst (r_inplace w self other same)).
Proof.
  intros Hs Ho Hsame. unfold r_inplace. destruct (kd self); try exact Hs;
    (destruct (inplace_alg w); [apply wf_ralg; assumption|apply wf_r_update, Hs]).
Qed.

Lemma wf_r_func w self other x : wf self -> wf other -> r_func w self other = Ok x -> wf x.
Proof.
  intros Hs Ho. unfold r_func.
  pose proof (wf_ralg (func_alg w) (rclone self) other false (wf_rclone _ Hs) Ho) as H.
  destruct (ralg (func_alg w) (rclone self) other false) as [obj [[]| |]]; try discriminate.
  intros E; inversion E; subst. cbn [fst] in H.
  destruct (kd self); try apply wf_rimm; apply H; discriminate.
Qed.

Lemma wf_r_copy s : wf s -> wf (r_copy s).
Proof. intros H. unfold r_copy. destruct (kd s); try apply wf_rimm; apply wf_rclone, H. Qed.

Lemma wf_r_from_list n t xs x : r_from_list n t xs = Ok x -> wf x.
Proof.
  unfold r_from_list. destruct xs as [|rd0 l]; [discriminate|].
  set (r0 := update_ttl _ _).
  assert (H : wf r0) by (apply wf_update_ttl; destruct n; apply wf_empty).
  pose proof (wf_radd_all (rd0 :: l) r0 H) as H1.
  destruct (radd_all r0 (rd0 :: l)) as [r [[]| |]]; try discriminate.
  intros E; inversion E; subst. exact H1.
Qed.

Lemma wf_r_to_rdataset s x : r_to_rdataset s = Ok x -> wf x.
Proof. apply wf_r_from_list. Qed.

Lemma spop_sub (s : list rdata) x s' : spop s = Ok (x, s') -> forall y, In y s' -> In y s.
Proof. intros E y Hy. apply spop_snoc in E. subst. apply in_app_iff. auto. Qed.

Lemma spop_len (s : list rdata) x s' : spop s = Ok (x, s') -> (length s' <= length s)%nat.
Proof. intros E. apply spop_snoc in E. subst. rewrite app_length. lia. Qed.

Theorem rstep_wf st op : Forall wf st -> Forall wf (fst (rstep st op)).
Proof.
  intros H.
  destruct op; cbn [rstep]; unfold bad, upd, sremove, sdelitem;
    repeat dm; cbn [fst]; try exact H;
    repeat match goal with
           | E : match ?x with _ => _ end = _ |- _ => destruct x eqn:?; try discriminate E
           end;
    repeat match goal with E : Ok _ = Ok _ |- _ => inversion E; subst; clear E end;
    try (apply Forall_set_nth; [exact H|]);
    try (eapply Forall_assign; [exact H| |eassumption]);
    try match goal with |- wf (with_items ?s []) =>
          apply wf_sub; [ndreg|constructor|contradiction|cbn; lia] end.
  all: first
    [ apply wf_empty
    | apply wf_rimm; ndreg
    | eapply wf_r_to_rdataset; eassumption
    | eapply wf_r_from_list; eassumption
    | apply wf_radd; ndreg
    | apply wf_update_ttl; ndreg
    | apply wf_r_copy; ndreg
    | apply wf_r_inplace; [ndreg|ndreg|intros E; apply Nat.eqb_eq in E; subst; congruence]
    | eapply wf_r_func; [| |eassumption]; ndreg
    | apply wf_sub; [ndreg|apply ND_sdel, wf_nd; ndreg|intros y Hy; eapply In_sdel, Hy|apply length_sdel_le]
    | apply wf_sub; [ndreg|eapply ND_spop; [apply wf_nd; ndreg|eassumption]
                    |eapply spop_sub; eassumption|eapply spop_len; eassumption] ].
Qed.

(* every reachable state: all rdatasets well-formed *)
Theorem rexec_wf ops st : Forall wf st -> Forall wf (rexec st ops).
Proof.
  revert st. induction ops as [|op ops IH]; intros st H; cbn; [exact H|].
  apply IH, rstep_wf, H.
Qed.

Corollary rds_machine_wf ops : Forall wf (rexec [] ops).
Proof. apply rexec_wf. constructor. Qed.

Corollary rds_machine_inv ops r s :
  nth_error (rexec [] ops) r = Some s ->
  ND (items s) /\
  (forall x, In x (items s) -> rcls x = cls s /\ rtyp x = typ s) /\
  (is_sigtype (typ s) = true -> forall x, In x (items s) -> rcov x = cov s) /\
  (is_singleton (typ s) = true -> (length (items s) <= 1)%nat).
Proof.
  intros E. destruct (Forall_nth_error wf _ r s (rds_machine_wf ops) E) as [H1 H2 H3 H4]. auto.
Qed.

(* the Rdataset algebra at the level of the machine: in every reachable state, an in-place
   method between two distinct mergeable non-singleton rdatasets succeeds, yields set theory's
   members in first-insertion order and the minimised TTL *)
Theorem rds_machine_inplace ops w a r o s os :
  let st := rexec [] ops in
  nth_error st r = Some s -> nth_error st o = Some os -> r <> o ->
  kd s <> KImm -> inplace_alg w = Some a ->
  mergeable s os -> is_singleton (typ s) = false ->
  exists s', rstep st (RInpl w r o) = (set_nth st r s', N) /\
    (forall x, rmem x (items s') = alg_bool a (rmem x (items s)) (rmem x (items os))) /\
    items s' = alg_order rdata rd_eqb a (items s) (items os) /\
    ttl s' = (match a with
              | ADiff => ttl s
              | _ => if isempty s then ttl os else Z.min (ttl s) (ttl os)
              end).
Proof.
  cbv zeta. intros Es Eo Hne Hk Ea Hm Hns.
  pose proof (rds_machine_wf ops) as Hwf.
  assert (Hs : wf s) by (eapply Forall_nth_error; eassumption).
  assert (Ho : wf os) by (eapply Forall_nth_error; eassumption).
  destruct (ralg_mem a s os Hs Ho Hm Hns) as (s' & E & Hmem & Hord).
  destruct (ralg_ok a s os Ho Hm Hns) as (s'' & E' & _ & Httl & _).
  rewrite E in E'. inversion E'; subst s''.
  exists s'. cbn [rstep]. rewrite Es, Eo. apply Nat.eqb_neq in Hne. rewrite Hne.
  unfold upd, r_inplace. rewrite Ea.
  destruct (kd s) eqn:Ek; [|congruence|]; rewrite E; cbn [fst snd obs_err]; auto.
Qed.

(* ---------- equality of rdatasets ---------- *)

(* a == b: same class, type and covered type, the same member set whatever the insertion
   orders (and whatever the TTLs); two RRsets also need equal owner names *)
Theorem r_eq_spec a b :
  wf a -> wf b ->
  (r_eq a b = true <->
   cls a = cls b /\ typ a = typ b /\ cov a = cov b /\
   (kd a = KRR -> kd b = KRR -> name_eqb (oname a) (oname b) = true) /\
   (forall x, rmem x (items a) = rmem x (items b))).
Proof.
  intros Ha Hb.
  assert (Hbase : rds_base_eq a b = true <->
            cls a = cls b /\ typ a = typ b /\ cov a = cov b /\
            (forall x, rmem x (items a) = rmem x (items b))).
  { unfold rds_base_eq.
    destruct (cls a =? cls b) eqn:E1; cbn [negb orb].
    2:{ apply Z.eqb_neq in E1. split; [discriminate|tauto]. }
    destruct (typ a =? typ b) eqn:E2; cbn [negb orb].
    2:{ apply Z.eqb_neq in E2. split; [discriminate|tauto]. }
    destruct (cov a =? cov b) eqn:E3; cbn [negb orb].
    2:{ apply Z.eqb_neq in E3. split; [discriminate|tauto]. }
    apply Z.eqb_eq in E1, E2, E3.
    rewrite (set_eq_ignores_order (items a) (items b) (wf_nd a Ha) (wf_nd b Hb)). tauto. }
  unfold r_eq. destruct (kd a) eqn:Ka, (kd b) eqn:Kb;
    try (rewrite Hbase; split; [intros (A&B&C&D); repeat split; auto; discriminate|tauto]).
  destruct (name_eqb (oname a) (oname b)) eqn:En; cbn [negb].
  - rewrite Hbase. split; [intros (A&B&C&D); repeat split; auto|tauto].
  - split; [discriminate|]. intros (_&_&_&H&_). specialize (H eq_refl eq_refl). discriminate.
Qed.

Lemma SetTtl_set_nth_id {A} (st : list A) r x : nth_error st r = Some x -> set_nth st r x = st.
Proof.
  revert r. induction st as [|y l IH]; intros [|r]; cbn; try discriminate.
  - intros E; inversion E; reflexivity.
  - intros E. rewrite IH by exact E. reflexivity.
Qed.

(* ---------- ImmutableRdataset: every overridden mutator raises TypeError("immutable") ---------- *)

Definition imm_blocked (op : rop) : bool :=
  match op with
  | RAdd _ _ _ | RUpdateTtl _ _ | RClear _ | RDelItem _ _ | RRemove _ _ => true
  | RInpl w _ _ => match w with
                   | IUnion | IInter | IUpdate | IOr | IAnd | IAdd | ISub => true
                   | IDiff | ISym | IXor => false
                   end
  | _ => false
  end.

Definition op_self (op : rop) : option nat :=
  match op with
  | RAdd r _ _ | RUpdateTtl r _ | RClear r | RDelItem r _ | RRemove r _ | RInpl _ r _ => Some r
  | _ => None
  end.

Theorem imm_mutators_raise st op r s :
  nth_error st r = Some s -> kd s = KImm -> op_self op = Some r -> imm_blocked op = true ->
  match op with RInpl _ _ o => nth_error st o <> None | _ => True end ->
  rstep st op = (st, E eTypeError).
Proof.
  intros Hs Hk Hself Hb Ho.
  destruct op; cbn in Hself, Hb; try discriminate; inversion Hself; subst;
    cbn [rstep]; rewrite Hs, ?Hk; try reflexivity.
  destruct (nth_error st o) as [os|] eqn:Eo; [|congruence].
  unfold upd, r_inplace. rewrite Hk. cbn [fst snd].
  rewrite (SetTtl_set_nth_id st r s Hs).
  destruct w; cbn in Hb; try discriminate; reflexivity.
Qed.

(* ---------- RRset.match / full_match ---------- *)

Lemma name_eqb_spec a b : name_eqb a b = true <-> map lower_l a = map lower_l b.
Proof.
  unfold name_eqb. generalize (map lower_l a) (map lower_l b). clear a b.
  induction l as [|x a IH]; intros [|y b]; cbn; try (split; congruence).
  rewrite andb_true_iff, zlist_eqb_eq, IH. split; [intros [-> ->]; reflexivity|].
  intros E; inversion E; auto.
Qed.

(* full_match(name, rdclass, rdtype, covers, deleting): every one of the five identifying
   attributes, the owner name case-insensitively *)
Theorem r_full_match_spec s n c t v d :
  r_full_match s n c t v d = true <->
  cls s = c /\ typ s = t /\ cov s = v /\ map lower_l (oname s) = map lower_l n /\ deleting s = d.
Proof.
  unfold r_full_match, r_match.
  destruct (cls s =? c) eqn:E1; cbn; [|apply Z.eqb_neq in E1; split; [discriminate|tauto]].
  destruct (typ s =? t) eqn:E2; cbn; [|apply Z.eqb_neq in E2; split; [discriminate|tauto]].
  destruct (cov s =? v) eqn:E3; cbn; [|apply Z.eqb_neq in E3; split; [discriminate|tauto]].
  apply Z.eqb_eq in E1, E2, E3.
  destruct (name_eqb (oname s) n) eqn:E4; cbn.
  - apply name_eqb_spec in E4.
    destruct (deleting s) as [x|], d as [y|]; cbn; try (split; [discriminate|intros (_&_&_&_&H); discriminate]).
    + destruct (x =? y) eqn:E5; cbn.
      * apply Z.eqb_eq in E5. subst. tauto.
      * apply Z.eqb_neq in E5. split; [discriminate|]. intros (_&_&_&_&H). inversion H. contradiction.
    + tauto.
  - split; [discriminate|]. intros (_&_&_&H&_). apply name_eqb_spec in H. congruence.
Qed.

Theorem r_match_spec s c t v : r_match s c t v = true <-> cls s = c /\ typ s = t /\ cov s = v.
Proof. unfold r_match. rewrite !andb_true_iff, !Z.eqb_eq. tauto. Qed.

(* ---------- == on rdatasets is an equivalence relation ---------- *)

Lemma r_eq_refl a : wf a -> r_eq a a = true.
Proof.
  intros Ha. apply (r_eq_spec a a Ha Ha). repeat split; auto.
  intros _ _. apply name_eqb_spec. reflexivity.
Qed.

Lemma r_eq_sym a b : wf a -> wf b -> r_eq a b = r_eq b a.
Proof.
  intros Ha Hb.
  assert (H : forall x y, wf x -> wf y -> r_eq x y = true -> r_eq y x = true).
  { intros x y Hx Hy E. apply (r_eq_spec x y Hx Hy) in E as (A & B & C & D & F).
    apply (r_eq_spec y x Hy Hx). repeat split; auto.
    intros K1 K2. specialize (D K2 K1). apply name_eqb_spec in D. apply name_eqb_spec. auto. }
  destruct (r_eq a b) eqn:E1, (r_eq b a) eqn:E2; try reflexivity.
  - rewrite (H a b Ha Hb E1) in E2. discriminate.
  - rewrite (H b a Hb Ha E2) in E1. discriminate.
Qed.

Lemma r_eq_trans a b c :
  wf a -> wf b -> wf c -> kd b = KRR \/ (kd a <> KRR \/ kd c <> KRR) ->
  r_eq a b = true -> r_eq b c = true -> r_eq a c = true.
Proof.
  intros Ha Hb Hc Hk E1 E2.
  apply (r_eq_spec a b Ha Hb) in E1 as (A1 & B1 & C1 & D1 & F1).
  apply (r_eq_spec b c Hb Hc) in E2 as (A2 & B2 & C2 & D2 & F2).
  apply (r_eq_spec a c Ha Hc).
  split; [congruence|]. split; [congruence|]. split; [congruence|]. split.
  - intros K1 K3. destruct Hk as [K2|[K|K]]; try contradiction.
    specialize (D1 K1 K2). specialize (D2 K2 K3).
    apply name_eqb_spec in D1, D2. apply name_eqb_spec. congruence.
  - intros x. rewrite F1. apply F2.
Qed.
