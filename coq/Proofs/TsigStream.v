(* Multi-message exchanges (RFC 8945 5.3.1): every envelope that read_stream accepts with a
   TSIG carries the MAC of the RFC input - first form for the first signed envelope,
   "prior MAC ++ unsigned envelopes since ++ message ++ timers" afterwards - for any subset of
   envelopes sent without TSIG. *)
From DV Require Import Base.Prelude.
From DV Require Model.NameM.
From DV Require Import Model.TsigM Proofs.TsigSpec Proofs.TsigLemmas Proofs.TsigReader.
Open Scope Z_scope.

Lemma maybe_start_digest_multi : forall k mac r,
  maybe_start_digest k mac true = Ok r ->
  exists c1, r = Some c1 /\ c_data c1 = rfc_request_mac mac /\ c_key c1 = ksecret k
             /\ assoc_name hashes (kalg k) = Some (c_hash c1, c_size c1).
Proof.
  intros k mac r S. destruct r as [c1|].
  - exists c1. split; [reflexivity|]. now apply maybe_start_digest_ok.
  - unfold maybe_start_digest in S.
    destruct (get_context k); cbn [bind] in S; try discriminate.
    destruct (pack_u16 _); cbn [bind] in S; discriminate.
Qed.

Section Stream.
  Variable H : hashid -> bytes -> bytes -> bytes.
  Variable k : key.
  Variable rmac : bytes.
  Variable now : Z.

  (* the RFC's running state: MAC of the last signed envelope, envelopes sent without TSIG since *)
  Definition running := option (bytes * list bytes).

  Definition ctx_matches (ctx : option hctx) (run : running) : Prop :=
    match ctx, run with
    | None, None => True
    | Some c, Some (p, u) =>
        c_data c = rfc_request_mac p ++ concat u /\ c_key c = ksecret k
        /\ assoc_name hashes (kalg k) = Some (c_hash c, c_size c)
    | _, _ => False
    end.

  Definition run_unsigned (run : running) (w : bytes) : running :=
    match run with Some (p, u) => Some (p, u ++ [w]) | None => None end.

  Fixpoint stream_spec (run : running) (ws : list bytes) (ms : list rmsg) : Prop :=
    match ws, ms with
    | [], [] => True
    | w :: ws', m :: ms' =>
        match m_tsig m with
        | None => m_had_tsig m = false /\ stream_spec (run_unsigned run w) ws' ms'
        | Some (owner, rd) =>
            m_had_tsig m = true /\
            (exists ad start h sz,
               pre_ok w k owner rd now ad /\ assoc_name hashes (kalg k) = Some (h, sz) /\
               t_mac rd = rfc_truncate (trunc_of sz) (H h (ksecret k)
                 (match run with
                  | None => rfc8945_input (omac rmac) (t_oid rd) (rfc_received_message w ad start)
                              (vars_of k rd (t_time rd))
                  | Some (p, u) => rfc8945_input_subsequent p u (t_oid rd)
                              (rfc_received_message w ad start) (t_time rd) (t_fudge rd)
                  end)))
            /\ stream_spec (Some (t_mac rd, [])) ws' ms'
        end
    | _, _ => False
    end.

  Lemma read_stream_is_rfc_lemma : forall origin ws ms ctx run,
    ctx_matches ctx run ->
    Forall (fun w => all_bytes w = true) ws ->
    read_stream_gen H origin ws (KR_Key k) rmac ctx now = map Ok ms ->
    stream_spec run ws ms.
  Proof.
    intros origin. induction ws as [|w ws IH]; intros ms ctx run CM AB E.
    - destruct ms; [exact Logic.I|discriminate].
    - inversion AB as [|? ? Aw AB']; subst. cbn [read_stream_gen] in E.
      destruct (read_gen H origin w (KR_Key k) rmac ctx true now) as [m| |] eqn:R.
      2,3: destruct ms as [|m0 [|]]; cbn in E; discriminate.
      destruct ms as [|m0 ms]; [discriminate|]. cbn [map] in E.
      inversion E as [[Em Erest]]. subst m0. clear E.
      cbn [stream_spec].
      apply read_ok in R as (body & _ & [(_ & T & Hd & C) | (owner & rd & start & _ & T & Hd & D)]).
      + rewrite T. split; [assumption|]. apply (IH ms (m_ctx m)); [|exact AB'|exact Erest].
        rewrite C. unfold ctx_after_unsigned, run_unsigned, ctx_matches in *.
        destruct ctx as [c|], run as [[p u]|]; try contradiction; [|exact Logic.I].
        destruct CM as (Dd & Dk & Dh). cbn [update c_data c_key c_hash c_size].
        rewrite Dd, concat_app. cbn [concat]. rewrite app_nil_r, <- app_assoc. auto.
      + rewrite T. split; [assumption|].
        destruct D as (_ & ko & FK & V). cbn [find_key] in FK. inversion FK; subst ko. clear FK.
        destruct ctx as [c|], run as [[p u]|]; try contradiction.
        * destruct CM as (Dd & Dk & Dh).
          apply (validate_accepts_mac_subsequent H) in V as (ad & P & M & c1 & Ec & D1 & K1 & H1); [|assumption].
          split.
          -- exists ad, start, (c_hash c), (c_size c). split; [assumption|]. split; [assumption|].
             rewrite M, Dk, Dd. unfold rfc8945_input_subsequent. now rewrite <- !app_assoc.
          -- apply (IH ms (m_ctx m)); [|exact AB'|exact Erest]. rewrite Ec. cbn [ctx_matches concat]. rewrite app_nil_r. auto.
        * pose proof V as V'.
          apply (validate_accepts_mac_is_rfc H) in V as (ad & h & sz & P & Hh & M); auto.
          apply validate_accepts_iff_lemma in V' as (ad' & c' & _ & _ & _ & S).
          apply maybe_start_digest_multi in S as (c1 & Ec & D1 & K1 & H1).
          split.
          -- exists ad, start, h, sz. auto.
          -- apply (IH ms (m_ctx m)); [|exact AB'|exact Erest]. rewrite Ec. cbn [ctx_matches concat]. rewrite app_nil_r. auto.
  Qed.
End Stream.
