(* The reader's name decoder (MessageM.nm_from_wire) follows the fuel-free decoding relation
   Dec of Proofs/NameCompress.v; the renderer's name writer as a pure emission function. *)
From DV Require Import Base.Prelude Model.NameM Model.MessageM.
From DV Require Import Proofs.NameOrder Proofs.NameValid Proofs.NameRel Proofs.NameWire Proofs.NameCompress.
Open Scope Z_scope.

(* ---------- reading octets of a prefix ---------- *)
Lemma firstn_skipn_app {A} (a b : list A) cur n :
  (cur + n <= length a)%nat -> firstn n (skipn cur (a ++ b)) = firstn n (skipn cur a).
Proof.
  intros H. rewrite skipn_app. rewrite firstn_app.
  replace (n - length (skipn cur a))%nat with O by (rewrite skipn_length; lia).
  cbn [firstn]. apply app_nil_r.
Qed.

Lemma rd_bytes_prefix msg ext endp cur n :
  (cur + n <= length msg)%nat -> (length msg <= endp)%nat ->
  rd_bytes (msg ++ ext) endp cur n = Ok (firstn n (skipn cur msg)).
Proof.
  intros H1 H2. unfold rd_bytes.
  destruct (Nat.ltb_spec (endp - cur) n); [lia|]. f_equal. apply firstn_skipn_app. exact H1.
Qed.

Lemma firstn1_skipn_nth {A} (l : list A) i x : nth_error l i = Some x -> firstn 1 (skipn i l) = [x].
Proof.
  revert i. induction l as [|y l IH]; intros [|i] H; try discriminate.
  - inversion H. reflexivity.
  - cbn [skipn]. apply IH. exact H.
Qed.

Lemma rd_u8_prefix msg ext endp cur x :
  nth_error msg cur = Some x -> (length msg <= endp)%nat -> rd_u8 (msg ++ ext) endp cur = Ok x.
Proof.
  intros H1 H2. unfold rd_u8.
  assert (cur < length msg)%nat by (apply nth_error_Some; congruence).
  rewrite rd_bytes_prefix by lia. rewrite (firstn1_skipn_nth _ _ _ H1). reflexivity.
Qed.

(* ---------- Dec -> the reader's decoder ---------- *)
Lemma nm_lab_Dec msg ext endp :
  (length msg <= endp)%nat ->
  forall cur b ls h, Dec msg cur b ls h ->
  forall jump fl fur acc,
    (length msg - cur < fl)%nat ->
    (forall c fur' acc' ls' h', (c < b)%nat -> Dec msg c c ls' h' ->
        jump c fur' acc' = Ok (rev acc' ++ ls', Nat.max fur' h')) ->
    nm_lab (msg ++ ext) endp jump b fl cur fur acc = Ok (rev acc ++ ls, Nat.max fur h).
Proof.
  intros Hend cur b ls h D.
  induction D as [cur b H0 | cur b count l ls hi Hc Hr Hlen Hl D IH | cur b hi8 lo c ls h Hh H8 Hlo Hc Hcb D _];
    intros jump fl fur acc Hfl Hj.
  - destruct fl as [|fl]; [lia|]. cbn [nm_lab].
    rewrite (rd_u8_prefix _ _ _ _ _ H0 Hend). cbn [Z.eqb].
    cbn [rev]. reflexivity.
  - destruct fl as [|fl]; [lia|]. cbn [nm_lab].
    rewrite (rd_u8_prefix _ _ _ _ _ Hc Hend).
    destruct (Z.eqb_spec count 0); [lia|].
    destruct (Z.ltb_spec count 64); [|lia].
    rewrite rd_bytes_prefix by lia. rewrite <- Hl.
    rewrite IH.
    + cbn [rev]. rewrite <- app_assoc. cbn [app]. f_equal. f_equal. lia.
    + assert (0 < Z.to_nat count)%nat by lia. lia.
    + exact Hj.
  - destruct fl as [|fl]; [lia|]. cbn [nm_lab].
    rewrite (rd_u8_prefix _ _ _ _ _ Hh Hend).
    destruct (Z.eqb_spec hi8 0); [lia|].
    destruct (Z.ltb_spec hi8 64); [lia|].
    destruct (Z.leb_spec 192 hi8); [|lia].
    rewrite (rd_u8_prefix _ _ _ _ _ Hlo Hend).
    rewrite <- Hc.
    destruct (Nat.leb_spec b c); [lia|].
    pose proof (Dec_bounds _ _ _ _ _ D) as (B1 & B2 & B3).
    destruct (Nat.ltb_spec endp c); [lia|].
    rewrite (Hj c _ acc ls h Hcb D). f_equal. f_equal. lia.
Qed.

Lemma nm_ptr_Dec msg ext endp :
  (length msg <= endp)%nat ->
  forall fp cur b ls h fur acc, Dec msg cur b ls h -> (b < fp)%nat ->
    nm_ptr (msg ++ ext) endp fp cur fur b acc = Ok (rev acc ++ ls, Nat.max fur h).
Proof.
  intros Hend. induction fp as [|fp IH]; intros cur b ls h fur acc D Hb; [lia|].
  cbn [nm_ptr]. apply (nm_lab_Dec msg ext endp Hend cur b ls h D).
  - lia.
  - intros c fur' acc' ls' h' Hc D'. apply IH; [exact D'|lia].
Qed.

Theorem nm_from_wire_Dec msg ext endp start ls h :
  Dec msg start start ls h -> Valid ls -> (length msg <= endp)%nat ->
  nm_from_wire (msg ++ ext) endp start = Ok (ls, h).
Proof.
  intros D V Hend. unfold nm_from_wire.
  pose proof (Dec_bounds _ _ _ _ _ D) as (B1 & B2 & B3).
  destruct (Nat.ltb_spec endp start); [lia|].
  rewrite (nm_ptr_Dec msg ext endp Hend (S start) start start ls h start [] D) by lia.
  cbn [rev app]. rewrite (mk_name_valid _ V). cbn [bind]. f_equal. f_equal. lia.
Qed.

(* ---------- the name writer as a pure emission function ---------- *)
(* what tw_loop appends when the file has length pos *)
Fixpoint tw_em (labels : name) (pos : Z) (t : ctable) : list Z * ctable :=
  match labels with
  | [] => ([], t)
  | l :: r =>
      match tbl_get t labels with
      | Some p => (NameM.u16 (49152 + p), t)
      | None =>
          let t' := if (1 <? zlen labels) && (pos <=? 16383) then t ++ [(labels, pos)] else t in
          let em := tw_em r (pos + 1 + zlen l) t' in
          (zlen l :: l ++ fst em, snd em)
      end
  end.

Lemma tw_loop_em : forall labels file t,
  tw_loop labels false file t = (file ++ fst (tw_em labels (zlen file) t), snd (tw_em labels (zlen file) t)).
Proof.
  induction labels as [|l r IH]; intros file t.
  - cbn. rewrite app_nil_r. reflexivity.
  - cbn [tw_loop tw_em]. destruct (tbl_get t (l :: r)); [reflexivity|].
    rewrite IH. cbn [fst snd].
    replace (zlen (file ++ zlen l :: l)) with (zlen file + 1 + zlen l).
    + rewrite <- app_assoc. reflexivity.
    + unfold zlen. rewrite app_length. cbn [length]. lia.
Qed.

(* entries added by the writer lie at or after the write position *)
Lemma tw_em_new : forall labels pos t,
  exists new, snd (tw_em labels pos t) = t ++ new /\ Forall (fun kv => pos <= snd kv) new.
Proof.
  induction labels as [|l r IH]; intros pos t.
  - exists []. cbn. rewrite app_nil_r. auto.
  - cbn [tw_em]. destruct (tbl_get t (l :: r)).
    + exists []. cbn. rewrite app_nil_r. auto.
    + cbn [snd].
      match goal with |- context [if ?c then _ else _] => destruct c end.
      * destruct (IH (pos + 1 + zlen l) (t ++ [(l :: r, pos)])) as (new & E & F).
        exists ((l :: r, pos) :: new). split; [rewrite <- app_assoc in E; exact E|].
        constructor; [cbn; lia|]. eapply Forall_impl; [|exact F].
        intros kv H. cbn in H. pose proof (zlen_nonneg l). lia.
      * destruct (IH (pos + 1 + zlen l) t) as (new & E & F).
        exists new. split; [exact E|]. eapply Forall_impl; [|exact F].
        intros kv H. cbn in H. pose proof (zlen_nonneg l). lia.
Qed.

(* ---------- soundness of one name write, in Dec terms ---------- *)
Theorem tw_loop_dec labels file t file' t' :
  TableSound file t -> Valid labels -> is_absolute labels = true ->
  tw_loop labels false file t = (file', t') ->
  exists em ls,
    file' = file ++ em /\ TableSound file' t' /\
    Dec file' (length file) (length file) ls (length file') /\ ci_equal ls labels /\ Valid ls.
Proof.
  intros TS V A L.
  rewrite <- (app_nil_r t) in L.
  destruct (tw_loop_sound false ci_equal) with (labels := labels) (file := file) (t := t)
    (pend := @nil (name * Z)) (b := length file) (file' := file') (t' := t')
    as (em & new & ls & Ef & Et & D & R & Fnew); auto.
  - reflexivity.
  - apply ci_RN_cons.
  - intros a b c H1 H2. unfold ci_equal in *. congruence.
  - intros k v I p s E Eq. apply name_eqb_iff_ci. exact Eq.
  - intros k v I. destruct (TS k v I) as (_ & ls0 & h0 & D0 & _).
    apply Dec_bounds in D0. lia.
  - intros k v [].
  - rewrite app_nil_r in Et. exists em, ls. split; [exact Ef|]. split; [|split; [exact D|split; [exact R|]]].
    + intros k v I. rewrite Et in I. apply in_app_or in I. destruct I as [I|I].
      * destruct (TS k v I) as (Hv & ls0 & h0 & D0 & R0). split; [exact Hv|].
        exists ls0, h0. split; [rewrite Ef; apply Dec_app; exact D0|exact R0].
      * rewrite Forall_forall in Fnew. destruct (Fnew _ I) as (Hv & _ & ls0 & h0 & D0 & R0).
        split; [exact Hv|]. exists ls0, h0. auto.
    + eapply Valid_ci; [symmetry; exact R|exact V].
Qed.
