(* C17 - linearizability of an object whose every method body is one critical section.

   Threads call methods of one shared object.  A call goes through five steps:
     LInv t c      thread t invokes method c                     (history event)
     LAcq t        t enters `with self.lock:`  (only if the lock is free)
     LBody t c ds  t executes the method body; ds = time passing at its clock reads
     LRel t        t leaves the with block
     LRes t c r    the call returns r to t                       (history event)
   and time may pass at any point (LEnv d).  Steps of different threads interleave arbitrarily.
   That a method body is exactly one such critical section is the premise `methods_atomic`
   discharged on dns/resolver.py by the AST guard in harness/pC17.py.

   Theorems: mutual exclusion; the state and clock after ANY execution are those of the
   sequential history made of the bodies in lock-acquisition order (with the same clock
   increments), every response is the result that sequential history gives to that call, and
   every call's body lies between its invocation and its response (so the sequential order
   respects real-time precedence: the history is linearizable). *)
From DV Require Import Base.Prelude Model.CacheM.

Section Conc.
  Context {St : Type}.
  Variable step : call -> St -> clk -> res (ret * St * clk).

  Inductive phase :=
  | Idle
  | Waiting (c : call)
  | Holding (c : call)
  | Finished (c : call) (r : ret)
  | Released (c : call) (r : ret).

  Record conf := mkConf {
    cf_obj : St;
    cf_now : Z;
    cf_lock : option nat;
    cf_ph : nat -> phase }.

  Inductive label :=
  | LInv (t : nat) (c : call)
  | LAcq (t : nat)
  | LBody (t : nat) (c : call) (ds : list Z)
  | LRel (t : nat)
  | LRes (t : nat) (c : call) (r : ret)
  | LEnv (d : Z).

  Definition upd (f : nat -> phase) (t : nat) (p : phase) : nat -> phase :=
    fun x => if Nat.eqb x t then p else f x.

  Definition call_eqb (a b : call) : bool :=
    match a, b with
    | Get x, Get y => x =? y
    | Put x v, Put y w => (x =? y) && (a_id v =? a_id w) && (a_exp v =? a_exp w)
    | Flush None, Flush None => true
    | Flush (Some x), Flush (Some y) => x =? y
    | SetMax x, SetMax y => x =? y
    | HitsFor x, HitsFor y => x =? y
    | Hits, Hits | Misses, Misses | Snapshot, Snapshot | ResetStats, ResetStats => true
    | _, _ => false
    end.

  (* the transition relation *)
  Inductive cstep : conf -> label -> conf -> Prop :=
  | S_inv : forall cf t c, cf_ph cf t = Idle ->
      cstep cf (LInv t c) (mkConf (cf_obj cf) (cf_now cf) (cf_lock cf) (upd (cf_ph cf) t (Waiting c)))
  | S_acq : forall cf t c, cf_ph cf t = Waiting c -> cf_lock cf = None ->
      cstep cf (LAcq t) (mkConf (cf_obj cf) (cf_now cf) (Some t) (upd (cf_ph cf) t (Holding c)))
  | S_body : forall cf t c ds r s' k', cf_ph cf t = Holding c -> cf_lock cf = Some t ->
      Forall (fun d => 0 <= d) ds ->
      step c (cf_obj cf) (mkClk (cf_now cf) ds) = Ok (r, s', k') ->
      cstep cf (LBody t c ds) (mkConf s' (now k') (cf_lock cf) (upd (cf_ph cf) t (Finished c r)))
  | S_rel : forall cf t c r, cf_ph cf t = Finished c r -> cf_lock cf = Some t ->
      cstep cf (LRel t) (mkConf (cf_obj cf) (cf_now cf) None (upd (cf_ph cf) t (Released c r)))
  | S_res : forall cf t c r, cf_ph cf t = Released c r ->
      cstep cf (LRes t c r) (mkConf (cf_obj cf) (cf_now cf) (cf_lock cf) (upd (cf_ph cf) t Idle))
  | S_env : forall cf d, 0 <= d ->
      cstep cf (LEnv d) (mkConf (cf_obj cf) (cf_now cf + d) (cf_lock cf) (cf_ph cf)).

  Inductive exec : conf -> list label -> conf -> Prop :=
  | E_nil : forall cf, exec cf [] cf
  | E_cons : forall cf l cf1 ls cf2, cstep cf l cf1 -> exec cf1 ls cf2 -> exec cf (l :: ls) cf2.

  Definition init_conf (s : St) (t0 : Z) : conf := mkConf s t0 None (fun _ => Idle).

  (* ---------- the sequential witness: bodies in the order they ran, and the passage of time *)
  Fixpoint witness (ls : list label) : list item :=
    match ls with
    | [] => []
    | LBody _ c ds :: r => Call c ds :: witness r
    | LEnv d :: r => Adv d :: witness r
    | _ :: r => witness r
    end.

  (* thread ids of the witness items (None for time passing) *)
  Fixpoint witness_tid (ls : list label) : list (option nat) :=
    match ls with
    | [] => []
    | LBody t _ _ :: r => Some t :: witness_tid r
    | LEnv _ :: r => None :: witness_tid r
    | _ :: r => witness_tid r
    end.

  (* ---------- mutual exclusion *)
  Definition in_cs (p : phase) : bool :=
    match p with Holding _ | Finished _ _ => true | _ => false end.

  Definition mutex_inv (cf : conf) : Prop :=
    forall t, in_cs (cf_ph cf t) = true <-> cf_lock cf = Some t.

  Lemma upd_same : forall f t p, upd f t p t = p.
  Proof. intros. unfold upd. rewrite Nat.eqb_refl. reflexivity. Qed.
  Lemma upd_other : forall f t p x, x <> t -> upd f t p x = f x.
  Proof. intros f t p x H. unfold upd. destruct (Nat.eqb x t) eqn:E; [apply Nat.eqb_eq in E; congruence|reflexivity]. Qed.

  Lemma mutex_step : forall cf l cf', cstep cf l cf' -> mutex_inv cf -> mutex_inv cf'.
  Proof.
    intros cf l cf' Hs HI. unfold mutex_inv in *. inversion Hs; subst; cbn [cf_ph cf_lock]; intros x.
    - destruct (Nat.eq_dec x t) as [->|Hne]; [rewrite upd_same|rewrite upd_other by exact Hne; apply HI].
      cbn. split; [discriminate|]. intros HL. apply HI in HL. rewrite H in HL. discriminate.
    - destruct (Nat.eq_dec x t) as [->|Hne]; [rewrite upd_same|rewrite upd_other by exact Hne].
      + cbn. split; auto.
      + split; [intros HC; apply HI in HC; congruence|intros HL; inversion HL; congruence].
    - destruct (Nat.eq_dec x t) as [->|Hne]; [rewrite upd_same|rewrite upd_other by exact Hne; apply HI].
      cbn. split; auto.
    - destruct (Nat.eq_dec x t) as [->|Hne]; [rewrite upd_same|rewrite upd_other by exact Hne].
      + cbn. split; discriminate.
      + split; [intros HC; apply HI in HC; congruence|discriminate].
    - destruct (Nat.eq_dec x t) as [->|Hne]; [rewrite upd_same|rewrite upd_other by exact Hne; apply HI].
      cbn. split; [discriminate|]. intros HL. apply HI in HL. rewrite H in HL. discriminate.
    - apply HI.
  Qed.

  Lemma mutex_exec : forall cf ls cf', exec cf ls cf' -> mutex_inv cf -> mutex_inv cf'.
  Proof. induction 1; intros HI; [exact HI|]. apply IHexec. eapply mutex_step; eauto. Qed.

  (* at most one thread is inside a method body at any time *)
  Theorem mutual_exclusion : forall s t0 ls cf t1 t2,
    exec (init_conf s t0) ls cf ->
    in_cs (cf_ph cf t1) = true -> in_cs (cf_ph cf t2) = true -> t1 = t2.
  Proof.
    intros s t0 ls cf t1 t2 He H1 H2.
    assert (HI : mutex_inv cf).
    { eapply mutex_exec; [exact He|]. intros x. cbn. split; discriminate. }
    apply HI in H1. apply HI in H2. congruence.
  Qed.

  (* ---------- the state is that of the sequential witness *)
  Lemma witness_state : forall cf ls cf', exec cf ls cf' ->
    exists rs, wrun step (witness ls) (cf_obj cf, cf_now cf) = Ok (rs, (cf_obj cf', cf_now cf')).
  Proof.
    induction 1 as [cf|cf l cf1 ls cf2 Hs He IH].
    - exists []. reflexivity.
    - destruct IH as [rs IH].
      inversion Hs; subst; cbn [witness cf_obj cf_now] in *; try (exists rs; exact IH).
      + exists (Some r :: rs). cbn [wrun wstep fst snd]. rewrite H2. cbn [bind snd fst].
        rewrite IH. reflexivity.
      + exists (None :: rs). cbn [wrun wstep fst snd bind]. rewrite IH. reflexivity.
  Qed.

  (* ---------- every response is the sequential result *)
  (* results of thread t's bodies in a sequential run *)
  Fixpoint thread_results (t : nat) (tids : list (option nat)) (rs : list (option ret)) : list ret :=
    match tids, rs with
    | Some t' :: tids', Some r :: rs' =>
        if Nat.eqb t' t then r :: thread_results t tids' rs' else thread_results t tids' rs'
    | _ :: tids', _ :: rs' => thread_results t tids' rs'
    | _, _ => []
    end.

  (* what was returned to thread t, in order *)
  Fixpoint responses (t : nat) (ls : list label) : list ret :=
    match ls with
    | [] => []
    | LRes t' _ r :: rest => if Nat.eqb t' t then r :: responses t rest else responses t rest
    | _ :: rest => responses t rest
    end.

  (* a body result computed but not yet returned *)
  Definition pending (p : phase) : list ret :=
    match p with Finished _ r | Released _ r => [r] | _ => [] end.

  Lemma witness_results : forall cf ls cf', exec cf ls cf' ->
    forall rs, wrun step (witness ls) (cf_obj cf, cf_now cf) = Ok (rs, (cf_obj cf', cf_now cf')) ->
    forall t, pending (cf_ph cf t) ++ thread_results t (witness_tid ls) rs =
              responses t ls ++ pending (cf_ph cf' t).
  Proof.
    induction 1 as [cf|cf l cf1 ls cf2 Hs He IH]; intros rs Hrun t.
    - cbn in *. inversion Hrun; subst. cbn. rewrite app_nil_r. reflexivity.
    - inversion Hs as [cf0 u c Hph | cf0 u c Hph Hl | cf0 u c ds r s' k' Hph Hl Hds Hst
                      | cf0 u c r Hph Hl | cf0 u c r Hph | cf0 d Hd]; subst;
        cbn [witness witness_tid responses cf_obj cf_now cf_ph] in *.
      + (* inv *)
        rewrite <- (IH rs Hrun t). f_equal. cbn [cf_ph].
        destruct (Nat.eq_dec t u) as [->|Hne]; [rewrite upd_same, Hph; reflexivity|rewrite upd_other by exact Hne; reflexivity].
      + (* acq *)
        rewrite <- (IH rs Hrun t). f_equal. cbn [cf_ph].
        destruct (Nat.eq_dec t u) as [->|Hne]; [rewrite upd_same, Hph; reflexivity|rewrite upd_other by exact Hne; reflexivity].
      + (* body *)
        cbn [wrun wstep fst snd] in Hrun. rewrite Hst in Hrun. cbn [bind snd fst] in Hrun.
        destruct (wrun step (witness ls) (s', now k')) as [[rs' w']| |] eqn:E; cbn [bind] in Hrun; try discriminate.
        inversion Hrun; subst. cbn [fst snd] in *.
        specialize (IH rs' eq_refl t). cbn [cf_ph] in IH. cbn [thread_results].
        destruct (Nat.eq_dec t u) as [->|Hne].
        * rewrite Nat.eqb_refl. rewrite upd_same in IH. cbn [pending] in IH. rewrite Hph. cbn [pending app].
          exact IH.
        * destruct (Nat.eqb u t) eqn:E1; [apply Nat.eqb_eq in E1; congruence|].
          rewrite upd_other in IH by exact Hne. exact IH.
      + (* rel *)
        rewrite <- (IH rs Hrun t). f_equal. cbn [cf_ph].
        destruct (Nat.eq_dec t u) as [->|Hne]; [rewrite upd_same, Hph; reflexivity|rewrite upd_other by exact Hne; reflexivity].
      + (* res *)
        specialize (IH rs Hrun t). cbn [cf_ph] in IH.
        destruct (Nat.eq_dec t u) as [->|Hne].
        * rewrite Nat.eqb_refl. rewrite upd_same in IH. cbn [pending app] in IH. rewrite Hph. cbn [pending app].
          rewrite <- IH. reflexivity.
        * destruct (Nat.eqb u t) eqn:E1; [apply Nat.eqb_eq in E1; congruence|].
          rewrite upd_other in IH by exact Hne. exact IH.
      + (* env *)
        cbn [wrun wstep fst snd bind] in Hrun.
        destruct (wrun step (witness ls) (cf_obj cf, cf_now cf + d)) as [[rs' w']| |] eqn:E; cbn [bind] in Hrun; try discriminate.
        inversion Hrun; subst. cbn [fst snd] in *.
        cbn [thread_results]. apply (IH rs' eq_refl t).
  Qed.

  (* Linearizability, state and results: after ANY interleaving the shared object and the clock
     are those of the sequential history `witness ls` (the bodies in the order in which the
     threads held the lock), and what each thread got back is what that sequential history
     returns to it (the last result may still be on its way). *)
  Theorem linearizable : forall s t0 ls cf,
    exec (init_conf s t0) ls cf ->
    exists rs,
      wrun step (witness ls) (s, t0) = Ok (rs, (cf_obj cf, cf_now cf)) /\
      forall t, thread_results t (witness_tid ls) rs = responses t ls ++ pending (cf_ph cf t).
  Proof.
    intros s t0 ls cf He. destruct (witness_state _ _ _ He) as [rs Hrs].
    exists rs. split; [exact Hrs|]. intros t.
    pose proof (witness_results _ _ _ He rs Hrs t) as H. cbn in H. exact H.
  Qed.

  (* ---------- real-time order: each call of a thread is Inv, Acq, Body, Rel, Res in this order
     and calls of one thread do not overlap, so a call's body (its place in the sequential
     witness) lies between its invocation and its response. *)
  Inductive tstate := TIdle | TWait (c : call) | THold (c : call) | TFin (c : call) | TRel (c : call).

  Definition abs_phase (p : phase) : tstate :=
    match p with
    | Idle => TIdle | Waiting c => TWait c | Holding c => THold c
    | Finished c _ => TFin c | Released c _ => TRel c
    end.

  (* the per-thread protocol automaton; labels of other threads and of the clock are skipped *)
  Definition tnext (t : nat) (st : tstate) (l : label) : option tstate :=
    match l with
    | LInv t' c => if Nat.eqb t' t then match st with TIdle => Some (TWait c) | _ => None end else Some st
    | LAcq t' => if Nat.eqb t' t then match st with TWait c => Some (THold c) | _ => None end else Some st
    | LBody t' c _ =>
        if Nat.eqb t' t then match st with THold c' => if call_eqb c c' then Some (TFin c) else None | _ => None end
        else Some st
    | LRel t' => if Nat.eqb t' t then match st with TFin c => Some (TRel c) | _ => None end else Some st
    | LRes t' c _ =>
        if Nat.eqb t' t then match st with TRel c' => if call_eqb c c' then Some TIdle else None | _ => None end
        else Some st
    | LEnv _ => Some st
    end.

  Fixpoint trun (t : nat) (st : tstate) (ls : list label) : option tstate :=
    match ls with
    | [] => Some st
    | l :: r => match tnext t st l with Some st' => trun t st' r | None => None end
    end.

  Lemma call_eqb_refl : forall c, call_eqb c c = true.
  Proof.
    destruct c as [k|k v|[k|]|m|k| | | |]; cbn; rewrite ?Z.eqb_refl; reflexivity.
  Qed.

  Lemma tnext_step : forall cf l cf' t, cstep cf l cf' ->
    tnext t (abs_phase (cf_ph cf t)) l = Some (abs_phase (cf_ph cf' t)).
  Proof.
    intros cf l cf' t Hs.
    inversion Hs as [cf0 u c Hph | cf0 u c Hph Hl | cf0 u c ds r s' k' Hph Hl Hds Hst
                    | cf0 u c r Hph Hl | cf0 u c r Hph | cf0 d Hd]; subst; cbn [tnext cf_ph];
      try reflexivity;
      (destruct (Nat.eq_dec t u) as [->|Hne];
       [rewrite Nat.eqb_refl, upd_same, Hph; cbn; rewrite ?call_eqb_refl; reflexivity
       |destruct (Nat.eqb u t) eqn:E1; [apply Nat.eqb_eq in E1; congruence|];
        rewrite upd_other by exact Hne; reflexivity]).
  Qed.

  Theorem thread_protocol : forall s t0 ls cf t,
    exec (init_conf s t0) ls cf -> trun t TIdle ls = Some (abs_phase (cf_ph cf t)).
  Proof.
    intros s t0 ls cf t He.
    change TIdle with (abs_phase (cf_ph (init_conf s t0) t)).
    induction He as [cf|cf l cf1 ls cf2 Hs He IH]; [reflexivity|].
    cbn [trun]. rewrite (tnext_step _ _ _ t Hs). exact IH.
  Qed.
End Conc.

(* ------------------------------------------------------------------ an executable scheduler, sound for `exec` *)
Section Run.
  Context {St : Type}.
  Variable step : call -> St -> clk -> res (ret * St * clk).

  Definition cstep_fun (l : label) (cf : conf) : option (@conf St) :=
    match l with
    | LInv t c =>
        match cf_ph cf t with
        | Idle => Some (mkConf (cf_obj cf) (cf_now cf) (cf_lock cf) (upd (cf_ph cf) t (Waiting c)))
        | _ => None
        end
    | LAcq t =>
        match cf_ph cf t, cf_lock cf with
        | Waiting c, None => Some (mkConf (cf_obj cf) (cf_now cf) (Some t) (upd (cf_ph cf) t (Holding c)))
        | _, _ => None
        end
    | LBody t c ds =>
        match cf_ph cf t, cf_lock cf with
        | Holding c', Some t' =>
            if call_eqb c c' && Nat.eqb t t' && forallb (fun d => 0 <=? d) ds then
              match step c' (cf_obj cf) (mkClk (cf_now cf) ds) with
              | Ok (r, s', k') => Some (mkConf s' (now k') (cf_lock cf) (upd (cf_ph cf) t (Finished c' r)))
              | _ => None
              end
            else None
        | _, _ => None
        end
    | LRel t =>
        match cf_ph cf t, cf_lock cf with
        | Finished c r, Some t' =>
            if Nat.eqb t t' then Some (mkConf (cf_obj cf) (cf_now cf) None (upd (cf_ph cf) t (Released c r)))
            else None
        | _, _ => None
        end
    | LRes t _ _ =>
        match cf_ph cf t with
        | Released c r => Some (mkConf (cf_obj cf) (cf_now cf) (cf_lock cf) (upd (cf_ph cf) t Idle))
        | _ => None
        end
    | LEnv d => if 0 <=? d then Some (mkConf (cf_obj cf) (cf_now cf + d) (cf_lock cf) (cf_ph cf)) else None
    end.

  (* the labels as the scheduler resolves them (method and result filled in from the state) *)
  Definition relabel (l : label) (cf : @conf St) : label :=
    match l with
    | LBody t _ ds => match cf_ph cf t with Holding c => LBody t c ds | _ => l end
    | LRes t _ _ => match cf_ph cf t with Released c r => LRes t c r | _ => l end
    | _ => l
    end.

  Fixpoint exec_fun (ls : list label) (cf : conf) : option (list label * @conf St) :=
    match ls with
    | [] => Some ([], cf)
    | l :: r =>
        match cstep_fun l cf with
        | Some cf1 => match exec_fun r cf1 with
                      | Some (ls', cf2) => Some (relabel l cf :: ls', cf2)
                      | None => None
                      end
        | None => None
        end
    end.

  Lemma cstep_fun_sound : forall l cf cf', cstep_fun l cf = Some cf' -> cstep step cf (relabel l cf) cf'.
  Proof.
    intros l cf cf' H. destruct l as [t c|t|t c ds|t|t c r|d]; cbn [cstep_fun relabel] in *.
    - destruct (cf_ph cf t) eqn:E; try discriminate. inversion H; subst. apply S_inv. exact E.
    - destruct (cf_ph cf t) eqn:E; try discriminate. destruct (cf_lock cf) eqn:EL; try discriminate.
      inversion H; subst. eapply S_acq; eauto.
    - destruct (cf_ph cf t) eqn:E; try discriminate. destruct (cf_lock cf) as [t'|] eqn:EL; try discriminate.
      destruct (call_eqb c c0 && Nat.eqb t t' && forallb (fun d => 0 <=? d) ds) eqn:EB; try discriminate.
      apply andb_true_iff in EB. destruct EB as [EB E3]. apply andb_true_iff in EB. destruct EB as [_ E2].
      apply Nat.eqb_eq in E2. subst t'.
      destruct (step c0 (cf_obj cf) (mkClk (cf_now cf) ds)) as [[[r s'] k']| |] eqn:ES; try discriminate.
      inversion H; subst. rewrite <- EL. eapply S_body; eauto.
      rewrite forallb_forall in E3. apply Forall_forall. intros x Hx. apply Z.leb_le. auto.
    - destruct (cf_ph cf t) eqn:E; try discriminate. destruct (cf_lock cf) as [t'|] eqn:EL; try discriminate.
      destruct (Nat.eqb t t') eqn:E2; try discriminate. apply Nat.eqb_eq in E2. subst t'.
      inversion H; subst. eapply S_rel; eauto.
    - destruct (cf_ph cf t) eqn:E; try discriminate. inversion H; subst. eapply S_res; eauto.
    - destruct (0 <=? d) eqn:E; try discriminate. inversion H; subst. apply S_env. apply Z.leb_le. exact E.
  Qed.

  Lemma exec_fun_sound : forall ls cf ls' cf', exec_fun ls cf = Some (ls', cf') -> exec step cf ls' cf'.
  Proof.
    induction ls as [|l ls IH]; intros cf ls' cf' H; cbn in H.
    - inversion H; subst. constructor.
    - destruct (cstep_fun l cf) as [cf1|] eqn:E1; try discriminate.
      destruct (exec_fun ls cf1) as [[ls2 cf2]|] eqn:E2; try discriminate.
      inversion H; subst. econstructor; [apply cstep_fun_sound; exact E1|apply IH; exact E2].
  Qed.
End Run.

(* ------------------------------------------------------------------ instances *)
From DV Require Import Model.CacheSpecM Proofs.CacheRing Proofs.CacheDict Proofs.CacheLru Proofs.CacheSpec Proofs.CacheThm.

Lemma witness_mono : forall {St} (step : call -> St -> clk -> res (ret * St * clk)) cf ls cf',
  exec step cf ls cf' -> mono (witness ls).
Proof.
  intros St step cf ls cf' He. induction He as [cf|cf l cf1 ls cf2 Hs He IH]; [constructor|].
  inversion Hs; subst; cbn [witness]; try exact IH; constructor; auto.
Qed.

Lemma wrun_grun : forall {St G} (step : call -> St -> clk -> res (ret * St * clk))
    (gupd : call -> St -> ret -> St -> G -> G) its w rs w' g,
  wrun step its w = Ok (rs, w') -> exists g', grun step gupd its w g = Ok (g', w').
Proof.
  intros St G step gupd. induction its as [|it its IH]; intros w rs w' g H; cbn in *.
  - inversion H; subst. eauto.
  - destruct (wstep step it w) as [x| |]; cbn [bind] in *; try discriminate.
    destruct (wrun step its (snd x)) as [[rs' w'']| |] eqn:E; cbn [bind] in H; try discriminate.
    inversion H; subst. cbn [snd] in *. eapply IH. exact E.
Qed.

(* every state that concurrent threads can drive an LRUCache into is a state of some
   sequential history, so all sequential theorems hold under concurrency; e.g. the bound: *)
Lemma conc_lru_reach : forall m t0 c0 ls cf,
  lru_init m = Ok c0 -> exec lru_step (init_conf c0 t0) ls cf ->
  exists g, lru_reach m t0 (witness ls) g (cf_obj cf, cf_now cf) /\ mono (witness ls).
Proof.
  intros m t0 c0 ls cf H0 He.
  destruct (linearizable lru_step c0 t0 ls cf He) as [rs [Hrs _]].
  destruct (wrun_grun lru_step lru_gupd _ _ _ _ lghost0 Hrs) as [g Hg].
  exists g. split; [exists c0; auto|]. eapply witness_mono; eauto.
Qed.

Lemma conc_lru_bound_l : forall m t0 c0 ls cf,
  lru_init m = Ok c0 -> exec lru_step (init_conf c0 t0) ls cf ->
  zlen (l_dict (cf_obj cf)) <= l_max (cf_obj cf).
Proof.
  intros m t0 c0 ls cf H0 He. destruct (conc_lru_reach _ _ _ _ _ H0 He) as [g [Hr Hm]].
  apply (lru_bound_l _ _ _ _ _ Hm Hr).
Qed.

(* no method body ever raises in a concurrent execution: a thread holding the lock can always
   complete its body *)
Lemma conc_lru_progress_l : forall m t0 c0 ls cf t c ds,
  lru_init m = Ok c0 -> exec lru_step (init_conf c0 t0) ls cf ->
  cf_ph cf t = Holding c -> cf_lock cf = Some t -> nonneg ds ->
  exists cf', cstep lru_step cf (LBody t c ds) cf'.
Proof.
  intros m t0 c0 ls cf t c ds H0 He Hph Hl Hn.
  destruct (conc_lru_reach _ _ _ _ _ H0 He) as [g [Hr Hm]].
  pose proof (reach_inv _ _ _ _ _ Hm Hr) as HI.
  destruct (linv_item (Call c ds) (cf_obj cf) (cf_now cf) g HI Hn) as [x [E _]].
  cbn [wstep fst snd] in E.
  destruct (lru_step c (cf_obj cf) (mkClk (cf_now cf) ds)) as [[[r s'] k']| |] eqn:Es; try discriminate.
  eexists. eapply S_body; eauto.
Qed.

(* under concurrency a lookup still returns exactly the ideal answer: the ideal map is that of
   the sequential witness of the execution so far *)
Lemma conc_lru_get_l : forall m t0 c0 ls cf t key ds cf',
  lru_init m = Ok c0 -> exec lru_step (init_conf c0 t0) ls cf ->
  cstep lru_step cf (LBody t (Get key) ds) cf' ->
  exists g r, lru_reach m t0 (witness ls) g (cf_obj cf, cf_now cf) /\
              cf_ph cf' t = Finished (Get key) r /\
              r = expected (fst g) key (cf_now cf').
Proof.
  intros m t0 c0 ls cf t key ds cf' H0 He Hs.
  destruct (conc_lru_reach _ _ _ _ _ H0 He) as [g [Hr Hm]].
  inversion Hs as [| |cf0 u c ds0 r s' k' Hph Hl Hds Hst| | |]; subst.
  exists g, r. split; [exact Hr|]. cbn [cf_ph cf_now]. split; [apply upd_same|].
  apply (lru_get_l m t0 (witness ls) g (cf_obj cf, cf_now cf) key ds r (s', now k') Hm Hr Hds).
  cbn [wstep fst snd]. rewrite Hst. reflexivity.
Qed.
