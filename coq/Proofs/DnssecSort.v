(* Python's sorted() (modelled as stable insertion sort) returns the unique sorted permutation. *)
From Coq Require Import Permutation Sorted.
From DV Require Import Base.Prelude Model.NameM Model.DnssecM Proofs.NameOrder Proofs.DnssecRef.
Open Scope Z_scope.

Section Generic.
  Context {A : Type} (lt : A -> A -> bool) (le : A -> A -> Prop).
  Hypothesis lt_le : forall x y, lt x y = true -> le x y.
  Hypothesis nlt_ge : forall x y, lt x y = false -> le y x.
  Hypothesis le_trans : forall x y z, le x y -> le y z -> le x z.

  Lemma ins_sorted_perm x : forall l, Permutation (x :: l) (ins_sorted lt x l).
  Proof.
    induction l as [|y r IH]; cbn; [reflexivity|].
    destruct (lt x y); [reflexivity|].
    rewrite perm_swap. now apply perm_skip.
  Qed.

  Lemma ins_sorted_sorted x : forall l, StronglySorted le l -> StronglySorted le (ins_sorted lt x l).
  Proof.
    induction l as [|y r IH]; intros Hs; cbn.
    - repeat constructor.
    - inversion Hs as [|? ? Hr Hy]; subst. destruct (lt x y) eqn:E.
      + constructor; [exact Hs|]. constructor; [now apply lt_le|].
        eapply Forall_impl; [|exact Hy]. intros z Hz. eapply le_trans; eauto.
      + constructor; [now apply IH|].
        eapply Permutation_Forall; [apply ins_sorted_perm|]. constructor; [now apply nlt_ge|exact Hy].
  Qed.

  Lemma py_sorted_acc : forall l acc,
    StronglySorted le acc ->
    Permutation (acc ++ l) (fold_left (fun a x => ins_sorted lt x a) l acc)
    /\ StronglySorted le (fold_left (fun a x => ins_sorted lt x a) l acc).
  Proof.
    induction l as [|x r IH]; intros acc Hs; cbn [fold_left].
    - rewrite app_nil_r. split; [reflexivity|exact Hs].
    - destruct (IH (ins_sorted lt x acc) (ins_sorted_sorted x acc Hs)) as [P S]. split; [|exact S].
      rewrite <- P. rewrite <- Permutation_middle.
      change (x :: acc ++ r) with ((x :: acc) ++ r). apply Permutation_app_tail. apply ins_sorted_perm.
  Qed.

  Lemma py_sorted_perm l : Permutation l (py_sorted lt l).
  Proof. exact (proj1 (py_sorted_acc l [] (SSorted_nil le))). Qed.
  Lemma py_sorted_sorted l : StronglySorted le (py_sorted lt l).
  Proof. exact (proj2 (py_sorted_acc l [] (SSorted_nil le))). Qed.

  (* uniqueness of the sorted permutation for an antisymmetric order *)
  Hypothesis le_antisym : forall x y, le x y -> le y x -> x = y.

  Lemma sorted_perm_unique : forall l1 l2,
    StronglySorted le l1 -> StronglySorted le l2 -> Permutation l1 l2 -> l1 = l2.
  Proof.
    induction l1 as [|x r IH]; intros l2 S1 S2 P.
    - apply Permutation_nil in P. now subst.
    - destruct l2 as [|y r2]; [apply Permutation_sym, Permutation_nil in P; discriminate|].
      inversion S1 as [|? ? Sr Hx]; subst. inversion S2 as [|? ? Sr2 Hy]; subst.
      assert (x = y).
      { assert (In x (y :: r2)) as [->|Hin] by (eapply Permutation_in; [exact P|now left]); [reflexivity|].
        assert (In y (x :: r)) as [->|Hin2] by (eapply Permutation_in; [symmetry; exact P|now left]); [reflexivity|].
        rewrite Forall_forall in Hx, Hy. apply le_antisym; auto. }
      subst y. f_equal. apply IH; auto. eapply Permutation_cons_inv; eauto.
  Qed.
End Generic.

(* ---------- octet strings (RFC 4034 6.3) ---------- *)
Lemma bytes_lt_le x y : bytes_lt x y = true -> bytes_le x y.
Proof. unfold bytes_lt, bytes_le. destruct (cmp_bytes x y); congruence. Qed.
Lemma bytes_nlt_ge x y : bytes_lt x y = false -> bytes_le y x.
Proof. unfold bytes_lt, bytes_le. rewrite (cmp_bytes_anti x y). destruct (cmp_bytes x y); cbn; congruence. Qed.
Lemma bytes_le_trans x y z : bytes_le x y -> bytes_le y z -> bytes_le x z.
Proof.
  unfold bytes_le. intros H1 H2.
  destruct (cmp_bytes x y) eqn:E1; [apply cmp_bytes_eq in E1; now subst| |congruence].
  destruct (cmp_bytes y z) eqn:E2; [apply cmp_bytes_eq in E2; subst; now rewrite E1| |congruence].
  now rewrite (cmp_bytes_trans _ _ _ E1 E2).
Qed.
Lemma bytes_le_antisym x y : bytes_le x y -> bytes_le y x -> x = y.
Proof.
  unfold bytes_le. rewrite (cmp_bytes_anti x y). intros H1 H2.
  destruct (cmp_bytes x y) eqn:E; [now apply cmp_bytes_eq|cbn in H2; congruence|congruence].
Qed.

(* sorted(rdatas) is the canonical order of RFC 4034 6.3 *)
Theorem sort_bytes_canonical l : is_canonical_order l (sort_bytes l).
Proof.
  split.
  - exact (py_sorted_perm bytes_lt bytes_le bytes_lt_le bytes_nlt_ge bytes_le_trans l).
  - exact (py_sorted_sorted bytes_lt bytes_le bytes_lt_le bytes_nlt_ge bytes_le_trans l).
Qed.

Theorem canonical_order_unique l s1 s2 :
  is_canonical_order l s1 -> is_canonical_order l s2 -> s1 = s2.
Proof.
  intros [P1 S1] [P2 S2]. apply (sorted_perm_unique bytes_le bytes_le_antisym); auto.
  now rewrite <- P1.
Qed.
