(* C01: Name.to_wire with a compression table is sound: what is written decodes (with the
   independent decoder from_wire) to the name that was written, and the table stays sound. *)
From DV Require Import Base.Prelude Model.NameM.
From DV Require Import Proofs.NameOrder Proofs.NameValid Proofs.NameRel Proofs.NameWire.
Open Scope Z_scope.

Ltac Zify.zify_post_hook ::= Z.to_euclidean_division_equations.

(* ------------------------------------------------------------------ *)
(* A fuel-free description of one decoding run:
     Dec msg cur biggest labels hi
   reading at offset cur with pointer bound `biggest` yields `labels`; hi is the furthest
   offset read (exclusive).  It is related to the executable decoder by Dec_fw_go /
   Dec_from_wire below. *)

Inductive Dec (msg : list Z) : nat -> nat -> list label -> nat -> Prop :=
| Dec_root cur b :
    nth_error msg cur = Some 0 -> Dec msg cur b [[]] (cur + 1)
| Dec_label cur b count l ls hi :
    nth_error msg cur = Some count -> 0 < count < 64 ->
    (cur + 1 + Z.to_nat count <= length msg)%nat ->
    l = firstn (Z.to_nat count) (skipn (cur + 1) msg) ->
    Dec msg (cur + 1 + Z.to_nat count) b ls hi ->
    Dec msg cur b (l :: ls) (Nat.max (cur + 1 + Z.to_nat count) hi)
| Dec_ptr cur b hi8 lo c ls h :
    nth_error msg cur = Some hi8 -> 192 <= hi8 ->
    nth_error msg (cur + 1) = Some lo ->
    c = Z.to_nat ((hi8 - 192) * 256 + lo) -> (c < b)%nat ->
    Dec msg c c ls h ->
    Dec msg cur b ls (Nat.max (cur + 2) h).

Lemma nth_error_lt {A} (l : list A) i x : nth_error l i = Some x -> (i < length l)%nat.
Proof. intros H. apply nth_error_Some. congruence. Qed.

Lemma Dec_bounds msg cur b ls h : Dec msg cur b ls h -> (cur < length msg)%nat /\ (h <= length msg)%nat /\ (cur < h)%nat.
Proof.
  induction 1 as [cur b H|cur b count l ls hi H Hc Hl El D IH|cur b hi8 lo c ls h H H8 Hlo Ec Hcb D IH].
  - apply nth_error_lt in H. lia.
  - apply nth_error_lt in H. lia.
  - apply nth_error_lt in H. apply nth_error_lt in Hlo. lia.
Qed.

Lemma Dec_weaken msg cur b b' ls h : Dec msg cur b ls h -> (b <= b')%nat -> Dec msg cur b' ls h.
Proof.
  intros D. revert b'. induction D; intros b' Hb.
  - constructor; assumption.
  - econstructor; eauto.
  - econstructor; eauto. lia.
Qed.

Lemma Dec_app msg ext cur b ls h : Dec msg cur b ls h -> Dec (msg ++ ext) cur b ls h.
Proof.
  induction 1 as [cur b H|cur b count l ls hi H Hc Hl El D IH|cur b hi8 lo c ls h H H8 Hlo Ec Hcb D IH].
  - constructor. rewrite nth_error_app1; [exact H|eapply nth_error_lt; eauto].
  - econstructor; eauto.
    + rewrite nth_error_app1; [exact H|eapply nth_error_lt; eauto].
    + rewrite app_length. lia.
    + subst l. rewrite skipn_app, firstn_app.
      replace (Z.to_nat count - length (skipn (cur + 1) msg))%nat with 0%nat
        by (rewrite skipn_length; lia).
      cbn [firstn]. rewrite app_nil_r. reflexivity.
  - econstructor; eauto.
    + rewrite nth_error_app1; [exact H|eapply nth_error_lt; eauto].
    + rewrite nth_error_app1; [exact Hlo|eapply nth_error_lt; eauto].
Qed.

(* ---------- Dec against the executable decoder ---------- *)

Lemma skipn_nth_error {A} : forall (l : list A) i x, nth_error l i = Some x ->
  exists r, skipn i l = x :: r.
Proof.
  induction l as [|y l IH]; intros i x H; destruct i; cbn in *; try discriminate.
  - inversion H; subst. eauto.
  - apply IH. exact H.
Qed.

Lemma get_u8_nth msg p x : nth_error msg (cur p) = Some x ->
  get_u8 msg p = Ok (x, {| cur := cur p + 1; furthest := Nat.max (furthest p) (cur p + 1) |}).
Proof.
  intros H. pose proof (nth_error_lt _ _ _ H) as L.
  unfold get_u8, get_bytes.
  destruct (Nat.ltb_spec (length msg - cur p) 1); [lia|].
  destruct (skipn_nth_error _ _ _ H) as [r ->]. reflexivity.
Qed.

Lemma get_bytes_ok msg p n : (cur p + n <= length msg)%nat ->
  get_bytes msg p n = Ok (firstn n (skipn (cur p) msg),
                          {| cur := cur p + n; furthest := Nat.max (furthest p) (cur p + n) |}).
Proof. intros H. unfold get_bytes. destruct (Nat.ltb_spec (length msg - cur p) n); [lia|reflexivity]. Qed.

Lemma Dec_fw_go msg cur0 b ls h : Dec msg cur0 b ls h ->
  exists f, forall fur acc, exists pc,
    fw_go msg f {| cur := cur0; furthest := fur |} b acc =
      Ok (rev acc ++ ls, {| cur := pc; furthest := Nat.max fur h |}).
Proof.
  induction 1 as [cur0 b H|cur0 b count l ls hi H Hc Hl El D IH|cur0 b hi8 lo c ls h H H8 Hlo Ec Hcb D IH].
  - exists 1%nat. intros fur acc. cbn [fw_go].
    rewrite (get_u8_nth msg {| cur := cur0; furthest := fur |} 0 H). cbn [Z.eqb NameM.cur NameM.furthest].
    eexists. cbn [rev]. reflexivity.
  - destruct IH as [f IH]. exists (S f). intros fur acc. cbn [fw_go].
    rewrite (get_u8_nth msg {| cur := cur0; furthest := fur |} count H). cbn [NameM.cur NameM.furthest].
    replace (count =? 0) with false by lia. replace (count <? 64) with true by lia.
    rewrite get_bytes_ok by (cbn [NameM.cur]; lia). cbn [NameM.cur NameM.furthest].
    rewrite <- El.
    destruct (IH (Nat.max (Nat.max fur (cur0 + 1)) (cur0 + 1 + Z.to_nat count)) (l :: acc)) as [pc E].
    exists pc. rewrite E. cbn [rev]. rewrite <- app_assoc. cbn [app].
    f_equal. f_equal. f_equal. lia.
  - destruct IH as [f IH]. exists (S f). intros fur acc. cbn [fw_go].
    rewrite (get_u8_nth msg {| cur := cur0; furthest := fur |} hi8 H). cbn [NameM.cur NameM.furthest].
    replace (hi8 =? 0) with false by lia. replace (hi8 <? 64) with false by lia.
    replace (192 <=? hi8) with true by lia.
    rewrite (get_u8_nth msg {| cur := cur0 + 1; furthest := Nat.max fur (cur0 + 1) |} lo Hlo).
    cbn [NameM.cur NameM.furthest]. rewrite <- Ec.
    destruct (Nat.leb_spec b c); [lia|].
    pose proof (Dec_bounds _ _ _ _ _ D) as (Bc & _).
    destruct (Nat.ltb_spec (length msg) c); [lia|].
    destruct (IH (Nat.max (Nat.max fur (cur0 + 1)) (cur0 + 1 + 1)) acc) as [pc E].
    exists pc. rewrite E. f_equal. f_equal. f_equal. lia.
Qed.

Theorem Dec_from_wire msg off ls h :
  Dec msg off off ls h -> Valid ls -> from_wire msg off = Ok (ls, (h - off)%nat).
Proof.
  intros D V. pose proof (Dec_bounds _ _ _ _ _ D) as (B1 & B2 & B3).
  unfold from_wire. destruct (Nat.ltb_spec (length msg) off); [lia|].
  destruct (Dec_fw_go _ _ _ _ _ D) as [f F]. destruct (F off []) as [pc E].
  assert (fw_go msg (fw_fuel msg off) {| cur := off; furthest := off |} off [] =
          Ok (ls, {| cur := pc; furthest := Nat.max off h |})) as ->.
  { eapply fw_go_fuel_indep; [reflexivity|exact E| |discriminate].
    intros e. apply fw_go_enough; [cbn [cur]; lia|apply fw_fuel_enough; lia]. }
  cbn [bind]. rewrite (mk_name_valid _ V). cbn [bind furthest]. f_equal. f_equal. lia.
Qed.

(* ------------------------------------------------------------------ *)
(* The compression table                                               *)

Lemma tbl_get_some : forall t n v, tbl_get t n = Some v -> exists k, In (k, v) t /\ name_eqb k n = true.
Proof.
  induction t as [|[k w] t IH]; intros n v H; [discriminate|].
  cbn [tbl_get] in H. destruct (name_eqb k n) eqn:E.
  - inversion H; subst. exists k. split; [left; reflexivity|exact E].
  - apply IH in H. destruct H as (k' & I & E'). exists k'. split; [right; exact I|exact E'].
Qed.

Lemma tbl_get_app_longer : forall t pend n,
  (forall k v, In (k, v) pend -> (length n < length k)%nat) ->
  tbl_get (t ++ pend) n = tbl_get t n.
Proof.
  induction t as [|[k w] t IH]; intros pend n H.
  - cbn [app]. induction pend as [|[k w] pend IHp]; [reflexivity|].
    cbn [tbl_get]. destruct (name_eqb k n) eqn:E.
    + exfalso. apply name_eqb_iff_ci, ci_equal_length in E.
      specialize (H k w (or_introl eq_refl)). lia.
    + apply IHp. intros k' v' I. apply (H k' v'). right. exact I.
  - cbn [app tbl_get]. destruct (name_eqb k n); [reflexivity|]. apply IH. exact H.
Qed.

Lemma u16_pointer pos : 0 <= pos <= 16383 ->
  exists hi8 lo, u16 (49152 + pos) = [hi8; lo] /\ 192 <= hi8 /\ (hi8 - 192) * 256 + lo = pos.
Proof. intros H. unfold u16. eexists _, _. split; [reflexivity|]. split; lia. Qed.

Lemma nth_error_app_len {A} (a : list A) x r : nth_error (a ++ x :: r) (length a) = Some x.
Proof. rewrite nth_error_app2 by lia. rewrite Nat.sub_diag. reflexivity. Qed.

Lemma nth_error_app_len1 {A} (a : list A) x y r : nth_error (a ++ x :: y :: r) (length a + 1) = Some y.
Proof. rewrite nth_error_app2 by lia. replace (length a + 1 - length a)%nat with 1%nat by lia. reflexivity. Qed.

Section Sound.
  Variable canon : bool.
  (* relation between a decoded name and the name it stands for: ci_equal in general,
     equality when nothing can change the case of an octet *)
  Variable RN : name -> name -> Prop.
  Definition emit (l : label) : label := if canon then lower_l l else l.
  Hypothesis RN_root : RN [[]] [[]].
  Hypothesis RN_cons : forall l ls r, RN ls r -> RN (emit l :: ls) (l :: r).
  Hypothesis RN_trans : forall a b c, RN a b -> RN b c -> RN a c.

  Definition TableSoundR (file : list Z) (t : ctable) : Prop :=
    forall k v, In (k, v) t ->
      0 <= v <= 16383 /\
      exists ls h, Dec file (Z.to_nat v) (Z.to_nat v) ls h /\ RN ls k.

  Definition entry_ok (file' : list Z) (b : nat) (kv : name * Z) : Prop :=
    0 <= snd kv <= 16383 /\ (b <= Z.to_nat (snd kv))%nat /\
    exists ls h, Dec file' (Z.to_nat (snd kv)) (Z.to_nat (snd kv)) ls h /\ RN ls (fst kv).

  Lemma emit_length l : length (emit l) = length l.
  Proof. unfold emit. destruct canon; [apply map_length|reflexivity]. Qed.

  (* the suffix loop of Name.to_wire.  `t` is the sound part of the table, `pend` the entries
     added for the longer suffixes of the name being written (never hit: their keys are longer
     than every suffix still to come); b bounds the offsets of t. *)
  Lemma tw_loop_sound : forall labels file t pend b file' t',
    tw_loop labels canon file (t ++ pend) = (file', t') ->
    TableSoundR file t ->
    (forall k v, In (k, v) t -> forall p s, labels = p ++ s -> name_eqb k s = true -> RN k s) ->
    (forall k v, In (k, v) t -> (Z.to_nat v < b)%nat) -> (b <= length file)%nat ->
    (forall k v, In (k, v) pend -> (length labels < length k)%nat) ->
    Valid labels -> is_absolute labels = true ->
    exists em new ls,
      file' = file ++ em /\ t' = (t ++ pend) ++ new /\
      Dec file' (length file) b ls (length file') /\ RN ls labels /\
      Forall (entry_ok file' b) new.
  Proof.
    induction labels as [|l r IH]; intros file t pend b file' t' H TS Hit Hb Hbf Hp V A; [discriminate|].
    cbn [tw_loop] in H.
    rewrite tbl_get_app_longer in H by exact Hp.
    destruct (tbl_get t (l :: r)) as [pos|] eqn:G.
    - (* a table hit: emit a pointer *)
      inversion H; subst file' t'. clear H.
      apply tbl_get_some in G. destruct G as (k & I & E).
      destruct (TS k pos I) as (Hpos & ls & h & D & R).
      destruct (u16_pointer pos Hpos) as (hi8 & lo & -> & H8 & Hc).
      exists [hi8; lo], [], ls. split; [reflexivity|]. split; [rewrite app_nil_r; reflexivity|].
      pose proof (Dec_bounds _ _ _ _ _ D) as (B1 & B2 & B3).
      split; [|split; [|constructor]].
      + replace (length (file ++ [hi8; lo])) with (Nat.max (length file + 2) h)
          by (rewrite app_length; cbn [length]; lia).
        eapply (Dec_ptr _ (length file) b hi8 lo (Z.to_nat pos)).
        * apply nth_error_app_len.
        * exact H8.
        * apply nth_error_app_len1.
        * rewrite Hc. reflexivity.
        * apply (Hb k pos I).
        * apply Dec_app. exact D.
      + eapply RN_trans; [exact R|]. apply (Hit k pos I [] (l :: r)); [reflexivity|exact E].
    - (* no hit: maybe remember the offset, emit the label, go on with the rest *)
      destruct r as [|y r'].
      + (* the last label of an absolute name is the root label *)
        assert (l = []) as -> by (cbn in A; destruct l; [reflexivity|discriminate]).
        cbn [tw_loop] in H. change (zlen [[]]) with 1 in H. cbn [Z.ltb Z.compare Pos.compare andb] in H.
        change (zlen (@nil Z)) with 0 in H.
        assert ((if canon then lower_l [] else []) = @nil Z) as Enil by (destruct canon; reflexivity).
        rewrite Enil in H. inversion H; subst file' t'. clear H.
        exists [0], [], [[]]. split; [reflexivity|]. split; [rewrite app_nil_r; reflexivity|].
        split; [|split; [exact RN_root|constructor]].
        replace (length (file ++ [0])) with (length file + 1)%nat by (rewrite app_length; reflexivity).
        constructor. apply nth_error_app_len.
      + set (labels := l :: y :: r') in *.
        set (pend1 := if (1 <? zlen labels) && (zlen file <=? 16383)
                      then pend ++ [(labels, zlen file)] else pend).
        assert (tw_loop (y :: r') canon (file ++ zlen l :: emit l) (t ++ pend1) = (file', t')) as H'.
        { unfold pend1, emit. revert H.
          destruct ((1 <? zlen labels) && (zlen file <=? 16383)); intros H; [rewrite app_assoc|]; exact H. }
        clear H. rename H' into H.
        assert (l <> []) as Hl by (eapply Valid_head_nonempty; exact V).
        assert (zlen l <= 63) as Hl63 by (destruct V as (V1 & _); inversion V1; assumption).
        assert (0 < zlen l) as Hlpos by (unfold zlen; destruct l; [congruence|cbn; lia]).
        assert (Valid (y :: r')) as Vr by (eapply Valid_tl; exact V).
        specialize (IH (file ++ zlen l :: emit l) t pend1 b file' t' H).
        destruct IH as (em1 & new1 & ls_r & Ef & Et' & D & R & Fnew).
        * (* the table is still sound on the longer file *)
          intros k v I. destruct (TS k v I) as (Hv & ls0 & h0 & D0 & R0).
          split; [exact Hv|]. exists ls0, h0. split; [apply Dec_app; exact D0|exact R0].
        * intros k v I p s Es. apply (Hit k v I (l :: p) s). unfold labels. rewrite Es. reflexivity.
        * exact Hb.
        * rewrite app_length. lia.
        * intros k v I. unfold pend1 in I. destruct (_ && _).
          -- apply in_app_or in I. destruct I as [I|[I|[]]].
             ++ specialize (Hp k v I). unfold labels in Hp. cbn [length] in *. lia.
             ++ inversion I; subst. unfold labels. cbn [length]. lia.
          -- specialize (Hp k v I). unfold labels in Hp. cbn [length] in *. lia.
        * exact Vr.
        * exact A.
        * (* assemble *)
          assert (length (file ++ zlen l :: emit l) = (length file + 1 + Z.to_nat (zlen l))%nat) as Lf1.
          { rewrite app_length. cbn [length]. rewrite emit_length. unfold zlen. lia. }
          rewrite Lf1 in D.
          assert (Dec file' (length file) b (emit l :: ls_r) (length file')) as Dall.
          { pose proof (Dec_bounds _ _ _ _ _ D) as (_ & _ & B3).
            assert (Dec file' (length file) b (emit l :: ls_r)
                        (Nat.max (length file + 1 + Z.to_nat (zlen l)) (length file'))) as Dm;
              [|replace (Nat.max (length file + 1 + Z.to_nat (zlen l)) (length file')) with (length file') in Dm by lia;
                exact Dm].
            eapply (Dec_label _ (length file) b (zlen l)); try exact D; try lia.
            - rewrite Ef, <- app_assoc. cbn [app]. apply nth_error_app_len.
            - rewrite Ef, <- app_assoc. cbn [app].
              replace (length file + 1)%nat with (length (file ++ [zlen l])) by (rewrite app_length; reflexivity).
              replace (file ++ zlen l :: emit l ++ em1) with ((file ++ [zlen l]) ++ emit l ++ em1)
                by (rewrite <- app_assoc; reflexivity).
              rewrite skipn_app_len.
              replace (Z.to_nat (zlen l)) with (length (emit l)) by (rewrite emit_length; unfold zlen; lia).
              rewrite firstn_app_len. reflexivity. }
          assert (RN (emit l :: ls_r) labels) as Rall by (apply RN_cons; exact R).
          exists (zlen l :: emit l ++ em1).
          exists ((if (1 <? zlen labels) && (zlen file <=? 16383) then [(labels, zlen file)] else []) ++ new1).
          exists (emit l :: ls_r).
          split; [rewrite Ef, <- app_assoc; reflexivity|].
          split.
          { rewrite Et'. unfold pend1. destruct (_ && _).
            - rewrite <- !app_assoc. reflexivity.
            - reflexivity. }
          split; [exact Dall|]. split; [exact Rall|].
          apply Forall_app. split; [|exact Fnew].
          destruct ((1 <? zlen labels) && (zlen file <=? 16383)) eqn:C; [|constructor].
          constructor; [|constructor].
          apply andb_true_iff in C. destruct C as [_ C].
          unfold entry_ok. cbn [fst snd].
          assert (Z.to_nat (zlen file) = length file) as Zf by (unfold zlen; lia).
          rewrite Zf. split; [pose proof (zlen_nonneg file); lia|]. split; [exact Hbf|].
          exists (emit l :: ls_r), (length file'). split; [|exact Rall].
          eapply Dec_weaken; [exact Dall|exact Hbf].
  Qed.

  Hypothesis RN_valid : forall ls labels, RN ls labels -> Valid labels -> Valid ls.

  (* lookups that hit return an entry standing for the looked-up suffix (always true for
     ci_equal; the "no case alias" hypothesis for byte-identity) *)
  Definition HitOK (t : ctable) (labels : name) : Prop :=
    forall k v, In (k, v) t -> forall p s, labels = p ++ s -> name_eqb k s = true -> RN k s.

  Lemma tw_loop_top labels file t file' t' :
    TableSoundR file t -> HitOK t labels -> Valid labels -> is_absolute labels = true ->
    tw_loop labels canon file t = (file', t') ->
    exists em n',
      file' = file ++ em /\ TableSoundR file' t' /\
      from_wire file' (length file) = Ok (n', length em) /\ RN n' labels /\
      (exists new, t' = t ++ new /\ Forall (fun kv => 0 <= snd kv <= 16383) new).
  Proof.
    intros TS Hit V A L.
    rewrite <- (app_nil_r t) in L.
    destruct (tw_loop_sound labels file t [] (length file) file' t' L TS Hit) as
        (em & new & ls & Ef & Et & D & R & Fnew); auto.
    - intros k v I. destruct (TS k v I) as (_ & ls0 & h0 & D0 & _).
      apply Dec_bounds in D0. lia.
    - intros k v [].
    - rewrite app_nil_r in Et. exists em, ls. split; [exact Ef|]. split.
      + intros k v I. rewrite Et in I. apply in_app_or in I. destruct I as [I|I].
        * destruct (TS k v I) as (Hv & ls0 & h0 & D0 & R0). split; [exact Hv|].
          exists ls0, h0. split; [rewrite Ef; apply Dec_app; exact D0|exact R0].
        * rewrite Forall_forall in Fnew. destruct (Fnew _ I) as (Hv & _ & ls0 & h0 & D0 & R0).
          split; [exact Hv|]. exists ls0, h0. auto.
      + split; [|split; [exact R|]].
        * rewrite (Dec_from_wire file' (length file) ls (length file') D (RN_valid _ _ R V)).
          f_equal. f_equal. rewrite Ef, app_length. lia.
        * exists new. split; [exact Et|].
          eapply Forall_impl; [|exact Fnew]. intros kv (Hv & _). exact Hv.
  Qed.
End Sound.

(* the labels Name.to_wire writes: the name itself, or the name made absolute with the origin *)
Definition full_name (n : name) (origin : option name) : res name :=
  if is_absolute n then Ok n
  else match origin with
       | Some o => if is_absolute o then mk_name (n ++ o) else Lib eNeedAbsolute
       | None => Lib eNeedAbsolute
       end.

Lemma to_wire_compress_unfold n origin canon file t :
  to_wire_compress n origin canon file t =
    do labels <- full_name n origin; Ok (tw_loop labels canon file t).
Proof.
  unfold to_wire_compress, full_name. destruct (is_absolute n); [reflexivity|].
  destruct origin as [o|]; [|reflexivity]. destruct (is_absolute o); reflexivity.
Qed.

Lemma full_name_valid n origin labels :
  Valid n -> full_name n origin = Ok labels -> Valid labels /\ is_absolute labels = true.
Proof.
  intros V. unfold full_name. destruct (is_absolute n) eqn:A.
  - intros H; inversion H; subst. auto.
  - destruct origin as [o|]; [|discriminate]. destruct (is_absolute o) eqn:Ao; [|discriminate].
    intros H. apply mk_name_ok in H. destruct H as [-> V']. split; [exact V'|].
    destruct o as [|x o]; [discriminate|]. rewrite is_absolute_app. exact Ao.
Qed.

(* ---------- instance 1: case-insensitive soundness (always) ---------- *)

Definition TableSound := TableSoundR ci_equal.

Lemma ci_RN_cons canon l ls r : ci_equal ls r -> ci_equal (emit canon l :: ls) (l :: r).
Proof.
  unfold ci_equal, emit. intros H. cbn [map]. f_equal; [|exact H].
  destruct canon; [|reflexivity]. unfold lower_l. rewrite map_map. apply map_ext. apply lower_idem.
Qed.

Theorem compress_sound n origin canon file t file' t' labels :
  TableSound file t -> Valid n -> full_name n origin = Ok labels ->
  to_wire_compress n origin canon file t = Ok (file', t') ->
  exists em n',
    file' = file ++ em /\ TableSound file' t' /\
    from_wire file' (length file) = Ok (n', length em) /\ ci_equal n' labels /\
    (exists new, t' = t ++ new /\ Forall (fun kv => 0 <= snd kv <= 16383) new).
Proof.
  intros TS V F H. rewrite to_wire_compress_unfold, F in H. cbn [bind] in H. inversion H as [L].
  destruct (full_name_valid _ _ _ V F) as [Vl Al].
  apply (tw_loop_top canon ci_equal) with (labels := labels) (t := t); auto.
  - reflexivity.
  - apply ci_RN_cons.
  - intros a b c H1 H2. unfold ci_equal in *. congruence.
  - intros ls lb R Vb. eapply Valid_ci; [symmetry; exact R|exact Vb].
  - intros k v I p s E Eq. apply name_eqb_iff_ci. exact Eq.
Qed.

(* ---------- instance 2: byte-identical without case aliases ---------- *)

(* every table entry decodes to exactly its key *)
Definition TableExact := TableSoundR (@eq name).

(* no key of the table is a case variant of a suffix of the name being written *)
Definition NoCaseAlias (t : ctable) (labels : name) : Prop :=
  forall k v, In (k, v) t -> forall p s, labels = p ++ s -> ci_equal k s -> k = s.

Theorem compress_exact n origin file t file' t' labels :
  TableExact file t -> Valid n -> full_name n origin = Ok labels -> NoCaseAlias t labels ->
  to_wire_compress n origin false file t = Ok (file', t') ->
  exists em,
    file' = file ++ em /\ TableExact file' t' /\
    from_wire file' (length file) = Ok (labels, length em).
Proof.
  intros TS V F NA H. rewrite to_wire_compress_unfold, F in H. cbn [bind] in H. inversion H as [L].
  destruct (full_name_valid _ _ _ V F) as [Vl Al].
  destruct (tw_loop_top false (@eq name)) with (labels := labels) (t := t) (file := file) (file' := file') (t' := t')
    as (em & n' & Ef & TS' & FW & R & _); auto.
  - intros l ls r ->. reflexivity.
  - intros a b c -> ->. reflexivity.
  - intros ls lb -> Vb. exact Vb.
  - intros k v I p s E Eq. apply (NA k v I p s E). apply name_eqb_iff_ci. exact Eq.
  - subst n'. exists em. auto.
Qed.

(* the empty table is sound, so the first name of a message always satisfies the premises *)
Lemma TableSound_nil file : TableSound file [] /\ TableExact file [].
Proof. split; intros k v []. Qed.

(* ------------------------------------------------------------------ *)
(* Dec is exactly what the executable decoder computes (converse of Dec_fw_go), so table
   soundness can be stated with from_wire itself.                        *)

Lemma fw_go_Dec msg : Forall (fun c => 0 <= c) msg -> forall f p b acc ls p',
  fw_go msg f p b acc = Ok (ls, p') ->
  exists ls0 h, ls = rev acc ++ ls0 /\ Dec msg (cur p) b ls0 h /\
                furthest p' = Nat.max (furthest p) h.
Proof.
  intros NN. induction f as [|f IH]; intros p b acc ls p' H; [discriminate|].
  cbn [fw_go] in H.
  destruct (get_u8 msg p) as [[count p1]|e1|e1] eqn:E1; try discriminate.
  apply get_u8_inv in E1. destruct E1 as (B1 & N1 & ->).
  assert (0 <= count) as Hc0 by (rewrite Forall_forall in NN; apply NN; eapply nth_error_In; eauto).
  destruct (count =? 0) eqn:C0.
  { apply Z.eqb_eq in C0. subst count. inversion H; subst.
    exists [[]], (cur p + 1)%nat. cbn [rev furthest]. split; [reflexivity|]. split; [constructor; exact N1|reflexivity]. }
  destruct (count <? 64) eqn:C64.
  - destruct (get_bytes msg _ (Z.to_nat count)) as [[l p2]|e2|e2] eqn:E2; try discriminate.
    apply get_bytes_inv in E2. cbn [cur furthest] in E2. destruct E2 as (B2 & -> & ->).
    apply IH in H. cbn [cur furthest] in H. destruct H as (ls0 & h & -> & D & F).
    exists (firstn (Z.to_nat count) (skipn (cur p + 1) msg) :: ls0), (Nat.max (cur p + 1 + Z.to_nat count) h).
    split; [cbn [rev]; rewrite <- app_assoc; reflexivity|]. split.
    + eapply Dec_label; eauto; lia.
    + rewrite F. lia.
  - destruct (192 <=? count) eqn:C192; try discriminate.
    destruct (get_u8 msg _) as [[lo p2]|e2|e2] eqn:E2; try discriminate.
    apply get_u8_inv in E2. cbn [cur furthest] in E2. destruct E2 as (B2 & N2 & ->).
    destruct (Nat.leb_spec b (Z.to_nat ((count - 192) * 256 + lo))); try discriminate.
    destruct (Nat.ltb_spec (length msg) (Z.to_nat ((count - 192) * 256 + lo))); try discriminate.
    apply IH in H. cbn [cur furthest] in H. destruct H as (ls0 & h & -> & D & F).
    exists ls0, (Nat.max (cur p + 2) h). split; [reflexivity|]. split.
    + eapply Dec_ptr; eauto; lia.
    + rewrite F. lia.
Qed.

Theorem from_wire_Dec msg off n c : Forall (fun c => 0 <= c) msg ->
  from_wire msg off = Ok (n, c) -> exists h, Dec msg off off n h /\ c = (h - off)%nat /\ Valid n.
Proof.
  intros NN. unfold from_wire. destruct (Nat.ltb _ _); [discriminate|].
  destruct (fw_go msg _ _ _ _) as [[ls p]| |] eqn:E; try discriminate.
  unfold bind. destruct (mk_name ls) as [m| |] eqn:M; try discriminate.
  intros H; inversion H; subst. apply mk_name_ok in M. destruct M as [-> V].
  apply fw_go_Dec in E; [|exact NN]. cbn [cur furthest rev app] in E. destruct E as (ls0 & h & -> & D & F).
  exists h. split; [exact D|]. split; [|exact V].
  rewrite F. apply Dec_bounds in D. lia.
Qed.

(* table soundness in terms of the decoder: every offset is at most 0x3FFF and decoding there
   yields a name equal (ASCII-case-insensitively) to the key *)
Definition TableSoundW (file : list Z) (t : ctable) : Prop :=
  forall k v, In (k, v) t ->
    0 <= v <= 16383 /\ exists n c, from_wire file (Z.to_nat v) = Ok (n, c) /\ ci_equal n k.

Lemma TableSound_to_W file t :
  (forall k v, In (k, v) t -> Valid k) -> TableSound file t -> TableSoundW file t.
Proof.
  intros VK TS k v I. destruct (TS k v I) as (Hv & ls & h & D & R). split; [exact Hv|].
  exists ls, (h - Z.to_nat v)%nat. split; [|exact R].
  apply Dec_from_wire; [exact D|]. eapply Valid_ci; [symmetry; exact R|apply (VK k v I)].
Qed.

Lemma TableSoundW_to file t : Forall (fun c => 0 <= c) file -> TableSoundW file t -> TableSound file t.
Proof.
  intros NN TS k v I. destruct (TS k v I) as (Hv & n & c & F & R). split; [exact Hv|].
  apply from_wire_Dec in F; [|exact NN]. destruct F as (h & D & _ & _). eauto.
Qed.

(* the theorem in decoder terms (octets of the message so far are non-negative, as bytes are) *)
Theorem compress_sound_W n origin canon file t file' t' labels :
  Forall (fun c => 0 <= c) file ->
  (forall k v, In (k, v) t -> Valid k) ->
  TableSoundW file t -> Valid n -> full_name n origin = Ok labels ->
  to_wire_compress n origin canon file t = Ok (file', t') ->
  exists em n',
    file' = file ++ em /\ TableSoundW file' t' /\ (forall k v, In (k, v) t' -> Valid k) /\
    from_wire file' (length file) = Ok (n', length em) /\ ci_equal n' labels /\
    (exists new, t' = t ++ new /\ Forall (fun kv => 0 <= snd kv <= 16383) new).
Proof.
  intros NN VK TS V F H.
  assert (forall k v, In (k, v) t' -> Valid k) as VK'.
  { (* keys added are suffixes of the (valid) labels *)
    pose proof H as H0.
    rewrite to_wire_compress_unfold, F in H0. cbn [bind] in H0. inversion H0 as [L].
    destruct (full_name_valid _ _ _ V F) as [Vl _].
    clear -VK Vl L. revert file t VK L. induction labels as [|l r IH]; intros file t VK L.
    - cbn in L. inversion L; subst. exact VK.
    - cbn [tw_loop] in L. destruct (tbl_get t (l :: r)); [inversion L; subst; exact VK|].
      eapply IH; [eapply Valid_tl; exact Vl| |exact L].
      intros k v I. destruct (_ && _); [|eapply VK; exact I].
      apply in_app_or in I. destruct I as [I|[I|[]]]; [eapply VK; exact I|].
      inversion I; subst. exact Vl. }
  apply TableSoundW_to in TS; [|exact NN].
  destruct (compress_sound n origin canon file t file' t' labels TS V F H) as (em & n' & Ef & TS' & FW & R & N).
  exists em, n'. split; [exact Ef|]. split; [apply TableSound_to_W; assumption|]. auto.
Qed.

(* ------------------------------------------------------------------ *)
(* Name.to_wire without a file: the encoding of the name made absolute with the origin, never
   longer than 255 octets, and it decodes to exactly those labels.       *)

Lemma Valid_relative_nonempty (n : name) : Valid n -> is_absolute n = false -> Forall (fun l => l <> []) n.
Proof.
  intros (_ & _ & V3) A. destruct n as [|l n] using rev_ind; [constructor|].
  rewrite removelast_last in V3. apply Forall_app. split; [exact V3|].
  rewrite is_absolute_last in A. constructor; [|constructor]. destruct l; [discriminate|discriminate].
Qed.

Lemma Valid_app_abs (n o : name) :
  Valid n -> Valid o -> is_absolute n = false -> is_absolute o = true ->
  wire_length n + wire_length o <= 255 -> Valid (n ++ o).
Proof.
  intros Vn Vo An Ao L. pose proof (Valid_relative_nonempty n Vn An) as NE.
  destruct Vn as (N1 & _ & _). destruct Vo as (O1 & _ & O3).
  repeat split.
  - apply Forall_app. split; assumption.
  - rewrite wire_length_app. exact L.
  - destruct o as [|x o]; [discriminate|]. rewrite removelast_app_cons. apply Forall_app. split; assumption.
Qed.

Theorem to_wire_spec n origin canon w :
  Valid n -> (forall o, origin = Some o -> Valid o) ->
  to_wire n origin canon = Ok w ->
  exists labels, full_name n origin = Ok labels /\ w = wire_labels canon labels /\
                 Z.of_nat (length w) <= 255.
Proof.
  intros Vn Vo. unfold to_wire, full_name. destruct (is_absolute n) eqn:An.
  - intros H; inversion H; subst. exists n. split; [reflexivity|]. split; [reflexivity|].
    rewrite wire_labels_length. destruct Vn as (_ & L & _). exact L.
  - destruct origin as [o|]; [|discriminate]. destruct (is_absolute o) eqn:Ao; [|discriminate].
    destruct (wire_length n + wire_length o >? 255) eqn:L; [discriminate|].
    intros H; inversion H; subst. exists (n ++ o).
    assert (Valid (n ++ o)) as V by (apply Valid_app_abs; auto; lia).
    split; [apply mk_name_valid, V|]. split; [rewrite wire_labels_app; reflexivity|].
    rewrite <- wire_labels_app, wire_labels_length. destruct V as (_ & L' & _). exact L'.
Qed.

Theorem to_wire_roundtrip n origin w pre post :
  Valid n -> (forall o, origin = Some o -> Valid o) ->
  to_wire n origin false = Ok w ->
  exists labels, full_name n origin = Ok labels /\
    from_wire (pre ++ w ++ post) (length pre) = Ok (labels, length w).
Proof.
  intros Vn Vo H. destruct (to_wire_spec _ _ _ _ Vn Vo H) as (labels & F & -> & _).
  exists labels. split; [exact F|].
  destruct (full_name_valid _ _ _ Vn F) as [Vl Al].
  apply (wire_roundtrip labels pre post Vl Al).
Qed.

(* ------------------------------------------------------------------ *)
(* A whole sequence of names written through one table (as a message renderer does): the
   invariant composes, and every name stays decodable in the final message.            *)

Lemma compress_sound_dec n origin canon file t file' t' labels :
  TableSound file t -> Valid n -> full_name n origin = Ok labels ->
  to_wire_compress n origin canon file t = Ok (file', t') ->
  exists em ls,
    file' = file ++ em /\ TableSound file' t' /\
    Dec file' (length file) (length file) ls (length file') /\ ci_equal ls labels.
Proof.
  intros TS V F H. rewrite to_wire_compress_unfold, F in H. cbn [bind] in H. inversion H as [L].
  destruct (full_name_valid _ _ _ V F) as [Vl Al].
  rewrite <- (app_nil_r t) in L.
  destruct (tw_loop_sound canon ci_equal) with (labels := labels) (file := file) (t := t) (pend := @nil (name * Z))
       (b := length file) (file' := file') (t' := t')
    as (em & new & ls & Ef & Et & D & R & Fnew); auto.
  - reflexivity.
  - apply ci_RN_cons.
  - intros a b c H1 H2. unfold ci_equal in *. congruence.
  - intros k v I p s E Eq. apply name_eqb_iff_ci. exact Eq.
  - intros k v I. destruct (TS k v I) as (_ & ls0 & h0 & D0 & _). apply Dec_bounds in D0. lia.
  - intros k v [].
  - exists em, ls. split; [exact Ef|]. split; [|split; assumption].
    intros k v I. rewrite Et, app_nil_r in I. apply in_app_or in I. destruct I as [I|I].
    + destruct (TS k v I) as (Hv & ls0 & h0 & D0 & R0). split; [exact Hv|].
      exists ls0, h0. split; [rewrite Ef; apply Dec_app; exact D0|exact R0].
    + rewrite Forall_forall in Fnew. destruct (Fnew _ I) as (Hv & _ & ls0 & h0 & D0 & R0).
      split; [exact Hv|]. exists ls0, h0. auto.
Qed.

Theorem write_names_sound origin : forall ns file t file' t',
  TableSound file t -> Forall Valid ns ->
  write_names ns origin file t = Ok (file', t') ->
  exists em offs,
    file' = file ++ em /\ TableSound file' t' /\
    Forall2 (fun n off =>
               exists labels n' c, full_name n origin = Ok labels /\
                 from_wire file' off = Ok (n', c) /\ ci_equal n' labels) ns offs.
Proof.
  induction ns as [|n ns IH]; intros file t file' t' TS V H.
  - cbn in H. inversion H; subst. exists [], []. rewrite app_nil_r. split; [reflexivity|]. split; [exact TS|constructor].
  - cbn [write_names] in H. inversion V as [|? ? Vn Vns]; subst.
    destruct (to_wire_compress n origin false file t) as [[f1 t1]| |] eqn:E; cbn [bind] in H; try discriminate.
    cbn [fst snd] in H.
    assert (exists labels, full_name n origin = Ok labels) as [labels F].
    { rewrite to_wire_compress_unfold in E. destruct (full_name n origin); cbn [bind] in E; try discriminate. eauto. }
    destruct (compress_sound_dec _ _ _ _ _ _ _ _ TS Vn F E) as (em1 & ls & Ef1 & TS1 & D & R).
    destruct (IH f1 t1 file' t' TS1 Vns H) as (em2 & offs & Ef & TS' & FA).
    exists (em1 ++ em2), (length file :: offs).
    split; [rewrite Ef, Ef1, app_assoc; reflexivity|]. split; [exact TS'|].
    constructor; [|exact FA].
    destruct (full_name_valid _ _ _ Vn F) as [Vl _].
    exists labels, ls, (length f1 - length file)%nat. split; [exact F|]. split; [|exact R].
    rewrite Ef. apply Dec_from_wire; [apply Dec_app; exact D|].
    eapply Valid_ci; [symmetry; exact R|exact Vl].
Qed.

(* ------------------------------------------------------------------ *)
(* whatever from_wire decodes is an absolute valid name whose own uncompressed encoding decodes
   to it again (decode / re-encode / decode is stable)                   *)

Lemma Dec_absolute msg cur b ls h : Dec msg cur b ls h -> is_absolute ls = true.
Proof.
  induction 1 as [cur b H|cur b count l ls hi H Hc Hl El D IH|cur b hi8 lo c ls h H H8 Hlo Ec Hcb D IH].
  - reflexivity.
  - destruct ls as [|y ls]; [discriminate|]. exact IH.
  - exact IH.
Qed.

Theorem from_wire_reencode msg off n c : Forall (fun x => 0 <= x) msg ->
  from_wire msg off = Ok (n, c) ->
  Valid n /\ is_absolute n = true /\
  from_wire (wire_labels false n) 0 = Ok (n, length (wire_labels false n)).
Proof.
  intros NN H. apply from_wire_Dec in H; [|exact NN]. destruct H as (h & D & _ & V).
  pose proof (Dec_absolute _ _ _ _ _ D) as A.
  split; [exact V|]. split; [exact A|].
  destruct (wire_roundtrip n [] [] V A) as [_ R]. cbn [app length] in R. rewrite app_nil_r in R. exact R.
Qed.

(* the "consumed" statements as corollaries *)
Lemma consumed_plain (n : name) (pre post : list Z) :
  Valid n -> is_absolute n = true ->
  exists m, from_wire (pre ++ wire_labels false n ++ post) (length pre) = Ok (m, length (wire_labels false n)).
Proof. intros V A. exists n. exact (proj2 (wire_roundtrip n pre post V A)). Qed.

Lemma consumed_compressed n origin canon file t file' t' labels :
  Forall (fun c => 0 <= c) file -> (forall k v, In (k, v) t -> Valid k) ->
  TableSoundW file t -> Valid n -> full_name n origin = Ok labels ->
  to_wire_compress n origin canon file t = Ok (file', t') ->
  exists m, from_wire file' (length file) = Ok (m, (length file' - length file)%nat).
Proof.
  intros NN VK TS V F H.
  destruct (compress_sound_W n origin canon file t file' t' labels NN VK TS V F H)
    as (em & m & -> & _ & _ & FW & _).
  exists m. rewrite FW. rewrite app_length. f_equal. f_equal. lia.
Qed.

(* ------------------------------------------------------------------ *)
(* the third call shape of Name.to_wire: a file but no compression table.  On valid names it
   behaves exactly like the no-file form: same octets, same NameTooLong. *)
Theorem to_wire_file_eq n origin canon :
  Valid n -> (forall o, origin = Some o -> Valid o) ->
  to_wire_file n origin canon = to_wire n origin canon.
Proof.
  intros Vn Vo. unfold to_wire_file, to_wire. destruct (is_absolute n) eqn:An; [reflexivity|].
  destruct origin as [o|]; [|reflexivity]. destruct (is_absolute o) eqn:Ao; [|reflexivity].
  specialize (Vo o eq_refl).
  destruct (wire_length n + wire_length o >? 255) eqn:L.
  - destruct (mk_name (n ++ o)) as [m|e|e] eqn:M; cbn [bind].
    + apply mk_name_ok in M. destruct M as [_ (_ & T & _)]. rewrite wire_length_app in T. lia.
    + unfold mk_name in M. destruct (validate_labels (n ++ o)) as [[]|e'|e'] eqn:Ve; inversion M; subst.
      apply validate_error in Ve.
      pose proof (Valid_relative_nonempty n Vn An) as NE.
      destruct Vn as (N1 & _ & _). destruct Vo as (O1 & _ & O3).
      destruct Ve as [[_ H]|[[-> _]|[_ (_ & H & _)]]]; [|reflexivity|].
      * exfalso. apply H. apply Forall_app. split; assumption.
      * rewrite wire_length_app in H. lia.
    + exfalso. eapply mk_name_never_internal; eauto.
  - assert (Valid (n ++ o)) as V by (apply Valid_app_abs; auto; lia).
    rewrite (mk_name_valid _ V). cbn [bind]. rewrite wire_labels_app. reflexivity.
Qed.
