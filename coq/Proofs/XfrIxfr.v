(* C13 - incremental transfers: one difference sequence takes a zone equal to version a to version
   b; a chain of them takes v0 to vn; any division of the stream into messages; early end. *)
From DV Require Import Base.Prelude Model.XfrM Proofs.XfrSets Proofs.XfrSpec Proofs.XfrZone Proofs.XfrDiff
  Proofs.XfrSafety Proofs.XfrBasic Proofs.XfrRun.

(* records of a well-formed zone are "plain" *)
Lemma body_plain : forall z, rest_wf z -> Forall plain (body z).
Proof.
  intros z [_ Hf]. unfold body. apply Forall_forall. intros r Hr.
  apply in_flat_map in Hr. destruct Hr as [[[[n t] c] [ttl ds]] [Hin Hr]].
  rewrite Forall_forall in Hf. apply Hf in Hin. cbn in Hin. destruct Hin as (Hn & Ht & Httl & _ & _ & Hsg).
  cbn in Hr. apply in_map_iff in Hr. destruct Hr as [d [<- _]].
  unfold plain. cbn. auto.
Qed.

Lemma zminus_plain : forall a b, rest_wf a -> Forall plain (zminus a b).
Proof.
  intros a b Ha. unfold zminus. apply Forall_forall. intros r Hr. apply filter_In in Hr.
  pose proof (body_plain a Ha) as Hp. rewrite Forall_forall in Hp. apply Hp, Hr.
Qed.

Lemma step_plain_add : forall l p tz rdt inc ser udp so rq r, plain r -> quiet tz ->
  step l (mkSt p (Some tz) rdt inc ser udp so false false false rq) (single r) =
  (mkSt p (Some (zput (rkey r) (add1 (look tz (rkey r)) (r_ttl r) (r_data r)) tz)) rdt inc ser udp so false false false rq, None).
Proof.
  intros l p tz rdt inc ser udp so rq r Hp Hq. pose proof Hp as (Hc & Ht & Hn & Httl & Hsg).
  unfold step. cbn [done txn expecting delmode].
  assert (E : (s_type (single r) =? tSOA) = false) by (apply Z.eqb_neq; exact Ht).
  rewrite E. cbn [andb].
  assert (Z : in_zone (s_name (single r)) = true) by (apply Z.leb_le; exact Hn).
  rewrite Z. cbn [negb]. rewrite (t_add_single tz r Hp Hq). reflexivity.
Qed.

Lemma step_plain_del : forall l p tz rdt inc ser udp so rq r, plain r -> quiet tz ->
  step l (mkSt p (Some tz) rdt inc ser udp so false false true rq) (single r) =
  match del1 (look tz (rkey r)) (r_data r) with
  | Some oe => (mkSt p (Some (zset (rkey r) oe tz)) rdt inc ser udp so false false true rq, None)
  | None => (mkSt p (Some tz) rdt inc ser udp so false false true rq, Some eDeleteNotExact)
  end.
Proof.
  intros l p tz rdt inc ser udp so rq r Hp Hq. pose proof Hp as (Hc & Ht & Hn & Httl & Hsg).
  unfold step. cbn [done txn expecting delmode].
  assert (E : (s_type (single r) =? tSOA) = false) by (apply Z.eqb_neq; exact Ht).
  rewrite E. cbn [andb].
  assert (Z : in_zone (s_name (single r)) = true) by (apply Z.leb_le; exact Hn).
  rewrite Z. cbn [negb]. rewrite (t_del_single tz r Hc (quiet_consistent _ Hq)).
  destruct (del1 (look tz (rkey r)) (r_data r)); reflexivity.
Qed.

Lemma loopn_adds : forall rs p tz rdt inc ser udp so rq, Forall plain rs -> quiet tz ->
  loopn (mkSt p (Some tz) rdt inc ser udp so false false false rq) (map single rs) =
  (mkSt p (Some (adds tz rs)) rdt inc ser udp so false false false rq, None).
Proof.
  induction rs as [|r rs IH]; intros p tz rdt inc ser udp so rq Hf Hq; cbn [map loopn adds]; [reflexivity|].
  inversion Hf; subst. rewrite step_plain_add by assumption. apply IH; [assumption|].
  apply quiet_zput; [exact Hq|rewrite rkey_kind; apply H1].
Qed.

Lemma loopn_dels : forall rs p tz tz' rdt inc ser udp so rq, Forall plain rs -> quiet tz -> dels tz rs = Some tz' ->
  loopn (mkSt p (Some tz) rdt inc ser udp so false false true rq) (map single rs) =
  (mkSt p (Some tz') rdt inc ser udp so false false true rq, None).
Proof.
  induction rs as [|r rs IH]; intros p tz tz' rdt inc ser udp so rq Hf Hq Hd; cbn [map loopn dels] in *.
  - inversion Hd; reflexivity.
  - inversion Hf; subst. rewrite step_plain_del by assumption.
    destruct (del1 (look tz (rkey r)) (r_data r)) as [oe|] eqn:E; [|discriminate]. apply IH; try assumption.
    apply quiet_zset; [exact Hq|]. unfold del1 in E. destruct (look tz (rkey r)); discriminate.
Qed.

Section IXFR.
Variable u : bool.   (* is_udp *)

(* the state of an IXFR in progress *)
Definition ist (p tz : zone) (ser : Z) (s0 : rrset) (e dm : bool) : st :=
  mkSt p (Some tz) tIXFR true ser u (Some s0) false e dm false.

Lemma soa_eqb : forall v w, rrset_eqb (single (soa_rr v)) (single (soa_rr w)) = (v_soa v =? v_soa w).
Proof.
  intros v w. unfold rrset_eqb, single, soa_rr. cbn [s_name s_class s_type s_covers s_data r_name r_class r_type r_covers r_data].
  rewrite !Z.eqb_refl. cbn [andb]. apply set_eqb_one.
Qed.

Lemma soa_serial_single : forall v, soa_serial (single (soa_rr v)) = Some (v_serial v).
Proof. reflexivity. Qed.

(* S1: the SOA that starts a deletion section *)
Lemma step_del_start : forall l p tz vn a e,
  v_soa a <> v_soa vn ->
  step l (ist p tz (v_serial a) (single (soa_rr vn)) e false) (single (soa_rr a)) =
  (ist p tz (v_serial a) (single (soa_rr vn)) false true, None).
Proof.
  intros l p tz vn a e Hne. unfold step, ist. cbn [done txn incremental delmode soa set_delmode negb].
  change ((s_type (single (soa_rr a)) =? tSOA) && (s_name (single (soa_rr a)) =? origin)) with true. cbv iota.
  rewrite soa_eqb. apply Z.eqb_neq in Hne. rewrite Hne. cbn [andb].
  rewrite soa_serial_single. cbn [incremental set_expecting serial]. rewrite Z.eqb_refl. reflexivity.
Qed.

(* S2: the SOA that starts an addition section *)
Lemma step_add_start : forall l p tz vn b ser, ttl_ok (v_ttl b) -> quiet tz ->
  step l (ist p tz ser (single (soa_rr vn)) false true) (single (soa_rr b)) =
  (ist p (zput soakey (v_ttl b, [v_soa b]) tz) (v_serial b) (single (soa_rr vn)) false false, None).
Proof.
  intros l p tz vn b ser Httl Hq. unfold step, ist. cbn [done txn incremental delmode soa set_delmode negb].
  change ((s_type (single (soa_rr b)) =? tSOA) && (s_name (single (soa_rr b)) =? origin)) with true. cbv iota.
  cbn [orb]. rewrite andb_false_r.
  rewrite soa_serial_single. cbn [incremental set_expecting set_serial].
  rewrite t_add_soa by assumption. reflexivity.
Qed.

(* S3: the final SOA, last record of its message *)
Lemma step_final : forall p tz vn, ttl_ok (v_ttl vn) -> quiet tz ->
  step Last (ist p tz (v_serial vn) (single (soa_rr vn)) false false) (single (soa_rr vn)) =
  (mkSt (zput soakey (v_ttl vn, [v_soa vn]) tz) None tIXFR true (v_serial vn) u
        (Some (single (soa_rr vn))) true false true false, None).
Proof.
  intros p tz vn Httl Hq. unfold step, ist. cbn [done txn incremental delmode soa set_delmode negb].
  change ((s_type (single (soa_rr vn)) =? tSOA) && (s_name (single (soa_rr vn)) =? origin)) with true. cbv iota.
  rewrite soa_eqb, Z.eqb_refl. cbn [andb orb].
  rewrite soa_serial_single. cbn [expecting incremental serial]. rewrite Z.eqb_refl. cbn [negb andb].
  rewrite t_add_soa by assumption. reflexivity.
Qed.

Lemma look_zone_of : forall v k,
  look (zone_of v) k = if key_eqb k soakey then Some (v_ttl v, [v_soa v]) else look (v_rest v) k.
Proof. reflexivity. Qed.

(* one difference sequence *)
Lemma section_run : forall p tz vn a b e,
  version_wf a -> version_wf b -> v_soa a <> v_soa vn ->
  (forall k, k <> soakey -> look tz k = look (v_rest a) k) ->
  exists tz',
    loopn (ist p tz (v_serial a) (single (soa_rr vn)) e false) (map single (diff_seq a b)) =
    (ist p tz' (v_serial b) (single (soa_rr vn)) false false, None)
    /\ zeq tz' (zone_of b).
Proof.
  intros p tz vn a b e [Hta Ha] [Htb Hb] Hne Hz.
  destruct (diff_apply (v_rest a) (v_rest b) tz Ha Hb Hz) as [z1 [Hd [_ Hadd]]].
  assert (Hq : quiet tz) by (apply (agree_quiet (v_rest a)); assumption).
  assert (Hq1 : quiet z1) by (apply (quiet_dels _ _ _ Hd Hq)).
  assert (Hq2 : quiet (zput soakey (v_ttl b, [v_soa b]) z1)) by (apply quiet_zput; [exact Hq1|discriminate]).
  exists (adds (zput soakey (v_ttl b, [v_soa b]) z1) (zminus (v_rest b) (v_rest a))). split.
  - unfold diff_seq. cbn [map loopn]. rewrite step_del_start by assumption.
    rewrite map_app, loopn_app.
    unfold ist at 1. rewrite (loopn_dels _ _ _ z1) by (auto using zminus_plain).
    cbn [map loopn]. fold (ist p z1 (v_serial a) (single (soa_rr vn)) false true).
    rewrite step_add_start by assumption.
    unfold ist at 1. rewrite loopn_adds by (auto using zminus_plain). reflexivity.
  - intros k. rewrite Hadd, look_zone_of. reflexivity.
Qed.

Lemma last_default : forall {A} (l : list A) d d', l <> [] -> last l d = last l d'.
Proof.
  induction l as [|x l IH]; intros d d' H; [congruence|].
  destruct l as [|y l]; [reflexivity|]. cbn [last] in *. apply IH. discriminate.
Qed.

(* a chain of difference sequences *)
Lemma chain_run : forall chain p tz vn v0 e,
  chain <> [] -> version_wf v0 -> Forall version_wf chain ->
  (forall v, In v (v0 :: removelast chain) -> v_soa v <> v_soa vn) ->
  (forall k, k <> soakey -> look tz k = look (v_rest v0) k) ->
  exists tz',
    loopn (ist p tz (v_serial v0) (single (soa_rr vn)) e false) (map single (diff_seqs v0 chain)) =
    (ist p tz' (v_serial (last chain v0)) (single (soa_rr vn)) false false, None)
    /\ zeq tz' (zone_of (last chain v0)).
Proof.
  induction chain as [|w chain IH]; intros p tz vn v0 e Hne Hv0 Hch Hd Hz; [congruence|].
  inversion Hch as [|? ? Hw Hch']; subst.
  destruct (section_run p tz vn v0 w e Hv0 Hw (Hd v0 (or_introl eq_refl)) Hz) as [tz1 [Hr1 Hz1]].
  cbn [diff_seqs]. rewrite map_app, loopn_app, Hr1.
  destruct chain as [|w2 chain].
  - cbn [diff_seqs map loopn last]. exists tz1. auto.
  - assert (H1 : w2 :: chain <> []) by discriminate.
    assert (H2 : forall v, In v (w :: removelast (w2 :: chain)) -> v_soa v <> v_soa vn).
    { intros v Hin. apply Hd. right. exact Hin. }
    assert (H3 : forall k, k <> soakey -> look tz1 k = look (v_rest w) k).
    { intros k Hk. rewrite Hz1, look_zone_of. apply key_eqb_neq in Hk. rewrite Hk. reflexivity. }
    destruct (IH p tz1 vn w false H1 Hw Hch' H2 H3) as [tz2 [Hr2 Hz2]].
    change (last (w :: w2 :: chain) v0) with (last (w2 :: chain) v0).
    rewrite (last_default (w2 :: chain) v0 w H1).
    exists tz2. split; [exact Hr2|exact Hz2].
Qed.

End IXFR.

Lemma after_tcp : forall s rs, is_udp s = false ->
  (match loop s rs with
   | (s', Some e) => (s', Some e)
   | (s', None) => if is_udp s' && negb (done s') then (s', Some eUDPEnd) else (s', None)
   end) = loop s rs.
Proof.
  intros s rs Hu. destruct (loop s rs) as [s' [e|]] eqn:Hl; [reflexivity|].
  apply loop_inv in Hl. destruct Hl as (_ & Hu' & _). rewrite Hu', Hu. reflexivity.
Qed.

Lemma chain_ok_soa : forall v0 chain, chain_ok v0 chain ->
  forall v, In v (v0 :: removelast chain) -> v_soa v <> v_soa (last chain v0).
Proof.
  intros v0 chain (_ & _ & _ & H & _) v Hin E. apply (H v Hin). unfold v_serial. rewrite E. reflexivity.
Qed.

Lemma version_wf_last : forall chain v0, version_wf v0 -> Forall version_wf chain -> version_wf (last chain v0).
Proof.
  induction chain as [|w chain IH]; intros v0 H0 Hc; [exact H0|].
  inversion Hc; subst. destruct chain as [|w2 chain]; [assumption|].
  change (last (w :: w2 :: chain) v0) with (last (w2 :: chain) v0). apply IH; assumption.
Qed.

(* the records of a valid IXFR after the first SOA: no error, not done before the final SOA, and
   the final SOA commits the target version *)
Lemma ixfr_records : forall u v0 chain z0,
  chain_ok v0 chain -> zeq z0 (zone_of v0) ->
  let vn := last chain v0 in
  exists s1 s2,
    loopn (ist u z0 z0 (v_serial v0) (single (soa_rr vn)) true false) (map single (diff_seqs v0 chain)) = (s1, None)
    /\ done s1 = false
    /\ step Last s1 (single (soa_rr vn)) = (s2, None)
    /\ done s2 = true /\ zeq (pub s2) (zone_of vn).
Proof.
  intros u v0 chain z0 Hok Hz vn.
  pose proof Hok as (Hne & Hv0 & Hch & _ & _).
  destruct (chain_run u chain z0 z0 vn v0 true Hne Hv0 Hch (chain_ok_soa v0 chain Hok)) as [tz' [Hr Hz']].
  { intros k Hk. rewrite Hz, look_zone_of. apply key_eqb_neq in Hk. rewrite Hk. reflexivity. }
  pose proof (version_wf_last chain v0 Hv0 Hch) as Hvn. pose proof Hvn as [Httl _].
  eexists. eexists. split; [exact Hr|]. split; [reflexivity|].
  split; [apply step_final; [exact Httl|exact (zeq_zone_of_quiet _ _ Hvn Hz')]|]. split; [reflexivity|].
  cbn [pub]. intros k. rewrite look_zput, look_zone_of.
  destruct (key_eqb k soakey) eqn:E; [reflexivity|]. rewrite Hz', look_zone_of, E. reflexivity.
Qed.

Lemma chunking_first : forall rdt r0 rest ws, chunking rdt (r0 :: rest) ws ->
  exists w ws' a, ws = w :: ws' /\ w_records w = r0 :: a /\ header_ok rdt w /\ Forall (header_ok rdt) ws'
                  /\ a ++ concat (map w_records ws') = rest.
Proof.
  intros rdt r0 rest ws (Hh & Hc & Hf). destruct ws as [|w ws']; [destruct Hf|].
  inversion Hh; subst. cbn [map concat] in Hc.
  destruct (w_records w) as [|x a] eqn:E; [congruence|]. cbn [app] in Hc. inversion Hc; subst.
  exists w, ws', a. auto.
Qed.

(* multi-step incremental chains, any division into messages *)
Theorem ixfr_converges : forall v0 chain z0 ws,
  chain_ok v0 chain -> zeq z0 (zone_of v0) -> chunking tIXFR (ixfr_stream v0 chain) ws ->
  exists z' n, inbound_xfr z0 tIXFR (Some (v_serial v0)) false ws = (Done z', n)
               /\ zeq z' (zone_of (last chain v0)).
Proof.
  intros v0 chain z0 ws Hok Hz Hch.
  unfold ixfr_stream in Hch. cbv zeta in Hch.
  apply chunking_first in Hch. destruct Hch as (w & ws' & a & -> & Hr & Hw & Hws & Hcat).
  destruct (ixfr_records false v0 chain z0 Hok Hz) as (s1 & s2 & Hl & Hd1 & Hf & Hd2 & Hz2).
  pose proof Hok as (_ & _ & _ & Hser & Hlt).
  unfold inbound_xfr, xfr_run. rewrite init_ixfr. cbn [Z.eqb tIXFR Pos.eqb]. rewrite drive_cons by solve_req.
  rewrite (first_message_ixfr z0 (v_serial v0) false w (soa_rr (last chain v0)) a Hw Hr) by (split; reflexivity).
  cbv zeta. change (r_data (soa_rr (last chain v0)) mod two32) with (v_serial (last chain v0)).
  assert (Hne : (v_serial (last chain v0) =? v_serial v0) = false).
  { apply Z.eqb_neq. intros E. apply (Hser v0 (or_introl eq_refl)). symmetry. exact E. }
  rewrite Hne, Hlt. cbn [andb]. rewrite after_tcp by reflexivity.
  destruct (cont_records ws' a (ist false z0 z0 (v_serial v0) (single (soa_rr (last chain v0))) true false)
              (diff_seqs v0 chain) (soa_rr (last chain v0)) s1 s2) as [n Hn]; try assumption.
  - repeat split; try reflexivity; discriminate.
  - exists (pub s2), n. split; [exact Hn|exact Hz2].
Qed.

(* UDP IXFR: the whole response is one datagram *)
Theorem udp_ixfr : forall v0 chain z0 w,
  chain_ok v0 chain -> zeq z0 (zone_of v0) ->
  header_ok tIXFR w -> w_records w = ixfr_stream v0 chain ->
  exists z', inbound_xfr z0 tIXFR (Some (v_serial v0)) true [w] = (Done z', 1%nat)
             /\ zeq z' (zone_of (last chain v0)).
Proof.
  intros v0 chain z0 w Hok Hz Hw Hr.
  destruct (ixfr_records true v0 chain z0 Hok Hz) as (s1 & s2 & Hl & Hd1 & Hf & Hd2 & Hz2).
  pose proof Hok as (Hne0 & _ & _ & Hser & Hlt).
  unfold inbound_xfr, xfr_run. rewrite init_ixfr. cbn [Z.eqb tIXFR Pos.eqb]. rewrite drive_cons by solve_req.
  unfold ixfr_stream in Hr. cbv zeta in Hr.
  rewrite (first_message_ixfr z0 (v_serial v0) true w (soa_rr (last chain v0)) _ Hw Hr) by (split; reflexivity).
  cbv zeta. change (r_data (soa_rr (last chain v0)) mod two32) with (v_serial (last chain v0)).
  assert (Hne : (v_serial (last chain v0) =? v_serial v0) = false).
  { apply Z.eqb_neq. intros E. apply (Hser v0 (or_introl eq_refl)). symmetry. exact E. }
  rewrite Hne, Hlt.
  assert (Hnn : (match diff_seqs v0 chain ++ [soa_rr (last chain v0)] with [] => true | _ :: _ => false end) = false)
    by (destruct (diff_seqs v0 chain); reflexivity).
  rewrite Hnn. cbn [andb].
  rewrite map_app. cbn [map]. rewrite loop_snoc.
  change (set_expecting (set_soa (set_txn (ixfr_init z0 (v_serial v0) true) (Some z0))
            (Some (single (soa_rr (last chain v0))))) true)
    with (ist true z0 z0 (v_serial v0) (single (soa_rr (last chain v0))) true false).
  rewrite Hl, Hf, Hd2. cbn [negb]. rewrite andb_false_r. cbn [cont]. rewrite Hd2.
  exists (pub s2). auto.
Qed.

(* the first record after which an error is certain, wherever the message boundaries are *)
Lemma cont_first_error : forall ws a s x rest s' e,
  running s -> Forall (header_ok (rdtype s)) ws ->
  a ++ concat (map w_records ws) = x :: rest ->
  (forall l, step l s (single x) = (s', Some e)) ->
  exists n, cont true (loop s (map single a)) ws = (Error e (pub s'), n).
Proof.
  induction ws as [|w ws IH]; intros a s x rest s' e Hrun Hh Hcat Hst.
  - cbn [map concat] in Hcat. rewrite app_nil_r in Hcat. subst a. cbn [map loopT]. rewrite Hst. cbn [cont]. eauto.
  - destruct a as [|y a].
    + cbn [map loopT cont]. destruct Hrun as (Hd & Hrest). rewrite Hd.
      inversion Hh as [|? ? Hw Hws]; subst.
      rewrite drive_cons by apply Hrest. unfold from_wire. rewrite group_true.
      rewrite process_running; [|split; assumption|apply Hw|apply Hw]. cbn [m_answer].
      cbn [app map concat] in Hcat.
      destruct (IH (w_records w) s x rest s' e) as [n Hn]; auto. { split; assumption. }
      rewrite Hn. eauto.
    + cbn [app] in Hcat. inversion Hcat; subst. cbn [map loopT]. rewrite Hst. cbn [cont]. eauto.
Qed.

(* "based on a different serial": the difference sequences start at v0's serial but the client
   asked for another one *)
Theorem wrong_base_rejected : forall v0 chain z ser ws,
  chain <> [] -> chunking tIXFR (ixfr_stream v0 chain) ws ->
  v_serial v0 <> ser -> v_serial (last chain v0) <> ser ->
  serial_lt (v_serial (last chain v0)) ser = false ->
  v_soa v0 <> v_soa (last chain v0) ->
  exists n, inbound_xfr z tIXFR (Some ser) false ws = (Error eBaseMismatch z, n).
Proof.
  intros v0 chain z ser ws Hne Hch Hs0 Hsn Hlt Hsoa.
  unfold ixfr_stream in Hch. cbv zeta in Hch.
  apply chunking_first in Hch. destruct Hch as (w & ws' & a & -> & Hr & Hw & Hws & Hcat).
  unfold inbound_xfr, xfr_run. rewrite init_ixfr. cbn [Z.eqb tIXFR Pos.eqb]. rewrite drive_cons by solve_req.
  rewrite (first_message_ixfr z ser false w (soa_rr (last chain v0)) a Hw Hr) by (split; reflexivity).
  cbv zeta. change (r_data (soa_rr (last chain v0)) mod two32) with (v_serial (last chain v0)).
  apply Z.eqb_neq in Hsn. rewrite Hsn, Hlt. cbn [andb]. rewrite after_tcp by reflexivity.
  destruct chain as [|v1 chain]; [congruence|]. cbn [diff_seqs] in Hcat. unfold diff_seq in Hcat at 1.
  cbn [app] in Hcat.
  set (vn := last (v1 :: chain) v0) in *.
  match type of Hcat with _ = _ :: ?R =>
    destruct (cont_first_error ws' a (ist false z z ser (single (soa_rr vn)) true false) (soa_rr v0) R
                (ist false z z ser (single (soa_rr vn)) false true) eBaseMismatch) as [n Hn];
      [ | exact Hws | exact Hcat | | exists n; exact Hn]
  end.
  - repeat split; try reflexivity; discriminate.
  - intros l. unfold step, ist. cbn [done txn incremental delmode soa set_delmode negb].
    change ((s_type (single (soa_rr v0)) =? tSOA) && (s_name (single (soa_rr v0)) =? origin)) with true. cbv iota.
    rewrite soa_eqb. apply Z.eqb_neq in Hsoa. rewrite Hsoa. cbn [andb].
    rewrite soa_serial_single. cbn [incremental set_expecting set_delmode serial delmode].
    apply Z.eqb_neq in Hs0. rewrite Hs0. reflexivity.
Qed.

(* "ends early": every proper prefix of a valid IXFR response, cut into messages in any way, is an
   error and (error_leaves_zone) leaves the zone alone *)
Theorem ixfr_early_end_rejected : forall v0 chain z0 ws q,
  chain_ok v0 chain -> zeq z0 (zone_of v0) ->
  Forall (header_ok tIXFR) ws -> q <> [] ->
  concat (map w_records ws) ++ q = ixfr_stream v0 chain ->
  exists e n, inbound_xfr z0 tIXFR (Some (v_serial v0)) false ws = (Error e z0, n).
Proof.
  intros v0 chain z0 ws q Hok Hz Hh Hq Hcat.
  assert (NE : forall r n, r = inbound_xfr z0 tIXFR (Some (v_serial v0)) false ws ->
            (exists e z, r = (Error e z, n)) -> exists e n, inbound_xfr z0 tIXFR (Some (v_serial v0)) false ws = (Error e z0, n)).
  { intros r n -> [e [z H]]. pose proof (error_leaves_zone _ _ _ _ _ _ _ _ H). subst z. eauto. }
  destruct ws as [|w ws'].
  { eapply NE; [reflexivity|]. unfold inbound_xfr, xfr_run. rewrite init_ixfr. cbn. eauto. }
  inversion Hh as [|? ? Hw Hws]; subst.
  destruct (w_records w) as [|r0 a] eqn:Hr.
  { eapply NE; [reflexivity|]. unfold inbound_xfr, xfr_run. rewrite init_ixfr. cbn [Z.eqb tIXFR Pos.eqb]. rewrite drive_cons by solve_req.
    unfold process_message, from_wire. cbn [txn ixfr_init incremental pub set_txn rdtype m_rcode m_question m_answer].
    destruct Hw as [Hrc Hqq]. rewrite Hrc. cbn [Z.eqb negb]. rewrite (header_ok_question tIXFR w (conj Hrc Hqq)).
    cbn [soa]. rewrite Hr. cbn. eauto. }
  unfold ixfr_stream in Hcat. cbv zeta in Hcat. cbn [map concat] in Hcat. rewrite Hr in Hcat.
  cbn [app] in Hcat. inversion Hcat as [[E0 Hcat']]. subst r0. rewrite <- app_assoc in Hcat'.
  destruct (ixfr_records false v0 chain z0 Hok Hz) as (s1 & s2 & Hl & Hd1 & Hf & Hd2 & Hz2).
  pose proof Hok as (_ & _ & _ & Hser & Hlt).
  (* the part received is a prefix of the difference sequences *)
  rewrite app_assoc in Hcat'. apply app_snoc_split in Hcat'.
  destruct Hcat' as [[c' [Hmid Hq']]|[_ Hq']]; [|congruence].
  rewrite Hmid, map_app, loopn_app in Hl.
  destruct (loopn _ (map single (a ++ concat (map w_records ws')))) as [sp [e|]] eqn:Hp; [discriminate|].
  pose proof (loopn_none_not_done _ _ _ Hl Hd1) as Hdp.
  destruct (cont_records_eof ws' a (ist false z0 z0 (v_serial v0) (single (soa_rr (last chain v0))) true false) sp)
    as [n [z Hn]]; try assumption.
  { repeat split; try reflexivity; discriminate. }
  apply (NE _ n eq_refl). exists eEOF, z.
  unfold inbound_xfr, xfr_run. rewrite init_ixfr. cbn [Z.eqb tIXFR Pos.eqb]. rewrite drive_cons by solve_req.
  rewrite (first_message_ixfr z0 (v_serial v0) false w (soa_rr (last chain v0)) a Hw Hr) by (split; reflexivity).
  cbv zeta. change (r_data (soa_rr (last chain v0)) mod two32) with (v_serial (last chain v0)).
  assert (Hne : (v_serial (last chain v0) =? v_serial v0) = false).
  { apply Z.eqb_neq. intros E. apply (Hser v0 (or_introl eq_refl)). symmetry. exact E. }
  rewrite Hne, Hlt. cbn [andb]. rewrite after_tcp by reflexivity.
  exact Hn.
Qed.
