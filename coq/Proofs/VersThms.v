(* C11 - every operation preserves the invariant; the theorems over all histories. *)
From DV Require Import Base.Prelude Model.VersM Proofs.VersInv.
From Coq Require Import Sorting.Sorted.
Import VersM.

Local Open Scope Z_scope.

Lemma next_id_suffix d vs : vs <> [] -> next_id (d ++ vs) = next_id vs.
Proof. intros H. unfold next_id. rewrite last_opt_app_r by exact H. reflexivity. Qed.

Lemma sorted_head_last v rest vl :
  sorted (v :: rest) -> last_opt (v :: rest) = Some vl -> vid vl <= vid v -> rest = [].
Proof.
  intros Hs Hl Hle. destruct rest as [|b rest]; [reflexivity|]. exfalso.
  rewrite last_opt_cons2 in Hl.
  assert (vid v < vid vl); [|lia].
  change (v :: b :: rest) with ([v] ++ (b :: rest)) in Hs.
  eapply sorted_app_lt; [exact Hs|left; reflexivity|apply last_opt_in; exact Hl].
Qed.

(* the state reached after a call of _prune_versions_unlocked *)
Lemma inv_after_prune (p : pol) (vs vs' : list version) (rs : list reader) (wt : option wtx) (nh : Z)
      (hs : list version) :
  sorted hs -> (exists dr, hs = dr ++ vs) ->
  (forall r, In r rs -> rh r < nh) -> NoDup (map rh rs) ->
  prune_post p vs rs vs' ->
  (forall w, wt = Some w -> wid w = next_id vs) ->
  Inv (mkSt vs' rs p wt nh hs).
Proof.
  intros Hs [dr Ehs] Hh Hnd Hpp Hw.
  destruct Hpp as [[d [Evs [Hdr Hdl]]] Hne Hpins [least [Hk Hpr]]].
  assert (Hsvs : sorted vs) by (rewrite Ehs in Hs; eapply sorted_app_r; exact Hs).
  constructor; cbn; try assumption.
  - exists (dr ++ d). rewrite Ehs, Evs, app_assoc. reflexivity.
  - intros w E. rewrite (Hw w E), Evs. apply next_id_suffix. exact Hne.
  - intros v rest Evs'.
    destruct (pruned_head _ _ _ _ Hpr) as [v0 [rest0 [E0 Hc]]].
    rewrite Evs' in E0. inversion E0; subst v0 rest0. clear E0.
    apply andb_false_iff in Hc. destruct Hc as [Hc|Hc]; [|right; right; exact Hc].
    assert (Hge : least <= vid v) by lia.
    assert (Hl : exists vl, last_opt vs = Some vl).
    { destruct (last_opt vs) eqn:E; [eexists; reflexivity|]. apply last_opt_none in E.
      rewrite E in Evs. destruct d; cbn in Evs; [congruence|discriminate]. }
    destruct Hl as [vl Hl].
    assert (Hpin : forall r, In r rs -> exists x, In x vs /\ vid x = rvid r).
    { intros r Hr. destruct (Hpins r Hr) as [x [Hx Ex]]. exists x. split; [|exact Ex].
      rewrite Evs. apply in_or_app. right. exact Hx. }
    destruct (least_kept_spec vs rs vl Hsvs Hl Hpin) as [least' [Hk' [_ [_ [Hnil Hcons]]]]].
    rewrite Hk in Hk'. inversion Hk'; subst least'. clear Hk'.
    destruct rs as [|r0 rs0].
    + left. specialize (Hnil eq_refl). subst least.
      assert (Hl' : last_opt vs' = Some vl).
      { rewrite Evs in Hl. rewrite last_opt_app_r in Hl by exact Hne. exact Hl. }
      rewrite Evs' in Hl'. eapply sorted_head_last; [|exact Hl'|lia].
      rewrite <- Evs'. rewrite Evs in Hsvs. eapply sorted_app_r; exact Hsvs.
    + right. left. destruct Hcons as [r [Hr Er]]; [discriminate|]. exists r. split; [exact Hr|lia].
Qed.

Lemma find_id_rev_in i l v : find_id_rev i l = Some v -> In v l /\ vid v = i.
Proof.
  induction l as [|a l IH]; cbn; [discriminate|].
  destruct (vid a =? i) eqn:E.
  - intros H; inversion H; subst. split; [left; reflexivity|lia].
  - intros H. destruct (IH H). split; [right|]; assumption.
Qed.

Lemma find_serial_rev_in x l v : find_serial_rev x l = Some v -> In v l /\ serial_of (vcont v) = Some x.
Proof.
  induction l as [|a l IH]; cbn; [discriminate|].
  destruct (serial_of (vcont a)) as [s'|] eqn:Es.
  - destruct (s' =? x) eqn:E.
    + intros H; inversion H; subst. split; [left; reflexivity|]. rewrite Es. f_equal. lia.
    + intros H. destruct (IH H). split; [right|]; assumption.
  - intros H. destruct (IH H). split; [right|]; assumption.
Qed.

Lemma hist_next_id s : Inv s -> next_id (hist s) = next_id (versions s).
Proof.
  intros H. destruct (inv_suffix s H) as [d E]. rewrite E. apply next_id_suffix. apply (inv_nonempty s H).
Qed.

Lemma pins_subset s rs : Inv s -> (forall r, In r rs -> In r (readers s)) ->
  forall r, In r rs -> exists v, In v (versions s) /\ vid v = rvid r.
Proof. intros H Hsub r Hr. apply (inv_pinned s H). apply Hsub. exact Hr. Qed.

Lemma set_policy_inv s p s' r : Inv s -> set_policy s p = Ok (s', r) -> Inv s'.
Proof.
  intros H. unfold set_policy.
  destruct (prune_ok p (versions s) (readers s) (inv_versions_sorted s H) (inv_nonempty s H) (inv_pinned s H))
    as [vs' [E Hpp]].
  rewrite E. cbn [bind]. intros X; inversion X; subst. clear X.
  apply inv_after_prune with (vs := versions s).
  - apply (inv_hist_sorted s H).
  - apply (inv_suffix s H).
  - apply (inv_handles s H).
  - apply (inv_handles_nodup s H).
  - exact Hpp.
  - apply (inv_wid s H).
Qed.

Lemma set_policy_total s p : Inv s -> exists s' r, set_policy s p = Ok (s', r).
Proof.
  intros H. unfold set_policy.
  destruct (prune_ok p (versions s) (readers s) (inv_versions_sorted s H) (inv_nonempty s H) (inv_pinned s H))
    as [vs' [E _]].
  rewrite E. cbn [bind]. eexists; eexists; reflexivity.
Qed.

(* states that differ only in the write transaction *)
Lemma inv_set_wtxn s wt :
  Inv s -> (forall w, wt = Some w -> wid w = next_id (versions s)) ->
  Inv (mkSt (versions s) (readers s) (policy s) wt (next_h s) (hist s)).
Proof. intros H Hw. destruct H. constructor; cbn; assumption. Qed.

Lemma commit_sorted s w :
  Inv s -> wid w = next_id (versions s) ->
  sorted (versions s ++ [mkV (wid w) (wcont w)]) /\ sorted (hist s ++ [mkV (wid w) (wcont w)]).
Proof.
  intros H Ew. split.
  - apply sorted_snoc; [apply inv_versions_sorted; exact H|].
    intros x Hx. cbn. rewrite Ew. apply next_id_gt; [apply inv_versions_sorted; exact H|exact Hx].
  - apply sorted_snoc; [apply (inv_hist_sorted s H)|].
    intros x Hx. cbn. rewrite Ew, <- (hist_next_id s H). apply next_id_gt; [apply (inv_hist_sorted s H)|exact Hx].
Qed.

Theorem step_inv s o s' r : Inv s -> step s o = Ok (s', r) -> Inv s'.
Proof.
  intros H. destruct o; cbn [step].
  - (* OpenLatest *)
    destruct (last_opt (versions s)) as [v|] eqn:E; [|discriminate].
    intros X; inversion X; subst. apply (register_inv s v H). apply last_opt_in. exact E.
  - destruct (find_id_rev i (rev (versions s))) as [v|] eqn:E; [|discriminate].
    intros X; inversion X; subst. apply (register_inv s v H).
    apply find_id_rev_in in E. apply in_rev. tauto.
  - destruct (find_serial_rev s0 (rev (versions s))) as [v|] eqn:E; [|discriminate].
    intros X; inversion X; subst. apply (register_inv s v H).
    apply find_serial_rev_in in E. apply in_rev. tauto.
  - discriminate.
  - (* Close *)
    destruct (h <? next_h s); [|discriminate].
    destruct (has_reader h (readers s)); [|discriminate].
    assert (Hsub : forall r0, In r0 (remove_reader h (readers s)) -> In r0 (readers s))
      by (intros r0; apply in_remove_reader).
    destruct (prune_ok (policy s) (versions s) (remove_reader h (readers s))
                (inv_versions_sorted s H) (inv_nonempty s H) (pins_subset s _ H Hsub)) as [vs' [E Hpp]].
    rewrite E. cbn [bind]. intros X; inversion X; subst. clear X.
    apply inv_after_prune with (vs := versions s).
    + apply (inv_hist_sorted s H).
    + apply (inv_suffix s H).
    + intros r0 Hr0. apply (inv_handles s H). apply Hsub. exact Hr0.
    + apply nodup_remove_reader. apply (inv_handles_nodup s H).
    + exact Hpp.
    + apply (inv_wid s H).
  - (* WBegin *)
    destruct (wtxn s); [discriminate|].
    intros X; inversion X; subst. apply inv_set_wtxn; [exact H|].
    intros w Ew. inversion Ew; subst. reflexivity.
  - destruct (wtxn s) as [w|] eqn:Ew; [|discriminate].
    intros X; inversion X; subst. apply inv_set_wtxn; [exact H|].
    intros w' E'. inversion E'; subst. cbn. apply (inv_wid s H). exact Ew.
  - destruct (wtxn s) as [w|] eqn:Ew; [|discriminate].
    intros X; inversion X; subst. apply inv_set_wtxn; [exact H|].
    intros w' E'. inversion E'; subst. cbn. apply (inv_wid s H). exact Ew.
  - (* WCommit *)
    destruct (wtxn s) as [w|] eqn:Ew; [|discriminate].
    destruct (wchanged w).
    + pose proof (inv_wid s H w Ew) as Eid.
      destruct (commit_sorted s w H Eid) as [Hsv Hsh].
      assert (Hne : versions s ++ [mkV (wid w) (wcont w)] <> []) by (destruct (versions s); discriminate).
      assert (Hpin : forall r0, In r0 (readers s) ->
                exists v, In v (versions s ++ [mkV (wid w) (wcont w)]) /\ vid v = rvid r0).
      { intros r0 Hr0. destruct (inv_pinned s H r0 Hr0) as [v [Hv E]]. exists v.
        split; [apply in_or_app; left; exact Hv|exact E]. }
      destruct (prune_ok (policy s) _ (readers s) Hsv Hne Hpin) as [vs' [E Hpp]].
      rewrite E. cbn [bind]. intros X; inversion X; subst. clear X.
      apply inv_after_prune with (vs := versions s ++ [mkV (wid w) (wcont w)]).
      * exact Hsh.
      * destruct (inv_suffix s H) as [d Ed]. exists d. rewrite Ed, app_assoc. reflexivity.
      * apply (inv_handles s H).
      * apply (inv_handles_nodup s H).
      * exact Hpp.
      * discriminate.
    + intros X; inversion X; subst. apply inv_set_wtxn; [exact H|discriminate].
  - destruct (wtxn s) as [w|] eqn:Ew; [|discriminate].
    intros X; inversion X; subst. apply inv_set_wtxn; [exact H|discriminate].
  - (* SetMax *)
    destruct n as [n|].
    + destruct (n <? 1); [discriminate|]. apply set_policy_inv. exact H.
    + apply set_policy_inv. exact H.
  - apply set_policy_inv. exact H.
Qed.

(* the asserts and deque index operations of the code never fail *)
Theorem step_no_internal s o e : Inv s -> step s o <> Internal e.
Proof.
  intros H. destruct o; cbn [step].
  - destruct (inv_last s H) as [v ->]. discriminate.
  - destruct (find_id_rev _ _); discriminate.
  - destruct (find_serial_rev _ _); discriminate.
  - discriminate.
  - destruct (h <? next_h s); [|discriminate].
    destruct (has_reader h (readers s)); [|discriminate].
    assert (Hsub : forall r0, In r0 (remove_reader h (readers s)) -> In r0 (readers s))
      by (intros r0; apply in_remove_reader).
    destruct (prune_ok (policy s) (versions s) (remove_reader h (readers s))
                (inv_versions_sorted s H) (inv_nonempty s H) (pins_subset s _ H Hsub)) as [vs' [E _]].
    rewrite E. discriminate.
  - destruct (wtxn s); discriminate.
  - destruct (wtxn s); discriminate.
  - destruct (wtxn s); discriminate.
  - destruct (wtxn s) as [w|] eqn:Ew; [|discriminate].
    destruct (wchanged w); [|discriminate].
    pose proof (inv_wid s H w Ew) as Eid.
    destruct (commit_sorted s w H Eid) as [Hsv _].
    assert (Hne : versions s ++ [mkV (wid w) (wcont w)] <> []) by (destruct (versions s); discriminate).
    assert (Hpin : forall r0, In r0 (readers s) ->
              exists v, In v (versions s ++ [mkV (wid w) (wcont w)]) /\ vid v = rvid r0).
    { intros r0 Hr0. destruct (inv_pinned s H r0 Hr0) as [v [Hv E]]. exists v.
      split; [apply in_or_app; left; exact Hv|exact E]. }
    destruct (prune_ok (policy s) _ (readers s) Hsv Hne Hpin) as [vs' [E _]].
    rewrite E. discriminate.
  - destruct (wtxn s); discriminate.
  - destruct n as [n|].
    + destruct (n <? 1); [discriminate|]. destruct (set_policy_total s (pol_max n) H) as [s' [r ->]]. discriminate.
    + destruct (set_policy_total s pol_never H) as [s' [r ->]]. discriminate.
  - destruct (set_policy_total s p H) as [s' [r ->]]. discriminate.
Qed.

Lemma step_st_inv s o : Inv s -> Inv (step_st s o).
Proof.
  intros H. unfold step_st. destruct (step s o) as [[s' r]|e|e] eqn:E; try exact H.
  eapply step_inv; [exact H|exact E].
Qed.

Lemma run_ops_inv ops : forall s, Inv s -> Inv (run_ops s ops).
Proof.
  induction ops as [|o ops IH]; intros s H; [exact H|].
  cbn. apply IH. apply step_st_inv. exact H.
Qed.

Theorem reachable_inv ops : Inv (run_ops init ops).
Proof. apply run_ops_inv. apply init_inv. Qed.

(* ------------------------------------------------------------------ history only grows *)

Lemma step_hist s o s' r : step s o = Ok (s', r) -> exists new, hist s' = hist s ++ new.
Proof.
  destruct o; cbn [step].
  - destruct (last_opt _); [|discriminate]. intros X; inversion X. exists []. cbn. rewrite app_nil_r. reflexivity.
  - destruct (find_id_rev _ _); [|discriminate]. intros X; inversion X. exists []. cbn. rewrite app_nil_r. reflexivity.
  - destruct (find_serial_rev _ _); [|discriminate]. intros X; inversion X. exists []. cbn. rewrite app_nil_r. reflexivity.
  - discriminate.
  - destruct (h <? next_h s); [|discriminate]. destruct (has_reader _ _); [|discriminate].
    destruct (prune _ _ _); try discriminate. cbn. intros X; inversion X. exists []. cbn. rewrite app_nil_r. reflexivity.
  - destruct (wtxn s); [discriminate|]. intros X; inversion X. exists []. cbn. rewrite app_nil_r. reflexivity.
  - destruct (wtxn s); [|discriminate]. intros X; inversion X. exists []. cbn. rewrite app_nil_r. reflexivity.
  - destruct (wtxn s); [|discriminate]. intros X; inversion X. exists []. cbn. rewrite app_nil_r. reflexivity.
  - destruct (wtxn s) as [w|]; [|discriminate]. destruct (wchanged w).
    + destruct (prune _ _ _); try discriminate. cbn. intros X; inversion X. eexists. cbn. reflexivity.
    + intros X; inversion X. exists []. cbn. rewrite app_nil_r. reflexivity.
  - destruct (wtxn s); [|discriminate]. intros X; inversion X. exists []. cbn. rewrite app_nil_r. reflexivity.
  - assert (Hsp : forall p, set_policy s p = Ok (s', r) -> exists new, hist s' = hist s ++ new).
    { intros p. unfold set_policy. destruct (prune _ _ _); try discriminate. cbn.
      intros X; inversion X. exists []. cbn. rewrite app_nil_r. reflexivity. }
    destruct n as [n|]; [destruct (n <? 1); [discriminate|]|]; apply Hsp.
  - unfold set_policy. destruct (prune _ _ _); try discriminate. cbn.
    intros X; inversion X. exists []. cbn. rewrite app_nil_r. reflexivity.
Qed.

Lemma run_ops_hist ops : forall s, exists new, hist (run_ops s ops) = hist s ++ new.
Proof.
  induction ops as [|o ops IH]; intros s; [exists []; cbn; rewrite app_nil_r; reflexivity|].
  change (run_ops s (o :: ops)) with (run_ops (step_st s o) ops).
  destruct (IH (step_st s o)) as [n2 E2]. rewrite E2.
  unfold step_st. destruct (step s o) as [[s' r]|e|e] eqn:E.
  - destruct (step_hist _ _ _ _ E) as [n1 E1]. rewrite E1. exists (n1 ++ n2). rewrite app_assoc. reflexivity.
  - exists n2. reflexivity.
  - exists n2. reflexivity.
Qed.

(* ------------------------------------------------------------------ snapshot stability *)

Lemma find_reader_in h rs r : find_reader h rs = Some r -> In r rs /\ rh r = h.
Proof.
  induction rs as [|a rs IH]; cbn; [discriminate|].
  destruct (rh a =? h) eqn:E.
  - intros X; inversion X; subst. split; [left; reflexivity|lia].
  - intros X. destruct (IH X). split; [right|]; assumption.
Qed.

Lemma find_reader_snoc h rs r x : find_reader h rs = Some r -> find_reader h (rs ++ [x]) = Some r.
Proof.
  induction rs as [|a rs IH]; cbn; [discriminate|].
  destruct (rh a =? h); [tauto|exact IH].
Qed.

Lemma find_reader_remove h h' rs : h' <> h -> find_reader h (remove_reader h' rs) = find_reader h rs.
Proof.
  intros Hne. induction rs as [|a rs IH]; cbn; [reflexivity|].
  destruct (rh a =? h') eqn:E1.
  - destruct (rh a =? h) eqn:E2; [lia|reflexivity].
  - cbn. destruct (rh a =? h); [reflexivity|exact IH].
Qed.

(* a retained-and-still-pinned version is found again, unchanged, after pruning *)
Lemma find_version_after vs0 d vs' v i :
  sorted vs0 -> vs0 = d ++ vs' -> find_version i vs0 = Some v ->
  (exists v', In v' vs' /\ vid v' = i) -> find_version i vs' = Some v.
Proof.
  intros Hs E Hf [v' [Hv' Ei]].
  apply find_version_in in Hf. destruct Hf as [Hv Evi].
  assert (v' = v).
  { apply (sorted_unique vs0); [exact Hs| |exact Hv|lia]. rewrite E. apply in_or_app. right. exact Hv'. }
  subst v'. rewrite <- Evi. apply find_version_sorted; [|exact Hv'].
  rewrite E in Hs. eapply sorted_app_r; exact Hs.
Qed.

Lemma find_version_snoc i vs v x : find_version i vs = Some v -> find_version i (vs ++ [x]) = Some v.
Proof.
  induction vs as [|a vs IH]; cbn; [discriminate|].
  destruct (vid a =? i); [tauto|exact IH].
Qed.

Lemma read_after_prune s p vs0 rs' vs' wt hs h c :
  Inv s -> sorted vs0 -> (forall i v, find_version i (versions s) = Some v -> find_version i vs0 = Some v) ->
  prune_post p vs0 rs' vs' ->
  find_reader h rs' = find_reader h (readers s) ->
  read s h = Some c ->
  read (mkSt vs' rs' p wt (next_h s) hs) h = Some c.
Proof.
  intros H Hs Hmono Hpp Hfr. unfold read. cbn. rewrite Hfr.
  destruct (find_reader h (readers s)) as [r|] eqn:Er; [|discriminate].
  destruct (find_version (rvid r) (versions s)) as [v|] eqn:Ev; [|discriminate].
  intros X; inversion X; subst. clear X.
  destruct Hpp as [[d [Evs _]] _ Hpins _].
  apply find_reader_in in Hfr. destruct Hfr as [Hr _].
  rewrite (find_version_after vs0 d vs' v (rvid r) Hs Evs (Hmono _ _ Ev) (Hpins r Hr)). reflexivity.
Qed.

Lemma step_read_stable s o h c :
  Inv s -> read s h = Some c -> o <> Close h -> read (step_st s o) h = Some c.
Proof.
  intros H Hr Hne. unfold step_st. destruct (step s o) as [[s' res]|e|e] eqn:E; try exact Hr.
  assert (Hreg : forall v, read (fst (register s v)) h = Some c).
  { intros v. unfold read in *. cbn.
    destruct (find_reader h (readers s)) as [r|] eqn:Er; [|discriminate].
    rewrite (find_reader_snoc _ _ _ _ Er). exact Hr. }
  assert (Hsp : forall p, set_policy s p = Ok (s', res) -> read s' h = Some c).
  { intros p. unfold set_policy.
    destruct (prune_ok p (versions s) (readers s) (inv_versions_sorted s H) (inv_nonempty s H) (inv_pinned s H))
      as [vs' [Ep Hpp]].
    rewrite Ep. cbn [bind]. intros X; inversion X; subst. clear X.
    eapply read_after_prune; [exact H|apply inv_versions_sorted; exact H|tauto|exact Hpp|reflexivity|exact Hr]. }
  destruct o; cbn [step] in E.
  - destruct (last_opt _); [|discriminate]. inversion E; subst. apply Hreg.
  - destruct (find_id_rev _ _); [|discriminate]. inversion E; subst. apply Hreg.
  - destruct (find_serial_rev _ _); [|discriminate]. inversion E; subst. apply Hreg.
  - discriminate.
  - destruct (h0 <? next_h s); [|discriminate]. destruct (has_reader _ _); [|discriminate].
    assert (Hsub : forall r0, In r0 (remove_reader h0 (readers s)) -> In r0 (readers s))
      by (intros r0; apply in_remove_reader).
    destruct (prune_ok (policy s) (versions s) (remove_reader h0 (readers s))
                (inv_versions_sorted s H) (inv_nonempty s H) (pins_subset s _ H Hsub)) as [vs' [Ep Hpp]].
    rewrite Ep in E. cbn [bind] in E. inversion E; subst. clear E.
    eapply read_after_prune; [exact H|apply inv_versions_sorted; exact H|tauto|exact Hpp| |exact Hr].
    apply find_reader_remove. intros ->. apply Hne. reflexivity.
  - destruct (wtxn s); [discriminate|]. inversion E; subst. exact Hr.
  - destruct (wtxn s); [|discriminate]. inversion E; subst. exact Hr.
  - destruct (wtxn s); [|discriminate]. inversion E; subst. exact Hr.
  - destruct (wtxn s) as [w|] eqn:Ew; [|discriminate]. destruct (wchanged w).
    + pose proof (inv_wid s H w Ew) as Eid.
      destruct (commit_sorted s w H Eid) as [Hsv _].
      assert (Hne' : versions s ++ [mkV (wid w) (wcont w)] <> []) by (destruct (versions s); discriminate).
      assert (Hpin : forall r0, In r0 (readers s) ->
                exists v, In v (versions s ++ [mkV (wid w) (wcont w)]) /\ vid v = rvid r0).
      { intros r0 Hr0. destruct (inv_pinned s H r0 Hr0) as [v [Hv E']]. exists v.
        split; [apply in_or_app; left; exact Hv|exact E']. }
      destruct (prune_ok (policy s) _ (readers s) Hsv Hne' Hpin) as [vs' [Ep Hpp]].
      rewrite Ep in E. cbn [bind] in E. inversion E; subst. clear E.
      eapply read_after_prune; [exact H|exact Hsv| |exact Hpp|reflexivity|exact Hr].
      intros i v. apply find_version_snoc.
    + inversion E; subst. exact Hr.
  - destruct (wtxn s); [|discriminate]. inversion E; subst. exact Hr.
  - destruct n as [n|]; [destruct (n <? 1); [discriminate|]|]; eapply Hsp; exact E.
  - eapply Hsp; exact E.
Qed.

Theorem snapshot_stable_from ops : forall s h c,
  Inv s -> read s h = Some c -> ~ In (Close h) ops -> read (run_ops s ops) h = Some c.
Proof.
  induction ops as [|o ops IH]; intros s h c H Hr Hn; [exact Hr|].
  change (run_ops s (o :: ops)) with (run_ops (step_st s o) ops). apply IH.
  - apply step_st_inv. exact H.
  - apply step_read_stable; [exact H|exact Hr|]. intros ->. apply Hn. left. reflexivity.
  - intros Hin. apply Hn. right. exact Hin.
Qed.

(* what a successful open returns is what the reader reads from then on *)
Lemma read_registered s v : Inv s -> In v (versions s) ->
  read (fst (register s v)) (next_h s) = Some (vcont v).
Proof.
  intros H Hv. unfold read. cbn.
  assert (Hf : find_reader (next_h s) (readers s ++ [mkR (next_h s) (vid v)]) = Some (mkR (next_h s) (vid v))).
  { pose proof (inv_handles s H) as Hh. induction (readers s) as [|a rs IH]; cbn.
    - rewrite Z.eqb_refl. reflexivity.
    - destruct (rh a =? next_h s) eqn:E.
      + specialize (Hh a (or_introl eq_refl)). lia.
      + apply IH. intros r Hr. apply Hh. right. exact Hr. }
  rewrite Hf. cbn. rewrite (find_version_sorted _ _ (inv_versions_sorted s H) Hv). reflexivity.
Qed.

Theorem open_reads_requested s o s' h i c :
  Inv s -> step s o = Ok (s', ROpened h i c) ->
  read s' h = Some c /\
  exists v, In v (versions s) /\ vid v = i /\ vcont v = c /\
    match o with
    | OpenLatest => last_opt (versions s) = Some v
    | OpenId j => i = j
    | OpenSerial x => serial_of c = Some x
    | _ => False
    end.
Proof.
  intros H. destruct o; cbn [step].
  - destruct (last_opt (versions s)) as [v|] eqn:E; [|discriminate].
    intros X. inversion X; subst.
    pose proof (last_opt_in _ _ E) as Hv.
    split; [apply (read_registered s v H Hv)|]. exists v. repeat split; assumption.
  - destruct (find_id_rev i0 (rev (versions s))) as [v|] eqn:E; [|discriminate].
    intros X. inversion X; subst. apply find_id_rev_in in E. destruct E as [Hv Ei].
    apply in_rev in Hv.
    split; [apply (read_registered s v H Hv)|]. exists v. repeat split; assumption.
  - destruct (find_serial_rev s0 (rev (versions s))) as [v|] eqn:E; [|discriminate].
    intros X. inversion X; subst. apply find_serial_rev_in in E. destruct E as [Hv Es].
    apply in_rev in Hv.
    split; [apply (read_registered s v H Hv)|]. exists v. repeat split; assumption.
  - discriminate.
  - destruct (h0 <? next_h s); [|discriminate]. destruct (has_reader _ _); [|discriminate].
    destruct (prune _ _ _); cbn; try discriminate.
  - destruct (wtxn s); discriminate.
  - destruct (wtxn s); discriminate.
  - destruct (wtxn s); discriminate.
  - destruct (wtxn s) as [w|]; [|discriminate]. destruct (wchanged w); [|discriminate].
    destruct (prune _ _ _); cbn; discriminate.
  - destruct (wtxn s); discriminate.
  - destruct n as [n|]; [destruct (n <? 1); [discriminate|]|]; unfold set_policy;
      destruct (prune _ _ _); cbn; discriminate.
  - unfold set_policy; destruct (prune _ _ _); cbn; discriminate.
Qed.

(* ------------------------------------------------------------------ pruning is justified *)

(* whatever an operation removed from the deque was removed by the loop of
   _prune_versions_unlocked: oldest first, each below least_kept and approved by the policy *)
Theorem prune_sound s o s' r : Inv s -> step s o = Ok (s', r) ->
  versions s' = versions s \/
  exists vs0 least, (vs0 = versions s \/ exists nv, vs0 = versions s ++ [nv] /\ hist s' = hist s ++ [nv]) /\
     least_kept vs0 (readers s') = Ok least /\ pruned (policy s') least vs0 (versions s').
Proof.
  intros H.
  assert (Hsp : forall p, set_policy s p = Ok (s', r) ->
     versions s' = versions s \/
     exists vs0 least, (vs0 = versions s \/ exists nv, vs0 = versions s ++ [nv] /\ hist s' = hist s ++ [nv]) /\
       least_kept vs0 (readers s') = Ok least /\ pruned (policy s') least vs0 (versions s')).
  { intros p. unfold set_policy.
    destruct (prune_ok p (versions s) (readers s) (inv_versions_sorted s H) (inv_nonempty s H) (inv_pinned s H))
      as [vs' [Ep Hpp]].
    rewrite Ep. cbn [bind]. intros X; inversion X; subst. clear X. right.
    destruct (pp_least _ _ _ _ Hpp) as [least [Hk Hpr]].
    exists (versions s), least. cbn. split; [left; reflexivity|]. split; assumption. }
  destruct o; cbn [step].
  - destruct (last_opt _); [|discriminate]. intros X; inversion X; subst. left. reflexivity.
  - destruct (find_id_rev _ _); [|discriminate]. intros X; inversion X; subst. left. reflexivity.
  - destruct (find_serial_rev _ _); [|discriminate]. intros X; inversion X; subst. left. reflexivity.
  - discriminate.
  - destruct (h <? next_h s); [|discriminate]. destruct (has_reader _ _); [|discriminate].
    assert (Hsub : forall r0, In r0 (remove_reader h (readers s)) -> In r0 (readers s))
      by (intros r0; apply in_remove_reader).
    destruct (prune_ok (policy s) (versions s) (remove_reader h (readers s))
                (inv_versions_sorted s H) (inv_nonempty s H) (pins_subset s _ H Hsub)) as [vs' [Ep Hpp]].
    rewrite Ep. cbn [bind]. intros X; inversion X; subst. clear X. right.
    destruct (pp_least _ _ _ _ Hpp) as [least [Hk Hpr]].
    exists (versions s), least. cbn. split; [left; reflexivity|]. split; assumption.
  - destruct (wtxn s); [discriminate|]. intros X; inversion X; subst. left. reflexivity.
  - destruct (wtxn s); [|discriminate]. intros X; inversion X; subst. left. reflexivity.
  - destruct (wtxn s); [|discriminate]. intros X; inversion X; subst. left. reflexivity.
  - destruct (wtxn s) as [w|] eqn:Ew; [|discriminate]. destruct (wchanged w).
    + pose proof (inv_wid s H w Ew) as Eid.
      destruct (commit_sorted s w H Eid) as [Hsv _].
      assert (Hne' : versions s ++ [mkV (wid w) (wcont w)] <> []) by (destruct (versions s); discriminate).
      assert (Hpin : forall r0, In r0 (readers s) ->
                exists v, In v (versions s ++ [mkV (wid w) (wcont w)]) /\ vid v = rvid r0).
      { intros r0 Hr0. destruct (inv_pinned s H r0 Hr0) as [v [Hv E']]. exists v.
        split; [apply in_or_app; left; exact Hv|exact E']. }
      destruct (prune_ok (policy s) _ (readers s) Hsv Hne' Hpin) as [vs' [Ep Hpp]].
      rewrite Ep. cbn [bind]. intros X; inversion X; subst. clear X. right.
      destruct (pp_least _ _ _ _ Hpp) as [least [Hk Hpr]].
      exists (versions s ++ [mkV (wid w) (wcont w)]), least. cbn.
      split; [right; eexists; split; reflexivity|]. split; assumption.
    + intros X; inversion X; subst. left. reflexivity.
  - destruct (wtxn s); [|discriminate]. intros X; inversion X; subst. left. reflexivity.
  - destruct n as [n|]; [destruct (n <? 1); [discriminate|]|]; apply Hsp.
  - apply Hsp.
Qed.

(* a commit that changed something publishes exactly one version whose id exceeds every id ever used *)
Theorem commit_id_fresh s s' r w :
  Inv s -> wtxn s = Some w -> wchanged w = true -> step s WCommit = Ok (s', r) ->
  hist s' = hist s ++ [mkV (wid w) (wcont w)] /\ forall v, In v (hist s) -> vid v < wid w.
Proof.
  intros H Ew Hc. cbn [step]. rewrite Ew, Hc.
  destruct (prune _ _ _); cbn; try discriminate. intros X; inversion X; subst. cbn.
  split; [reflexivity|]. intros v Hv. rewrite (inv_wid s H w Ew), <- (hist_next_id s H).
  apply next_id_gt; [apply (inv_hist_sorted s H)|exact Hv].
Qed.

(* reader(serial=) picks the NEWEST retained version carrying that serial *)
Lemma find_serial_rev_split x l v : find_serial_rev x l = Some v ->
  exists l1 l2, l = l1 ++ v :: l2 /\ forall u, In u l1 -> serial_of (vcont u) <> Some x.
Proof.
  induction l as [|a l IH]; cbn; [discriminate|].
  destruct (serial_of (vcont a)) as [s'|] eqn:Es.
  - destruct (s' =? x) eqn:E.
    + intros H; inversion H; subst. exists [], l. split; [reflexivity|]. intros u [].
    + intros H. destruct (IH H) as [l1 [l2 [-> Hn]]]. exists (a :: l1), l2. split; [reflexivity|].
      intros u [<-|Hu]; [rewrite Es; intros X; inversion X; lia|apply Hn; exact Hu].
  - intros H. destruct (IH H) as [l1 [l2 [-> Hn]]]. exists (a :: l1), l2. split; [reflexivity|].
    intros u [<-|Hu]; [rewrite Es; discriminate|apply Hn; exact Hu].
Qed.

Theorem open_serial_newest s x s' h i c :
  Inv s -> step s (OpenSerial x) = Ok (s', ROpened h i c) ->
  forall v', In v' (versions s) -> serial_of (vcont v') = Some x -> vid v' <= i.
Proof.
  intros H. cbn [step]. destruct (find_serial_rev x (rev (versions s))) as [v|] eqn:E; [|discriminate].
  intros X. inversion X; subst. clear X. intros v' Hv' Hs.
  destruct (find_serial_rev_split _ _ _ E) as [l1 [l2 [El Hn]]].
  assert (Evs : versions s = (rev l2 ++ [v]) ++ rev l1).
  { rewrite <- (rev_involutive (versions s)), El, rev_app_distr. cbn. reflexivity. }
  pose proof (inv_versions_sorted s H) as Hsort. rewrite Evs in Hsort, Hv'.
  apply in_app_or in Hv'. destruct Hv' as [Hv'|Hv'].
  - apply in_app_or in Hv'. destruct Hv' as [Hv'|[<-|[]]]; [|lia].
    assert (vid v' < vid v); [|lia].
    apply sorted_app_l in Hsort. eapply sorted_app_lt; [exact Hsort|exact Hv'|left; reflexivity].
  - exfalso. apply (Hn v'); [apply in_rev; exact Hv'|exact Hs].
Qed.

(* ------------------------------------------------------------------ statements over all histories *)

Definition after (ops : list op) : st := run_ops init ops.

Lemma after_app ops1 ops2 : after (ops1 ++ ops2) = run_ops (after ops1) ops2.
Proof. unfold after, run_ops. apply fold_left_app. Qed.

Lemma T_ids_strictly_increase ops1 ops2 :
  StronglySorted Z.lt (map vid (hist (after (ops1 ++ ops2)))) /\
  exists new, hist (after (ops1 ++ ops2)) = hist (after ops1) ++ new.
Proof.
  split; [apply (inv_hist_sorted _ (reachable_inv (ops1 ++ ops2)))|].
  rewrite after_app. apply run_ops_hist.
Qed.

Lemma T_retained_contiguous_suffix ops :
  exists dropped, hist (after ops) = dropped ++ versions (after ops).
Proof. apply (inv_suffix _ (reachable_inv ops)). Qed.

Lemma T_newest_retained ops :
  exists v, last_opt (versions (after ops)) = Some v /\ last_opt (hist (after ops)) = Some v.
Proof.
  destruct (inv_last _ (reachable_inv ops)) as [v E]. exists v. split; [exact E|].
  apply inv_last_hist; [apply reachable_inv|exact E].
Qed.

Lemma T_pinned_retained ops r :
  In r (readers (after ops)) -> exists v, In v (versions (after ops)) /\ vid v = rvid r.
Proof. apply (inv_pinned _ (reachable_inv ops)). Qed.

Lemma T_prune_maximal ops v rest :
  versions (after ops) = v :: rest ->
  rest = [] \/ (exists r, In r (readers (after ops)) /\ rvid r <= vid v) \/
  policy (after ops) (versions (after ops)) v = false.
Proof. apply (inv_maximal _ (reachable_inv ops)). Qed.

Lemma T_prune_sound ops o s' r :
  step (after ops) o = Ok (s', r) ->
  versions s' = versions (after ops) \/
  exists vs0 least,
    (vs0 = versions (after ops) \/
     exists nv, vs0 = versions (after ops) ++ [nv] /\ hist s' = hist (after ops) ++ [nv]) /\
    least_kept vs0 (readers s') = Ok least /\ pruned (policy s') least vs0 (versions s').
Proof. apply prune_sound. apply reachable_inv. Qed.

Lemma T_snapshot_stable ops1 ops2 h c :
  read (after ops1) h = Some c -> ~ In (Close h) ops2 -> read (after (ops1 ++ ops2)) h = Some c.
Proof.
  intros Hr Hn. rewrite after_app. apply snapshot_stable_from; [apply reachable_inv|exact Hr|exact Hn].
Qed.

Lemma T_open_reads_requested ops o s' h i c :
  step (after ops) o = Ok (s', ROpened h i c) ->
  read s' h = Some c /\
  exists v, In v (versions (after ops)) /\ vid v = i /\ vcont v = c /\
    match o with
    | OpenLatest => last_opt (versions (after ops)) = Some v
    | OpenId j => i = j
    | OpenSerial x => serial_of c = Some x
    | _ => False
    end.
Proof. apply open_reads_requested. apply reachable_inv. Qed.

Lemma T_no_internal_error ops o e : step (after ops) o <> Internal e.
Proof. apply step_no_internal. apply reachable_inv. Qed.

Lemma T_commit_id_fresh ops s' r w :
  wtxn (after ops) = Some w -> wchanged w = true -> step (after ops) WCommit = Ok (s', r) ->
  hist s' = hist (after ops) ++ [mkV (wid w) (wcont w)] /\ forall v, In v (hist (after ops)) -> vid v < wid w.
Proof. apply commit_id_fresh. apply reachable_inv. Qed.

Lemma T_open_serial_newest ops x s' h i c :
  step (after ops) (OpenSerial x) = Ok (s', ROpened h i c) ->
  forall v', In v' (versions (after ops)) -> serial_of (vcont v') = Some x -> vid v' <= i.
Proof. apply open_serial_newest. apply reachable_inv. Qed.
