(* C13 - faults on valid streams: a bad rcode / question in any message that is read, truncated
   AXFR; and what a completed transfer guarantees whatever was received. *)
From DV Require Import Base.Prelude Model.XfrM Proofs.XfrSets Proofs.XfrSpec Proofs.XfrZone Proofs.XfrDiff
  Proofs.XfrSafety Proofs.XfrBasic Proofs.XfrRun Proofs.XfrIxfr Proofs.XfrAxfr Proofs.XfrPerm Proofs.XfrOrder.

Definition bump (n : nat) (r : result * nat) : result * nat := (fst r, (n + snd r)%nat).

(* after messages whose records are processed without error and without completing the transfer,
   the driver goes on with the remaining messages from the state reached *)
Lemma cont_prefix : forall ws rest a s s1,
  running s -> Forall (header_ok (rdtype s)) ws ->
  loopn s (map single (a ++ concat (map w_records ws))) = (s1, None) -> done s1 = false ->
  (exists n, cont true (loop s (map single a)) (ws ++ rest) = bump n (drive true s1 rest))
  /\ running s1 /\ rdtype s1 = rdtype s /\ pub s1 = pub s.
Proof.
  induction ws as [|w ws IH]; intros rest a s s1 Hrun Hh Hl Hd1.
  - cbn [map concat] in Hl. rewrite app_nil_r in Hl.
    pose proof (loop_loopn _ _ _ Hl) as Hla. rewrite Hla. cbn [cont app]. rewrite Hd1.
    split; [exists 1%nat; destruct (drive true s1 rest); reflexivity|].
    split; [eapply running_after_loop; eassumption|].
    split; [apply loop_inv in Hla; tauto|].
    apply loop_pub in Hla. destruct Hla as [?|[_ [? _]]]; [assumption|congruence].
  - cbn [map concat] in Hl. rewrite map_app, loopn_app in Hl.
    destruct (loopn s (map single a)) as [sa [e|]] eqn:Ha; [discriminate|].
    pose proof (loopn_none_not_done _ _ _ Hl Hd1) as Hda.
    pose proof (loop_loopn _ _ _ Ha) as Hla. rewrite Hla. cbn [cont app]. rewrite Hda.
    pose proof (running_after_loop _ _ _ Hrun Hla Hda) as Hra.
    assert (Hrt : rdtype sa = rdtype s) by (apply loop_inv in Hla; tauto).
    assert (Hpa : pub sa = pub s).
    { apply loop_pub in Hla. destruct Hla as [?|[_ [? _]]]; [assumption|congruence]. }
    inversion Hh as [|? ? Hw Hws]; subst.
    rewrite drive_cons by solve_req. unfold from_wire. rewrite group_true.
    rewrite process_running; [|exact Hra|apply Hw|rewrite Hrt; apply Hw].
    cbn [m_answer].
    destruct (IH rest (w_records w) sa s1) as ([n Hn] & R1 & R2 & R3); auto.
    { rewrite Hrt. exact Hws. }
    rewrite Hn. split; [exists (S n); reflexivity|].
    split; [exact R1|]. split; congruence.
Qed.

Lemma process_bad_rcode : forall s m, m_rcode m <> 0 ->
  exists s', process_message s m = (s', Some eTransfer) /\ pub s' = pub s.
Proof.
  intros s m H. unfold process_message. apply Z.eqb_neq in H. rewrite H. cbn [negb].
  eexists. split; [reflexivity|]. destruct (txn s); reflexivity.
Qed.

Lemma process_bad_question : forall s m qn qt q, m_rcode m = 0 -> m_question m = (qn, qt) :: q ->
  (qn <> origin \/ qt <> rdtype s) ->
  exists s' e, process_message s m = (s', Some e) /\ (e = eQName \/ e = eQType) /\ pub s' = pub s.
Proof.
  intros s m qn qt q Hrc Hq Hbad. unfold process_message. rewrite Hrc, Hq. cbn [Z.eqb negb].
  assert (Hrd : rdtype (match txn s with
                        | Some _ => s
                        | None => set_txn s (Some (if incremental s then pub s else []))
                        end) = rdtype s) by (destruct (txn s); reflexivity).
  rewrite Hrd.
  destruct (qn =? origin) eqn:E1; cbn [negb].
  - destruct (qt =? rdtype s) eqn:E2; cbn [negb].
    + apply Z.eqb_eq in E1. apply Z.eqb_eq in E2. destruct Hbad; congruence.
    + eexists. exists eQType. split; [reflexivity|]. split; [auto|]. destruct (txn s); reflexivity.
  - eexists. exists eQName. split; [reflexivity|]. split; [auto|]. destruct (txn s); reflexivity.
Qed.

(* the state reached after the messages ws1 of a valid IXFR response that is not yet complete *)
Lemma ixfr_partial : forall v0 chain z0 ws1 q rest,
  chain_ok v0 chain -> zeq z0 (zone_of v0) ->
  Forall (header_ok tIXFR) ws1 -> q <> [] ->
  concat (map w_records ws1) ++ q = ixfr_stream v0 chain ->
  match ws1 with w :: _ => w_records w <> [] | [] => True end ->
  ws1 = [] \/
  exists s1 n, inbound_xfr z0 tIXFR (Some (v_serial v0)) false (ws1 ++ rest) = bump n (drive true s1 rest)
               /\ running s1 /\ rdtype s1 = tIXFR /\ pub s1 = z0.
Proof.
  intros v0 chain z0 ws1 q rest Hok Hz Hh Hq Hcat Hfirst.
  destruct ws1 as [|w ws']; [left; reflexivity|right].
  inversion Hh as [|? ? Hw Hws]; subst.
  destruct (w_records w) as [|r0 a] eqn:Hr; [congruence|].
  unfold ixfr_stream in Hcat. cbv zeta in Hcat. cbn [map concat] in Hcat. rewrite Hr in Hcat.
  cbn [app] in Hcat. inversion Hcat as [[E0 Hcat']]. subst r0. rewrite <- app_assoc in Hcat'.
  destruct (ixfr_records false v0 chain z0 Hok Hz) as (s1 & s2 & Hl & Hd1 & Hf & Hd2 & Hz2).
  pose proof Hok as (_ & _ & _ & Hser & Hlt).
  rewrite app_assoc in Hcat'. apply app_snoc_split in Hcat'.
  destruct Hcat' as [[c' [Hmid Hq']]|[_ Hq']]; [|congruence].
  rewrite Hmid, map_app, loopn_app in Hl.
  destruct (loopn _ (map single (a ++ concat (map w_records ws')))) as [sp [e|]] eqn:Hp; [discriminate|].
  pose proof (loopn_none_not_done _ _ _ Hl Hd1) as Hdp.
  destruct (cont_prefix ws' rest a (ist false z0 z0 (v_serial v0) (single (soa_rr (last chain v0))) true false) sp)
    as ([n Hn] & R1 & R2 & R3); try assumption.
  { repeat split; try reflexivity; discriminate. }
  exists sp, n. split; [|split; [exact R1|split; [exact R2|exact R3]]].
  unfold inbound_xfr, xfr_run. rewrite init_ixfr. cbn [Z.eqb tIXFR Pos.eqb app]. rewrite drive_cons by solve_req.
  rewrite (first_message_ixfr z0 (v_serial v0) false w (soa_rr (last chain v0)) a Hw Hr) by (split; reflexivity).
  cbv zeta. change (r_data (soa_rr (last chain v0)) mod two32) with (v_serial (last chain v0)).
  assert (Hne : (v_serial (last chain v0) =? v_serial v0) = false).
  { apply Z.eqb_neq. intros E. apply (Hser v0 (or_introl eq_refl)). symmetry. exact E. }
  rewrite Hne, Hlt. cbn [andb]. rewrite after_tcp by reflexivity.
  exact Hn.
Qed.

(* corrupt rcode: any message that is read before the transfer is complete *)
Theorem ixfr_rcode_fault_rejected : forall v0 chain z0 ws1 w' ws2 q,
  chain_ok v0 chain -> zeq z0 (zone_of v0) ->
  Forall (header_ok tIXFR) ws1 -> q <> [] ->
  concat (map w_records ws1) ++ q = ixfr_stream v0 chain ->
  match ws1 with w :: _ => w_records w <> [] | [] => True end ->
  w_rcode w' <> 0 ->
  exists n, inbound_xfr z0 tIXFR (Some (v_serial v0)) false (ws1 ++ w' :: ws2) = (Error eTransfer z0, n).
Proof.
  intros v0 chain z0 ws1 w' ws2 q Hok Hz Hh Hq Hcat Hfirst Hrc.
  destruct (ixfr_partial v0 chain z0 ws1 q (w' :: ws2) Hok Hz Hh Hq Hcat Hfirst) as [->|(s1 & n & Hn & R1 & R2 & R3)].
  - cbn [app]. unfold inbound_xfr, xfr_run. rewrite init_ixfr. cbn [Z.eqb tIXFR Pos.eqb]. rewrite drive_cons by solve_req.
    destruct (process_bad_rcode (ixfr_init z0 (v_serial v0) false) (from_wire true w') Hrc) as [s' [Hp Hpub]].
    rewrite Hp. cbn [cont]. rewrite Hpub. eexists; reflexivity.
  - rewrite Hn. rewrite drive_cons by solve_req.
    destruct (process_bad_rcode s1 (from_wire true w') Hrc) as [s' [Hp Hpub]].
    rewrite Hp. cbn [cont bump fst snd]. rewrite Hpub, R3. eexists; reflexivity.
Qed.

(* wrong question section in any message that is read *)
Theorem ixfr_question_fault_rejected : forall v0 chain z0 ws1 w' ws2 q qn qt qs,
  chain_ok v0 chain -> zeq z0 (zone_of v0) ->
  Forall (header_ok tIXFR) ws1 -> q <> [] ->
  concat (map w_records ws1) ++ q = ixfr_stream v0 chain ->
  match ws1 with w :: _ => w_records w <> [] | [] => True end ->
  w_rcode w' = 0 -> w_question w' = (qn, qt) :: qs -> (qn <> origin \/ qt <> tIXFR) ->
  exists e n, (e = eQName \/ e = eQType) /\
    inbound_xfr z0 tIXFR (Some (v_serial v0)) false (ws1 ++ w' :: ws2) = (Error e z0, n).
Proof.
  intros v0 chain z0 ws1 w' ws2 q qn qt qs Hok Hz Hh Hq Hcat Hfirst Hrc Hqq Hbad.
  destruct (ixfr_partial v0 chain z0 ws1 q (w' :: ws2) Hok Hz Hh Hq Hcat Hfirst) as [->|(s1 & n & Hn & R1 & R2 & R3)].
  - cbn [app]. unfold inbound_xfr, xfr_run. rewrite init_ixfr. cbn [Z.eqb tIXFR Pos.eqb]. rewrite drive_cons by solve_req.
    destruct (process_bad_question (ixfr_init z0 (v_serial v0) false) (from_wire true w') qn qt qs Hrc Hqq Hbad)
      as (s' & e & Hp & He & Hpub).
    rewrite Hp. cbn [cont]. rewrite Hpub. exists e. eexists. split; [exact He|reflexivity].
  - rewrite Hn. rewrite drive_cons by solve_req.
    assert (Hbad' : qn <> origin \/ qt <> rdtype s1) by (rewrite R2; exact Hbad).
    destruct (process_bad_question s1 (from_wire true w') qn qt qs Hrc Hqq Hbad') as (s' & e & Hp & He & Hpub).
    rewrite Hp. cbn [cont bump fst snd]. rewrite Hpub, R3. exists e. eexists. split; [exact He|reflexivity].
Qed.

(* a full transfer whose stream stops inside the body *)
Lemma cont_full_eof : forall ws one_rr g a rdt p tz ser s0,
  msg_parse_ok g -> msg_parse_ok (group one_rr) ->
  Forall (header_ok rdt) ws -> Forall plain (a ++ concat (map w_records ws)) -> quiet tz ->
  exists n, cont one_rr (loop (ast false rdt p tz ser s0) (g a)) ws = (Error eEOF p, n).
Proof.
  induction ws as [|w ws IH]; intros one_rr g a rdt p tz ser s0 Hg Hg1 Hh Hpl Hqt.
  - cbn [map concat] in Hpl. rewrite app_nil_r in Hpl. destruct Hg as (G1 & G2 & G3).
    rewrite (loop_loopn _ _ _ (loopn_addrs _ _ _ _ _ _ _ (G2 a Hpl) Hqt)). cbn. eauto.
  - cbn [map concat] in Hpl. apply Forall_app in Hpl. destruct Hpl as [Ha Hrest].
    destruct Hg as (G1 & G2 & G3).
    rewrite (loop_loopn _ _ _ (loopn_addrs _ _ _ _ _ _ _ (G2 a Ha) Hqt)).
    cbn [cont]. unfold ast at 1. cbn [done]. fold (ast false rdt p (addrs tz (g a)) ser s0).
    inversion Hh as [|? ? Hw Hws]; subst.
    rewrite drive_cons by solve_req. unfold from_wire.
    rewrite process_running; [|apply running_ast|apply Hw|apply Hw]. cbn [m_answer].
    destruct (IH one_rr (group one_rr) (w_records w) rdt p (addrs tz (g a)) ser s0 Hg1 Hg1 Hws Hrest (quiet_addrs _ _ (G2 a Ha) Hqt)) as [n Hn].
    rewrite Hn. eauto.
Qed.

(* "ends early" for AXFR: every proper prefix of the stream, in any division into messages *)
Theorem axfr_early_end_rejected : forall v z0 ser ws q,
  version_wf v -> Forall (header_ok tAXFR) ws -> q <> [] ->
  concat (map w_records ws) ++ q = axfr_stream v ->
  exists e n, inbound_xfr z0 tAXFR ser false ws = (Error e z0, n).
Proof.
  intros v z0 ser ws q [Httl Hwf] Hh Hq Hcat.
  destruct ws as [|w ws'].
  { unfold inbound_xfr, xfr_run. rewrite init_axfr. cbn. eauto. }
  inversion Hh as [|? ? Hw Hws]; subst.
  destruct (w_records w) as [|r0 a] eqn:Hr.
  { unfold inbound_xfr, xfr_run. rewrite init_axfr. cbn [Z.eqb tAXFR tIXFR Pos.eqb]. rewrite drive_cons by solve_req.
    unfold process_message, from_wire. cbn [txn axfr_init incremental pub set_txn rdtype m_rcode m_question m_answer].
    destruct Hw as [Hrc Hqq]. rewrite Hrc. cbn [Z.eqb negb]. rewrite (header_ok_question tAXFR w (conj Hrc Hqq)).
    cbn [soa]. rewrite Hr. cbn. eauto. }
  unfold axfr_stream in Hcat. cbn [map concat] in Hcat. rewrite Hr in Hcat.
  cbn [app] in Hcat. inversion Hcat as [[E0 Hcat']]. subst r0. rewrite <- app_assoc in Hcat'.
  rewrite app_assoc in Hcat'. apply app_snoc_split in Hcat'.
  destruct Hcat' as [[c' [Hbody Hq']]|[_ Hq']]; [|congruence].
  pose proof (body_plain _ Hwf) as Hpl. rewrite Hbody in Hpl. apply Forall_app in Hpl. destruct Hpl as [Hpl _].
  unfold inbound_xfr, xfr_run. rewrite init_axfr. cbn [Z.eqb tAXFR tIXFR Pos.eqb]. rewrite drive_cons by solve_req.
  rewrite (first_message_axfr z0 ser w (soa_rr v) a Hw Hr) by (split; reflexivity).
  destruct (cont_full_eof ws' false (map single) a tAXFR z0 [] (match ser with Some sv => sv | None => 0 end)
              (single (soa_rr v)) parse_single_ok parse_group_ok Hws Hpl quiet_nil) as [n Hn].
  exists eEOF, n. exact Hn.
Qed.

(* ---- what a completed transfer guarantees, whatever was received ---- *)


Lemma rrset_eqb_parts : forall a b, rrset_eqb a b = true ->
  s_name a = s_name b /\ s_type a = s_type b /\ s_covers a = s_covers b /\ set_eqb (s_data a) (s_data b) = true.
Proof.
  intros a b H. unfold rrset_eqb in H. rewrite !andb_true_iff, !Z.eqb_eq in H. tauto.
Qed.

Lemma step_commit : forall l s r s' o, step l s r = (s', o) ->
  pub s' = pub s \/ (exists s0, soa s = Some s0 /\ announced s0 (pub s')).
Proof.
  intros l s r s' o H. unfold step in H.
  destruct (done s) eqn:Hd. { inversion H; subst. left; auto. }
  destruct (txn s) as [tz|] eqn:Ht. 2:{ inversion H; subst. left; auto. }
  destruct ((s_type r =? tSOA) && (s_name r =? origin)) eqn:Hsoa.
  - apply andb_true_iff in Hsoa. destruct Hsoa as [Hty Hnm]. apply Z.eqb_eq in Hty. apply Z.eqb_eq in Hnm.
    cbn [incremental soa set_delmode] in H.
    match type of H with (if ?c then _ else _) = _ => destruct c eqn:Hfin end.
    + apply andb_true_iff in Hfin. destruct Hfin as [Heq _].
      destruct (soa s) as [s0|] eqn:Es; [|discriminate].
      destruct (soa_serial r) as [ss|]; [|inversion H; subst; left; reflexivity].
      cbn [expecting incremental serial set_delmode] in H.
      destruct (expecting s); [inversion H; subst; left; reflexivity|].
      match type of H with (if ?c then _ else _) = _ => destruct c end; [inversion H; subst; left; reflexivity|].
      assert (HC :
        res_of (set_delmode s (if incremental s then negb (delmode s) else delmode s)) (t_add true tz r)
          (fun tz' => (set_done (set_txn (set_pub (set_delmode s (if incremental s then negb (delmode s) else delmode s)) tz') None) true, None))
        = (s', o) \/ pub s' = pub s).
      { destruct l; [right; inversion H; subst; reflexivity| |].
        - cbn [req_tsig set_delmode] in H. rewrite andb_false_r in H. left; exact H.
        - cbn [req_tsig set_delmode] in H. rewrite andb_true_r in H.
          destruct (req_tsig s); [right; inversion H; subst; reflexivity|left; exact H]. }
      clear H. destruct HC as [H|HC]; [|left; exact HC].
      unfold t_add in H. destruct (s_data r) as [|d0 ds0] eqn:Ed; [inversion H; subst; left; reflexivity|]. rewrite <- Ed in H.
      destruct (negb (s_class r =? cIN)); [inversion H; subst; left; reflexivity|].
      destruct ((s_type r =? tSOA) && negb (s_name r =? origin)); [inversion H; subst; left; reflexivity|].
      cbn [res_of] in H. inversion H; subst. right. exists s0. split; [reflexivity|].
      cbn [pub set_done set_txn set_pub].
      apply rrset_eqb_parts in Heq. destruct Heq as (_ & _ & Hcv & Hds).
      exists (s_ttl r), (s_data r). split; [|exact Hds].
      unfold skey, node_put. rewrite Hnm, Hty, Hcv. rewrite look_zput, key_eqb_refl. reflexivity.
    + destruct (soa_serial r) as [ss|]; [|inversion H; subst; left; reflexivity].
      cbn [incremental set_expecting set_delmode serial] in H.
      destruct (incremental s).
      * match type of H with (if ?c then _ else _) = _ => destruct c end.
        -- match type of H with (if ?c then _ else _) = _ => destruct c end; inversion H; subst; left; reflexivity.
        -- apply res_of_pub in H. destruct H as [[tz' [_ Hk]]|[-> _]]; [inversion Hk; subst|]; left; reflexivity.
      * inversion H; subst; left; reflexivity.
  - destruct (expecting s).
    + match type of H with (if ?c then _ else _) = _ => destruct c end.
      * inversion H; subst. left; reflexivity.
      * cbn [delmode set_txn set_delmode] in H.
        apply res_of_pub in H. destruct H as [[tz' [_ Hk]]|[-> _]]; [inversion Hk; subst|]; left; reflexivity.
    + match type of H with (if ?c then _ else _) = _ => destruct c end.
      * inversion H; subst. left; reflexivity.
      * destruct (delmode s);
          apply res_of_pub in H; destruct H as [[tz' [_ Hk]]|[-> _]]; [inversion Hk; subst| |inversion Hk; subst|]; left; reflexivity.
Qed.

Lemma loop_commit : forall sg rs s s' o, loopT sg s rs = (s', o) ->
  pub s' = pub s \/ (exists s0, soa s = Some s0 /\ announced s0 (pub s')).
Proof.
  intros sg. induction rs as [|r rest IH]; intros s s' o H; cbn [loopT] in H.
  - inversion H; subst. left; reflexivity.
  - destruct (step _ s r) as [s1 [e|]] eqn:Hs.
    + inversion H; subst. apply step_commit in Hs. exact Hs.
    + pose proof (step_inv _ _ _ _ _ Hs) as (Hsoa & _).
      pose proof (step_pub _ _ _ _ _ Hs) as Hp.
      apply step_commit in Hs. apply IH in H.
      destruct Hp as [[Hp _]|(Hl & _ & _ & _)].
      * destruct H as [H|[s0 [Hs0 Ha]]].
        -- left. congruence.
        -- right. exists s0. split; [congruence|exact Ha].
      * (* the commit step is the last of the message *)
        destruct rest; [|exfalso; apply Hl; reflexivity]. clear IH.
        destruct Hs as [Hs|Hs]; [|destruct H as [H|[s0 [Hs0 Ha]]]].
        -- destruct H as [H|[s0 [Hs0 Ha]]]; [left; congruence|right; exists s0; split; [congruence|exact Ha]].
        -- destruct Hs as [s0 [Hs0 Ha]]. right. exists s0. split; [exact Hs0|]. rewrite H. exact Ha.
        -- right. exists s0. split; [congruence|exact Ha].
Qed.

Lemma after_same : forall (r : st * option Z) s' o,
  (match r with
   | (s1, Some e) => (s1, Some e)
   | (s1, None) => if is_udp s1 && negb (done s1) then (s1, Some eUDPEnd) else (s1, None)
   end) = (s', o) -> fst r = s'.
Proof.
  intros [s1 [e|]] s' o H; cbn [fst].
  - inversion H; reflexivity.
  - destruct (is_udp s1 && negb (done s1)); inversion H; reflexivity.
Qed.

(* one call: the SOA remembered from the first message never changes; a publication carries it *)
Lemma process_commit : forall s m s' o, process_message s m = (s', o) ->
  (forall s0, soa s = Some s0 -> soa s' = Some s0) /\
  (soa s = None -> o = None -> exists r0 rs, m_answer m = r0 :: rs /\ soa s' = Some r0) /\
  (pub s' = pub s \/ exists s0, soa s' = Some s0 /\ announced s0 (pub s')).
Proof.
  intros s m s' o H. unfold process_message in H.
  set (sx := match txn s with
             | None => set_txn s (Some (if incremental s then pub s else []))
             | Some _ => s end) in *.
  assert (Hp0 : pub sx = pub s) by (subst sx; destruct (txn s); reflexivity).
  assert (Hs0 : soa sx = soa s) by (subst sx; destruct (txn s); reflexivity).
  clearbody sx. rewrite <- Hp0, <- Hs0.
  assert (TRIV : forall e, (sx, Some e) = (s', o) ->
     (forall s0, soa sx = Some s0 -> soa s' = Some s0) /\
     (soa sx = None -> o = None -> exists r0 rs, m_answer m = r0 :: rs /\ soa s' = Some r0) /\
     (pub s' = pub sx \/ exists s0, soa s' = Some s0 /\ announced s0 (pub s'))).
  { intros e E. inversion E; subst. split; [auto|]. split; [intros _ F; discriminate|left; reflexivity]. }
  assert (LOOP : forall sa rs, soa sa <> None -> pub sa = pub sx ->
     (match loopT (m_tsig m) sa rs with
      | (s1, Some e) => (s1, Some e)
      | (s1, None) => if is_udp s1 && negb (done s1) then (s1, Some eUDPEnd) else (s1, None)
      end) = (s', o) ->
     soa s' = soa sa /\ (pub s' = pub sx \/ exists s0, soa s' = Some s0 /\ announced s0 (pub s'))).
  { intros sa rs Hsa Hpa HA. pose proof (after_same _ _ _ HA) as Hf.
    destruct (loopT (m_tsig m) sa rs) as [s1 o1] eqn:Hl. cbn [fst] in Hf. subst s1.
    pose proof (loop_inv _ _ _ _ _ Hl) as (Hsoa & _). split; [exact Hsoa|].
    apply loop_commit in Hl. destruct Hl as [Hl|[s0 [Hs Ha]]]; [left; congruence|].
    right. exists s0. split; [congruence|exact Ha]. }
  destruct (negb (m_rcode m =? 0)); [apply TRIV with (e := eTransfer); exact H|].
  match type of H with (match ?q with Some e => _ | None => _ end) = _ => destruct q as [eq|] end;
    [apply TRIV with (e := eq); exact H|].
  destruct (soa sx) as [s00|] eqn:Esx.
  - destruct (LOOP sx (m_answer m)) as [Hsoa Hpub]; [congruence|reflexivity|exact H|].
    split; [intros s0 E; inversion E; subst; congruence|]. split; [intros F; discriminate|exact Hpub].
  - split; [intros s0 F; discriminate|].
    destruct (m_answer m) as [|r0 rest].
    { inversion H; subst. split; [intros _ F; discriminate|left; reflexivity]. }
    destruct (negb (s_name r0 =? origin)).
    { inversion H; subst. split; [intros _ F; discriminate|left; reflexivity]. }
    destruct (negb (s_type r0 =? tSOA)).
    { inversion H; subst. split; [intros _ F; discriminate|left; reflexivity]. }
    cbn [incremental set_soa] in H.
    assert (FIN : forall sa, soa sa = Some r0 -> pub sa = pub sx ->
       (match loopT (m_tsig m) sa rest with
        | (s1, Some e) => (s1, Some e)
        | (s1, None) => if is_udp s1 && negb (done s1) then (s1, Some eUDPEnd) else (s1, None)
        end) = (s', o) ->
       (exists r1 rs, r0 :: rest = r1 :: rs /\ soa s' = Some r1) /\
       (pub s' = pub sx \/ exists s0, soa s' = Some s0 /\ announced s0 (pub s'))).
    { intros sa Hsa Hpa HA. destruct (LOOP sa rest) as [Hsoa Hpub]; [congruence|exact Hpa|exact HA|].
      split; [|exact Hpub]. exists r0, rest. split; [reflexivity|congruence]. }
    destruct (incremental sx).
    + destruct (soa_serial r0) as [ss|].
      2:{ inversion H; subst. split; [intros _ F; discriminate|left; reflexivity]. }
      cbn [serial is_udp set_soa] in H.
      destruct (ss =? serial sx).
      * destruct (FIN (set_done (set_soa sx (Some r0)) true) eq_refl eq_refl H) as [F1 F2].
        split; [intros _ _; exact F1|exact F2].
      * destruct (serial_lt ss (serial sx)).
        { inversion H; subst. split; [intros _ F; discriminate|left; reflexivity]. }
        match type of H with (if ?c then _ else _) = _ => destruct c end.
        { inversion H; subst. split; [intros _ F; discriminate|left; reflexivity]. }
        destruct (FIN (set_expecting (set_soa sx (Some r0)) true) eq_refl eq_refl H) as [F1 F2].
        split; [intros _ _; exact F1|exact F2].
    + destruct (FIN (set_soa sx (Some r0)) eq_refl eq_refl H) as [F1 F2].
      split; [intros _ _; exact F1|exact F2].
Qed.

Lemma drive_done_announced : forall ws one_rr s z' n,
  drive one_rr s ws = (Done z', n) ->
  z' = pub s \/
  match soa s with
  | Some s0 => announced s0 z'
  | None => exists w ws' r0 rs, ws = w :: ws' /\ group one_rr (w_records w) = r0 :: rs /\ announced r0 z'
  end.
Proof.
  induction ws as [|w ws IH]; intros one_rr s z' n H; cbn [drive] in H; [discriminate|].
  destruct (process_message s (from_wire one_rr w)) as [s' [e|]] eqn:Hp; [discriminate|].
  pose proof (process_commit _ _ _ _ Hp) as (Hkeep & Hset & Hpub).
  pose proof (process_message_pub _ _ _ _ Hp) as Hpp.
  assert (SOA' : match soa s with
                 | Some s0 => soa s' = Some s0
                 | None => exists r0 rs, group one_rr (w_records w) = r0 :: rs /\ soa s' = Some r0
                 end).
  { destruct (soa s) as [s0|] eqn:Es; [apply Hkeep; reflexivity|].
    destruct (Hset eq_refl eq_refl) as [r0 [rs [Ha Hs']]]. exists r0, rs. split; [exact Ha|exact Hs']. }
  destruct (done s') eqn:Hd.
  - destruct (req_tsig s' && negb (w_tsig w)); [discriminate|].
    inversion H; subst. destruct Hpub as [Hpub|[s0 [Hs0 Ha]]]; [left; exact Hpub|right].
    destruct (soa s) as [s00|].
    + rewrite SOA' in Hs0. inversion Hs0; subst. exact Ha.
    + destruct SOA' as [r0 [rs [Hg Hs']]]. rewrite Hs' in Hs0. inversion Hs0; subst.
      exists w, ws, s0, rs. auto.
  - destruct (drive one_rr s' ws) as [r n'] eqn:Hdr. inversion H; subst.
    assert (Hps : pub s' = pub s) by (destruct Hpp as [?|[_ [? _]]]; [assumption|congruence]).
    apply IH in Hdr. destruct Hdr as [Hz|Hz]; [left; congruence|right].
    destruct (soa s) as [s00|].
    + rewrite SOA' in Hz. exact Hz.
    + destruct SOA' as [r0 [rs [Hg Hs']]]. rewrite Hs' in Hz. exists w, ws, r0, rs. auto.
Qed.

(* A completed transfer, whatever was received: the zone is untouched (the up-to-date answer), or
   it holds the SOA announced by the first record of the response - hence the server's serial. *)
Theorem done_has_announced_soa_t : forall req z rdt ser udp ws z' n,
  xfr_run req z rdt ser udp ws = (Done z', n) ->
  z' = z \/ exists w ws' r0 rs, ws = w :: ws' /\ group (rdt =? tIXFR) (w_records w) = r0 :: rs
                                 /\ announced r0 z'.
Proof.
  intros req z rdt ser udp ws z' n H. unfold xfr_run in H.
  destruct (init_t req z rdt ser udp) as [s|e] eqn:Hi; [|discriminate].
  assert (Hs : pub s = z /\ soa s = None).
  { unfold init_t in Hi. destruct (rdt =? tIXFR).
    - destruct ser; inversion Hi; auto.
    - destruct (rdt =? tAXFR); [|discriminate]. destruct udp; inversion Hi; auto. }
  destruct Hs as [Hp Hsoa]. apply drive_done_announced in H. rewrite Hp, Hsoa in H. exact H.
Qed.

Theorem done_has_announced_soa : forall z rdt ser udp ws z' n,
  inbound_xfr z rdt ser udp ws = (Done z', n) ->
  z' = z \/ exists w ws' r0 rs, ws = w :: ws' /\ group (rdt =? tIXFR) (w_records w) = r0 :: rs
                                 /\ announced r0 z'.
Proof. intros z rdt ser udp ws z' n. apply done_has_announced_soa_t. Qed.

(* UDP: the datagram holds the first SOA and a proper, non-empty prefix of the rest of a valid
   response: "unexpected end of UDP IXFR" *)
Theorem udp_incomplete_rejected : forall v0 chain z0 w a q,
  chain_ok v0 chain -> zeq z0 (zone_of v0) -> header_ok tIXFR w ->
  a <> [] -> q <> [] ->
  w_records w = soa_rr (last chain v0) :: a ->
  soa_rr (last chain v0) :: a ++ q = ixfr_stream v0 chain ->
  forall ws, inbound_xfr z0 tIXFR (Some (v_serial v0)) true (w :: ws) = (Error eUDPEnd z0, 0%nat).
Proof.
  intros v0 chain z0 w a q Hok Hz Hw Ha Hq Hr Hcat ws.
  unfold ixfr_stream in Hcat. cbv zeta in Hcat. inversion Hcat as [Hcat'].
  destruct (ixfr_records true v0 chain z0 Hok Hz) as (s1 & s2 & Hl & Hd1 & Hf & Hd2 & Hz2).
  pose proof Hok as (_ & _ & _ & Hser & Hlt).
  apply app_snoc_split in Hcat'. destruct Hcat' as [[c' [Hmid Hq']]|[_ Hq']]; [|congruence].
  rewrite Hmid, map_app, loopn_app in Hl.
  destruct (loopn _ (map single a)) as [sp [e|]] eqn:Hp; [discriminate|].
  pose proof (loopn_none_not_done _ _ _ Hl Hd1) as Hdp.
  pose proof (loop_loopn _ _ _ Hp) as Hlp.
  assert (Hpub : pub sp = z0).
  { apply loop_pub in Hlp. destruct Hlp as [?|[_ [? _]]]; [assumption|congruence]. }
  assert (Hudp : is_udp sp = true) by (apply loop_inv in Hlp; destruct Hlp as (_ & H & _); exact H).
  unfold inbound_xfr, xfr_run. rewrite init_ixfr. cbn [Z.eqb tIXFR Pos.eqb]. rewrite drive_cons by solve_req.
  rewrite (first_message_ixfr z0 (v_serial v0) true w (soa_rr (last chain v0)) a Hw Hr) by (split; reflexivity).
  cbv zeta. change (r_data (soa_rr (last chain v0)) mod two32) with (v_serial (last chain v0)).
  assert (Hne : (v_serial (last chain v0) =? v_serial v0) = false).
  { apply Z.eqb_neq. intros E. apply (Hser v0 (or_introl eq_refl)). symmetry. exact E. }
  rewrite Hne, Hlt.
  assert (Hnn : (match a with [] => true | _ :: _ => false end) = false) by (destruct a; [congruence|reflexivity]).
  rewrite Hnn. cbn [andb].
  change (set_expecting (set_soa (set_txn (ixfr_init z0 (v_serial v0) true) (Some z0))
            (Some (single (soa_rr (last chain v0))))) true)
    with (ist true z0 z0 (v_serial v0) (single (soa_rr (last chain v0))) true false).
  rewrite Hlp, Hudp, Hdp. cbn [andb negb cont]. rewrite Hpub. reflexivity.
Qed.

(* ---- corrupt serial ---- *)
Lemma app_mid_split : forall {A} (a X c : list A) x rest, a ++ X = c ++ x :: rest ->
  (exists c', c = a ++ c' /\ X = c' ++ x :: rest) \/ (exists a', a = c ++ x :: a').
Proof.
  intros A. induction a as [|y a IH]; intros X c x rest H.
  - left. exists c. auto.
  - destruct c as [|z c]; cbn [app] in H.
    + inversion H; subst. right. exists a. reflexivity.
    + inversion H; subst. destruct (IH _ _ _ _ H2) as [[c' [-> ->]]|[a' ->]].
      * left. exists c'. auto.
      * right. exists a'. reflexivity.
Qed.

Lemma loop_app_error : forall l1 s s1 y l2 s' e,
  loopn s l1 = (s1, None) -> (forall l, step l s1 y = (s', Some e)) ->
  loop s (l1 ++ y :: l2) = (s', Some e).
Proof.
  induction l1 as [|r l1 IH]; intros s s1 y l2 s' e Hl Hy; cbn [app loopT loopn] in *.
  - inversion Hl; subst. rewrite Hy. reflexivity.
  - assert (E : match l1 ++ y :: l2 with [] => Last | _ :: _ => Mid end = Mid) by (destruct l1; reflexivity).
    rewrite E. destruct (step Mid s r) as [sa [e0|]]; [discriminate|]. eapply IH; eassumption.
Qed.

(* an error that is certain once the records c have been processed, wherever the message
   boundaries are *)
Lemma cont_error_after : forall ws a s c x rest s1 s' e,
  running s -> Forall (header_ok (rdtype s)) ws ->
  a ++ concat (map w_records ws) = c ++ x :: rest ->
  loopn s (map single c) = (s1, None) -> done s1 = false ->
  (forall l, step l s1 (single x) = (s', Some e)) ->
  exists n, cont true (loop s (map single a)) ws = (Error e (pub s'), n).
Proof.
  induction ws as [|w ws IH]; intros a s c x rest s1 s' e Hrun Hh Hcat Hl Hd1 Hx.
  - cbn [map concat] in Hcat. rewrite app_nil_r in Hcat. subst a.
    rewrite map_app. cbn [map]. rewrite (loop_app_error _ _ _ _ _ _ _ Hl Hx). cbn [cont]. eauto.
  - apply app_mid_split in Hcat. destruct Hcat as [[c' [-> Hrest]]|[a' ->]].
    + rewrite map_app, loopn_app in Hl.
      destruct (loopn s (map single a)) as [sa [e0|]] eqn:Ha; [discriminate|].
      pose proof (loopn_none_not_done _ _ _ Hl Hd1) as Hda.
      pose proof (loop_loopn _ _ _ Ha) as Hla. rewrite Hla. cbn [cont]. rewrite Hda.
      pose proof (running_after_loop _ _ _ Hrun Hla Hda) as Hra.
      assert (Hrt : rdtype sa = rdtype s) by (apply loop_inv in Hla; tauto).
      inversion Hh as [|? ? Hw Hws]; subst.
      rewrite drive_cons by solve_req. unfold from_wire. rewrite group_true.
      rewrite process_running; [|exact Hra|apply Hw|rewrite Hrt; apply Hw].
      cbn [m_answer]. cbn [map concat] in Hrest.
      destruct (IH (w_records w) sa c' x rest s1 s' e) as [n Hn]; auto.
      { rewrite Hrt. exact Hws. }
      rewrite Hn. eauto.
    + rewrite map_app. cbn [map]. rewrite (loop_app_error _ _ _ _ _ _ _ Hl Hx). cbn [cont]. eauto.
Qed.

Lemma step_bad_base : forall l u p tz ser vn e bad,
  v_soa bad <> v_soa vn -> v_serial bad <> ser ->
  step l (ist u p tz ser (single (soa_rr vn)) e false) (single (soa_rr bad)) =
  (ist u p tz ser (single (soa_rr vn)) false true, Some eBaseMismatch).
Proof.
  intros l u p tz ser vn e bad Hsoa Hser. unfold step, ist. cbn [done txn incremental delmode soa set_delmode negb].
  change ((s_type (single (soa_rr bad)) =? tSOA) && (s_name (single (soa_rr bad)) =? origin)) with true. cbv iota.
  rewrite soa_eqb. apply Z.eqb_neq in Hsoa. rewrite Hsoa. cbn [andb].
  rewrite soa_serial_single. cbn [incremental set_expecting set_delmode serial delmode].
  apply Z.eqb_neq in Hser. rewrite Hser. reflexivity.
Qed.

(* Corrupt serial: after any number of correct difference sequences (pre, possibly none), the next
   SOA - the start of the next deletion section or the final SOA - carries a serial that is not the
   current one: "IXFR base serial mismatch", zone untouched.  (bad is any SOA record, given as the
   SOA of a pseudo-version; rest is whatever follows.) *)
Theorem ixfr_corrupt_serial_rejected : forall v0 pre vn bad rest z0 ws,
  version_wf v0 -> Forall version_wf pre -> zeq z0 (zone_of v0) ->
  (forall v, In v (v0 :: removelast pre) -> v_soa v <> v_soa vn) ->
  v_serial vn <> v_serial v0 -> serial_lt (v_serial vn) (v_serial v0) = false ->
  v_soa bad <> v_soa vn -> v_serial bad <> v_serial (last pre v0) ->
  chunking tIXFR (soa_rr vn :: diff_seqs v0 pre ++ soa_rr bad :: rest) ws ->
  exists n, inbound_xfr z0 tIXFR (Some (v_serial v0)) false ws = (Error eBaseMismatch z0, n).
Proof.
  intros v0 pre vn bad rest z0 ws Hv0 Hpre Hz Hd Hne Hlt Hbs Hbser Hch.
  apply chunking_first in Hch. destruct Hch as (w & ws' & a & -> & Hr & Hw & Hws & Hcat).
  unfold inbound_xfr, xfr_run. rewrite init_ixfr. cbn [Z.eqb tIXFR Pos.eqb]. rewrite drive_cons by solve_req.
  rewrite (first_message_ixfr z0 (v_serial v0) false w (soa_rr vn) a Hw Hr) by (split; reflexivity).
  cbv zeta. change (r_data (soa_rr vn) mod two32) with (v_serial vn).
  apply Z.eqb_neq in Hne. rewrite Hne, Hlt. cbn [andb]. rewrite after_tcp by reflexivity.
  assert (Hrun : running (ist false z0 z0 (v_serial v0) (single (soa_rr vn)) true false)).
  { repeat split; try reflexivity; discriminate. }
  assert (RUN : exists tz' e', loopn (ist false z0 z0 (v_serial v0) (single (soa_rr vn)) true false)
                                 (map single (diff_seqs v0 pre)) =
                               (ist false z0 tz' (v_serial (last pre v0)) (single (soa_rr vn)) e' false, None)).
  { destruct pre as [|p1 pre'].
    - exists z0, true. reflexivity.
    - destruct (chain_run false (p1 :: pre') z0 z0 vn v0 true) as [tz' [Hl _]]; try assumption; [discriminate| |].
      + intros k Hk. rewrite Hz, look_zone_of. apply key_eqb_neq in Hk. rewrite Hk. reflexivity.
      + exists tz', false. exact Hl. }
  destruct RUN as [tz' [e' Hl]].
  destruct (cont_error_after ws' a _ (diff_seqs v0 pre) (soa_rr bad) rest _ _ eBaseMismatch Hrun Hws Hcat Hl eq_refl
              (fun l => step_bad_base l false z0 tz' (v_serial (last pre v0)) vn e' bad Hbs Hbser)) as [n Hn].
  exists n. exact Hn.
Qed.

(* ---- a deletion that does not apply (duplicate of a deleted record, corrupt owner / type /
        rdata of a deleted record, ...) ---- *)

Lemma fd_zeq_dels : forall x a b a', zeq a b -> dels a x = Some a' ->
  exists b', dels b x = Some b' /\ zeq b' a'.
Proof.
  intros x a b a' H Hd.
  assert (F : forall k, fd k (look b k) x = Some (look a' k)).
  { intros k. rewrite <- H. apply look_dels_fd, Hd. }
  destruct (dels_fd_complete x b) as [b' Hb].
  { intros k. rewrite F. discriminate. }
  exists b'. split; [exact Hb|]. intros k.
  pose proof (look_dels_fd _ _ _ Hb k) as G. rewrite F in G. inversion G; reflexivity.
Qed.

Theorem ixfr_bad_delete_rejected : forall v0 pre vn D1 r z1 rest z0 ws,
  version_wf v0 -> Forall version_wf pre -> zeq z0 (zone_of v0) ->
  (forall v, In v (v0 :: removelast pre ++ [last pre v0]) -> v_soa v <> v_soa vn) ->
  v_serial vn <> v_serial v0 -> serial_lt (v_serial vn) (v_serial v0) = false ->
  Forall plain D1 -> plain r ->
  dels (zone_of (last pre v0)) D1 = Some z1 -> del1 (look z1 (rkey r)) (r_data r) = None ->
  chunking tIXFR (soa_rr vn :: diff_seqs v0 pre ++ soa_rr (last pre v0) :: D1 ++ r :: rest) ws ->
  exists n, inbound_xfr z0 tIXFR (Some (v_serial v0)) false ws = (Error eDeleteNotExact z0, n).
Proof.
  intros v0 pre vn D1 r z1 rest z0 ws Hv0 Hpre Hz Hd Hne Hlt HD1 Hr Hdels Hdel Hch.
  apply chunking_first in Hch. destruct Hch as (w & ws' & a & -> & Hrec & Hw & Hws & Hcat).
  unfold inbound_xfr, xfr_run. rewrite init_ixfr. cbn [Z.eqb tIXFR Pos.eqb]. rewrite drive_cons by solve_req.
  rewrite (first_message_ixfr z0 (v_serial v0) false w (soa_rr vn) a Hw Hrec) by (split; reflexivity).
  cbv zeta. change (r_data (soa_rr vn) mod two32) with (v_serial vn).
  apply Z.eqb_neq in Hne. rewrite Hne, Hlt. cbn [andb]. rewrite after_tcp by reflexivity.
  assert (Hrun : running (ist false z0 z0 (v_serial v0) (single (soa_rr vn)) true false)).
  { repeat split; try reflexivity; discriminate. }
  set (vi := last pre v0) in *.
  assert (RUN : exists tz' e', loopn (ist false z0 z0 (v_serial v0) (single (soa_rr vn)) true false)
                                 (map single (diff_seqs v0 pre)) =
                               (ist false z0 tz' (v_serial vi) (single (soa_rr vn)) e' false, None)
                               /\ zeq tz' (zone_of vi)).
  { destruct pre as [|p1 pre'].
    - exists z0, true. split; [reflexivity|exact Hz].
    - destruct (chain_run false (p1 :: pre') z0 z0 vn v0 true) as [tz' [Hl Hz']]; try assumption; [discriminate| | |].
      + intros v Hin. apply Hd. destruct Hin as [<-|Hin]; [left; reflexivity|right; apply in_or_app; left; exact Hin].
      + intros k Hk. rewrite Hz, look_zone_of. apply key_eqb_neq in Hk. rewrite Hk. reflexivity.
      + exists tz', false. split; [exact Hl|exact Hz']. }
  destruct RUN as [tz' [e' [Hl Hz']]].
  destruct (fd_zeq_dels D1 _ tz' z1 (zeq_sym _ _ Hz') Hdels) as [z1' [Hd1' Hz1]].
  assert (Hqt : quiet tz') by (apply (zeq_zone_of_quiet _ vi); [apply version_wf_last; assumption|exact Hz']).
  assert (Hq1 : quiet z1') by (apply (quiet_dels _ _ _ Hd1' Hqt)).
  assert (Hvi : v_soa vi <> v_soa vn).
  { apply Hd. right. apply in_or_app. right. left. reflexivity. }
  (* the records up to the bad deletion run without error *)
  assert (Hl2 : loopn (ist false z0 z0 (v_serial v0) (single (soa_rr vn)) true false)
                  (map single (diff_seqs v0 pre ++ soa_rr vi :: D1)) =
                (ist false z0 z1' (v_serial vi) (single (soa_rr vn)) false true, None)).
  { rewrite map_app, loopn_app, Hl. cbn [map loopn]. rewrite step_del_start by exact Hvi.
    unfold ist at 1. rewrite (loopn_dels _ _ _ z1') by assumption. reflexivity. }
  assert (Hbad : forall l, step l (ist false z0 z1' (v_serial vi) (single (soa_rr vn)) false true) (single r) =
                           (ist false z0 z1' (v_serial vi) (single (soa_rr vn)) false true, Some eDeleteNotExact)).
  { intros l. unfold ist. rewrite step_plain_del by assumption. rewrite Hz1, Hdel. reflexivity. }
  assert (Hcat2 : a ++ concat (map w_records ws') = (diff_seqs v0 pre ++ soa_rr vi :: D1) ++ r :: rest).
  { rewrite Hcat, <- app_assoc. reflexivity. }
  destruct (cont_error_after ws' a _ _ r rest _ _ eDeleteNotExact Hrun Hws Hcat2 Hl2 eq_refl Hbad) as [n Hn].
  exists n. exact Hn.
Qed.
