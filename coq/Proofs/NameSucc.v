(* C06: RFC 4471 successor / predecessor are strictly after / before the name (or the
   documented wrap to the origin); they never raise a Python-level exception. *)
From DV Require Import Base.Prelude Model.NameM Proofs.NameOrder Proofs.NameValid Proofs.NameRel.
Open Scope Z_scope.

(* ---------- lexicographic helpers ---------- *)

Lemma lex_app_common {A} (cmp : A -> A -> comparison) :
  (forall x, cmp x x = Eq) ->
  forall k a b, lex cmp (k ++ a) (k ++ b) = lex cmp a b.
Proof. intros R. induction k as [|x k IH]; intros a b; [reflexivity|]. cbn. rewrite R. apply IH. Qed.

Lemma cmp_bytes_app_common k a b : cmp_bytes (k ++ a) (k ++ b) = cmp_bytes a b.
Proof. rewrite !cmp_bytes_lex. apply lex_app_common. apply Z.compare_refl. Qed.

Lemma cmp_bytes_prefix_lt a t : t <> [] -> cmp_bytes a (a ++ t) = Lt.
Proof.
  intros Ht. rewrite <- (app_nil_r a) at 1. rewrite cmp_bytes_app_common.
  destruct t; [congruence|reflexivity].
Qed.

Lemma cmp_bytes_diff_lt k x y t t' : x < y -> cmp_bytes (k ++ x :: t) (k ++ y :: t') = Lt.
Proof.
  intros H. rewrite cmp_bytes_app_common. cbn. apply Z.compare_lt_iff in H. rewrite H. reflexivity.
Qed.

Lemma lower_l_app a b : lower_l (a ++ b) = lower_l a ++ lower_l b.
Proof. apply map_app. Qed.

Lemma ci_key_app (a b : name) : ci_key (a ++ b) = ci_key b ++ ci_key a.
Proof. unfold ci_key. rewrite map_app, rev_app_distr. reflexivity. Qed.

Lemma ci_key_cons l (n : name) : ci_key (l :: n) = ci_key n ++ [lower_l l].
Proof. unfold ci_key. reflexivity. Qed.

Lemma is_absolute_app_ne (a b : name) : b <> [] -> is_absolute (a ++ b) = is_absolute b.
Proof. destruct b; [congruence|]. intros _. apply is_absolute_app. Qed.

(* a strictly smaller label in front of ci-equal suffixes decides the order *)
Lemma order_label_lt (pre pre' : name) l l' (suf suf' : name) :
  ci_equal suf suf' -> suf <> [] ->
  cmp_bytes (lower_l l) (lower_l l') = Lt ->
  order (pre ++ l :: suf) (pre' ++ l' :: suf') < 0.
Proof.
  intros C Hs Hl. apply order_lt. unfold canon_cmp.
  assert (suf' <> []) as Hs' by (apply ci_equal_length in C; destruct suf, suf'; cbn in *; congruence).
  replace (pre ++ l :: suf) with ((pre ++ [l]) ++ suf) by (rewrite <- app_assoc; reflexivity).
  replace (pre' ++ l' :: suf') with ((pre' ++ [l']) ++ suf') by (rewrite <- app_assoc; reflexivity).
  rewrite !is_absolute_app_ne by assumption.
  rewrite (ci_equal_absolute _ _ C).
  assert (lex cmp_bytes (ci_key ((pre ++ [l]) ++ suf)) (ci_key ((pre' ++ [l']) ++ suf')) = Lt) as ->.
  { rewrite !ci_key_app. apply ci_key_eq in C. rewrite C.
    rewrite lex_app_common by apply cmp_bytes_refl.
    change (ci_key [l]) with [lower_l l]. change (ci_key [l']) with [lower_l l'].
    cbn [app lex]. rewrite Hl. reflexivity. }
  destruct (is_absolute suf'); reflexivity.
Qed.

(* a proper ancestor sorts strictly before *)
Lemma order_ancestor_lt (pre' suf suf' : name) :
  ci_equal suf suf' -> suf <> [] -> pre' <> [] -> order suf (pre' ++ suf') < 0.
Proof.
  intros C Hs Hp. apply order_lt. unfold canon_cmp.
  assert (suf' <> []) as Hs' by (apply ci_equal_length in C; destruct suf, suf'; cbn in *; congruence).
  rewrite is_absolute_app_ne by assumption. rewrite (ci_equal_absolute _ _ C).
  assert (lex cmp_bytes (ci_key suf) (ci_key (pre' ++ suf')) = Lt) as ->.
  { rewrite ci_key_app. apply ci_key_eq in C. rewrite C.
    rewrite <- (app_nil_r (ci_key suf')) at 1. rewrite lex_app_common by apply cmp_bytes_refl.
    unfold ci_key. destruct pre' as [|x pre'] using rev_ind; [congruence|].
    rewrite map_app, rev_app_distr. reflexivity. }
  destruct (is_absolute suf'); reflexivity.
Qed.

(* the order of two names with ci-equal suffixes is the order of the prefixes *)
Lemma canon_cmp_app_cancel (a b o o' : name) :
  ci_equal o o' -> o <> [] -> is_absolute a = is_absolute b ->
  canon_cmp (a ++ o) (b ++ o') = canon_cmp a b.
Proof.
  intros C Ho Hab. unfold canon_cmp.
  assert (o' <> []) as Ho' by (apply ci_equal_length in C; destruct o, o'; cbn in *; congruence).
  rewrite !is_absolute_app_ne by assumption. rewrite (ci_equal_absolute _ _ C), Hab.
  rewrite !ci_key_app. apply ci_key_eq in C. rewrite C.
  rewrite lex_app_common by apply cmp_bytes_refl.
  destruct (is_absolute o'), (is_absolute b); reflexivity.
Qed.

(* ---------- subdomain structure ---------- *)

Lemma sub_not_eq_split m o :
  is_subdomain m o = true -> name_eqb m o = false ->
  exists l p s, m = l :: p ++ s /\ ci_equal s o.
Proof.
  intros S E. apply is_subdomain_iff in S. destruct S as [_ (p & s & -> & Hs)].
  destruct p as [|l p].
  - exfalso. cbn in E. assert (name_eqb s o = true) by (apply name_eqb_iff_ci; exact Hs). congruence.
  - exists l, p, s. auto.
Qed.

Lemma is_subdomain_ext (pre m o : name) :
  m <> [] -> is_subdomain m o = true -> is_subdomain (pre ++ m) o = true.
Proof.
  intros Hm S. apply is_subdomain_iff in S. destruct S as [A (p & s & -> & Hs)].
  apply is_subdomain_iff. split.
  - rewrite is_absolute_app_ne by assumption. exact A.
  - exists (pre ++ p), s. rewrite app_assoc. auto.
Qed.

Lemma is_subdomain_suffix (p s o : name) :
  ci_equal s o -> s <> [] -> is_subdomain (p ++ s) o = true.
Proof.
  intros C Hs. apply is_subdomain_iff. split.
  - rewrite is_absolute_app_ne by assumption. apply ci_equal_absolute, C.
  - exists p, s. auto.
Qed.

Lemma ci_equal_ne (a b : name) : ci_equal a b -> b <> [] -> a <> [].
Proof. intros C H ->. apply ci_equal_length in C. destruct b; cbn in *; congruence. Qed.

Lemma absolute_ne n : is_absolute n = true -> n <> [].
Proof. intros H ->. discriminate. Qed.

(* ---------- replacing the first label of a valid name ---------- *)

Lemma Valid_replace_head l l' (y : label) (n : name) :
  Valid (l :: y :: n) -> l' <> [] -> zlen l' <= zlen l -> Valid (l' :: y :: n).
Proof.
  intros (V1 & V2 & V3) Hne Hlen. inversion V1; subst.
  rewrite removelast_cons2 in V3. inversion V3; subst.
  repeat split.
  - constructor; [lia|assumption].
  - rewrite wire_length_cons in *. lia.
  - rewrite removelast_cons2. constructor; assumption.
Qed.

(* ---------- the octet increment / decrement rules ---------- *)

Definition bump (x : Z) : Z := if x =? 64 then 91 else if x =? 90 then 123 else x + 1.

Lemma bump_lt x : lower x < lower (bump x).
Proof.
  unfold bump, lower.
  destruct (x =? 64) eqn:E1; [cbn; apply Z.eqb_eq in E1; subst; cbn; lia|].
  destruct (x =? 90) eqn:E2; [cbn; apply Z.eqb_eq in E2; subst; cbn; lia|].
  destruct ((65 <=? x) && (x <=? 90)) eqn:E3; destruct ((65 <=? x + 1) && (x + 1 <=? 90)) eqn:E4; lia.
Qed.

Definition unbump (x : Z) : Z := if x =? 91 then 64 else x - 1.

Lemma unbump_lt x : lower (unbump x) < lower x.
Proof.
  unfold unbump, lower.
  destruct (x =? 91) eqn:E1; [apply Z.eqb_eq in E1; subst; cbn; lia|].
  destruct ((65 <=? x) && (x <=? 90)) eqn:E3; destruct ((65 <=? x - 1) && (x - 1 <=? 90)) eqn:E4; lia.
Qed.

Lemma inc_rev_spec : forall r r',
  inc_rev r = Some r' ->
  exists k x rest, r = repeat 255 k ++ x :: rest /\ r' = bump x :: rest.
Proof.
  induction r as [|x r IH]; intros r' H; [discriminate|].
  cbn [inc_rev] in H. destruct (x =? 255) eqn:E.
  - apply IH in H. destruct H as (k & y & rest & -> & ->).
    apply Z.eqb_eq in E. subst. exists (S k), y, rest. split; reflexivity.
  - inversion H; subst. exists 0%nat, x, r. split; reflexivity.
Qed.

Lemma rev_repeat {A} (x : A) k : rev (repeat x k) = repeat x k.
Proof.
  induction k as [|k IH]; [reflexivity|]. cbn [repeat rev]. rewrite IH.
  clear. induction k; [reflexivity|]. cbn. rewrite IHk. reflexivity.
Qed.

Lemma inc_rev_label (l : label) r' :
  inc_rev (rev l) = Some r' ->
  cmp_bytes (lower_l l) (lower_l (rev r')) = Lt /\ rev r' <> [] /\ zlen (rev r') <= zlen l.
Proof.
  intros H. apply inc_rev_spec in H. destruct H as (k & x & rest & Hl & ->).
  apply (f_equal (@rev _)) in Hl. rewrite rev_involutive in Hl.
  rewrite rev_app_distr in Hl. cbn [rev] in Hl. rewrite rev_repeat, <- app_assoc in Hl. cbn [app] in Hl.
  subst l. cbn [rev]. split; [|split].
  - rewrite !lower_l_app. cbn [lower_l map]. apply cmp_bytes_diff_lt. apply bump_lt.
  - destruct (rev rest); discriminate.
  - unfold zlen. rewrite !app_length. cbn [length]. lia.
Qed.

Lemma zlist_eqb_eq : forall a b, zlist_eqb a b = true <-> a = b.
Proof.
  induction a as [|x a IH]; destruct b as [|y b]; cbn; try (split; congruence).
  rewrite andb_true_iff, Z.eqb_eq, IH. split; [intros [-> ->]; reflexivity|intros H; inversion H; auto].
Qed.

(* ---------- successor ---------- *)

Lemma mk_name_extend_cases (l : label) (y : label) (n : name) :
  Valid (y :: n) -> l <> [] -> zlen l <= 63 ->
  mk_name (l :: y :: n) = Ok (l :: y :: n) \/ mk_name (l :: y :: n) = Lib eNameTooLong.
Proof.
  intros V Hne Hlen. unfold mk_name.
  destruct (validate_labels (l :: y :: n)) as [[]|e|e] eqn:E; [left; reflexivity| |].
  - right. apply validate_error in E. destruct V as (V1 & V2 & V3).
    destruct E as [[-> H]|[[-> H]|[-> (_ & _ & H)]]]; [|reflexivity|].
    + exfalso. apply H. constructor; assumption.
    + exfalso. apply H. rewrite removelast_cons2. constructor; assumption.
  - exfalso. eapply validate_never_internal; eauto.
Qed.

Lemma succ_loop_spec : forall fuel (m o pre : name),
  Valid m -> Valid o -> is_absolute o = true -> is_subdomain m o = true ->
  (length m - length o < fuel)%nat ->
  exists s, succ_loop fuel m o = Ok s /\ Valid s /\
    ((order (pre ++ m) s < 0 /\ is_subdomain s o = true) \/ s = o).
Proof.
  induction fuel as [|f IH]; intros m o pre Vm Vo Ao S Hf; [lia|].
  cbn [succ_loop]. destruct (name_eqb m o) eqn:E.
  { exists o. auto. }
  destruct (sub_not_eq_split _ _ S E) as (lsl & p & s & -> & Cs).
  assert (o <> []) as Ho by (apply absolute_ne; exact Ao).
  assert (s <> []) as Hs by (eapply ci_equal_ne; eauto).
  assert (p ++ s <> []) as Hps by (destruct p; [exact Hs|discriminate]).
  destruct (p ++ s) as [|y suf] eqn:Eps; [congruence|].
  assert (is_subdomain (y :: suf) o = true) as Ssuf by (rewrite <- Eps; apply is_subdomain_suffix; assumption).
  assert (lsl <> []) as Hl by (eapply Valid_head_nonempty; eauto).
  assert (Valid (y :: suf)) as Vsuf by (eapply Valid_tl; eauto).
  assert (forall l', cmp_bytes (lower_l lsl) (lower_l l') = Lt -> Valid (l' :: y :: suf) ->
            exists s0, Ok (l' :: y :: suf) = Ok s0 /\ Valid s0 /\
              ((order (pre ++ lsl :: y :: suf) s0 < 0 /\ is_subdomain s0 o = true) \/ s0 = o)) as Done.
  { intros l' Hlt Vl'. exists (l' :: y :: suf). split; [reflexivity|]. split; [exact Vl'|]. left. split.
    - apply (order_label_lt pre [] lsl l' (y :: suf) (y :: suf)); [reflexivity|discriminate|exact Hlt].
    - apply (is_subdomain_ext [l']); [discriminate|exact Ssuf]. }
  (* after the extension attempt: increment or chop *)
  assert (exists s0,
            match inc_rev (rev lsl) with
            | Some r => mk_name (rev r :: y :: suf)
            | None => do p0 <- parent (lsl :: y :: suf); succ_loop f p0 o
            end = Ok s0 /\ Valid s0 /\
            ((order (pre ++ lsl :: y :: suf) s0 < 0 /\ is_subdomain s0 o = true) \/ s0 = o)) as Rest.
  { destruct (inc_rev (rev lsl)) as [r|] eqn:I.
    - destruct (inc_rev_label _ _ I) as (Hlt & Hne & Hlen).
      assert (Valid (rev r :: y :: suf)) as Vr by (eapply Valid_replace_head; eauto).
      rewrite (mk_name_valid _ Vr). apply Done; assumption.
    - assert (parent (lsl :: y :: suf) = Ok (y :: suf)) as ->.
      { unfold parent.
        assert (name_eqb (lsl :: y :: suf) root = false) as ->.
        { destruct (name_eqb (lsl :: y :: suf) root) eqn:X; [|reflexivity].
          apply name_eqb_iff_ci, ci_equal_length in X. discriminate. }
        assert (name_eqb (lsl :: y :: suf) empty = false) as ->.
        { destruct (name_eqb (lsl :: y :: suf) empty) eqn:X; [|reflexivity].
          apply name_eqb_iff_ci, ci_equal_length in X. discriminate. }
        cbn [orb tl]. apply mk_name_valid, Vsuf. }
      cbn [bind].
      assert (length o <= length (y :: suf))%nat as Lo.
      { rewrite <- Eps, app_length, (ci_equal_length _ _ Cs). lia. }
      destruct (IH (y :: suf) o (pre ++ [lsl]) Vsuf Vo Ao Ssuf) as (s0 & R & Vs0 & Hs0).
      { cbn [length] in *. lia. }
      exists s0. split; [exact R|]. split; [exact Vs0|].
      rewrite <- app_assoc in Hs0. exact Hs0. }
  destruct (zlen lsl <? 63) eqn:E63; [|exact Rest].
  assert (lsl ++ [0] <> []) as Hne0 by (destruct lsl; discriminate).
  assert (zlen (lsl ++ [0]) <= 63) as Hl0 by (rewrite zlen_app; cbn; lia).
  destruct (mk_name_extend_cases (lsl ++ [0]) y suf Vsuf Hne0 Hl0) as [M|M];
    unfold name, label in *; rewrite M.
  - apply Done.
    + rewrite lower_l_app. apply cmp_bytes_prefix_lt. discriminate.
    + apply mk_name_ok in M. tauto.
  - cbn. exact Rest.
Qed.

Theorem absolute_successor_spec n o p :
  Valid n -> Valid o -> is_absolute o = true -> is_subdomain n o = true ->
  exists s, absolute_successor n o p = Ok s /\ Valid s /\
    ((order n s < 0 /\ is_subdomain s o = true) \/ s = o).
Proof.
  intros Vn Vo Ao S. unfold absolute_successor.
  assert (exists s, succ_loop (Datatypes.S (length n)) n o = Ok s /\ Valid s /\
            ((order n s < 0 /\ is_subdomain s o = true) \/ s = o)) as Loop.
  { apply (succ_loop_spec (Datatypes.S (length n)) n o []); auto. lia. }
  destruct p; [|exact Loop].
  unfold concatenate. cbn [is_absolute andb app].
  assert (is_absolute n = true) as An.
  { apply is_subdomain_iff in S. destruct S as [A _]. congruence. }
  destruct n as [|y n]; [discriminate|].
  assert ([0] <> @nil Z) as H0 by discriminate.
  assert (zlen [0] <= 63) as H1 by (cbn; lia).
  destruct (mk_name_extend_cases [0] y n Vn H0 H1) as [M|M]; unfold name, label in *; rewrite M.
  - exists ([0] :: y :: n). split; [reflexivity|]. split; [apply mk_name_ok in M; tauto|]. left. split.
    + apply (order_ancestor_lt [[0]] (y :: n) (y :: n)); [reflexivity|discriminate|discriminate].
    + apply (is_subdomain_ext [[0]]); [discriminate|exact S].
  - cbn. exact Loop.
Qed.

(* ---------- predecessor ---------- *)

Lemma pad_to_max_label_prefix l suf : exists t, pad_to_max_label l suf = l ++ t.
Proof.
  unfold pad_to_max_label. destruct (_ <=? 0); [exists []; rewrite app_nil_r; reflexivity|eauto].
Qed.

Lemma pad_to_max_name_prefix n s : pad_to_max_name n = Ok s -> exists pads, s = pads ++ n /\ Valid s.
Proof.
  unfold pad_to_max_name. destruct (pad_labels 8 _ []) as [nl needed'].
  intros H. apply mk_name_ok in H. destruct H as [-> V]. eauto.
Qed.

(* the `while needed > 64` loop of _pad_to_max_name runs on fuel 8: enough for every name *)
Lemma pad_labels_enough : forall fuel needed acc,
  needed <= 64 * Z.of_nat fuel + 64 -> snd (pad_labels fuel needed acc) <= 64.
Proof.
  induction fuel as [|f IH]; intros needed acc H; cbn [pad_labels].
  - cbn. lia.
  - destruct (needed >? 64) eqn:E; [|cbn; lia]. apply IH. lia.
Qed.

Theorem absolute_predecessor_spec n o p s :
  Valid n -> Valid o -> is_absolute o = true -> is_subdomain n o = true ->
  name_eqb n o = false ->
  absolute_predecessor n o p = Ok s ->
  Valid s /\ order s n < 0 /\ is_subdomain s o = true.
Proof.
  intros Vn Vo Ao S E. unfold absolute_predecessor. rewrite E.
  destruct (sub_not_eq_split _ _ S E) as (lsl & p0 & s0 & -> & Cs).
  assert (o <> []) as Ho by (apply absolute_ne; exact Ao).
  assert (s0 <> []) as Hs by (eapply ci_equal_ne; eauto).
  assert (p0 ++ s0 <> []) as Hps by (destruct p0; [exact Hs|discriminate]).
  destruct (p0 ++ s0) as [|y suf] eqn:Eps; [congruence|].
  assert (is_subdomain (y :: suf) o = true) as Ssuf by (rewrite <- Eps; apply is_subdomain_suffix; assumption).
  destruct (zlist_eqb lsl [0]) eqn:Z0.
  - intros H. apply parent_spec in H. destruct H as (l & Hn & Vs & _). inversion Hn; subst.
    split; [exact Vs|]. split; [|exact Ssuf].
    apply (order_ancestor_lt [l] (y :: suf) (y :: suf)); [reflexivity|discriminate|discriminate].
  - destruct (rev lsl) as [|least rinit] eqn:R; [discriminate|].
    assert (lsl = rev rinit ++ [least]) as Hl
      by (rewrite <- (rev_involutive lsl), R; reflexivity).
    set (nf := if least =? 0 then rev rinit
               else pad_to_max_label (rev ((if least =? 91 then 64 else least - 1) :: rinit)) (y :: suf)).
    assert (cmp_bytes (lower_l nf) (lower_l lsl) = Lt) as Hlt.
    { subst nf lsl. destruct (least =? 0) eqn:L0.
      - rewrite lower_l_app. apply cmp_bytes_prefix_lt. discriminate.
      - destruct (pad_to_max_label_prefix (rev ((if least =? 91 then 64 else least - 1) :: rinit)) (y :: suf)) as [t ->].
        cbn [rev]. rewrite <- app_assoc. cbn [app]. rewrite !lower_l_app. cbn [lower_l map].
        apply cmp_bytes_diff_lt. apply (unbump_lt least). }
    unfold bind. destruct (mk_name (nf :: y :: suf)) as [nm| |] eqn:M; try discriminate.
    apply mk_name_ok in M. destruct M as [-> Vnm].
    assert (forall pads, order (pads ++ nf :: y :: suf) (lsl :: y :: suf) < 0) as Ord.
    { intros pads. apply (order_label_lt pads [] nf lsl (y :: suf) (y :: suf)); [reflexivity|discriminate|exact Hlt]. }
    destruct p.
    + intros H. apply pad_to_max_name_prefix in H. destruct H as (pads & -> & Vs).
      split; [exact Vs|]. split; [apply Ord|].
      apply (is_subdomain_ext (pads ++ [nf])) in Ssuf; [|discriminate].
      rewrite <- app_assoc in Ssuf. exact Ssuf.
    + intros H. inversion H; subst. split; [exact Vnm|]. split; [apply (Ord [])|].
      apply (is_subdomain_ext [nf]); [discriminate|exact Ssuf].
Qed.

(* never a Python-level exception *)
Theorem absolute_predecessor_no_internal n o p e :
  Valid n -> Valid o -> is_absolute o = true -> is_subdomain n o = true ->
  absolute_predecessor n o p <> Internal e.
Proof.
  intros Vn Vo Ao S. unfold absolute_predecessor.
  assert (forall m, pad_to_max_name m <> Internal e) as Pad.
  { intros m. unfold pad_to_max_name. destruct (pad_labels 8 _ []). apply mk_name_never_internal. }
  destruct (name_eqb n o) eqn:E; [apply Pad|].
  destruct (sub_not_eq_split _ _ S E) as (lsl & p0 & s0 & -> & Cs).
  assert (o <> []) as Ho by (apply absolute_ne; exact Ao).
  assert (s0 <> []) as Hs by (eapply ci_equal_ne; eauto).
  assert (p0 ++ s0 <> []) as Hps by (destruct p0; [exact Hs|discriminate]).
  destruct (p0 ++ s0) as [|y suf] eqn:Eps; [congruence|].
  assert (lsl <> []) as Hl by (eapply Valid_head_nonempty; eauto).
  destruct (zlist_eqb lsl [0]).
  - unfold parent. destruct (_ || _); [discriminate|apply mk_name_never_internal].
  - destruct (rev lsl) as [|least rinit] eqn:R.
    + exfalso. apply Hl. rewrite <- (rev_involutive lsl), R. reflexivity.
    + unfold bind. destruct (mk_name _) eqn:M; try discriminate.
      * destruct p; [apply Pad|discriminate].
      * exfalso. eapply mk_name_never_internal; eauto.
Qed.

(* ---------- the public wrappers (relativity handling) ---------- *)

Lemma relativize_sub_spec (s o : name) :
  Valid s -> o <> [] -> is_subdomain s o = true ->
  exists r o', relativize s o = Ok r /\ s = r ++ o' /\ ci_equal o' o /\ Valid r.
Proof.
  intros Vs Ho Sd. unfold relativize. rewrite Sd.
  apply is_subdomain_iff in Sd. destruct Sd as [_ (p & s' & -> & Hs')].
  assert (drop_last (length o) (p ++ s') = p) as D.
  { unfold drop_last. rewrite app_length, <- (ci_equal_length _ _ Hs').
    replace (length p + length s' - length s')%nat with (length p) by lia.
    rewrite firstn_app, firstn_all, Nat.sub_diag. cbn [firstn]. apply app_nil_r. }
  rewrite D. exists p, s'.
  assert (Valid p) as Vp by (eapply Valid_prefix; eauto).
  rewrite (mk_name_valid p Vp). auto.
Qed.

Theorem successor_after_abs n o p s :
  Valid n -> Valid o -> is_absolute n = true ->
  successor n o p = Ok s ->
  Valid s /\ ((order n s < 0 /\ is_subdomain s o = true) \/ s = o).
Proof.
  intros Vn Vo An. unfold successor, handle_relativity.
  destruct (is_absolute o) eqn:Ao; [|discriminate]. rewrite An. cbn [negb].
  destruct (is_subdomain n o) eqn:S; [|discriminate]. cbn [negb bind].
  destruct (absolute_successor_spec n o p Vn Vo Ao S) as (s' & -> & Vs & H).
  intros X; inversion X; subst. auto.
Qed.

Theorem successor_after_rel n o p s :
  Valid n -> Valid o -> is_absolute n = false ->
  successor n o p = Ok s ->
  Valid s /\ is_absolute s = false /\ (order n s < 0 \/ s = []).
Proof.
  intros Vn Vo An. unfold successor, handle_relativity.
  destruct (is_absolute o) eqn:Ao; [|discriminate]. rewrite An. cbn [negb].
  assert (o <> []) as Ho by (apply absolute_ne; exact Ao).
  unfold derelativize, concatenate. rewrite An. cbn [negb andb].
  unfold bind. destruct (mk_name (n ++ o)) as [n1| |] eqn:M; try discriminate.
  apply mk_name_ok in M. destruct M as [-> Vno].
  assert (is_subdomain (n ++ o) o = true) as S by (apply is_subdomain_suffix; [reflexivity|exact Ho]).
  destruct (absolute_successor_spec (n ++ o) o p Vno Vo Ao S) as (s' & -> & Vs & H).
  destruct H as [[Hlt Ss]| ->].
  - destruct (relativize_sub_spec s' o Vs Ho Ss) as (r & o' & -> & -> & Co & Vr).
    intros X; inversion X; subst.
    assert (o' <> []) as Ho' by (eapply ci_equal_ne; eauto).
    assert (is_absolute s = false) as As.
    { destruct o' as [|x o']; [congruence|]. eapply Valid_prefix_relative; eauto. }
    split; [exact Vr|]. split; [exact As|]. left.
    apply order_lt. apply order_lt in Hlt.
    rewrite <- (canon_cmp_app_cancel n s o o'); [exact Hlt|symmetry; exact Co|exact Ho|congruence].
  - assert (is_subdomain o o = true) as Soo by (apply (is_subdomain_suffix [] o o); [reflexivity|exact Ho]).
    destruct (relativize_sub_spec o o Vo Ho Soo) as (r & o' & -> & Hr & Co & Vr).
    assert (length r = 0%nat) as L.
    { apply (f_equal (@length _)) in Hr. rewrite app_length, (ci_equal_length _ _ Co) in Hr. lia. }
    intros X; inversion X; subst s.
    destruct r; [|discriminate]. split; [exact Vr|]. split; [reflexivity|]. right. reflexivity.
Qed.

Theorem predecessor_before_abs n o p s :
  Valid n -> Valid o -> is_absolute n = true ->
  name_eqb n o = false ->
  predecessor n o p = Ok s ->
  Valid s /\ order s n < 0 /\ is_subdomain s o = true.
Proof.
  intros Vn Vo An E. unfold predecessor, handle_relativity.
  destruct (is_absolute o) eqn:Ao; [|discriminate]. rewrite An. cbn [negb].
  destruct (is_subdomain n o) eqn:S; [|discriminate]. cbn [negb bind].
  destruct (absolute_predecessor n o p) as [s'| |] eqn:P; try discriminate.
  intros X; inversion X; subst.
  eapply absolute_predecessor_spec; eauto.
Qed.

Theorem predecessor_before_rel n o p s :
  Valid n -> Valid o -> is_absolute n = false -> n <> [] ->
  predecessor n o p = Ok s ->
  Valid s /\ is_absolute s = false /\ order s n < 0.
Proof.
  intros Vn Vo An Hn. unfold predecessor, handle_relativity.
  destruct (is_absolute o) eqn:Ao; [|discriminate]. rewrite An. cbn [negb].
  assert (o <> []) as Ho by (apply absolute_ne; exact Ao).
  unfold derelativize, concatenate. rewrite An. cbn [negb andb].
  unfold bind. destruct (mk_name (n ++ o)) as [n1| |] eqn:M; try discriminate.
  apply mk_name_ok in M. destruct M as [-> Vno].
  assert (is_subdomain (n ++ o) o = true) as S by (apply is_subdomain_suffix; [reflexivity|exact Ho]).
  assert (name_eqb (n ++ o) o = false) as E.
  { destruct (name_eqb (n ++ o) o) eqn:X; [|reflexivity].
    apply name_eqb_iff_ci, ci_equal_length in X. rewrite app_length in X. destruct n; [congruence|cbn in X; lia]. }
  destruct (absolute_predecessor (n ++ o) o p) as [s'| |] eqn:P; try discriminate.
  destruct (absolute_predecessor_spec _ _ _ _ Vno Vo Ao S E P) as (Vs & Hlt & Ss).
  destruct (relativize_sub_spec s' o Vs Ho Ss) as (r & o' & -> & -> & Co & Vr).
  intros X; inversion X; subst.
  assert (o' <> []) as Ho' by (eapply ci_equal_ne; eauto).
  assert (is_absolute s = false) as As.
  { destruct o' as [|x o']; [congruence|]. eapply Valid_prefix_relative; eauto. }
  split; [exact Vr|]. split; [exact As|].
  apply order_lt. apply order_lt in Hlt.
  rewrite <- (canon_cmp_app_cancel s n o' o); [exact Hlt|exact Co|exact Ho'|congruence].
Qed.

(* successor / predecessor never raise a Python-level exception on valid names *)
Theorem successor_no_internal n o p e : Valid n -> Valid o -> successor n o p <> Internal e.
Proof.
  intros Vn Vo. unfold successor, handle_relativity.
  destruct (is_absolute o) eqn:Ao; [|discriminate]. cbn [negb].
  assert (o <> []) as Ho by (apply absolute_ne; exact Ao).
  destruct (is_absolute n) eqn:An; cbn [negb].
  - destruct (is_subdomain n o) eqn:S; [|discriminate]. cbn [negb bind].
    destruct (absolute_successor_spec n o p Vn Vo Ao S) as (s' & -> & _). discriminate.
  - unfold derelativize, concatenate. rewrite An. cbn [negb andb].
    unfold bind. destruct (mk_name (n ++ o)) as [n1| |] eqn:M; try discriminate.
    + apply mk_name_ok in M. destruct M as [-> Vno].
      assert (is_subdomain (n ++ o) o = true) as S by (apply is_subdomain_suffix; [reflexivity|exact Ho]).
      destruct (absolute_successor_spec (n ++ o) o p Vno Vo Ao S) as (s' & -> & Vs & H).
      unfold relativize. destruct (is_subdomain s' o); [|discriminate].
      apply mk_name_never_internal.
    + exfalso. eapply mk_name_never_internal; eauto.
Qed.

Theorem predecessor_no_internal n o p e : Valid n -> Valid o -> predecessor n o p <> Internal e.
Proof.
  intros Vn Vo. unfold predecessor, handle_relativity.
  destruct (is_absolute o) eqn:Ao; [|discriminate]. cbn [negb].
  assert (o <> []) as Ho by (apply absolute_ne; exact Ao).
  destruct (is_absolute n) eqn:An; cbn [negb].
  - destruct (is_subdomain n o) eqn:S; [|discriminate]. cbn [negb bind].
    destruct (absolute_predecessor n o p) as [a|e0|e0] eqn:P; try discriminate.
    exfalso. exact (absolute_predecessor_no_internal n o p e0 Vn Vo Ao S P).
  - unfold derelativize, concatenate. rewrite An. cbn [negb andb].
    unfold bind. destruct (mk_name (n ++ o)) as [n1| |] eqn:M; try discriminate.
    + apply mk_name_ok in M. destruct M as [-> Vno].
      assert (is_subdomain (n ++ o) o = true) as S by (apply is_subdomain_suffix; [reflexivity|exact Ho]).
      destruct (absolute_predecessor (n ++ o) o p) as [a|e0|e0] eqn:P; try discriminate.
      * unfold relativize. destruct (is_subdomain a o); [|discriminate].
        apply mk_name_never_internal.
      * exfalso. exact (absolute_predecessor_no_internal (n ++ o) o p e0 Vno Vo Ao S P).
    + exfalso. eapply mk_name_never_internal; eauto.
Qed.

(* the predecessor of the origin itself: the documented wrap to the longest name below the
   origin (the origin again when nothing can be prepended); never before the origin *)
Theorem predecessor_of_origin o p s :
  Valid o -> is_absolute o = true ->
  predecessor o o p = Ok s ->
  Valid s /\ is_subdomain s o = true /\ order o s <= 0 /\ exists pads, s = pads ++ o.
Proof.
  intros Vo Ao. unfold predecessor, handle_relativity. rewrite Ao. cbn [negb].
  assert (o <> []) as Ho by (apply absolute_ne; exact Ao).
  assert (is_subdomain o o = true) as Soo by (apply (is_subdomain_suffix [] o o); [reflexivity|exact Ho]).
  rewrite Soo. cbn [negb bind]. unfold absolute_predecessor.
  assert (name_eqb o o = true) as -> by (apply name_eqb_iff_ci; reflexivity).
  destruct (pad_to_max_name o) as [s'| |] eqn:P; cbn [bind]; try discriminate.
  intros X; inversion X; subst s'.
  apply pad_to_max_name_prefix in P. destruct P as (pads & -> & Vs).
  split; [exact Vs|]. split; [apply is_subdomain_suffix; [reflexivity|exact Ho]|].
  split; [|eauto].
  destruct pads as [|x pads].
  - cbn [app]. rewrite order_refl. lia.
  - pose proof (order_ancestor_lt (x :: pads) o o (eq_refl _) Ho) as L.
    assert (order o ((x :: pads) ++ o) < 0) by (apply L; discriminate). lia.
Qed.

(* ------------------------------------------------------------------ *)
(* predecessor always returns for a name of the zone (the padding arithmetic stays within the
   63 / 255 limits)                                                      *)

Lemma wire_length_rev (l : name) : wire_length (rev l) = wire_length l.
Proof.
  induction l as [|x l IH]; [reflexivity|]. cbn [rev]. rewrite wire_length_app, IH, !wire_length_cons.
  change (wire_length []) with 0. lia.
Qed.

Lemma zlen_repeat {A} (x : A) k : zlen (repeat x k) = Z.of_nat k.
Proof. unfold zlen. rewrite repeat_length. reflexivity. Qed.

Lemma wire_length_repeat63 k : wire_length (repeat (repeat 255 63) k) = 64 * Z.of_nat k.
Proof.
  induction k as [|k IH]; [reflexivity|].
  change (repeat (repeat 255 63) (S k)) with (repeat 255 63 :: repeat (repeat 255 63) k).
  rewrite wire_length_cons, IH. rewrite zlen_repeat. lia.
Qed.

Lemma pad_labels_spec : forall fuel needed acc,
  needed <= 64 * Z.of_nat fuel + 64 ->
  exists k, pad_labels fuel needed acc = (acc ++ repeat (repeat 255 63) k, needed - 64 * Z.of_nat k) /\
            needed - 64 * Z.of_nat k <= 64 /\ (0 <= needed -> 0 <= needed - 64 * Z.of_nat k).
Proof.
  induction fuel as [|f IH]; intros needed acc H.
  - exists 0%nat. cbn [pad_labels repeat]. rewrite app_nil_r. split; [f_equal; lia|]. split; lia.
  - cbn [pad_labels]. destruct (needed >? 64) eqn:E.
    + destruct (IH (needed - 64) (acc ++ [repeat 255 63])) as (k & -> & H1 & H2); [lia|].
      exists (S k). split; [|split; lia].
      rewrite <- app_assoc. cbn [app repeat]. f_equal. lia.
    + exists 0%nat. cbn [repeat]. rewrite app_nil_r. split; [f_equal; lia|]. split; lia.
Qed.

Lemma repeat_ne {A} (x : A) k : (0 < k)%nat -> repeat x k <> [].
Proof. destruct k; [lia|discriminate]. Qed.

Lemma Valid_pads_app (pads n : name) :
  Forall (fun l => l <> [] /\ zlen l <= 63) pads -> Valid n ->
  wire_length pads + wire_length n <= 255 -> Valid (pads ++ n).
Proof.
  intros HP (V1 & V2 & V3) L. repeat split.
  - apply Forall_app. split; [|exact V1]. eapply Forall_impl; [|exact HP]. intros l [_ H]. exact H.
  - rewrite wire_length_app. exact L.
  - destruct n as [|x n].
    + rewrite app_nil_r. clear -HP. induction pads as [|p pads IH]; [constructor|].
      inversion HP as [|? ? [Hp _] HP']; subst. destruct pads as [|q pads]; [constructor|].
      rewrite removelast_cons2. constructor; [exact Hp|apply IH; exact HP'].
    + rewrite removelast_app_cons. apply Forall_app. split; [|exact V3].
      eapply Forall_impl; [|exact HP]. intros l [H _]. exact H.
Qed.

Lemma pad_to_max_name_total n : Valid n -> exists s, pad_to_max_name n = Ok s.
Proof.
  intros V. unfold pad_to_max_name.
  assert (0 <= 255 - wire_length n) as N0 by (destruct V as (_ & L & _); lia).
  pose proof (wire_length_nonneg n) as Wn.
  destruct (pad_labels_spec 8 (255 - wire_length n) []) as (k & -> & H1 & H2); [cbn; lia|].
  specialize (H2 N0). cbn [app].
  set (nd := 255 - wire_length n - 64 * Z.of_nat k) in *.
  eexists. apply mk_name_valid. apply Valid_pads_app; [|exact V|].
  - apply Forall_rev. destruct (nd >=? 2) eqn:E.
    + apply Forall_app. split.
      * apply Forall_forall. intros l Hl. apply repeat_spec in Hl. subst l. split; [discriminate|cbn; lia].
      * constructor; [|constructor]. split; [apply repeat_ne; lia|rewrite zlen_repeat; lia].
    + apply Forall_forall. intros l Hl. apply repeat_spec in Hl. subst l. split; [discriminate|cbn; lia].
  - rewrite wire_length_rev. destruct (nd >=? 2) eqn:E.
    + rewrite wire_length_app, wire_length_repeat63, wire_length_cons, zlen_repeat.
      change (wire_length []) with 0. unfold nd in *. lia.
    + rewrite wire_length_repeat63. unfold nd in *. lia.
Qed.

Theorem absolute_predecessor_total n o p :
  Valid n -> Valid o -> is_absolute o = true -> is_subdomain n o = true ->
  exists s, absolute_predecessor n o p = Ok s.
Proof.
  intros Vn Vo Ao S. unfold absolute_predecessor.
  destruct (name_eqb n o) eqn:E; [apply pad_to_max_name_total; exact Vn|].
  destruct (sub_not_eq_split _ _ S E) as (lsl & p0 & s0 & -> & Cs).
  assert (o <> []) as Ho by (apply absolute_ne; exact Ao).
  assert (s0 <> []) as Hs by (eapply ci_equal_ne; eauto).
  assert (p0 ++ s0 <> []) as Hps by (destruct p0; [exact Hs|discriminate]).
  destruct (p0 ++ s0) as [|y suf] eqn:Eps; [congruence|].
  assert (lsl <> []) as Hl by (eapply Valid_head_nonempty; eauto).
  assert (Valid (y :: suf)) as Vsuf by (eapply Valid_tl; eauto).
  destruct (zlist_eqb lsl [0]) eqn:Z0.
  - unfold parent.
    assert (name_eqb (lsl :: y :: suf) root = false) as ->.
    { destruct (name_eqb (lsl :: y :: suf) root) eqn:X; [|reflexivity].
      apply name_eqb_iff_ci, ci_equal_length in X. discriminate. }
    assert (name_eqb (lsl :: y :: suf) empty = false) as ->.
    { destruct (name_eqb (lsl :: y :: suf) empty) eqn:X; [|reflexivity].
      apply name_eqb_iff_ci, ci_equal_length in X. discriminate. }
    cbn [orb tl]. exists (y :: suf). apply mk_name_valid, Vsuf.
  - destruct (rev lsl) as [|least rinit] eqn:R.
    { exfalso. apply Hl. rewrite <- (rev_involutive lsl), R. reflexivity. }
    assert (lsl = rev rinit ++ [least]) as El by (rewrite <- (rev_involutive lsl), R; reflexivity).
    set (nf := if least =? 0 then rev rinit
               else pad_to_max_label (rev ((if least =? 91 then 64 else least - 1) :: rinit)) (y :: suf)).
    assert (Valid (nf :: y :: suf)) as Vnf.
    { subst nf. destruct (least =? 0) eqn:L0.
      - apply (Valid_replace_head lsl); [exact Vn| |].
        + intros Hn. apply Z.eqb_eq in L0. subst least. rewrite Hn in El. cbn in El. subst lsl. discriminate.
        + rewrite El, zlen_app. pose proof (zlen_nonneg [least]). lia.
      - unfold pad_to_max_label. cbn [rev].
        set (lab := rev rinit ++ [if least =? 91 then 64 else least - 1]).
        assert (zlen lab = zlen lsl) as Llab by (unfold lab; rewrite El, !zlen_app; reflexivity).
        assert (lab <> []) as Hlab by (unfold lab; destruct (rev rinit); discriminate).
        destruct Vn as (V1 & V2 & V3). inversion V1 as [|? ? Hl63 V1']; subst.
        rewrite wire_length_cons in V2. rewrite removelast_cons2 in V3. inversion V3 as [|? ? _ V3']; subst.
        destruct (255 - wire_length (y :: suf) - zlen lab - 1 <=? 0) eqn:Rm.
        + repeat split.
          * constructor; [lia|exact V1'].
          * rewrite wire_length_cons. lia.
          * rewrite removelast_cons2. constructor; [exact Hlab|exact V3'].
        + set (k := Z.min (63 - zlen lab) (255 - wire_length (y :: suf) - zlen lab - 1)).
          assert (0 <= k) as Hk by (unfold k; lia).
          repeat split.
          * constructor; [|exact V1']. rewrite zlen_app, zlen_repeat. unfold k. lia.
          * rewrite wire_length_cons, zlen_app, zlen_repeat. unfold k. lia.
          * rewrite removelast_cons2. constructor; [|exact V3']. destruct lab; [congruence|discriminate]. }
    fold nf. rewrite (mk_name_valid _ Vnf). cbn [bind].
    destruct p; [apply pad_to_max_name_total; exact Vnf|eauto].
Qed.

Lemma pad_fuel_sufficient (n : name) acc :
  0 <= wire_length n -> snd (pad_labels 8 (255 - wire_length n) acc) <= 64.
Proof. intros H. apply pad_labels_enough. cbn. lia. Qed.
