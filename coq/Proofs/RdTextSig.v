(* RRSIG / SIG signature times: sigtime_to_posixtime (posixtime_to_sigtime t) = t for every 32-bit time.
   The date part (49711 days) and the time-of-day part (86400 seconds) are swept separately by
   vm_compute; the combination is arithmetic. *)
From DV Require Import Base.Prelude Model.NameM Model.TokM Model.RdTextM.
From DV Require Import Proofs.TokEsc Proofs.TokWords Proofs.RdTextAddr.
Open Scope Z_scope.
Set Warnings "-abstract-large-number".


Ltac Zify.zify_post_hook ::= Z.to_euclidean_division_equations.

Definition date_text (d : Z) : list Z :=
  let '(y, m, dd) := civil_from_days d in pad_dec 4 y ++ pad_dec 2 m ++ pad_dec 2 dd.

Definition time_text (r : Z) : list Z :=
  pad_dec 2 (r / 3600) ++ pad_dec 2 ((r mod 3600) / 60) ++ pad_dec 2 (r mod 60).

Lemma sigtime_split t : posixtime_to_sigtime t = date_text (t / 86400) ++ time_text (t mod 86400).
Proof.
  unfold posixtime_to_sigtime, date_text, time_text. destruct (civil_from_days (t / 86400)) as [[y m] d].
  rewrite <- !app_assoc. reflexivity.
Qed.

Definition date_parts (a : list Z) : option Z * option Z * option Z :=
  (py_int 10 (sub_list 0 4 a), py_int 10 (sub_list 4 6 a), py_int 10 (sub_list 6 8 a)).
Definition time_parts (b : list Z) : option Z * option Z * option Z :=
  (py_int 10 (sub_list 0 2 b), py_int 10 (sub_list 2 4 b), py_int 10 (sub_list 4 6 b)).

Definition sig_combine (dp tp : option Z * option Z * option Z) : res Z :=
  match dp, tp with
  | (Some year, Some month, Some day), (Some hour, Some minute, Some second) =>
      if (year <? 1) || (year >? 9999) || (month <? 1) || (month >? 12) then Internal iValueError
      else
        let days := days_before_year year + days_before_month year month + 1 - 719163 + day - 1 in
        Ok (((days * 24 + hour) * 60 + minute) * 60 + second)
  | _, _ => Internal iValueError
  end.

Lemma sig_split a b : length a = 8%nat -> length b = 6%nat ->
  sigtime_to_posixtime (a ++ b) = sig_combine (date_parts a) (time_parts b).
Proof.
  intros Ha Hb.
  destruct a as [|a0 [|a1 [|a2 [|a3 [|a4 [|a5 [|a6 [|a7 [|? ?]]]]]]]]]; try discriminate.
  destruct b as [|b0 [|b1 [|b2 [|b3 [|b4 [|b5 [|? ?]]]]]]]; try discriminate.
  unfold sigtime_to_posixtime, date_parts, time_parts, sig_combine, sub_list.
  cbn [app length Nat.leb Nat.eqb andb negb Nat.sub skipn firstn].
  destruct (py_int 10 [a0; a1; a2; a3]); destruct (py_int 10 [a4; a5]); destruct (py_int 10 [a6; a7]);
    destruct (py_int 10 [b0; b1]); destruct (py_int 10 [b2; b3]); destruct (py_int 10 [b4; b5]); reflexivity.
Qed.

(* ---------- sweeps ---------- *)
Definition date_ok (d : Z) : bool :=
  let a := date_text d in
  Nat.eqb (length a) 8 && forallb safe a &&
  match date_parts a with
  | (Some y, Some m, Some dd) =>
      (1 <=? y) && (y <=? 9999) && (1 <=? m) && (m <=? 12)
      && (days_before_year y + days_before_month y m + 1 - 719163 + dd - 1 =? d)
  | _ => false
  end.

Definition time_ok (r : Z) : bool :=
  let b := time_text r in
  Nat.eqb (length b) 6 && forallb safe b &&
  match time_parts b with
  | (Some h, Some mi, Some s) => (h * 3600 + mi * 60 + s =? r)
  | _ => false
  end.

Lemma date_ok_all : forallb date_ok (zrange 49711 0) = true.
Proof. vm_compute. reflexivity. Qed.

Lemma time_ok_all : forallb time_ok (zrange 86400 0) = true.
Proof. vm_compute. reflexivity. Qed.

Theorem sigtime_roundtrip t : 0 <= t <= 4294967295 ->
  sigtime_to_posixtime (posixtime_to_sigtime t) = Ok t
  /\ forallb safe (posixtime_to_sigtime t) = true /\ posixtime_to_sigtime t <> [].
Proof.
  intros Ht. rewrite sigtime_split.
  set (d := t / 86400). set (r := t mod 86400).
  assert (Hd : date_ok d = true).
  { pose proof date_ok_all as G. rewrite forallb_forall in G. apply G. apply zrange_in.
    assert (E : Z.of_nat 49711 = 49711) by (vm_compute; reflexivity). rewrite E. unfold d. lia. }
  assert (Hr : time_ok r = true).
  { pose proof time_ok_all as G. rewrite forallb_forall in G. apply G. apply zrange_in.
    assert (E : Z.of_nat 86400 = 86400) by (vm_compute; reflexivity). rewrite E. unfold r. lia. }
  unfold date_ok in Hd. cbv zeta in Hd. unfold time_ok in Hr. cbv zeta in Hr.
  apply andb_true_iff in Hd as [Hd D3]. apply andb_true_iff in Hd as [D1 D2]. apply Nat.eqb_eq in D1.
  apply andb_true_iff in Hr as [Hr R3]. apply andb_true_iff in Hr as [R1 R2]. apply Nat.eqb_eq in R1.
  split; [|split].
  - rewrite sig_split by assumption.
    destruct (date_parts (date_text d)) as [[[y|] [m|]] [dd|]]; try discriminate.
    destruct (time_parts (time_text r)) as [[[h|] [mi|]] [s|]]; try discriminate.
    unfold sig_combine.
    apply andb_true_iff in D3 as [D3 D8]. apply andb_true_iff in D3 as [D3 D7]. apply andb_true_iff in D3 as [D3 D6].
    apply andb_true_iff in D3 as [D4 D5].
    replace ((y <? 1) || (y >? 9999) || (m <? 1) || (m >? 12)) with false by lia.
    f_equal. apply Z.eqb_eq in D8. apply Z.eqb_eq in R3. unfold d, r in *. lia.
  - rewrite forallb_app, D2, R2. reflexivity.
  - destruct (date_text d); [discriminate|discriminate].
Qed.
