(* C10: record sets never hold duplicates and singleton types (SOA, CNAME, DNAME, NSEC, NXT) never hold
   more than one record - an invariant of every reachable zone, whatever is added, merged or deleted. *)
From DV Require Import Base.Prelude Model.NameM Model.TxnM.
From DV Require Import Proofs.NameValid Proofs.NameOrder Proofs.NameRel.
From DV Require Import Proofs.TxnName Proofs.TxnStore Proofs.TxnLow Proofs.TxnSim Proofs.TxnThm Proofs.TxnIrrel Proofs.TxnSpec.
Open Scope Z_scope.

Definition items_wf (r : rds) : Prop :=
  NoDup (r_items r) /\ (is_singleton (r_ty r) = true -> (length (r_items r) <= 1)%nat).

(* what callers can hand over: real Rdataset / RRset objects satisfy this by construction (Rdataset.add) *)
Definition arg_items_wf (a : arg) : Prop :=
  match a with ARds r | ARRset _ r => items_wf r | _ => True end.

Definition op_items_wf (o : op) : Prop :=
  match o with
  | OAdd a | OReplace a | ODelete a | ODeleteExact a => Forall arg_items_wf a
  | _ => True
  end.

Definition ent_items_wf (l : list entry) : Prop := Forall (fun e => items_wf (e_rds e)) l.

Lemma set_add_nodup x l : NoDup l -> NoDup (set_add x l).
Proof.
  intros N. unfold set_add. destruct (mem x l) eqn:M; [exact N|].
  apply NoDup_snoc; [exact N|]. intros Hin. apply mem_In in Hin. congruence.
Qed.

Lemma set_add_length x l : (length (set_add x l) <= S (length l))%nat.
Proof. unfold set_add. destruct (mem x l); [lia|]. rewrite app_length. cbn. lia. Qed.

Lemma rds_add_wf r x : items_wf r -> items_wf (rds_add r x).
Proof.
  intros [N S1]. unfold rds_add, items_wf. cbn [r_items r_ty set_items].
  destruct (r_items r) as [|y l] eqn:E.
  - split; [cbn; repeat constructor; intros []|cbn; lia].
  - destruct (is_singleton (r_ty r)) eqn:Sg.
    + split; [cbn; repeat constructor; intros []|cbn; lia].
    + split; [apply set_add_nodup; exact N|discriminate].
Qed.

Lemma fold_add_wf l r : items_wf r -> items_wf (fold_left rds_add l r).
Proof. revert r. induction l; cbn; intros; auto using rds_add_wf. Qed.

Lemma update_ttl_wf r t : items_wf r -> items_wf (update_ttl r t).
Proof.
  unfold update_ttl, items_wf. destruct (r_items r) eqn:E; cbn; [rewrite E; auto|].
  destruct (t <? r_ttl r); cbn; rewrite ?E; auto.
Qed.

Lemma union_wf e r : items_wf e -> items_wf (rds_union e r).
Proof. intros H. unfold rds_union. apply fold_add_wf, update_ttl_wf, H. Qed.

Lemma discard_length y l : (length (discard y l) <= length l)%nat.
Proof. induction l; cbn; [lia|]. destruct (rdata_eqb y a); cbn; lia. Qed.

Lemma difference_wf e r : items_wf e -> items_wf (rds_difference e r).
Proof.
  intros [N S1]. unfold rds_difference, items_wf. cbn [r_items r_ty set_items].
  assert (forall l0 l, NoDup l -> NoDup (fold_left (fun acc x => discard x acc) l0 l) /\
                       (length (fold_left (fun acc x => discard x acc) l0 l) <= length l)%nat) as K.
  { induction l0 as [|y l0 IH]; intros l Nl; cbn; [split; [exact Nl|lia]|].
    destruct (IH (discard y l) (discard_nodup y l Nl)) as [I1 I2]. split; [exact I1|].
    pose proof (discard_length y l). lia. }
  destruct (K (r_items r) (r_items e) N) as [K1 K2]. split; [exact K1|]. intros Sg. specialize (S1 Sg). lia.
Qed.

Lemma from_rdata_wf ttl ty body aux cls : items_wf (from_rdata ttl ty body aux cls).
Proof. unfold from_rdata, items_wf. cbn. split; [repeat constructor; intros []|lia]. Qed.

Lemma to_rdataset_wf r r' : to_rdataset r = Ok r' -> items_wf r'.
Proof.
  unfold to_rdataset. destruct (r_items r); [discriminate|]. intros H; inversion H; subst.
  apply fold_add_wf. try apply rds_add_wf. split; [cbn; constructor|intros _; cbn; lia].
Qed.

Lemma rdataset_from_args_wf d args o rest :
  Forall arg_items_wf args -> rdataset_from_args d args = Ok (o, rest) ->
  match o with Some r => items_wf r | None => True end /\ Forall arg_items_wf rest.
Proof.
  intros F. unfold rdataset_from_args.
  destruct args as [|a args]; [destruct d; intros H; inversion H; split; [exact Logic.I|constructor]|].
  inversion F as [|? ? Fa Fr]; subst.
  assert (forall (x : res (Z * arg * list arg)),
            (forall t a1 r1, x = Ok (t, a1, r1) -> Forall arg_items_wf r1) ->
            (do x0 <- x; let '(ttl, a1, rest1) := x0 in
             match a1 with
             | ARdata ty body aux cls => Ok (Some (from_rdata ttl ty body aux cls), rest1)
             | _ => Lib eTypeError
             end) = Ok (o, rest) ->
            match o with Some r => items_wf r | None => True end /\ Forall arg_items_wf rest) as K.
  { intros x Hx. destruct x as [[[t a1] r1]| |]; cbn [bind]; try discriminate.
    destruct a1; try discriminate. intros H; inversion H; subst. split; [apply from_rdata_wf|eapply Hx; eauto]. }
  destruct a; try (apply K; destruct d;
                   [intros ? ? ? H; inversion H; subst; auto
                   |try (intros ? ? ? H; discriminate H)]).
  - intros H; inversion H; subst; auto.
  - destruct (to_rdataset r) eqn:T; cbn [bind]; intros H; inversion H; subst. split; [eapply to_rdataset_wf; eauto|auto].
  - destruct (z >? MAX_TTL); [intros ? ? ? H; discriminate H|].
    destruct args as [|a2 r2]; intros ? ? ? H; inversion H; subst. inversion Fr; auto.
Qed.

Lemma add_parse_wf a rest n r rest1 :
  Forall arg_items_wf (a :: rest) -> add_parse a rest = Ok (n, r, rest1) -> items_wf r.
Proof.
  intros F. inversion F as [|? ? Fa Fr]; subst. unfold add_parse.
  destruct a; try discriminate.
  - destruct (rdataset_from_args false rest) as [[o r1]| |] eqn:E; cbn [bind fst snd]; try discriminate.
    destruct o; intros H; inversion H; subst. apply (rdataset_from_args_wf false rest _ _ Fr E).
  - destruct (rdataset_from_args false rest) as [[o r1]| |] eqn:E; cbn [bind fst snd]; try discriminate.
    destruct o; intros H; inversion H; subst. apply (rdataset_from_args_wf false rest _ _ Fr E).
  - destruct (to_rdataset r0) eqn:T; cbn [bind]; intros H; inversion H; subst. eapply to_rdataset_wf; eauto.
Qed.

Section Items.
  Variable c : cfg.

  Definition st_wf (s : rstate) : Prop := ent_items_wf (rs_entries s).

  Lemma r_get_wf s n ty cov r : st_wf s -> r_get c s n ty cov = Ok (Some r) -> items_wf r.
  Proof.
    intros W. unfold r_get. destruct (canon c n); cbn [bind]; try discriminate.
    destruct (find _ _) eqn:F; intros H; inversion H; subst.
    apply find_some in F. destruct F as [F _]. eapply Forall_forall in W; eauto.
  Qed.

  Lemma filter_wf p l : ent_items_wf l -> ent_items_wf (filter p l).
  Proof.
    intros W. apply Forall_forall. intros x Hx. apply filter_In in Hx. eapply Forall_forall in W; [exact W|tauto].
  Qed.

  Lemma r_put_wf s n r s' : st_wf s -> items_wf r -> r_put c s n r = Ok s' -> st_wf s'.
  Proof.
    intros W Wr. unfold r_put. destruct (canon c n); cbn [bind]; try discriminate.
    intros H; inversion H; subst. unfold st_wf. cbn [rs_entries]. apply Forall_app. split; [apply filter_wf, W|].
    constructor; [exact Wr|constructor].
  Qed.

  Lemma r_del_name_wf s n s' : st_wf s -> r_del_name c s n = Ok s' -> st_wf s'.
  Proof.
    intros W. unfold r_del_name. destruct (canon c n); cbn [bind]; try discriminate.
    destruct (existsb _ _); intros H; inversion H; subst; [apply filter_wf, W|exact W].
  Qed.

  Lemma r_del_rds_wf s n ty cov s' : st_wf s -> r_del_rds c s n ty cov = Ok s' -> st_wf s'.
  Proof.
    intros W. unfold r_del_rds. destruct (canon c n); cbn [bind]; try discriminate.
    intros H; inversion H; subst. apply filter_wf, W.
  Qed.

  Lemma hl_add_wf rep args s s' :
    st_wf s -> Forall arg_items_wf args -> hl_add (rstore c) c rep args s = Ok s' -> st_wf s'.
  Proof.
    intros W F. unfold hl_add. destruct args as [|a rest]; [discriminate|].
    destruct (add_parse a rest) as [[[n r] rest1]|e|e] eqn:Ep; cbn [bind]; try discriminate.
    pose proof (add_parse_wf a rest n r rest1 F Ep) as Wr.
    destruct (negb _); [discriminate|]. destruct (_ && _); [discriminate|]. destruct rest1; [|discriminate].
    destruct rep; cbn [bind].
    - apply r_put_wf; auto.
    - cbn [s_get rstore]. destruct (r_get c s n (r_ty r) (r_cov r)) as [ex|e|e] eqn:G; cbn [bind]; try discriminate.
      apply r_put_wf; auto. destruct ex as [e0|]; [|exact Wr]. apply union_wf. eapply r_get_wf; eauto.
  Qed.

  Lemma hl_delete_common_wf exact n ord rest s s' :
    st_wf s -> hl_delete_common (rstore c) exact n ord rest s = Ok s' -> st_wf s'.
  Proof.
    intros W. unfold hl_delete_common. destruct rest; [|discriminate].
    assert ((if exact then do ex <- s_exists (rstore c) s n; if negb ex then Lib eDeleteNotExact else s_del_name (rstore c) s n
             else s_del_name (rstore c) s n) = Ok s' -> st_wf s') as K.
    { destruct exact; [|apply r_del_name_wf; exact W].
      destruct (s_exists (rstore c) s n) as [b| |]; cbn [bind]; try discriminate.
      destruct (negb b); [discriminate|apply r_del_name_wf; exact W]. }
    destruct ord as [[cls ty cov ttl items]|]; [|exact K]. destruct items; [exact K|].
    destruct (negb _); [discriminate|]. cbn [s_get rstore].
    destruct (r_get c s n ty cov) as [ex|e|e] eqn:G; cbn [bind]; try discriminate.
    destruct ex as [e0|]; [|destruct exact; [discriminate|intros H; inversion H; subst; exact W]].
    destruct (exact && _); [discriminate|].
    destruct (r_items (rds_difference e0 _)) eqn:D.
    - apply r_del_rds_wf; exact W.
    - apply r_put_wf; [exact W|]. apply difference_wf. eapply r_get_wf; eauto.
  Qed.

  Lemma hl_delete_wf exact args s s' :
    st_wf s -> Forall arg_items_wf args -> hl_delete (rstore c) exact args s = Ok s' -> st_wf s'.
  Proof.
    intros W F. unfold hl_delete. destruct args as [|a rest]; [discriminate|].
    inversion F as [|? ? Fa Fr]; subst.
    assert (forall n, (do y <- rdataset_from_args true rest; hl_delete_common (rstore c) exact n (fst y) (snd y) s) = Ok s' -> st_wf s') as Kc.
    { intros n. destruct (rdataset_from_args true rest) as [[o r1]| |]; cbn [bind]; try discriminate.
      apply hl_delete_common_wf; exact W. }
    assert (forall n t rest1, hl_delete_bytype (rstore c) exact n t rest1 s = Ok s' -> st_wf s') as Kt.
    { intros n t rest1. unfold hl_delete_bytype. destruct (make_type t) as [ty| |]; cbn [bind]; try discriminate.
      destruct (match rest1 with [] => _ | _ :: _ => _ end) as [[cov rest2]| |]; cbn [bind]; try discriminate.
      destruct rest2; [|discriminate].
      destruct (s_get (rstore c) s n ty cov) as [ex| |]; cbn [bind]; try discriminate.
      destruct ex; [apply r_del_rds_wf; exact W|destruct exact; [discriminate|intros H; inversion H; subst; exact W]]. }
    destruct a; try discriminate.
    - destruct rest as [|t rest1]; [apply Kc|]. destruct (is_type_arg t); [apply Kt|apply Kc].
    - destruct rest as [|t rest1]; [apply Kc|]. destruct (is_type_arg t); [apply Kt|apply Kc].
    - apply hl_delete_common_wf; exact W.
  Qed.

  Lemma hl_write_wf f (t t' : txn (S:=rstate)) :
    (forall s s', st_wf s -> f s = Ok s' -> st_wf s') -> st_wf (t_st t) -> hl_write f t = Ok t' -> st_wf (t_st t').
  Proof.
    intros Hf W. unfold hl_write. destruct (t_ended t); [discriminate|]. destruct (t_ro t); [discriminate|].
    destruct (f (t_st t)) eqn:E; cbn [bind]; try discriminate. intros H; inversion H; subst. cbn. eauto.
  Qed.

  (* every public call keeps the invariant, on the private state and on the published zone *)
  Lemma step_wf o z (t : txn (S:=rstate)) x z' t' :
    op_items_wf o -> ent_items_wf z -> st_wf (t_st t) -> step (rstore c) c o z t = Ok (x, z', t') ->
    ent_items_wf z' /\ st_wf (t_st t').
  Proof.
    intros Fo Wz Wt. destruct o; cbn [step op_items_wf] in *.
    1-4: match goal with |- context [hl_write ?f ?tt] => destruct (hl_write f tt) as [t1| |] eqn:Ew end;
         cbn [bind]; try discriminate; intros H; inversion H; subst;
         (split; [exact Wz|]); eapply hl_write_wf; [|exact Wt|exact Ew]; intros s s' Ws Hs;
         cbv beta in Hs; ((eapply hl_add_wf; [exact Ws|exact Fo|exact Hs]) || (eapply hl_delete_wf; [exact Ws|exact Fo|exact Hs])).
    - match goal with |- context [hl_update_serial ?a1 ?a2 ?a3 ?a4 ?a5 ?a6] => destruct (hl_update_serial a1 a2 a3 a4 a5 a6) as [t1| |] eqn:Eu end; cbn [bind]; try discriminate.
      intros H; inversion H; subst. split; [exact Wz|].
      unfold hl_update_serial in Eu. destruct (t_ended t); [discriminate|]. destruct (value <? 0); [discriminate|].
      destruct (match n with None => _ | Some a => _ end); cbn [bind] in Eu; try discriminate.
      destruct (s_get _ _ _ _ _) as [ex| |]; cbn [bind] in Eu; try discriminate. destruct ex as [e0|]; [|discriminate].
      destruct (r_items e0) as [|[body serial] ?]; [discriminate|].
      destruct (if relative then _ else _); cbn [bind] in Eu; try discriminate.
      eapply hl_write_wf; [|exact Wt|exact Eu]. intros s s' Ws Hs. cbv beta in Hs. eapply hl_add_wf; [exact Ws| |exact Hs].
      constructor; [exact Logic.I|constructor; [|constructor]]. cbn. split; cbn; [repeat constructor; intros []|intros _; lia].
    - destruct (t_ended t); [discriminate|]. destruct (name_of_arg n); cbn [bind]; try discriminate.
      destruct (make_type (AInt ty)); cbn [bind]; try discriminate.
      destruct (make_type (AInt cov)); cbn [bind]; try discriminate.
      destruct (s_get _ _ _ _ _); cbn [bind]; intros H; inversion H; subst; auto.
    - destruct (t_ended t); [discriminate|]. destruct (name_of_arg n); cbn [bind]; try discriminate.
      destruct (s_exists _ _ _); cbn [bind]; intros H; inversion H; subst; auto.
    - destruct (t_ended t); [discriminate|]. intros H; inversion H; subst; auto.
    - destruct (t_ended t); [discriminate|]. destruct (s_count _ _). intros H; inversion H; subst; auto.
    - destruct (t_ended t); [discriminate|]. destruct (name_of_arg n); cbn [bind]; try discriminate.
      destruct (s_node _ _ _); cbn [bind]; intros H; inversion H; subst; auto.
    - unfold hl_end. destruct (t_ended t); cbn [bind]; [discriminate|]. intros H; inversion H; subst. cbn.
      split; [|exact Wt]. destruct (_ && _); [exact Wt|exact Wz].
    - unfold hl_end. destruct (t_ended t); cbn [bind]; [discriminate|]. intros H; inversion H; subst. cbn.
      split; [|exact Wt]. destruct (_ && _); [exact Wt|exact Wz].
  Qed.

  Lemma exit_wf clean z (t : txn (S:=rstate)) :
    ent_items_wf z -> st_wf (t_st t) -> ent_items_wf (hl_exit (rstore c) clean z t).
  Proof.
    intros Wz Wt. unfold hl_exit, hl_end. destruct (t_ended t); [exact Wz|]. cbn.
    destruct (_ && _); [exact Wt|exact Wz].
  Qed.

  Lemma run_manual_wf ops : forall z (t : txn (S:=rstate)),
    Forall op_items_wf ops -> ent_items_wf z -> st_wf (t_st t) -> ent_items_wf (snd (run_manual (rstore c) c ops z t)).
  Proof.
    induction ops as [|o ops IH]; intros z t F Wz Wt; cbn [run_manual]; [cbn; apply exit_wf; auto|].
    inversion F as [|? ? Fo Fr]; subst.
    destruct (step (rstore c) c o z t) as [[[x z'] t']|e|e] eqn:E.
    - destruct (step_wf o z t x z' t' Fo Wz Wt E) as [Wz' Wt'].
      specialize (IH z' t' Fr Wz' Wt'). destruct (run_manual _ _ ops z' t'). exact IH.
    - specialize (IH z t Fr Wz Wt). destruct (run_manual _ _ ops z t). exact IH.
    - specialize (IH z t Fr Wz Wt). destruct (run_manual _ _ ops z t). exact IH.
  Qed.

  Lemma run_with_wf ops : forall fault z (t : txn (S:=rstate)),
    Forall op_items_wf ops -> ent_items_wf z -> st_wf (t_st t) -> ent_items_wf (snd (run_with (rstore c) c ops fault z t)).
  Proof.
    induction ops as [|o ops IH]; intros fault z t F Wz Wt.
    - destruct fault as [[|k]|]; cbn; apply exit_wf; auto.
    - inversion F as [|? ? Fo Fr]; subst.
      destruct fault as [[|k]|]; cbn [run_with]; [cbn; apply exit_wf; auto| |].
      + destruct (step (rstore c) c o z t) as [[[x z'] t']|e|e] eqn:E; [|cbn; apply exit_wf; auto|cbn; apply exit_wf; auto].
        destruct (step_wf o z t x z' t' Fo Wz Wt E) as [Wz' Wt'].
        specialize (IH (Some k) z' t' Fr Wz' Wt'). destruct (run_with _ _ ops (Some k) z' t'). exact IH.
      + destruct (step (rstore c) c o z t) as [[[x z'] t']|e|e] eqn:E; [|cbn; apply exit_wf; auto|cbn; apply exit_wf; auto].
        destruct (step_wf o z t x z' t' Fo Wz Wt E) as [Wz' Wt'].
        specialize (IH None z' t' Fr Wz' Wt'). destruct (run_with _ _ ops None z' t'). exact IH.
  Qed.

  Definition spec_items_wf (x : txnspec) : Prop := Forall op_items_wf (x_ops x).

  Theorem spec_hist_items_wf h : forall l,
    Forall spec_items_wf h -> ent_items_wf l -> Forall (fun x => ent_items_wf (snd x)) (spec_hist c h l).
  Proof.
    unfold spec_hist. induction h as [|x h IH]; intros l F Wl; cbn [run_hist]; [constructor|].
    inversion F as [|? ? Fx Fh]; subst.
    destruct (run_txn (rstore c) c x l) as [outs l'] eqn:E.
    assert (ent_items_wf l') as Wl'.
    { unfold run_txn in E. assert (st_wf (t_st (open_txn (rstore c) (x_mode x) l))) as Wo.
      { unfold open_txn. destruct (x_mode x =? 2); cbn; [exact Wl|]. destruct (x_mode x =? 1); [constructor|exact Wl]. }
      destruct (x_style x =? 1).
      - pose proof (run_with_wf (x_ops x) (x_fault x) l _ Fx Wl Wo) as K. rewrite E in K. exact K.
      - pose proof (run_manual_wf (x_ops x) l _ Fx Wl Wo) as K. rewrite E in K. exact K. }
    constructor; [exact Wl'|]. apply IH; auto.
  Qed.
End Items.

(* ---------------------------------------------------------------- the zone model *)
(* every rdataset an observer can find in a reachable zone has no duplicates, and at most one record if its
   type is a singleton type *)
Theorem singleton_invariant c h z l :
  wfc c -> Forall spec_valid h -> Forall spec_items_wf h -> RP c z l -> ent_items_wf l ->
  Forall (fun x => forall n nd, Valid n -> zone_get_node c (snd x) n = Some nd -> Forall items_wf nd) (impl_hist c h z).
Proof.
  intros W V Fi HP Wl.
  pose proof (refines_hist c h z l W V HP) as Rf.
  pose proof (spec_hist_items_wf c h l Fi Wl) as Ws.
  revert Ws. induction Rf as [|x y hx hy [_ Hxy] Rf IH]; intros Ws; [constructor|].
  inversion Ws; subst. constructor; [|apply IH; assumption].
  intros n nd Vn Hn. rewrite (RP_observe c (snd x) (snd y) n W Vn Hxy) in Hn. unfold ref_node in Hn.
  destruct (canon c n) as [a| |]; try discriminate.
  assert (nd = entries_at a (snd y)) as -> by (destruct (entries_at a (snd y)); inversion Hn; reflexivity).
  unfold entries_at. apply Forall_forall. intros r Hr. apply in_map_iff in Hr. destruct Hr as (e & <- & He).
  apply filter_In in He. destruct He as [He _]. eapply Forall_forall in H1; eauto.
Qed.
