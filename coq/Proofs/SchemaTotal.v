(* Decoding arbitrary octets always terminates with a record or a library error: the fuel of the
   `while parser.remaining() > 0` loops suffices for every well-formed schema (each row consumes
   at least one octet), names come from NameWire.from_wire_total. *)
From DV Require Import Base.Prelude Model.NameM Model.SchemaM Proofs.SchemaCodec.
From DV Require Proofs.NameValid Proofs.NameWire.
Open Scope Z_scope.

(* ---------- progress of dns.name.from_wire: at least one octet is consumed ---------- *)
Lemma nm_get_bytes_furthest : forall w p n l p',
  NameM.get_bytes w p n = Ok (l, p') -> (furthest p <= furthest p' /\ cur p + n <= furthest p')%nat.
Proof.
  intros w p n l p' H. unfold NameM.get_bytes in H.
  destruct (Nat.ltb (length w - cur p) n); [discriminate|]. injection H as <- <-. cbn [furthest]. lia.
Qed.

Lemma nm_get_u8_furthest : forall w p x p',
  NameM.get_u8 w p = Ok (x, p') -> (furthest p <= furthest p' /\ cur p + 1 <= furthest p')%nat.
Proof.
  intros w p x p' H. unfold NameM.get_u8 in H.
  destruct (NameM.get_bytes w p 1) as [[l q]| |] eqn:E; try discriminate.
  destruct l as [|y [|z l']]; try discriminate. injection H as <- <-.
  eapply nm_get_bytes_furthest; eauto.
Qed.

Lemma fw_go_furthest : forall w fuel p big acc ls p',
  fw_go w fuel p big acc = Ok (ls, p') -> (furthest p <= furthest p')%nat.
Proof.
  induction fuel as [|f IH]; intros p big acc ls p' H; cbn [fw_go] in H; [discriminate|].
  destruct (NameM.get_u8 w p) as [[count p1]| |] eqn:E1; try discriminate.
  apply nm_get_u8_furthest in E1 as [F1 _].
  destruct (count =? 0); [injection H as <- <-; exact F1|].
  destruct (count <? 64).
  - destruct (NameM.get_bytes w p1 (Z.to_nat count)) as [[l p2]| |] eqn:E2; try discriminate.
    apply nm_get_bytes_furthest in E2 as [F2 _]. apply IH in H. lia.
  - destruct (192 <=? count); [|discriminate].
    destruct (NameM.get_u8 w p1) as [[lo p2]| |] eqn:E2; try discriminate.
    apply nm_get_u8_furthest in E2 as [F2 _].
    destruct (Nat.leb big _); [discriminate|]. destruct (Nat.ltb (length w) _); [discriminate|].
    apply IH in H. cbn [furthest] in H. lia.
Qed.

Lemma from_wire_progress : forall w s n c, NameM.from_wire w s = Ok (n, c) -> (1 <= c)%nat.
Proof.
  intros w s n c H. unfold NameM.from_wire in H.
  destruct (Nat.ltb (length w) s); [discriminate|].
  destruct (fw_go w (fw_fuel w s) {| cur := s; furthest := s |} s []) as [[ls p]| |] eqn:E; try discriminate.
  unfold fw_fuel in E. cbn [fw_go] in E.
  destruct (NameM.get_u8 w {| cur := s; furthest := s |}) as [[count p1]| |] eqn:E1; try discriminate.
  apply nm_get_u8_furthest in E1 as [_ F1]. cbn [cur] in F1.
  assert (Hp : (furthest p1 <= furthest p)%nat).
  { destruct (count =? 0); [injection E as <- <-; lia|].
    destruct (count <? 64).
    - destruct (NameM.get_bytes w p1 (Z.to_nat count)) as [[l p2]| |] eqn:E2; try discriminate.
      apply nm_get_bytes_furthest in E2 as [F2 _]. apply fw_go_furthest in E. lia.
    - destruct (192 <=? count); [|discriminate].
      destruct (NameM.get_u8 w p1) as [[lo p2]| |] eqn:E2; try discriminate.
      apply nm_get_u8_furthest in E2 as [F2 _].
      destruct (Nat.leb s _); [discriminate|]. destruct (Nat.ltb (length w) _); [discriminate|].
      apply fw_go_furthest in E. cbn [furthest] in E. lia. }
  destruct (mk_name ls) as [m| |]; cbn [bind] in H; try discriminate.
  injection H as <- <-. lia.
Qed.

(* ---------- no Internal, and progress, field by field ---------- *)
Lemma get_bytes_lib : forall w e c n x, get_bytes w e c n <> Internal x.
Proof. intros. unfold get_bytes. destruct (Nat.ltb (e - c) n); discriminate. Qed.

Lemma get_bytes_cur : forall w e c n b c', get_bytes w e c n = Ok (b, c') -> c' = (c + n)%nat.
Proof. intros w e c n b c' H. unfold get_bytes in H. destruct (Nat.ltb (e - c) n); [discriminate|]. injection H as _ <-. reflexivity. Qed.

Lemma relativize_lib : forall n o x, relativize n o <> Internal x.
Proof.
  intros n o x. unfold relativize. destruct (is_subdomain n o); [|discriminate].
  apply NameValid.mk_name_never_internal.
Qed.

Lemma get_name_lib : forall w o rel e c x, get_name w o rel e c <> Internal x.
Proof.
  intros w o rel e c x. unfold get_name.
  destruct (NameM.from_wire (firstn e w) c) as [[n k]| |] eqn:E; try discriminate.
  - destruct (if rel then o else None) as [[|y o']|]; try discriminate.
    destruct (relativize n (y :: o')) eqn:R; cbn [bind]; try discriminate.
    exfalso. eapply relativize_lib; eauto.
  - exfalso. eapply NameWire.from_wire_total; eauto.
Qed.

Lemma get_name_progress : forall w o rel e c n c', get_name w o rel e c = Ok (n, c') -> (c + 1 <= c')%nat.
Proof.
  intros w o rel e c n c' H. unfold get_name in H.
  destruct (NameM.from_wire (firstn e w) c) as [[m k]| |] eqn:E; try discriminate.
  apply from_wire_progress in E.
  destruct (if rel then o else None) as [[|y o']|].
  - injection H as _ <-. lia.
  - destruct (relativize m (y :: o')); cbn [bind] in H; try discriminate. injection H as _ <-. lia.
  - injection H as _ <-. lia.
Qed.

Lemma dec_s_lib : forall w o f e c x, dec_s w o f e c <> Internal x.
Proof.
  intros w o [wd m|n|wd lo hi|rel] e c x; cbn [dec_s].
  - destruct (get_bytes w e c wd) eqn:E; cbn [bind]; try discriminate. exfalso; eapply get_bytes_lib; eauto.
  - destruct (get_bytes w e c n) eqn:E; cbn [bind]; try discriminate. exfalso; eapply get_bytes_lib; eauto.
  - destruct (get_bytes w e c wd) as [[l c1]| |] eqn:E; cbn [bind fst snd]; try discriminate.
    + destruct (get_bytes w e c1 (Z.to_nat (be_decode l))) eqn:E2; cbn [bind]; try discriminate.
      exfalso; eapply get_bytes_lib; eauto.
    + exfalso; eapply get_bytes_lib; eauto.
  - destruct (get_name w o rel e c) eqn:E; cbn [bind]; try discriminate. exfalso; eapply get_name_lib; eauto.
Qed.

Lemma dec_s_progress : forall w o f e c v c',
  sfld_wf f = true -> dec_s w o f e c = Ok (v, c') -> (c + 1 <= c')%nat.
Proof.
  intros w o [wd m|n|wd lo hi|rel] e c v c' Hwf H; cbn [dec_s] in H; unfold sfld_wf in Hwf.
  - inv_bind H. injection H as _ <-. destruct x as [l c1]. apply get_bytes_cur in E. cbn [snd].
    apply andb_prop in Hwf as [Hwf _]. apply andb_prop in Hwf as [Hwf _]. apply Nat.ltb_lt in Hwf. lia.
  - inv_bind H. injection H as _ <-. destruct x as [l c1]. apply get_bytes_cur in E. cbn [snd].
    apply Nat.ltb_lt in Hwf. lia.
  - inv_bind H. inv_bind H. injection H as _ <-. destruct x as [l c1], x0 as [l2 c2].
    apply get_bytes_cur in E. apply get_bytes_cur in E0. cbn [fst snd] in *.
    apply andb_prop in Hwf as [Hwf _]. apply andb_prop in Hwf as [Hwf _]. apply Nat.ltb_lt in Hwf. lia.
  - inv_bind H. injection H as _ <-. destruct x as [n c1]. cbn [snd]. eapply get_name_progress; eauto.
Qed.

Lemma dec_row_lib : forall w o fs e c x, dec_row w o fs e c <> Internal x.
Proof.
  induction fs as [|f fr IH]; intros e c x; cbn [dec_row]; [discriminate|].
  destruct (dec_s w o f e c) as [[v c1]| |] eqn:E; cbn [bind fst snd]; try discriminate.
  - destruct (dec_row w o fr e c1) eqn:E2; cbn [bind]; try discriminate. exfalso; eapply IH; eauto.
  - exfalso; eapply dec_s_lib; eauto.
Qed.

Lemma dec_row_mono : forall w o fs e c vs c',
  forallb sfld_wf fs = true -> dec_row w o fs e c = Ok (vs, c') -> (c <= c')%nat.
Proof.
  induction fs as [|f fr IH]; intros e c vs c' Hwf H; cbn [dec_row] in H.
  - injection H as _ <-. lia.
  - cbn [forallb] in Hwf. apply andb_prop in Hwf as [W1 W2].
    inv_bind H. inv_bind H. injection H as _ <-. destruct x as [v c1], x0 as [vr c2]. cbn [fst snd] in *.
    apply dec_s_progress in E; [|assumption]. apply IH in E0; [|assumption]. lia.
Qed.

Lemma dec_row_progress : forall w o fs e c vs c',
  fs <> [] -> forallb sfld_wf fs = true -> dec_row w o fs e c = Ok (vs, c') -> (c + 1 <= c')%nat.
Proof.
  intros w o [|f fr] e c vs c' Hne Hwf H; [congruence|]. cbn [dec_row] in H.
  cbn [forallb] in Hwf. apply andb_prop in Hwf as [W1 W2].
  inv_bind H. inv_bind H. injection H as _ <-. destruct x as [v c1], x0 as [vr c2]. cbn [fst snd] in *.
  apply dec_s_progress in E; [|assumption]. apply dec_row_mono in E0; [|assumption]. lia.
Qed.

Lemma dec_rows_lib : forall w o row, row <> [] -> forallb sfld_wf row = true ->
  forall fuel e c x, (e - c < fuel)%nat -> dec_rows w o fuel row e c <> Internal x.
Proof.
  intros w o row Hne Hwf. induction fuel as [|f IH]; intros e c x Hf; cbn [dec_rows].
  - destruct (Nat.leb_spec e c); [discriminate|lia].
  - destruct (Nat.leb_spec e c); [discriminate|].
    destruct (dec_row w o row e c) as [[r c1]| |] eqn:E; cbn [bind fst snd]; try discriminate.
    + apply dec_row_progress in E; try assumption.
      destruct (dec_rows w o f row e c1) eqn:E2; cbn [bind]; try discriminate.
      exfalso. eapply (IH e c1); [lia|eauto].
    + exfalso; eapply dec_row_lib; eauto.
Qed.

Lemma dec_f_lib : forall w o f e c x, last_wf f = true -> dec_f w o f e c <> Internal x.
Proof.
  intros w o [s|lo|n|hi|m a row] e c x Hwf; cbn [dec_f].
  - destruct (dec_s w o s e c) eqn:E; cbn [bind]; try discriminate. exfalso; eapply dec_s_lib; eauto.
  - destruct (get_bytes w e c (e - c)) eqn:E; cbn [bind]; try discriminate. exfalso; eapply get_bytes_lib; eauto.
  - destruct (get_bytes w e c (e - c)) eqn:E; cbn [bind]; try discriminate. exfalso; eapply get_bytes_lib; eauto.
  - destruct (Nat.ltb c e); [|discriminate].
    destruct (dec_s w o (FCounted 1 0 255) e c) eqn:E; cbn [bind]; try discriminate. exfalso; eapply dec_s_lib; eauto.
  - cbn [last_wf] in Hwf. unfold row_wf in Hwf. apply andb_prop in Hwf as [W1 W2].
    assert (Hne : row <> []) by (destruct row; [discriminate|congruence]).
    destruct (dec_rows w o (S (e - c)) row e c) eqn:E; cbn [bind]; try discriminate.
    exfalso. eapply (dec_rows_lib w o row Hne W1 (S (e - c)) e c); [lia|eauto].
Qed.

Lemma dec_fields_lib : forall w o fs e c x, schema_wf fs = true -> dec_fields w o fs e c <> Internal x.
Proof.
  induction fs as [|f fr IH]; intros e c x Hwf; cbn [dec_fields]; [discriminate|].
  assert (Hl : last_wf f = true /\ schema_wf fr = true).
  { destruct fr as [|f2 fr'].
    - split; [destruct f; exact Hwf|reflexivity].
    - destruct f as [s| | | |]; try (cbn in Hwf; discriminate).
      cbn [schema_wf] in Hwf. apply andb_prop in Hwf. exact Hwf. }
  destruct Hl as [L1 L2].
  destruct (dec_f w o f e c) as [[v c1]| |] eqn:E; cbn [bind fst snd]; try discriminate.
  - destruct (dec_fields w o fr e c1) eqn:E2; cbn [bind]; try discriminate. exfalso; eapply IH; eauto.
  - exfalso; eapply dec_f_lib; eauto.
Qed.

(* dns.rdata.from_wire on ANY octets, offset, length and origin: a record or a library error *)
Theorem decode_never_internal_thm : forall o fs ck wire cur rdlen x,
  schema_wf fs = true -> decode_rdata o fs ck wire cur rdlen <> Internal x.
Proof.
  intros o fs ck wire cur rdlen x Hwf. unfold decode_rdata.
  destruct (Nat.ltb (length wire) cur); [discriminate|].
  destruct (Nat.ltb (length wire - cur) rdlen); [discriminate|]. cbv zeta.
  destruct (dec_fields wire o fs (cur + rdlen) cur) as [[vs c]| |] eqn:E; cbn [bind fst snd].
  - destruct (negb (validate fs ck vs)); [discriminate|]. destruct (Nat.eqb c (cur + rdlen)); discriminate.
  - discriminate.
  - exfalso. eapply dec_fields_lib; eauto.
Qed.
