(* C20, layer D6b: put_rdataset preserves the invariant (including the eviction of the NS rdataset
   of a delegation point by a CNAME). *)
From DV Require Import Base.Prelude Model.NameM Model.BTZoneM
     Proofs.BTZoneOrder Proofs.BTZoneList Proofs.BTZoneSpec Proofs.BTZoneWalk Proofs.BTZoneInv
     Proofs.BTZoneMaster Proofs.BTZoneOps Proofs.BTZoneOps2 Proofs.BTZoneOps3.
Open Scope Z_scope.

Ltac cond_false :=
  match goal with
  | |- Inv _ (if ?b then _ else _) => let Hc := fresh "Hc" in assert (Hc : b = false); [|rewrite Hc]
  end.

(* ---------- put_rdataset ---------- *)
Theorem put_inv : forall c v n t x,
    Inv c v -> validk c (K n) -> Inv c (put_rdataset c v n t x).
Proof.
  intros c v n t x HI Hv. unfold put_rdataset.
  destruct (maybe_cow c v n) as [[l1 d1 ch1] nd] eqn:Ec.
  destruct (cow_spec c v n _ nd HI Hv Ec) as (HI1 & _ & (n0 & E0 & Hin0) & _).
  cbn [v_nodes v_delegs v_changed] in *.
  pose proof (inv_sn c _ HI1) as S1. pose proof (inv_sd c _ HI1) as Sd1. cbn [v_nodes v_delegs] in S1, Sd1.
  pose proof (inv_flags c _ HI1 n0 nd Hin0) as Hf. cbn [v_nodes] in Hf.
  rewrite (is_apex_ext c n0 n), (occluded_ext c l1 n0 n) in Hf by auto.
  pose proof (inv_nd c _ HI1 n0 nd Hin0) as Hnd.
  pose proof (D_refl l1 n n0 nd S1 Hin0 E0) as D0.
  pose proof (flag_cases (is_apex c n) (occluded c l1 n) (has_ns nd)) as (Fc1 & _ & _).
  cbn zeta in Fc1. rewrite <- Hf in Fc1. rewrite Fc1.
  pose proof (owner_entry c l1 n0 nd S1 Hin0) as Hoe. rewrite E0 in Hoe.
  destruct ((t =? tNS) && (negb (is_apex c n) && negb (occluded c l1 n))) eqn:Eb.
  - (* a delegation point: NS at a name that is neither the origin nor glue *)
    apply andb_true_iff in Eb as [Et Eb]. apply andb_true_iff in Eb as [Ea Eo].
    apply Z.eqb_eq in Et. subst t. apply negb_true_iff in Ea, Eo.
    assert (Hna : K n <> apexkey c) by (apply is_apex_false_key; auto).
    assert (Hno : ~ occk c l1 (K n)) by (apply occluded_false_iff; auto).
    rewrite Ea, Eo in Hf.
    assert (Hf2 : Z.lor (nflags nd) fDELEGATION = fDELEGATION) by (rewrite Hf; destruct (has_ns nd); reflexivity).
    rewrite Hf2.
    set (nd2 := mkNode fDELEGATION (nrds nd)).
    set (ndf := mkNode fDELEGATION (rds_replace tNS x (nrds nd))).
    assert (Hnsf : ns_owner c (n0, ndf) = true).
    { unfold ns_owner. cbn [fst snd]. unfold ndf. rewrite has_ns_replace_ns.
      rewrite (is_apex_ext c n0 n), Ea by auto. reflexivity. }
    assert (Hndf : NoDup (map fst (nrds ndf))) by (apply rds_replace_nodup; auto).
    pose proof (D_update l1 l1 n n0 nd nd2 idtr S1 D0 E0) as D2.
    pose proof (al_update_sorted l1 n nd2 S1) as S2.
    destruct (al_mem n d1) eqn:Em; cbn [negb].
    + (* already a delegation point *)
      cbn [v_nodes v_delegs v_changed nflags nrds].
      cond_false; [rewrite has_ns_replace_ns; reflexivity|].
      pose proof (D_update l1 _ n n0 nd2 ndf idtr S2 D2 E0) as Df.
      apply (inv_mem c _ HI1) in Em as [Ho _]. cbn [v_nodes] in Ho. apply Hoe in Ho as [Hns _].
      assert (Hown : forall k, owner c (al_update n ndf (al_update n nd2 l1)) k <-> owner c l1 k).
      { eapply owner_same_entry; eauto. rewrite Hnsf. unfold ns_owner. cbn [fst snd].
        rewrite Hns, (is_apex_ext c n0 n), Ea by auto. reflexivity. }
      eapply (Inv_same_occ c l1 d1 ch1 _ d1 ch1 n (Some (n0, ndf)) idtr); eauto.
      * apply al_update_sorted; auto.
      * intros k. apply occP_ext. exact Hown.
      * intros n1 nd1 He. injection He as <- <-. rewrite Ea, Eo. unfold ndf. rewrite has_ns_replace_ns. reflexivity.
      * tauto.
      * intros e He. inversion He; subst e. exact Hndf.
    + (* a new delegation point: index it, mark its subtree as glue *)
      cbn [v_nodes v_delegs v_changed].
      destruct (ugf_true_desc (al_update n nd2 l1) (al_set n tt d1) ch1 n S2 (al_set_sorted _ _ _ Sd1))
        as (l3 & d3 & ch3 & Eu & S3 & Sd3 & Hl3 & Hd3).
      rewrite Eu. cbn [v_nodes v_delegs v_changed nflags nrds].
      cond_false; [rewrite has_ns_replace_ns; reflexivity|].
      set (trw := fun (k : name) (y : node) => if strictly_beneath k n then mkNode fGLUE (nrds y) else y).
      assert (D3 : Desc l1 l3 n (Some (n0, nd2)) trw).
      { eapply D_trans_walk; eauto. intros k y Ek. unfold trw. rewrite not_sb_self; auto. }
      pose proof (D_update l1 l3 n n0 nd2 ndf trw S3 D3 E0) as Df.
      eapply (Inv_new_top c l1 d1 ch1 _ d3 ch3 n n0 ndf trw); eauto.
      * apply al_update_sorted; auto.
      * intros k y. unfold trw. destruct (strictly_beneath k n); reflexivity.
      * unfold ndf. apply has_ns_replace_ns.
      * intros k y Hin Hk. unfold trw. destruct (strictly_beneath k n); reflexivity.
      * intros y. rewrite Hd3. split.
        -- intros [Hy Hn]. apply keys_in in Hy as (k & u & Hin & <-). apply al_set_in in Hin; auto.
           destruct Hin as [Hin|[Hin Hk]]; [inversion Hin; subst; auto|]. right.
           assert (Hk1 : In (K k) (keys d1)) by (eapply in_keys; eauto).
           split; auto. intros Hs. apply Hn. split; auto.
           rewrite al_update_keys. apply (inv_deleg_keys_nodes c _ HI1). exact Hk1.
        -- intros [->|[Hy Hn]].
           ++ split; [apply (in_keys _ n tt); apply al_set_in; auto|].
              intros [Hs _]. eapply sbelow_irrefl; eauto.
           ++ split; [|intros [Hs _]; auto]. apply keys_in in Hy as (k & u & Hin & <-).
              destruct (key_eq_dec (K k) (K n)) as [Ek|Ek].
              ** rewrite Ek. apply (in_keys _ n tt); apply al_set_in; auto.
              ** apply (in_keys _ k u). apply al_set_in; auto.
  - (* no change of the delegation structure by an NS rdataset *)
    cbn [v_nodes v_delegs v_changed].
    set (ndf := mkNode (nflags nd) (rds_replace t x (nrds nd))).
    pose proof (D_update l1 l1 n n0 nd ndf idtr S1 D0 E0) as Df.
    assert (Hndf : NoDup (map fst (nrds ndf))) by (apply rds_replace_nodup; auto).
    pose proof (flag_cases (is_apex c n) (occluded c l1 n) (has_ns nd)) as (_ & Fc2 & _).
    cbn zeta in Fc2. rewrite <- Hf in Fc2.
    change (nflags ndf) with (nflags nd). rewrite Fc2.
    destruct (t =? tNS) eqn:Et.
    + apply Z.eqb_eq in Et. subst t. cbn [andb] in Eb.
      assert (Hnsf' : has_ns ndf = true) by (unfold ndf; apply has_ns_replace_ns).
      rewrite Hnsf'. rewrite andb_false_r.
      destruct (is_apex c n) eqn:Ea.
      * (* NS at the origin *)
        assert (Hown : forall k, owner c (al_update n ndf l1) k <-> owner c l1 k).
        { eapply owner_same_entry; eauto. unfold ns_owner. cbn [fst snd].
          rewrite (is_apex_ext c n0 n), Ea, !andb_false_r by auto. reflexivity. }
        eapply (Inv_same_occ c l1 d1 ch1 _ d1 ch1 n (Some (n0, ndf)) idtr); eauto.
        -- apply al_update_sorted; auto.
        -- intros k. apply occP_ext. exact Hown.
        -- intros n1 nd1 He. injection He as <- <-. unfold ndf. cbn [nflags]. rewrite Hf, Ea. reflexivity.
        -- tauto.
        -- intros e He. inversion He; subst e. exact Hndf.
      * (* NS beneath a delegation point *)
        cbn [negb andb] in Eb. apply negb_false_iff in Eb.
        assert (Hna : K n <> apexkey c) by (apply is_apex_false_key; auto).
        assert (Hocc : occk c l1 (K n)) by (apply occluded_iff; auto).
        assert (Hnsf : ns_owner c (n0, ndf) = true).
        { unfold ns_owner. cbn [fst snd]. rewrite Hnsf'.
          rewrite (is_apex_ext c n0 n), Ea by auto. reflexivity. }
        pose proof (owner_add_entry c l1 _ n n0 ndf idtr Df (fun _ _ => eq_refl) E0 Hnsf) as Hown.
        eapply (Inv_same_occ c l1 d1 ch1 _ d1 ch1 n (Some (n0, ndf)) idtr); eauto.
        -- apply al_update_sorted; auto.
        -- intros k. rewrite !occk_occP. eapply occP_add_occluded; eauto.
        -- intros k Hk. rewrite Hown. split; auto. intros [H| ->]; auto. contradiction.
        -- intros n1 nd1 He. injection He as <- <-. unfold ndf. cbn [nflags]. rewrite Hf, Ea, Eb. reflexivity.
        -- tauto.
        -- intros e He. inversion He; subst e. exact Hndf.
    + (* another type: the NS rdataset stays, unless a CNAME evicts it *)
      apply Z.eqb_neq in Et. clear Eb.
      assert (Hns : has_ns ndf = if kind t =? 2 then false else has_ns nd).
      { unfold ndf. rewrite has_ns_replace_other by auto. reflexivity. }
      destruct (negb (is_apex c n) && negb (occluded c l1 n) && has_ns nd && negb (has_ns ndf)) eqn:Ec2.
      * (* the NS rdataset of a delegation point was evicted *)
        apply andb_true_iff in Ec2 as [Ec2 Hnf]. apply andb_true_iff in Ec2 as [Ec2 Hh].
        apply andb_true_iff in Ec2 as [Ea Eo]. apply negb_true_iff in Ea, Eo, Hnf.
        rewrite Ea, Eo, Hh in Hf.
        assert (Hf2 : Z.land (nflags nd) (Z.lnot fDELEGATION) = 0) by (rewrite Hf; reflexivity).
        cbn [nflags nrds]. rewrite Hf2.
        set (nd4 := mkNode 0 (nrds ndf)).
        assert (Hkd : In (K n) (keys d1)).
        { apply (inv_d c _ HI1). cbn [v_nodes]. split; [|apply occluded_false_iff; auto].
          apply Hoe. split; auto. apply is_apex_false_key; auto. }
        destruct (expose_desc c l1 d1 ch1 n n0 nd nd4 HI1 Hin0 E0)
          as (l3 & d3 & ch3 & trw & Eu & S3 & Sd3 & D3 & Htr & Hfl & Hd3).
        rewrite Eu.
        eapply (Inv_del_top c l1 d1 ch1 l3 d3 ch3 n (Some (n0, nd4)) trw); eauto.
        -- intros e He. inversion He; subst e. cbn [snd]. split; [exact Hnf|reflexivity].
        -- intros e He. inversion He; subst e. exact Hndf.
      * eapply Inv_change_entry; eauto.
        destruct (kind t =? 2) eqn:Ek; [|left; exact Hns].
        destruct (has_ns nd) eqn:Hh; [|left; congruence].
        right. split; auto. rewrite Hns, andb_true_r in Ec2. cbn [negb] in Ec2. rewrite andb_true_r in Ec2.
        destruct (is_apex c n) eqn:Ea.
        -- left. intros Ho. apply Hoe in Ho as [_ Hna]. apply is_apex_key in Ea. contradiction.
        -- cbn [negb andb] in Ec2. apply negb_false_iff in Ec2. right. apply occluded_iff; auto.
Qed.
