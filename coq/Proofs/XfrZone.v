(* C13 - finite-map lemmas for zones and the effect of Transaction.add / delete_exact with
   single-record RRsets, entry by entry. *)
From DV Require Import Base.Prelude Model.XfrM Proofs.XfrSets Proofs.XfrSpec.

Lemma key_eqb_eq : forall a b, key_eqb a b = true <-> a = b.
Proof.
  intros [[a1 a2] a3] [[b1 b2] b3]. unfold key_eqb.
  rewrite !andb_true_iff, !Z.eqb_eq. split.
  - intros [[-> ->] ->]. reflexivity.
  - intros H. inversion H. auto.
Qed.

Lemma key_eqb_refl : forall a, key_eqb a a = true.
Proof. intros a. apply key_eqb_eq. reflexivity. Qed.

Lemma key_eqb_neq : forall a b, key_eqb a b = false <-> a <> b.
Proof.
  intros a b. rewrite <- key_eqb_eq. destruct (key_eqb a b); split; intros; try discriminate; auto.
  exfalso; auto.
Qed.

Lemma key_eqb_sym : forall a b, key_eqb a b = key_eqb b a.
Proof.
  intros a b. destruct (key_eqb a b) eqn:H.
  - apply key_eqb_eq in H. subst. symmetry. apply key_eqb_refl.
  - destruct (key_eqb b a) eqn:H2; [|reflexivity].
    apply key_eqb_eq in H2. subst. rewrite key_eqb_refl in H. discriminate.
Qed.

Lemma look_zremove : forall z k k', look (zremove k z) k' = if key_eqb k' k then None else look z k'.
Proof.
  induction z as [|[k0 e0] r IH]; intros k k'; cbn [zremove look].
  - destruct (key_eqb k' k); reflexivity.
  - destruct (key_eqb k k0) eqn:H0.
    + apply key_eqb_eq in H0. subst k0. rewrite IH.
      destruct (key_eqb k' k); reflexivity.
    + cbn [look]. rewrite IH. destruct (key_eqb k' k0) eqn:H1; [|reflexivity].
      apply key_eqb_eq in H1. subst k0. rewrite (key_eqb_sym k' k), H0. reflexivity.
Qed.

Lemma look_zput : forall z k e k', look (zput k e z) k' = if key_eqb k' k then Some e else look z k'.
Proof.
  intros z k e k'. unfold zput. cbn [look]. destruct (key_eqb k' k) eqn:H; [reflexivity|].
  rewrite look_zremove, H. reflexivity.
Qed.

Definition zset (k : key) (oe : option entry) (z : zone) : zone :=
  match oe with Some e => zput k e z | None => zremove k z end.

Lemma look_zset : forall z k oe k', look (zset k oe z) k' = if key_eqb k' k then oe else look z k'.
Proof. intros z k [e|] k'; cbn [zset]; [apply look_zput|apply look_zremove]. Qed.

Lemma look_not_in : forall z k, ~ In k (map fst z) -> look z k = None.
Proof.
  induction z as [|[k0 e0] r IH]; intros k H; cbn [look]; [reflexivity|].
  destruct (key_eqb k k0) eqn:E.
  - apply key_eqb_eq in E. subst. exfalso. apply H. left; reflexivity.
  - apply IH. intros Hin. apply H. right; exact Hin.
Qed.

Lemma look_in : forall z k e, NoDup (map fst z) -> In (k, e) z -> look z k = Some e.
Proof.
  induction z as [|[k0 e0] r IH]; intros k e Hnd Hin; [destruct Hin|].
  cbn [look]. inversion Hnd; subst. destruct Hin as [Hin|Hin].
  - inversion Hin; subst. rewrite key_eqb_refl. reflexivity.
  - destruct (key_eqb k k0) eqn:E.
    + apply key_eqb_eq in E. subst. exfalso. apply H1. apply (in_map fst) in Hin. exact Hin.
    + apply IH; assumption.
Qed.

Lemma zeq_refl : forall z, zeq z z. Proof. intros z k; reflexivity. Qed.
Lemma zeq_sym : forall a b, zeq a b -> zeq b a. Proof. intros a b H k; symmetry; apply H. Qed.
Lemma zeq_trans : forall a b c, zeq a b -> zeq b c -> zeq a c.
Proof. intros a b c H1 H2 k; rewrite H1; apply H2. Qed.

(* ---- one record added / deleted, seen at its entry ---- *)
Definition add1 (e : option entry) (ttl d : Z) : entry :=
  match e with
  | None => (ttl, [d])
  | Some (t, ds) => ((if ttl <? t then ttl else t), ins d ds)
  end.

Definition norm (t : Z) (ds : list Z) : option entry :=
  match ds with [] => None | _ => Some (t, ds) end.

(* None = DeleteNotExact *)
Definition del1 (e : option entry) (d : Z) : option (option entry) :=
  match e with
  | None => None
  | Some (t, ds) => if mem d ds then Some (norm t (diff ds [d])) else None
  end.

Lemma clamp_ok : forall t, ttl_ok t -> clamp_ttl t = t.
Proof. intros t [H1 H2]. unfold clamp_ttl. destruct (t >? 2147483647) eqn:E; [|reflexivity]. apply Z.gtb_lt in E. lia. Qed.

(* plain without the restriction on the node kind *)
Definition plain_g (r : rr) : Prop :=
  r_class r = cIN /\ r_type r <> tSOA /\ 0 <= r_name r /\ ttl_ok (r_ttl r) /\ is_singleton (r_type r) = false.

Definition plain (r : rr) : Prop :=
  r_class r = cIN /\ r_type r <> tSOA /\ 0 <= r_name r /\ ttl_ok (r_ttl r) /\ is_singleton (r_type r) = false /\
  kind_of (r_type r) (r_covers r) <> 2.

(* ---- dns/node.py: CNAME and other data ---- *)
(* storing an rdataset under k drops nothing *)
Definition addable (z : zone) (k : key) : Prop := forall k', look z k' <> None -> conflicts k k' = false.
(* no node of z holds both CNAME-kind and REGULAR rdatasets *)
Definition consistent (z : zone) : Prop :=
  forall k k', look z k <> None -> look z k' <> None -> conflicts k k' = false.
(* z has no CNAME-kind rdataset at all *)
Definition quiet (z : zone) : Prop := forall k, look z k <> None -> key_kind k <> 2.

Lemma in_look_some : forall z k e, In (k, e) z -> look z k <> None.
Proof.
  induction z as [|[k0 e0] r IH]; intros k e Hin; [destruct Hin|]. cbn [look].
  destruct (key_eqb k k0) eqn:E; [discriminate|]. destruct Hin as [H|H]; [|eapply IH; exact H].
  inversion H; subst. rewrite key_eqb_refl in E. discriminate.
Qed.

Lemma filter_all : forall {A} (f : A -> bool) l, (forall x, In x l -> f x = true) -> filter f l = l.
Proof.
  induction l as [|a l IH]; intros H; cbn [filter]; [reflexivity|].
  rewrite (H a (or_introl eq_refl)). f_equal. apply IH. intros x Hx. apply H. right; exact Hx.
Qed.

Lemma node_clean_id : forall z k, addable z k -> node_clean k z = z.
Proof.
  intros z k H. unfold node_clean. apply filter_all. intros [k' e] Hin. cbn [fst].
  rewrite (H k' (in_look_some _ _ _ Hin)). reflexivity.
Qed.

Lemma node_put_id : forall z k e, addable z k -> node_put k e z = zput k e z.
Proof. intros z k e H. unfold node_put. rewrite (node_clean_id _ _ H). reflexivity. Qed.

Lemma conflicts_kind : forall k k', key_kind k <> 2 -> key_kind k' <> 2 -> conflicts k k' = false.
Proof.
  intros k k' H1 H2. unfold conflicts. apply Z.eqb_neq in H1, H2. rewrite H1, H2.
  rewrite andb_false_r. cbn. apply andb_false_r.
Qed.

Lemma conflicts_sym : forall k k', conflicts k k' = conflicts k' k.
Proof.
  intros k k'. unfold conflicts. rewrite (Z.eqb_sym (name_of_key k)). f_equal.
  rewrite orb_comm. f_equal; apply andb_comm.
Qed.

Lemma conflicts_refl : forall k, conflicts k k = false.
Proof.
  intros k. unfold conflicts. destruct (key_kind k =? 2) eqn:E2; destruct (key_kind k =? 0) eqn:E0;
    rewrite ?andb_false_r; try reflexivity.
  apply Z.eqb_eq in E2, E0. congruence.
Qed.

Lemma quiet_addable : forall z k, quiet z -> key_kind k <> 2 -> addable z k.
Proof. intros z k Hq Hk k' Hl. apply conflicts_kind; [exact Hk|apply Hq, Hl]. Qed.

Lemma quiet_consistent : forall z, quiet z -> consistent z.
Proof. intros z Hq k k' H1 H2. apply conflicts_kind; apply Hq; assumption. Qed.

Lemma consistent_addable : forall z k, consistent z -> look z k <> None -> addable z k.
Proof. intros z k Hc Hk k' Hk'. apply Hc; assumption. Qed.

Lemma quiet_nil : quiet [].
Proof. intros k H. exfalso. apply H. reflexivity. Qed.

Lemma quiet_zeq : forall a b, zeq a b -> quiet b -> quiet a.
Proof. intros a b H Hq k Hl. apply Hq. rewrite <- H. exact Hl. Qed.

Lemma quiet_zput : forall z k e, quiet z -> key_kind k <> 2 -> quiet (zput k e z).
Proof.
  intros z k e Hq Hk k' Hl. rewrite look_zput in Hl. destruct (key_eqb k' k) eqn:E.
  - apply key_eqb_eq in E. subst. exact Hk.
  - apply Hq, Hl.
Qed.

Lemma quiet_zremove : forall z k, quiet z -> quiet (zremove k z).
Proof.
  intros z k Hq k' Hl. rewrite look_zremove in Hl. destruct (key_eqb k' k); [exfalso; apply Hl; reflexivity|].
  apply Hq, Hl.
Qed.

Lemma quiet_zset : forall z k oe, quiet z -> look z k <> None -> quiet (zset k oe z).
Proof.
  intros z k [e|] Hq Hk; cbn [zset]; [|apply quiet_zremove, Hq].
  apply quiet_zput; [exact Hq|apply Hq, Hk].
Qed.

Lemma rkey_kind : forall r, key_kind (rkey r) = kind_of (r_type r) (r_covers r).
Proof. reflexivity. Qed.

Lemma soakey_kind : key_kind soakey = 0.
Proof. reflexivity. Qed.

(* the general form: the record may be of any kind as long as storing it drops nothing *)
Lemma t_add_single_g : forall z r, plain_g r -> addable z (rkey r) ->
  t_add false z (single r) = Ok (zput (rkey r) (add1 (look z (rkey r)) (r_ttl r) (r_data r)) z).
Proof.
  intros z r (Hc & Ht & Hn & Httl & Hsg) Ha. unfold t_add, single, skey. cbn [s_class s_type s_name s_ttl s_data s_covers].
  rewrite Hc. cbn [Z.eqb cIN Pos.eqb negb].
  apply Z.eqb_neq in Ht. rewrite Ht. cbn [andb].
  rewrite (clamp_ok _ Httl). unfold rkey, add1. rewrite (node_put_id _ _ _ Ha).
  destruct (look z (r_name r, r_type r, r_covers r)) as [[ettl erds]|]; [|reflexivity].
  cbn [fold_left]. rewrite (rds_add_plain _ _ _ Hsg). reflexivity.
Qed.

Lemma plain_plain_g : forall r, plain r -> plain_g r.
Proof. intros r (Hc & Ht & Hn & Httl & Hsg & _). repeat split; try assumption; apply Httl. Qed.

Lemma t_add_single : forall z r, plain r -> quiet z ->
  t_add false z (single r) = Ok (zput (rkey r) (add1 (look z (rkey r)) (r_ttl r) (r_data r)) z).
Proof.
  intros z r Hp Hq. apply t_add_single_g; [apply plain_plain_g, Hp|].
  apply quiet_addable; [exact Hq|]. rewrite rkey_kind. apply Hp.
Qed.

Lemma t_add_soa : forall tz v, ttl_ok (v_ttl v) -> quiet tz ->
  t_add true tz (single (soa_rr v)) = Ok (zput soakey (v_ttl v, [v_soa v]) tz).
Proof.
  intros tz v Httl Hq. unfold t_add, single, soa_rr, skey.
  cbn [s_class s_type s_name s_ttl s_data s_covers r_class r_type r_name r_ttl r_data r_covers].
  rewrite (clamp_ok _ Httl). change (origin, tSOA, 0) with soakey.
  rewrite node_put_id by (apply quiet_addable; [exact Hq|discriminate]). reflexivity.
Qed.

(* every RRset of a well-formed zone is of REGULAR or NEUTRAL kind *)
Lemma rest_wf_quiet : forall z, rest_wf z -> quiet z.
Proof.
  intros z [_ Hf] k Hl. destruct (look z k) as [e|] eqn:E; [|congruence].
  assert (Hin : In (k, e) z).
  { clear - E. induction z as [|[k0 e0] r IH]; cbn [look] in E; [discriminate|].
    destruct (key_eqb k k0) eqn:K; [apply key_eqb_eq in K; subst; inversion E; left; reflexivity|right; apply IH, E]. }
  rewrite Forall_forall in Hf. apply Hf in Hin. destruct k as [[n t] c], e as [ttl ds]. cbn in Hin. cbn. apply Hin.
Qed.

Lemma agree_quiet : forall a tz, rest_wf a -> (forall k, k <> soakey -> look tz k = look a k) -> quiet tz.
Proof.
  intros a tz Ha Hz k Hl. destruct (key_eqb k soakey) eqn:E.
  - apply key_eqb_eq in E. subst. discriminate.
  - apply key_eqb_neq in E. rewrite (Hz k E) in Hl. apply (rest_wf_quiet a Ha), Hl.
Qed.

Lemma zone_of_quiet : forall v, version_wf v -> quiet (zone_of v).
Proof.
  intros v [_ Hr]. apply (agree_quiet (v_rest v)); [exact Hr|].
  intros k Hk. unfold zone_of. cbn [look]. apply key_eqb_neq in Hk. rewrite Hk. reflexivity.
Qed.

Lemma zeq_zone_of_quiet : forall z v, version_wf v -> zeq z (zone_of v) -> quiet z.
Proof. intros z v Hv Hz. apply (quiet_zeq _ _ Hz), zone_of_quiet, Hv. Qed.

Lemma t_del_single : forall z r, r_class r = cIN -> consistent z ->
  t_delete_exact z (single r) =
  match del1 (look z (rkey r)) (r_data r) with
  | Some oe => Ok (zset (rkey r) oe z)
  | None => Lib eDeleteNotExact
  end.
Proof.
  intros z r Hc Hcons. unfold t_delete_exact, single, skey. cbn [s_class s_type s_name s_ttl s_data s_covers].
  rewrite Hc. cbn [Z.eqb cIN Pos.eqb negb]. unfold rkey, del1.
  destruct (look z (r_name r, r_type r, r_covers r)) as [[ettl erds]|] eqn:El; [|reflexivity].
  destruct (mem (r_data r) erds) eqn:Hm.
  - rewrite inter_one_present by (apply mem_In; exact Hm). cbn [negb].
    unfold norm, zset. destruct (diff erds [r_data r]); [reflexivity|].
    rewrite node_put_id by (apply consistent_addable; [exact Hcons|rewrite El; discriminate]). reflexivity.
  - rewrite inter_one_absent by (apply mem_false; exact Hm). reflexivity.
Qed.

(* ---- a run of records of one RRset ---- *)
Definition mk_rr (k : key) (ttl d : Z) : rr :=
  let '(n, t, c) := k in mkRR n cIN t c ttl d.

Lemma rkey_mk_rr : forall k ttl d, rkey (mk_rr k ttl d) = k.
Proof. intros [[n t] c] ttl d. reflexivity. Qed.

Definition add_all (e : option entry) (ttl : Z) (A : list Z) : option entry :=
  fold_left (fun e d => Some (add1 e ttl d)) A e.

Lemma add_all_some : forall A t0 S0 t,
  add_all (Some (t0, S0)) t A =
  Some ((match A with [] => t0 | _ => if t <? t0 then t else t0 end), union S0 A).
Proof.
  unfold add_all, union. induction A as [|d A IH]; intros t0 S0 t; cbn [fold_left]; [reflexivity|].
  cbn [add1]. rewrite IH. f_equal. f_equal.
  destruct A; [reflexivity|]. destruct (t <? t0) eqn:E; [apply min_same|rewrite E; reflexivity].
Qed.

Lemma add_all_none : forall A t,
  add_all None t A = match A with [] => None | _ => Some (t, union [] A) end.
Proof.
  intros [|d A] t; [reflexivity|]. unfold add_all. cbn [fold_left add1].
  change (fold_left (fun e d0 => Some (add1 e t d0)) A (Some (t, [d]))) with (add_all (Some (t, [d])) t A).
  rewrite add_all_some. f_equal. f_equal. destruct A; [reflexivity|apply min_same].
Qed.

(* deleting the records D (distinct, all present) one by one *)
Fixpoint del_all (e : option entry) (D : list Z) : option (option entry) :=
  match D with
  | [] => Some e
  | d :: D' => match del1 e d with Some e' => del_all e' D' | None => None end
  end.

Lemma del_all_closed : forall D t S, NoDup D -> incl D S ->
  del_all (Some (t, S)) D = Some (match D with [] => Some (t, S) | _ => norm t (diff S D) end).
Proof.
  induction D as [|d D IH]; intros t S Hnd Hin; cbn [del_all]; [reflexivity|].
  inversion Hnd; subst. cbn [del1].
  assert (Hd : In d S) by (apply Hin; left; reflexivity).
  apply mem_In in Hd. rewrite Hd.
  unfold norm at 1. destruct (diff S [d]) as [|x rest] eqn:Ed.
  - (* everything is gone: D must be empty *)
    destruct D as [|d' D']; [cbn; rewrite Ed; reflexivity|].
    exfalso. assert (In d' (diff S [d])).
    { apply diff_In. split; [apply Hin; right; left; reflexivity|].
      cbn. intros [E|[]]. subst. apply H1. left; reflexivity. }
    rewrite Ed in H. destruct H.
  - rewrite <- Ed. rewrite IH.
    + f_equal. destruct D as [|d' D'].
      * unfold norm. rewrite Ed. reflexivity.
      * rewrite diff_diff. reflexivity.
    + assumption.
    + intros y Hy. apply diff_In. split; [apply Hin; right; exact Hy|].
      cbn. intros [E|[]]. subst. auto.
Qed.
