(* Theorems about the generic RDATA codec (no origin): round trip, validation of decoded
   records, exact consumption. *)
From DV Require Import Base.Prelude Model.NameM Model.SchemaM Proofs.SchemaName Proofs.SchemaCodec.
Open Scope Z_scope.

(* ---------- names without an origin ---------- *)
Definition nok_none (rel : bool) (n : name) : Prop := validate_labels n = Ok tt.

Lemma hname_none : forall rel n b A R P,
  nok_none rel n -> NameM.to_wire n None false = Ok b ->
  get_name (A ++ b ++ R ++ P) None rel (length A + length b + length R) (length A)
  = Ok (n, (length A + length b)%nat).
Proof.
  intros rel n b A R P Hv He. unfold NameM.to_wire in He.
  destruct (is_absolute n) eqn:Habs; [|discriminate]. injection He as <-.
  unfold get_name. rewrite firstn_endp.
  rewrite from_wire_plain by assumption.
  destruct rel; reflexivity.
Qed.

Lemma valid_nok_s : forall f v, valid_s f v = true -> nok_s nok_none f v.
Proof.
  intros [w m|n|w lo hi|rel] [z|x|nm] H; cbn in *; try exact Logic.I; try discriminate.
  unfold nok_none. destruct (validate_labels nm) as [[]| |]; [reflexivity|discriminate|discriminate].
Qed.

Lemma valid_nok_row : forall fs vs, valid_row fs vs = true -> nok_row nok_none fs vs.
Proof.
  induction fs as [|f fr IH]; intros [|v vr] H; cbn in *; try exact Logic.I; try discriminate.
  apply andb_prop in H as [H1 H2]. split; [apply valid_nok_s; assumption|apply IH; assumption].
Qed.

Lemma valid_nok_f : forall f v, valid_f f v = true -> nok_f nok_none f v.
Proof.
  intros [s|lo|n|hi|m a row] [x|rows] H; cbn in *; try exact Logic.I; try discriminate.
  - apply valid_nok_s; assumption.
  - apply andb_prop in H as [H _]. apply andb_prop in H as [H _].
    apply Forall_forall. intros r Hr. apply valid_nok_row.
    rewrite forallb_forall in H. apply H; assumption.
Qed.

Lemma valid_nok_fields : forall fs vs, valid_fields fs vs = true -> nok_fields nok_none fs vs.
Proof.
  induction fs as [|f fr IH]; intros [|v vr] H; cbn in *; try exact Logic.I; try discriminate.
  apply andb_prop in H as [H1 H2]. split; [apply valid_nok_f; assumption|apply IH; assumption].
Qed.

(* ---------- C02, first half: from_wire(to_wire(x)) = x, anywhere in a message ---------- *)
Theorem schema_roundtrip_none : forall fs ck vs b A P,
  schema_wf fs = true -> encode_rdata None fs ck vs = Ok b ->
  decode_rdata None fs ck (A ++ b ++ P) (length A) (length b) = Ok vs.
Proof.
  intros fs ck vs b A P Hwf He. unfold encode_rdata in He.
  destruct (validate fs ck vs) eqn:Hv; [|discriminate].
  eapply roundtrip_gen with (NOK := nok_none); eauto.
  - apply hname_none.
  - apply valid_nok_fields. unfold validate in Hv. apply andb_prop in Hv as [Hv _]. exact Hv.
Qed.

(* byte-identical re-encoding of the decoded record *)
Corollary schema_reencode_after_roundtrip : forall fs ck vs b A P vs',
  schema_wf fs = true -> encode_rdata None fs ck vs = Ok b ->
  decode_rdata None fs ck (A ++ b ++ P) (length A) (length b) = Ok vs' ->
  encode_rdata None fs ck vs' = Ok b.
Proof.
  intros. rewrite (schema_roundtrip_none fs ck vs b A P) in H1 by assumption.
  injection H1 as <-. assumption.
Qed.

(* ---------- decoded records passed the constructor ---------- *)
Theorem decode_validates : forall o fs ck wire cur rdlen vs,
  decode_rdata o fs ck wire cur rdlen = Ok vs -> validate fs ck vs = true.
Proof.
  intros o fs ck wire cur rdlen vs H. unfold decode_rdata in H.
  destruct (Nat.ltb (length wire) cur); [discriminate|].
  destruct (Nat.ltb (length wire - cur) rdlen); [discriminate|].
  cbv zeta in H.
  destruct (dec_fields wire o fs (cur + rdlen) cur) as [[vs' c]| |]; cbn [bind fst snd] in H; try discriminate.
  destruct (validate fs ck vs') eqn:Hv; cbn [negb] in H; [|discriminate].
  destruct (Nat.eqb c (cur + rdlen)); [|discriminate]. injection H as <-. exact Hv.
Qed.

(* ---------- exact consumption ---------- *)
Theorem exact_consumption : forall o fs ck wire cur rdlen vs,
  decode_rdata o fs ck wire cur rdlen = Ok vs ->
  (cur + rdlen <= length wire)%nat /\
  dec_fields wire o fs (cur + rdlen) cur = Ok (vs, (cur + rdlen)%nat).
Proof.
  intros o fs ck wire cur rdlen vs H. unfold decode_rdata in H.
  destruct (Nat.ltb_spec (length wire) cur); [discriminate|].
  destruct (Nat.ltb_spec (length wire - cur) rdlen); [discriminate|].
  cbv zeta in H. split; [lia|].
  destruct (dec_fields wire o fs (cur + rdlen) cur) as [[vs' c]| |]; cbn [bind fst snd] in H; try discriminate.
  destruct (validate fs ck vs'); cbn [negb] in H; [|discriminate].
  destruct (Nat.eqb_spec c (cur + rdlen)); [|discriminate]. injection H as <-. subst c. reflexivity.
Qed.

(* the reader stopping anywhere but at the declared end is a format error *)
Theorem inexact_consumption_is_formerror : forall o fs ck wire cur rdlen vs c,
  (cur <= length wire)%nat -> (rdlen <= length wire - cur)%nat ->
  dec_fields wire o fs (cur + rdlen) cur = Ok (vs, c) -> c <> (cur + rdlen)%nat ->
  decode_rdata o fs ck wire cur rdlen = Lib eFormError.
Proof.
  intros o fs ck wire cur rdlen vs c H1 H2 Hd Hc. unfold decode_rdata.
  destruct (Nat.ltb_spec (length wire) cur); [lia|].
  destruct (Nat.ltb_spec (length wire - cur) rdlen); [lia|].
  cbv zeta. rewrite Hd. cbn [bind fst snd].
  destruct (validate fs ck vs); cbn [negb]; [|reflexivity].
  destruct (Nat.eqb_spec c (cur + rdlen)); [contradiction|reflexivity].
Qed.
