(* Second half of C02 (no origin): whatever decode_rdata accepts from arbitrary octets is a
   record whose own encoding exists and is a fixed point of decode-then-encode. *)
From DV Require Import Base.Prelude Model.NameM Model.SchemaM Proofs.SchemaName Proofs.SchemaCodec Proofs.SchemaThm.
Open Scope Z_scope.

(* ---------- names produced by from_wire are absolute and valid ---------- *)
Lemma fw_go_shape : forall w fuel p big acc ls p',
  fw_go w fuel p big acc = Ok (ls, p') -> exists acc', ls = rev acc' ++ [[]].
Proof.
  induction fuel as [|f IH]; intros p big acc ls p' H; cbn [fw_go] in H; [discriminate|].
  destruct (NameM.get_u8 w p) as [[count p1]| |]; try discriminate.
  destruct (count =? 0).
  - injection H as <- <-. exists acc. reflexivity.
  - destruct (count <? 64).
    + destruct (NameM.get_bytes w p1 (Z.to_nat count)) as [[l p2]| |]; try discriminate.
      eapply IH; eauto.
    + destruct (192 <=? count); [|discriminate].
      destruct (NameM.get_u8 w p1) as [[lo p2]| |]; try discriminate.
      destruct (Nat.leb big (Z.to_nat ((count - 192) * 256 + lo))); [discriminate|].
      destruct (Nat.ltb (length w) (Z.to_nat ((count - 192) * 256 + lo))); [discriminate|].
      eapply IH; eauto.
Qed.

Lemma is_absolute_snoc_nil : forall (a : name), is_absolute (a ++ [[]]) = true.
Proof.
  induction a as [|l r IH]; [reflexivity|].
  cbn [app]. rewrite is_absolute_cons; [exact IH|]. destruct r; discriminate.
Qed.

Lemma from_wire_abs_valid : forall w s n c,
  NameM.from_wire w s = Ok (n, c) -> is_absolute n = true /\ validate_labels n = Ok tt.
Proof.
  intros w s n c H. unfold NameM.from_wire in H.
  destruct (Nat.ltb (length w) s); [discriminate|].
  destruct (fw_go w (fw_fuel w s) {| cur := s; furthest := s |} s []) as [[ls p]| |] eqn:E; try discriminate.
  apply fw_go_shape in E as [acc' ->].
  unfold mk_name in H.
  destruct (validate_labels (rev acc' ++ [[]])) as [[]| |] eqn:Ev; cbn [bind] in H; try discriminate.
  injection H as <- <-. split; [apply is_absolute_snoc_nil|exact Ev].
Qed.

(* ---------- decoded names (no origin) are absolute ---------- *)
Definition abs_name (rel : bool) (n : name) : Prop := is_absolute n = true.

Lemma dec_s_abs : forall w f endp cur v c,
  dec_s w None f endp cur = Ok (v, c) -> nok_s abs_name f v.
Proof.
  intros w [wd m|n|wd lo hi|rel] endp cur v c H; cbn [dec_s] in H.
  - inv_bind H. injection H as <- <-. exact Logic.I.
  - inv_bind H. injection H as <- <-. exact Logic.I.
  - inv_bind H. inv_bind H. injection H as <- <-. exact Logic.I.
  - inv_bind H. injection H as <- <-. cbn. unfold abs_name.
    unfold get_name in E.
    destruct (NameM.from_wire (firstn endp w) cur) as [[n0 c0]| |] eqn:Ef; try discriminate.
    assert (Hx : x = (n0, (cur + c0)%nat)) by (destruct rel; cbn in E; congruence).
    subst x. cbn [fst]. apply from_wire_abs_valid in Ef. tauto.
Qed.

Lemma dec_row_abs : forall w fs endp cur vs c,
  dec_row w None fs endp cur = Ok (vs, c) -> nok_row abs_name fs vs.
Proof.
  induction fs as [|f fr IH]; intros endp cur vs c H; cbn [dec_row] in H.
  - injection H as <- <-. exact Logic.I.
  - inv_bind H. inv_bind H. injection H as <- <-. destruct x as [v c1], x0 as [vr c2]. cbn [fst snd] in *.
    split; [eapply dec_s_abs; eauto|eapply IH; eauto].
Qed.

Lemma dec_rows_abs : forall w fuel row endp cur rows c,
  dec_rows w None fuel row endp cur = Ok (rows, c) -> Forall (nok_row abs_name row) rows.
Proof.
  induction fuel as [|f IH]; intros row endp cur rows c H; cbn [dec_rows] in H.
  - destruct (Nat.leb endp cur); [|discriminate]. injection H as <- <-. constructor.
  - destruct (Nat.leb endp cur); [injection H as <- <-; constructor|].
    inv_bind H. inv_bind H. injection H as <- <-. destruct x as [r c1], x0 as [rr c2]. cbn [fst snd] in *.
    constructor; [eapply dec_row_abs; eauto|eapply IH; eauto].
Qed.

Lemma dec_f_abs : forall w f endp cur v c,
  dec_f w None f endp cur = Ok (v, c) -> nok_f abs_name f v.
Proof.
  intros w [s|lo|n|hi|m a row] endp cur v c H; cbn [dec_f] in H.
  - inv_bind H. injection H as <- <-. destruct x. eapply dec_s_abs; eauto.
  - inv_bind H. injection H as <- <-. exact Logic.I.
  - inv_bind H. injection H as <- <-. exact Logic.I.
  - destruct (Nat.ltb cur endp).
    + inv_bind H. injection H as <- <-. exact Logic.I.
    + injection H as <- <-. exact Logic.I.
  - inv_bind H. injection H as <- <-. destruct x. cbn [fst]. eapply dec_rows_abs; eauto.
Qed.

Lemma dec_fields_abs : forall w fs endp cur vs c,
  dec_fields w None fs endp cur = Ok (vs, c) -> nok_fields abs_name fs vs.
Proof.
  induction fs as [|f fr IH]; intros endp cur vs c H; cbn [dec_fields] in H.
  - injection H as <- <-. exact Logic.I.
  - inv_bind H. inv_bind H. injection H as <- <-. destruct x as [v c1], x0 as [vr c2]. cbn [fst snd] in *.
    split; [eapply dec_f_abs; eauto|eapply IH; eauto].
Qed.

(* ---------- valid values with absolute names always encode ---------- *)
Lemma enc_s_total : forall f v,
  sfld_wf f = true -> valid_s f v = true -> nok_s abs_name f v -> exists b, enc_s None f v = Ok b.
Proof.
  intros [w m|n|w lo hi|rel] [z|x|nm] Hwf Hv Hn; cbn in Hv; try discriminate; unfold sfld_wf in Hwf; cbn [enc_s].
  - apply andb_prop in Hv as [H1 H2]. apply andb_prop in Hwf as [Hwf H3]. 
    assert (E : (0 <=? z) && (z <? pow256 w) = true) by (apply andb_true_intro; split; lia).
    rewrite E. eauto.
  - eauto.
  - unfold len_in in Hv. apply andb_prop in Hv as [H1 H2]. apply andb_prop in Hwf as [Hwf H3].
    assert (E : (zlen x <? pow256 w) = true) by lia. rewrite E. eauto.
  - cbn in Hn. unfold abs_name in Hn. unfold NameM.to_wire. rewrite Hn. eauto.
Qed.

Lemma enc_row_total : forall fs vs,
  forallb sfld_wf fs = true -> valid_row fs vs = true -> nok_row abs_name fs vs ->
  exists b, enc_row None fs vs = Ok b.
Proof.
  induction fs as [|f fr IH]; intros [|v vr] Hwf Hv Hn; cbn in Hv; try discriminate.
  - cbn. eauto.
  - cbn [forallb] in Hwf. apply andb_prop in Hwf as [W1 W2]. apply andb_prop in Hv as [V1 V2].
    destruct Hn as [N1 N2].
    destruct (enc_s_total f v W1 V1 N1) as [b1 E1]. destruct (IH vr W2 V2 N2) as [b2 E2].
    cbn [enc_row]. rewrite E1, E2. cbn. eauto.
Qed.

Lemma enc_rows_total : forall row rows,
  forallb sfld_wf row = true -> forallb (valid_row row) rows = true -> Forall (nok_row abs_name row) rows ->
  exists b, enc_rows None row rows = Ok b.
Proof.
  induction rows as [|r rr IH]; intros Hwf Hv Hn.
  - cbn. eauto.
  - cbn [forallb] in Hv. apply andb_prop in Hv as [V1 V2]. inversion Hn; subst.
    destruct (enc_row_total row r Hwf V1 H1) as [b1 E1]. destruct (IH Hwf V2 H2) as [b2 E2].
    cbn [enc_rows]. rewrite E1, E2. cbn. eauto.
Qed.

Lemma enc_f_total : forall f v,
  last_wf f = true -> valid_f f v = true -> nok_f abs_name f v -> exists b, enc_f None f v = Ok b.
Proof.
  intros [s|lo|n|hi|m a row] [x|rows] Hwf Hv Hn; cbn in Hv; try discriminate; cbn [enc_f].
  - apply enc_s_total; assumption.
  - destruct x; try discriminate. eauto.
  - destruct x; try discriminate. eauto.
  - destruct x as [|x|]; try discriminate. destruct x as [|c x']; [eauto|].
    cbn [enc_s]. cbn [last_wf] in Hwf. apply andb_prop in Hwf as [W1 W2].
    assert (E : (zlen (c :: x') <? pow256 1) = true) by (cbn [pow256]; lia). rewrite E. eauto.
  - apply andb_prop in Hv as [Hv _]. apply andb_prop in Hv as [Hv _].
    cbn [last_wf] in Hwf. unfold row_wf in Hwf. apply andb_prop in Hwf as [Hwf _].
    apply enc_rows_total; assumption.
Qed.

Lemma enc_fields_total : forall fs vs,
  schema_wf fs = true -> valid_fields fs vs = true -> nok_fields abs_name fs vs ->
  exists b, enc_fields None fs vs = Ok b.
Proof.
  induction fs as [|f fr IH]; intros [|v vr] Hwf Hv Hn; cbn in Hv; try discriminate.
  - cbn. eauto.
  - apply andb_prop in Hv as [V1 V2]. destruct Hn as [N1 N2].
    assert (Hl : last_wf f = true /\ schema_wf fr = true).
    { destruct fr as [|f2 fr'].
      - split; [destruct f; exact Hwf|reflexivity].
      - destruct f as [s| | | |]; try (cbn in Hwf; discriminate).
        cbn [schema_wf] in Hwf. apply andb_prop in Hwf. exact Hwf. }
    destruct Hl as [L1 L2].
    destruct (enc_f_total f v L1 V1 N1) as [b1 E1]. destruct (IH vr L2 V2 N2) as [b2 E2].
    cbn [enc_fields]. rewrite E1, E2. cbn. eauto.
Qed.

(* ---------- the theorem ---------- *)
Theorem schema_fixed_point_none : forall fs ck wire cur rdlen vs,
  schema_wf fs = true ->
  decode_rdata None fs ck wire cur rdlen = Ok vs ->
  exists w', encode_rdata None fs ck vs = Ok w' /\
             decode_rdata None fs ck w' 0 (length w') = Ok vs /\
             (forall vs', decode_rdata None fs ck w' 0 (length w') = Ok vs' ->
                          encode_rdata None fs ck vs' = Ok w').
Proof.
  intros fs ck wire cur rdlen vs Hwf Hd.
  pose proof (decode_validates _ _ _ _ _ _ _ Hd) as Hv.
  apply exact_consumption in Hd as [_ Hdf].
  apply dec_fields_abs in Hdf.
  pose proof Hv as Hv'. unfold validate in Hv'. apply andb_prop in Hv' as [Hvf _].
  destruct (enc_fields_total fs vs Hwf Hvf Hdf) as [w' Ew].
  assert (He : encode_rdata None fs ck vs = Ok w') by (unfold encode_rdata; rewrite Hv; exact Ew).
  pose proof (schema_roundtrip_none fs ck vs w' [] [] Hwf He) as Hr.
  cbn [app length] in Hr. rewrite app_nil_r in Hr.
  exists w'. split; [exact He|]. split; [exact Hr|].
  intros vs' Hd'. rewrite Hr in Hd'. injection Hd' as <-. exact He.
Qed.
