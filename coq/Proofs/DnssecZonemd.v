(* Zone._compute_digest (ZONEMD, SIMPLE scheme): what is fed to the hash is the RFC 8976 3.3/3.4
   serialisation: every RR of the zone except the apex ZONEMD RRset and its RRSIG, sorted by
   canonical owner, type, canonical RDATA, each as owner|type|class|TTL|RDLENGTH|RDATA. *)
From Coq Require Import Permutation Sorted.
From DV Require Import Base.Prelude Model.NameM Model.DnssecM.
From DV Require Import Proofs.NameOrder Proofs.NameValid Proofs.DnssecRef Proofs.DnssecCanon Proofs.DnssecSort
     Proofs.DnssecRrsig Proofs.DnssecOrder.
Open Scope Z_scope.
Ltac Zify.zify_post_hook ::= Z.to_euclidean_division_equations.

(* ---------- map_res with total functions ---------- *)
Definition unres {A B} (f : A -> res B) (d : B) (x : A) : B := match f x with Ok y => y | _ => d end.

Lemma map_res_ok {A B} (f : A -> res B) (d : B) : forall l l',
  map_res f l = Ok l' -> l' = map (unres f d) l /\ forall x, In x l -> f x = Ok (unres f d x).
Proof.
  induction l as [|x r IH]; intros l' H; cbn in H.
  - inversion H. split; [reflexivity|intros ? []].
  - destruct (f x) as [y| |] eqn:E; cbn in H; try discriminate.
    destruct (map_res f r) as [ys| |] eqn:Er; cbn in H; try discriminate. inversion H; subst.
    destruct (IH ys eq_refl) as [-> Hall]. split.
    + cbn [map]. f_equal. unfold unres. now rewrite E.
    + intros z [<-|Hz]; [unfold unres; now rewrite E|now apply Hall].
Qed.

Lemma map_res_total {A B} (f : A -> res B) (g : A -> B) : forall l,
  (forall x, In x l -> f x = Ok (g x)) -> map_res f l = Ok (map g l).
Proof.
  induction l as [|x r IH]; intros H; [reflexivity|].
  cbn [map_res map]. rewrite (H x (or_introl eq_refl)). cbn [bind].
  rewrite IH by (intros z Hz; apply H; now right). reflexivity.
Qed.

(* ---------- generic list facts ---------- *)
Lemma sorted_flat_map {A B} (R : A -> A -> Prop) (leB : B -> B -> Prop) (f : A -> list B) : forall l,
  StronglySorted R l ->
  (forall x, In x l -> StronglySorted leB (f x)) ->
  (forall x y, In x l -> In y l -> R x y -> forall u v, In u (f x) -> In v (f y) -> leB u v) ->
  StronglySorted leB (flat_map f l).
Proof.
  induction l as [|x r IH]; intros Hs Hin Hc; [constructor|].
  apply StronglySorted_inv in Hs as [Hr Hx]. cbn [flat_map].
  assert (Sr : StronglySorted leB (flat_map f r)).
  { apply IH; auto; [intros; apply Hin; now right|]. intros a b Ha Hb. apply Hc; now right. }
  assert (Sx : StronglySorted leB (f x)) by (apply Hin; now left).
  assert (Cross : forall u v, In u (f x) -> In v (flat_map f r) -> leB u v).
  { intros u v Hu Hv. apply in_flat_map in Hv as (y & Hy & Hv). rewrite Forall_forall in Hx.
    apply (Hc x y); auto; [now left|now right]. }
  clear - Sr Sx Cross. induction (f x) as [|u us IHu]; [exact Sr|].
  apply StronglySorted_inv in Sx as [Sus Hu]. cbn [app]. constructor.
  - apply IHu; auto. intros; apply Cross; auto. now right.
  - apply Forall_app. split; [exact Hu|]. apply Forall_forall. intros v Hv. apply Cross; auto. now left.
Qed.

Lemma sorted_map {A B} (leA : A -> A -> Prop) (leB : B -> B -> Prop) (f : A -> B) l :
  (forall x y, leA x y -> leB (f x) (f y)) -> StronglySorted leA l -> StronglySorted leB (map f l).
Proof.
  intros H. induction 1 as [|x r Hr IH Hx]; cbn [map]; constructor; auto.
  apply Forall_map. eapply Forall_impl; [|exact Hx]. auto.
Qed.

Lemma sorted_filter {A} (le : A -> A -> Prop) (p : A -> bool) l :
  StronglySorted le l -> StronglySorted le (filter p l).
Proof.
  induction 1 as [|x r Hr IH Hx]; cbn [filter]; [constructor|].
  destruct (p x); [|exact IH]. constructor; [exact IH|].
  apply Forall_forall. intros y Hy. apply filter_In in Hy as [Hy _]. rewrite Forall_forall in Hx. auto.
Qed.

(* a sorted list without repeated keys is strictly sorted *)
Lemma sorted_strict {A} (le lt : A -> A -> Prop) l :
  (forall x y, In x l -> In y l -> le x y -> x <> y -> lt x y) ->
  NoDup l -> StronglySorted le l -> StronglySorted lt l.
Proof.
  intros H N S. induction S as [|x r Hr IH Hx]; [constructor|].
  inversion N as [|? ? Nx Nr]; subst. constructor.
  - apply IH; auto. intros a b Ha Hb. apply H; now right.
  - apply Forall_forall. intros y Hy. rewrite Forall_forall in Hx. apply H; [now left|now right|auto|].
    intros ->. contradiction.
Qed.

Lemma filter_flat_map {A B} (p : B -> bool) (f : A -> list B) l :
  filter p (flat_map f l) = flat_map (fun x => filter p (f x)) l.
Proof. induction l as [|x r IH]; [reflexivity|]. cbn [flat_map]. now rewrite filter_app, IH. Qed.

Lemma flat_map_concat_map {A B} (f : A -> list B) l : flat_map f l = concat (map f l).
Proof. induction l; cbn; congruence. Qed.

Lemma flat_map_perm_pointwise {A B} (f g : A -> list B) : forall l,
  (forall x, In x l -> Permutation (f x) (g x)) -> Permutation (flat_map f l) (flat_map g l).
Proof.
  induction l as [|x r IH]; intros H; [constructor|]. cbn [flat_map].
  apply Permutation_app; [apply H; now left|apply IH; intros; apply H; now right].
Qed.

Lemma flat_map_perm {A B} (f g : A -> list B) l l' :
  Permutation l l' -> (forall x, In x l -> Permutation (f x) (g x)) ->
  Permutation (flat_map f l) (flat_map g l').
Proof.
  intros P H. etransitivity; [apply flat_map_perm_pointwise; exact H|]. now apply Permutation_flat_map.
Qed.

Lemma concat_map_cond {A B} (p : A -> bool) (h : A -> list B) l :
  concat (map (fun x => if p x then [] else h x) l) = concat (map h (filter (fun x => negb (p x)) l)).
Proof.
  induction l as [|x r IH]; [reflexivity|]. cbn [map concat filter].
  destruct (p x); cbn [negb]; [exact IH|]. cbn [map concat]. now rewrite IH.
Qed.

Lemma concat_map_flat {A B C} (w : B -> list C) (f : A -> list B) l :
  concat (map w (flat_map f l)) = concat (map (fun x => concat (map w (f x))) l).
Proof.
  induction l as [|x r IH]; [reflexivity|]. cbn [flat_map map concat].
  now rewrite map_app, concat_app, IH.
Qed.

Lemma NoDup_map_fst_inj {A B} (l : list (A * B)) x y :
  NoDup (map fst l) -> In x l -> In y l -> fst x = fst y -> x = y.
Proof.
  induction l as [|z r IH]; intros N Hx Hy E; [destruct Hx|].
  cbn [map] in N. inversion N as [|? ? Nz Nr]; subst.
  destruct Hx as [<-|Hx]; destruct Hy as [<-|Hy]; auto.
  - exfalso. apply Nz. rewrite E. now apply in_map.
  - exfalso. apply Nz. rewrite <- E. now apply in_map.
Qed.

Lemma NoDup_map_inj {A B} (k : A -> B) (l : list A) x y :
  NoDup (map k l) -> In x l -> In y l -> k x = k y -> x = y.
Proof.
  induction l as [|z r IH]; intros N Hx Hy E; [destruct Hx|].
  cbn [map] in N. inversion N as [|? ? Nz Nr]; subst.
  destruct Hx as [<-|Hx]; destruct Hy as [<-|Hy]; auto.
  - exfalso. apply Nz. rewrite E. now apply in_map.
  - exfalso. apply Nz. rewrite <- E. now apply in_map.
Qed.

(* two RDATAs that start with different 16-bit values compare like those values *)
Lemma cmp_u16_lt a b ra rb :
  0 <= a < 65536 -> 0 <= b < 65536 -> a < b -> cmp_bytes (u16 a ++ ra) (u16 b ++ rb) = Lt.
Proof.
  intros Ha Hb Hlt. unfold u16. cbn [app cmp_bytes].
  destruct (a / 256 ?= b / 256) eqn:E1.
  - apply Z.compare_eq in E1. destruct (a mod 256 ?= b mod 256) eqn:E2; [|reflexivity|].
    + apply Z.compare_eq in E2. lia.
    + apply Z.compare_gt_iff in E2. lia.
  - reflexivity.
  - apply Z.compare_gt_iff in E1. lia.
Qed.

Lemma filter_perm {A} (p : A -> bool) l l' : Permutation l l' -> Permutation (filter p l) (filter p l').
Proof.
  induction 1 as [|x l l' P IH|x y l|l l' l'' P1 IH1 P2 IH2]; cbn [filter].
  - constructor.
  - destruct (p x); auto.
  - destruct (p x), (p y); try reflexivity. apply perm_swap.
  - etransitivity; eauto.
Qed.

Section Z.
  Variables (tbl : list entry) (origin : name) (relativize : bool) (nodes : list (name * list zrds)).
  Definition zapex : name := if relativize then [] else origin.

  Definition cr (rds : zrds) (fs : list field) : bytes :=
    unres (fun fs => rfc4034_canonical_rdata (z_type rds) fs (Some origin)) [] fs.
  Definition mkrr (owner : name) (rds : zrds) (c : bytes) : zrr :=
    {| q_owner := owner; q_type := z_type rds; q_covers := z_covers rds; q_class := z_class rds;
       q_ttl := z_ttl rds; q_rdata := c |}.
  Definition excl (owner : name) (rds : zrds) : bool :=
    name_eqb owner zapex && ((z_type rds =? tZONEMD) || (z_covers rds =? tZONEMD)).
  Definition rds_key (r : zrds) : Z * Z := (z_type r, z_covers r).
  Definition rds_L (owner : name) (rds : zrds) : list zrr :=
    map (mkrr owner rds) (sort_bytes (map (cr rds) (z_rdatas rds))).
  Definition node_L (nd : name * list zrds) : list zrr :=
    flat_map (rds_L (fst nd)) (filter (fun rds => negb (excl (fst nd) rds)) (py_sorted rds_key_lt (snd nd))).
  Definition sorted_nodes := py_sorted (fun a b : name * list zrds => name_lt (fst a) (fst b)) nodes.
  Definition zone_L : list zrr := flat_map node_L sorted_nodes.

  Hypothesis Htbl : forallb flag_ok tbl = true.
  Hypothesis Hdist : ci_distinct (map fst nodes).
  Hypothesis Hkeys : forall nd, In nd nodes -> NoDup (map rds_key (snd nd)).
  Hypothesis Hcov0 : forall nd rds, In nd nodes -> In rds (snd nd) -> z_type rds <> tRRSIG -> z_covers rds = 0.
  Hypothesis Hsig : forall nd rds fs, In nd nodes -> In rds (snd nd) -> In fs (z_rdatas rds) ->
      z_type rds = tRRSIG ->
      0 <= z_covers rds < 65536 /\ exists rest, cr rds fs = u16 (z_covers rds) ++ rest.
  Hypothesis Harity : forall nd rds fs, In nd nodes -> In rds (snd nd) -> In fs (z_rdatas rds) ->
      arity_ok tbl (z_class rds) (z_type rds) fs = true.
  Hypothesis Hlen : forall nd rds fs, In nd nodes -> In rds (snd nd) -> In fs (z_rdatas rds) ->
      zlen (cr rds fs) < 65536.
  Hypothesis Howner : forall nd, In nd nodes -> exists a, rfc_expand (fst nd) (Some origin) = Ok a.
  Variable all : list zrr.
  Hypothesis Hcanon : rfc_zone_rrs origin nodes = Ok all.

  (* ---------- the reference, with total functions ---------- *)
  Definition rds_all (owner : name) (rds : zrds) : list zrr := map (mkrr owner rds) (map (cr rds) (z_rdatas rds)).
  Definition node_all (nd : name * list zrds) : list zrr := flat_map (rds_all (fst nd)) (snd nd).

  Lemma rds_rrs_ok owner rds l :
    rfc_rds_rrs origin owner rds = Ok l ->
    l = rds_all owner rds /\
    forall fs, In fs (z_rdatas rds) -> rfc4034_canonical_rdata (z_type rds) fs (Some origin) = Ok (cr rds fs).
  Proof.
    unfold rfc_rds_rrs. intros H.
    destruct (map_res _ (z_rdatas rds)) as [cs| |] eqn:E; cbn [bind] in H; try discriminate.
    inversion H; subst. destruct (map_res_ok _ [] _ _ E) as [-> Hall]. split; [reflexivity|exact Hall].
  Qed.

  Lemma node_rrs_ok : forall owner rdss l,
    (do l <- map_res (rfc_rds_rrs origin owner) rdss; Ok (concat l)) = Ok l ->
    l = flat_map (rds_all owner) rdss /\
    forall rds fs, In rds rdss -> In fs (z_rdatas rds) ->
      rfc4034_canonical_rdata (z_type rds) fs (Some origin) = Ok (cr rds fs).
  Proof.
    induction rdss as [|rds r IH]; intros l H; cbn [map_res bind] in H.
    - inversion H. split; [reflexivity|intros ? ? []].
    - destruct (rfc_rds_rrs origin owner rds) as [l1| |] eqn:E1; cbn [bind] in H; try discriminate.
      destruct (map_res (rfc_rds_rrs origin owner) r) as [ls| |] eqn:E2; cbn [bind] in H; try discriminate.
      inversion H; subst. destruct (rds_rrs_ok _ _ _ E1) as [-> H1].
      destruct (IH (concat ls)) as [Hc H2]; [try rewrite E2; reflexivity|].
      cbn [concat flat_map]. rewrite Hc. split; [reflexivity|].
      intros rds' fs [<-|Hr] Hf; [now apply H1|now apply H2].
  Qed.

  Lemma zone_rrs_ok : forall ns l,
    rfc_zone_rrs origin ns = Ok l ->
    l = flat_map node_all ns /\
    forall nd rds fs, In nd ns -> In rds (snd nd) -> In fs (z_rdatas rds) ->
      rfc4034_canonical_rdata (z_type rds) fs (Some origin) = Ok (cr rds fs).
  Proof.
    unfold rfc_zone_rrs. induction ns as [|nd r IH]; intros l H; cbn [map_res bind] in H.
    - inversion H. split; [reflexivity|intros ? ? ? []].
    - destruct (rfc_node_rrs origin nd) as [l1| |] eqn:E1; cbn [bind] in H; try discriminate.
      destruct (map_res (rfc_node_rrs origin) r) as [ls| |] eqn:E2; cbn [bind] in H; try discriminate.
      inversion H; subst. unfold rfc_node_rrs in E1. destruct (node_rrs_ok _ _ _ E1) as [-> H1].
      destruct (IH (concat ls)) as [Hc H2]; [try rewrite E2; reflexivity|].
      cbn [concat flat_map]. rewrite Hc. split; [reflexivity|].
      intros nd' rds fs [<-|Hn] Hr Hf; [now apply H1|now apply (H2 nd')].
  Qed.

  Lemma all_eq : all = flat_map node_all nodes.
  Proof. exact (proj1 (zone_rrs_ok nodes all Hcanon)). Qed.
  Lemma canon_ok nd rds fs : In nd nodes -> In rds (snd nd) -> In fs (z_rdatas rds) ->
    rfc4034_canonical_rdata (z_type rds) fs (Some origin) = Ok (cr rds fs).
  Proof. exact (proj2 (zone_rrs_ok nodes all Hcanon) nd rds fs). Qed.
  (* ---------- sorted() of the nodes / rdatasets ---------- *)
  Definition nd_le (a b : name * list zrds) : Prop := name_le (fst a) (fst b).
  Definition nd_lt (a b : name * list zrds) : Prop := order (fst a) (fst b) < 0.
  Definition key_le (a b : zrds) : Prop := rds_key_lt b a = false.
  Definition key_lt (a b : zrds) : Prop := rds_key_lt a b = true.

  Lemma sorted_nodes_perm : Permutation nodes sorted_nodes.
  Proof.
    apply (py_sorted_perm _ nd_le); unfold nd_le; intros.
    - now apply name_lt_le. - now apply name_nlt_ge. - eapply name_le_trans; eauto.
  Qed.
  Lemma sorted_nodes_sorted : StronglySorted nd_le sorted_nodes.
  Proof.
    apply (py_sorted_sorted _ nd_le); unfold nd_le; intros.
    - now apply name_lt_le. - now apply name_nlt_ge. - eapply name_le_trans; eauto.
  Qed.
  Lemma in_sorted_nodes nd : In nd sorted_nodes -> In nd nodes.
  Proof. intros H. eapply Permutation_in; [symmetry; apply sorted_nodes_perm|exact H]. Qed.

  Lemma sorted_nodes_strict : StronglySorted nd_lt sorted_nodes.
  Proof.
    destruct Hdist as [N D].
    apply (sorted_strict nd_le nd_lt); [|eapply Permutation_NoDup; [apply sorted_nodes_perm|eapply NoDup_map_inv; exact N]|apply sorted_nodes_sorted].
    intros x y Hx Hy Hle Hne. apply in_sorted_nodes in Hx, Hy. unfold nd_le, nd_lt, name_le in *.
    destruct (Z.eq_dec (order (fst x) (fst y)) 0) as [E|E]; [|lia]. exfalso. apply Hne.
    apply eq_iff_ci in E. apply (NoDup_map_fst_inj nodes); auto. apply D; auto using in_map.
  Qed.

  Lemma rds_sorted_perm rdss : Permutation rdss (py_sorted rds_key_lt rdss).
  Proof.
    apply (py_sorted_perm _ key_le); unfold key_le, rds_key_lt; intros; lia.
  Qed.
  Lemma rds_sorted_sorted rdss : StronglySorted key_le (py_sorted rds_key_lt rdss).
  Proof.
    apply (py_sorted_sorted _ key_le); unfold key_le, rds_key_lt; intros; lia.
  Qed.
  Lemma rds_sorted_strict rdss : NoDup (map rds_key rdss) -> StronglySorted key_lt (py_sorted rds_key_lt rdss).
  Proof.
    intros N. apply (sorted_strict key_le key_lt); [|eapply Permutation_NoDup; [apply rds_sorted_perm|eapply NoDup_map_inv; exact N]|apply rds_sorted_sorted].
    intros x y Hx Hy Hle Hne.
    assert (Hx' : In x rdss) by (eapply Permutation_in; [symmetry; apply rds_sorted_perm|exact Hx]).
    assert (Hy' : In y rdss) by (eapply Permutation_in; [symmetry; apply rds_sorted_perm|exact Hy]).
    unfold key_le, key_lt, rds_key_lt in *.
    destruct (Z.eq_dec (z_type x) (z_type y)) as [Et|Et]; [|lia].
    destruct (Z.eq_dec (z_covers x) (z_covers y)) as [Ec|Ec]; [|lia].
    exfalso. apply Hne. apply (NoDup_map_inj rds_key rdss); auto. unfold rds_key. congruence.
  Qed.

  (* ---------- what the implementation feeds to the hash ---------- *)
  Lemma owner_wire nd : In nd nodes ->
    to_wire (fst nd) (Some origin) true = Ok (rfc_name_wire true (rfc_owner_abs origin (fst nd))).
  Proof.
    intros Hn. destruct (Howner nd Hn) as [a Ea]. rewrite to_wire_rfc, Ea. cbn [bind]. f_equal. f_equal.
    unfold rfc_expand, rfc_owner_abs in *. destruct (is_absolute (fst nd)); [congruence|].
    destruct (is_absolute origin); [|discriminate].
    destruct (wire_length (fst nd) + wire_length origin >? 255); [discriminate|congruence].
  Qed.

  Lemma zd_rdataset_out nd rds : In nd nodes -> In rds (snd nd) ->
    zd_rdataset tbl origin (rfc_name_wire true (rfc_owner_abs origin (fst nd))) rds
    = Ok (concat (map (rfc_rr_wire origin) (rds_L (fst nd) rds))).
  Proof.
    intros Hn Hr. unfold zd_rdataset.
    rewrite (map_res_total _ (cr rds)).
    2:{ intros fs Hf. rewrite (digestable_eq_rfc tbl Htbl) by (eapply Harity; eauto). eapply canon_ok; eauto. }
    cbn [bind]. rewrite map_res_frames.
    2:{ eapply Permutation_Forall; [apply sort_bytes_canonical|]. apply Forall_forall. intros c Hc.
        apply in_map_iff in Hc as (fs & <- & Hf). eapply Hlen; eauto. }
    cbn [bind]. f_equal. unfold rds_L. rewrite map_map. reflexivity.
  Qed.

  Lemma zd_node_out nd : In nd nodes ->
    zd_node tbl origin zapex nd = Ok (concat (map (rfc_rr_wire origin) (node_L nd))).
  Proof.
    intros Hn. pose proof (owner_wire nd Hn) as Hw. pose proof (zd_rdataset_out nd) as Hrd.
    unfold node_L. destruct nd as [n rdss]. cbn [fst snd] in *. unfold zd_node.
    rewrite Hw. cbn [bind].
    rewrite (map_res_total _ (fun rds => if excl n rds then []
                                         else concat (map (rfc_rr_wire origin) (rds_L n rds)))).
    2:{ intros rds Hr. assert (Hr' : In rds rdss) by (eapply Permutation_in; [symmetry; apply rds_sorted_perm|exact Hr]).
        unfold excl. destruct (name_eqb n zapex && ((z_type rds =? tZONEMD) || (z_covers rds =? tZONEMD))); [reflexivity|].
        now apply Hrd. }
    cbn [bind]. f_equal. rewrite concat_map_cond.
    now rewrite (concat_map_flat (C:=Z) (rfc_rr_wire origin)).
  Qed.

  Lemma compute_digest_out halg scheme : (halg = 1 \/ halg = 2) -> scheme = 1 ->
    compute_digest_input tbl origin relativize nodes halg scheme = Ok (concat (map (rfc_rr_wire origin) zone_L)).
  Proof.
    intros Hh ->. unfold compute_digest_input.
    replace (negb ((halg =? 1) || (halg =? 2))) with false by (destruct Hh as [-> | ->]; reflexivity).
    cbn [Z.eqb Pos.eqb negb]. fold zapex. fold sorted_nodes.
    rewrite (map_res_total _ (fun nd => concat (map (rfc_rr_wire origin) (node_L nd)))).
    2:{ intros nd Hn. apply zd_node_out. now apply in_sorted_nodes. }
    cbn [bind]. f_equal. unfold zone_L. now rewrite (concat_map_flat (C:=Z) (rfc_rr_wire origin)).
  Qed.

  (* ---------- the same records as the reference ---------- *)
  Lemma included_mkrr nd rds c : In nd nodes -> In rds (snd nd) ->
    rfc_zonemd_included zapex (mkrr (fst nd) rds c) = negb (excl (fst nd) rds).
  Proof.
    intros Hn Hr. unfold rfc_zonemd_included, excl, mkrr. cbn [q_owner q_type q_covers]. f_equal. f_equal. f_equal.
    destruct (z_type rds =? tRRSIG) eqn:E; [reflexivity|]. cbn [andb].
    rewrite (Hcov0 nd rds Hn Hr) by (apply Z.eqb_neq; exact E). reflexivity.
  Qed.

  Lemma node_perm nd : In nd nodes ->
    Permutation (node_L nd) (filter (rfc_zonemd_included zapex) (node_all nd)).
  Proof.
    intros Hn. unfold node_L, node_all. rewrite filter_flat_map.
    transitivity (flat_map (rds_L (fst nd)) (filter (fun rds => negb (excl (fst nd) rds)) (snd nd))).
    { apply Permutation_flat_map. apply Permutation_sym.
      apply filter_perm, rds_sorted_perm. }
    assert (G2 : forall l, (forall rds, In rds l -> In rds (snd nd)) ->
       Permutation (flat_map (rds_L (fst nd)) (filter (fun rds => negb (excl (fst nd) rds)) l))
                   (flat_map (fun x => filter (rfc_zonemd_included zapex) (rds_all (fst nd) x)) l)).
    { induction l as [|rds r IH]; intros Hin; [constructor|]. cbn [filter flat_map].
      assert (Hr : In rds (snd nd)) by (apply Hin; now left).
      assert (E : filter (rfc_zonemd_included zapex) (rds_all (fst nd) rds)
                  = if excl (fst nd) rds then [] else rds_all (fst nd) rds).
      { unfold rds_all. induction (map (cr rds) (z_rdatas rds)) as [|c cs IHc]; [now destruct (excl (fst nd) rds)|].
        cbn [map filter]. rewrite (included_mkrr nd rds c Hn Hr), IHc. destruct (excl (fst nd) rds); reflexivity. }
      rewrite E. destruct (excl (fst nd) rds); cbn [negb flat_map app].
      - apply IH. intros; apply Hin; now right.
      - apply Permutation_app; [|apply IH; intros; apply Hin; now right].
        unfold rds_L, rds_all. apply Permutation_map. apply Permutation_sym. apply sort_bytes_canonical. }
    apply G2. auto.
  Qed.

  Lemma zone_perm : Permutation zone_L (filter (rfc_zonemd_included zapex) all).
  Proof.
    rewrite all_eq, filter_flat_map. unfold zone_L. apply Permutation_sym.
    apply flat_map_perm; [apply sorted_nodes_perm|]. intros nd Hn. apply Permutation_sym. now apply node_perm.
  Qed.

  (* ---------- in the order of RFC 8976 3.3.1 ---------- *)
  Lemma in_rds_L owner rds u : In u (rds_L owner rds) ->
    q_owner u = owner /\ q_type u = z_type rds /\ exists fs, In fs (z_rdatas rds) /\ q_rdata u = cr rds fs.
  Proof.
    unfold rds_L. intros H. apply in_map_iff in H as (c & <- & Hc). cbn. repeat split.
    assert (In c (map (cr rds) (z_rdatas rds))) by (eapply Permutation_in; [symmetry; apply sort_bytes_canonical|exact Hc]).
    apply in_map_iff in H as (fs & <- & Hf). eauto.
  Qed.

  Lemma node_sorted nd : In nd nodes -> StronglySorted rfc_rr_le (node_L nd).
  Proof.
    intros Hn. unfold node_L.
    assert (Hsub : forall rds, In rds (filter (fun rds => negb (excl (fst nd) rds)) (py_sorted rds_key_lt (snd nd))) -> In rds (snd nd)).
    { intros rds H. apply filter_In in H as [H _]. eapply Permutation_in; [symmetry; apply rds_sorted_perm|exact H]. }
    apply (sorted_flat_map key_lt).
    - apply sorted_filter. apply rds_sorted_strict. now apply Hkeys.
    - intros rds _. unfold rds_L. apply (sorted_map bytes_le); [|apply sort_bytes_canonical].
      intros x y Hxy. right. cbn. split; [apply order_refl|]. right. split; [reflexivity|exact Hxy].
    - intros a b Ha Hb Hab u v Hu Hv. apply Hsub in Ha, Hb.
      apply in_rds_L in Hu as (Ou & Tu & fu & Hfu & Ru). apply in_rds_L in Hv as (Ov & Tv & fv & Hfv & Rv).
      right. rewrite Ou, Ov, Tu, Tv, Ru, Rv. split; [apply order_refl|].
      unfold key_lt, rds_key_lt in Hab.
      destruct (Z.eq_dec (z_type a) (z_type b)) as [Et|Et]; [|left; lia].
      right. split; [exact Et|].
      assert (Hc : z_covers a < z_covers b) by lia.
      destruct (Z.eq_dec (z_type a) tRRSIG) as [Es|Es].
      + destruct (Hsig nd a fu Hn Ha Hfu Es) as (Ra & ra & Ea).
        destruct (Hsig nd b fv Hn Hb Hfv ltac:(congruence)) as (Rb & rb' & Eb).
        unfold bytes_le. rewrite Ea, Eb, cmp_u16_lt by lia. discriminate.
      + exfalso. rewrite (Hcov0 nd a Hn Ha Es), (Hcov0 nd b Hn Hb ltac:(congruence)) in Hc. lia.
  Qed.

  Lemma in_node_L nd u : In u (node_L nd) -> q_owner u = fst nd.
  Proof.
    unfold node_L. intros H. apply in_flat_map in H as (rds & _ & Hu). now apply in_rds_L in Hu as (O & _).
  Qed.

  Lemma zone_sorted : StronglySorted (rfc_rr_le) zone_L.
  Proof.
    unfold zone_L. apply (sorted_flat_map nd_lt).
    - apply sorted_nodes_strict.
    - intros nd Hn. apply node_sorted. now apply in_sorted_nodes.
    - intros x y _ _ Hxy u v Hu Hv. left. rewrite (in_node_L x u Hu), (in_node_L y v Hv). exact Hxy.
  Qed.

  Theorem compute_digest_eq_rfc halg scheme :
    (halg = 1 \/ halg = 2) -> scheme = 1 ->
    exists input, compute_digest_input tbl origin relativize nodes halg scheme = Ok input
                  /\ is_zonemd_input origin zapex nodes input.
  Proof.
    intros Hh Hs. eexists. split; [apply compute_digest_out; assumption|].
    exists all, zone_L. repeat split; [exact Hcanon|apply zone_perm|apply zone_sorted].
  Qed.
End Z.
