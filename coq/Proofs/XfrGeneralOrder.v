(* C13 - incremental transfers between versions of any content (singleton types, CNAME-kind RRsets, names
   changing between a CNAME and other data) whose sections list their records in ANY order
   (RFC 1995 does not fix the order inside a deletion or an addition section). *)
From DV Require Import Base.Prelude Model.XfrM Proofs.XfrSets Proofs.XfrSpec Proofs.XfrZone Proofs.XfrDiff
  Proofs.XfrSafety Proofs.XfrBasic Proofs.XfrRun Proofs.XfrIxfr Proofs.XfrAxfr Proofs.XfrPerm Proofs.XfrOrder
  Proofs.XfrGeneral Proofs.XfrGeneralAxfr.
From Coq Require Import Sorting.Permutation.

Lemma fa_keys : forall k x e, fa k e x <> None -> e <> None \/ In k (map rkey x).
Proof.
  intros k. unfold fa. induction x as [|r x IH]; intros e H; cbn [fold_left] in H; [left; exact H|].
  destruct (key_eqb (rkey r) k) eqn:E.
  - right. left. apply key_eqb_eq, E.
  - destruct (IH _ H) as [H1|H1]; [left; exact H1|right; right; exact H1].
Qed.

Lemma keys_adds : forall x z k, look (adds z x) k <> None -> look z k <> None \/ In k (map rkey x).
Proof. intros x z k H. rewrite look_adds_fa in H. apply fa_keys, H. Qed.

(* what the exact deletions leave of an entry is part of the new entry *)
Lemma after_del_some : forall ea eb, wf_oe ea -> after_del ea eb <> None -> eb <> None.
Proof.
  intros ea eb Ha H Eb. subst eb. apply H. unfold after_del. destruct ea as [[t Sa]|]; [|reflexivity].
  destruct Ha as [Hne _]. cbn [has_in negb].
  assert (F : filter (fun _ : Z => true) Sa = Sa) by (clear; induction Sa as [|a r IH]; cbn; [|rewrite IH]; reflexivity).
  rewrite F. destruct Sa as [|d Sa']; [congruence|].
  unfold norm. assert (D : diff (d :: Sa') (d :: Sa') = []).
  { unfold diff. generalize (d :: Sa'). intros l.
    assert (G : forall l0, (forall x, In x l0 -> In x l) -> filter (fun x => negb (mem x l)) l0 = []).
    { induction l0 as [|x l0 IH]; intros Hi; cbn [filter]; [reflexivity|].
      assert (Hm : mem x l = true) by (apply mem_In, Hi; left; reflexivity). rewrite Hm. cbn [negb].
      apply IH. intros y Hy. apply Hi. right; exact Hy. }
    apply G. auto. }
  rewrite D. reflexivity.
Qed.

(* the additions of a difference a -> b in any order never evict and never replace *)
Lemma adds_ok_perm : forall a b zb A,
  rest_wf0 a -> rest_wf0 b -> Forall single_ok a -> Forall single_ok b ->
  (forall k k', (k = soakey \/ look b k <> None) -> (k' = soakey \/ look b k' <> None) -> conflicts k k' = false) ->
  (forall k, k <> soakey -> look zb k = after_del (look a k) (look b k)) ->
  Permutation A (zminus b a) ->
  adds_ok zb A.
Proof.
  intros a b zb A Ha Hb Sa Sb Hcons Hz1 PA pre r post E.
  assert (HinA : forall x, In x A -> In x (body b) /\ has_rr a x = false).
  { intros x Hx. apply (Permutation_in _ PA) in Hx. unfold zminus in Hx. apply filter_In in Hx.
    destruct Hx as [H1 H2]. apply negb_true_iff in H2. auto. }
  assert (Hr : In r A) by (rewrite E; apply in_or_app; right; left; reflexivity).
  destruct (HinA r Hr) as [Hbody Hnot].
  destruct (body_in_look0 b r Hb Hbody) as (S0 & Hlb & Hd0 & Hk & Hrg).
  split.
  - intros k' Hk'. apply Hcons; [right; rewrite Hlb; discriminate|].
    destruct (key_eqb k' soakey) eqn:Ek; [left; apply key_eqb_eq, Ek|]. apply key_eqb_neq in Ek. right.
    destruct (keys_adds _ _ _ Hk') as [H|H].
    + rewrite (Hz1 _ Ek) in H. apply (after_del_some _ _ (rest_wf0_wf_oe a k' Ha) H).
    + apply in_map_iff in H. destruct H as [r' [<- Hr']].
      assert (Hr'A : In r' A) by (rewrite E; apply in_or_app; left; exact Hr').
      destruct (HinA r' Hr'A) as [Hb' _]. destruct (body_in_look0 b r' Hb Hb') as (S1 & Hl1 & _). rewrite Hl1. discriminate.
  - intros Hs. rewrite look_adds_fa.
    assert (HS0 : S0 = [r_data r]).
    { destruct (look_single b (rkey r) _ _ Sb Hlb Hs) as [d ->]. destruct Hd0 as [->|[]]. reflexivity. }
    subst S0.
    assert (Hz : look zb (rkey r) = None).
    { rewrite (Hz1 _ Hk), Hlb. unfold after_del. destruct (look a (rkey r)) as [[t Sa0]|] eqn:Ea; [|reflexivity].
      destruct (look_single a (rkey r) _ _ Sa Ea Hs) as [d0 ->].
      unfold has_rr in Hnot. rewrite Ea in Hnot. cbn [filter has_in].
      assert (Hh : (r_ttl r =? t) && mem d0 [r_data r] = false).
      { rewrite Z.eqb_sym. destruct (t =? r_ttl r) eqn:Et; [|reflexivity]. cbn [andb] in *.
        cbn [mem] in *. rewrite orb_false_r in *. rewrite Z.eqb_sym. exact Hnot. }
      rewrite Hh. cbn [negb]. unfold diff. cbn [filter mem]. rewrite Z.eqb_refl. reflexivity. }
    rewrite Hz. apply fa_none. intros r' Hr'.
    destruct (key_eqb (rkey r') (rkey r)) eqn:Ek'; [|reflexivity]. exfalso.
    apply key_eqb_eq in Ek'.
    assert (Hr'A : In r' A) by (rewrite E; apply in_or_app; left; exact Hr').
    destruct (HinA r' Hr'A) as [Hbody' _].
    destruct (body_in_look0 b r' Hb Hbody') as (S1 & Hlb' & Hd1 & _ & Hrg').
    rewrite Ek', Hlb in Hlb'. inversion Hlb' as [[Et ES]]. subst S1. destruct Hd1 as [Hd1|[]].
    assert (r = r').
    { apply rr_ext; [apply Hrg|apply Hrg'|symmetry; exact Ek'|exact Et|exact Hd1]. }
    subst r'.
    assert (Hnd : NoDup A).
    { apply (Permutation_NoDup (Permutation_sym PA)). unfold zminus. apply NoDup_filter, NoDup_body, Hb. }
    rewrite E in Hnd. apply NoDup_remove_2 in Hnd. apply Hnd. apply in_or_app. left. exact Hr'.
Qed.

Lemma zsorted_zone_of_g : forall v, version_wf_g v -> zsorted (zone_of v).
Proof.
  intros v (_ & Hwf & _) k. rewrite look_zone_of. destruct (key_eqb k soakey); [apply ssorted_one|].
  destruct (look (v_rest v) k) as [[t ds]|] eqn:E; [|exact Logic.I].
  destruct (rest_wf0_entry _ _ _ _ Hwf E) as (_ & Hs & _). exact Hs.
Qed.

Lemma dels_sorted : forall D z z', zsorted z -> dels z D = Some z' -> zsorted z'.
Proof.
  intros D z z' Hs Hd k. pose proof (look_dels_fd _ _ _ Hd k) as F.
  revert F. generalize (look z' k). generalize (Hs k). generalize (look z k). clear.
  induction D as [|r D IH]; intros e0 He0 e1 F; cbn [fd] in F.
  - inversion F; subst; exact He0.
  - destruct (key_eqb (rkey r) k); [|eapply IH; eassumption].
    destruct (del1 e0 (r_data r)) as [e'|] eqn:E; cbn [bindo] in F; [|discriminate].
    eapply IH; [|exact F]. eapply wf_e_del1; eassumption.
Qed.

(* one difference sequence, the records of each section in any order *)
Lemma section_run_perm_g : forall u p tz vn a b e D A,
  version_wf_g a -> version_wf_g b -> v_soa a <> v_soa vn -> zsorted tz ->
  (forall k, k <> soakey -> look tz k = look (v_rest a) k) ->
  Permutation D (zminus (v_rest a) (v_rest b)) -> Permutation A (zminus (v_rest b) (v_rest a)) ->
  exists tz',
    loopn (ist u p tz (v_serial a) (single (soa_rr vn)) e false) (map single (soa_rr a :: D ++ soa_rr b :: A)) =
    (ist u p tz' (v_serial b) (single (soa_rr vn)) false false, None)
    /\ zeq tz' (zone_of b).
Proof.
  intros u p tz vn a b e D A (Hta & Ha & Sa & Ca) (Htb & Hb & Sb & Cb) Hne Hs Hz PD PA.
  destruct (diff_apply0 (v_rest a) (v_rest b) tz Ha Hb Hz) as (z1 & Hd & _ & Hz1 & Hadd).
  destruct (dels_perm _ D tz z1 (Permutation_sym PD) Hs Hd) as [z1' [Hd' Hzz]].
  assert (PlD : Forall rec_g D).
  { eapply Permutation_Forall; [apply Permutation_sym, PD|apply zminus_rec_g, Ha]. }
  assert (PlA : Forall rec_g A).
  { eapply Permutation_Forall; [apply Permutation_sym, PA|apply zminus_rec_g, Hb]. }
  assert (Hsub : sub_keys tz (zone_of a)).
  { intros k Hk. apply zone_of_keys. destruct (key_eqb k soakey) eqn:E.
    - left. apply key_eqb_eq, E.
    - right. apply key_eqb_neq in E. rewrite <- (Hz k E). exact Hk. }
  assert (Hct : consistent tz) by (apply (consistent_sub _ _ Ca Hsub)).
  assert (Hsub1 : sub_keys z1' (zone_of a)) by (eapply sub_keys_trans; [apply (dels_sub _ _ _ Hd')|exact Hsub]).
  assert (Ha1 : addable z1' soakey).
  { intros k' Hk'. apply Ca; [apply zone_of_keys; left; reflexivity|apply Hsub1, Hk']. }
  assert (Hok : adds_ok (zput soakey (v_ttl b, [v_soa b]) z1') A).
  { apply (adds_ok_perm (v_rest a) (v_rest b) _ A Ha Hb Sa Sb); [| |exact PA].
    - intros k k' H1 H2. apply Cb; apply zone_of_keys; assumption.
    - intros k Hk. rewrite look_zput. apply key_eqb_neq in Hk. rewrite Hk. rewrite Hzz. apply Hz1. apply key_eqb_neq, Hk. }
  exists (adds (zput soakey (v_ttl b, [v_soa b]) z1') A). split.
  - cbn [map loopn]. rewrite step_del_start by assumption.
    rewrite map_app, loopn_app.
    unfold ist at 1. rewrite (loopn_dels_g _ _ _ z1') by assumption.
    cbn [map loopn]. fold (ist u p z1' (v_serial a) (single (soa_rr vn)) false true).
    rewrite step_add_start_g by assumption.
    unfold ist at 1. rewrite loopn_adds_g by assumption. reflexivity.
  - assert (S1 : zsorted z1') by (apply (dels_sorted _ _ _ Hs Hd')).
    eapply zeq_trans; [apply adds_same_set; [|apply zsorted_zput_one, S1]|].
    { intros r. split; apply Permutation_in; [exact PA|apply Permutation_sym, PA]. }
    eapply zeq_trans; [apply adds_zeq, zput_zeq, Hzz|].
    intros k. rewrite Hadd, look_zone_of. reflexivity.
Qed.

(* the general form of a valid IXFR response between versions of any content: the records of every
   section in any order (no repetitions: a repeated singleton record would not be idempotent) *)
Inductive ixfr_seqs_p : version -> list version -> list rr -> Prop :=
| seqsp_nil : forall v, ixfr_seqs_p v [] []
| seqsp_cons : forall v w rest D A tail,
    Permutation D (zminus (v_rest v) (v_rest w)) ->
    Permutation A (zminus (v_rest w) (v_rest v)) ->
    ixfr_seqs_p w rest tail ->
    ixfr_seqs_p v (w :: rest) (soa_rr v :: D ++ soa_rr w :: A ++ tail).

Definition ixfr_response_p (v0 : version) (chain : list version) (recs : list rr) : Prop :=
  exists mid, ixfr_seqs_p v0 chain mid /\
              recs = soa_rr (last chain v0) :: mid ++ [soa_rr (last chain v0)].

Lemma chain_run_perm_g : forall u chain p tz vn v0 e mid,
  ixfr_seqs_p v0 chain mid ->
  chain <> [] -> version_wf_g v0 -> Forall version_wf_g chain -> zsorted tz ->
  (forall v, In v (v0 :: removelast chain) -> v_soa v <> v_soa vn) ->
  (forall k, k <> soakey -> look tz k = look (v_rest v0) k) ->
  exists tz',
    loopn (ist u p tz (v_serial v0) (single (soa_rr vn)) e false) (map single mid) =
    (ist u p tz' (v_serial (last chain v0)) (single (soa_rr vn)) false false, None)
    /\ zeq tz' (zone_of (last chain v0)).
Proof.
  intros u chain p tz vn v0 e mid HS. revert p tz e.
  induction HS as [v|v w rest D A tail PD PA HS IH]; intros p tz e Hne Hv0 Hch Hs Hd Hz; [congruence|].
  inversion Hch as [|? ? Hw Hch']; subst.
  destruct (section_run_perm_g u p tz vn v w e D A Hv0 Hw (Hd v (or_introl eq_refl)) Hs Hz PD PA) as [tz1 [Hr1 Hz1]].
  assert (E : soa_rr v :: D ++ soa_rr w :: A ++ tail = (soa_rr v :: D ++ soa_rr w :: A) ++ tail).
  { cbn [app]. f_equal. rewrite <- app_assoc. reflexivity. }
  rewrite E, map_app, loopn_app, Hr1.
  destruct rest as [|w2 rest].
  - inversion HS; subst. cbn [map loopn last]. exists tz1. auto.
  - assert (H1 : w2 :: rest <> []) by discriminate.
    assert (H2 : forall x, In x (w :: removelast (w2 :: rest)) -> v_soa x <> v_soa vn).
    { intros x Hin. apply Hd. right. exact Hin. }
    assert (H3 : forall k, k <> soakey -> look tz1 k = look (v_rest w) k).
    { intros k Hk. rewrite Hz1, look_zone_of. apply key_eqb_neq in Hk. rewrite Hk. reflexivity. }
    assert (S1 : zsorted tz1) by (eapply zsorted_zeq; [exact Hz1|apply zsorted_zone_of_g, Hw]).
    destruct (IH p tz1 false H1 Hw Hch' S1 H2 H3) as [tz2 [Hr2 Hz2]].
    change (last (w :: w2 :: rest) v) with (last (w2 :: rest) v).
    rewrite (last_default (w2 :: rest) v w H1).
    exists tz2. split; [exact Hr2|exact Hz2].
Qed.

Lemma ixfr_seqs_p_canonical : forall chain v0, ixfr_seqs_p v0 chain (diff_seqs v0 chain).
Proof.
  induction chain as [|w chain IH]; intros v0; cbn [diff_seqs]; [constructor|].
  unfold diff_seq. cbn [app]. rewrite <- app_assoc. cbn [app].
  apply seqsp_cons; [apply Permutation_refl|apply Permutation_refl|apply IH].
Qed.

Theorem ixfr_converges_general_any_order : forall v0 chain z0 recs ws,
  chain_ok_g v0 chain -> zeq z0 (zone_of v0) -> ixfr_response_p v0 chain recs -> chunking tIXFR recs ws ->
  exists z' n, inbound_xfr z0 tIXFR (Some (v_serial v0)) false ws = (Done z', n)
               /\ zeq z' (zone_of (last chain v0)).
Proof.
  intros v0 chain z0 recs ws Hok Hz [mid [HS ->]] Hch.
  apply chunking_first in Hch. destruct Hch as (w & ws' & a & -> & Hr & Hw & Hws & Hcat).
  pose proof Hok as (Hne0 & Hv0 & Hchn & Hser & Hlt).
  destruct (chain_run_perm_g false chain z0 z0 (last chain v0) v0 true mid HS Hne0 Hv0 Hchn) as [tz' [Hl Hz']].
  { eapply zsorted_zeq; [exact Hz|apply zsorted_zone_of_g, Hv0]. }
  { apply chain_ok_g_soa, Hok. }
  { intros k Hk. rewrite Hz, look_zone_of. apply key_eqb_neq in Hk. rewrite Hk. reflexivity. }
  pose proof (version_wf_g_last chain v0 Hv0 Hchn) as Hvn. pose proof Hvn as (Httl & _ & _ & Cn).
  assert (Han : addable tz' soakey).
  { intros k' Hk'. apply Cn; [apply zone_of_keys; left; reflexivity|]. rewrite <- Hz'. exact Hk'. }
  pose proof (step_final_g false z0 tz' (last chain v0) Httl Han) as Hf.
  unfold inbound_xfr, xfr_run. rewrite init_ixfr. cbn [Z.eqb tIXFR Pos.eqb]. rewrite drive_cons by solve_req.
  rewrite (first_message_ixfr z0 (v_serial v0) false w (soa_rr (last chain v0)) a Hw Hr) by (split; reflexivity).
  cbv zeta. change (r_data (soa_rr (last chain v0)) mod two32) with (v_serial (last chain v0)).
  assert (Hne : (v_serial (last chain v0) =? v_serial v0) = false).
  { apply Z.eqb_neq. intros E. apply (Hser v0 (or_introl eq_refl)). symmetry. exact E. }
  rewrite Hne, Hlt. cbn [andb]. rewrite after_tcp by reflexivity.
  assert (Hrun : running (ist false z0 z0 (v_serial v0) (single (soa_rr (last chain v0))) true false)).
  { repeat split; try reflexivity; discriminate. }
  destruct (cont_records ws' a (ist false z0 z0 (v_serial v0) (single (soa_rr (last chain v0))) true false)
              mid (soa_rr (last chain v0)) _ _ Hrun Hws Hcat Hl eq_refl Hf eq_refl) as [n Hn].
  eexists. exists n. split; [exact Hn|]. cbn [pub].
  intros k. rewrite look_zput, look_zone_of.
  destruct (key_eqb k soakey) eqn:E; [reflexivity|]. rewrite Hz', look_zone_of, E. reflexivity.
Qed.

(* ---- AXFR of a version of any content, the body in any order ---- *)
Lemma todo_body_perm : forall v B, version_wf_g v -> Permutation B (body (v_rest v)) ->
  todo_ok (fun k => look (zone_of v) k <> None) [] B.
Proof.
  intros v B (_ & Hb & Sb & _) PB.
  assert (HinB : forall x, In x B -> In x (body (v_rest v))) by (intros x; apply Permutation_in, PB).
  split; [|split].
  - intros k H. exfalso. apply H. reflexivity.
  - intros r Hr. destruct (body_in_look0 _ r Hb (HinB r Hr)) as (S0 & Hl & _ & Hk & _).
    apply zone_of_keys. right. rewrite Hl. discriminate.
  - intros pre r post E Es. split; [reflexivity|].
    intros Hin. apply in_map_iff in Hin. destruct Hin as [r' [Ek Hr']].
    assert (Hbr : In r (body (v_rest v))) by (apply HinB; rewrite E; apply in_or_app; right; left; reflexivity).
    assert (Hbr' : In r' (body (v_rest v))) by (apply HinB; rewrite E; apply in_or_app; left; exact Hr').
    destruct (body_in_look0 _ r Hb Hbr) as (S0 & Hl & Hd & _ & Hg).
    destruct (body_in_look0 _ r' Hb Hbr') as (S1 & Hl' & Hd' & _ & Hg').
    destruct (look_single _ (rkey r) _ _ Sb Hl Es) as [d ->]. destruct Hd as [Hd|[]].
    rewrite Ek, Hl in Hl'. inversion Hl' as [[Et ES]]. subst S1. destruct Hd' as [Hd'|[]].
    assert (r = r') by (apply rr_ext; [apply Hg|apply Hg'|symmetry; exact Ek|exact Et|congruence]).
    subst r'. assert (Hnd : NoDup B) by (apply (Permutation_NoDup (Permutation_sym PB)), NoDup_body, Hb).
    rewrite E in Hnd. apply (NoDup_split_notin _ _ _ Hnd Hr').
Qed.

Theorem axfr_converges_general_any_order : forall v z0 ser B ws,
  version_wf_g v -> Permutation B (body (v_rest v)) ->
  chunking tAXFR (soa_rr v :: B ++ [soa_rr v]) ws ->
  exists z' n, inbound_xfr z0 tAXFR ser false ws = (Done z', n) /\ zeq z' (zone_of v).
Proof.
  intros v z0 ser B ws Hv PB Hch.
  apply chunking_first in Hch. destruct Hch as (w & ws' & a & -> & Hr & Hw & Hws & Hcat).
  unfold inbound_xfr, xfr_run. rewrite init_axfr. cbn [Z.eqb tAXFR tIXFR Pos.eqb]. rewrite drive_cons by solve_req.
  rewrite (first_message_axfr z0 ser w (soa_rr v) a Hw Hr) by (split; reflexivity).
  pose proof Hv as (Httl & Hwf & _ & Cv).
  assert (Hpl : Forall rec_g B).
  { eapply Permutation_Forall; [apply Permutation_sym, PB|]. rewrite <- zminus_nil. apply zminus_rec_g, Hwf. }
  destruct (cont_full_g (fun k => look (zone_of v) k <> None) Cv (proj2 (zone_of_keys v soakey) (or_introl eq_refl))
              ws' false (map single) a tAXFR z0 [] (match ser with Some sv => sv | None => 0 end) v
              B parse_single_ok_g parse_group_ok_g Httl Hws Hpl zsorted_nil (todo_body_perm v B Hv PB) Hcat)
    as [z' [n [Hn Hz']]].
  exists z', n. split; [exact Hn|]. apply full_target_g; [exact Hv|].
  eapply zeq_trans; [exact Hz'|]. apply zput_zeq, adds_same_set; [|apply zsorted_nil].
  intros r. split; apply Permutation_in; [exact PB|apply Permutation_sym, PB].
Qed.
