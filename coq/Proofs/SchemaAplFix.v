(* APL: trimming trailing zero octets is the only normalisation; for every record the
   constructor accepts, the encoding exists, decodes to the canonical form of the record, and
   that form re-encodes to the same octets (fixed point of decode-then-encode). *)
From DV Require Import Base.Prelude Model.NameM Model.SchemaM Model.SchemaHand
  Proofs.SchemaName Proofs.SchemaCodec Proofs.SchemaThm Proofs.SchemaHandThm Proofs.SchemaOptFix.
Open Scope Z_scope.

Definition apl_canon_item (r : list sval) : list sval :=
  match r with
  | [VI fam; VI neg; VB addr; VI prefix] =>
      if (fam =? 1) || (fam =? 2) then r else [VI fam; VI neg; VB (strip0 addr); VI prefix]
  | _ => r
  end.

Lemma apl_canon_item_enc : forall r, apl_item_enc (apl_canon_item r) = apl_item_enc r.
Proof.
  intros r. destruct r as [|[fam| | ] [|[neg| | ] [|[ |addr| ] [|[prefix| | ] [|]]]]]; try reflexivity.
  cbn [apl_canon_item]. destruct ((fam =? 1) || (fam =? 2)); [reflexivity|].
  cbn [apl_item_enc]. rewrite strip0_idem. reflexivity.
Qed.

Lemma apl_canon_item_valid : forall r, apl_item_valid r = true -> apl_item_valid (apl_canon_item r) = true.
Proof.
  intros r H. destruct r as [|[fam| | ] [|[neg| | ] [|[ |addr| ] [|[prefix| | ] [|]]]]]; try discriminate.
  cbn [apl_canon_item]. destruct ((fam =? 1) || (fam =? 2)) eqn:E; [exact H|].
  cbn [apl_item_valid] in *. apply orb_false_elim in E as [E1 E2]. rewrite E1, E2 in *.
  apply andb_prop in H as [H H2]. rewrite H. cbn [andb].
  apply andb_prop in H2 as [Hl Hp]. rewrite Hp.
  pose proof (strip0_length addr). unfold zlen in *.
  replace (2 * Z.of_nat (length (strip0 addr)) <=? 127) with true by lia. reflexivity.
Qed.

Lemma apl_canon_item_canon : forall r, apl_item_canon (apl_canon_item r).
Proof.
  intros r. unfold apl_canon_item.
  destruct r as [|[fam| | ] r1]; try (cbn; exact Logic.I).
  destruct r1 as [|[neg| | ] r2]; try (cbn; exact Logic.I).
  destruct r2 as [|[ |addr| ] r3]; try (cbn; exact Logic.I).
  destruct r3 as [|[prefix| | ] r4]; try (cbn; exact Logic.I).
  destruct r4 as [|x r5]; [|cbn; exact Logic.I].
  destruct ((fam =? 1) || (fam =? 2)) eqn:E; cbn [apl_item_canon].
  - apply orb_prop in E as [E|E]; apply Z.eqb_eq in E; auto.
  - right; right. apply strip0_idem.
Qed.

Lemma apl_item_enc_total : forall r, apl_item_valid r = true -> exists b, apl_item_enc r = Ok b.
Proof.
  intros r H. destruct r as [|[fam| | ] [|[neg| | ] [|[ |addr| ] [|[prefix| | ] [|]]]]]; try discriminate.
  cbn [apl_item_valid] in H. cbn [apl_item_enc].
  apply andb_prop in H as [H Hfam]. apply andb_prop in H as [H Hp0]. apply andb_prop in H as [H Hneg].
  apply andb_prop in H as [Hf0 Hf1].
  pose proof (strip0_length addr) as Hs. pose proof (zlen_nonneg (strip0 addr)).
  assert (Hr : (zlen (strip0 addr) <? 128) && (0 <=? fam) && (fam <? 65536) && u8_ok prefix = true).
  { unfold u8_ok, zlen in *. destruct (fam =? 1); [|destruct (fam =? 2)];
      apply andb_prop in Hfam as [Hl Hp]; try apply Nat.eqb_eq in Hl; lia. }
  rewrite Hr. eauto.
Qed.

Lemma apl_items_canon_enc : forall items,
  apl_items_enc (map apl_canon_item items) = apl_items_enc items.
Proof.
  induction items as [|r rr IH]; [reflexivity|]. cbn [map apl_items_enc].
  rewrite apl_canon_item_enc, IH. reflexivity.
Qed.

Lemma apl_items_enc_total : forall items, forallb apl_item_valid items = true -> exists b, apl_items_enc items = Ok b.
Proof.
  induction items as [|r rr IH]; intros H; [cbn; eauto|].
  cbn [forallb] in H. apply andb_prop in H as [H1 H2].
  destruct (apl_item_enc_total r H1) as [b1 E1]. destruct (IH H2) as [b2 E2].
  cbn [apl_items_enc]. rewrite E1, E2. cbn. eauto.
Qed.

Theorem apl_fixed_point_thm : forall items,
  apl_valid [VL items] = true ->
  exists w, hand_encode_rdata HApl None [VL items] = Ok w /\
            hand_decode_rdata HApl None w 0 (length w) = Ok [VL (map apl_canon_item items)] /\
            hand_encode_rdata HApl None [VL (map apl_canon_item items)] = Ok w.
Proof.
  intros items Hv. pose proof Hv as Hv'. unfold apl_valid in Hv'.
  destruct (apl_items_enc_total items Hv') as [w Ew].
  assert (Hvc : apl_valid [VL (map apl_canon_item items)] = true).
  { unfold apl_valid. rewrite forallb_forall in *. intros r Hin. apply in_map_iff in Hin as (r0 & <- & Hin0).
    apply apl_canon_item_valid. apply Hv'. exact Hin0. }
  assert (Hec : hand_encode_rdata HApl None [VL (map apl_canon_item items)] = Ok w).
  { unfold hand_encode_rdata. cbn [hand_valid hand_enc]. rewrite Hvc. cbn [apl_enc]. rewrite apl_items_canon_enc. exact Ew. }
  exists w. split.
  - unfold hand_encode_rdata. cbn [hand_valid hand_enc]. rewrite Hv. exact Ew.
  - split; [|exact Hec].
    pose proof (apl_roundtrip_thm [VL (map apl_canon_item items)] w [] []) as Hr.
    cbn [app length] in Hr. rewrite app_nil_r in Hr. apply Hr; [|exact Hec].
    cbn [apl_canon]. apply Forall_forall. intros r Hin. apply in_map_iff in Hin as (r0 & <- & _).
    apply apl_canon_item_canon.
Qed.

(* in particular for whatever the reader accepted *)
Corollary apl_decoded_fixed_point : forall wire cur rdlen vs,
  hand_decode_rdata HApl None wire cur rdlen = Ok vs ->
  exists items w, vs = [VL items] /\ hand_encode_rdata HApl None vs = Ok w /\
            hand_decode_rdata HApl None w 0 (length w) = Ok [VL (map apl_canon_item items)] /\
            hand_encode_rdata HApl None [VL (map apl_canon_item items)] = Ok w.
Proof.
  intros wire cur rdlen vs H. unfold hand_decode_rdata in H.
  destruct (Nat.ltb (length wire) cur); [discriminate|].
  destruct (Nat.ltb (length wire - cur) rdlen); [discriminate|]. cbv zeta in H.
  cbn [hand_dec hand_valid] in H.
  destruct (apl_dec wire None (cur + rdlen) cur) as [[vs' c]| |] eqn:Ed; cbn [bind fst snd] in H; try discriminate.
  destruct (apl_valid vs') eqn:Hv; cbn [negb] in H; [|discriminate].
  destruct (Nat.eqb c (cur + rdlen)); [|discriminate]. injection H as <-.
  unfold apl_dec in Ed. inv_bind Ed. injection Ed as <- _. destruct x as [items c1]. cbn [fst] in *.
  destruct (apl_fixed_point_thm items Hv) as (w & H1 & H2 & H3).
  exists items, w. auto.
Qed.
