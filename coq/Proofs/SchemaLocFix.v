(* LOC: whatever the reader accepts is a legal, canonical location whose encoding exists and
   decodes to the same record (fixed point of decode-then-encode). *)
From DV Require Import Base.Prelude Model.NameM Model.SchemaM Model.SchemaHand
  Proofs.SchemaName Proofs.SchemaCodec Proofs.SchemaThm Proofs.SchemaReenc Proofs.SchemaHandThm.
Open Scope Z_scope.
Ltac Zify.zify_post_hook ::= Z.to_euclidean_division_equations.

Definition byte_values : list Z := map Z.of_nat (seq 0 256).

Lemma byte_values_in : forall b, 0 <= b < 256 -> In b byte_values.
Proof.
  intros b Hb. unfold byte_values. apply in_map_iff. exists (Z.to_nat b). split; [lia|].
  apply in_seq. lia.
Qed.

Lemma loc_decode_size_sweep :
  forallb (fun b => match loc_decode_size b with Ok s => existsb (Z.eqb s) loc_sizes | _ => true end) byte_values = true.
Proof. vm_compute. reflexivity. Qed.

Lemma loc_decode_size_in : forall b s, 0 <= b < 256 -> loc_decode_size b = Ok s -> In s loc_sizes.
Proof.
  intros b s Hb H. pose proof loc_decode_size_sweep as Hs. rewrite forallb_forall in Hs.
  specialize (Hs b (byte_values_in b Hb)). rewrite H in Hs.
  apply existsb_exists in Hs as (x & Hin & Hx). apply Z.eqb_eq in Hx. subst x. exact Hin.
Qed.

Lemma coord_of_wire_canon : forall lim v, 0 <= lim <= 180 ->
  two31 - lim * 3600000 <= v <= two31 + lim * 3600000 ->
  coord_canon lim (coord_of_wire v) /\ coord_to_wire (coord_of_wire v) = v.
Proof.
  intros lim v Hl Hv. unfold coord_of_wire, two31 in *. cbn [coord_canon coord_to_wire].
  set (ms := Z.abs (v - 2147483648)).
  assert (Hms : 0 <= ms <= lim * 3600000) by (unfold ms; lia).
  destruct (v >=? 2147483648) eqn:E.
  - split; [repeat split; try lia; auto|]. unfold two31. unfold ms in *. lia.
  - split; [repeat split; try lia; auto|]. unfold two31. unfold ms in *. lia.
Qed.

Lemma get_u_inv : forall wire e c w z c', all_bytes wire = true -> (c <= e)%nat -> (e <= length wire)%nat ->
  get_u wire e c w = Ok (z, c') -> c' = (c + w)%nat /\ (c' <= e)%nat /\ 0 <= z < pow256 w.
Proof.
  intros wire e c w z c' Hb Hc He H. unfold get_u in H. inv_bind H. injection H as <- <-. destruct x as [bs c1].
  cbn [fst snd]. apply get_bytes_slice in E as (-> & -> & L & Len); auto.
  pose proof (be_decode_bounds _ (all_bytes_slice wire c (c + w) Hb)) as B. rewrite Len in B. auto.
Qed.

Theorem loc_fixed_point_thm : forall wire cur rdlen vs,
  all_bytes wire = true ->
  hand_decode_rdata HLoc None wire cur rdlen = Ok vs ->
  exists w', hand_encode_rdata HLoc None vs = Ok w' /\
             hand_decode_rdata HLoc None w' 0 (length w') = Ok vs.
Proof.
  intros wire cur rdlen vs Hb H. unfold hand_decode_rdata in H.
  destruct (Nat.ltb_spec (length wire) cur) as [|Hc]; [discriminate|].
  destruct (Nat.ltb_spec (length wire - cur) rdlen) as [|Hl]; [discriminate|]. cbv zeta in H.
  cbn [hand_dec hand_valid] in H.
  destruct (loc_dec wire None (cur + rdlen) cur) as [[vs' c]| |] eqn:Ed; cbn [bind fst snd] in H; try discriminate.
  destruct (loc_valid vs') eqn:Hv; cbn [negb] in H; [|discriminate].
  destruct (Nat.eqb c (cur + rdlen)); [|discriminate]. injection H as <-.
  assert (He : (cur + rdlen <= length wire)%nat) by lia.
  unfold loc_dec in Ed.
  inv_bind Ed. destruct x as [ver c1]. apply get_u_inv in E as (-> & L1 & B1); auto; [|lia].
  inv_bind Ed. destruct x as [sz c2]. apply get_u_inv in E as (-> & L2 & B2); auto.
  inv_bind Ed. destruct x as [hp c3]. apply get_u_inv in E as (-> & L3 & B3); auto.
  inv_bind Ed. destruct x as [vp c4]. apply get_u_inv in E as (-> & L4 & B4); auto.
  inv_bind Ed. destruct x as [lat c5]. apply get_u_inv in E as (-> & L5 & B5); auto.
  inv_bind Ed. destruct x as [lon c6]. apply get_u_inv in E as (-> & L6 & B6); auto.
  inv_bind Ed. destruct x as [alt c7]. apply get_u_inv in E as (-> & L7 & B7); auto.
  cbn [fst snd] in Ed. change (pow256 1) with 256 in *. change (pow256 4) with 4294967296 in *.
  destruct (negb (ver =? 0)); [discriminate|].
  destruct ((lat <? two31 - 90 * 3600000) || (lat >? two31 + 90 * 3600000)) eqn:Elat; [discriminate|].
  destruct ((lon <? two31 - 180 * 3600000) || (lon >? two31 + 180 * 3600000)) eqn:Elon; [discriminate|].
  inv_bind Ed. rename x into s. inv_bind Ed. rename x into h. inv_bind Ed. rename x into v.
  injection Ed as <- _.
  apply loc_decode_size_in in E; [|lia]. apply loc_decode_size_in in E0; [|lia]. apply loc_decode_size_in in E1; [|lia].
  destruct (coord_of_wire_canon 90 lat ltac:(lia) ltac:(lia)) as [Clat Wlat].
  destruct (coord_of_wire_canon 180 lon ltac:(lia) ltac:(lia)) as [Clon Wlon].
  destruct (loc_size_rt s E) as (bs & Es & Rs & _).
  destruct (loc_size_rt h E0) as (bh & Eh & Rh & _).
  destruct (loc_size_rt v E1) as (bv & Ev & Rv & _).
  assert (Henc : exists w', hand_encode_rdata HLoc None
     [VL [coord_of_wire lat]; VL [coord_of_wire lon]; VS (VI (alt - 10000000)); VS (VI s); VS (VI h); VS (VI v)] = Ok w').
  { unfold hand_encode_rdata. cbn [hand_valid hand_enc]. rewrite Hv. cbn [loc_enc].
    rewrite Es, Eh, Ev. cbn [bind]. rewrite Wlat, Wlon. unfold two31 in *.
    replace ((0 <=? lat) && (lat <? 4294967296) && (0 <=? lon) && (lon <? 4294967296)
             && (0 <=? alt - 10000000 + 10000000) && (alt - 10000000 + 10000000 <? 4294967296)) with true by lia.
    eauto. }
  destruct Henc as [w' Ew]. exists w'. split; [exact Ew|].
  pose proof (loc_roundtrip_thm (coord_of_wire lat) (coord_of_wire lon) (alt - 10000000) s h v w' [] [] Clat Clon ltac:(lia) E E0 E1 Ew) as Hr.
  cbn [app length] in Hr. rewrite app_nil_r in Hr. exact Hr.
Qed.
