(* Safety of the Parser model: every primitive of dns/wirebase.py, started in a well-formed state
   on a string of octets, ends in a value or in FormError - never in a Python-level exception -
   and keeps the state well formed; name decoding terminates (the fuel of the model is never
   exhausted) and fails only with FormError / BadPointer / BadLabelType / NameTooLong. *)
From DV Require Import Base.Prelude Model.NameM Model.ParserM Proofs.NameValid.
Open Scope Z_scope.

Definition bytes_ok (l : list Z) : Prop := Forall (fun b => 0 <= b < 256) l.

Lemma zlen_firstn_skipn {A} (w : list A) a n :
  0 <= a -> 0 <= n -> a + n <= zlen w -> zlen (firstn (Z.to_nat n) (skipn (Z.to_nat a) w)) = n.
Proof.
  intros Ha Hn H. unfold zlen in *. rewrite firstn_length, skipn_length. lia.
Qed.

Lemma In_firstn {A} (x : A) n l : In x (firstn n l) -> In x l.
Proof. revert l; induction n; intros l H; cbn in *; [contradiction|]. destruct l; cbn in *; auto. destruct H; auto. Qed.

Lemma bytes_ok_firstn l n : bytes_ok l -> bytes_ok (firstn n l).
Proof. unfold bytes_ok. intros H. apply Forall_forall. intros x Hx. apply In_firstn in Hx. eapply Forall_forall in H; eauto. Qed.

Lemma In_skipn {A} (x : A) n l : In x (skipn n l) -> In x l.
Proof. revert l; induction n; intros l H; cbn in *; auto. destruct l; cbn in *; auto. Qed.

Lemma bytes_ok_skipn l n : bytes_ok l -> bytes_ok (skipn n l).
Proof. unfold bytes_ok. intros H. apply Forall_forall. intros x Hx. apply In_skipn in Hx. eapply Forall_forall in H; eauto. Qed.

Lemma be_decode_acc l : forall a, 0 <= a -> bytes_ok l -> 0 <= fold_left (fun a b => a * 256 + b) l a.
Proof.
  induction l as [|b l IH]; intros a Ha Hb; cbn; auto.
  inversion Hb; subst. apply IH; auto. nia.
Qed.

Lemma be_decode_nonneg l : bytes_ok l -> 0 <= be_decode l.
Proof. intros. apply be_decode_acc; auto; lia. Qed.

Lemma calcsize_nonneg ws : Forall (fun w => 0 <= w) ws -> 0 <= calcsize ws.
Proof. induction 1; cbn; [lia|]. unfold calcsize in *. cbn. lia. Qed.

Lemma unpack_ok : forall ws data,
  Forall (fun w => 0 <= w) ws -> bytes_ok data -> zlen data = calcsize ws ->
  exists vs, unpack ws data = Some vs /\ length vs = length ws /\ Forall (fun v => 0 <= v) vs.
Proof.
  induction ws as [|w ws IH]; intros data Hws Hb Hl.
  - cbn in Hl. destruct data; [|unfold zlen in Hl; cbn in Hl; lia]. exists []. cbn. auto.
  - inversion Hws as [|? ? Hw Hws']; subst. cbn [unpack].
    assert (Hc : calcsize (w :: ws) = w + calcsize ws) by reflexivity.
    pose proof (calcsize_nonneg ws Hws') as Hn.
    destruct (zlen data <? w) eqn:E; [lia|].
    destruct (IH (skipn (Z.to_nat w) data)) as (vs & Hu & Hlen & Hnn); auto.
    + apply bytes_ok_skipn; auto.
    + unfold zlen in *. rewrite skipn_length. lia.
    + rewrite Hu. eexists. split; [reflexivity|]. split; [cbn; lia|].
      constructor; auto. apply be_decode_nonneg. apply bytes_ok_firstn; auto.
Qed.

Section Safe.
  Variable wire : list Z.
  Hypothesis Hwire : bytes_ok wire.

  (* well-formed parser state above a low-water mark lo: offsets inside the message, current and
     furthest not below lo.  (lo = 0 for a fresh parser; lo = 12 once a message header is read.) *)
  Definition wfl (lo : Z) (s : pstate) : Prop :=
    lo <= pcur s <= zlen wire /\ 0 <= pend s <= zlen wire /\ lo <= pfur s <= zlen wire.
  Definition wf := wfl 0.

  Lemma wfl_weaken lo lo' s : lo' <= lo -> wfl lo s -> wfl lo' s.
  Proof. unfold wfl. intros. lia. Qed.

  (* the outcome of a computation started in s: Val with postcondition Q, or a library error
     satisfying P; never a Python-level exception.  In both outcomes the state stays well formed,
     keeps its end, and furthest has not decreased *)
  Definition good {A} (lo : Z) (P : Z -> Prop) (s : pstate) (r : out A * pstate) (Q : A -> pstate -> Prop) : Prop :=
    match r with
    | (Val a, s') => wfl lo s' /\ pend s' = pend s /\ pfur s <= pfur s' /\ Q a s'
    | (Exn (XLib e), s') => P e /\ wfl lo s' /\ pend s' = pend s /\ pfur s <= pfur s'
    | (Exn (XInt _), _) => False
    end.

  Lemma good_weaken {A} lo (P P' : Z -> Prop) s (r : out A * pstate) (Q Q' : A -> pstate -> Prop) :
    good lo P s r Q -> (forall e, P e -> P' e) ->
    (forall a s', wfl lo s' -> pend s' = pend s -> pfur s <= pfur s' -> Q a s' -> Q' a s') ->
    good lo P' s r Q'.
  Proof.
    unfold good. destruct r as [[a|[e|e]] s']; intros H HP HQ; auto.
    - destruct H as (? & ? & ? & ?). auto.
    - destruct H as (? & ? & ? & ?). auto.
  Qed.

  Lemma good_bind {A B} lo P s (m : M A) (k : A -> M B) Q1 (Q2 : B -> pstate -> Prop) :
    good lo P s (m s) Q1 ->
    (forall a s1, wfl lo s1 -> pend s1 = pend s -> pfur s <= pfur s1 -> Q1 a s1 -> good lo P s1 (k a s1) Q2) ->
    good lo P s (mbind m k s) Q2.
  Proof.
    unfold mbind, good. destruct (m s) as [[a|[e|e]] s1]; intros H K; auto.
    destruct H as (W & E & F & Q). specialize (K a s1 W E F Q).
    destruct (k a s1) as [[b|[e|e]] s2]; auto.
    - destruct K as (? & ? & ? & ?). split; [auto|split; [congruence|split; [lia|auto]]].
    - destruct K as (? & ? & ? & ?). split; [auto|split; [auto|split; [congruence|lia]]].
  Qed.

  Lemma good_ret {A} lo P s (a : A) (Q : A -> pstate -> Prop) : wfl lo s -> Q a s -> good lo P s (ret a s) Q.
  Proof. unfold good, ret. intros W HQ. split; [exact W|split; [reflexivity|split; [lia|exact HQ]]]. Qed.

  Lemma good_raise {A} lo (P : Z -> Prop) s e (Q : A -> pstate -> Prop) : wfl lo s -> P e -> good lo P s (raise (XLib e) s) Q.
  Proof. unfold good, raise. intros W HP. split; [exact HP|split; [exact W|split; [reflexivity|lia]]]. Qed.

  Definition isForm (e : Z) : Prop := e = eFormError.

  Lemma slice_len a n : 0 <= a -> 0 <= n -> a + n <= zlen wire -> zlen (slice wire a n) = n.
  Proof. intros. unfold slice. apply zlen_firstn_skipn; auto. Qed.

  Lemma slice_bytes a n : bytes_ok (slice wire a n).
  Proof. unfold slice. apply bytes_ok_firstn, bytes_ok_skipn, Hwire. Qed.

  (* Parser.get_bytes *)
  Lemma good_get_bytes lo size s :
    0 <= lo -> wfl lo s -> 0 <= size ->
    good lo isForm s (get_bytes wire size s)
         (fun l s' => zlen l = size /\ bytes_ok l /\ pcur s' = pcur s + size /\ pcur s' <= pend s'
                      /\ pfur s' = Z.max (pfur s) (pcur s')).
  Proof.
    intros Hlo (Hc & He & Hf) Hs. unfold get_bytes, remaining.
    destruct (size <? 0) eqn:E1; [lia|].
    destruct (size >? pend s - pcur s) eqn:E2.
    - cbn. unfold isForm, wfl. repeat split; auto; lia.
    - cbn. unfold wfl; cbn. repeat split; try lia.
      + apply slice_len; lia.
      + apply slice_bytes.
  Qed.

  (* Parser.get_struct *)
  Lemma good_get_struct lo ws s :
    0 <= lo -> wfl lo s -> Forall (fun w => 0 <= w) ws ->
    good lo isForm s (get_struct wire ws s)
         (fun vs s' => length vs = length ws /\ Forall (fun v => 0 <= v) vs
                       /\ pcur s' = pcur s + calcsize ws /\ pcur s' <= pend s'
                       /\ pfur s' = Z.max (pfur s) (pcur s')).
  Proof.
    intros Hlo W Hws. unfold get_struct.
    eapply good_bind; [apply good_get_bytes; auto; apply calcsize_nonneg; auto|].
    intros data s1 W1 E1 F1 (Hl & Hb & Hc & Hle & Hfu).
    destruct (unpack_ok ws data Hws Hb Hl) as (vs & Hu & Hlen & Hnn). rewrite Hu.
    apply good_ret; [assumption|]. repeat split; auto.
  Qed.

  Lemma good_get_uint lo w s :
    0 <= lo -> wfl lo s -> 0 <= w ->
    good lo isForm s (get_uint wire w s)
         (fun v s' => 0 <= v /\ pcur s' = pcur s + w /\ pcur s' <= pend s'
                      /\ pfur s' = Z.max (pfur s) (pcur s')).
  Proof.
    intros Hlo W Hw. unfold get_uint.
    eapply good_bind; [apply good_get_struct; auto|].
    intros vs s1 W1 E1 F1 (Hl & Hnn & Hc & Hle & Hfu).
    destruct vs as [|v [|? ?]]; cbn in Hl; try discriminate.
    apply good_ret; [assumption|]. inversion Hnn; subst. unfold calcsize in Hc; cbn in Hc.
    repeat split; auto; lia.
  Qed.

  Lemma good_get_uint48 lo s :
    0 <= lo -> wfl lo s ->
    good lo isForm s (get_uint48 wire s)
         (fun v s' => 0 <= v /\ pcur s' = pcur s + 6 /\ pcur s' <= pend s' /\ pfur s' = Z.max (pfur s) (pcur s')).
  Proof.
    intros Hlo W. unfold get_uint48.
    eapply good_bind; [apply good_get_bytes; auto; lia|].
    intros d s1 W1 E1 F1 (Hl & Hb & Hc & Hle & Hfu). apply good_ret; [assumption|].
    repeat split; auto. apply be_decode_nonneg; auto.
  Qed.

  (* Parser.get_counted_bytes *)
  Lemma good_get_counted lo k s :
    0 <= lo -> wfl lo s -> 0 <= k ->
    good lo isForm s (get_counted_bytes wire k s)
         (fun l s' => bytes_ok l /\ pcur s <= pcur s' /\ pcur s' <= pend s' /\ pfur s' = Z.max (pfur s) (pcur s')).
  Proof.
    intros Hlo W Hk. unfold get_counted_bytes.
    eapply good_bind; [apply good_get_bytes; auto|].
    intros lb s1 W1 E1 F1 (Hl & Hb & Hc & Hle & Hfu).
    eapply good_weaken; [apply good_get_bytes; auto; apply be_decode_nonneg; auto| auto |].
    intros l s2 W2 E2 F2 (Hl2 & Hb2 & Hc2 & Hle2 & Hfu2).
    pose proof (be_decode_nonneg lb Hb). repeat split; auto; lia.
  Qed.

  (* Parser.get_remaining needs current <= end (remaining() >= 0) *)
  Lemma good_get_remaining lo s :
    0 <= lo -> wfl lo s -> pcur s <= pend s ->
    good lo isForm s (get_remaining wire s)
         (fun l s' => bytes_ok l /\ zlen l = pend s - pcur s /\ pcur s' = pend s' /\ pfur s' = Z.max (pfur s) (pcur s')
                      /\ pcur s <= pcur s').
  Proof.
    intros Hlo W Hle. unfold get_remaining.
    eapply good_weaken; [apply good_get_bytes; auto; unfold remaining; lia| auto |].
    intros l s' W' E' F' (Hl & Hb & Hc & Hle' & Hfu). unfold remaining in *. repeat split; auto; lia.
  Qed.

  (* Parser.seek: stays above the low-water mark only if the target is *)
  Lemma good_seek lo w s :
    wfl lo s -> (0 <= w -> lo <= w) ->
    good lo isForm s (seek w s) (fun _ s' => pcur s' = w /\ 0 <= w <= pend s' /\ pfur s' = pfur s).
  Proof.
    intros (Hc & He & Hf) Hw. unfold seek.
    destruct ((w <? 0) || (w >? pend s)) eqn:E.
    - cbn. unfold isForm, wfl. repeat split; auto; lia.
    - apply orb_false_iff in E as [E1 E2]. cbn. unfold wfl; cbn. repeat split; auto; lia.
  Qed.

  (* Parser.restrict_to *)
  Lemma good_restrict_to {A} lo (P : Z -> Prop) size (body : M A) s (Q : A -> pstate -> Prop) :
    0 <= lo -> wfl lo s -> 0 <= size -> P eFormError ->
    (forall s0, wfl lo s0 -> pend s0 = pcur s + size -> pcur s0 = pcur s -> pfur s0 = pfur s ->
                good lo P s0 (body s0) Q) ->
    good lo P s (restrict_to size body s)
         (fun a s' => exists s1, Q a s1 /\ s' = set_end s1 (pend s) /\ pcur s1 = pend s1 /\ pend s1 = pcur s + size
                                 /\ pcur s + size <= pend s).
  Proof.
    intros Hlo W Hs HP Hb. pose proof W as (Hc & He & Hf). unfold restrict_to, remaining.
    destruct (size <? 0) eqn:E1; [lia|].
    destruct (size >? pend s - pcur s) eqn:E2.
    - cbn. unfold wfl. repeat split; auto; lia.
    - assert (W0 : wfl lo (set_end s (pcur s + size))) by (unfold wfl, set_end; cbn; repeat split; lia).
      specialize (Hb _ W0 eq_refl eq_refl eq_refl).
      destruct (body (set_end s (pcur s + size))) as [[a|[e|e]] s1]; cbn in Hb |- *.
      + destruct Hb as ((Hc1 & He1 & Hf1) & E & F & Qa). cbn in E, F.
        destruct (pcur s1 =? pend s1) eqn:E3; cbn.
        * unfold wfl; cbn. repeat split; auto; try lia. exists s1. repeat split; auto; lia.
        * unfold wfl; cbn. repeat split; auto; lia.
      + destruct Hb as (Pe & (Hc1 & He1 & Hf1) & E & F). cbn in E, F. unfold wfl; cbn. repeat split; auto; lia.
      + contradiction.
  Qed.

  (* Parser.restore_furthest: the body may wander below the low-water mark (compression
     pointers); `finally: current = furthest` brings the parser back above it *)
  Lemma good_restore_furthest {A} lo (P : Z -> Prop) (body : M A) s (Q : A -> pstate -> Prop) :
    lo <= pfur s ->
    good 0 P s (body s) Q ->
    good lo P s (restore_furthest body s) (fun a s' => exists s1, Q a s1 /\ s' = set_cur s1 (pfur s1)).
  Proof.
    intros Hlo. unfold restore_furthest, good. destruct (body s) as [[a|[e|e]] s1]; auto.
    - intros ((Hc & He & Hf) & E & F & Qa). unfold wfl; cbn. repeat split; auto; try lia. exists s1; auto.
    - intros (Pe & (Hc & He & Hf) & E & F). unfold wfl; cbn. repeat split; auto; lia.
  Qed.

  (* ---------- name decoding ---------- *)
  Definition isNameWireErr (e : Z) : Prop := e = eFormError \/ e = eBadPointer \/ e = eBadLabelType.

  Definition short_label (l : label) : Prop := 0 < zlen l < 64.

  Lemma isForm_name e : isForm e -> isNameWireErr e.
  Proof. unfold isForm, isNameWireErr. auto. Qed.

  (* the loop: terminates within the fuel, produces short non-empty labels followed by the root *)
  Lemma nm_loop_good : forall fuel count biggest acc s,
    wf s -> 0 <= count -> 0 <= biggest -> pcur s <= pend s -> Forall short_label acc ->
    biggest * (pend s + 1) + (pend s - pcur s) < Z.of_nat fuel ->
    good 0 isNameWireErr s (nm_loop wire fuel count biggest acc s)
         (fun ls s' => exists body, ls = body ++ [[]] /\ Forall short_label body
                       /\ (pfur s <= pend s -> pfur s' <= pend s')).
  Proof.
    induction fuel as [|f IH]; intros count biggest acc s W Hcnt Hbig Hle Hacc Hm.
    - exfalso. destruct W as (? & ? & ?). cbn in Hm. nia.
    - cbn [nm_loop].
      destruct (count =? 0) eqn:E0.
      { apply good_ret; auto. exists (rev acc). split; [cbn; reflexivity|].
        split; [apply Forall_rev; auto|]. lia. }
      destruct (count <? 64) eqn:E1.
      { (* ordinary label *)
        eapply good_bind.
        { eapply good_weaken; [apply good_get_bytes; auto; lia| apply isForm_name | intros; eassumption]. }
        intros l s1 W1 P1 F1 (Hl & Hb & Hc & Hle1 & Hfu).
        eapply good_bind.
        { eapply good_weaken; [apply good_get_uint; auto; lia| apply isForm_name | intros; eassumption]. }
        intros c s2 W2 P2 F2 (Hc0 & Hc2 & Hle2 & Hfu2).
        eapply good_weaken; [apply IH; auto| auto | ].
        - constructor; auto. unfold short_label. lia.
        - rewrite P2, P1. lia.
        - intros ls s' _ E' _ (body & -> & Hb' & Hg'). exists body. repeat split; auto; lia. }
      destruct (count >=? 192) eqn:E2.
      2:{ apply good_raise; auto. unfold isNameWireErr; auto. }
      (* compression pointer *)
      eapply good_bind.
      { eapply good_weaken; [apply good_get_uint; auto; lia| apply isForm_name | intros; eassumption]. }
      intros lo s1 W1 P1 F1 (Hlo & Hc1 & Hle1 & Hfu1).
      assert (Hland : 0 <= Z.land count 63) by (apply Z.land_nonneg; left; lia).
      destruct (Z.land count 63 * 256 + lo >=? biggest) eqn:E3.
      { apply good_raise; auto. unfold isNameWireErr; auto. }
      eapply good_bind.
      { eapply good_weaken; [apply good_seek; auto| apply isForm_name | intros; eassumption]. }
      intros [] s2 W2 P2 F2 (Hc2 & Hr2 & Hfu2).
      eapply good_bind.
      { eapply good_weaken; [apply good_get_uint; auto; lia| apply isForm_name | intros; eassumption]. }
      intros c s3 W3 P3 F3 (Hc0 & Hc3 & Hle3 & Hfu3).
      eapply good_weaken; [apply IH; auto| auto | ]; try lia.
      + rewrite P3, P2, P1 in *. nia.
      + intros ls s' _ E' _ (body & -> & Hb' & Hg'). exists body. repeat split; auto; lia.
  Qed.

  Lemma nm_fuel_enough s :
    wf s -> pcur s + 1 <= pend s ->
    pcur s * (pend s + 1) + (pend s - (pcur s + 1)) < Z.of_nat (nm_fuel s).
  Proof.
    intros (Hc & He & Hf) Hle. unfold nm_fuel. rewrite !Nat2Z.inj_succ, Z2Nat.id by nia. nia.
  Qed.

  Definition isNameErr (e : Z) : Prop := isNameWireErr e \/ e = eNameTooLong.

  Lemma wire_labels_name body :
    Forall short_label body ->
    mk_name (body ++ [[]]) = Ok (body ++ [[]]) \/ mk_name (body ++ [[]]) = Lib eNameTooLong.
  Proof.
    intros Hb. unfold mk_name.
    destruct (validate_labels (body ++ [[]])) as [[]| e | e] eqn:E; auto.
    - right. apply validate_error in E.
      destruct E as [(-> & Hn) | [(-> & _) | (-> & _ & _ & Hn)]]; auto; exfalso; apply Hn.
      + apply Forall_app. split.
        * eapply Forall_impl; [|exact Hb]. unfold short_label. intros; lia.
        * constructor; auto. cbn. lia.
      + rewrite removelast_last. eapply Forall_impl; [|exact Hb].
        unfold short_label. intros l Hl ->. cbn in Hl. lia.
    - exfalso. eapply validate_never_internal; eauto.
  Qed.

  (* dns.name.from_wire_parser: always terminates; a valid name or one of four library errors;
     in every outcome the parser ends at furthest, which has moved forward past lo *)
  Lemma good_from_wire_parser lo s :
    0 <= lo -> wfl lo s ->
    good lo isNameErr s (from_wire_parser wire s)
         (fun n s' => Valid n /\ pcur s' = pfur s' /\ pcur s < pcur s' /\ (pfur s <= pend s -> pcur s' <= pend s')).
  Proof.
    intros Hlo W. unfold from_wire_parser.
    assert (W0 : wf s) by (eapply wfl_weaken; eauto).
    eapply good_bind.
    - apply good_restore_furthest; [destruct W as (? & ? & ?); lia|].
      eapply good_bind.
      + eapply good_weaken; [apply good_get_uint; auto; lia| intros e He; left; apply isForm_name; exact He | intros; eassumption].
      + intros c s1 W1 P1 F1 (Hc0 & Hc1 & Hle1 & Hfu1).
        eapply good_weaken; [apply (nm_loop_good (nm_fuel s) c (pcur s) [] s1); auto| intros e He; left; exact He | ].
        * destruct W0 as (? & ? & ?); lia.
        * pose proof (nm_fuel_enough s W0) as Hf. rewrite P1, Hc1. apply Hf. lia.
        * intros ls s' _ E' F' (body & -> & Hb & Hg).
          instantiate (1 := fun ls s' => exists body, ls = body ++ [[]] /\ Forall short_label body /\ pcur s + 1 <= pfur s'
                                                      /\ (pfur s <= pend s -> pfur s' <= pend s')).
          cbn. exists body. repeat split; auto; lia.
    - intros ls s1 W1 P1 F1 (s0 & (body & -> & Hb & Hf & Hg) & ->).
      destruct (wire_labels_name body Hb) as [E|E]; unfold label in *; rewrite E; cbn [lift_res].
      + apply good_ret; [assumption|]. split; [apply mk_name_ok in E; tauto|]. cbn in *. repeat split; auto; lia.
      + apply good_raise; [assumption|]. right. reflexivity.
  Qed.

  (* dns.wire.Parser.get_name(origin) *)
  Lemma good_get_name lo origin s :
    0 <= lo -> wfl lo s ->
    good lo isNameErr s (get_name wire origin s)
         (fun n s' => pcur s' = pfur s' /\ pcur s < pcur s' /\ (pfur s <= pend s -> pcur s' <= pend s')).
  Proof.
    intros Hlo W. unfold get_name.
    eapply good_bind; [apply good_from_wire_parser; auto|].
    intros n s1 W1 P1 F1 (V & Hc & Hlt & Hg).
    destruct origin as [[|x o]|]; try (apply good_ret; auto).
    unfold relativize.
    destruct (is_subdomain n (x :: o)).
    - assert (V' : Valid (drop_last (length (x :: o)) n)).
      { unfold drop_last. apply (Valid_prefix _ (skipn (length n - length (x :: o)) n)).
        rewrite firstn_skipn. exact V. }
      rewrite (mk_name_valid _ V'). cbn [lift_res]. apply good_ret; auto.
    - cbn [lift_res]. apply good_ret; auto.
  Qed.
End Safe.
