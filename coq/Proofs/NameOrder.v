(* C06: Name.fullcompare is the RFC 4034 6.1 canonical order; equality and hash coherence. *)
From DV Require Import Base.Prelude Model.NameM.
Open Scope Z_scope.

(* ------------------------------------------------------------------ *)
(* generic lexicographic comparison: "absence sorts first"             *)

Fixpoint lex {A} (cmp : A -> A -> comparison) (a b : list A) : comparison :=
  match a, b with
  | [], [] => Eq
  | [], _ :: _ => Lt
  | _ :: _, [] => Gt
  | x :: a', y :: b' =>
      match cmp x y with
      | Eq => lex cmp a' b'
      | c => c
      end
  end.

Section Lex.
  Context {A : Type} (cmp : A -> A -> comparison).
  Hypothesis cmp_eq : forall x y, cmp x y = Eq <-> x = y.
  Hypothesis cmp_anti : forall x y, cmp y x = CompOpp (cmp x y).
  Hypothesis cmp_trans : forall x y z, cmp x y = Lt -> cmp y z = Lt -> cmp x z = Lt.

  Lemma lex_eq : forall a b, lex cmp a b = Eq <-> a = b.
  Proof.
    induction a as [|x a IH]; destruct b as [|y b]; cbn; try (split; congruence).
    destruct (cmp x y) eqn:E.
    - apply cmp_eq in E. subst. rewrite IH. split; congruence.
    - split; [discriminate|]. intros H; inversion H; subst.
      assert (cmp y y = Eq) by (apply cmp_eq; reflexivity). congruence.
    - split; [discriminate|]. intros H; inversion H; subst.
      assert (cmp y y = Eq) by (apply cmp_eq; reflexivity). congruence.
  Qed.

  Lemma lex_anti : forall a b, lex cmp b a = CompOpp (lex cmp a b).
  Proof.
    induction a as [|x a IH]; destruct b as [|y b]; cbn; try reflexivity.
    rewrite (cmp_anti x y). destruct (cmp x y); cbn; auto.
  Qed.

  Lemma lex_trans : forall a b c, lex cmp a b = Lt -> lex cmp b c = Lt -> lex cmp a c = Lt.
  Proof.
    induction a as [|x a IH]; destruct b as [|y b]; destruct c as [|z c]; cbn; try congruence.
    destruct (cmp x y) eqn:E1; destruct (cmp y z) eqn:E2; try discriminate.
    - apply cmp_eq in E1, E2. subst.
      assert (cmp z z = Eq) as -> by (apply cmp_eq; reflexivity). apply IH.
    - apply cmp_eq in E1. subst. rewrite E2. auto.
    - apply cmp_eq in E2. subst. rewrite E1. auto.
    - rewrite (cmp_trans _ _ _ E1 E2). auto.
  Qed.
End Lex.

Lemma cmp_bytes_lex : forall a b, cmp_bytes a b = lex Z.compare a b.
Proof. induction a; destruct b; cbn; auto. rewrite IHa. reflexivity. Qed.

Lemma cmp_bytes_eq a b : cmp_bytes a b = Eq <-> a = b.
Proof. rewrite cmp_bytes_lex. apply lex_eq. apply Z.compare_eq_iff. Qed.

Lemma cmp_bytes_anti a b : cmp_bytes b a = CompOpp (cmp_bytes a b).
Proof. rewrite !cmp_bytes_lex. apply lex_anti. intros; apply Z.compare_antisym. Qed.

Lemma cmp_bytes_trans a b c : cmp_bytes a b = Lt -> cmp_bytes b c = Lt -> cmp_bytes a c = Lt.
Proof.
  rewrite !cmp_bytes_lex. apply lex_trans.
  - apply Z.compare_eq_iff.
  - intros x y z. rewrite !Z.compare_lt_iff. lia.
Qed.

Lemma cmp_bytes_refl a : cmp_bytes a a = Eq.
Proof. apply cmp_bytes_eq. reflexivity. Qed.

(* ------------------------------------------------------------------ *)
(* The RFC 4034 section 6.1 order, written independently of fullcompare:
   names are compared as sequences of labels read from the most significant
   (rightmost) label, a missing label sorts first, labels are compared as
   lower-cased octet strings (shorter prefix first).  dnspython's extension:
   a relative name sorts before an absolute one.                        *)

Definition ci_key (n : name) : list label := rev (map lower_l n).

Definition canon_cmp (a b : name) : comparison :=
  match is_absolute a, is_absolute b with
  | true, false => Gt
  | false, true => Lt
  | _, _ => lex cmp_bytes (ci_key a) (ci_key b)
  end.

Definition ci_equal (a b : name) : Prop := map lower_l a = map lower_l b.

Lemma lower_idem c : lower (lower c) = lower c.
Proof.
  unfold lower. destruct ((65 <=? c) && (c <=? 90)) eqn:E; [|rewrite E; reflexivity].
  destruct ((65 <=? c + 32) && (c + 32 <=? 90)) eqn:E2; [|reflexivity]. lia.
Qed.

Lemma is_absolute_app_last : forall (n : name) l, is_absolute (n ++ [l]) = match l with [] => true | _ => false end.
Proof.
  induction n as [|x n IH]; intros l; [reflexivity|].
  cbn [app]. specialize (IH l).
  destruct (n ++ [l]) eqn:E; [destruct n; discriminate|].
  cbn [is_absolute]. exact IH.
Qed.

Lemma is_absolute_lower n : is_absolute (map lower_l n) = is_absolute n.
Proof.
  destruct n as [|x n] using rev_ind; [reflexivity|].
  rewrite map_app. cbn [map]. rewrite !is_absolute_app_last. destruct x; reflexivity.
Qed.

Lemma ci_equal_absolute a b : ci_equal a b -> is_absolute a = is_absolute b.
Proof. intros H. rewrite <- (is_absolute_lower a), <- (is_absolute_lower b). f_equal. exact H. Qed.

Lemma ci_key_eq a b : ci_key a = ci_key b <-> ci_equal a b.
Proof.
  unfold ci_key, ci_equal. split; intros H.
  - apply (f_equal (@rev _)) in H. rewrite !rev_involutive in H. exact H.
  - f_equal. exact H.
Qed.

(* ------------------------------------------------------------------ *)
(* order_spec                                                          *)

Lemma fc_loop_order : forall ra rb ld nl,
  ld = zlen ra - zlen rb ->
  (snd (fst (fc_loop ra rb ld nl)) ?= 0) = lex cmp_bytes (map lower_l ra) (map lower_l rb).
Proof.
  induction ra as [|x ra IH]; intros rb ld nl Hl.
  - destruct rb as [|y rb]; cbn -[Z.compare].
    + subst. reflexivity.
    + subst. unfold zlen. cbn [length]. apply Z.compare_lt_iff. lia.
  - destruct rb as [|y rb]; cbn -[Z.compare].
    + subst. unfold zlen. cbn [length]. apply Z.compare_gt_iff. lia.
    + destruct (cmp_bytes (lower_l x) (lower_l y)); cbn -[Z.compare]; try reflexivity.
      apply IH. subst. unfold zlen. cbn [length]. lia.
Qed.

Theorem order_spec a b : (order a b ?= 0) = canon_cmp a b.
Proof.
  unfold order, fullcompare, canon_cmp, ci_key.
  destruct (is_absolute a), (is_absolute b); cbn -[Z.compare fc_loop]; try reflexivity;
    rewrite <- !map_rev; apply fc_loop_order; unfold zlen; rewrite !rev_length; reflexivity.
Qed.

(* ------------------------------------------------------------------ *)
(* canon_cmp is a total order on (relativity, ci_key)                   *)

Lemma canon_cmp_eq a b : canon_cmp a b = Eq <-> ci_equal a b.
Proof.
  unfold canon_cmp. split.
  - destruct (is_absolute a), (is_absolute b); try discriminate;
      intros H; apply ci_key_eq; revert H; apply lex_eq; apply cmp_bytes_eq.
  - intros H. rewrite (ci_equal_absolute _ _ H).
    assert (lex cmp_bytes (ci_key a) (ci_key b) = Eq) as ->
      by (apply lex_eq; [apply cmp_bytes_eq | apply ci_key_eq; exact H]).
    destruct (is_absolute b); reflexivity.
Qed.

Lemma canon_cmp_anti a b : canon_cmp b a = CompOpp (canon_cmp a b).
Proof.
  unfold canon_cmp. destruct (is_absolute a), (is_absolute b); try reflexivity;
    apply lex_anti; apply cmp_bytes_anti.
Qed.

Lemma canon_cmp_trans a b c : canon_cmp a b = Lt -> canon_cmp b c = Lt -> canon_cmp a c = Lt.
Proof.
  unfold canon_cmp.
  destruct (is_absolute a), (is_absolute b), (is_absolute c); try congruence;
    apply lex_trans; try apply cmp_bytes_eq; apply cmp_bytes_trans.
Qed.

Lemma canon_cmp_congr_l a a' b : ci_equal a a' -> canon_cmp a b = canon_cmp a' b.
Proof.
  intros H. unfold canon_cmp. rewrite (ci_equal_absolute _ _ H).
  apply ci_key_eq in H. rewrite H. reflexivity.
Qed.

Lemma canon_cmp_congr_r a b b' : ci_equal b b' -> canon_cmp a b = canon_cmp a b'.
Proof.
  intros H. unfold canon_cmp. rewrite (ci_equal_absolute _ _ H).
  apply ci_key_eq in H. rewrite H. reflexivity.
Qed.

(* ------------------------------------------------------------------ *)
(* consequences for `order`                                            *)

Lemma order_lt a b : order a b < 0 <-> canon_cmp a b = Lt.
Proof. rewrite <- order_spec. symmetry. apply Z.compare_lt_iff. Qed.

Lemma order_gt a b : order a b > 0 <-> canon_cmp a b = Gt.
Proof. rewrite <- order_spec. rewrite Z.compare_gt_iff. lia. Qed.

Lemma order_eq a b : order a b = 0 <-> canon_cmp a b = Eq.
Proof. rewrite <- order_spec. symmetry. apply Z.compare_eq_iff. Qed.

Theorem eq_iff_ci a b : order a b = 0 <-> ci_equal a b.
Proof. rewrite order_eq. apply canon_cmp_eq. Qed.

Theorem name_eqb_iff_ci a b : name_eqb a b = true <-> ci_equal a b.
Proof. unfold name_eqb. rewrite Z.eqb_eq. apply eq_iff_ci. Qed.

Theorem order_refl a : order a a = 0.
Proof. apply eq_iff_ci. reflexivity. Qed.

Theorem order_antisym a b : (order b a ?= 0) = CompOpp (order a b ?= 0).
Proof. rewrite !order_spec. apply canon_cmp_anti. Qed.

Corollary order_antisym_lt a b : order a b < 0 <-> order b a > 0.
Proof.
  rewrite order_lt, order_gt, (canon_cmp_anti a b).
  destruct (canon_cmp a b); cbn; split; congruence.
Qed.

Theorem order_total a b : order a b < 0 \/ ci_equal a b \/ order b a < 0.
Proof.
  rewrite !order_lt, <- canon_cmp_eq, (canon_cmp_anti a b).
  destruct (canon_cmp a b); cbn; auto.
Qed.

Theorem order_trans_lt a b c : order a b < 0 -> order b c < 0 -> order a c < 0.
Proof. rewrite !order_lt. apply canon_cmp_trans. Qed.

Theorem order_trans a b c : order a b <= 0 -> order b c <= 0 -> order a c <= 0.
Proof.
  intros H1 H2.
  assert (forall x y, order x y <= 0 <-> canon_cmp x y <> Gt) as E.
  { intros x y. rewrite <- order_spec. rewrite Z.compare_gt_iff. lia. }
  apply E in H1, H2. apply E.
  destruct (canon_cmp a b) eqn:E1; [| |congruence].
  - apply canon_cmp_eq in E1. rewrite (canon_cmp_congr_l _ _ _ E1). exact H2.
  - destruct (canon_cmp b c) eqn:E2; [| |congruence].
    + apply canon_cmp_eq in E2. rewrite <- (canon_cmp_congr_r _ _ _ E2). congruence.
    + rewrite (canon_cmp_trans _ _ _ E1 E2). discriminate.
Qed.

Theorem order_antisym_le a b : order a b <= 0 -> order b a <= 0 -> ci_equal a b.
Proof.
  intros H1 H2. apply eq_iff_ci.
  destruct (Z.eq_dec (order a b) 0) as [|Hn]; [assumption|].
  assert (order a b < 0) as H by lia. apply order_antisym_lt in H. lia.
Qed.

(* ------------------------------------------------------------------ *)
(* hash                                                                *)

Definition hash_step (h c : Z) : Z := h + (h * 8) + c.

Lemma name_hash_key n :
  name_hash n = fold_left (fun h l => fold_left hash_step l h) (map lower_l n) 0.
Proof.
  unfold name_hash. generalize 0. induction n as [|l n IH]; intros h; [reflexivity|].
  cbn [fold_left map]. rewrite IH. reflexivity.
Qed.

Theorem hash_congr a b : ci_equal a b -> name_hash a = name_hash b.
Proof. intros H. rewrite !name_hash_key. rewrite H. reflexivity. Qed.

Corollary eq_hash a b : order a b = 0 -> name_hash a = name_hash b.
Proof. intros H. apply hash_congr, eq_iff_ci, H. Qed.

(* ------------------------------------------------------------------ *)
(* the rich comparison operators                                        *)

Theorem richcmp_spec a b :
  (name_eqb a b = true <-> canon_cmp a b = Eq) /\
  name_ne a b = negb (name_eqb a b) /\
  (name_lt a b = true <-> canon_cmp a b = Lt) /\
  (name_le a b = true <-> canon_cmp a b <> Gt) /\
  (name_ge a b = true <-> canon_cmp a b <> Lt) /\
  (name_gt a b = true <-> canon_cmp a b = Gt).
Proof.
  unfold name_eqb, name_ne, name_lt, name_le, name_ge, name_gt. rewrite <- order_spec.
  rewrite Z.eqb_eq, Z.ltb_lt, Z.leb_le, Z.geb_le, Z.gtb_lt.
  rewrite Z.compare_eq_iff, Z.compare_lt_iff, Z.compare_gt_iff.
  repeat split; try lia; intros H; try lia.
Qed.
