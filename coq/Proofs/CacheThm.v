(* C17 - theorems about all sequential histories of the store-level LRUCache model and of the
   Cache model.  A history is a list of items (calls with the clock increments their reads see,
   and time passing between calls); ghost state computed along the run records the ideal map
   and the event history the statements refer to. *)
From Coq Require Import Sorting.Sorted.
From DV Require Import Base.Prelude Model.CacheM Proofs.CacheRing Proofs.CacheDict Proofs.CacheLru
  Proofs.CacheSpec.
From DV Require Import Model.CacheSpecM.

(* ------------------------------------------------------------------ runs with ghost state *)
Section Ghost.
  Context {St G : Type}.
  Variable step : call -> St -> clk -> res (ret * St * clk).
  Variable gupd : call -> St -> ret -> St -> G -> G.

  (* the ghost run is the plain run plus bookkeeping *)
  Lemma grun_wrun : forall its w g g' w', grun step gupd its w g = Ok (g', w') ->
    exists rs, wrun step its w = Ok (rs, w').
  Proof.
    induction its as [|it its IH]; intros w g g' w' H; cbn in *.
    - inversion H; subst. eauto.
    - destruct (wstep step it w) as [x| |]; cbn [bind] in *; try discriminate.
      destruct (IH _ _ _ _ H) as [rs E]. rewrite E. cbn. eauto.
  Qed.
End Ghost.

(* ------------------------------------------------------------------ LRUCache *)
Lemma has_R : forall c a zs x, R c a zs -> has c x = ahas a x.
Proof.
  intros c a zs x HR. unfold has, ahas. rewrite (R_dict _ _ _ HR), (afind_R _ _ _ x HR).
  destruct (zfind x zs); reflexivity.
Qed.

Lemma ideal_upd_ext : forall cl hb ha hb' ha' m x,
  (forall y, hb y = hb' y) -> (forall y, ha y = ha' y) ->
  ideal_upd cl hb ha m x = ideal_upd cl hb' ha' m x.
Proof.
  intros cl hb ha hb' ha' m x H1 H2. destruct cl as [key|key v|[key|]|mx|key| | | |]; cbn;
    try reflexivity; rewrite H1, H2; reflexivity.
Qed.

Definition LInv (w : lru * Z) (g : lghost) : Prop :=
  exists a zs, R (fst w) a zs /\ abound a /\ J a (snd w) (fst g) /\
               recency_ok (snd g) (akeys (a_list a)) /\
               (a_hits a, a_miss a) = stats_of (snd g) /\ khits_ok (snd g) (a_list a).

Lemma R_akeys_nodup : forall c a zs, R c a zs -> NoDup (akeys (a_list a)).
Proof.
  intros c a zs HR. rewrite (R_list _ _ _ HR). unfold akeys. rewrite map_map. apply (R_keys _ _ _ HR).
Qed.

(* one call from a state satisfying the invariant: it succeeds, returns what the specification
   returns, and re-establishes the invariant *)
Lemma linv_call : forall cl ds c t g a zs,
  R c a zs -> abound a -> J a t (fst g) -> recency_ok (snd g) (akeys (a_list a)) ->
  (a_hits a, a_miss a) = stats_of (snd g) -> khits_ok (snd g) (a_list a) -> nonneg ds ->
  exists c' zs',
    lru_step cl c (mkClk t ds) =
      Ok (fst (fst (alru_step cl a (mkClk t ds))), c', snd (alru_step cl a (mkClk t ds))) /\
    R c' (snd (fst (alru_step cl a (mkClk t ds)))) zs' /\
    abound (snd (fst (alru_step cl a (mkClk t ds)))) /\
    J (snd (fst (alru_step cl a (mkClk t ds)))) (now (snd (alru_step cl a (mkClk t ds))))
      (ideal_upd cl (has c) (has c') (fst g)) /\
    recency_ok ((cl, fst (fst (alru_step cl a (mkClk t ds)))) :: snd g)
               (akeys (a_list (snd (fst (alru_step cl a (mkClk t ds)))))) /\
    (a_hits (snd (fst (alru_step cl a (mkClk t ds)))), a_miss (snd (fst (alru_step cl a (mkClk t ds))))) =
      stats_of ((cl, fst (fst (alru_step cl a (mkClk t ds)))) :: snd g) /\
    khits_ok ((cl, fst (fst (alru_step cl a (mkClk t ds)))) :: snd g)
             (a_list (snd (fst (alru_step cl a (mkClk t ds))))) /\
    t <= now (snd (alru_step cl a (mkClk t ds))).
Proof.
  intros cl ds c t g a zs HR HB HJ HC HS HK Hn.
  destruct (sim_step cl c a zs (mkClk t ds) HR) as [c' [zs' [E HR']]].
  exists c', zs'. split; [exact E|]. split; [exact HR'|]. split; [apply abound_step; exact HB|].
  pose proof (R_akeys_nodup _ _ _ HR) as Hnd.
  split; [|split; [|split; [|split]]].
  - eapply J_ext; [apply (J_step cl a (mkClk t ds) (fst g) Hnd Hn HJ)|reflexivity| |lia].
    intros x. apply ideal_upd_ext; intros y; [apply (has_R _ _ _ y HR)|apply (has_R _ _ _ y HR')].
  - apply recency_step; assumption.
  - apply astats_step; assumption.
  - apply khits_step; assumption.
  - apply (alru_step_time cl a (mkClk t ds) Hn).
Qed.

Lemma linv_item : forall it c t g,
  LInv (c, t) g -> mono_item it ->
  exists x, wstep lru_step it (c, t) = Ok x /\ LInv (snd x) (gnext lru_gupd it (c, t) x g) /\
            t <= snd (snd x).
Proof.
  intros it c t g [a [zs [HR [HB [HJ [HC [HS HK]]]]]]] Hm. cbn [fst snd] in *.
  destruct it as [cl ds|d].
  - destruct (linv_call cl ds c t g a zs HR HB HJ HC HS HK Hm)
      as [c' [zs' [E [HR' [HB' [HJ' [HC' [HS' [HK' Ht]]]]]]]]].
    eexists. split; [cbn [wstep fst snd]; rewrite E; reflexivity|].
    split; [|exact Ht].
    unfold gnext, lru_gupd. cbn [fst snd]. exists (snd (fst (alru_step cl a (mkClk t ds)))), zs'. cbn [fst snd].
    split; [exact HR'|]. split; [exact HB'|]. split; [exact HJ'|]. split; [exact HC'|]. split; [exact HS'|exact HK'].
  - eexists. split; [reflexivity|]. cbn in Hm. split; [|cbn; lia].
    exists a, zs. cbn [fst snd gnext]. split; [exact HR|]. split; [exact HB|]. split; [|auto].
    eapply J_ext; [exact HJ|reflexivity|reflexivity|lia].
Qed.

(* every history runs to completion (no KeyError / AttributeError / fuel exhaustion) and keeps
   the invariant *)
Lemma linv_run : forall its c t g,
  LInv (c, t) g -> mono its ->
  exists g' w', lru_grun its (c, t) g = Ok (g', w') /\ LInv w' g' /\ t <= snd w'.
Proof.
  induction its as [|it its IH]; intros c t g HI Hm.
  - exists g, (c, t). cbn. repeat split; [exact HI|lia].
  - apply Forall_cons_iff in Hm. destruct Hm as [Hm1 Hm2].
    destruct (linv_item it c t g HI Hm1) as [x [E [HI' Ht]]].
    destruct x as [r [c' t']]. cbn [snd fst] in *.
    destruct (IH c' t' _ HI' Hm2) as [g' [w' [E' [HI'' Ht']]]].
    exists g', w'. unfold lru_grun in *. cbn [grun]. rewrite E. cbn [bind snd]. split; [exact E'|].
    split; [exact HI''|lia].
Qed.

Lemma linv_init : forall m t0, exists c0, lru_init m = Ok c0 /\ LInv (c0, t0) lghost0.
Proof.
  intros m t0. destruct (init_R m) as [c0 [E HR]]. exists c0. split; [exact E|].
  exists (alru_init m), []. cbn [fst snd lghost0]. split; [exact HR|]. split; [|split; [|]].
  - unfold abound, alru_init. cbn. destruct (m <? 1) eqn:E1; [lia|apply Z.ltb_ge in E1; lia].
  - constructor.
    + intros k e H. cbn in H. discriminate.
    + intros k v H. discriminate.
  - split; [split; cbn; constructor|]. split; [reflexivity|constructor].
Qed.

Lemma reach_inv : forall m t0 its g w, mono its -> lru_reach m t0 its g w -> LInv w g.
Proof.
  intros m t0 its g w Hm [c0 [E0 E]].
  destruct (linv_init m t0) as [c0' [E0' HI]]. rewrite E0 in E0'. inversion E0'; subst c0'.
  destruct (linv_run its c0 t0 lghost0 HI Hm) as [g' [w' [E' [HI' _]]]].
  rewrite E in E'. inversion E'; subst. exact HI'.
Qed.

(* ---------- no exception, ever *)
Lemma lru_total_l : forall m t0 its, mono its ->
  exists c0 rs w, lru_init m = Ok c0 /\ wrun lru_step its (c0, t0) = Ok (rs, w).
Proof.
  intros m t0 its Hm. destruct (linv_init m t0) as [c0 [E0 HI]].
  destruct (linv_run its c0 t0 lghost0 HI Hm) as [g' [w' [E' _]]].
  destruct (grun_wrun _ _ _ _ _ _ _ E') as [rs Ers]. eauto.
Qed.

(* ---------- LRU bound *)
Lemma lru_bound_l : forall m t0 its g w, mono its -> lru_reach m t0 its g w ->
  zlen (l_dict (fst w)) <= l_max (fst w) /\ 1 <= l_max (fst w).
Proof.
  intros m t0 its g w Hm Hr. destruct (reach_inv _ _ _ _ _ Hm Hr) as [a [zs [HR [[B1 B2] _]]]].
  unfold zlen in *. rewrite (R_len _ _ _ HR), (R_max _ _ _ HR).
  rewrite (R_list _ _ _ HR), map_length in B1. auto.
Qed.

(* ---------- freshness and latest-stored *)
Lemma lru_get_l : forall m t0 its g w key ds r w',
  mono its -> lru_reach m t0 its g w -> nonneg ds ->
  wstep lru_step (Call (Get key) ds) w = Ok (Some r, w') ->
  r = expected (fst g) key (snd w').
Proof.
  intros m t0 its g [c t] key ds r w' Hm Hr Hn E.
  destruct (reach_inv _ _ _ _ _ Hm Hr) as [a [zs [HR [HB [HJ [HC [HS HK]]]]]]]. cbn [fst snd] in *.
  destruct (linv_call (Get key) ds c t g a zs HR HB HJ HC HS HK Hn) as [c' [zs' [E' _]]].
  cbn [wstep fst snd] in E. rewrite E' in E. inversion E; subst.
  cbn [snd]. apply (J_get a key (mkClk t ds) (fst g)); assumption.
Qed.

(* ---------- strict LRU eviction *)
Lemma lru_evict_l : forall m t0 its g w cl ds r w' gk kept,
  mono its -> lru_reach m t0 its g w -> nonneg ds ->
  wstep lru_step (Call cl ds) w = Ok (Some r, w') ->
  (match cl with Put key _ => gk <> key /\ kept <> key | SetMax _ => True | _ => False end) ->
  has (fst w) gk = true -> has (fst w') gk = false -> has (fst w') kept = true ->
  younger (snd g) kept gk.
Proof.
  intros m t0 its g [c t] cl ds r [c1 t1] gk kept Hm Hr Hn E Hcl H1 H2 H3.
  destruct (reach_inv _ _ _ _ _ Hm Hr) as [a [zs [HR [HB [HJ [HC [HS HK]]]]]]]. cbn [fst snd] in *.
  destruct (linv_call cl ds c t g a zs HR HB HJ HC HS HK Hn) as [c' [zs' [E' [HR' _]]]].
  cbn [wstep fst snd] in E. rewrite E' in E. inversion E; subst.
  rewrite (has_R _ _ _ _ HR) in H1. rewrite (has_R _ _ _ _ HR') in H2. rewrite (has_R _ _ _ _ HR') in H3.
  eapply evict_order; eauto. eapply R_akeys_nodup; eauto.
Qed.

(* ---------- counters *)
Lemma lru_stats_l : forall m t0 its g w, mono its -> lru_reach m t0 its g w ->
  (l_hits (fst w), l_miss (fst w)) = stats_of (snd g).
Proof.
  intros m t0 its g w Hm Hr.
  destruct (reach_inv _ _ _ _ _ Hm Hr) as [a [zs [HR [_ [_ [_ [HS _]]]]]]].
  rewrite (R_hits _ _ _ HR), (R_miss _ _ _ HR). exact HS.
Qed.

Lemma lru_hitsfor_l : forall m t0 its g w key ds r w',
  mono its -> lru_reach m t0 its g w -> nonneg ds ->
  wstep lru_step (Call (HitsFor key) ds) w = Ok (Some r, w') ->
  r = expected_hits (fst g) (snd g) key (snd w').
Proof.
  intros m t0 its g [c t] key ds r w' Hm Hr Hn E.
  destruct (reach_inv _ _ _ _ _ Hm Hr) as [a [zs [HR [HB [HJ [HC [HS HK]]]]]]]. cbn [fst snd] in *.
  destruct (linv_call (HitsFor key) ds c t g a zs HR HB HJ HC HS HK Hn) as [c' [zs' [E' _]]].
  cbn [wstep fst snd] in E. rewrite E' in E. inversion E; subst.
  cbn [snd]. apply (J_hitsfor a key (mkClk t ds) (fst g) (snd g)); assumption.
Qed.

(* what the statistics calls return *)
Lemma lru_stat_calls : forall c k,
  lru_step Hits c k = Ok (RInt (l_hits c), c, k) /\
  lru_step Misses c k = Ok (RInt (l_miss c), c, k) /\
  lru_step Snapshot c k = Ok (RStats (l_hits c) (l_miss c), c, k).
Proof. intros. repeat split. Qed.
