(* The TSIG path of the message reader (Model/TsigM.v read/get_section/get_rr):
   a message is read successfully only if a TSIG record, when present, is the last record of
   the ADDITIONAL section with class ANY, and then exactly dns.tsig.validate decided; unsigned
   envelopes of a multi-message exchange are appended whole to the running context. *)
From DV Require Import Base.Prelude.
From DV Require Model.NameM.
From DV Require Import Model.TsigM Proofs.TsigSpec Proofs.TsigLemmas.
Open Scope Z_scope.

Definition rrec := (Z * Z * Z * nat)%type.
Definition rec_section (r : rrec) : Z := fst (fst (fst r)).
Definition rec_type (r : rrec) : Z := snd (fst (fst r)).
Definition rec_class (r : rrec) : Z := snd (fst r).
Definition rec_start (r : rrec) : nat := snd r.
Definition not_tsig (r : rrec) : Prop := rec_type r <> TSIG.

Tactic Notation "dbind" hyp(E) "as" ident(x) ident(q) :=
  match type of E with
  | context [bind ?r _] => destruct r as [x| |] eqn:q; cbn [bind] in E; try discriminate
  end.

Section WithH.
  Variable H : hashid -> bytes -> bytes -> bytes.

  (* what happened when validation was due for the TSIG record (owner, rd) starting at `start` *)
  Definition decided (w : bytes) (kr : keyring) (rmac : bytes) (now : Z) (multi : bool)
             (owner : name) (rd : tsig) (start : nat) (ctx ctx' : option hctx) : Prop :=
    (exists e p, tsig_from_wire w e p = Ok rd) /\
    exists ko, find_key kr owner (t_alg rd) = Ok ko /\
      match ko with
      | Some k => validate H w k owner rd now rmac start ctx multi = Ok ctx'
      | None => ctx' = ctx
      end.

  Lemma get_rr_ok : forall w kr rmac now multi section count i st st',
    get_rr H w kr rmac now multi section count i st = Ok st' ->
    (exists ty cl, ty <> TSIG /\ r_recs st' = (section, ty, cl, r_pos st) :: r_recs st
                   /\ r_tsig st' = r_tsig st /\ r_ctx st' = r_ctx st)
    \/ (section = 3 /\ i = count - 1 /\
        exists owner rd, r_recs st' = (3, TSIG, ANY, r_pos st) :: r_recs st
          /\ r_tsig st' = Some (owner, rd)
          /\ decided w kr rmac now multi owner rd (r_pos st) (r_ctx st) (r_ctx st')).
  Proof.
    intros until st'. intros E. unfold get_rr in E.
    dbind E as np Qn. dbind E as nrel Qr. dbind E as tp Qt. dbind E as cp Qc. dbind E as lp Ql. dbind E as dp Qd.
    destruct (fst tp =? OPT) eqn:EO.
    { left. apply Z.eqb_eq in EO.
      destruct (negb (section =? 3) || r_opt st || negb (NameM.name_eqb nrel NameM.root)); [discriminate|].
      destruct (Nat.ltb _ _); [discriminate|].
      dbind E as u Qo.
      inversion E; subst st'; clear E. cbn [r_recs r_tsig r_ctx].
      exists (fst tp), (fst cp). rewrite EO. split; [unfold OPT, TSIG; lia|]. auto. }
    destruct (fst tp =? TSIG) eqn:ET.
    - right.
      destruct (section =? 3) eqn:S3; cbn [negb orb] in E; [|discriminate].
      destruct (fst cp =? ANY) eqn:CA; cbn [negb orb] in E; [|discriminate].
      destruct (i =? count - 1) eqn:IL; cbn [negb] in E; [|discriminate].
      apply Z.eqb_eq in S3, CA, IL, ET.
      destruct (Nat.ltb _ _); [discriminate|].
      dbind E as t Qrd.
      destruct (fst lp =? 0) eqn:TT; cbn [negb] in E; [|discriminate].
      dbind E as o Qk. dbind E as cx Qv.
      inversion E; subst st'; clear E. cbn [r_recs r_tsig r_ctx].
      split; [assumption|]. split; [assumption|].
      exists (fst np), t. rewrite S3, ET, CA. split; [reflexivity|]. split; [reflexivity|].
      split; [eexists; eexists; exact Qrd|].
      exists o. split; [assumption|].
      destruct o as [k|]; [assumption|]. congruence.
    - left.
      destruct (Nat.ltb _ _); [discriminate|].
      inversion E; subst st'; clear E. cbn [r_recs r_tsig r_ctx].
      exists (fst tp), (fst cp). apply Z.eqb_neq in ET. auto.
  Qed.

  (* the origin is a constant of the read *)
  Lemma get_rr_origin : forall w kr rmac now multi section count i st st',
    get_rr H w kr rmac now multi section count i st = Ok st' -> r_origin st' = r_origin st.
  Proof.
    intros until st'. intros E. unfold get_rr in E.
    dbind E as np Qn. dbind E as nrel Qr. dbind E as tp Qt. dbind E as cp Qc. dbind E as lp Ql. dbind E as dp Qd.
    destruct (fst tp =? OPT).
    { destruct (negb (section =? 3) || r_opt st || negb (NameM.name_eqb nrel NameM.root)); [discriminate|].
      destruct (Nat.ltb _ _); [discriminate|]. dbind E as u Qo. inversion E. reflexivity. }
    destruct (fst tp =? TSIG).
    - destruct (negb (section =? 3) || negb (fst cp =? ANY) || negb (i =? count - 1)); [discriminate|].
      destruct (Nat.ltb _ _); [discriminate|]. dbind E as t Qrd.
      destruct (negb (fst lp =? 0)); [discriminate|].
      dbind E as o Qk. dbind E as cx Qv. inversion E. reflexivity.
    - destruct (Nat.ltb _ _); [discriminate|]. inversion E. reflexivity.
  Qed.

  Lemma get_section_origin : forall rem w kr rmac now multi section count st st',
    get_section H w kr rmac now multi section count rem st = Ok st' -> r_origin st' = r_origin st.
  Proof.
    induction rem; intros until st'; intros E; cbn [get_section] in E.
    - inversion E. reflexivity.
    - dbind E as st1 Q. apply get_rr_origin in Q. apply IHrem in E. congruence.
  Qed.

  (* a TSIG header anywhere but at the very end of ADDITIONAL with class ANY: BadTSIG, before
     anything of the record's rdata is looked at *)
  Lemma get_rr_misplaced : forall w kr rmac now multi section count i st np nrel tp cp lp dp,
    get_name w (length w) (r_pos st) = Ok np ->
    (match r_origin st with Some o => NameM.relativize (fst np) o | None => Ok (fst np) end) = Ok nrel ->
    get_uint w (length w) (snd np) 2 = Ok tp ->
    get_uint w (length w) (snd tp) 2 = Ok cp ->
    get_uint w (length w) (snd cp) 4 = Ok lp ->
    get_uint w (length w) (snd lp) 2 = Ok dp ->
    fst tp = TSIG ->
    (section <> 3 \/ fst cp <> ANY \/ i <> count - 1) ->
    get_rr H w kr rmac now multi section count i st = Lib eBadTSIG.
  Proof.
    intros until dp. intros N R T C L D Ty Mis. unfold get_rr.
    rewrite N. cbn [bind]. rewrite R. cbn [bind]. rewrite T. cbn [bind]. rewrite C. cbn [bind].
    rewrite L. cbn [bind]. rewrite D. cbn [bind].
    rewrite Ty. change (TSIG =? OPT) with false. change (TSIG =? TSIG) with true. cbn iota.
    destruct (section =? 3) eqn:S3; cbn [negb orb]; [|reflexivity].
    destruct (fst cp =? ANY) eqn:CA; cbn [negb orb]; [|reflexivity].
    destruct (i =? count - 1) eqn:IL; cbn [negb]; [|reflexivity].
    apply Z.eqb_eq in S3, CA, IL. destruct Mis as [M|[M|M]]; contradiction.
  Qed.

  Lemma get_rr_misplaced_formerror : forall w kr rmac now multi section count i st np nrel tp cp lp dp,
    get_name w (length w) (r_pos st) = Ok np ->
    (match r_origin st with Some o => NameM.relativize (fst np) o | None => Ok (fst np) end) = Ok nrel ->
    get_uint w (length w) (snd np) 2 = Ok tp ->
    get_uint w (length w) (snd tp) 2 = Ok cp ->
    get_uint w (length w) (snd cp) 4 = Ok lp ->
    get_uint w (length w) (snd lp) 2 = Ok dp ->
    fst tp = TSIG ->
    (section <> 3 \/ fst cp <> ANY \/ i <> count - 1) ->
    get_rr H w kr rmac now multi section count i st = Lib eBadTSIG /\ is_formerror eBadTSIG = true.
  Proof. intros. split; [eapply get_rr_misplaced; eassumption | reflexivity]. Qed.

  Lemma get_section_ok : forall rem w kr rmac now multi section count st st',
    get_section H w kr rmac now multi section count rem st = Ok st' ->
    exists new, r_recs st' = new ++ r_recs st /\
      ((Forall not_tsig new /\ r_tsig st' = r_tsig st /\ r_ctx st' = r_ctx st)
       \/ (section = 3 /\ exists owner rd start new',
             new = (3, TSIG, ANY, start) :: new' /\ Forall not_tsig new'
             /\ r_tsig st' = Some (owner, rd)
             /\ decided w kr rmac now multi owner rd start (r_ctx st) (r_ctx st'))).
  Proof.
    induction rem; intros until st'; intros E; cbn [get_section] in E.
    - inversion E; subst. exists []. split; [reflexivity|]. left. auto.
    - dbind E as st1 Q. apply get_rr_ok in Q as [(ty & cl & NT & R & T & C) | (S3 & IL & owner & rd & R & T & D)].
      + apply IHrem in E as (new & R' & Cases).
        exists (new ++ [(section, ty, cl, r_pos st)]). split.
        { rewrite R', R, <- app_assoc. reflexivity. }
        destruct Cases as [(F & T' & C') | (S3 & owner & rd & start & new' & -> & F & T' & D)].
        * left. split; [|split; congruence].
          apply Forall_app. split; [assumption|]. constructor; [|constructor]. exact NT.
        * right. split; [assumption|]. exists owner, rd, start, (new' ++ [(section, ty, cl, r_pos st)]).
          split; [reflexivity|]. split.
          { apply Forall_app. split; [assumption|]. constructor; [|constructor]. exact NT. }
          split; [assumption|]. rewrite <- C. exact D.
      + (* the TSIG record is the last one: rem = 0 *)
        assert (rem = O) by lia. subst rem. cbn [get_section] in E. inversion E; subst st'.
        exists [(3, TSIG, ANY, r_pos st)]. split; [rewrite R; reflexivity|].
        right. split; [assumption|]. exists owner, rd, (r_pos st), [].
        split; [reflexivity|]. split; [constructor|]. split; assumption.
  Qed.

  Definition ctx_after_unsigned (ctx : option hctx) (multi : bool) (w : bytes) : option hctx :=
    match ctx with
    | Some c => if multi then Some (update c w) else Some c
    | None => None
    end.

  (* everything the property says about a message that was read without error *)
  Lemma read_ok : forall origin w kr rmac ctx multi now m,
    read_gen H origin w kr rmac ctx multi now = Ok m ->
    exists body,
      Forall not_tsig body /\
      ((m_recs m = body /\ m_tsig m = None /\ m_had_tsig m = false
        /\ m_ctx m = ctx_after_unsigned ctx multi w)
       \/ (exists owner rd start,
             m_recs m = body ++ [(3, TSIG, ANY, start)]
             /\ m_tsig m = Some (owner, rd) /\ m_had_tsig m = true
             /\ decided w kr rmac now multi owner rd start ctx (m_ctx m))).
  Proof.
    intros until m. intros E. unfold read_gen in E.
    destruct (Nat.ltb (length w) 12); [discriminate|].
    dbind E as fl Q0. dbind E as qd Q1. dbind E as an Q2. dbind E as au Q3. dbind E as ad Q4.
    destruct (_ =? 5); [discriminate|].
    dbind E as p Qq. dbind E as s1 Q5. dbind E as s2 Q6. dbind E as s3 Q7.
    destruct (Nat.eqb (r_pos s3) (length w)); cbn [negb] in E; [|discriminate].
    apply get_section_ok in Q5 as (n1 & R1 & C1).
    apply get_section_ok in Q6 as (n2 & R2 & C2).
    apply get_section_ok in Q7 as (n3 & R3 & C3).
    cbn [r_recs r_tsig r_ctx] in *.
    destruct C1 as [(F1 & T1 & X1) | (Bad & _)]; [|discriminate].
    destruct C2 as [(F2 & T2 & X2) | (Bad & _)]; [|discriminate].
    rewrite app_nil_r in R1.
    inversion E; subst m; clear E. cbn [m_recs m_tsig m_had_tsig m_ctx].
    rewrite R3, R2, R1. rewrite !rev_app_distr.
    destruct C3 as [(F3 & T3 & X3) | (_ & owner & rd & start & n3' & -> & F3 & T3 & D)].
    - exists (rev n1 ++ rev n2 ++ rev n3). split.
      { repeat (apply Forall_app; split); apply Forall_rev; assumption. }
      left. rewrite T3, T2, T1. split; [now rewrite !app_assoc|]. split; [reflexivity|]. split; [reflexivity|].
      rewrite X3, X2, X1. unfold ctx_after_unsigned. destruct ctx; [|reflexivity].
      cbn [andb negb]. now rewrite andb_true_r.
    - exists (rev n1 ++ rev n2 ++ rev n3'). split.
      { repeat (apply Forall_app; split); apply Forall_rev; assumption. }
      right. exists owner, rd, start. rewrite T3. split.
      { cbn [rev]. now rewrite !app_assoc. }
      split; [reflexivity|]. split; [reflexivity|].
      rewrite X2, X1 in D.
      destruct (r_ctx s3) as [c|] eqn:RC.
      + rewrite andb_false_r. exact D.
      + exact D.
  Qed.

  (* in a successfully read message a TSIG record is the last record, in ADDITIONAL, class ANY *)
  Lemma tsig_only_last : forall origin w kr rmac ctx multi now m i r,
    read_gen H origin w kr rmac ctx multi now = Ok m ->
    nth_error (m_recs m) i = Some r -> rec_type r = TSIG ->
    i = (length (m_recs m) - 1)%nat /\ rec_section r = 3 /\ rec_class r = ANY.
  Proof.
    intros until r. intros E N T.
    apply read_ok in E as (body & F & [(R & _) | (owner & rd & start & R & _)]).
    - rewrite R in N. apply nth_error_In in N. rewrite Forall_forall in F. apply F in N. contradiction.
    - rewrite R in N |- *. rewrite app_length. cbn [length].
      destruct (Nat.lt_ge_cases i (length body)) as [Lt|Ge].
      + rewrite nth_error_app1 in N by assumption. apply nth_error_In in N.
        rewrite Forall_forall in F. apply F in N. contradiction.
      + rewrite nth_error_app2 in N by assumption.
        destruct (i - length body)%nat as [|j] eqn:J.
        * cbn in N. inversion N; subst r. cbn. split; [lia|auto].
        * cbn in N. destruct j; discriminate.
  Qed.
End WithH.
