(* C19 - cursors: the concrete cursor (node, index, parents stack, recurse / increasing flags)
   denotes a position in the in-order traversal; next / prev / seek move it as a reference
   sorted dictionary would, and a parked cursor resumes from its key. *)
From DV Require Import Base.Prelude Model.BTreeM Proofs.BTreeBase Proofs.BTreeWf Proofs.BTreeInsert.

Section CUR.
Variable t : nat.
Hypothesis Ht : (3 <= t)%nat.
Notation wfn := (wfn t).

(* what lies left / right of child j inside node p *)
Definition left_of (p : tree) (j : nat) : list elt := zipl (firstn j (n_kids p)) (firstn j (n_elts p)).
Definition right_of (p : tree) (j : nat) : list elt := zipr (skipn j (n_elts p)) (skipn (S j) (n_kids p)).

Fixpoint ctx_before (par : list (tree * nat)) : list elt :=
  match par with [] => [] | (p, j) :: r => ctx_before r ++ left_of p j end.
Fixpoint ctx_after (par : list (tree * nat)) : list elt :=
  match par with [] => [] | (p, j) :: r => right_of p j ++ ctx_after r end.

(* the parents stack is a path from the root to the current node *)
Inductive path (root : tree) : tree -> nat -> nat -> list (tree * nat) -> Prop :=
| path_nil h : wfn (root_lo root) h root -> path root root h (root_lo root) []
| path_cons p hp lop j n rest :
    path root p (S hp) lop rest -> nth_error (n_kids p) j = Some n ->
    path root n hp (t_min t) ((p, j) :: rest).

Lemma path_wf root n h lo par : path root n h lo par -> wfn lo h n.
Proof.
  induction 1 as [h Hw|p hp lop j n rest Hp IH Hn]; [assumption|].
  destruct p as [lf es ks]. cbn in Hn.
  apply wfn_inv in IH as (_ & [(_ & Hh & ->)|(_ & h' & Hh & _ & Hall)]); [destruct j; discriminate|].
  inversion Hh; subst h'. rewrite Forall_forall in Hall. apply Hall. eapply nth_error_In; eauto.
Qed.

Lemma node_split lo h p j :
  wfn lo (S h) p -> n_leaf p = false -> (j <= length (n_elts p))%nat ->
  exists kid, nth_error (n_kids p) j = Some kid /\ wfn (t_min t) h kid /\
              elements p = left_of p j ++ elements kid ++ right_of p j.
Proof.
  intros Hw Hl Hj. destruct p as [lf es ks]. cbn in Hl. subst lf. cbn [n_elts n_kids] in *.
  apply wfn_inv in Hw as (_ & [(? & _)|(_ & h' & Hh & Hk & Hall)]); [discriminate|]. inversion Hh; subst h'.
  destruct (node_decomp1 es ks j Hk Hj) as (ea & eb & ka & c & kb & -> & -> & H1 & H2 & H3).
  exists c. split; [now rewrite <- H2, nth_error_app_mid|]. split.
  - apply Forall_mid in Hall. tauto.
  - unfold left_of, right_of. cbn [n_elts n_kids].
    rewrite (firstn_app_exact ka (c :: kb) j H2), (firstn_app_exact ea eb j H1), (skipn_app_exact ea eb j H1).
    replace (ka ++ c :: kb) with ((ka ++ [c]) ++ kb) by (now rewrite <- app_assoc).
    rewrite skipn_app_exact by (rewrite app_length; cbn; lia). rewrite <- app_assoc. cbn [app].
    apply elements_split; congruence.
Qed.

Lemma nth_kid_inv lo h p j kid :
  wfn lo (S h) p -> nth_error (n_kids p) j = Some kid ->
  n_leaf p = false /\ (j <= length (n_elts p))%nat.
Proof.
  intros Hw Hn. destruct p as [lf es ks]. cbn [n_leaf n_elts n_kids] in *.
  apply wfn_inv in Hw as (_ & [(_ & _ & ->)|(-> & h' & Hh & Hk & Hall)]); [destruct j; discriminate|].
  split; [reflexivity|]. assert (j < length ks)%nat by (apply nth_error_Some; congruence). lia.
Qed.

Lemma path_elements root n h lo par :
  path root n h lo par -> elements root = ctx_before par ++ elements n ++ ctx_after par.
Proof.
  induction 1 as [h Hw|p hp lop j n rest Hp IH Hn]; cbn [ctx_before ctx_after].
  - now rewrite app_nil_r.
  - pose proof (path_wf _ _ _ _ _ Hp) as Hw. destruct (nth_kid_inv _ _ _ _ _ Hw Hn) as (Hl & Hj).
    destruct (node_split _ _ p j Hw Hl Hj) as (kid & Hk & _ & He). assert (kid = n) by congruence. subst kid.
    rewrite IH, He. now rewrite <- !app_assoc.
Qed.

Lemma zipl_snoc ka ea l e : length ka = length ea -> zipl (ka ++ [l]) (ea ++ [e]) = zipl ka ea ++ elements l ++ [e].
Proof.
  revert ea. induction ka as [|k ka IH]; intros [|a ea] H; try discriminate; cbn [app zipl].
  - reflexivity.
  - rewrite IH by (cbn in H; lia). now rewrite <- !app_assoc.
Qed.

(* stepping over one separator *)
Lemma right_of_step lo h p j e :
  wfn lo (S h) p -> n_leaf p = false -> nth_error (n_elts p) j = Some e ->
  exists kid kid', nth_error (n_kids p) j = Some kid /\ nth_error (n_kids p) (S j) = Some kid' /\
    right_of p j = e :: elements kid' ++ right_of p (S j) /\
    left_of p (S j) = left_of p j ++ elements kid ++ [e].
Proof.
  intros Hw Hl He. destruct p as [lf es ks]. cbn in Hl. subst lf. cbn [n_elts n_kids] in *.
  apply wfn_inv in Hw as (_ & [(? & _)|(_ & h' & Hh & Hk & Hall)]); [discriminate|]. inversion Hh; subst h'.
  assert (Hj : (j < length es)%nat) by (apply nth_error_Some; congruence).
  destruct (node_decomp2 es ks j Hk Hj) as (ea & pe & eb & ka & l & r & kb & -> & -> & H1 & H2 & H3).
  rewrite <- H1, nth_error_app_mid in He. inversion He; subst pe.
  exists l, r. split; [now rewrite <- H2, nth_error_app_mid|]. split.
  { replace (ka ++ l :: r :: kb) with ((ka ++ [l]) ++ r :: kb) by (now rewrite <- app_assoc).
    replace (S j) with (length (ka ++ [l])) by (rewrite app_length; cbn; lia). apply nth_error_app_mid. }
  unfold left_of, right_of. cbn [n_elts n_kids]. split.
  - rewrite (skipn_app_exact ea (e :: eb) j H1).
    replace (ka ++ l :: r :: kb) with ((ka ++ [l]) ++ r :: kb) by (now rewrite <- app_assoc).
    rewrite (skipn_app_exact (ka ++ [l]) (r :: kb) (S j)) by (rewrite app_length; cbn; lia).
    replace (ea ++ e :: eb) with ((ea ++ [e]) ++ eb) by (now rewrite <- app_assoc).
    rewrite (skipn_app_exact (ea ++ [e]) eb (S j)) by (rewrite app_length; cbn; lia).
    replace ((ka ++ [l]) ++ r :: kb) with ((ka ++ [l; r]) ++ kb) by (rewrite <- !app_assoc; reflexivity).
    rewrite (skipn_app_exact (ka ++ [l; r]) kb (S (S j))) by (rewrite app_length; cbn; lia).
    reflexivity.
  - replace (ka ++ l :: r :: kb) with ((ka ++ [l]) ++ r :: kb) by (now rewrite <- app_assoc).
    rewrite (firstn_app_exact (ka ++ [l]) (r :: kb) (S j)) by (rewrite app_length; cbn; lia).
    replace (ea ++ e :: eb) with ((ea ++ [e]) ++ eb) by (now rewrite <- app_assoc).
    rewrite (firstn_app_exact (ea ++ [e]) eb (S j)) by (rewrite app_length; cbn; lia).
    rewrite <- !app_assoc. cbn [app].
    rewrite (firstn_app_exact ka (l :: r :: kb) j H2), (firstn_app_exact ea (e :: eb) j H1).
    apply zipl_snoc. congruence.
Qed.

Lemma right_of_end p : right_of p (length (n_elts p)) = [].
Proof. unfold right_of. now rewrite skipn_all. Qed.

Lemma left_of_zero p : left_of p 0 = [].
Proof. reflexivity. Qed.

(* the node-level part of a position *)
Definition bef_node (n : tree) (i : nat) : list elt := if n_leaf n then firstn i (n_elts n) else left_of n i.
(* "after child i" for internal nodes, "at index i" for leaves: what next() still has to deliver *)
Definition aft_node (n : tree) (i : nat) : list elt := if n_leaf n then skipn i (n_elts n) else right_of n i.

(* ---------------------------------------------------------------- descents *)

Lemma seek_least_spec root : forall fuel h lo n i par,
  path root n h lo par -> (h <= fuel)%nat -> (n_leaf n = false -> (i <= length (n_elts n))%nat) ->
  exists lf i' par' lo',
    seek_least fuel n i par = Ok (lf, i', par') /\ path root lf 1 lo' par' /\ n_leaf lf = true /\
    (length par' + 1 = length par + h)%nat /\
    (n_leaf n = true -> lf = n /\ i' = i /\ par' = par) /\
    (n_leaf n = false -> i' = 0%nat /\ (t_min t <= lo')%nat /\
       ctx_before par' = ctx_before par ++ left_of n i /\
       forall kid, nth_error (n_kids n) i = Some kid ->
         n_elts lf ++ ctx_after par' = elements kid ++ right_of n i ++ ctx_after par).
Proof.
  induction fuel as [|f IH]; intros h lo n i par Hp Hf Hi.
  { pose proof (wfn_pos t Ht _ _ _ (path_wf _ _ _ _ _ Hp)). lia. }
  pose proof (path_wf _ _ _ _ _ Hp) as Hw. cbn [seek_least].
  destruct (n_leaf n) eqn:Hl.
  - assert (h = 1%nat) by (now apply (wfn_leaf_iff t Ht _ _ _ Hw)). subst h.
    exists n, i, par, lo. repeat split; auto; try discriminate; lia.
  - destruct h as [|h]; [pose proof (wfn_pos t Ht _ _ _ Hw); lia|].
    destruct (node_split _ _ n i Hw Hl (Hi eq_refl)) as (kid & Hk & Hkw & He). rewrite Hk.
    assert (Hp' : path root kid h (t_min t) ((n, i) :: par)) by (econstructor; eauto).
    destruct (IH h (t_min t) kid 0%nat _ Hp' ltac:(lia) ltac:(lia)) as (lf & i' & par' & lo' & -> & Hpl & Hll & Hlen & Hleaf & Hint).
    exists lf, i', par', lo'. split; [reflexivity|]. split; [assumption|]. split; [assumption|].
    split; [cbn [length] in Hlen; lia|].
    split; [discriminate|]. intros _.
    destruct (n_leaf kid) eqn:Hkl.
    + destruct (Hleaf eq_refl) as (-> & -> & ->). split; [reflexivity|].
      split; [pose proof (path_wf _ _ _ _ _ Hpl) as Hq; pose proof (path_wf _ _ _ _ _ Hp'); inversion Hpl; subst; lia|].
      split; [reflexivity|]. intros kid' Hk'. assert (kid' = kid) by congruence. subst kid'.
      cbn [ctx_after]. destruct kid as [klf kes kks]. cbn in Hkl. subst klf. reflexivity.
    + destruct (Hint eq_refl) as (-> & Hlo' & Hcb & Hca). split; [reflexivity|]. split; [assumption|]. split.
      * rewrite Hcb. cbn [ctx_before]. rewrite left_of_zero, app_nil_r. reflexivity.
      * intros kid' Hk'. assert (kid' = kid) by congruence. subst kid'.
        destruct h as [|h']; [pose proof (wfn_pos t Ht _ _ _ Hkw); lia|].
        destruct (node_split _ _ kid 0 Hkw Hkl ltac:(lia)) as (k0 & Hk0 & _ & Hek).
        rewrite (Hca k0 Hk0). cbn [ctx_after]. rewrite Hek, left_of_zero. cbn [app]. now rewrite <- !app_assoc.
Qed.

Lemma seek_greatest_spec root : forall fuel h lo n i par,
  path root n h lo par -> (h <= fuel)%nat -> (n_leaf n = false -> (i <= length (n_elts n))%nat) ->
  exists lf i' par' lo',
    seek_greatest fuel n i par = Ok (lf, i', par') /\ path root lf 1 lo' par' /\ n_leaf lf = true /\
    (length par' + 1 = length par + h)%nat /\
    (n_leaf n = true -> lf = n /\ i' = i /\ par' = par) /\
    (n_leaf n = false -> i' = length (n_elts lf) /\ (t_min t <= lo')%nat /\
       ctx_after par' = right_of n i ++ ctx_after par /\
       forall kid, nth_error (n_kids n) i = Some kid ->
         ctx_before par' ++ n_elts lf = ctx_before par ++ left_of n i ++ elements kid).
Proof.
  induction fuel as [|f IH]; intros h lo n i par Hp Hf Hi.
  { pose proof (wfn_pos t Ht _ _ _ (path_wf _ _ _ _ _ Hp)). lia. }
  pose proof (path_wf _ _ _ _ _ Hp) as Hw. cbn [seek_greatest].
  destruct (n_leaf n) eqn:Hl.
  - assert (h = 1%nat) by (now apply (wfn_leaf_iff t Ht _ _ _ Hw)). subst h.
    exists n, i, par, lo. repeat split; auto; try discriminate; lia.
  - destruct h as [|h]; [pose proof (wfn_pos t Ht _ _ _ Hw); lia|].
    destruct (node_split _ _ n i Hw Hl (Hi eq_refl)) as (kid & Hk & Hkw & He). rewrite Hk.
    assert (Hp' : path root kid h (t_min t) ((n, i) :: par)) by (econstructor; eauto).
    destruct (IH h (t_min t) kid (length (n_elts kid)) _ Hp' ltac:(lia) ltac:(lia)) as (lf & i' & par' & lo' & -> & Hpl & Hll & Hlen & Hleaf & Hint).
    exists lf, i', par', lo'. split; [reflexivity|]. split; [assumption|]. split; [assumption|].
    split; [cbn [length] in Hlen; lia|].
    split; [discriminate|]. intros _.
    destruct (n_leaf kid) eqn:Hkl.
    + destruct (Hleaf eq_refl) as (-> & -> & ->). split; [reflexivity|].
      split; [inversion Hpl; subst; lia|].
      split; [reflexivity|]. intros kid' Hk'. assert (kid' = kid) by congruence. subst kid'.
      cbn [ctx_before]. destruct kid as [klf kes kks]. cbn in Hkl. subst klf. cbn [n_elts elements].
      now rewrite <- app_assoc.
    + destruct (Hint eq_refl) as (-> & Hlo' & Hca & Hcb). split; [reflexivity|]. split; [assumption|]. split.
      * rewrite Hca. cbn [ctx_after]. rewrite right_of_end. reflexivity.
      * intros kid' Hk'. assert (kid' = kid) by congruence. subst kid'.
        destruct h as [|h']; [pose proof (wfn_pos t Ht _ _ _ Hkw); lia|].
        destruct (node_split _ _ kid (length (n_elts kid)) Hkw Hkl ltac:(lia)) as (k0 & Hk0 & _ & Hek).
        rewrite (Hcb k0 Hk0). cbn [ctx_before]. rewrite Hek, right_of_end, app_nil_r. now rewrite <- !app_assoc.
Qed.

(* ---------------------------------------------------------------- positions *)

(* a stable (between two calls) position of an unparked cursor inside the tree, together with
   what lies before and after it in the in-order traversal *)
Inductive cstate (root : tree) : tree -> nat -> bool -> bool -> list (tree * nat) -> list elt -> list elt -> Prop :=
| cs_leaf n i inc par lo :
    path root n 1 lo par -> n_leaf n = true -> (i <= length (n_elts n))%nat ->
    cstate root n i false inc par (ctx_before par ++ firstn i (n_elts n)) (skipn i (n_elts n) ++ ctx_after par)
| cs_fwd n i h lo par kid :       (* just before child i: next() has returned elts[i-1] *)
    path root n (S h) lo par -> nth_error (n_kids n) i = Some kid ->
    cstate root n i true true par (ctx_before par ++ left_of n i) (elements kid ++ right_of n i ++ ctx_after par)
| cs_bwd n i h lo par kid :       (* just after child i: prev() has returned elts[i] *)
    path root n (S h) lo par -> nth_error (n_kids n) i = Some kid ->
    cstate root n i true false par (ctx_before par ++ left_of n i ++ elements kid) (right_of n i ++ ctx_after par).

Lemma cstate_elements root n i rec inc par bef aft :
  cstate root n i rec inc par bef aft -> elements root = bef ++ aft.
Proof.
  intros H. inversion H; subst.
  - rewrite (path_elements _ _ _ _ _ H0). destruct n as [lf es ks]. cbn in *. subst lf. cbn.
    rewrite <- !app_assoc. f_equal. rewrite app_assoc. f_equal. symmetry. apply firstn_skipn.
  - pose proof (path_wf _ _ _ _ _ H0) as Hw. destruct (nth_kid_inv _ _ _ _ _ Hw H1) as (Hl & Hj).
    destruct (node_split _ _ n i Hw Hl Hj) as (kid' & Hk & _ & He). assert (kid' = kid) by congruence. subst kid'.
    rewrite (path_elements _ _ _ _ _ H0), He. now rewrite <- !app_assoc.
  - pose proof (path_wf _ _ _ _ _ H0) as Hw. destruct (nth_kid_inv _ _ _ _ _ Hw H1) as (Hl & Hj).
    destruct (node_split _ _ n i Hw Hl Hj) as (kid' & Hk & _ & He). assert (kid' = kid) by congruence. subst kid'.
    rewrite (path_elements _ _ _ _ _ H0), He. now rewrite <- !app_assoc.
Qed.

Lemma nth_error_firstn_S {A} (l : list A) i e : nth_error l i = Some e -> firstn (S i) l = firstn i l ++ [e].
Proof. revert i. induction l as [|a l IH]; intros [|i] H; cbn in *; try discriminate; [congruence|]. now rewrite (IH i H). Qed.

Lemma nth_error_skipn {A} (l : list A) i e : nth_error l i = Some e -> skipn i l = e :: skipn (S i) l.
Proof. revert i. induction l as [|a l IH]; intros [|i] H; cbn in *; try discriminate; [congruence|]. now rewrite (IH i H). Qed.

(* everything of node n up to and including child i (leaf: the first i keys) *)
Definition bef_at (n : tree) (i : nat) : list elt :=
  if n_leaf n then firstn i (n_elts n)
  else left_of n i ++ match nth_error (n_kids n) i with Some k => elements k | None => [] end.

Definition boundary_r : cursor := mkC None 1 false true [] false None true.
Definition boundary_l : cursor := mkC None 0 false false [] false None true.

Lemma bef_at_end lo h n : wfn lo h n -> bef_at n (length (n_elts n)) = elements n.
Proof.
  intros Hw. unfold bef_at. destruct (n_leaf n) eqn:Hl.
  - rewrite firstn_all. destruct n as [lf es ks]. cbn in *. now subst lf.
  - destruct h as [|h]; [pose proof (wfn_pos t Ht _ _ _ Hw); lia|].
    destruct h as [|h]; [apply (wfn_leaf_iff t Ht) in Hw; intuition congruence|].
    destruct (node_split _ _ n _ Hw Hl (le_n _)) as (kid & Hk & _ & He). rewrite Hk, He, right_of_end.
    now rewrite app_nil_r.
Qed.

Lemma aft_node_end n : aft_node n (length (n_elts n)) = [].
Proof. unfold aft_node. destruct (n_leaf n); [apply skipn_all|apply right_of_end]. Qed.

Lemma next_noseek root : forall fuel n i h lo rec inc par,
  path root n h lo par -> (i <= length (n_elts n))%nat -> rec && inc = false -> (length par < fuel)%nat ->
  match aft_node n i ++ ctx_after par with
  | [] => next_loop fuel n i rec inc par = Ok (boundary_r, None)
  | x :: aft' =>
      exists n' i' rec' par',
        next_loop fuel n i rec inc par = Ok (mkC (Some n') i' rec' true par' false (Some (fst x)) true, Some x) /\
        cstate root n' i' rec' true par' (ctx_before par ++ bef_at n i ++ [x]) aft'
  end.
Proof.
  induction fuel as [|f IH]; intros n i h lo rec inc par Hp Hi Hri Hf; [lia|].
  pose proof (path_wf _ _ _ _ _ Hp) as Hw.
  cbn [next_loop]. rewrite Hri. cbn [bind].
  destruct (nth_error (n_elts n) i) as [e|] eqn:He.
  - unfold aft_node, bef_at. destruct (n_leaf n) eqn:Hl.
    + rewrite (nth_error_skipn _ _ _ He). cbn [app]. exists n, (S i), false, par. split; [reflexivity|].
      assert (h = 1%nat) by (now apply (wfn_leaf_iff t Ht _ _ _ Hw)). subst h.
      rewrite <- (nth_error_firstn_S _ _ _ He). econstructor; eauto.
      apply Nat.le_succ_l. apply nth_error_Some. congruence.
    + destruct h as [|h]; [pose proof (wfn_pos t Ht _ _ _ Hw); lia|].
      destruct h as [|h]; [apply (wfn_leaf_iff t Ht) in Hw; intuition congruence|].
      destruct (right_of_step _ _ n i e Hw Hl He) as (kid & kid' & Hk & Hk' & Hr & Hlft).
      rewrite Hr, Hk. cbn [app]. exists n, (S i), true, par. split; [reflexivity|].
      rewrite <- app_assoc. rewrite <- Hlft. rewrite <- app_assoc. econstructor; eauto.
  - assert (i = length (n_elts n)) by (apply nth_error_None in He; lia). subst i.
    rewrite aft_node_end. cbn [app].
    inversion Hp; subst.
    + reflexivity.
    + cbn [ctx_after ctx_before].
      pose proof (path_wf _ _ _ _ _ H) as Hwp. destruct (nth_kid_inv _ _ _ _ _ Hwp H0) as (Hlp & Hjp).
      specialize (IH p j (S h) lop false true rest H Hjp eq_refl ltac:(cbn in Hf; lia)).
      unfold aft_node in IH. rewrite Hlp in IH.
      destruct (right_of p j ++ ctx_after rest) as [|x aft']; [assumption|].
      destruct IH as (n' & i' & rec' & par' & -> & Hcs). exists n', i', rec', par'. split; [reflexivity|].
      unfold bef_at in Hcs. rewrite Hlp, H0 in Hcs. rewrite (bef_at_end _ _ _ Hw).
      rewrite <- !app_assoc in *. exact Hcs.
Qed.

(* everything of node n from child i on (leaf: from key i on) *)
Definition aft_at (n : tree) (i : nat) : list elt :=
  if n_leaf n then skipn i (n_elts n)
  else match nth_error (n_kids n) i with Some k => elements k | None => [] end ++ right_of n i.

Lemma aft_at_zero lo h n : wfn lo h n -> aft_at n 0 = elements n.
Proof.
  intros Hw. unfold aft_at. destruct (n_leaf n) eqn:Hl.
  - destruct n as [lf es ks]. cbn in *. now subst lf.
  - destruct h as [|h]; [pose proof (wfn_pos t Ht _ _ _ Hw); lia|].
    destruct h as [|h]; [apply (wfn_leaf_iff t Ht) in Hw; intuition congruence|].
    destruct (node_split _ _ n 0 Hw Hl ltac:(lia)) as (kid & Hk & _ & He). now rewrite Hk, He, left_of_zero.
Qed.

Lemma prev_noseek root : forall fuel n i h lo rec inc par,
  path root n h lo par -> (i <= length (n_elts n))%nat -> rec && negb inc = false -> (length par < fuel)%nat ->
  (ctx_before par ++ bef_node n i = [] /\ prev_loop fuel n i rec inc par = Ok (boundary_l, None)) \/
  (exists bef' x n' i' rec' par',
     ctx_before par ++ bef_node n i = bef' ++ [x] /\
     prev_loop fuel n i rec inc par = Ok (mkC (Some n') i' rec' false par' false (Some (fst x)) true, Some x) /\
     cstate root n' i' rec' false par' bef' (x :: aft_at n i ++ ctx_after par)).
Proof.
  induction fuel as [|f IH]; intros n i h lo rec inc par Hp Hi Hri Hf; [lia|].
  pose proof (path_wf _ _ _ _ _ Hp) as Hw.
  cbn [prev_loop]. rewrite Hri. cbn [bind].
  destruct i as [|j].
  - assert (Hb0 : bef_node n 0 = []) by (unfold bef_node; destruct (n_leaf n); reflexivity).
    rewrite Hb0, app_nil_r. rewrite (aft_at_zero _ _ _ Hw).
    inversion Hp; subst.
    + left. split; reflexivity.
    + cbn [ctx_after ctx_before].
      pose proof (path_wf _ _ _ _ _ H) as Hwp. destruct (nth_kid_inv _ _ _ _ _ Hwp H0) as (Hlp & Hjp).
      specialize (IH p j (S h) lop false false rest H Hjp eq_refl ltac:(cbn in Hf; lia)).
      unfold bef_node in IH. rewrite Hlp in IH.
      destruct IH as [(He & Hr)|(bef' & x & n' & i' & rec' & par' & He & Hr & Hcs)].
      * left. split; assumption.
      * right. exists bef', x, n', i', rec', par'. split; [assumption|]. split; [assumption|].
        unfold aft_at in Hcs. rewrite Hlp, H0 in Hcs. rewrite <- !app_assoc in *. exact Hcs.
  - right. destruct (nth_error (n_elts n) j) as [e|] eqn:He.
    2:{ apply nth_error_None in He. lia. }
    unfold bef_node, aft_at. destruct (n_leaf n) eqn:Hl.
    + assert (h = 1%nat) by (now apply (wfn_leaf_iff t Ht _ _ _ Hw)). subst h.
      exists (ctx_before par ++ firstn j (n_elts n)), e, n, j, false, par.
      split; [rewrite (nth_error_firstn_S _ _ _ He); now rewrite app_assoc|]. split; [reflexivity|].
      change (e :: skipn (S j) (n_elts n) ++ ctx_after par) with ((e :: skipn (S j) (n_elts n)) ++ ctx_after par).
      rewrite <- (nth_error_skipn _ _ _ He). econstructor; eauto. lia.
    + destruct h as [|h]; [pose proof (wfn_pos t Ht _ _ _ Hw); lia|].
      destruct h as [|h]; [apply (wfn_leaf_iff t Ht) in Hw; intuition congruence|].
      destruct (right_of_step _ _ n j e Hw Hl He) as (kid & kid' & Hk & Hk' & Hr & Hlft).
      exists (ctx_before par ++ left_of n j ++ elements kid), e, n, j, true, par.
      split; [rewrite Hlft; now rewrite <- !app_assoc|]. split; [reflexivity|].
      rewrite Hk'. replace (e :: (elements kid' ++ right_of n (S j)) ++ ctx_after par) with (right_of n j ++ ctx_after par)
        by (rewrite Hr; cbn [app]; now rewrite <- !app_assoc).
      econstructor; eauto.
Qed.

(* ---------------------------------------------------------------- next / prev from a stable position *)

Lemma loop_fuel_ok lo h n par : wfn lo h n -> loop_fuel n par = (length par + h + 2)%nat.
Proof. intros Hw. unfold loop_fuel. now rewrite (wfn_depth t _ _ _ Hw). Qed.

Lemma next_loop_spec root n i rec inc par bef aft fuel h lo :
  cstate root n i rec inc par bef aft -> wfn lo h n -> (length par + h + 2 <= fuel)%nat ->
  match aft with
  | [] => next_loop fuel n i rec inc par = Ok (boundary_r, None)
  | x :: aft' =>
      exists n' i' rec' par',
        next_loop fuel n i rec inc par = Ok (mkC (Some n') i' rec' true par' false (Some (fst x)) true, Some x) /\
        cstate root n' i' rec' true par' (bef ++ [x]) aft'
  end.
Proof.
  intros Hcs Hwn Hf. inversion Hcs; subst.
  - (* leaf *)
    pose proof (next_noseek root fuel n i 1 lo0 false inc par H H1 eq_refl ltac:(lia)) as Hn.
    unfold aft_node, bef_at in Hn. rewrite H0 in Hn.
    destruct (skipn i (n_elts n) ++ ctx_after par) as [|x aft']; [assumption|].
    destruct Hn as (n' & i' & rec' & par' & Hr & Hc). exists n', i', rec', par'. split; [assumption|].
    now rewrite <- !app_assoc in *.
  - (* before child i: descend to its least leaf *)
    pose proof (path_wf _ _ _ _ _ H) as Hw. destruct (nth_kid_inv _ _ _ _ _ Hw H0) as (Hl & Hj).
    assert (h = S h0) by (pose proof (wfn_depth t _ _ _ Hw); pose proof (wfn_depth t _ _ _ Hwn); congruence). subst h.
    destruct fuel as [|f]; [lia|].
    destruct (seek_least_spec root (S (depth n)) (S h0) lo0 n i par H) as (lf & i' & par' & lo' & Hs & Hpl & Hll & Hlen & _ & Hint).
    { rewrite (wfn_depth t _ _ _ Hw). lia. } { intros _. assumption. }
    destruct (Hint Hl) as (-> & Hlo' & Hcb & Hca). specialize (Hca kid H0).
    assert (Heq : next_loop (S f) n i true true par = next_loop (S f) lf 0 false true par').
    { cbn [next_loop]. cbn [andb]. rewrite Hs. cbn [bind andb]. reflexivity. }
    rewrite Heq.
    pose proof (next_noseek root (S f) lf 0 1 lo' false true par' Hpl ltac:(lia) eq_refl ltac:(lia)) as Hn.
    unfold aft_node, bef_at in Hn. rewrite Hll in Hn. cbn [skipn firstn app] in Hn. rewrite Hca in Hn.
    destruct (elements kid ++ right_of n i ++ ctx_after par) as [|x aft']; [assumption|].
    destruct Hn as (n' & i'' & rec' & par'' & Hr & Hc). exists n', i'', rec', par''. split; [assumption|].
    rewrite Hcb in Hc. exact Hc.
  - (* after child i *)
    pose proof (path_wf _ _ _ _ _ H) as Hw. destruct (nth_kid_inv _ _ _ _ _ Hw H0) as (Hl & Hj).
    pose proof (next_noseek root fuel n i (S h0) lo0 true false par H Hj eq_refl ltac:(lia)) as Hn.
    unfold aft_node, bef_at in Hn. rewrite Hl, H0 in Hn.
    destruct (right_of n i ++ ctx_after par) as [|x aft']; [assumption|].
    destruct Hn as (n' & i' & rec' & par' & Hr & Hc). exists n', i', rec', par'. split; [assumption|].
    now rewrite <- !app_assoc in *.
Qed.

Lemma prev_loop_spec root n i rec inc par bef aft fuel h lo :
  cstate root n i rec inc par bef aft -> wfn lo h n -> (length par + h + 2 <= fuel)%nat ->
  (bef = [] /\ prev_loop fuel n i rec inc par = Ok (boundary_l, None)) \/
  (exists bef' x n' i' rec' par',
     bef = bef' ++ [x] /\
     prev_loop fuel n i rec inc par = Ok (mkC (Some n') i' rec' false par' false (Some (fst x)) true, Some x) /\
     cstate root n' i' rec' false par' bef' (x :: aft)).
Proof.
  intros Hcs Hwn Hf. inversion Hcs; subst.
  - (* leaf *)
    pose proof (prev_noseek root fuel n i 1 lo0 false inc par H H1 eq_refl ltac:(lia)) as Hn.
    unfold bef_node, aft_at in Hn. rewrite H0 in Hn. exact Hn.
  - (* before child i *)
    pose proof (path_wf _ _ _ _ _ H) as Hw. destruct (nth_kid_inv _ _ _ _ _ Hw H0) as (Hl & Hj).
    pose proof (prev_noseek root fuel n i (S h0) lo0 true true par H Hj eq_refl ltac:(lia)) as Hn.
    unfold bef_node, aft_at in Hn. rewrite Hl, H0 in Hn. rewrite <- !app_assoc in Hn. exact Hn.
  - (* after child i: descend to its greatest leaf *)
    pose proof (path_wf _ _ _ _ _ H) as Hw. destruct (nth_kid_inv _ _ _ _ _ Hw H0) as (Hl & Hj).
    assert (h = S h0) by (pose proof (wfn_depth t _ _ _ Hw); pose proof (wfn_depth t _ _ _ Hwn); congruence). subst h.
    destruct fuel as [|f]; [lia|].
    destruct (seek_greatest_spec root (S (depth n)) (S h0) lo0 n i par H) as (lf & i' & par' & lo' & Hs & Hpl & Hll & Hlen & _ & Hint).
    { rewrite (wfn_depth t _ _ _ Hw). lia. } { intros _. assumption. }
    destruct (Hint Hl) as (-> & Hlo' & Hca & Hcb). specialize (Hcb kid H0).
    assert (Heq : prev_loop (S f) n i true false par = prev_loop (S f) lf (length (n_elts lf)) false false par').
    { cbn [prev_loop]. cbn [andb negb]. rewrite Hs. cbn [bind andb negb]. reflexivity. }
    rewrite Heq.
    pose proof (prev_noseek root (S f) lf (length (n_elts lf)) 1 lo' false false par' Hpl (le_n _) eq_refl ltac:(lia)) as Hn.
    unfold bef_node, aft_at in Hn. rewrite Hll in Hn. rewrite firstn_all, skipn_all in Hn. cbn [app] in Hn.
    rewrite Hcb, Hca in Hn. exact Hn.
Qed.

(* ---------------------------------------------------------------- seek *)

Definition all_le (l : list elt) (k : Z) : Prop := Forall (fun e => fst e <= k) l.
Definition all_ge (l : list elt) (k : Z) : Prop := Forall (fun e => k <= fst e) l.

(* seek(key, before): everything in front of the cursor is < key (<= key when before is False),
   everything behind it is >= key (> key) *)
Definition split_ok (before : bool) (key : Z) (bef aft : list elt) : Prop :=
  if before then all_lt bef key /\ all_ge aft key else all_le bef key /\ all_gt aft key.

Lemma lt_le l k : all_lt l k -> all_le l k.
Proof. apply Forall_impl. intros; lia. Qed.
Lemma gt_ge l k : all_gt l k -> all_ge l k.
Proof. apply Forall_impl. intros; lia. Qed.

Lemma split_ok_strict before key bef aft : all_lt bef key -> all_gt aft key -> split_ok before key bef aft.
Proof. intros H1 H2. destruct before; split; auto using lt_le, gt_ge. Qed.

Lemma left_of_app lf ea eb ka c kb :
  length ka = length ea -> left_of (Node lf (ea ++ eb) (ka ++ c :: kb)) (length ea) = zipl ka ea.
Proof.
  intros H. unfold left_of. cbn [n_elts n_kids]. now rewrite (firstn_app_exact ka _ _ H), (firstn_app_exact ea _ _ eq_refl).
Qed.

Lemma right_of_app lf ea eb ka c kb :
  length ka = length ea -> right_of (Node lf (ea ++ eb) (ka ++ c :: kb)) (length ea) = zipr eb kb.
Proof.
  intros H. unfold right_of. cbn [n_elts n_kids]. rewrite (skipn_app_exact ea _ _ eq_refl).
  replace (ka ++ c :: kb) with ((ka ++ [c]) ++ kb) by (now rewrite <- app_assoc).
  now rewrite skipn_app_exact by (rewrite app_length; cbn; lia).
Qed.

Lemma path_sorted root n h lo par : path root n h lo par -> ksorted (elements root) -> ksorted (elements n).
Proof.
  intros Hp Hs. rewrite (path_elements _ _ _ _ _ Hp) in Hs.
  apply ksorted_app in Hs as (_ & Hs & _). apply ksorted_app in Hs. tauto.
Qed.

Lemma seek_loop_spec root key before : ksorted (elements root) -> forall fuel h lo n par,
  path root n h lo par -> (h <= fuel)%nat ->
  all_lt (ctx_before par) key -> all_gt (ctx_after par) key ->
  exists n' idx par' bef aft,
    seek_loop fuel key before n par = Ok (n', idx, par') /\
    cstate root n' idx false before par' bef aft /\ split_ok before key bef aft.
Proof.
  intros Hsr. induction fuel as [|f IH]; intros h lo n par Hp Hf Hcb Hca.
  { pose proof (wfn_pos t Ht _ _ _ (path_wf _ _ _ _ _ Hp)). lia. }
  pose proof (path_wf _ _ _ _ _ Hp) as Hw. pose proof (path_sorted _ _ _ _ _ Hp Hsr) as Hs.
  pose proof (node_es_sorted t Ht _ _ _ Hw Hs) as Hes.
  cbn [seek_loop].
  destruct n as [lf es ks]. cbn [n_elts n_leaf n_kids] in *.
  destruct (search_cases key es Hes) as [(ea & v & eb & -> & Hsrch & Hlt & Hgt)|(ea & eb & -> & Hsrch & Hlt & Hgt)];
    rewrite Hsrch; cbn [bind].
  - (* the key is in this node *)
    pose proof Hw as Hw0.
    apply wfn_inv in Hw as (Hb & [(-> & -> & ->)|(-> & h' & -> & Hk & Hall)]).
    + (* leaf *)
      destruct before.
      * eexists _, _, _, _, _. split; [reflexivity|]. split.
        { eapply (cs_leaf root _ (length ea) true par); eauto; cbn [n_elts]; rewrite ?app_length; cbn [length]; lia. }
        cbn [n_elts]. rewrite firstn_app_exact, skipn_app_exact by reflexivity. split.
        -- apply all_lt_app. auto.
        -- unfold all_ge. apply Forall_app. split; [constructor; [cbn; lia|now apply gt_ge]|now apply gt_ge].
      * eexists _, _, _, _, _. split; [reflexivity|]. split.
        { eapply (cs_leaf root _ (S (length ea)) false par); eauto; cbn [n_elts]; rewrite ?app_length; cbn [length]; lia. }
        cbn [n_elts]. replace (ea ++ (key, v) :: eb) with ((ea ++ [(key, v)]) ++ eb) by (now rewrite <- app_assoc).
        rewrite firstn_app_exact, skipn_app_exact by (rewrite app_length; cbn; lia). split.
        -- unfold all_le. rewrite !Forall_app. repeat split; [now apply lt_le|now apply lt_le|constructor; [cbn; lia|constructor]].
        -- apply all_gt_app. auto.
    + (* internal *)
      destruct (node_decomp2 (ea ++ (key, v) :: eb) ks (length ea) Hk) as (ea' & pe & eb' & ka & cl & cr & kb & He & -> & H1 & H2 & H3).
      { rewrite app_length. cbn. lia. }
      destruct (app_eq_len _ _ _ _ He H1) as (-> & Hq). inversion Hq; subst pe eb'. clear Hq He H1.
      rewrite (elements_split2 ea (key, v) eb ka cl cr kb H2 H3) in Hs.
      set (n := Node false (ea ++ (key, v) :: eb) (ka ++ cl :: cr :: kb)) in *.
      assert (Hmid : all_lt (zipl ka ea ++ elements cl) key /\ all_gt (elements cr ++ zipr eb kb) key).
      { rewrite <- app_assoc in Hs. rewrite app_assoc in Hs. rewrite <- app_assoc in Hs.
        replace (zipl ka ea ++ elements cl ++ ((key, v) :: elements cr) ++ zipr eb kb)
          with ((zipl ka ea ++ elements cl) ++ (key, v) :: elements cr ++ zipr eb kb) in Hs by (now rewrite <- !app_assoc).
        apply ksorted_mid in Hs. tauto. }
      destruct Hmid as (Hml & Hmr).
      assert (Hlo : left_of n (length ea) = zipl ka ea) by (apply left_of_app; assumption).
      assert (Hkl : nth_error (n_kids n) (length ea) = Some cl) by (cbn; now rewrite <- H2, nth_error_app_mid).
      assert (Hro : right_of n (length ea) = (key, v) :: elements cr ++ zipr eb kb).
      { unfold n. rewrite (right_of_app false ea ((key, v) :: eb) ka cl (cr :: kb) H2). reflexivity. }
      assert (Hne : nth_error (n_elts n) (length ea) = Some (key, v)) by (cbn; apply nth_error_app_mid).
      destruct (right_of_step _ _ n (length ea) (key, v) Hw0 eq_refl Hne) as (kid & kid' & Hk1 & Hk2 & Hr & Hlft).
      assert (kid = cl) by congruence. subst kid.
      assert (kid' = cr).
      { unfold n in Hk2. cbn [n_kids] in Hk2. replace (ka ++ cl :: cr :: kb) with ((ka ++ [cl]) ++ cr :: kb) in Hk2 by (now rewrite <- app_assoc).
        replace (S (length ea)) with (length (ka ++ [cl])) in Hk2 by (rewrite app_length; cbn; lia).
        rewrite nth_error_app_mid in Hk2. congruence. }
      subst kid'.
      assert (Hro' : right_of n (S (length ea)) = zipr eb kb).
      { rewrite Hro in Hr. inversion Hr as [Hr']. apply app_inv_head in Hr'. now symmetry. }
      destruct before.
      * destruct (seek_greatest_spec root (S (depth n)) (S h') lo n (length ea) par Hp) as (lfn & i' & par' & lo' & Hsg & Hpl & Hll & Hlen & _ & Hint).
        { rewrite (wfn_depth t _ _ _ Hw0). lia. } { intros _. cbn. rewrite app_length. lia. }
        destruct (Hint eq_refl) as (-> & Hlo' & Hca' & Hcb'). specialize (Hcb' cl Hkl).
        rewrite Hsg. eexists _, _, _, _, _. split; [reflexivity|]. split.
        { eapply (cs_leaf root lfn (length (n_elts lfn)) true par'); eauto. }
        rewrite firstn_all, skipn_all. cbn [app]. rewrite Hcb', Hca', Hlo, Hro. split.
        -- apply all_lt_app. split; [assumption|exact Hml].
        -- unfold all_ge. apply Forall_app. split; [constructor; [cbn; lia|apply gt_ge; exact Hmr]|apply gt_ge; assumption].
      * destruct (seek_least_spec root (S (depth n)) (S h') lo n (S (length ea)) par Hp) as (lfn & i' & par' & lo' & Hsg & Hpl & Hll & Hlen & _ & Hint).
        { rewrite (wfn_depth t _ _ _ Hw0). lia. } { intros _. cbn. rewrite app_length. cbn. lia. }
        destruct (Hint eq_refl) as (-> & Hlo' & Hcb' & Hca'). specialize (Hca' cr Hk2).
        rewrite Hsg. eexists _, _, _, _, _. split; [reflexivity|]. split.
        { eapply (cs_leaf root lfn 0 false par'); eauto. lia. }
        cbn [firstn skipn]. rewrite app_nil_r. rewrite Hcb', Hca', Hlft, Hlo, Hro'. split.
        -- unfold all_le. rewrite !Forall_app. repeat split; try (now apply lt_le).
           ++ apply all_lt_app in Hml. apply lt_le. tauto.
           ++ apply all_lt_app in Hml. apply lt_le. tauto.
           ++ constructor; [cbn; lia|constructor].
        -- rewrite app_assoc. apply all_gt_app. split; assumption.
  - (* the key is not in this node *)
    pose proof Hw as Hw0.
    apply wfn_inv in Hw as (Hb & [(-> & -> & ->)|(-> & h' & -> & Hk & Hall)]).
    + eexists _, _, _, _, _. split; [reflexivity|]. split.
      { eapply (cs_leaf root _ (length ea) before par); eauto; cbn [n_elts]; rewrite ?app_length; cbn [length]; lia. }
      cbn [n_elts]. rewrite firstn_app_exact, skipn_app_exact by reflexivity.
      apply split_ok_strict; [apply all_lt_app|apply all_gt_app]; auto.
    + destruct (node_decomp1 (ea ++ eb) ks (length ea) Hk) as (ea' & eb' & ka & c & kb & He & -> & H1 & H2 & H3).
      { rewrite app_length. lia. }
      destruct (app_eq_len _ _ _ _ He H1) as (-> & ->).
      assert (Hkc : nth_error (ka ++ c :: kb) (length ea) = Some c) by (now rewrite <- H2, nth_error_app_mid).
      rewrite Hkc.
      pose (n := Node false (ea ++ eb) (ka ++ c :: kb)).
      destruct (kid_sorted ea eb ka c kb H2 H3 Hs) as (Hcs & Hzl & Hzr & _ & _).
      assert (Hp' : path root c h' (t_min t) ((n, length ea) :: par)) by (econstructor; [exact Hp|exact Hkc]).
      destruct (IH h' (t_min t) c ((n, length ea) :: par) Hp' ltac:(lia)) as (n' & idx & par' & bef & aft & Hr & Hcst & Hsp).
      * cbn [ctx_before]. apply all_lt_app. split; [assumption|]. unfold n. rewrite left_of_app by assumption.
        apply zipl_lt; assumption.
      * cbn [ctx_after]. apply all_gt_app. split; [|assumption]. unfold n. rewrite right_of_app by assumption.
        apply zipr_gt; assumption.
      * exists n', idx, par', bef, aft. auto.
Qed.

(* ---------------------------------------------------------------- anchors: the reference semantics *)

(* the position of a cursor in a reference sorted dictionary: on a boundary, or just before /
   just after a key (which need not be present) *)
Inductive anchor := AL | AR | AB (k : Z) | AA (k : Z).

Definition anchor_of (c : cursor) : anchor :=
  match c_pkey c with
  | Some k => if (if c_pkread c then negb (c_inc c) else c_inc c) then AB k else AA k
  | None => if (c_idx c =? 0)%nat then AL else AR
  end.

(* (bef, aft) is the split of the sorted list l at the anchor *)
Definition pos_ok (a : anchor) (l bef aft : list elt) : Prop :=
  bef ++ aft = l /\
  match a with
  | AL => bef = []
  | AR => aft = []
  | AB k => all_lt bef k /\ all_ge aft k
  | AA k => all_le bef k /\ all_gt aft k
  end.

Definition cinv (root : tree) (c : cursor) : Prop :=
  (c_node c = None /\ c_pkey c = None /\ c_par c = [] /\ c_rec c = false /\ (c_idx c = 0%nat \/ c_idx c = 1%nat))
  \/ (c_parked c = true /\ exists k, c_pkey c = Some k)
  \/ (c_parked c = false /\ exists n k bef aft,
        c_node c = Some n /\ c_pkey c = Some k /\
        cstate root n (c_idx c) (c_rec c) (c_inc c) (c_par c) bef aft /\
        pos_ok (anchor_of c) (elements root) bef aft).

Lemma cstate_wf root n i rec inc par bef aft : cstate root n i rec inc par bef aft -> exists lo h, wfn lo h n.
Proof. intros H; inversion H; subst; eauto using path_wf. Qed.

Lemma cstate_leaf_inc root n i inc inc' par bef aft :
  cstate root n i false inc par bef aft -> cstate root n i false inc' par bef aft.
Proof. intros H; inversion H; subst. econstructor; eauto. Qed.

Lemma sorted_after l bef x aft : ksorted l -> l = bef ++ x :: aft -> all_le (bef ++ [x]) (fst x) /\ all_gt aft (fst x).
Proof.
  intros Hs ->. apply ksorted_mid in Hs as (H1 & H2 & _). split; [|assumption].
  unfold all_le. apply Forall_app. split; [now apply lt_le|constructor; [lia|constructor]].
Qed.

Lemma sorted_before l bef x aft : ksorted l -> l = bef ++ x :: aft -> all_lt bef (fst x) /\ all_ge (x :: aft) (fst x).
Proof.
  intros Hs ->. apply ksorted_mid in Hs as (H1 & H2 & _). split; [assumption|].
  constructor; [lia|now apply gt_ge].
Qed.

Lemma finish_next root n i rec inc par bef aft pk :
  cstate root n i rec inc par bef aft -> ksorted (elements root) ->
  exists c',
    (do (c', o) <- next_loop (loop_fuel n par) n i rec inc par;
     Ok (mkC (c_node c') (c_idx c') (c_rec c') (c_inc c') (c_par c') false (c_pkey c')
           (match o with Some _ => true | None => pk end), o)) = Ok (c', hd_error aft) /\
    cinv root c' /\ c_parked c' = false /\
    anchor_of c' = match aft with x :: _ => AA (fst x) | [] => AR end.
Proof.
  intros Hcs Hs. destruct (cstate_wf _ _ _ _ _ _ _ _ Hcs) as (lo & h & Hw).
  pose proof (next_loop_spec root n i rec inc par bef aft (loop_fuel n par) h lo Hcs Hw) as Hn.
  rewrite (loop_fuel_ok _ _ _ _ Hw) in *. specialize (Hn (le_n _)).
  pose proof (cstate_elements _ _ _ _ _ _ _ _ Hcs) as He.
  destruct aft as [|x aft'].
  - rewrite Hn. cbn [bind boundary_r c_node c_idx c_rec c_inc c_par c_pkey hd_error].
    eexists. split; [reflexivity|]. split; [left; cbn; auto 10|]. split; reflexivity.
  - destruct Hn as (n' & i' & rec' & par' & -> & Hcs'). cbn [bind c_node c_idx c_rec c_inc c_par c_pkey hd_error].
    eexists. split; [reflexivity|]. split; [|split; reflexivity].
    right. right. split; [reflexivity|]. exists n', (fst x), (bef ++ [x]), aft'. cbn.
    split; [reflexivity|]. split; [reflexivity|]. split; [assumption|]. split.
    + rewrite He. now rewrite <- app_assoc.
    + eapply sorted_after; eauto.
Qed.

Lemma finish_prev root n i rec inc par bef aft pk :
  cstate root n i rec inc par bef aft -> ksorted (elements root) ->
  exists c',
    (do (c', o) <- prev_loop (loop_fuel n par) n i rec inc par;
     Ok (mkC (c_node c') (c_idx c') (c_rec c') (c_inc c') (c_par c') false (c_pkey c')
           (match o with Some _ => true | None => pk end), o)) = Ok (c', hd_error (rev bef)) /\
    cinv root c' /\ c_parked c' = false /\
    anchor_of c' = match rev bef with x :: _ => AB (fst x) | [] => AL end.
Proof.
  intros Hcs Hs. destruct (cstate_wf _ _ _ _ _ _ _ _ Hcs) as (lo & h & Hw).
  pose proof (prev_loop_spec root n i rec inc par bef aft (loop_fuel n par) h lo Hcs Hw) as Hn.
  rewrite (loop_fuel_ok _ _ _ _ Hw) in *. specialize (Hn (le_n _)).
  pose proof (cstate_elements _ _ _ _ _ _ _ _ Hcs) as He.
  destruct Hn as [(-> & Hr)|(bef' & x & n' & i' & rec' & par' & -> & Hr & Hcs')].
  - rewrite Hr. cbn [bind boundary_l c_node c_idx c_rec c_inc c_par c_pkey hd_error rev].
    eexists. split; [reflexivity|]. split; [left; cbn; auto 10|]. split; reflexivity.
  - rewrite Hr. rewrite rev_app_distr. cbn [bind c_node c_idx c_rec c_inc c_par c_pkey hd_error rev app].
    eexists. split; [reflexivity|]. split; [|split; reflexivity].
    right. right. split; [reflexivity|]. exists n', (fst x), bef', (x :: aft). cbn.
    split; [reflexivity|]. split; [reflexivity|]. split; [assumption|]. split.
    + rewrite He. now rewrite <- app_assoc.
    + eapply sorted_before; eauto. rewrite He. now rewrite <- app_assoc.
Qed.

(* seeking from the root *)
Lemma seek_root_spec root h key before :
  wfr t h root -> ksorted (elements root) ->
  exists n idx par bef aft,
    seek_loop (S (depth root)) key before root [] = Ok (n, idx, par) /\
    cstate root n idx false before par bef aft /\
    pos_ok (if before then AB key else AA key) (elements root) bef aft.
Proof.
  intros Hw Hs. unfold wfr in Hw.
  destruct (seek_loop_spec root key before Hs (S (depth root)) h (root_lo root) root [] (path_nil root h Hw))
    as (n & idx & par & bef & aft & Hr & Hcs & Hsp); try constructor.
  { rewrite (wfn_depth t _ _ _ Hw). lia. }
  exists n, idx, par, bef, aft. split; [assumption|]. split; [assumption|].
  split; [symmetry; eapply cstate_elements; eauto|]. destruct before; exact Hsp.
Qed.

Theorem cursor_seek_spec root h key before :
  wfr t h root -> ksorted (elements root) ->
  exists c', cursor_seek root key before = Ok c' /\ cinv root c' /\ c_parked c' = false /\
             anchor_of c' = if before then AB key else AA key.
Proof.
  intros Hw Hs. destruct (seek_root_spec root h key before Hw Hs) as (n & idx & par & bef & aft & Hr & Hcs & Hp).
  unfold cursor_seek. rewrite Hr. cbn [bind]. eexists. split; [reflexivity|].
  assert (Ha : anchor_of (mkC (Some n) idx false before par false (Some key) false) = if before then AB key else AA key).
  { unfold anchor_of. cbn. reflexivity. }
  split; [|split; [reflexivity|exact Ha]].
  right. right. split; [reflexivity|]. exists n, key, bef, aft. cbn [c_node c_pkey c_idx c_rec c_inc c_par].
  split; [reflexivity|]. split; [reflexivity|]. split; [assumption|]. rewrite Ha. exact Hp.
Qed.

(* the position denoted by an anchor exists and the cursor machine delivers from it *)
Theorem cursor_next_spec root h c :
  wfr t h root -> ksorted (elements root) -> cinv root c ->
  exists bef aft c',
    pos_ok (anchor_of c) (elements root) bef aft /\
    cursor_next root c = Ok (c', hd_error aft) /\
    cinv root c' /\ c_parked c' = false /\
    anchor_of c' = match aft with x :: _ => AA (fst x) | [] => AR end.
Proof.
  intros Hw Hs [(Hn & Hk & Hpar & Hrec & Hidx)|[(Hpk & k & Hk)|(Hpk & n & k & bef & aft & Hn & Hk & Hcs & Hpos)]].
  - (* on a boundary *)
    unfold cursor_next, maybe_unpark. rewrite Hk.
    assert (Hu : exists c1, (if c_parked c then Ok (mkC (c_node c) (c_idx c) (c_rec c) (c_inc c) (c_par c) false None (c_pkread c)) else Ok c) = Ok c1
                 /\ c_node c1 = None /\ c_idx c1 = c_idx c /\ c_rec c1 = false /\ c_par c1 = [] /\ c_inc c1 = c_inc c /\ c_pkread c1 = c_pkread c).
    { destruct (c_parked c); eexists; (split; [reflexivity|]); cbn; auto 10. }
    destruct Hu as (c1 & -> & Hn1 & Hi1 & Hr1 & Hp1 & Hinc1 & Hpr1). cbn [bind]. rewrite Hn1, Hi1.
    unfold anchor_of. rewrite Hk.
    destruct Hidx as [Hi|Hi]; rewrite Hi; cbn [Nat.eqb negb].
    + (* left boundary: walk to the least leaf *)
      rewrite Hp1, Hr1.
      unfold wfr in Hw.
      destruct (seek_least_spec root (S (depth root)) h (root_lo root) root 0 [] (path_nil root h Hw)) as (lf & i' & par' & lo' & Hsl & Hpl & Hll & Hlen & Hleaf & Hint).
      { rewrite (wfn_depth t _ _ _ Hw). lia. } { intros; lia. }
      rewrite Hsl. cbn [bind].
      assert (Hcs : cstate root lf i' false (c_inc c1) par' [] (elements root)).
      { destruct (n_leaf root) eqn:Hrl.
        - destruct (Hleaf eq_refl) as (-> & -> & ->).
          pose proof (cs_leaf root root 0 (c_inc c1) [] _ Hpl Hrl ltac:(lia)) as Hc. cbn in Hc.
          rewrite app_nil_r in Hc. destruct root as [lf0 es0 ks0]. cbn in Hrl. subst lf0. exact Hc.
        - destruct (Hint eq_refl) as (-> & _ & Hcb & Hca).
          destruct h as [|h0]; [pose proof (wfn_pos t Ht _ _ _ Hw); lia|].
          destruct h0 as [|h0]; [apply (wfn_leaf_iff t Ht) in Hw; intuition congruence|].
          destruct (node_split _ _ root 0 Hw Hrl ltac:(lia)) as (kid & Hkid & _ & He).
          pose proof (cs_leaf root lf 0 (c_inc c1) par' _ Hpl Hll ltac:(lia)) as Hc. cbn [firstn skipn] in Hc.
          rewrite app_nil_r, Hcb, (Hca kid Hkid) in Hc. cbn [ctx_before ctx_after] in Hc.
          rewrite left_of_zero in *. cbn [app] in *. rewrite ?app_nil_r in Hc. rewrite <- He in Hc. exact Hc. }
      destruct (finish_next root lf i' false (c_inc c1) par' [] (elements root) (c_pkread c1) Hcs Hs) as (c' & Hr & Hci & Hpk' & Han).
      exists [], (elements root), c'. split; [split; reflexivity|]. auto.
    + (* right boundary *)
      exists (elements root), [], (mkC None 1 (c_rec c1) (c_inc c1) (c_par c1) false None (c_pkread c1)).
      split; [split; [apply app_nil_r|reflexivity]|]. split; [reflexivity|]. split; [|split; reflexivity].
      left. cbn. auto 10.
  - (* parked on a key: seek again, then step *)
    unfold cursor_next, maybe_unpark. rewrite Hpk, Hk.
    set (before := if c_pkread c then negb (c_inc c) else c_inc c).
    destruct (seek_root_spec root h k before Hw Hs) as (n & idx & par & bef & aft & Hr & Hcs & Hp).
    unfold cursor_seek. rewrite Hr. cbn [bind c_node c_idx c_rec c_inc c_par c_pkread].
    apply cstate_leaf_inc with (inc' := c_inc c) in Hcs.
    destruct (finish_next root n idx false (c_inc c) par bef aft false Hcs Hs) as (c' & Hr' & Hci & Hpk' & Han).
    exists bef, aft, c'. split; [|auto]. unfold anchor_of. rewrite Hk. fold before. exact Hp.
  - (* unparked inside the tree *)
    unfold cursor_next, maybe_unpark. rewrite Hpk. cbn [bind]. rewrite Hn.
    destruct (finish_next root n (c_idx c) (c_rec c) (c_inc c) (c_par c) bef aft (c_pkread c) Hcs Hs) as (c' & Hr' & Hci & Hpk' & Han).
    exists bef, aft, c'. auto.
Qed.

Theorem cursor_prev_spec root h c :
  wfr t h root -> ksorted (elements root) -> cinv root c ->
  exists bef aft c',
    pos_ok (anchor_of c) (elements root) bef aft /\
    cursor_prev root c = Ok (c', hd_error (rev bef)) /\
    cinv root c' /\ c_parked c' = false /\
    anchor_of c' = match rev bef with x :: _ => AB (fst x) | [] => AL end.
Proof.
  intros Hw Hs [(Hn & Hk & Hpar & Hrec & Hidx)|[(Hpk & k & Hk)|(Hpk & n & k & bef & aft & Hn & Hk & Hcs & Hpos)]].
  - (* on a boundary *)
    unfold cursor_prev, maybe_unpark. rewrite Hk.
    assert (Hu : exists c1, (if c_parked c then Ok (mkC (c_node c) (c_idx c) (c_rec c) (c_inc c) (c_par c) false None (c_pkread c)) else Ok c) = Ok c1
                 /\ c_node c1 = None /\ c_idx c1 = c_idx c /\ c_rec c1 = false /\ c_par c1 = [] /\ c_inc c1 = c_inc c /\ c_pkread c1 = c_pkread c).
    { destruct (c_parked c); eexists; (split; [reflexivity|]); cbn; auto 10. }
    destruct Hu as (c1 & -> & Hn1 & Hi1 & Hr1 & Hp1 & Hinc1 & Hpr1). cbn [bind]. rewrite Hn1, Hi1.
    unfold anchor_of. rewrite Hk.
    destruct Hidx as [Hi|Hi]; rewrite Hi; cbn [Nat.eqb negb].
    + (* left boundary *)
      exists [], (elements root), (mkC None 0 (c_rec c1) (c_inc c1) (c_par c1) false None (c_pkread c1)).
      split; [split; reflexivity|]. split; [reflexivity|]. split; [|split; reflexivity].
      left. cbn. auto 10.
    + (* right boundary: walk to the greatest leaf *)
      rewrite Hp1, Hr1.
      unfold wfr in Hw.
      destruct (seek_greatest_spec root (S (depth root)) h (root_lo root) root (length (n_elts root)) [] (path_nil root h Hw)) as (lf & i' & par' & lo' & Hsl & Hpl & Hll & Hlen & Hleaf & Hint).
      { rewrite (wfn_depth t _ _ _ Hw). lia. } { intros; lia. }
      rewrite Hsl. cbn [bind].
      assert (Hcs : cstate root lf i' false (c_inc c1) par' (elements root) []).
      { destruct (n_leaf root) eqn:Hrl.
        - destruct (Hleaf eq_refl) as (-> & -> & ->).
          pose proof (cs_leaf root root (length (n_elts root)) (c_inc c1) [] _ Hpl Hrl (le_n _)) as Hc.
          rewrite firstn_all, skipn_all in Hc. cbn in Hc.
          destruct root as [lf0 es0 ks0]. cbn in Hrl. subst lf0. exact Hc.
        - destruct (Hint eq_refl) as (-> & _ & Hca & Hcb).
          destruct h as [|h0]; [pose proof (wfn_pos t Ht _ _ _ Hw); lia|].
          destruct h0 as [|h0]; [apply (wfn_leaf_iff t Ht) in Hw; intuition congruence|].
          destruct (node_split _ _ root (length (n_elts root)) Hw Hrl (le_n _)) as (kid & Hkid & _ & He).
          pose proof (cs_leaf root lf (length (n_elts lf)) (c_inc c1) par' _ Hpl Hll (le_n _)) as Hc.
          rewrite firstn_all, skipn_all in Hc. cbn [app] in Hc.
          rewrite (Hcb kid Hkid), Hca in Hc. cbn [ctx_before ctx_after] in Hc.
          rewrite right_of_end in *. cbn [app] in *. rewrite ?app_nil_r in *. rewrite <- He in Hc. exact Hc. }
      destruct (finish_prev root lf i' false (c_inc c1) par' (elements root) [] (c_pkread c1) Hcs Hs) as (c' & Hr & Hci & Hpk' & Han).
      exists (elements root), [], c'. split; [split; [apply app_nil_r|reflexivity]|]. auto.
  - (* parked on a key: seek again, then step *)
    unfold cursor_prev, maybe_unpark. rewrite Hpk, Hk.
    set (before := if c_pkread c then negb (c_inc c) else c_inc c).
    destruct (seek_root_spec root h k before Hw Hs) as (n & idx & par & bef & aft & Hr & Hcs & Hp).
    unfold cursor_seek. rewrite Hr. cbn [bind c_node c_idx c_rec c_inc c_par c_pkread].
    apply cstate_leaf_inc with (inc' := c_inc c) in Hcs.
    destruct (finish_prev root n idx false (c_inc c) par bef aft false Hcs Hs) as (c' & Hr' & Hci & Hpk' & Han).
    exists bef, aft, c'. split; [|auto]. unfold anchor_of. rewrite Hk. fold before. exact Hp.
  - (* unparked inside the tree *)
    unfold cursor_prev, maybe_unpark. rewrite Hpk. cbn [bind]. rewrite Hn.
    destruct (finish_prev root n (c_idx c) (c_rec c) (c_inc c) (c_par c) bef aft (c_pkread c) Hcs Hs) as (c' & Hr' & Hci & Hpk' & Han).
    exists bef, aft, c'. auto.
Qed.

(* parking (what every mutation does to the registered cursors) keeps the anchor, and the parked
   cursor is valid for whatever tree the mutation produces *)
Lemma cursor_park_spec root c : cinv root c ->
  anchor_of (cursor_park c) = anchor_of c /\ forall root', cinv root' (cursor_park c).
Proof.
  intros H. split; [reflexivity|]. intros root'.
  destruct H as [(Hn & Hk & Hpar & Hrec & Hidx)|[(Hpk & k & Hk)|(Hpk & n & k & bef & aft & Hn & Hk & Hcs & Hpos)]].
  - left. cbn. auto.
  - right. left. cbn. eauto.
  - right. left. cbn. eauto.
Qed.

Lemma cursor_boundary_spec root c :
  cinv root (cursor_seek_first c) /\ anchor_of (cursor_seek_first c) = AL /\
  cinv root (cursor_seek_last c) /\ anchor_of (cursor_seek_last c) = AR /\
  cinv root new_cursor /\ anchor_of new_cursor = AL.
Proof. repeat split; try reflexivity; left; cbn; auto 10. Qed.

End CUR.

(* the split of a sorted list at an anchor is unique: pos_ok defines THE reference position *)
Lemma pos_ok_unique a l bef aft bef' aft' :
  ksorted l -> pos_ok a l bef aft -> pos_ok a l bef' aft' -> bef = bef' /\ aft = aft'.
Proof.
  intros Hs (He & Ha) (He' & Ha').
  assert (Hlen : length bef = length bef' -> bef = bef' /\ aft = aft').
  { intros Hl. rewrite <- He' in He. destruct (app_eq_len _ _ _ _ He) as (-> & ->); auto. }
  destruct a.
  - subst. cbn in *. auto.
  - subst. rewrite !app_nil_r in *. subst. auto.
  - (* before k *)
    destruct Ha as (H1 & H2). destruct Ha' as (H1' & H2'). apply Hlen.
    destruct (Nat.lt_trichotomy (length bef) (length bef')) as [Hlt|[Heq|Hlt]]; [|assumption|]; exfalso.
    + (* bef' is longer: its element at position |bef| is < k, but it lies in aft (>= k) *)
      rewrite <- He' in He. clear He' Hs Hlen.
      revert bef' He Hlt H1'. induction bef as [|a bef IH]; intros [|a' bef'] He Hlt H1'; cbn in *; try lia.
      * subst aft. inversion H2; subst. inversion H1'; subst. lia.
      * inversion He; subst. inversion H1; subst. inversion H1'; subst. eapply IH; eauto. lia.
    + rewrite <- He' in He. clear He' Hs Hlen. symmetry in He.
      revert bef He Hlt H1. induction bef' as [|a bef' IH]; intros [|a' bef] He Hlt H1; cbn in *; try lia.
      * subst aft'. inversion H2'; subst. inversion H1; subst. lia.
      * inversion He; subst. inversion H1; subst. inversion H1'; subst. eapply IH; eauto. lia.
  - destruct Ha as (H1 & H2). destruct Ha' as (H1' & H2'). apply Hlen.
    destruct (Nat.lt_trichotomy (length bef) (length bef')) as [Hlt|[Heq|Hlt]]; [|assumption|]; exfalso.
    + rewrite <- He' in He. clear He' Hs Hlen.
      revert bef' He Hlt H1'. induction bef as [|a bef IH]; intros [|a' bef'] He Hlt H1'; cbn in *; try lia.
      * subst aft. inversion H2; subst. inversion H1'; subst. lia.
      * inversion He; subst. inversion H1; subst. inversion H1'; subst. eapply IH; eauto. lia.
    + rewrite <- He' in He. clear He' Hs Hlen. symmetry in He.
      revert bef He Hlt H1. induction bef' as [|a bef' IH]; intros [|a' bef] He Hlt H1; cbn in *; try lia.
      * subst aft'. inversion H2'; subst. inversion H1; subst. lia.
      * inversion He; subst. inversion H1; subst. inversion H1'; subst. eapply IH; eauto. lia.
Qed.
