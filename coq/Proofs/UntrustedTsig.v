(* C04 for signed messages, on C14's model (Model/TsigM.v: dns.tsig.validate / _digest /
   _maybe_start_digest / get_context, TSIG.from_wire_parser, the TSIG and OPT paths of
   dns.message._WireReader with every keyring form): reading an arbitrary octet string with a real
   key - for ANY keyed hash function - ends in a message or in one of the library's errors; no
   struct.error / AssertionError / ValueError / NotImplementedError (the latter since /repo fix
   ed7f7ab, which this proof found: _maybe_start_digest in multi-envelope mode). *)
From DV Require Import Base.Prelude Model.NameM.
From DV Require Model.TsigM Proofs.NameWire Proofs.ParserSafe Proofs.UntrustedSchema Proofs.UntrustedText.
Import TsigM.
Open Scope Z_scope.

Definition tlib (e : Z) : Prop :=
  is_formerror e = true \/ e = eBadTime \/ e = eBadSignature \/ e = eBadKey \/ e = eBadAlgorithm
  \/ e = ePeerError \/ e = ePeerBadKey \/ e = ePeerBadSignature \/ e = ePeerBadTime \/ e = ePeerBadTruncation
  \/ e = eUnknownTSIGKey \/ e = eNeedAbsolute \/ e = eUnsupported
  (* from Name.relativize(origin) of an owner name (dns.name errors; unreachable for names read from the wire) *)
  \/ e = NameM.eLabelTooLong \/ e = NameM.eEmptyLabel.

Ltac tl := first [ reflexivity | left; reflexivity | right; tl ].

(* Ok or a library error *)
Definition G {A} (r : res A) : Prop :=
  match r with Ok _ => True | Lib e => tlib e | Internal _ => False end.
(* Ok or the FormError family *)
Definition FE {A} (r : res A) : Prop :=
  match r with Ok _ => True | Lib e => is_formerror e = true | Internal _ => False end.

Lemma fe_g {A} (r : res A) : FE r -> G r.
Proof. destruct r; cbn; auto. intros H. left. exact H. Qed.
Lemma g_bind {A B} (r : res A) (k : A -> res B) : G r -> (forall a, r = Ok a -> G (k a)) -> G (bind r k).
Proof. destruct r as [a|e|e]; cbn [bind]; auto. Qed.
Lemma fe_bind {A B} (r : res A) (k : A -> res B) : FE r -> (forall a, r = Ok a -> FE (k a)) -> FE (bind r k).
Proof. destruct r as [a|e|e]; cbn [bind]; auto. Qed.
Lemma bind_ok {A B} (r : res A) (k : A -> res B) b : bind r k = Ok b -> exists a, r = Ok a /\ k a = Ok b.
Proof. destruct r as [a|e|e]; cbn [bind]; intros H; try discriminate. eauto. Qed.
Tactic Notation "ib" ident(H) "as" ident(a) ident(E) := apply bind_ok in H; destruct H as (a & E & H).

(* what a TSIG rdata read from the wire satisfies *)
Definition tsig_inv (t : tsig) : Prop :=
  in_u16 (t_fudge t) = true /\ in_u16 (t_oid t) = true /\ 0 <= t_error t <= 4095
  /\ zlen (t_mac t) <= 65535 /\ zlen (t_other t) <= 65535.

Lemma mk_tsig_inv alg time fudge mac oid err other t :
  mk_tsig alg time fudge mac oid err other = Ok t ->
  in_u16 (t_fudge t) = true /\ in_u16 (t_oid t) = true /\ 0 <= t_error t <= 4095
  /\ t_mac t = mac /\ t_other t = other.
Proof.
  unfold mk_tsig. destruct (negb (in_u48 time)); [discriminate|].
  destruct (negb (in_u16 fudge)) eqn:E1; [discriminate|].
  destruct (negb (in_u16 oid)) eqn:E2; [discriminate|].
  destruct (negb ((0 <=? err) && (err <=? 4095))) eqn:E3; [discriminate|].
  intros X; inversion X; subst; cbn.
  apply negb_false_iff in E1, E2, E3. apply andb_true_iff in E3 as [E3 E4].
  repeat split; auto; lia.
Qed.


Section Wire.
  Variable w : bytes.
  Hypothesis Hw : ParserSafe.bytes_ok w.

  Lemma fe_get_bytes endp pos n : FE (get_bytes w endp pos n).
  Proof. unfold get_bytes. destruct (Nat.ltb _ _); [reflexivity|exact Logic.I]. Qed.

  Lemma get_bytes_ok endp pos n b p : get_bytes w endp pos n = Ok (b, p) ->
    (length b <= n)%nat /\ ParserSafe.bytes_ok b.
  Proof.
    unfold get_bytes. destruct (Nat.ltb _ _); [discriminate|]. intros E; inversion E; subst. split.
    - rewrite firstn_length. lia.
    - apply ParserSafe.bytes_ok_firstn, ParserSafe.bytes_ok_skipn, Hw.
  Qed.

  Lemma fe_get_uint endp pos n : FE (get_uint w endp pos n).
  Proof. unfold get_uint. apply fe_bind; [apply fe_get_bytes|intros; exact Logic.I]. Qed.

  Lemma get_uint2_bound endp pos v p : get_uint w endp pos 2 = Ok (v, p) -> 0 <= v <= 65535.
  Proof.
    unfold get_uint. intros E. ib E as bp Eb. destruct bp as [b q]. inversion E; subst. cbn [fst].
    apply get_bytes_ok in Eb as [Hl Hb]. unfold ParserSafe.bytes_ok in Hb.
    destruct b as [|x [|y [|z r]]]; cbn in Hl; try lia; cbn [be_val].
    - lia.
    - inversion Hb; subst. lia.
    - inversion Hb as [|? ? Hx Hr]; subst. inversion Hr; subst. lia.
  Qed.

  Lemma fe_get_name endp pos : FE (get_name w endp pos).
  Proof.
    unfold get_name.
    pose proof (UntrustedSchema.nm_from_wire_family (firstn endp w) pos (ParserSafe.bytes_ok_firstn w endp Hw)) as F.
    pose proof (NameWire.from_wire_total (firstn endp w) pos) as NI.
    unfold NameM.from_wire in *.
    destruct (Nat.ltb (length (firstn endp w)) pos); [reflexivity|].
    pose proof (UntrustedSchema.fw_go_shape (firstn endp w) (ParserSafe.bytes_ok_firstn w endp Hw)
                  (NameM.fw_fuel (firstn endp w) pos) {| cur := pos; furthest := pos |} pos [] (Forall_nil _)) as S.
    destruct (NameM.fw_go (firstn endp w) (NameM.fw_fuel (firstn endp w) pos) {| cur := pos; furthest := pos |} pos []) as [[ls p]|e|e].
    - destruct S as (body & -> & Hb).
      destruct (UntrustedSchema.labels_name body Hb) as [E|E]; unfold label in *; rewrite E; cbn [bind]; [exact Logic.I|reflexivity].
    - cbn [bind FE]. destruct S as [-> | [-> | ->]]; reflexivity.
    - exfalso. eapply NI; reflexivity.
  Qed.

  Lemma fe_get_counted2 endp pos : FE (get_counted2 w endp pos).
  Proof. unfold get_counted2. apply fe_bind; [apply fe_get_uint|intros; apply fe_get_bytes]. Qed.

  Lemma get_counted2_len endp pos b p : get_counted2 w endp pos = Ok (b, p) -> zlen b <= 65535.
  Proof.
    unfold get_counted2. intros E. ib E as lp El. destruct lp as [l q]. cbn [fst snd] in E.
    apply get_uint2_bound in El. apply get_bytes_ok in E as [E _]. unfold zlen. lia.
  Qed.

  Lemma fe_wrap {A} (r : res A) : FE (wrap_formerror r).
  Proof.
    destruct r as [a|e|e]; cbn; auto. destruct (is_formerror e) eqn:E; cbn; auto.
  Qed.

  Lemma tsig_from_wire_ok endp pos : FE (tsig_from_wire w endp pos) /\
    forall t, tsig_from_wire w endp pos = Ok t -> tsig_inv t.
  Proof.
    unfold tsig_from_wire. split.
    - apply fe_bind; [apply fe_wrap|]. intros t _. destruct (Nat.eqb _ _); [exact Logic.I|reflexivity].
    - intros t E. ib E as tq Ew. destruct (Nat.eqb _ _); [|discriminate]. inversion E; subst.
      match type of Ew with wrap_formerror ?r = _ => destruct r as [a|e|e] eqn:Er end; cbn in Ew;
        [|destruct (is_formerror e); discriminate|discriminate].
      inversion Ew; subst. clear Ew.
      ib Er as ap E1. ib Er as tp E2. ib Er as fp E3. ib Er as mp E4. ib Er as ip E5. ib Er as ep E6.
      ib Er as op E7. ib Er as t0 E8. inversion Er; subst. cbn [fst].
      apply mk_tsig_inv in E8 as (A1 & A2 & A3 & A4 & A5).
      destruct mp as [mac mq]. destruct op as [oth oq]. cbn [fst] in *.
      apply get_counted2_len in E4. apply get_counted2_len in E7.
      unfold tsig_inv. rewrite A4, A5. repeat split; auto; lia.
  Qed.

End Wire.

(* ---------- dns.tsig ---------- *)
Section Tsig.
  Variable H : hashid -> bytes -> bytes -> bytes.

  Lemma to_wire_none n c : match NameM.to_wire n None c with Ok _ => True | Lib e => e = eNeedAbsolute | Internal _ => False end.
  Proof. unfold NameM.to_wire. destruct (is_absolute n); [exact Logic.I|reflexivity]. Qed.

  Lemma pack_u16_ok v : 0 <= v <= 65535 -> pack_u16 v = Ok (u16 v).
  Proof. intros Hv. unfold pack_u16, in_u16. replace (0 <=? v) with true by lia. replace (v <? 65536) with true by lia. reflexivity. Qed.

  Lemma get_context_out k : match get_context k with Ok _ => True | Lib e => e = eUnsupported \/ e = eNotImplemented | Internal _ => False end.
  Proof.
    unfold get_context. destruct (NameM.name_eqb _ _); [left; reflexivity|].
    destruct (assoc_name hashes (kalg k)) as [[h sz]|]; [exact Logic.I|right; reflexivity].
  Qed.

  Definition first_of (ctx : option hctx) (multi : bool) : bool :=
    negb (match ctx with Some _ => multi | None => false end).

  (* _digest: a context, a library error, or NotImplementedError from get_context (which validate
     turns into BadAlgorithm) *)
  Lemma digest_out wire k rd time rmac ctx multi : tsig_inv rd -> zlen rmac <= 65535 ->
    match digest wire k rd time rmac ctx multi with
    | Ok _ => True
    | Lib e => tlib e \/ e = eNotImplemented
    | Internal _ => False
    end.
  Proof.
    intros (I1 & I2 & I3 & I4 & I5) Hr. unfold digest. fold (first_of ctx multi).
    assert (P16 : forall v, in_u16 v = true -> pack_u16 v = Ok (u16 v)).
    { intros v Hv. unfold pack_u16. rewrite Hv. reflexivity. }
    rewrite (P16 _ I2). unfold time_encoded. rewrite I1.
    replace (zlen (t_other rd) >? 65535) with false by lia.
    assert (E16 : in_u16 (t_error rd) = true) by (unfold in_u16; apply andb_true_iff; split; lia).
    rewrite E16.
    destruct (first_of ctx multi) eqn:Ef.
    - pose proof (get_context_out k) as C.
      destruct (get_context k) as [c|e|e]; cbn [bind]; [|destruct C as [->| ->]; [left; tl|right; reflexivity]|contradiction].
      assert (S0 : exists c0, (match rmac with [] => Ok c | _ :: _ => do l <- pack_u16 (zlen rmac); Ok (update (update c l) rmac) end) = Ok c0).
      { destruct rmac as [|x r]; [eauto|]. rewrite pack_u16_ok by (unfold zlen in *; lia). cbn [bind]. eauto. }
      destruct S0 as [c0 ->]. cbn [bind].
      pose proof (to_wire_none (kname k) true) as T1.
      destruct (NameM.to_wire (kname k) None true) as [kn|e|e]; cbn [bind]; [|subst; left; tl|contradiction].
      pose proof (to_wire_none (kalg k) true) as T2.
      destruct (NameM.to_wire (kalg k) None true) as [an|e|e]; cbn [bind]; [|subst; left; tl|contradiction].
      exact Logic.I.
    - unfold first_of in Ef. destruct ctx as [c|]; [|discriminate]. cbn [bind]. exact Logic.I.
  Qed.

  Lemma maybe_start_digest_out k mac multi : zlen mac <= 65535 ->
    match maybe_start_digest k mac multi with
    | Ok _ => True
    | Lib e => e = eUnsupported \/ e = eNotImplemented
    | Internal _ => False
    end.
  Proof.
    intros Hm. unfold maybe_start_digest. destruct multi; [|exact Logic.I].
    pose proof (get_context_out k) as C.
    destruct (get_context k) as [c|e|e]; cbn [bind]; [|exact C|contradiction].
    rewrite pack_u16_ok by (unfold zlen in *; lia). exact Logic.I.
  Qed.

  (* try: ... except NotImplementedError: raise BadAlgorithm *)
  Lemma unimplemented_out {A} (r : res A) :
    match r with Ok _ => True | Lib e => tlib e \/ e = eNotImplemented | Internal _ => False end ->
    G (unimplemented_is_badalg r).
  Proof.
    destruct r as [a|e|e]; cbn; auto. intros [T | ->]; [|cbn; tl].
    destruct (e =? eNotImplemented); [cbn; tl|exact T].
  Qed.

  Lemma peer_error_codes err : tlib (peer_error err).
  Proof. unfold peer_error. repeat match goal with |- context [if ?b then _ else _] => destruct b end; tl. Qed.

  Lemma validate_pre_out wire k owner rd now ts : (12 <= length wire)%nat -> G (validate_pre wire k owner rd now ts).
  Proof.
    intros Hl. unfold validate_pre, get_adcount, slice.
    assert (S : exists a b, firstn (12 - 10) (skipn 10 wire) = [a; b]).
    { assert (L : (2 <= length (skipn 10 wire))%nat) by (rewrite skipn_length; lia).
      destruct (skipn 10 wire) as [|a [|b r]]; cbn in L; try lia. exists a, b. reflexivity. }
    destruct S as (a & b & ->). cbn [bind].
    destruct (a * 256 + b =? 0); [tl|].
    destruct (negb (t_error rd =? 0)); [apply peer_error_codes|].
    destruct (_ >? _); [tl|]. destruct (negb (NameM.name_eqb (kname k) owner)); [tl|].
    destruct (negb (NameM.name_eqb (kalg k) (t_alg rd))); [tl|exact Logic.I].
  Qed.

  (* dns.tsig.validate *)
  Lemma validate_out wire k owner rd now rmac ts ctx multi :
    (12 <= length wire)%nat -> tsig_inv rd -> zlen rmac <= 65535 ->
    G (validate H wire k owner rd now rmac ts ctx multi).
  Proof.
    intros Hl Hi Hr. unfold validate.
    apply g_bind; [apply validate_pre_out; exact Hl|]. intros nw _.
    apply g_bind; [apply unimplemented_out, digest_out; assumption|]. intros c _.
    apply g_bind; [unfold ctx_verify; destruct (zlist_eqb _ _); [exact Logic.I|tl]|]. intros u _.
    apply unimplemented_out. destruct Hi as (_ & _ & _ & Hm & _).
    pose proof (maybe_start_digest_out k (t_mac rd) multi Hm) as M.
    destruct (maybe_start_digest k (t_mac rd) multi); auto.
    destruct M as [-> | ->]; [left; tl|right; reflexivity].
  Qed.
End Tsig.

(* ---------- the reader ---------- *)
Section Reader.
  Variable H : hashid -> bytes -> bytes -> bytes.
  Variable w : bytes.
  Hypothesis Hw : ParserSafe.bytes_ok w.
  Variable kr : keyring.
  Variable rmac : bytes.
  Hypothesis Hr : zlen rmac <= 65535.
  Variable now : Z.
  Variable multi : bool.
  Hypothesis Hlen : (12 <= length w)%nat.

  Lemma find_key_out owner alg : G (find_key kr owner alg).
  Proof.
    unfold find_key. destruct kr as [| | |k|d]; try (cbn; tl); try exact Logic.I.
    destruct (assoc_name d owner) as [[k|sec]|]; try (cbn; tl); exact Logic.I.
  Qed.

  Lemma get_rr_out section count i st : G (get_rr H w kr rmac now multi section count i st).
  Proof.
    unfold get_rr.
    apply g_bind; [apply fe_g, fe_get_name; exact Hw|]. intros np _. cbv zeta.
    apply g_bind.
    { destruct (r_origin st) as [o|]; [|exact Logic.I]. unfold NameM.relativize.
      destruct (is_subdomain (fst np) o); [|exact Logic.I].
      pose proof (UntrustedText.mk_name_family (drop_last (length o) (fst np))) as M.
      destruct (mk_name (drop_last (length o) (fst np))) as [n|e|e]; [exact Logic.I| |contradiction].
      destruct M as [-> | [-> | ->]]; cbn; tl. }
    intros nrel _.
    apply g_bind; [apply fe_g, fe_get_uint|]. intros tp _.
    apply g_bind; [apply fe_g, fe_get_uint|]. intros cp _.
    apply g_bind; [apply fe_g, fe_get_uint|]. intros lp _.
    apply g_bind; [apply fe_g, fe_get_uint|]. intros dp _. cbv zeta.
    destruct (fst tp =? OPT).
    { destruct (_ || _); [cbn; tl|]. destruct (Nat.ltb _ _); [cbn; tl|].
      apply g_bind; [apply fe_g, fe_wrap|]. intros; exact Logic.I. }
    destruct (fst tp =? TSIG).
    { destruct (_ || _); [cbn; tl|]. destruct (Nat.ltb _ _); [cbn; tl|].
      destruct (tsig_from_wire_ok w Hw (snd dp + Z.to_nat (fst dp)) (snd dp)) as [Ft Fi].
      apply g_bind; [apply fe_g; exact Ft|]. intros rd Erd. specialize (Fi rd Erd).
      destruct (negb (fst lp =? 0)); [cbn; tl|].
      apply g_bind; [apply find_key_out|]. intros ko _.
      apply g_bind; [|intros; exact Logic.I].
      destruct ko as [k|]; [|exact Logic.I].
      apply validate_out; assumption. }
    destruct (Nat.ltb _ _); [cbn; tl|exact Logic.I].
  Qed.

  Lemma get_section_out section count : forall rem st, G (get_section H w kr rmac now multi section count rem st).
  Proof.
    induction rem as [|rem IH]; intros st; cbn [get_section]; [exact Logic.I|].
    apply g_bind; [apply get_rr_out|]. intros st1 _. apply IH.
  Qed.

  Lemma fe_get_question : forall n pos, FE (get_question w n pos).
  Proof.
    induction n as [|n IH]; intros pos; cbn [get_question]; [exact Logic.I|].
    apply fe_bind; [apply fe_get_name; exact Hw|]. intros np _.
    apply fe_bind; [apply fe_get_bytes|]. intros sp _. apply IH.
  Qed.

  (* dns.message.from_wire(wire, keyring, request_mac, tsig_ctx, multi) on a signed message *)
  Theorem signed_message_outcome origin ctx : G (read_gen H origin w kr rmac ctx multi now).
  Proof.
    unfold read_gen. replace (Nat.ltb (length w) 12) with false by (symmetry; apply Nat.ltb_ge; exact Hlen).
    apply g_bind; [apply fe_g, fe_get_uint|]. intros fl _.
    apply g_bind; [apply fe_g, fe_get_uint|]. intros qd _.
    apply g_bind; [apply fe_g, fe_get_uint|]. intros an _.
    apply g_bind; [apply fe_g, fe_get_uint|]. intros au _.
    apply g_bind; [apply fe_g, fe_get_uint|]. intros ad _.
    destruct (_ =? 5); [cbn; tl|].
    apply g_bind; [apply fe_g, fe_get_question|]. intros p _. cbv zeta.
    apply g_bind; [apply get_section_out|]. intros st1 _.
    apply g_bind; [apply get_section_out|]. intros st2 _.
    apply g_bind; [apply get_section_out|]. intros st3 _.
    destruct (negb (Nat.eqb _ _)); [cbn; tl|exact Logic.I].
  Qed.
End Reader.

(* without the length hypothesis: a short message is ShortHeader *)
Theorem signed_message_family H origin w kr rmac ctx multi now :
  ParserSafe.bytes_ok w -> zlen rmac <= 65535 ->
  match read_gen H origin w kr rmac ctx multi now with
  | Ok _ => True
  | Lib e => tlib e
  | Internal _ => False
  end.
Proof.
  intros Hw Hr. destruct (Nat.ltb (length w) 12) eqn:E.
  - unfold read_gen. rewrite E. cbn. tl.
  - apply Nat.ltb_ge in E. apply signed_message_outcome; assumption.
Qed.

Theorem validate_family H wire k owner rd now rmac ts ctx multi :
  (12 <= length wire)%nat -> tsig_inv rd -> zlen rmac <= 65535 ->
  match validate H wire k owner rd now rmac ts ctx multi with
  | Ok _ => True
  | Lib e => tlib e
  | Internal _ => False
  end.
Proof. apply validate_out. Qed.

(* the envelope that raised NotImplementedError before fix ed7f7ab (multi-message mode, running
   context, bare-secret keyring, unimplemented algorithm, MAC accepted): BadAlgorithm *)
Definition nie_wire : bytes :=
  [0;0; 0;0; 0;0; 0;0; 0;0; 0;1;
   0; 0;250; 0;255; 0;0;0;0; 0;19;
   1;120;0; 0;0;0;0;0;0; 0;0; 0;0; 0;0; 0;0; 0;0].

Example unimplemented_algorithm_multi :
  read (fun _ _ _ => []) nie_wire (KR_Dict [(NameM.root, inr [1])]) []
       (Some {| c_hash := SHA256; c_size := None; c_key := [1]; c_data := [] |}) true 0
  = Lib eBadAlgorithm.
Proof. vm_compute. reflexivity. Qed.

Lemma tsig_from_wire_inv w : ParserSafe.bytes_ok w -> forall (endp pos : nat) t,
  tsig_from_wire w endp pos = Ok t -> tsig_inv t.
Proof. intros Hw endp pos. exact (proj2 (tsig_from_wire_ok w Hw endp pos)). Qed.

(* the OPT option loop of C14's reader runs under wrap_formerror, which would hide its fuel marker;
   it is never produced: every iteration consumes the four-octet option header *)
Lemma opt_options_no_internal w : ParserSafe.bytes_ok w -> forall fuel endp pos e,
  (endp - pos < fuel)%nat -> opt_options w endp pos fuel <> Internal e.
Proof.
  intros Hw. induction fuel as [|f IH]; intros endp pos e Hf.
  - cbn. destruct (Nat.leb endp pos) eqn:E; [discriminate|]. apply Nat.leb_gt in E. lia.
  - cbn [opt_options]. destruct (Nat.leb endp pos) eqn:E; [discriminate|]. apply Nat.leb_gt in E.
    pose proof (fe_get_uint w endp pos 2) as F1.
    destruct (get_uint w endp pos 2) as [[t p1]|x|x] eqn:G1; cbn [bind fst snd]; [|discriminate|contradiction].
    pose proof (fe_get_uint w endp p1 2) as F2.
    destruct (get_uint w endp p1 2) as [[l p2]|x|x] eqn:G2; cbn [bind fst snd]; [|discriminate|contradiction].
    cbv zeta. destruct (Nat.ltb _ _); [discriminate|].
    apply IH.
    assert (P1 : p1 = (pos + 2)%nat).
    { unfold get_uint, get_bytes in G1. destruct (Nat.ltb _ _) in G1; [discriminate|]. cbn in G1. inversion G1. reflexivity. }
    assert (P2 : p2 = (p1 + 2)%nat).
    { unfold get_uint, get_bytes in G2. destruct (Nat.ltb _ _) in G2; [discriminate|]. cbn in G2. inversion G2. reflexivity. }
    lia.
Qed.

Theorem opt_options_terminates w : ParserSafe.bytes_ok w -> forall (rdata_start rdlen : nat) e,
  opt_options w (rdata_start + rdlen) rdata_start (S rdlen) <> Internal e.
Proof. intros Hw rs rl e. apply opt_options_no_internal; [exact Hw|lia]. Qed.
