(* Schema-level text round trip: for every well-formed schema (sequence of fields as used by the
   regular rdata types), every list of field values within the constructor's ranges, every style
   whose chunk separators are blanks and every parsing context, dns.rdata.from_text applied to the
   text produced by to_styled_text returns the values (names mapped by the name-level effect of
   the relativization choices). *)
From DV Require Import Base.Prelude Model.NameM Model.TokM Model.RdTextM.
From DV Require Import Proofs.NameValid Proofs.NameText Proofs.TokEsc Proofs.TokTxt Proofs.TokWords
     Proofs.TokDec Proofs.TokHex Proofs.TokShape Proofs.TokGeneric Proofs.TokUtf8 Proofs.RdTextName Proofs.RdTextAddr Proofs.RdTextBitmap Proofs.RdTextTypes Proofs.RdTextB32 Proofs.RdTextSig Proofs.RdTextEui Proofs.RdTextFmtHex Proofs.RdTextTail Proofs.RdTextGpos Proofs.RdTextApl Proofs.RdTextWks Proofs.RdTextSvcb Proofs.RdTextLoc Proofs.RdTextLocAlt.
From DV Require Model.SchemaM.
Open Scope Z_scope.

Definition is_rest (f : tfield) : bool :=
  match f with FHexRest | FB64Rest _ | FTxtRest | FBitmap | FQOpt | FNamesRest | FB64RestOpt | FB64RestE | FKeyRec | FAplRest | FWksPorts | FSvcbRec | FLocRec => true | _ => false end.

(* non-empty; the fields that read the rest of the line come last *)
Fixpoint schema_wf (fs : list tfield) : Prop :=
  match fs with
  | [] => False
  | [_] => True
  | f :: r => is_rest f = false /\ schema_wf r
  end.

Definition val_ok (f : tfield) (v : tval) : Prop :=
  match f, v with
  | FDec maxv, VInt z => 0 <= z <= maxv
  | FTtl, VInt z => 0 <= z <= MAX_TTL
  | FQStr tokmax ctormax ne, VBytes b =>
      all_bytes b = true /\ (tokmax = 0 \/ zlen b <= tokmax) /\ (ctormax = 0 \/ zlen b <= ctormax)
      /\ (ne = true -> b <> [])
  | FName, VName n => Valid n /\ AllBytes n
  | FHexRest, VBytes b => all_bytes b = true /\ b <> []
  | FB64Rest _, VBytes b => all_bytes b = true /\ b <> []
  | FTxtRest, VStrs l => l <> [] /\ Forall (fun s => all_bytes s = true /\ zlen s <= 255) l
  | FAddr v6, VBytes b => all_bytes b = true /\ length b = (if v6 then 16 else 4)%nat
  | FHexTok, VBytes b => all_bytes b = true /\ zlen b <= 255
  | FAlg, VInt z => 0 <= z <= 255
  | FTag, VBytes b => b <> [] /\ zlen b <= 255 /\ forallb is_alnum b = true
  | FBitmap, VWindows ws => canon_from (-1) ws /\ no_type0 ws
  | FB32, VBytes b => all_bytes b = true /\ b <> [] /\ zlen b <= 255
  | FEnum k, VInt z => 0 <= z <= enum_max k
  | FNsap, VBytes b => all_bytes b = true
  | FIntC maxv, VInt z => 0 <= z <= maxv
  | FSigTime, VInt z => 0 <= z <= 4294967295
  | FEui n, VBytes b => all_bytes b = true /\ length b = n /\ (0 < n)%nat
  | FFmtHex, VBytes t => fmthex_ok t = true
  | FOct16, VInt z => 0 <= z <= 65535
  | FQOpt, VBytes b => all_bytes b = true /\ zlen b <= 255
  | FHexStr, VBytes b => all_bytes b = true /\ b <> [] /\ zlen b <= 255
  | FB64Tok maxlen, VBytes b => all_bytes b = true /\ b <> [] /\ zlen b <= maxlen
  | FNamesRest, VNames l => Forall (fun n => Valid n /\ AllBytes n) l
  | FNameNoRel, VName n => Valid n /\ AllBytes n
  | FB64RestOpt, VBytes b => all_bytes b = true /\ zlen b <= 65535
  | FB64RestE, VBytes b => all_bytes b = true
  | FMac, VBytes b => all_bytes b = true /\ b <> [] /\ zlen b <= 65535
  | FOther, VBytes b => all_bytes b = true /\ zlen b <= 65535
  | FGposStr, VBytes b => (exists p, SchemaM.parse_float b = Some p) /\ zlen b <= 255
  | FAddr4S, VBytes b => all_bytes b = true /\ length b = 4%nat
  | FWksProto, VInt z => 0 <= z <= 255
  | FWksPorts, VBytes bm => all_bytes bm = true /\ wks_canon bm /\ zlen bm <= 8192
  | FLocRec, VLoc la lo alt sz hp vp => loc_wf la lo alt sz hp vp
  | FSvcbRec, VSvcb p n ps => svcb_ok p n ps
  | FAplRest, VApl items => Forall item_ok items
  | FKeyRec, VKey f p a at_ k =>
      0 <= f <= 65535 /\ 0 <= p <= 255 /\ 0 <= a <= 255 /\ at_ = [] /\ all_bytes k = true /\
      (if Z.land f 49152 =? 49152 then k = [] else k <> [])
  | FGw ipsec, VGw g a gw =>
      0 <= a <= 255 /\ (ipsec = false -> a = 0) /\
      match gw with
      | GwNone => g = 0
      | GwText t => (g = 1 /\ exists b, all_bytes b = true /\ length b = 4%nat /\ ipv4_ntoa b = Ok t)
                    \/ (g = 2 /\ exists b, all_bytes b = true /\ length b = 16%nat /\ ipv6_ntoa b = Ok t)
      | GwName n => g = 3 /\ Valid n /\ AllBytes n
      end
  | _, _ => False
  end.

Definition style_ok (st : style) : Prop :=
  forallb is_blank (s_hex_sep st) = true /\ forallb is_blank (s_b64_sep st) = true /\ oAllBytes (s_origin st).

Definition expect (st : style) (c : pctx) (f : tfield) (v : tval) : res tval :=
  match f, v with
  | FName, VName n => do n' <- name_path st c n; Ok (VName n')
  | FNameNoRel, VName n => do n' <- name_path st (mkPctx None false None) n; Ok (VName n')
  | FNamesRest, VNames l => do l' <- map_res (name_path st c) l; Ok (VNames l')
  | FGw _, VGw g a (GwName n) => do n' <- name_path st c n; Ok (VGw g a (GwName n'))
  | FSvcbRec, VSvcb p n ps => do n' <- name_path st c n; Ok (VSvcb p n' ps)
  | FLocRec, VLoc la lo alt sz hp vp => Ok (loc_expect la lo alt sz hp vp)
  | _, _ => Ok v
  end.

Fixpoint expects (st : style) (c : pctx) (fs : list tfield) (vs : list tval) : res (list tval) :=
  match fs, vs with
  | [], [] => Ok []
  | f :: fs', v :: vs' => do a <- expect st c f v; do b <- expects st c fs' vs'; Ok (a :: b)
  | _, _ => Internal eBadCase
  end.

(* a first token that selects the type's own from_text and can be pushed back *)
Definition tok_plain (t : token) : Prop :=
  (ttype t =? tWS) = false /\ (ttype t =? tCOMMENT) = false /\
  (is_identifier t && zlist_eqb (tvalue t) [92; 35]) = false.

Definition ends_ok (st : tstate) : Prop := exists te st', get_eol_as_token st = Ok (te, st').

Lemma word_end_blank r : word_end (32 :: r).
Proof. right. exists 32, r. split; reflexivity. Qed.

Lemma line_end_word_end r : line_end r -> word_end r.
Proof. intros [->|[x ->]]; [left; reflexivity|right; exists 10, x; split; reflexivity]. Qed.

Lemma stq_len_word q bl w R :
  (length (inp (stq false R)) <= length (inp (stq q (bl ++ w ++ R))))%nat.
Proof. unfold stq. cbn [inp pend app]. rewrite !app_length. lia. Qed.

(* ---------- blank-separated chunks: split off the first word ---------- *)
Lemma chunked_split w t : chunked w t -> w <> [] ->
  exists bl u w' t', t = bl ++ u ++ t' /\ forallb is_blank bl = true /\ u <> [] /\ forallb safe u = true /\
    (t' = [] \/ exists b t'', t' = b :: t'' /\ is_blank b = true) /\ w = u ++ w' /\ chunked w' t'.
Proof.
  induction 1 as [|b w t Hb Hch IH|u w t Hu Hs Ht Hch IH]; intros Hne; [congruence| |].
  - destruct (IH Hne) as (bl & u & w' & t' & -> & Hbl & H1 & H2 & H3 & H4 & H5).
    exists (b :: bl), u, w', t'. cbn [app forallb]. rewrite Hb, Hbl. repeat split; auto.
  - exists [], u, w, t. repeat split; auto.
Qed.

Lemma safe_word_not_hash u : forallb safe u = true -> zlist_eqb u [92; 35] = false.
Proof.
  intros H. destruct u as [|c u]; [reflexivity|]. cbn [forallb] in H. apply andb_true_iff in H as [Hc _].
  cbn [zlist_eqb]. apply safe_not_bs in Hc. rewrite Z.eqb_sym, Hc. reflexivity.
Qed.

(* rest-of-line hex / base64 field, from any state whose next token is the first chunk *)
Lemma rest_bytes_ok decode (enc : list Z) (d : list Z) t R q bl :
  chunked enc t -> enc <> [] -> all_ascii enc = true -> decode enc = Ok d ->
  forallb is_blank bl = true -> line_end R ->
  exists t1 s1, get0 (stq q (bl ++ t ++ R)) = Ok (t1, s1) /\ ungot s1 = None /\ tok_plain t1 /\
    (length (inp s1) <= length (inp (stq q (bl ++ t ++ R))))%nat /\
    forall stX, get0 stX = Ok (t1, s1) -> (length (inp s1) <= length (inp stX))%nat ->
      forall allow, exists st_end te,
        (do hs <- concatenate_remaining_identifiers stX allow; do b <- utf8_encode (fst hs); do d' <- decode b; Ok (VBytes d', snd hs))
        = Ok (VBytes d, st_end) /\
        ungot st_end = Some te /\ is_eol_or_eof te = true.
Proof.
  intros Hch Hne Hasc Hdec Hbl HR.
  destruct (chunked_split enc t Hch Hne) as (bl2 & u & w' & t' & -> & Hbl2 & Hu & Hsu & Ht' & -> & Hch').
  assert (Hwe : word_end (t' ++ R)).
  { destruct Ht' as [->|(b & t'' & -> & Hb)]; [apply line_end_word_end, HR|].
    right. exists b, (t'' ++ R). split; [reflexivity|apply blank_is_delim, Hb]. }
  exists (mkTok tIDENT u (has_bs u) None), (stq false (t' ++ R)).
  assert (E : get0 (stq q (bl ++ (bl2 ++ u ++ t') ++ R))
              = Ok (mkTok tIDENT u (has_bs u) None, stq false (t' ++ R))).
  { replace (bl ++ (bl2 ++ u ++ t') ++ R) with ((bl ++ bl2) ++ u ++ (t' ++ R)) by (rewrite <- !app_assoc; reflexivity).
    apply get0_word_q; [rewrite forallb_app, Hbl, Hbl2; reflexivity|apply units_safe, Hsu|exact Hu|exact Hwe]. }
  split; [exact E|]. split; [reflexivity|]. split.
  { unfold tok_plain, is_identifier. cbn [ttype tvalue]. rewrite safe_word_not_hash by exact Hsu.
    repeat split; reflexivity. }
  split.
  { unfold stq. cbn [inp pend app]. rewrite !app_length. lia. }
  intros stX HX Hlen allow. unfold concatenate_remaining_identifiers, rem_fuel.
  rewrite cri_unfold. unfold get_unescaped. rewrite HX. cbn [bind fst snd]. unfold unescape. cbn [tesc].
  rewrite has_bs_safe by exact Hsu. cbn [negb bind]. unfold is_eol_or_eof, is_identifier. cbn [ttype tvalue].
  change (tIDENT =? tEOL) with false. change (tIDENT =? tEOF) with false. change (tIDENT =? tIDENT) with true.
  cbn [orb negb app].
  destruct (chunked_cri w' t' Hch' R (S (length (inp stX))) u HR) as (te & st3 & H1 & H2 & E3).
  { unfold stq in Hlen. cbn [inp pend app] in Hlen. rewrite app_length in Hlen. lia. }
  unfold stq. cbn [pend app]. rewrite E3. cbn [bind fst snd].
  assert (Hn : is_nil (u ++ w') = false) by (destruct u; [congruence|reflexivity]).
  rewrite Hn. cbn [negb]. rewrite orb_true_r. cbn [negb bind fst snd].
  rewrite utf8_ascii by exact Hasc. cbn [bind]. rewrite Hdec. cbn [bind].
  exists st3, te. split; [reflexivity|]. split; assumption.
Qed.

(* decimal algorithm numbers are not mnemonics: finite sweep *)
Definition alg_ok (z : Z) : bool := match alg_from_text (dec z) with Ok v => v =? z | _ => false end.
Lemma alg_ok_all : forallb alg_ok (map Z.of_nat (seq 0 256)) = true.
Proof. vm_compute. reflexivity. Qed.
Lemma alg_dec z : 0 <= z <= 255 -> alg_from_text (dec z) = Ok z.
Proof.
  intros Hz. pose proof alg_ok_all as H. rewrite forallb_forall in H. specialize (H z).
  assert (Hin : In z (map Z.of_nat (seq 0 256))).
  { rewrite <- (Z2Nat.id z) by lia. apply in_map. apply in_seq. lia. }
  specialize (H Hin). unfold alg_ok in H. destruct (alg_from_text (dec z)) as [v| |]; try discriminate.
  apply Z.eqb_eq in H. subst. reflexivity.
Qed.

(* alphanumeric octets print as themselves and form a safe ASCII word *)
Lemma alnum_facts b : forallb is_alnum b = true ->
  escapify b = b /\ forallb safe b = true /\ all_ascii b = true.
Proof.
  induction b as [|c b IH]; intros H; [repeat split; reflexivity|].
  cbn [forallb] in H. apply andb_true_iff in H as [Hc H]. destruct (IH H) as (I1 & I2 & I3).
  unfold is_alnum in Hc.
  assert (Hr : (48 <= c <= 57) \/ (65 <= c <= 90) \/ (97 <= c <= 122)) by lia.
  split; [|split].
  - unfold escapify in *. cbn [flat_map]. rewrite I1. unfold esc_octet, q_escaped.
    replace (c =? 34) with false by lia. replace (c =? 92) with false by lia. cbn [orb].
    replace ((c >=? 32) && (c <? 127)) with true by lia. reflexivity.
  - cbn [forallb]. rewrite I2. rewrite andb_true_r. unfold safe, is_delim.
    replace (c =? 32) with false by lia. replace (c =? 9) with false by lia.
    replace (c =? 10) with false by lia. replace (c =? 59) with false by lia.
    replace (c =? 40) with false by lia. replace (c =? 41) with false by lia.
    replace (c =? 34) with false by lia. replace (c =? 92) with false by lia. reflexivity.
  - unfold all_ascii in *. cbn [forallb]. rewrite I3. replace ((0 <=? c) && (c <? 128)) with true by lia. reflexivity.
Qed.

(* ---------- one field ---------- *)
Lemma field_ok sty c f v ftext v' R q bl :
  style_ok sty -> val_ok f v -> print_field sty f v = Ok ftext -> expect sty c f v = Ok v' ->
  forallb is_blank bl = true ->
  (is_rest f = false -> word_end R) -> (is_rest f = true -> line_end R) ->
  exists t1 s1, get0 (stq q (bl ++ ftext ++ R)) = Ok (t1, s1) /\ ungot s1 = None /\ tok_plain t1 /\
    (length (inp s1) <= length (inp (stq q (bl ++ ftext ++ R))))%nat /\
    forall stX, get0 stX = Ok (t1, s1) -> (length (inp s1) <= length (inp stX))%nat ->
      exists raw st_end, parse_field c f stX = Ok (raw, st_end) /\ ctor_field f raw = Ok v' /\
        (is_rest f = false -> exists q', st_end = stq q' R) /\
        (is_rest f = true -> (exists te, ungot st_end = Some te /\ is_eol_or_eof te = true)
                             \/ exists q' bl', forallb is_blank bl' = true /\ st_end = stq q' (bl' ++ R)).
Proof.
  intros (Hhs & Hbs & HO) Hv Hp He Hbl HR1 HR2.
  destruct f as [maxv| |tokmax ctormax ne| | |sc| |v6| | | | | |k| |maxc| |en| | | | |bmax| | | |ipsec| | | | | | | | | | |]; destruct v as [z|b|n|l|ws|nl|g a gw|items|la lo lalt lsz lhp lvp|sp sn sps|kf kp ka kat kk]; cbn [val_ok] in Hv; try contradiction;
    cbn [print_field] in Hp; cbn [expect] in He; cbn [is_rest] in HR1, HR2.
  - (* FDec *)
    inversion Hp; subst ftext. inversion He; subst v'. specialize (HR1 eq_refl).
    pose proof (dec_safe z ltac:(lia)) as Hs.
    exists (mkTok tIDENT (dec z) (has_bs (dec z)) None), (stq false R).
    split; [apply get0_word_q; auto using units_safe, dec_nonempty|].
    split; [reflexivity|]. split.
    { unfold tok_plain, is_identifier. cbn [ttype tvalue]. rewrite safe_word_not_hash by exact Hs. repeat split; reflexivity. }
    split; [apply stq_len_word|].
    intros stX HX _. exists (VInt z), (stq false R). split; [|split; [reflexivity|split; [intros _; exists false; reflexivity|discriminate]]].
    cbn [parse_field]. unfold get_uint, get_unescaped. rewrite HX. cbn [bind fst snd]. unfold unescape. cbn [tesc].
    rewrite has_bs_safe by exact Hs. cbn [negb bind fst snd]. rewrite as_uint_dec by lia. reflexivity.
  - (* FTtl *)
    inversion Hp; subst ftext. inversion He; subst v'. specialize (HR1 eq_refl).
    pose proof (dec_safe z ltac:(lia)) as Hs.
    exists (mkTok tIDENT (dec z) (has_bs (dec z)) None), (stq false R).
    split; [apply get0_word_q; auto using units_safe, dec_nonempty|].
    split; [reflexivity|]. split.
    { unfold tok_plain, is_identifier. cbn [ttype tvalue]. rewrite safe_word_not_hash by exact Hs. repeat split; reflexivity. }
    split; [apply stq_len_word|].
    intros stX HX _. exists (VInt z), (stq false R). split; [|split; [reflexivity|split; [intros _; exists false; reflexivity|discriminate]]].
    cbn [parse_field]. unfold get_ttl, get_unescaped. rewrite HX. cbn [bind fst snd]. unfold unescape. cbn [tesc].
    rewrite has_bs_safe by exact Hs. cbn [negb bind fst snd]. unfold is_identifier. cbn [ttype tvalue].
    change (tIDENT =? tIDENT) with true. cbn [negb]. rewrite ttl_from_text_dec by exact Hv. reflexivity.
  - (* FQStr *)
    destruct Hv as (Hb & Htm & Hcm & Hne). inversion Hp; subst ftext. inversion He; subst v'.
    destruct (get0_quoted_q q bl b R Hbl Hb) as (he & E).
    exists (mkTok tQUOTED (escapify b) he None), (stq true R).
    unfold quote. replace (bl ++ (34 :: escapify b ++ [34]) ++ R) with (bl ++ 34 :: escapify b ++ 34 :: R)
      by (cbn [app]; rewrite <- app_assoc; reflexivity).
    split; [exact E|]. split; [reflexivity|]. split; [repeat split; reflexivity|]. split.
    { unfold stq. cbn [inp pend app]. rewrite !app_length. cbn [length]. rewrite app_length. cbn [length]. lia. }
    intros stX HX _. exists (VBytes b), (stq true R).
    split; [|split; [|split; [intros _; exists true; reflexivity|discriminate]]].
    + cbn [parse_field]. unfold get_string_as_bytes. rewrite HX. cbn [bind fst snd].
      unfold unescape_to_bytes. cbn [tvalue ttype]. rewrite unescape_to_bytes_escapify by exact Hb. cbn [bind].
      unfold is_identifier, is_quoted. cbn [ttype tvalue]. change (tQUOTED =? tQUOTED) with true.
      rewrite orb_true_r. cbn [negb].
      replace (negb (tokmax =? 0) && (zlen b >? tokmax)) with false by (destruct Htm; lia). reflexivity.
    + cbn [ctor_field]. replace (negb (ctormax =? 0) && (zlen b >? ctormax)) with false by (destruct Hcm; lia).
      replace (ne && is_nil b) with false; [reflexivity|].
      destruct ne; [|reflexivity]. destruct b; [exfalso; apply Hne; reflexivity|reflexivity].
  - (* FName *)
    destruct Hv as (V & HB). specialize (HR1 eq_refl).
    unfold name_to_styled_text in Hp.
    destruct (choose_relativity n (s_origin sty) (s_relativize sty)) as [n1| |] eqn:E1; cbn [bind] in Hp; try discriminate.
    inversion Hp; subst ftext.
    destruct (choose_relativity_ok _ _ _ _ V HB HO E1) as [V1 B1].
    destruct (name_text_word n1 V1 B1) as (Hu & Hne & Hh).
    exists (mkTok tIDENT (NameM.to_text n1) (has_bs (NameM.to_text n1)) None), (stq false R).
    split; [apply get0_word_q; assumption|]. split; [reflexivity|]. split.
    { unfold tok_plain, is_identifier. cbn [ttype tvalue]. rewrite Hh. repeat split; reflexivity. }
    split; [apply stq_len_word|].
    intros stX HX _.
    destruct (name_path sty c n) as [n'| |] eqn:E2; cbn [bind] in He; try discriminate. inversion He; subst v'.
    exists (VName n'), (stq false R). split; [|split; [reflexivity|split; [intros _; exists false; reflexivity|discriminate]]].
    cbn [parse_field]. unfold get_name. rewrite HX. cbn [bind fst snd].
    rewrite (as_name_printed sty c n (NameM.to_text n1)) by (auto; unfold name_to_styled_text; rewrite E1; reflexivity).
    rewrite E2. reflexivity.
  - (* FHexRest *)
    destruct Hv as (Hb & Hne). inversion Hp; subst ftext. inversion He; subst v'. specialize (HR2 eq_refl).
    destruct (hexlify_safe b Hb) as [Hs Ha].
    assert (Hch : chunked (hexlify b) (styled_hexify b (s_hex_chunk sty) (s_hex_sep sty)))
      by (apply wordbreak_chunked; assumption).
    assert (Hne' : hexlify b <> []) by (destruct b as [|x b]; [congruence|discriminate]).
    destruct (rest_bytes_ok unhexlify (hexlify b) b _ R q bl Hch Hne' Ha (unhexlify_hexlify b Hb) Hbl HR2)
      as (t1 & s1 & G1 & G2 & G3 & G4 & G5).
    exists t1, s1. split; [exact G1|]. split; [exact G2|]. split; [exact G3|]. split; [exact G4|]. intros stX HX HL. destruct (G5 stX HX HL false) as (se & te & P1 & P2 & P3).
    exists (VBytes b), se. split; [exact P1|]. split; [reflexivity|]. split; [discriminate|]. intros _. left. exists te. split; assumption.
  - (* FB64Rest *)
    destruct Hv as (Hb & Hne). inversion Hp; subst ftext. inversion He; subst v'. specialize (HR2 eq_refl).
    destruct (b64encode_safe b Hb) as [Hs Ha].
    assert (Hch : chunked (b64encode b) (styled_base64ify b (if sc then s_b64_chunk sty else 0) (s_b64_sep sty)))
      by (apply wordbreak_chunked; assumption).
    assert (Hne' : b64encode b <> []) by (destruct b as [|x [|y [|z b]]]; [congruence|discriminate|discriminate|discriminate]).
    destruct (rest_bytes_ok b64decode (b64encode b) b _ R q bl Hch Hne' Ha (b64decode_b64encode b Hb) Hbl HR2)
      as (t1 & s1 & G1 & G2 & G3 & G4 & G5).
    exists t1, s1. split; [exact G1|]. split; [exact G2|]. split; [exact G3|]. split; [exact G4|]. intros stX HX HL. destruct (G5 stX HX HL false) as (se & te & P1 & P2 & P3).
    exists (VBytes b), se. split; [exact P1|]. split; [reflexivity|]. split; [discriminate|]. intros _. left. exists te. split; assumption.
  - (* FTxtRest *)
    destruct Hv as (Hne & Hss). inversion Hp; subst ftext. inversion He; subst v'. specialize (HR2 eq_refl).
    destruct l as [|s ss]; [congruence|]. inversion Hss as [|? ? [Hb Hl] Hss']; subst.
    set (u8 := s_txt_utf8 sty).
    assert (HB : Forall2 body_ok (map (txt_body u8) (s :: ss)) (s :: ss)).
    { clear - Hss. induction Hss as [|x l [Hx _] _ IH]; cbn [map]; constructor; [apply txt_body_ok, Hx|exact IH]. }
    assert (HL : Forall (fun s => zlen s <= 255) (s :: ss)).
    { eapply Forall_impl; [|exact Hss]. intros ? [_ ?]; assumption. }
    assert (HQ : Forall qbody (map (txt_body u8) ss)).
    { inversion HB as [|? ? ? ? _ HB']; subst. clear - HB'. induction HB' as [|? ? ? ? [Hq _] _ IH]; constructor; assumption. }
    pose proof (txt_body_ok u8 s Hb) as [Hq0 _].
    unfold txt_to_text_style. cbn [map]. rewrite txt_join_tail.
    destruct (get0_quoted_body_q q bl (txt_body u8 s) (txt_tail_b (map (txt_body u8) ss) R) Hbl Hq0) as (he & E).
    exists (mkTok tQUOTED (txt_body u8 s) he None), (stq true (txt_tail_b (map (txt_body u8) ss) R)).
    split; [exact E|]. split; [reflexivity|]. split; [repeat split; reflexivity|]. split.
    { unfold stq. cbn [inp pend app]. rewrite !app_length. cbn [length]. rewrite app_length. cbn [length]. lia. }
    intros stX HX HL2.
    destruct (get_remaining_tail_b _ HQ R (S (length (inp stX))) [mkTok tQUOTED (txt_body u8 s) he None] HR2)
      as (toks & te & st & HF & Hte & Hu & E2).
    { pose proof (txt_tail_b_length (map (txt_body u8) ss) R). unfold stq in HL2. cbn [inp pend app length] in HL2. lia. }
    exists (VStrs (s :: ss)), st. split; [|split; [reflexivity|split; [discriminate|intros _; left; exists te; split; assumption]]].
    cbn [parse_field]. unfold txt_from_text, get_remaining, rem_fuel. rewrite grl_unfold. rewrite HX. cbn [bind].
    unfold is_eol_or_eof at 1. cbn [ttype]. change (tQUOTED =? tEOL) with false. change (tQUOTED =? tEOF) with false.
    cbn [orb]. rewrite E2. cbn [bind rev app fst snd].
    rewrite (txt_strings_ok_b _ (s :: ss) (_ :: toks) HB HL); [|constructor; [split; reflexivity|exact HF]].
    reflexivity.
  - (* FAddr *)
    destruct Hv as (Hb & Hl). inversion He; subst v'. specialize (HR1 eq_refl).
    assert (Hrt : (if v6 then ipv6_aton ftext else ipv4_aton ftext) = Ok b /\ forallb safe ftext = true /\ ftext <> []).
    { destruct v6.
      - destruct (ipv6_roundtrip b Hb Hl) as (t & E1 & E2). rewrite E1 in Hp. inversion Hp; subst t.
        split; [exact E2|]. apply (ipv6_ntoa_word b ftext Hb E1).
      - destruct (ipv4_roundtrip b Hb Hl) as (t & E1 & E2). rewrite E1 in Hp. inversion Hp; subst t.
        split; [exact E2|]. apply (ipv4_ntoa_word b ftext Hb E1). }
    destruct Hrt as (Hat & Hs & Hne).
    exists (mkTok tIDENT ftext (has_bs ftext) None), (stq false R).
    split; [apply get0_word_q; auto using units_safe|]. split; [reflexivity|]. split.
    { unfold tok_plain, is_identifier. cbn [ttype tvalue]. rewrite safe_word_not_hash by exact Hs. repeat split; reflexivity. }
    split; [apply stq_len_word|].
    intros stX HX _. exists (VBytes ftext), (stq false R).
    split; [|split; [|split; [intros _; exists false; reflexivity|discriminate]]].
    + cbn [parse_field]. unfold get_identifier, get_unescaped. rewrite HX. cbn [bind fst snd]. unfold unescape. cbn [tesc].
      rewrite has_bs_safe by exact Hs. cbn [negb bind fst snd]. unfold as_identifier, is_identifier. cbn [ttype tvalue].
      change (tIDENT =? tIDENT) with true. reflexivity.
    + cbn [ctor_field]. rewrite Hat. reflexivity.
  - (* FHexTok *)
    destruct Hv as (Hb & Hl). inversion Hp; subst ftext. inversion He; subst v'. specialize (HR1 eq_refl).
    set (w := if is_nil b then [45] else hexlify b).
    assert (Hw : forallb safe w = true /\ w <> [] /\ all_ascii w = true).
    { unfold w. destruct b as [|x b']; [repeat split; discriminate|]. cbn [is_nil].
      destruct (hexlify_safe (x :: b') Hb) as [S A]. repeat split; try assumption. discriminate. }
    destruct Hw as (Hs & Hne & Ha).
    exists (mkTok tIDENT w (has_bs w) None), (stq false R).
    split; [apply get0_word_q; auto using units_safe|]. split; [reflexivity|]. split.
    { unfold tok_plain, is_identifier. cbn [ttype tvalue]. rewrite safe_word_not_hash by exact Hs. repeat split; reflexivity. }
    split; [apply stq_len_word|].
    intros stX HX _. exists (VBytes b), (stq false R).
    split; [|split; [|split; [intros _; exists false; reflexivity|discriminate]]].
    + cbn [parse_field]. unfold get_string, get_unescaped. rewrite HX. cbn [bind fst snd]. unfold unescape. cbn [tesc].
      rewrite has_bs_safe by exact Hs. cbn [negb bind fst snd]. unfold as_string, is_identifier, is_quoted. cbn [ttype tvalue].
      change (tIDENT =? tIDENT) with true. change (0 =? 0) with true. cbn [orb negb andb bind fst snd].
      unfold w. destruct b as [|x b']; [reflexivity|]. cbn [is_nil].
      replace (zlist_eqb (hexlify (x :: b')) [45]) with false
        by (unfold hexlify; cbn [flat_map app zlist_eqb]; rewrite andb_false_r; reflexivity).
      rewrite utf8_ascii by (apply (hexlify_safe (x :: b') Hb)). cbn [bind].
      rewrite unhexlify_hexlify by exact Hb. reflexivity.
    + cbn [ctor_field]. replace (zlen b >? 255) with false by lia. reflexivity.
  - (* FAlg *)
    inversion Hp; subst ftext. inversion He; subst v'. specialize (HR1 eq_refl).
    pose proof (dec_safe z ltac:(lia)) as Hs.
    exists (mkTok tIDENT (dec z) (has_bs (dec z)) None), (stq false R).
    split; [apply get0_word_q; auto using units_safe, dec_nonempty|].
    split; [reflexivity|]. split.
    { unfold tok_plain, is_identifier. cbn [ttype tvalue]. rewrite safe_word_not_hash by exact Hs. repeat split; reflexivity. }
    split; [apply stq_len_word|].
    intros stX HX _. exists (VBytes (dec z)), (stq false R).
    split; [|split; [|split; [intros _; exists false; reflexivity|discriminate]]].
    + cbn [parse_field]. unfold get_string, get_unescaped. rewrite HX. cbn [bind fst snd]. unfold unescape. cbn [tesc].
      rewrite has_bs_safe by exact Hs. cbn [negb bind fst snd]. unfold as_string, is_identifier, is_quoted. cbn [ttype tvalue].
      change (tIDENT =? tIDENT) with true. change (0 =? 0) with true. reflexivity.
    + cbn [ctor_field]. rewrite (alg_dec z Hv). reflexivity.
  - (* FTag *)
    destruct Hv as (Hne & Hl & Hal). inversion Hp; subst ftext. inversion He; subst v'. specialize (HR1 eq_refl).
    destruct (alnum_facts b Hal) as (He1 & Hs & Ha).
    rewrite He1.
    exists (mkTok tIDENT b (has_bs b) None), (stq false R).
    split; [apply get0_word_q; auto using units_safe|]. split; [reflexivity|]. split.
    { unfold tok_plain, is_identifier. cbn [ttype tvalue]. rewrite safe_word_not_hash by exact Hs. repeat split; reflexivity. }
    split; [apply stq_len_word|].
    intros stX HX _. exists (VBytes b), (stq false R).
    split; [|split; [|split; [intros _; exists false; reflexivity|discriminate]]].
    + cbn [parse_field]. unfold get_string, get_unescaped. rewrite HX. cbn [bind fst snd]. unfold unescape. cbn [tesc].
      rewrite has_bs_safe by exact Hs. cbn [negb bind fst snd]. unfold as_string, is_identifier, is_quoted. cbn [ttype tvalue].
      change (tIDENT =? tIDENT) with true. change (0 =? 0) with true. cbn [orb negb andb bind fst snd].
      rewrite utf8_ascii by exact Ha. reflexivity.
    + cbn [ctor_field]. replace (zlen b >? 255) with false by lia. rewrite Hal.
      destruct b; [congruence|reflexivity].
  - (* FBitmap *)
    destruct Hv as (Hcan & H0). inversion He; subst v'. specialize (HR2 eq_refl).
    destruct (bitmap_text_shape ws (-1) Hcan ltac:(lia)) as (names & Eb & Fn).
    rewrite Eb in Hp. inversion Hp; subst ftext.
    assert (Hns : Forall (fun n => n <> [] /\ forallb safe n = true) names).
    { clear - Fn. induction Fn as [|t n ts ns (A & B & _) _ IH]; constructor; auto. }
    pose proof (bitmap_types_nonzero ws Hcan H0) as Hnz.
    pose proof (token_types _ _ Fn Hnz) as Htt.
    pose proof (bitmap_text_roundtrip ws Hcan H0) as Hrt.
    destruct names as [|n1 names'].
    + (* no types: the next token is the end of the line *)
      cbn [spaced flat_map app].
      destruct (get0_end_q_len q bl R Hbl HR2) as (t & st & H1 & H2 & H3 & H4 & H5 & E).
      exists t, st. split; [exact E|]. split; [exact H4|]. split.
      { destruct (eol_not_ws t H1) as [A B]. unfold tok_plain. rewrite A, B, H2. repeat split; reflexivity. }
      split; [unfold stq; cbn [inp]; rewrite !app_length; lia|].
      intros stX HX _. cbn [map map_res] in Htt.
      assert (Hst : exists st2, unget st t = Ok st2 /\ ungot st2 = Some t).
      { unfold unget. rewrite H4. eexists. split; reflexivity. }
      destruct Hst as (st2 & U1 & U2).
      exists (VWindows ws), st2. split; [|split; [reflexivity|split; [discriminate|intros _; left; exists t; split; assumption]]].
      cbn [parse_field]. unfold get_remaining, rem_fuel. rewrite grl_unfold. rewrite HX. cbn [bind]. rewrite H1, U1.
      cbn [bind rev fst snd map_res]. inversion Htt as [Hty]. rewrite Hty, Hrt. reflexivity.
    + inversion Hns as [|? ? [Hne1 Hs1] Hns']; subst.
      assert (Hshape : bl ++ spaced (n1 :: names') ++ R = (bl ++ [32]) ++ n1 ++ (spaced names' ++ R)).
      { unfold spaced. cbn [flat_map]. rewrite <- ?app_assoc. cbn [app]. rewrite <- ?app_assoc. reflexivity. }
      rewrite Hshape.
      pose proof (get0_word_q q (bl ++ [32]) n1 (spaced names' ++ R)
                   ltac:(rewrite forallb_app, Hbl; reflexivity) (units_safe n1 Hs1) Hne1 (spaced_word_end names' R HR2)) as E.
      rewrite has_bs_safe in E by exact Hs1.
      exists (word_tok n1), (stq false (spaced names' ++ R)).
      split; [exact E|]. split; [reflexivity|]. split.
      { unfold tok_plain, is_identifier, word_tok. cbn [ttype tvalue]. rewrite safe_word_not_hash by exact Hs1. repeat split; reflexivity. }
      split; [unfold stq; cbn [inp pend app]; rewrite !app_length; cbn [length]; lia|].
      intros stX HX HL.
      assert (Hlen : (length names' <= length (spaced names' ++ R))%nat).
      { clear. rewrite app_length. induction names' as [|x l IH]; cbn [spaced flat_map length]; [lia|].
        rewrite app_length. cbn [length]. unfold spaced in IH. lia. }
      destruct (grl_words names' Hns' false R (S (length (inp stX))) [word_tok n1] HR2) as (te & st & T1 & T2 & E2).
      { unfold stq in HL. cbn [inp pend app] in HL. lia. }
      exists (VWindows ws), st. split; [|split; [reflexivity|split; [discriminate|intros _; left; exists te; split; assumption]]].
      cbn [parse_field]. unfold get_remaining, rem_fuel. rewrite grl_unfold. rewrite HX. cbn [bind].
      assert (Heol : is_eol_or_eof (word_tok n1) = false) by reflexivity. rewrite Heol.
      rewrite E2. cbn [bind rev app fst snd].
      change (word_tok n1 :: map word_tok names') with (map word_tok (n1 :: names')). rewrite Htt. cbn [bind].
      rewrite Hrt. reflexivity.
  - (* FB32 *)
    destruct Hv as (Hb & Hne & Hl). inversion Hp; subst ftext. inversion He; subst v'. specialize (HR1 eq_refl).
    destruct (b32hex_word b Hb Hne) as [Hs Hn0].
    exists (mkTok tIDENT (b32hex_encode b) (has_bs (b32hex_encode b)) None), (stq false R).
    split; [apply get0_word_q; auto using units_safe|]. split; [reflexivity|]. split.
    { unfold tok_plain, is_identifier. cbn [ttype tvalue]. rewrite safe_word_not_hash by exact Hs. repeat split; reflexivity. }
    split; [apply stq_len_word|].
    intros stX HX _. exists (VBytes b), (stq false R).
    split; [|split; [|split; [intros _; exists false; reflexivity|discriminate]]].
    + cbn [parse_field]. unfold get_string, get_unescaped. rewrite HX. cbn [bind fst snd]. unfold unescape. cbn [tesc].
      rewrite has_bs_safe by exact Hs. cbn [negb bind fst snd]. unfold as_string, is_identifier, is_quoted. cbn [ttype tvalue].
      change (tIDENT =? tIDENT) with true. change (0 =? 0) with true. cbn [orb negb andb bind fst snd].
      rewrite b32hex_roundtrip by exact Hb. reflexivity.
    + cbn [ctor_field]. replace (zlen b >? 255) with false by lia. reflexivity.
  - (* FEnum *)
    inversion He; subst v'. specialize (HR1 eq_refl).
    destruct (enum_facts k z Hv) as (w & Ew & Hne & Hs & Epar & Ector).
    rewrite Ew in Hp. inversion Hp; subst ftext.
    exists (mkTok tIDENT w (has_bs w) None), (stq false R).
    split; [apply get0_word_q; auto using units_safe|]. split; [reflexivity|]. split.
    { unfold tok_plain, is_identifier. cbn [ttype tvalue]. rewrite safe_word_not_hash by exact Hs. repeat split; reflexivity. }
    split; [apply stq_len_word|].
    intros stX HX _. exists (VInt z), (stq false R).
    split; [|split; [|split; [intros _; exists false; reflexivity|discriminate]]].
    + cbn [parse_field]. unfold get_string, get_unescaped. rewrite HX. cbn [bind fst snd]. unfold unescape. cbn [tesc].
      rewrite has_bs_safe by exact Hs. cbn [negb bind fst snd]. unfold as_string, is_identifier, is_quoted. cbn [ttype tvalue].
      change (tIDENT =? tIDENT) with true. change (0 =? 0) with true. cbn [orb negb andb bind fst snd].
      rewrite Epar. reflexivity.
    + cbn [ctor_field]. rewrite Ector. reflexivity.
  - (* FNsap *)
    inversion Hp; subst ftext. inversion He; subst v'. specialize (HR1 eq_refl).
    destruct (nsap_roundtrip b Hv) as [Ert Hs].
    exists (mkTok tIDENT ([48; 120] ++ hexlify b) (has_bs ([48; 120] ++ hexlify b)) None), (stq false R).
    split; [apply get0_word_q; auto using units_safe; discriminate|]. split; [reflexivity|]. split.
    { unfold tok_plain, is_identifier. cbn [ttype tvalue]. rewrite safe_word_not_hash by exact Hs. repeat split; reflexivity. }
    split; [apply stq_len_word|].
    intros stX HX _. exists (VBytes b), (stq false R).
    split; [|split; [reflexivity|split; [intros _; exists false; reflexivity|discriminate]]].
    cbn [parse_field]. unfold get_string, get_unescaped. rewrite HX. cbn [bind fst snd]. unfold unescape. cbn [tesc].
    rewrite has_bs_safe by exact Hs. cbn [negb bind fst snd]. unfold as_string, is_identifier, is_quoted. cbn [ttype tvalue].
    change (tIDENT =? tIDENT) with true. change (0 =? 0) with true. cbn [orb negb andb bind fst snd].
    rewrite Ert. reflexivity.
  - (* FIntC *)
    inversion Hp; subst ftext. inversion He; subst v'. specialize (HR1 eq_refl).
    pose proof (dec_safe z ltac:(lia)) as Hs.
    exists (mkTok tIDENT (dec z) (has_bs (dec z)) None), (stq false R).
    split; [apply get0_word_q; auto using units_safe, dec_nonempty|].
    split; [reflexivity|]. split.
    { unfold tok_plain, is_identifier. cbn [ttype tvalue]. rewrite safe_word_not_hash by exact Hs. repeat split; reflexivity. }
    split; [apply stq_len_word|].
    intros stX HX _. exists (VInt z), (stq false R).
    split; [|split; [|split; [intros _; exists false; reflexivity|discriminate]]].
    + cbn [parse_field]. unfold get_int, get_unescaped. rewrite HX. cbn [bind fst snd]. unfold unescape. cbn [tesc].
      rewrite has_bs_safe by exact Hs. cbn [negb bind fst snd]. rewrite as_int_dec by lia. reflexivity.
    + cbn [ctor_field]. replace ((z <? 0) || (z >? maxc)) with false by lia. reflexivity.
  - (* FSigTime *)
    inversion Hp; subst ftext. inversion He; subst v'. specialize (HR1 eq_refl).
    destruct (sigtime_roundtrip z Hv) as (Ert & Hs & Hne).
    exists (mkTok tIDENT (posixtime_to_sigtime z) (has_bs (posixtime_to_sigtime z)) None), (stq false R).
    split; [apply get0_word_q; auto using units_safe|]. split; [reflexivity|]. split.
    { unfold tok_plain, is_identifier. cbn [ttype tvalue]. rewrite safe_word_not_hash by exact Hs. repeat split; reflexivity. }
    split; [apply stq_len_word|].
    intros stX HX _. exists (VInt z), (stq false R).
    split; [|split; [|split; [intros _; exists false; reflexivity|discriminate]]].
    + cbn [parse_field]. unfold get_string, get_unescaped. rewrite HX. cbn [bind fst snd]. unfold unescape. cbn [tesc].
      rewrite has_bs_safe by exact Hs. cbn [negb bind fst snd]. unfold as_string, is_identifier, is_quoted. cbn [ttype tvalue].
      change (tIDENT =? tIDENT) with true. change (0 =? 0) with true. cbn [orb negb andb bind fst snd].
      rewrite Ert. reflexivity.
    + cbn [ctor_field]. replace ((z <? 0) || (z >? 4294967295)) with false by lia. reflexivity.
  - (* FEui *)
    destruct Hv as (Hb & Hl & Hn). inversion Hp; subst ftext. inversion He; subst v'. specialize (HR1 eq_refl).
    destruct (eui_roundtrip en b Hb Hl Hn) as (Ert & Hs & Hne).
    exists (mkTok tIDENT (eui_to_text b) (has_bs (eui_to_text b)) None), (stq false R).
    split; [apply get0_word_q; auto using units_safe|]. split; [reflexivity|]. split.
    { unfold tok_plain, is_identifier. cbn [ttype tvalue]. rewrite safe_word_not_hash by exact Hs. repeat split; reflexivity. }
    split; [apply stq_len_word|].
    intros stX HX _. exists (VBytes b), (stq false R).
    split; [|split; [|split; [intros _; exists false; reflexivity|discriminate]]].
    + cbn [parse_field]. unfold get_string, get_unescaped. rewrite HX. cbn [bind fst snd]. unfold unescape. cbn [tesc].
      rewrite has_bs_safe by exact Hs. cbn [negb bind fst snd]. unfold as_string, is_identifier, is_quoted. cbn [ttype tvalue].
      change (tIDENT =? tIDENT) with true. change (0 =? 0) with true. cbn [orb negb andb bind fst snd].
      rewrite Ert. reflexivity.
    + cbn [ctor_field]. rewrite Hl, Nat.eqb_refl. reflexivity.
  - (* FFmtHex *)
    inversion Hp; subst ftext. inversion He; subst v'. specialize (HR1 eq_refl).
    destruct (fmthex_word b Hv) as (Hs & Hne).
    exists (mkTok tIDENT b (has_bs b) None), (stq false R).
    split; [apply get0_word_q; auto using units_safe|]. split; [reflexivity|]. split.
    { unfold tok_plain, is_identifier. cbn [ttype tvalue]. rewrite safe_word_not_hash by exact Hs. repeat split; reflexivity. }
    split; [apply stq_len_word|].
    intros stX HX _. exists (VBytes b), (stq false R).
    split; [|split; [|split; [intros _; exists false; reflexivity|discriminate]]].
    + cbn [parse_field]. unfold get_identifier, get_unescaped. rewrite HX. cbn [bind fst snd]. unfold unescape. cbn [tesc].
      rewrite has_bs_safe by exact Hs. cbn [negb bind fst snd]. unfold as_identifier, is_identifier. cbn [ttype tvalue].
      change (tIDENT =? tIDENT) with true. reflexivity.
    + cbn [ctor_field]. rewrite Hv. reflexivity.
  - (* FOct16 *)
    inversion Hp; subst ftext. inversion He; subst v'. specialize (HR1 eq_refl).
    destruct (octal_facts z Hv) as (Hne & Hs & Ert).
    exists (mkTok tIDENT (print_base 8 z) (has_bs (print_base 8 z)) None), (stq false R).
    split; [apply get0_word_q; auto using units_safe|]. split; [reflexivity|]. split.
    { unfold tok_plain, is_identifier. cbn [ttype tvalue]. rewrite safe_word_not_hash by exact Hs. repeat split; reflexivity. }
    split; [apply stq_len_word|].
    intros stX HX _. exists (VInt z), (stq false R). split; [|split; [reflexivity|split; [intros _; exists false; reflexivity|discriminate]]].
    cbn [parse_field]. unfold get_uint, get_unescaped. rewrite HX. cbn [bind fst snd]. unfold unescape. cbn [tesc].
    rewrite has_bs_safe by exact Hs. cbn [negb bind fst snd]. rewrite Ert. reflexivity.
  - (* FQOpt *)
    destruct Hv as (Hb & Hl). inversion He; subst v'. specialize (HR2 eq_refl).
    destruct b as [|x b'].
    + (* no subaddress: the next token is the end of the line *)
      cbn [is_nil] in Hp. inversion Hp; subst ftext. cbn [app].
      destruct (get0_end_q_len q bl R Hbl HR2) as (t & st & H1 & H2 & H3 & H4 & H5 & E).
      exists t, st. split; [exact E|]. split; [exact H4|]. split.
      { destruct (eol_not_ws t H1) as [A B]. unfold tok_plain. rewrite A, B, H2. repeat split; reflexivity. }
      split; [unfold stq; cbn [inp]; rewrite !app_length; lia|].
      intros stX HX _.
      assert (Hst : exists st2, unget st t = Ok st2 /\ ungot st2 = Some t).
      { unfold unget. rewrite H4. eexists. split; reflexivity. }
      destruct Hst as (st2 & U1 & U2).
      exists (VBytes []), st2. split; [|split; [reflexivity|split; [discriminate|intros _; left; exists t; split; assumption]]].
      cbn [parse_field]. unfold get_remaining, rem_fuel. rewrite grl_unfold_m. rewrite HX. cbn [bind]. rewrite H1, U1.
      cbn [bind rev fst snd]. reflexivity.
    + cbn [is_nil] in Hp. inversion Hp; subst ftext. set (s := x :: b') in *.
      destruct (get0_quoted_q q (bl ++ [32]) s R ltac:(rewrite forallb_app, Hbl; reflexivity) Hb) as (he & E).
      exists (mkTok tQUOTED (escapify s) he None), (stq true R).
      unfold quote. replace (bl ++ (32 :: 34 :: escapify s ++ [34]) ++ R) with ((bl ++ [32]) ++ 34 :: escapify s ++ 34 :: R)
        by (rewrite <- !app_assoc; cbn [app]; rewrite <- app_assoc; reflexivity).
      split; [exact E|]. split; [reflexivity|]. split; [repeat split; reflexivity|]. split.
      { unfold stq. cbn [inp pend app]. rewrite !app_length. cbn [length]. rewrite app_length. cbn [length]. lia. }
      intros stX HX _. exists (VBytes s), (stq true R).
      split; [|split; [|split; [discriminate|intros _; right; exists true, []; split; reflexivity]]].
      * cbn [parse_field]. unfold get_remaining, rem_fuel. rewrite grl_unfold_m. rewrite HX. cbn [bind].
        unfold is_eol_or_eof at 1. cbn [ttype]. change (tQUOTED =? tEOL) with false. change (tQUOTED =? tEOF) with false.
        cbn [orb]. change (negb (1 =? 0) && (zlen [mkTok tQUOTED (escapify s) he None] =? 1)) with true. cbv iota.
        cbn [rev app bind fst snd]. unfold unescape_to_bytes. cbn [tvalue ttype].
        rewrite unescape_to_bytes_escapify by exact Hb. cbn [bind tvalue]. reflexivity.
      * cbn [ctor_field]. replace (zlen s >? 255) with false by lia. reflexivity.
  - (* FHexStr *)
    destruct Hv as (Hb & Hne & Hl). inversion Hp; subst ftext. inversion He; subst v'. specialize (HR1 eq_refl).
    destruct (hexlify_safe b Hb) as [Hs Ha].
    assert (Hn0 : hexlify b <> []) by (destruct b as [|x b']; [congruence|discriminate]).
    exists (mkTok tIDENT (hexlify b) (has_bs (hexlify b)) None), (stq false R).
    split; [apply get0_word_q; auto using units_safe|]. split; [reflexivity|]. split.
    { unfold tok_plain, is_identifier. cbn [ttype tvalue]. rewrite safe_word_not_hash by exact Hs. repeat split; reflexivity. }
    split; [apply stq_len_word|].
    intros stX HX _. exists (VBytes b), (stq false R).
    split; [|split; [|split; [intros _; exists false; reflexivity|discriminate]]].
    + cbn [parse_field]. unfold get_string, get_unescaped. rewrite HX. cbn [bind fst snd]. unfold unescape. cbn [tesc].
      rewrite has_bs_safe by exact Hs. cbn [negb bind fst snd]. unfold as_string, is_identifier, is_quoted. cbn [ttype tvalue].
      change (tIDENT =? tIDENT) with true. change (0 =? 0) with true. cbn [orb negb andb bind fst snd].
      rewrite utf8_ascii by exact Ha. cbn [bind]. rewrite unhexlify_hexlify by exact Hb. reflexivity.
    + cbn [ctor_field]. replace (zlen b >? 255) with false by lia. reflexivity.
  - (* FB64Tok *)
    destruct Hv as (Hb & Hne & Hl). inversion Hp; subst ftext. inversion He; subst v'. specialize (HR1 eq_refl).
    destruct (b64encode_safe b Hb) as [Hs Ha].
    assert (Hn0 : b64encode b <> []) by (destruct b as [|x [|y [|z b']]]; [congruence|discriminate|discriminate|discriminate]).
    exists (mkTok tIDENT (b64encode b) (has_bs (b64encode b)) None), (stq false R).
    split; [apply get0_word_q; auto using units_safe|]. split; [reflexivity|]. split.
    { unfold tok_plain, is_identifier. cbn [ttype tvalue]. rewrite safe_word_not_hash by exact Hs. repeat split; reflexivity. }
    split; [apply stq_len_word|].
    intros stX HX _. exists (VBytes b), (stq false R).
    split; [|split; [|split; [intros _; exists false; reflexivity|discriminate]]].
    + cbn [parse_field]. unfold get_string, get_unescaped. rewrite HX. cbn [bind fst snd]. unfold unescape. cbn [tesc].
      rewrite has_bs_safe by exact Hs. cbn [negb bind fst snd]. unfold as_string, is_identifier, is_quoted. cbn [ttype tvalue].
      change (tIDENT =? tIDENT) with true. change (0 =? 0) with true. cbn [orb negb andb bind fst snd].
      rewrite utf8_ascii by exact Ha. cbn [bind]. rewrite b64decode_b64encode by exact Hb. reflexivity.
    + cbn [ctor_field]. replace (zlen b >? bmax) with false by lia. reflexivity.
  - (* FNamesRest *)
    specialize (HR2 eq_refl).
    destruct (map_res (name_to_styled_text sty) nl) as [ts| |] eqn:Ets; cbn [bind] in Hp; try discriminate.
    inversion Hp; subst ftext. fold (spaced ts).
    destruct (map_res (name_path sty c) nl) as [nl'| |] eqn:Enp; cbn [bind] in He; try discriminate.
    inversion He; subst v'.
    destruct (names_texts sty nl Hv HO ts Ets) as [Hw Hback]. specialize (Hback c). rewrite Enp in Hback.
    destruct ts as [|t1 ts'].
    + cbn [spaced flat_map app].
      destruct (get0_end_q_len q bl R Hbl HR2) as (t & st & H1 & H2 & H3 & H4 & H5 & E).
      exists t, st. split; [exact E|]. split; [exact H4|]. split.
      { destruct (eol_not_ws t H1) as [A B]. unfold tok_plain. rewrite A, B, H2. repeat split; reflexivity. }
      split; [unfold stq; cbn [inp]; rewrite !app_length; lia|].
      intros stX HX _.
      assert (Hst : exists st2, unget st t = Ok st2 /\ ungot st2 = Some t).
      { unfold unget. rewrite H4. eexists. split; reflexivity. }
      destruct Hst as (st2 & U1 & U2).
      exists (VNames nl'), st2. split; [|split; [reflexivity|split; [discriminate|intros _; left; exists t; split; assumption]]].
      cbn [parse_field]. unfold get_remaining, rem_fuel. rewrite grl_unfold. rewrite HX. cbn [bind]. rewrite H1, U1.
      cbn [bind rev fst snd]. cbn [map] in Hback. rewrite Hback. reflexivity.
    + inversion Hw as [|? ? [Hu1 Hne1] Hw']; subst.
      assert (Hshape : bl ++ spaced (t1 :: ts') ++ R = (bl ++ [32]) ++ t1 ++ (spaced ts' ++ R)).
      { unfold spaced. cbn [flat_map]. rewrite <- ?app_assoc. cbn [app]. rewrite <- ?app_assoc. reflexivity. }
      rewrite Hshape.
      pose proof (get0_word_q q (bl ++ [32]) t1 (spaced ts' ++ R)
                   ltac:(rewrite forallb_app, Hbl; reflexivity) Hu1 Hne1 (spaced_word_end ts' R HR2)) as E.
      exists (utok t1), (stq false (spaced ts' ++ R)).
      split; [exact E|]. split; [reflexivity|]. split.
      { (* a name text is never the generic marker: its first character decides *)
        unfold tok_plain, is_identifier, utok. cbn [ttype tvalue]. repeat split; try reflexivity.
        change (tIDENT =? tIDENT) with true. cbn [andb].
        assert (Hm := Ets). cbn [map_res] in Hm.
        destruct nl as [|n0 nl0]; [discriminate|]. cbn [map_res] in Hm.
        destruct (name_to_styled_text sty n0) as [t0| |] eqn:E0; cbn [bind] in Hm; try discriminate.
        destruct (map_res (name_to_styled_text sty) nl0); cbn [bind] in Hm; try discriminate.
        inversion Hm; subst t0. inversion Hv as [|? ? [V0 B0] _]; subst.
        unfold name_to_styled_text in E0.
        destruct (choose_relativity n0 (s_origin sty) (s_relativize sty)) as [n1| |] eqn:E3; cbn [bind] in E0; try discriminate.
        inversion E0; subst t1. destruct (choose_relativity_ok _ _ _ _ V0 B0 HO E3) as [V1 B1].
        destruct (name_text_word n1 V1 B1) as (_ & _ & Hh). exact Hh. }
      split; [unfold stq; cbn [inp pend app]; rewrite !app_length; cbn [length]; lia|].
      intros stX HX HL.
      destruct (grl_uwords ts' Hw' false R (S (length (inp stX))) [utok t1] HR2) as (te & st & T1 & T2 & E2).
      { assert (Hlen : (length ts' <= length (spaced ts' ++ R))%nat).
        { clear. rewrite app_length. induction ts' as [|x l IH]; cbn [spaced flat_map length]; [lia|].
          rewrite app_length. cbn [length]. unfold spaced in IH. lia. }
        unfold stq in HL. cbn [inp pend app] in HL. lia. }
      exists (VNames nl'), st. split; [|split; [reflexivity|split; [discriminate|intros _; left; exists te; split; assumption]]].
      cbn [parse_field]. unfold get_remaining, rem_fuel. rewrite grl_unfold. rewrite HX. cbn [bind].
      assert (Heol : is_eol_or_eof (utok t1) = false) by reflexivity. rewrite Heol.
      rewrite E2. cbn [bind rev app fst snd].
      change (utok t1 :: map utok ts') with (map utok (t1 :: ts')). rewrite Hback. reflexivity.
  - (* FNameNoRel *)
    destruct Hv as (V & HB). specialize (HR1 eq_refl).
    unfold name_to_styled_text in Hp.
    destruct (choose_relativity n (s_origin sty) (s_relativize sty)) as [n1| |] eqn:E1; cbn [bind] in Hp; try discriminate.
    inversion Hp; subst ftext.
    destruct (choose_relativity_ok _ _ _ _ V HB HO E1) as [V1 B1].
    destruct (name_text_word n1 V1 B1) as (Hu & Hne & Hh).
    exists (mkTok tIDENT (NameM.to_text n1) (has_bs (NameM.to_text n1)) None), (stq false R).
    split; [apply get0_word_q; assumption|]. split; [reflexivity|]. split.
    { unfold tok_plain, is_identifier. cbn [ttype tvalue]. rewrite Hh. repeat split; reflexivity. }
    split; [apply stq_len_word|].
    intros stX HX _.
    destruct (name_path sty (mkPctx None false None) n) as [n'| |] eqn:E2; cbn [bind] in He; try discriminate. inversion He; subst v'.
    exists (VName n'), (stq false R). split; [|split; [reflexivity|split; [intros _; exists false; reflexivity|discriminate]]].
    cbn [parse_field]. unfold get_name. rewrite HX. cbn [bind fst snd].
    rewrite (as_name_printed sty (mkPctx None false None) n (NameM.to_text n1)) by (auto; unfold name_to_styled_text; rewrite E1; reflexivity).
    rewrite E2. reflexivity.
  - (* FB64RestOpt *)
    destruct Hv as (Hb & Hl). inversion He; subst v'. specialize (HR2 eq_refl). inversion Hp; subst ftext. clear Hp.
    destruct b as [|x b'].
    + cbn [is_nil app].
      destruct (get0_end_q_len q bl R Hbl HR2) as (t & st & H1 & H2 & H3 & H4 & H5 & E).
      exists t, st. split; [exact E|]. split; [exact H4|]. split.
      { destruct (eol_not_ws t H1) as [A B]. unfold tok_plain. rewrite A, B, H2. repeat split; reflexivity. }
      split; [unfold stq; cbn [inp]; rewrite !app_length; lia|].
      intros stX HX _.
      assert (Hst : exists st2, unget st t = Ok st2 /\ ungot st2 = Some t).
      { unfold unget. rewrite H4. eexists. split; reflexivity. }
      destruct Hst as (st2 & U1 & U2).
      exists (VBytes []), st2. split; [|split; [reflexivity|split; [discriminate|intros _; left; exists t; split; assumption]]].
      cbn [parse_field]. unfold concatenate_remaining_identifiers, rem_fuel. rewrite cri_unfold. unfold get_unescaped.
      rewrite HX. cbn [bind fst snd]. unfold unescape. rewrite H3. cbn [negb bind fst snd]. rewrite H1, U1.
      cbn [bind fst snd orb negb is_nil utf8_encode]. reflexivity.
    + change (is_nil (x :: b')) with false. cbv iota. set (s := x :: b') in *.
      destruct (b64encode_safe s Hb) as [Hs Ha].
      assert (Hch : chunked (b64encode s) (b64encode s)) by (apply chunked_single; exact Hs).
      assert (Hne' : b64encode s <> []) by (unfold s; destruct b' as [|y [|z b'']]; discriminate).
      replace (bl ++ (32 :: b64encode s) ++ R) with ((bl ++ [32]) ++ b64encode s ++ R) by (rewrite <- app_assoc; reflexivity).
      destruct (rest_bytes_ok b64decode (b64encode s) s _ R q (bl ++ [32]) Hch Hne' Ha (b64decode_b64encode s Hb)
                  ltac:(rewrite forallb_app, Hbl; reflexivity) HR2)
        as (t1 & s1 & G1 & G2 & G3 & G4 & G5).
      exists t1, s1. split; [exact G1|]. split; [exact G2|]. split; [exact G3|]. split; [exact G4|]. intros stX HX HL.
      destruct (G5 stX HX HL true) as (se & te & P1 & P2 & P3).
      exists (VBytes s), se. split; [exact P1|]. split; [|split; [discriminate|intros _; left; exists te; split; assumption]].
      cbn [ctor_field]. replace (zlen s >? 65535) with false by lia. reflexivity.
  - (* FGw *)
    destruct Hv as (Ha & Ha0 & Hgw). specialize (HR1 eq_refl).
    (* the gateway token gt and what Gateway.from_text (reading + _check) makes of it *)
    assert (Hg : exists gt gw', 
              (match gw with GwNone => Ok [46] | GwText t => Ok t | GwName n => name_to_styled_text sty n end) = Ok gt /\
              units gt /\ gt <> [] /\ 0 <= g <= 3 /\ v' = VGw g a gw' /\
              forall q0 X, word_end X ->
                (if (g =? 0) || (g =? 1) || (g =? 2)
                 then do ts <- get_string (stq q0 ([32] ++ gt ++ X)) 0; do v <- gw_check g a (GwText (fst ts)); Ok (v, snd ts)
                 else if g =? 3 then do ns <- get_name c (stq q0 ([32] ++ gt ++ X)); do v <- gw_check g a (GwName (fst ns)); Ok (v, snd ns)
                 else Lib eSyntax) = Ok (VGw g a gw', stq false X)).
    { destruct gw as [|t|n].
      - subst g. inversion He; subst v'. exists [46], GwNone. split; [reflexivity|]. split; [apply units_safe; reflexivity|].
        split; [discriminate|]. split; [lia|]. split; [reflexivity|]. intros q0 X HX0.
        cbn [Z.eqb orb]. rewrite get_string_word by (auto; discriminate). cbn [bind fst snd]. reflexivity.
      - inversion He; subst v'. destruct Hgw as [(-> & b & Hb & Hl & Ent)|(-> & b & Hb & Hl & Ent)].
        + destruct (ipv4_roundtrip b Hb Hl) as (t' & E1 & E2). rewrite Ent in E1. inversion E1; subst t'.
          destruct (ipv4_ntoa_word b t Hb Ent) as [Hs Hne].
          exists t, (GwText t). split; [reflexivity|]. split; [apply units_safe, Hs|]. split; [exact Hne|]. split; [lia|].
          split; [reflexivity|]. intros q0 X HX0. cbn [Z.eqb orb].
          rewrite get_string_word by auto. cbn [bind fst snd]. unfold gw_check. cbn [Z.eqb]. rewrite E2. reflexivity.
        + destruct (ipv6_roundtrip b Hb Hl) as (t' & E1 & E2). rewrite Ent in E1. inversion E1; subst t'.
          destruct (ipv6_ntoa_word b t Hb Ent) as [Hs Hne].
          exists t, (GwText t). split; [reflexivity|]. split; [apply units_safe, Hs|]. split; [exact Hne|]. split; [lia|].
          split; [reflexivity|]. intros q0 X HX0. cbn [Z.eqb orb].
          rewrite get_string_word by auto. cbn [bind fst snd]. unfold gw_check. cbn [Z.eqb]. rewrite E2. reflexivity.
      - destruct Hgw as (-> & V & HB). cbn [expect] in He.
        destruct (name_path sty c n) as [n'| |] eqn:E2; cbn [bind] in He; try discriminate. inversion He; subst v'.
        destruct (name_to_styled_text sty n) as [t| |] eqn:E1.
        2,3: (cbn [bind] in Hp; discriminate).
        assert (Hw : units t /\ t <> []).
        { unfold name_to_styled_text in E1.
          destruct (choose_relativity n (s_origin sty) (s_relativize sty)) as [n1| |] eqn:E3; cbn [bind] in E1; try discriminate.
          inversion E1; subst t. destruct (choose_relativity_ok _ _ _ _ V HB HO E3) as [V1 B1].
          destruct (name_text_word n1 V1 B1) as (Hu & Hne & _). split; assumption. }
        destruct Hw as [Hu Hne].
        exists t, (GwName n'). split; [reflexivity|]. split; [exact Hu|]. split; [exact Hne|]. split; [lia|].
        split; [reflexivity|]. intros q0 X HX0. cbn [Z.eqb orb].
        rewrite get_name_word by auto. unfold utok. rewrite (as_name_printed sty c n t (has_bs t) V HB HO E1). rewrite E2.
        cbn [bind fst snd]. reflexivity. }
    destruct Hg as (gt & gw' & Egt & Hu & Hne & Hg03 & -> & Hread).
    rewrite Egt in Hp. cbn [bind] in Hp. inversion Hp; subst ftext. clear Hp.
    pose proof (dec_safe g ltac:(lia)) as Hsg.
    set (mid := if ipsec then dec a ++ [32] else []).
    assert (Etext : bl ++ (dec g ++ 32 :: mid ++ gt) ++ R = bl ++ dec g ++ ([32] ++ mid ++ gt ++ R))
      by (rewrite <- !app_assoc; cbn [app]; rewrite <- !app_assoc; reflexivity).
    fold mid. rewrite Etext.
    exists (mkTok tIDENT (dec g) (has_bs (dec g)) None), (stq false ([32] ++ mid ++ gt ++ R)).
    split; [apply get0_word_q; auto using units_safe, dec_nonempty; apply word_end_blank32|].
    split; [reflexivity|]. split.
    { unfold tok_plain, is_identifier. cbn [ttype tvalue]. rewrite safe_word_not_hash by exact Hsg. repeat split; reflexivity. }
    split; [apply stq_len_word|].
    intros stX HX _.
    assert (Hmid : (do as_ <- (if ipsec then get_uint max8 (stq false ([32] ++ mid ++ gt ++ R)) 10
                              else if g >? 127 then Lib eSyntax else Ok (0, stq false ([32] ++ mid ++ gt ++ R)));
                    Ok as_) = Ok (a, stq false ([32] ++ gt ++ R))).
    { unfold mid. destruct ipsec.
      - replace ([32] ++ (dec a ++ [32]) ++ gt ++ R) with ([32] ++ dec a ++ ([32] ++ gt ++ R)) by (rewrite <- !app_assoc; reflexivity).
        rewrite (get_uint_word false [32] a max8 ([32] ++ gt ++ R) eq_refl ltac:(unfold max8; lia) (word_end_blank32 _)). reflexivity.
      - replace (g >? 127) with false by lia. rewrite (Ha0 eq_refl). reflexivity. }
    exists (VGw g a gw'), (stq false R). split; [|split; [reflexivity|split; [intros _; exists false; reflexivity|discriminate]]].
    cbn [parse_field]. rewrite (get_uint_from g max8 stX _ ltac:(unfold max8; lia) HX). cbn [bind fst snd].
    match type of Hmid with (do as_ <- ?e; Ok as_) = _ => destruct e as [[a1 s2]| |] eqn:Em; cbn [bind] in Hmid; try discriminate end.
    inversion Hmid; subst a1 s2. cbn [bind fst snd]. exact (Hread false R HR1).
  - (* FB64RestE *)
    inversion Hp; subst ftext. inversion He; subst v'. specialize (HR2 eq_refl). clear Hp.
    destruct b as [|x b'].
    + unfold styled_base64ify. change (b64encode []) with (@nil Z). rewrite wordbreak_nil. cbn [app].
      destruct (get0_end_q_len q bl R Hbl HR2) as (t & st & H1 & H2 & H3 & H4 & H5 & E).
      exists t, st. split; [exact E|]. split; [exact H4|]. split.
      { destruct (eol_not_ws t H1) as [A B]. unfold tok_plain. rewrite A, B, H2. repeat split; reflexivity. }
      split; [unfold stq; cbn [inp]; rewrite !app_length; lia|].
      intros stX HX _.
      assert (Hst : exists st2, unget st t = Ok st2 /\ ungot st2 = Some t).
      { unfold unget. rewrite H4. eexists. split; reflexivity. }
      destruct Hst as (st2 & U1 & U2).
      exists (VBytes []), st2. split; [|split; [reflexivity|split; [discriminate|intros _; left; exists t; split; assumption]]].
      cbn [parse_field]. unfold concatenate_remaining_identifiers, rem_fuel. rewrite cri_unfold. unfold get_unescaped.
      rewrite HX. cbn [bind fst snd]. unfold unescape. rewrite H3. cbn [negb bind fst snd]. rewrite H1, U1.
      cbn [bind fst snd orb negb is_nil utf8_encode]. reflexivity.
    + set (s := x :: b') in *.
      destruct (b64encode_safe s Hv) as [Hs Ha].
      assert (Hch : chunked (b64encode s) (styled_base64ify s (s_b64_chunk sty) (s_b64_sep sty)))
        by (apply wordbreak_chunked; assumption).
      assert (Hne' : b64encode s <> []) by (unfold s; destruct b' as [|y [|z b'']]; discriminate).
      destruct (rest_bytes_ok b64decode (b64encode s) s _ R q bl Hch Hne' Ha (b64decode_b64encode s Hv) Hbl HR2)
        as (t1 & s1 & G1 & G2 & G3 & G4 & G5).
      exists t1, s1. split; [exact G1|]. split; [exact G2|]. split; [exact G3|]. split; [exact G4|]. intros stX HX HL.
      destruct (G5 stX HX HL true) as (se & te & P1 & P2 & P3).
      exists (VBytes s), se. split; [exact P1|]. split; [reflexivity|]. split; [discriminate|]. intros _. left. exists te. split; assumption.
  - (* FMac *)
    destruct Hv as (Hb & Hne & Hl). inversion Hp; subst ftext. inversion He; subst v'. specialize (HR1 eq_refl). clear Hp.
    assert (Hn : 0 <= zlen b <= 65535) by (unfold zlen in *; lia).
    destruct (b64encode_safe b Hb) as [Hs Ha].
    assert (Hn0 : b64encode b <> []) by (destruct b as [|x [|y [|z b']]]; [congruence|discriminate|discriminate|discriminate]).
    pose proof (dec_safe (zlen b) ltac:(lia)) as Hsn.
    assert (Etext : bl ++ (dec (zlen b) ++ 32 :: b64encode b) ++ R = bl ++ dec (zlen b) ++ ([32] ++ b64encode b ++ R))
      by (rewrite <- !app_assoc; reflexivity).
    rewrite Etext.
    exists (mkTok tIDENT (dec (zlen b)) (has_bs (dec (zlen b))) None), (stq false ([32] ++ b64encode b ++ R)).
    split; [apply get0_word_q; auto using units_safe, dec_nonempty; apply word_end_blank32|].
    split; [reflexivity|]. split.
    { unfold tok_plain, is_identifier. cbn [ttype tvalue]. rewrite safe_word_not_hash by exact Hsn. repeat split; reflexivity. }
    split; [apply stq_len_word|].
    intros stX HX _. exists (VBytes b), (stq false R).
    split; [|split; [reflexivity|split; [intros _; exists false; reflexivity|discriminate]]].
    cbn [parse_field]. rewrite (get_uint_from (zlen b) max16 stX _ ltac:(unfold max16; lia) HX). cbn [bind fst snd].
    rewrite (get_string_word false [32] (b64encode b) R eq_refl Hs Hn0 HR1). cbn [bind fst snd].
    unfold b64decode_str. change (forallb (fun c => (0 <=? c) && (c <? 128)) (b64encode b)) with (all_ascii (b64encode b)).
    rewrite Ha. rewrite b64decode_b64encode by exact Hb. cbn [bind]. rewrite Z.eqb_refl. reflexivity.
  - (* FOther *)
    destruct Hv as (Hb & Hl). inversion Hp; subst ftext. inversion He; subst v'. specialize (HR1 eq_refl). clear Hp.
    assert (Hn : 0 <= zlen b <= 65535) by (unfold zlen in *; lia).
    pose proof (dec_safe (zlen b) ltac:(lia)) as Hsn.
    destruct b as [|x b'].
    + cbn [is_nil]. rewrite app_nil_r.
      exists (mkTok tIDENT (dec (zlen (@nil Z))) (has_bs (dec (zlen (@nil Z)))) None), (stq false R).
      split; [apply get0_word_q; auto using units_safe, dec_nonempty|]. split; [reflexivity|]. split.
      { unfold tok_plain, is_identifier. cbn [ttype tvalue]. rewrite safe_word_not_hash by exact Hsn. repeat split; reflexivity. }
      split; [apply stq_len_word|].
      intros stX HX _. exists (VBytes []), (stq false R).
      split; [|split; [reflexivity|split; [intros _; exists false; reflexivity|discriminate]]].
      cbn [parse_field]. rewrite (get_uint_from (zlen (@nil Z)) max16 stX _ ltac:(unfold max16, zlen; cbn; lia) HX). cbn [bind fst snd].
      change (zlen (@nil Z) >? 0) with false. reflexivity.
    + change (is_nil (x :: b')) with false. cbv iota. set (s := x :: b') in *.
      destruct (b64encode_safe s Hb) as [Hs Ha].
      assert (Hn0 : b64encode s <> []) by (unfold s; destruct b' as [|y [|z b'']]; discriminate).
      assert (Etext : bl ++ (dec (zlen s) ++ 32 :: b64encode s) ++ R = bl ++ dec (zlen s) ++ ([32] ++ b64encode s ++ R))
        by (rewrite <- !app_assoc; reflexivity).
      rewrite Etext.
      exists (mkTok tIDENT (dec (zlen s)) (has_bs (dec (zlen s))) None), (stq false ([32] ++ b64encode s ++ R)).
      split; [apply get0_word_q; auto using units_safe, dec_nonempty; apply word_end_blank32|].
      split; [reflexivity|]. split.
      { unfold tok_plain, is_identifier. cbn [ttype tvalue]. rewrite safe_word_not_hash by exact Hsn. repeat split; reflexivity. }
      split; [apply stq_len_word|].
      intros stX HX _. exists (VBytes s), (stq false R).
      split; [|split; [reflexivity|split; [intros _; exists false; reflexivity|discriminate]]].
      cbn [parse_field]. rewrite (get_uint_from (zlen s) max16 stX _ ltac:(unfold max16; lia) HX). cbn [bind fst snd].
      replace (zlen s >? 0) with true by (symmetry; apply Z.gtb_lt; unfold s, zlen; cbn [length]; lia).
      rewrite (get_string_word false [32] (b64encode s) R eq_refl Hs Hn0 HR1). cbn [bind fst snd].
      unfold b64decode_str. change (forallb (fun c => (0 <=? c) && (c <? 128)) (b64encode s)) with (all_ascii (b64encode s)).
      rewrite Ha. rewrite b64decode_b64encode by exact Hb. cbn [bind]. rewrite Z.eqb_refl. reflexivity.
  - (* FGposStr *)
    destruct Hv as ((p & Hpf) & Hl). inversion Hp; subst ftext. inversion He; subst v'. specialize (HR1 eq_refl).
    destruct (float_string_word b p Hpf) as (Hs & Ha & Hne).
    exists (mkTok tIDENT b (has_bs b) None), (stq false R).
    split; [apply get0_word_q; auto using units_safe|]. split; [reflexivity|]. split.
    { unfold tok_plain, is_identifier. cbn [ttype tvalue]. rewrite safe_word_not_hash by exact Hs. repeat split; reflexivity. }
    split; [apply stq_len_word|].
    intros stX HX _. exists (VBytes b), (stq false R).
    split; [|split; [|split; [intros _; exists false; reflexivity|discriminate]]].
    + cbn [parse_field]. unfold get_string, get_unescaped. rewrite HX. cbn [bind fst snd]. unfold unescape. cbn [tesc].
      rewrite has_bs_safe by exact Hs. cbn [negb bind fst snd]. unfold as_string, is_identifier, is_quoted. cbn [ttype tvalue].
      change (tIDENT =? tIDENT) with true. change (0 =? 0) with true. reflexivity.
    + cbn [ctor_field]. rewrite utf8_ascii by exact Ha. cbn [bind]. replace (zlen b >? 255) with false by lia. reflexivity.
  - (* FAddr4S *)
    destruct Hv as (Hb & Hl). inversion He; subst v'. specialize (HR1 eq_refl).
    destruct (ipv4_roundtrip b Hb Hl) as (t & E1 & E2). rewrite E1 in Hp. inversion Hp; subst t.
    destruct (ipv4_ntoa_word b ftext Hb E1) as [Hs Hne].
    exists (mkTok tIDENT ftext (has_bs ftext) None), (stq false R).
    split; [apply get0_word_q; auto using units_safe|]. split; [reflexivity|]. split.
    { unfold tok_plain, is_identifier. cbn [ttype tvalue]. rewrite safe_word_not_hash by exact Hs. repeat split; reflexivity. }
    split; [apply stq_len_word|].
    intros stX HX _. exists (VBytes ftext), (stq false R).
    split; [|split; [|split; [intros _; exists false; reflexivity|discriminate]]].
    + cbn [parse_field]. unfold get_string, get_unescaped. rewrite HX. cbn [bind fst snd]. unfold unescape. cbn [tesc].
      rewrite has_bs_safe by exact Hs. cbn [negb bind fst snd]. unfold as_string, is_identifier, is_quoted. cbn [ttype tvalue].
      change (tIDENT =? tIDENT) with true. change (0 =? 0) with true. reflexivity.
    + cbn [ctor_field]. rewrite E2. reflexivity.
  - (* FWksProto *)
    inversion Hp; subst ftext. inversion He; subst v'. specialize (HR1 eq_refl).
    pose proof (dec_safe z ltac:(lia)) as Hs.
    exists (mkTok tIDENT (dec z) (has_bs (dec z)) None), (stq false R).
    split; [apply get0_word_q; auto using units_safe, dec_nonempty|]. split; [reflexivity|]. split.
    { unfold tok_plain, is_identifier. cbn [ttype tvalue]. rewrite safe_word_not_hash by exact Hs. repeat split; reflexivity. }
    split; [apply stq_len_word|].
    intros stX HX _. exists (VInt z), (stq false R).
    split; [|split; [|split; [intros _; exists false; reflexivity|discriminate]]].
    + cbn [parse_field]. unfold get_string, get_unescaped. rewrite HX. cbn [bind fst snd]. unfold unescape. cbn [tesc].
      rewrite has_bs_safe by exact Hs. cbn [negb bind fst snd]. unfold as_string, is_identifier, is_quoted. cbn [ttype tvalue].
      change (tIDENT =? tIDENT) with true. change (0 =? 0) with true. cbn [orb negb andb bind fst snd].
      rewrite (dec_decimal z ltac:(lia)).
      replace (is_nil (dec z)) with false by (pose proof (dec_nonempty z); destruct (dec z); [congruence|reflexivity]).
      cbn [negb andb]. rewrite dec_value_pv, pv_dec by lia. reflexivity.
    + cbn [ctor_field]. replace ((z <? 0) || (z >? 255)) with false by lia. reflexivity.
  - (* FWksPorts *)
    destruct Hv as (Hb & Hcan & Hl). specialize (HR2 eq_refl). inversion He; subst v'. inversion Hp; subst ftext. clear Hp.
    destruct (wks_tokens (wks_ports b) (wks_ports_range b Hl)) as (Hw & Hsafe & Hback).
    pose proof (wks_bitmap_roundtrip b Hb Hcan) as Hrt.
    destruct (map dec (wks_ports b)) as [|t1 ts'] eqn:Ets.
    + cbn [join_sp app].
      destruct (get0_end_q_len q bl R Hbl HR2) as (t & st & H1 & H2 & H3 & H4 & H5 & E).
      exists t, st. split; [exact E|]. split; [exact H4|]. split.
      { destruct (eol_not_ws t H1) as [A B]. unfold tok_plain. rewrite A, B, H2. repeat split; reflexivity. }
      split; [unfold stq; cbn [inp]; rewrite !app_length; lia|].
      intros stX HX _.
      assert (Hst : exists st2, unget st t = Ok st2 /\ ungot st2 = Some t).
      { unfold unget. rewrite H4. eexists. split; reflexivity. }
      destruct Hst as (st2 & U1 & U2).
      exists (VBytes b), st2. split; [|split; [reflexivity|split; [discriminate|intros _; left; exists t; split; assumption]]].
      cbn [parse_field]. unfold get_remaining, rem_fuel. rewrite grl_unfold. rewrite HX. cbn [bind]. rewrite H1, U1.
      cbn [bind rev fst snd]. cbn [map] in Hback. rewrite Hback. cbn [bind]. rewrite Hrt. reflexivity.
    + inversion Hw as [|? ? [Hu1 Hne1] Hw']; subst. inversion Hsafe as [|? ? Hs1 _]; subst.
      rewrite join_sp_cons_spaced.
      assert (Hshape : bl ++ (t1 ++ spaced ts') ++ R = bl ++ t1 ++ (spaced ts' ++ R)) by (rewrite <- !app_assoc; reflexivity).
      rewrite Hshape.
      pose proof (get0_word_q q bl t1 (spaced ts' ++ R) Hbl Hu1 Hne1 (spaced_word_end ts' R HR2)) as E.
      exists (utok t1), (stq false (spaced ts' ++ R)).
      split; [exact E|]. split; [reflexivity|]. split.
      { unfold tok_plain, is_identifier, utok. cbn [ttype tvalue]. rewrite safe_word_not_hash by exact Hs1. repeat split; reflexivity. }
      split; [apply stq_len_word|].
      intros stX HX HL.
      destruct (grl_uwords ts' Hw' false R (S (length (inp stX))) [utok t1] HR2) as (te & st & T1 & T2 & E2).
      { assert (Hlen : (length ts' <= length (spaced ts' ++ R))%nat).
        { clear. rewrite app_length. induction ts' as [|x l IH]; cbn [spaced flat_map length]; [lia|].
          rewrite app_length. cbn [length]. unfold spaced in IH. lia. }
        unfold stq in HL. cbn [inp pend app] in HL. lia. }
      exists (VBytes b), st. split; [|split; [reflexivity|split; [discriminate|intros _; left; exists te; split; assumption]]].
      cbn [parse_field]. unfold get_remaining, rem_fuel. rewrite grl_unfold. rewrite HX. cbn [bind].
      assert (Heol : is_eol_or_eof (utok t1) = false) by reflexivity. rewrite Heol.
      rewrite E2. cbn [bind rev app fst snd].
      change (utok t1 :: map utok ts') with (map utok (t1 :: ts')). rewrite Hback. cbn [bind]. rewrite Hrt. reflexivity.
  - (* FLocRec *)
    specialize (HR2 eq_refl). inversion He; subst v'. inversion Hp; subst ftext. clear Hp.
    destruct la as [[[[d1 m1] s1] ms1] sg1]. destruct lo as [[[[d2 m2] s2] ms2] sg2].
    apply loc_wf_ok in Hv. pose proof Hv as ((Hd1 & _) & _).
    pose proof (dec_safe d1 Hd1) as Hsd.
    set (REST := [32] ++ dec m1 ++ ([32] ++ secs_text s1 ms1 ++ ([32] ++ [hemi sg1 78 83] ++ (32 ::
       (dec d2 ++ ([32] ++ dec m2 ++ ([32] ++ secs_text s2 ms2 ++ ([32] ++ [hemi sg2 69 87] ++ (32 ::
          (meters_text (the_dbl (dbl_of_Z lalt)) ++ loc_tail lsz lhp lvp R)))))))))).
    assert (Etext : bl ++ loc_to_text (d1, m1, s1, ms1, sg1) (d2, m2, s2, ms2, sg2) lalt lsz lhp lvp ++ R = bl ++ dec d1 ++ REST).
    { unfold REST, loc_to_text, coord_text, secs_text, loc_tail, hemi, loc_sizes_default.
      destruct (dbl_eqb lsz loc_default_size && dbl_eqb lhp loc_default_hprec && dbl_eqb lvp loc_default_vprec);
        repeat (rewrite <- ?app_assoc; cbn [app]); reflexivity. }
    rewrite Etext.
    exists (mkTok tIDENT (dec d1) (has_bs (dec d1)) None), (stq false REST).
    split; [apply get0_word_q; auto using units_safe, dec_nonempty; apply word_end_blank32|].
    split; [reflexivity|]. split.
    { unfold tok_plain, is_identifier. cbn [ttype tvalue]. rewrite safe_word_not_hash by exact Hsd. repeat split; reflexivity. }
    split; [apply stq_len_word|].
    intros stX HX _. rewrite has_bs_safe in HX by exact Hsd.
    destruct (loc_after_first d1 m1 s1 ms1 sg1 d2 m2 s2 ms2 sg2 lalt lsz lhp lvp R stX Hv HR2 HX) as (st & E & Hend).
    exists (loc_expect (d1, m1, s1, ms1, sg1) (d2, m2, s2, ms2, sg2) lalt lsz lhp lvp), st.
    split; [exact E|]. split; [unfold loc_expect; destruct (loc_sizes_default lsz lhp lvp); reflexivity|].
    split; [discriminate|]. intros _. destruct Hend as [(te & A & B)| ->]; [left; exists te; split; assumption|].
    right. exists false, []. split; reflexivity.
  - (* FSvcbRec *)
    specialize (HR2 eq_refl). pose proof Hv as (Hpr & V & HB & _).
    destruct (name_path sty c sn) as [n'| |] eqn:Enp; cbn [bind] in He; try discriminate. inversion He; subst v'.
    unfold svcb_to_text in Hp.
    destruct (name_to_styled_text sty sn) as [tgt| |] eqn:Etgt; cbn [bind] in Hp; try discriminate.
    destruct (map_res svcb_param_text sps) as [pts| |] eqn:Epts; cbn [bind] in Hp; try discriminate.
    inversion Hp; subst ftext. clear Hp. fold (spaced pts).
    pose proof (dec_safe sp ltac:(lia)) as Hsp.
    assert (Etext : bl ++ (dec sp ++ 32 :: tgt ++ spaced pts) ++ R = bl ++ dec sp ++ ([32] ++ tgt ++ (spaced pts ++ R)))
      by (rewrite <- !app_assoc; cbn [app]; rewrite <- !app_assoc; reflexivity).
    rewrite Etext.
    exists (mkTok tIDENT (dec sp) (has_bs (dec sp)) None), (stq false ([32] ++ tgt ++ (spaced pts ++ R))).
    split; [apply get0_word_q; auto using units_safe, dec_nonempty; apply word_end_blank32|].
    split; [reflexivity|]. split.
    { unfold tok_plain, is_identifier. cbn [ttype tvalue]. rewrite safe_word_not_hash by exact Hsp. repeat split; reflexivity. }
    split; [apply stq_len_word|].
    intros stX HX _. rewrite has_bs_safe in HX by exact Hsp.
    destruct (svcb_after_priority sty c sp sn n' sps tgt pts R stX Hv HO HR2 Etgt Enp Epts HX) as (te & st & T1 & T2 & E).
    exists (VSvcb sp n' sps), st. split; [|split; [reflexivity|split; [discriminate|intros _; left; exists te; split; assumption]]].
    cbn [parse_field]. rewrite E. reflexivity.
  - (* FAplRest *)
    specialize (HR2 eq_refl). inversion He; subst v'.
    destruct (map_res apl_item_text items) as [ts| |] eqn:Ets; cbn [bind] in Hp; try discriminate.
    inversion Hp; subst ftext. clear Hp.
    destruct (apl_items_texts items Hv ts Ets) as (Hw & Hsafe & Hback).
    destruct ts as [|t1 ts'].
    + cbn [join_sp app].
      destruct (get0_end_q_len q bl R Hbl HR2) as (t & st & H1 & H2 & H3 & H4 & H5 & E).
      exists t, st. split; [exact E|]. split; [exact H4|]. split.
      { destruct (eol_not_ws t H1) as [A B]. unfold tok_plain. rewrite A, B, H2. repeat split; reflexivity. }
      split; [unfold stq; cbn [inp]; rewrite !app_length; lia|].
      intros stX HX _.
      assert (Hst : exists st2, unget st t = Ok st2 /\ ungot st2 = Some t).
      { unfold unget. rewrite H4. eexists. split; reflexivity. }
      destruct Hst as (st2 & U1 & U2).
      exists (VApl items), st2. split; [|split; [reflexivity|split; [discriminate|intros _; left; exists t; split; assumption]]].
      cbn [parse_field]. unfold get_remaining, rem_fuel. rewrite grl_unfold. rewrite HX. cbn [bind]. rewrite H1, U1.
      cbn [bind rev fst snd]. cbn [map] in Hback. rewrite Hback. reflexivity.
    + inversion Hw as [|? ? [Hu1 Hne1] Hw']; subst. inversion Hsafe as [|? ? Hs1 _]; subst.
      rewrite join_sp_cons_spaced.
      assert (Hshape : bl ++ (t1 ++ spaced ts') ++ R = bl ++ t1 ++ (spaced ts' ++ R)) by (rewrite <- !app_assoc; reflexivity).
      rewrite Hshape.
      pose proof (get0_word_q q bl t1 (spaced ts' ++ R) Hbl Hu1 Hne1 (spaced_word_end ts' R HR2)) as E.
      exists (utok t1), (stq false (spaced ts' ++ R)).
      split; [exact E|]. split; [reflexivity|]. split.
      { unfold tok_plain, is_identifier, utok. cbn [ttype tvalue]. rewrite safe_word_not_hash by exact Hs1. repeat split; reflexivity. }
      split; [apply stq_len_word|].
      intros stX HX HL.
      destruct (grl_uwords ts' Hw' false R (S (length (inp stX))) [utok t1] HR2) as (te & st & T1 & T2 & E2).
      { assert (Hlen : (length ts' <= length (spaced ts' ++ R))%nat).
        { clear. rewrite app_length. induction ts' as [|x l IH]; cbn [spaced flat_map length]; [lia|].
          rewrite app_length. cbn [length]. unfold spaced in IH. lia. }
        unfold stq in HL. cbn [inp pend app] in HL. lia. }
      exists (VApl items), st. split; [|split; [reflexivity|split; [discriminate|intros _; left; exists te; split; assumption]]].
      cbn [parse_field]. unfold get_remaining, rem_fuel. rewrite grl_unfold. rewrite HX. cbn [bind].
      assert (Heol : is_eol_or_eof (utok t1) = false) by reflexivity. rewrite Heol.
      rewrite E2. cbn [bind rev app fst snd].
      change (utok t1 :: map utok ts') with (map utok (t1 :: ts')). rewrite Hback. reflexivity.
  - (* FKeyRec *)
    destruct Hv as (Hf & Hpr & Hal & -> & Hk & Hnk). inversion Hp; subst ftext. inversion He; subst v'.
    specialize (HR2 eq_refl). clear Hp.
    set (K := styled_base64ify kk (s_b64_chunk sty) (s_b64_sep sty)).
    pose proof (dec_safe kf ltac:(lia)) as Hsf. pose proof (dec_safe kp ltac:(lia)) as Hsp. pose proof (dec_safe ka ltac:(lia)) as Hsa.
    assert (Etext : bl ++ (dec kf ++ 32 :: dec kp ++ 32 :: dec ka ++ 32 :: K) ++ R
                    = bl ++ dec kf ++ ([32] ++ dec kp ++ ([32] ++ dec ka ++ ([32] ++ K ++ R))))
      by (rewrite <- !app_assoc; cbn [app]; rewrite <- !app_assoc; cbn [app]; rewrite <- !app_assoc; reflexivity).
    rewrite Etext.
    exists (mkTok tIDENT (dec kf) (has_bs (dec kf)) None), (stq false ([32] ++ dec kp ++ ([32] ++ dec ka ++ ([32] ++ K ++ R)))).
    split; [apply get0_word_q; auto using units_safe, dec_nonempty; apply word_end_blank32|].
    split; [reflexivity|]. split.
    { unfold tok_plain, is_identifier. cbn [ttype tvalue]. rewrite safe_word_not_hash by exact Hsf. repeat split; reflexivity. }
    split; [apply stq_len_word|].
    intros stX HX _. rewrite has_bs_safe in HX by exact Hsf.
    (* the three leading tokens *)
    assert (Hhead : forall tail, (* what follows the algorithm token *)
              word_end tail ->
              (do ts <- get0 stX;
               do flags <- key_number_or max16 (fun s => or_mnemonics (split_on 124 s []) 0) (fst ts);
               do ps <- get0 (snd ts);
               do proto <- key_number_or max8 (fun s => match assoc_text s key_protocols with Some v => Ok v | None => Lib eSyntax end) (fst ps);
               do als <- get_string (snd ps) 0; Ok (flags, proto, als))
              = Ok (kf, kp, (dec ka, stq false tail)) ->
              True) by (intros; exact Logic.I).
    clear Hhead.
    assert (E2 : get0 (stq false ([32] ++ dec kp ++ ([32] ++ dec ka ++ ([32] ++ K ++ R))))
                 = Ok (mkTok tIDENT (dec kp) false None, stq false ([32] ++ dec ka ++ ([32] ++ K ++ R)))).
    { pose proof (get0_word_q false [32] (dec kp) ([32] ++ dec ka ++ ([32] ++ K ++ R)) eq_refl (units_safe _ Hsp)
                    (dec_nonempty kp) (word_end_blank32 _)) as G.
      rewrite has_bs_safe in G by exact Hsp. exact G. }
    assert (E3 : get_string (stq false ([32] ++ dec ka ++ ([32] ++ K ++ R))) 0 = Ok (dec ka, stq false ([32] ++ K ++ R)))
      by (exact (get_string_word false [32] (dec ka) ([32] ++ K ++ R) eq_refl Hsa (dec_nonempty ka) (word_end_blank32 _))).
    cbn [parse_field]. unfold key_from_text. rewrite HX. cbn [bind fst snd].
    unfold key_number_or at 1. rewrite (as_uint_dec max16 kf) by (unfold max16; lia). cbn [bind].
    rewrite E2. cbn [bind fst snd]. unfold key_number_or. rewrite (as_uint_dec max8 kp) by (unfold max8; lia). cbn [bind].
    rewrite E3. cbn [bind fst snd].
    destruct (Z.land kf 49152 =? 49152) eqn:Enk; cbn [negb].
    + (* NOKEY: nothing is read after the algorithm; the printed blank remains *)
      subst kk. unfold K, styled_base64ify. change (b64encode []) with (@nil Z). rewrite wordbreak_nil. cbn [app].
      exists (VKey kf kp 0 (dec ka) []), (stq false (32 :: R)).
      split; [reflexivity|]. split; [cbn [ctor_field]; rewrite (alg_dec ka Hal); reflexivity|].
      split; [discriminate|]. intros _. right. exists false, [32]. split; reflexivity.
    + assert (Hs : forallb safe (b64encode kk) = true /\ all_ascii (b64encode kk) = true) by (apply b64encode_safe, Hk).
      destruct Hs as [Hs Ha].
      assert (Hch : chunked (b64encode kk) K) by (apply wordbreak_chunked; assumption).
      assert (Hne' : b64encode kk <> []) by (destruct kk as [|x [|y [|z b'']]]; [congruence|discriminate|discriminate|discriminate]).
      destruct (rest_bytes_ok b64decode (b64encode kk) kk K R false [32] Hch Hne' Ha (b64decode_b64encode kk Hk) eq_refl HR2)
        as (t1 & s1 & G1 & G2 & G3 & G4 & G5).
      destruct (G5 (stq false ([32] ++ K ++ R)) G1 G4 false) as (se & te & P1 & P2 & P3).
      exists (VKey kf kp 0 (dec ka) kk), se. split.
      { destruct (concatenate_remaining_identifiers (stq false ([32] ++ K ++ R)) false) as [[w s3]| |]; cbn [bind fst snd] in P1 |- *; try discriminate.
        destruct (utf8_encode w) as [e| |]; cbn [bind] in P1 |- *; try discriminate.
        destruct (b64decode e) as [d| |]; cbn [bind] in P1 |- *; try discriminate. inversion P1; subst. reflexivity. }
      split; [cbn [ctor_field]; rewrite (alg_dec ka Hal); reflexivity|].
      split; [discriminate|]. intros _. left. exists te. split; assumption.
Qed.

(* ---------- the whole field list ---------- *)
Notation sep_before := field_sep.

Lemma print_fields_cons sty f f2 fs v vs text :
  print_fields sty (f :: f2 :: fs) (v :: vs) = Ok text ->
  exists a b, print_field sty f v = Ok a /\ print_fields sty (f2 :: fs) vs = Ok b /\ text = a ++ sep_before f2 ++ b.
Proof.
  intros H.
  assert (E : print_fields sty (f :: f2 :: fs) (v :: vs)
              = (do a <- print_field sty f v; do b <- print_fields sty (f2 :: fs) vs; Ok (a ++ sep_before f2 ++ b)))
    by (destruct vs; destruct f2; reflexivity).
  rewrite E in H. clear E.
  destruct (print_field sty f v) as [a| |]; cbn [bind] in H; try discriminate.
  destruct (print_fields sty (f2 :: fs) vs) as [b| |]; cbn [bind] in H; try discriminate.
  inversion H. eauto.
Qed.

(* what follows a non-last field is a blank, or (before an empty bitmap) the end of the line *)
(* the text of a field that brings its own separator is empty or starts with a blank *)
Lemma tail_text_shape sty f v b : field_sep f = [] -> print_field sty f v = Ok b -> b = [] \/ exists b', b = 32 :: b'.
Proof.
  intros Hs Hp. destruct f; try discriminate; destruct v as [z|x|n|l|ws|nl|g a gw|items|la lo lalt lsz lhp lvp|sp sn sps|kf kp ka kat kk]; try discriminate; cbn [print_field] in Hp.
  - (* FBitmap *) destruct ws as [|w ws]; [inversion Hp; left; reflexivity|]. cbn [bitmap_to_text] in Hp.
    destruct (map_res rdtype_to_text (window_types (fst w) 0 (snd w))); cbn [bind] in Hp; try discriminate.
    destruct (bitmap_to_text ws); cbn [bind] in Hp; try discriminate. inversion Hp. right. eexists. reflexivity.
  - (* FQOpt *) destruct (is_nil x); inversion Hp; [left; reflexivity|right; eexists; reflexivity].
  - (* FNamesRest *) destruct (map_res (name_to_styled_text sty) nl) as [ts| |]; cbn [bind] in Hp; try discriminate.
    inversion Hp. destruct ts as [|t ts]; [left; reflexivity|right; cbn [flat_map app]; eexists; reflexivity].
  - (* FB64RestOpt *) destruct (is_nil x); inversion Hp; [left; reflexivity|right; eexists; reflexivity].
Qed.


Lemma field_sep_cases f : (field_sep f = [32]) \/ (field_sep f = [] /\ is_rest f = true).
Proof. destruct f; auto. Qed.

Lemma after_field_word_end sty f2 fs vs b rest : line_end rest -> schema_wf (f2 :: fs) ->
  print_fields sty (f2 :: fs) vs = Ok b -> word_end (sep_before f2 ++ b ++ rest).
Proof.
  intros Hr Hwf Hp. destruct (field_sep_cases f2) as [E|[E Er]]; rewrite E; [cbn [app]; apply word_end_blank|].
  destruct fs as [|f3 fs]; [|destruct Hwf as [Hx _]; congruence].
  cbn [app]. destruct vs as [|v [|v2 vs]]; [destruct f2; discriminate| |].
  - cbn [print_fields] in Hp. destruct (tail_text_shape sty f2 v b E Hp) as [->|[b' ->]].
    + cbn [app]. apply line_end_word_end, Hr.
    + cbn [app]. apply word_end_blank.
  - cbn [print_fields] in Hp. destruct (print_field sty f2 v); cbn [bind] in Hp; discriminate.
Qed.

Lemma sep_before_blank f : forallb is_blank (sep_before f) = true.
Proof. destruct f; reflexivity. Qed.

Lemma fields_ok sty c rest : style_ok sty -> line_end rest ->
  forall fs vs text vs' q bl,
  schema_wf fs -> Forall2 val_ok fs vs -> print_fields sty fs vs = Ok text -> expects sty c fs vs = Ok vs' ->
  forallb is_blank bl = true ->
  exists t1 s1, get0 (stq q (bl ++ text ++ rest)) = Ok (t1, s1) /\ ungot s1 = None /\ tok_plain t1 /\
    (length (inp s1) <= length (inp (stq q (bl ++ text ++ rest))))%nat /\
    forall stX, get0 stX = Ok (t1, s1) -> (length (inp s1) <= length (inp stX))%nat ->
      exists raws st_end, parse_fields c fs stX = Ok (raws, st_end) /\ ctor_fields fs raws = Ok vs' /\ ends_ok st_end.
Proof.
  intros Hsty Hrest. induction fs as [|f fs IH]; intros vs text vs' q bl Hwf Hvs Hp He Hbl; [contradiction|].
  inversion Hvs as [|? v ? vs0 Hv Hvs0]; subst.
  destruct fs as [|f2 fs].
  - (* last field *)
    inversion Hvs0; subst. cbn [print_fields] in Hp. cbn [expects] in He.
    destruct (expect sty c f v) as [v1| |] eqn:Ee; cbn [bind] in He; try discriminate. inversion He; subst vs'.
    destruct (field_ok sty c f v text v1 rest q bl Hsty Hv Hp Ee Hbl
                (fun _ => line_end_word_end rest Hrest) (fun _ => Hrest))
      as (t1 & s1 & G1 & G2 & G3 & G4 & G5).
    exists t1, s1. split; [exact G1|]. split; [exact G2|]. split; [exact G3|]. split; [exact G4|]. intros stX HX HL.
    destruct (G5 stX HX HL) as (raw & se & P1 & Pc & P2 & P3). exists [raw], se.
    cbn [parse_fields ctor_fields]. rewrite P1. cbn [bind fst snd]. rewrite Pc. cbn [bind].
    split; [reflexivity|]. split; [reflexivity|]. unfold ends_ok.
    assert (Hend : (exists te, ungot se = Some te /\ is_eol_or_eof te = true)
                   \/ exists q' bl', forallb is_blank bl' = true /\ se = stq q' (bl' ++ rest)).
    { destruct (is_rest f) eqn:Er; [exact (P3 eq_refl)|right; destruct (P2 eq_refl) as (q' & ->); exists q', []; split; reflexivity]. }
    destruct Hend as [(te & Hu & Hte)|(q' & bl' & Hbl' & ->)].
    + destruct (get_eol_ungot se te Hu Hte) as (st' & E). eauto.
    + destruct (get0_end_q q' bl' rest Hbl' Hrest) as (te & st' & H1 & _ & _ & _ & E).
      exists te, st'. unfold get_eol_as_token. rewrite E. cbn [bind fst]. rewrite H1. reflexivity.
  - (* a field followed by others *)
    destruct Hwf as [Hnr Hwf].
    destruct (print_fields_cons _ _ _ _ _ _ _ Hp) as (a & b & Pa & Pb & ->).
    destruct vs0 as [|v2 vs0]; [inversion Hvs0|].
    change (expects sty c (f :: f2 :: fs) (v :: v2 :: vs0))
      with (do a <- expect sty c f v; do b <- expects sty c (f2 :: fs) (v2 :: vs0); Ok (a :: b)) in He.
    destruct (expect sty c f v) as [v1| |] eqn:Ee; cbn [bind] in He; try discriminate.
    destruct (expects sty c (f2 :: fs) (v2 :: vs0)) as [vr| |] eqn:Er; cbn [bind] in He; try discriminate.
    inversion He; subst vs'.
    replace (bl ++ (a ++ sep_before f2 ++ b) ++ rest) with (bl ++ a ++ (sep_before f2 ++ b ++ rest))
      by (rewrite <- !app_assoc; reflexivity).
    pose proof (after_field_word_end sty f2 fs (v2 :: vs0) b rest Hrest Hwf Pb) as Hwe.
    destruct (field_ok sty c f v a v1 (sep_before f2 ++ b ++ rest) q bl Hsty Hv Pa Ee Hbl
                (fun _ => Hwe) (fun H => ltac:(congruence)))
      as (t1 & s1 & G1 & G2 & G3 & G4 & G5).
    exists t1, s1. split; [exact G1|]. split; [exact G2|]. split; [exact G3|]. split; [exact G4|]. intros stX HX HL.
    destruct (G5 stX HX HL) as (raw & se & P1 & Pc & P2 & _). destruct (P2 Hnr) as (q' & ->).
    destruct (IH (v2 :: vs0) b vr q' (sep_before f2) Hwf Hvs0 Pb Er (sep_before_blank f2)) as (t2 & s2 & I1 & I2 & I3 & I4 & I5).
    destruct (I5 (stq q' (sep_before f2 ++ b ++ rest)) I1 I4) as (raws2 & se2 & Q1 & Qc & Q2).
    exists (raw :: raws2), se2. split; [|split; [|exact Q2]].
    + change (parse_fields c (f :: f2 :: fs) stX)
        with (do vs <- parse_field c f stX; do rs <- parse_fields c (f2 :: fs) (snd vs); Ok (fst vs :: fst rs, snd rs)).
      rewrite P1. cbn [bind fst snd]. rewrite Q1. reflexivity.
    + change (ctor_fields (f :: f2 :: fs) (raw :: raws2))
        with (do a <- ctor_field f raw; do b <- ctor_fields (f2 :: fs) raws2; Ok (a :: b)).
      rewrite Pc. cbn [bind]. rewrite Qc. reflexivity.
Qed.

(* ---------- dns.rdata.from_text on the printed record ---------- *)
Theorem record_roundtrip sty c fs chk vs text vs' rest fw tw :
  schema_wf fs -> Forall2 val_ok fs vs -> style_ok sty -> line_end rest ->
  record_to_text sty fs vs = Ok text -> expects sty c fs vs = Ok vs' -> chk vs' = Ok tt ->
  record_from_text_gen fw tw c fs chk (text ++ rest) = Ok vs'.
Proof.
  intros Hwf Hvs Hsty Hrest Hp He Hchk.
  destruct (fields_ok sty c rest Hsty Hrest fs vs text vs' false [] Hwf Hvs Hp He eq_refl)
    as (t1 & s1 & G1 & G2 & (W1 & W2 & W3) & G4 & G5).
  cbn [app] in G1. unfold record_from_text_gen, rdata_from_text, init.
  change (mkSt (text ++ rest) 0%nat false None) with (stq false (text ++ rest)).
  rewrite G1. cbn [bind].
  destruct (get0_unget _ _ _ G1 G2 W1 W2) as (stu & U1 & U2). rewrite U1. cbn [bind]. rewrite W3.
  destruct (G5 stu U2) as (raws & se & P1 & Pc & (te & st' & P2)).
  { unfold unget in U1. rewrite G2 in U1. inversion U1. cbn [inp]. lia. }
  unfold class_from_text. rewrite P1. cbn [bind fst snd]. rewrite Pc. cbn [bind fst snd]. rewrite Hchk.
  cbn [bind fst snd]. rewrite P2. reflexivity.
Qed.
