(* C12 - invariants of the writer admission protocol (Model/WritersM.v): lock discipline and the
   event queue.  All statements are about every state reachable under any schedule. *)
From DV Require Import Base.Prelude Model.VersM Model.WritersM.
Import VersM WritersM.

Local Open Scope nat_scope.

(* ------------------------------------------------------------------ what a pc means *)

(* the event a thread is queued on (it created it and has not been granted since) *)
Fixpoint wo (p : pc) : option nat :=
  match p with
  | Rel nx => wo nx
  | Wait e => Some e
  | Acq (CWriterTest (Some e)) | Crit (CWriterTest (Some e)) => Some e
  | _ => None
  end.

(* the thread has passed event.wait(): the event was set *)
Fixpoint psd (p : pc) : option nat :=
  match p with
  | Rel nx => psd nx
  | Acq (CWriterTest (Some e)) | Crit (CWriterTest (Some e)) => Some e
  | _ => None
  end.

(* the thread owns the open write transaction *)
Fixpoint act (p : pc) : bool :=
  match p with
  | Rel nx => act nx
  | SetupId | SetupBase _ | Body _ _ _ _ => true
  | Acq (CEndWrite _ _ _) | Crit (CEndWrite _ _ _) => true
  | _ => false
  end.

Definition Q (s : st) : list nat :=
  match wevent s with Some e => [e] | None => [] end ++ waiters s.

Lemma upd_same {A} (f : nat -> A) t x : upd f t x t = x.
Proof. unfold upd. rewrite Nat.eqb_refl. reflexivity. Qed.

Lemma upd_other {A} (f : nat -> A) t t' x : t' <> t -> upd f t x t' = f t'.
Proof. intros H. unfold upd. destruct (Nat.eqb_spec t' t); [contradiction|reflexivity]. Qed.

(* ------------------------------------------------------------------ shape of a critical section *)

Lemma wakeup_fields s :
  prg (wakeup s) = prg s /\ pcs (wakeup s) = pcs s /\ lock (wakeup s) = lock s /\
  wtxn (wakeup s) = wtxn s /\ vz (wakeup s) = vz s /\ nextev (wakeup s) = nextev s /\
  wq (wakeup s) = wq s /\ arrivals (wakeup s) = arrivals s /\ granted (wakeup s) = granted s /\
  ended (wakeup s) = ended s.
Proof. unfold wakeup. destruct (waiters s); cbn; repeat split; reflexivity. Qed.

(* every critical section keeps the lock, leaves the programs alone, and moves only the
   executing thread, to a `Rel` whose continuation does not hold the lock *)
Lemma exec_crit_shape s t c :
  exists nx, pcs (exec_crit s t c) = upd (pcs s) t (Rel nx) /\ holds_lock nx = false /\
             lock (exec_crit s t c) = lock s /\ prg (exec_crit s t c) = prg s.
Proof.
  destruct c as [ev|id c cm|sel|h|p]; cbn [exec_crit].
  - destruct ((match wtxn s with None => true | Some _ => false end) && oeqb ev (wevent s)).
    + exists SetupId. cbn. repeat split; reflexivity.
    + exists (Wait (nextev s)). cbn. repeat split; reflexivity.
  - destruct (if cm then _ else _) as [[z r]|e|e].
    + destruct (wtxn s) as [t'|].
      * destruct (Nat.eqb t' t).
        -- exists Done. destruct (wakeup_fields (mkSt (prg s) (upd (pcs s) t (Rel Done)) (lock s) None (wevent s)
             (waiters s) (evset s) (nextev s) z (failed s) (wq s) (arrivals s) (granted s) (ended s ++ [t])))
             as [H1 [H2 [H3 _]]].
           rewrite H1, H2, H3. cbn. repeat split; reflexivity.
        -- exists Done. cbn. repeat split; reflexivity.
      * exists Done. cbn. repeat split; reflexivity.
    + exists Done. cbn. repeat split; reflexivity.
    + exists Done. cbn. repeat split; reflexivity.
  - destruct (VersM.step (vz s) (sel_op sel)) as [[z [h i c|]]|e|e].
    + exists (RBody h i c). cbn. repeat split; reflexivity.
    + exists Done. cbn. repeat split; reflexivity.
    + exists Done. cbn. repeat split; reflexivity.
    + exists Done. cbn. repeat split; reflexivity.
  - destruct (VersM.step (vz s) (Close h)) as [[z r]|e|e]; exists Done; cbn; repeat split; reflexivity.
  - destruct (VersM.step (vz s) (SetPolicy p)) as [[z r]|e|e]; exists Done; cbn; repeat split; reflexivity.
Qed.

(* ------------------------------------------------------------------ group A: the lock *)

Record InvA (s : st) : Prop := mkInvA {
  a_lock_holds : forall t, lock s = Some t -> holds_lock (pcs s t) = true;
  a_holds_lock : forall t, holds_lock (pcs s t) = true -> lock s = Some t;
  a_rel : forall t nx, pcs s t = Rel nx -> holds_lock nx = false
}.

Lemma start_pc_not_holding p : holds_lock (start_pc p) = false.
Proof. destruct p; reflexivity. Qed.

Lemma initA progs : InvA (init progs).
Proof.
  constructor; cbn.
  - discriminate.
  - intros t H. rewrite start_pc_not_holding in H. discriminate.
  - intros t nx H. destruct (progs t); discriminate.
Qed.

Lemma body_pc_not_holding p id c ch todo : holds_lock (body_pc p id c ch todo) = false.
Proof. destruct todo; reflexivity. Qed.

(* a step that only moves thread t between two pcs that do not hold the lock *)
Lemma invA_local s t p' :
  InvA s -> holds_lock (pcs s t) = false -> holds_lock p' = false -> (forall nx, p' <> Rel nx) ->
  InvA (set_pc s t p').
Proof.
  intros [H1 H2 H3] Ho Hn Hr. constructor; cbn.
  - intros t' Hl. destruct (Nat.eq_dec t' t) as [->|Hne].
    + specialize (H1 t Hl). congruence.
    + rewrite upd_other by exact Hne. apply H1. exact Hl.
  - intros t' Hh. destruct (Nat.eq_dec t' t) as [->|Hne].
    + rewrite upd_same in Hh. congruence.
    + rewrite upd_other in Hh by exact Hne. apply H2. exact Hh.
  - intros t' nx E. destruct (Nat.eq_dec t' t) as [->|Hne].
    + rewrite upd_same in E. destruct (Hr nx E).
    + rewrite upd_other in E by exact Hne. eapply H3. exact E.
Qed.

Lemma body_pc_not_rel p id c ch todo nx : body_pc p id c ch todo <> Rel nx.
Proof. destruct todo; discriminate. Qed.

Theorem stepA s t : InvA s -> enabled s t = true -> InvA (step s t).
Proof.
  intros HA He. pose proof HA as [H1 H2 H3]. unfold step. unfold enabled in He.
  destruct (pcs s t) as [c|c|nx|e| |id|id c ch todo|h i c|] eqn:Hpc.
  - (* Acq *)
    destruct (lock s) eqn:Hl; [discriminate|].
    constructor; cbn.
    + intros t' E. inversion E; subst. rewrite upd_same. reflexivity.
    + intros t' Hh. destruct (Nat.eq_dec t' t) as [->|Hne]; [reflexivity|].
      rewrite upd_other in Hh by exact Hne. specialize (H2 t' Hh). congruence.
    + intros t' nx E. destruct (Nat.eq_dec t' t) as [->|Hne].
      * rewrite upd_same in E. discriminate.
      * rewrite upd_other in E by exact Hne. eapply H3. exact E.
  - (* Crit *)
    assert (Hl : lock s = Some t) by (apply H2; rewrite Hpc; reflexivity).
    destruct (exec_crit_shape s t c) as [nx [Ep [Hnx [El _]]]].
    constructor.
    + intros t' E. rewrite El, Hl in E. inversion E; subst. rewrite Ep, upd_same. reflexivity.
    + intros t' Hh. rewrite El. rewrite Ep in Hh. destruct (Nat.eq_dec t' t) as [->|Hne]; [exact Hl|].
      rewrite upd_other in Hh by exact Hne. apply H2. exact Hh.
    + intros t' nx' E. rewrite Ep in E. destruct (Nat.eq_dec t' t) as [->|Hne].
      * rewrite upd_same in E. inversion E; subst. exact Hnx.
      * rewrite upd_other in E by exact Hne. eapply H3. exact E.
  - (* Rel *)
    assert (Hl : lock s = Some t) by (apply H2; rewrite Hpc; reflexivity).
    pose proof (H3 t nx Hpc) as Hnx.
    constructor; cbn.
    + discriminate.
    + intros t' Hh. exfalso. destruct (Nat.eq_dec t' t) as [->|Hne].
      * rewrite upd_same in Hh. congruence.
      * rewrite upd_other in Hh by exact Hne. specialize (H2 t' Hh). congruence.
    + intros t' nx' E. destruct (Nat.eq_dec t' t) as [->|Hne].
      * rewrite upd_same in E. subst nx. cbn in Hnx. discriminate.
      * rewrite upd_other in E by exact Hne. eapply H3. exact E.
  - apply invA_local; [exact HA|rewrite Hpc; reflexivity|reflexivity|discriminate].
  - apply invA_local; [exact HA|rewrite Hpc; reflexivity|reflexivity|discriminate].
  - apply invA_local; [exact HA|rewrite Hpc; reflexivity|apply body_pc_not_holding|apply body_pc_not_rel].
  - destruct todo as [|e todo];
      (apply invA_local; [exact HA|rewrite Hpc; reflexivity|apply body_pc_not_holding|apply body_pc_not_rel]).
  - apply invA_local; [exact HA|rewrite Hpc; reflexivity|reflexivity|discriminate].
  - discriminate.
Qed.

(* ------------------------------------------------------------------ group B: the event queue *)

Record InvB (s : st) : Prop := mkInvB {
  b_w1 : forall t, wtxn s = Some t -> act (pcs s t) = true;
  b_w2 : forall t, act (pcs s t) = true -> wtxn s = Some t;
  b_q1 : Forall2 (fun t e => wo (pcs s t) = Some e) (wq s) (Q s);
  b_q2 : forall t e, wo (pcs s t) = Some e -> In t (wq s);
  b_q3 : NoDup (wq s);
  b_q4 : NoDup (Q s);
  b_q5 : forall e, In e (Q s) -> e < nextev s;
  b_x1 : wtxn s <> None -> wevent s = None;
  b_x2 : wtxn s = None -> wevent s = None -> waiters s = [];
  b_s1 : forall e, In e (waiters s) -> mem e (evset s) = false;
  b_s2 : forall e, wevent s = Some e -> mem e (evset s) = true;
  b_s3 : forall t e, psd (pcs s t) = Some e -> mem e (evset s) = true;
  b_s4 : forall e, mem e (evset s) = true -> e < nextev s;
  b_f1 : arrivals s = granted s ++ wq s
}.

Lemma Forall2_in_l {A B} (R : A -> B -> Prop) l1 l2 x :
  Forall2 R l1 l2 -> In x l1 -> exists y, In y l2 /\ R x y.
Proof.
  induction 1 as [|a b l1 l2 Hab _ IH]; intros Hin; [destruct Hin|].
  destruct Hin as [->|Hin].
  - exists b. split; [left; reflexivity|exact Hab].
  - destruct (IH Hin) as [y [Hy Hr]]. exists y. split; [right; exact Hy|exact Hr].
Qed.

Lemma Forall2_impl_in {A B} (R R' : A -> B -> Prop) l1 l2 :
  (forall x y, In x l1 -> R x y -> R' x y) -> Forall2 R l1 l2 -> Forall2 R' l1 l2.
Proof.
  intros H F. induction F as [|a b l1 l2 Hab _ IH]; constructor.
  - apply H; [left; reflexivity|exact Hab].
  - apply IH. intros x y Hx. apply H. right. exact Hx.
Qed.

Lemma mem_true e l : mem e l = true <-> In e l.
Proof.
  unfold mem. rewrite existsb_exists. split.
  - intros [x [Hx E]]. apply Nat.eqb_eq in E. subst. exact Hx.
  - intros H. exists e. split; [exact H|apply Nat.eqb_refl].
Qed.

Lemma start_pc_keys p : wo (start_pc p) = None /\ act (start_pc p) = false /\ psd (start_pc p) = None.
Proof. destruct p; repeat split; reflexivity. Qed.

Lemma initB progs : InvB (init progs).
Proof.
  constructor; cbn; try discriminate; try tauto.
  - intros t H. destruct (start_pc_keys (progs t)) as [_ [E _]]. congruence.
  - constructor.
  - intros t e H. destruct (start_pc_keys (progs t)) as [E _]. congruence.
  - constructor.
  - constructor.
  - intros t e H. destruct (start_pc_keys (progs t)) as [_ [_ E]]. congruence.
Qed.

(* InvB only looks at these fields *)
Lemma invB_ext s s' :
  (forall t, wo (pcs s' t) = wo (pcs s t)) -> (forall t, act (pcs s' t) = act (pcs s t)) ->
  (forall t e, psd (pcs s' t) = Some e -> psd (pcs s t) = Some e \/ mem e (evset s) = true) ->
  wtxn s' = wtxn s -> wevent s' = wevent s -> waiters s' = waiters s -> evset s' = evset s ->
  nextev s' = nextev s -> wq s' = wq s -> arrivals s' = arrivals s -> granted s' = granted s ->
  InvB s -> InvB s'.
Proof.
  intros Hwo Hact Hpsd E1 E2 E3 E4 E5 E6 E7 E8 H. destruct H.
  assert (EQ : Q s' = Q s) by (unfold Q; rewrite E2, E3; reflexivity).
  constructor; rewrite ?EQ, ?E1, ?E2, ?E3, ?E4, ?E5, ?E6, ?E7, ?E8; try assumption.
  - intros t Ht. rewrite Hact. auto.
  - intros t Ht. rewrite Hact in Ht. auto.
  - eapply Forall2_impl_in; [|exact b_q6]. intros x y _ Hxy. rewrite Hwo. exact Hxy.
  - intros t e Ht. rewrite Hwo in Ht. eauto.
  - intros t e Ht. destruct (Hpsd t e Ht) as [Hp|Hm]; [eauto|exact Hm].
Qed.

(* moving one thread between pcs with the same meaning *)
Lemma invB_move s t p' :
  InvB s -> wo p' = wo (pcs s t) -> act p' = act (pcs s t) ->
  (forall e, psd p' = Some e -> psd (pcs s t) = Some e \/ mem e (evset s) = true) ->
  InvB (set_pc s t p').
Proof.
  intros H Hwo Hact Hpsd. apply (invB_ext s); cbn; try reflexivity; try exact H.
  - intros t'. destruct (Nat.eq_dec t' t) as [->|Hne]; [rewrite upd_same; exact Hwo|rewrite upd_other by exact Hne; reflexivity].
  - intros t'. destruct (Nat.eq_dec t' t) as [->|Hne]; [rewrite upd_same; exact Hact|rewrite upd_other by exact Hne; reflexivity].
  - intros t' e. destruct (Nat.eq_dec t' t) as [->|Hne]; [rewrite upd_same; apply Hpsd|rewrite upd_other by exact Hne; tauto].
Qed.

Lemma invB_fields s s' :
  pcs s' = pcs s -> wtxn s' = wtxn s -> wevent s' = wevent s -> waiters s' = waiters s -> evset s' = evset s ->
  nextev s' = nextev s -> wq s' = wq s -> arrivals s' = arrivals s -> granted s' = granted s ->
  InvB s -> InvB s'.
Proof.
  intros E0 E1 E2 E3 E4 E5 E6 E7 E8. apply invB_ext; try assumption; intros; rewrite ?E0 in *; tauto.
Qed.

Lemma body_pc_keys p id c ch todo :
  wo (body_pc p id c ch todo) = None /\ act (body_pc p id c ch todo) = true /\ psd (body_pc p id c ch todo) = None.
Proof. destruct todo; repeat split; reflexivity. Qed.

(* the reader / policy sections do not touch the queue *)
Lemma exec_crit_other s t c :
  (forall ev, c <> CWriterTest ev) -> (forall id x cm, c <> CEndWrite id x cm) ->
  exists nx, pcs (exec_crit s t c) = upd (pcs s) t (Rel nx) /\
             wo nx = None /\ act nx = false /\ psd nx = None /\
             wtxn (exec_crit s t c) = wtxn s /\ wevent (exec_crit s t c) = wevent s /\
             waiters (exec_crit s t c) = waiters s /\ evset (exec_crit s t c) = evset s /\
             nextev (exec_crit s t c) = nextev s /\ wq (exec_crit s t c) = wq s /\
             arrivals (exec_crit s t c) = arrivals s /\ granted (exec_crit s t c) = granted s /\
             ended (exec_crit s t c) = ended s.
Proof.
  intros N1 N2. destruct c as [ev|id c cm|sel|h|p]; cbn [exec_crit].
  - destruct (N1 ev eq_refl).
  - destruct (N2 id c cm eq_refl).
  - destruct (VersM.step (vz s) (sel_op sel)) as [[z [h i c|]]|e|e];
      [exists (RBody h i c)|exists Done|exists Done|exists Done]; cbn; repeat split; reflexivity.
  - destruct (VersM.step (vz s) (Close h)) as [[z r]|e|e]; exists Done; cbn; repeat split; reflexivity.
  - destruct (VersM.step (vz s) (SetPolicy p)) as [[z r]|e|e]; exists Done; cbn; repeat split; reflexivity.
Qed.

Lemma oeqb_eq a b : oeqb a b = true <-> a = b.
Proof.
  destruct a, b; cbn; split; intros H; try discriminate; try reflexivity.
  - apply Nat.eqb_eq in H. subst. reflexivity.
  - inversion H. apply Nat.eqb_refl.
Qed.

(* the owner of a queued event is at the matching position of wq; two threads never share one *)
Lemma queue_head s t e ws :
  InvB s -> wo (pcs s t) = Some e -> Q s = e :: ws -> exists wq', wq s = t :: wq' /\ ~ In t wq'.
Proof.
  intros H Hwo HQ. pose proof (b_q1 s H) as F. pose proof (b_q2 s H t e Hwo) as Hin.
  pose proof (b_q4 s H) as ND. pose proof (b_q3 s H) as NDw.
  rewrite HQ in F, ND. inversion F as [|t0 e0 wq' ws' H0 F' E1 E2]; subst.
  rewrite <- E1 in Hin, NDw. exists wq'.
  assert (t0 = t).
  { destruct Hin as [->|Hin]; [reflexivity|]. exfalso.
    destruct (Forall2_in_l _ _ _ _ F' Hin) as [e' [He' Hw]].
    rewrite Hwo in Hw. inversion Hw; subst. inversion ND; subst. contradiction. }
  subst t0. split; [reflexivity|]. inversion NDw; assumption.
Qed.

(* a writer that has been woken (it passed event.wait()) finds the zone free and its own event
   in _write_event: the admission test cannot fail for it *)
Lemma woken_is_granted s t e :
  InvB s -> psd (pcs s t) = Some e -> wo (pcs s t) = Some e -> wtxn s = None /\ wevent s = Some e.
Proof.
  intros H Hp Hwo.
  pose proof (b_s3 s H t e Hp) as Hset.
  pose proof (b_q2 s H t e Hwo) as Hin.
  destruct (Forall2_in_l _ _ _ _ (b_q1 s H) Hin) as [e' [He' Hw]].
  rewrite Hwo in Hw. inversion Hw; subst e'. clear Hw.
  unfold Q in He'. apply in_app_or in He'. destruct He' as [He'|He'].
  - destruct (wevent s) as [e0|] eqn:Ew; [|destruct He'].
    destruct He' as [->|[]]. split; [|reflexivity].
    destruct (wtxn s) eqn:Et; [|reflexivity].
    assert (wevent s = None) by (apply (b_x1 s H); congruence). congruence.
  - rewrite (b_s1 s H e He') in Hset. discriminate.
Qed.

Lemma grant_B s t ev :
  InvB s -> pcs s t = Crit (CWriterTest ev) -> wtxn s = None -> ev = wevent s ->
  InvB (mkSt (prg s) (upd (pcs s) t (Rel SetupId)) (lock s) (Some t) None (waiters s) (evset s)
             (nextev s) (vz s) (failed s) (match ev with None => wq s | Some _ => tl (wq s) end)
             (match ev with None => arrivals s ++ [t] | Some _ => arrivals s end)
             (granted s ++ [t]) (ended s)).
Proof.
  intros H Hpc Hw Hev.
  assert (Hother : forall t', t' <> t -> act (pcs s t') = false).
  { intros t' Hne. destruct (act (pcs s t')) eqn:E; [|reflexivity].
    pose proof (b_w2 s H t' E). congruence. }
  destruct ev as [e|].
  - (* woken waiter: head of the queue *)
    assert (HQ : Q s = e :: waiters s) by (unfold Q; rewrite <- Hev; reflexivity).
    assert (Hwo : wo (pcs s t) = Some e) by (rewrite Hpc; reflexivity).
    destruct (queue_head s t e (waiters s) H Hwo HQ) as [wq' [Ewq Hnin]].
    pose proof (b_q1 s H) as F. rewrite HQ, Ewq in F. inversion F as [|? ? ? ? _ F']; subst.
    pose proof (b_q4 s H) as ND. rewrite HQ in ND. inversion ND as [|? ? Hne ND']; subst.
    pose proof (b_q3 s H) as NDw. rewrite Ewq in NDw. inversion NDw as [|? ? _ NDw']; subst.
    constructor; cbn; rewrite ?Ewq; cbn.
    + intros t' E. inversion E; subst. rewrite upd_same. reflexivity.
    + intros t' E. destruct (Nat.eq_dec t' t) as [->|Hn]; [reflexivity|].
      rewrite upd_other in E by exact Hn. rewrite (Hother t' Hn) in E. discriminate.
    + unfold Q. cbn. eapply Forall2_impl_in; [|exact F'].
      intros x y Hx Hxy. rewrite upd_other; [exact Hxy|]. intros ->. contradiction.
    + intros t' e' E. destruct (Nat.eq_dec t' t) as [->|Hn].
      * rewrite upd_same in E. discriminate.
      * rewrite upd_other in E by exact Hn. pose proof (b_q2 s H t' e' E) as Hin. rewrite Ewq in Hin.
        destruct Hin as [->|Hin]; [congruence|exact Hin].
    + exact NDw'.
    + unfold Q. cbn. exact ND'.
    + unfold Q. cbn. intros e' He'. apply (b_q5 s H). rewrite HQ. right. exact He'.
    + reflexivity.
    + discriminate.
    + apply (b_s1 s H).
    + discriminate.
    + intros t' e' E. destruct (Nat.eq_dec t' t) as [->|Hn].
      * rewrite upd_same in E. discriminate.
      * rewrite upd_other in E by exact Hn. apply (b_s3 s H t' e' E).
    + apply (b_s4 s H).
    + rewrite (b_f1 s H), Ewq, <- app_assoc. reflexivity.
  - (* newcomer finding the zone idle: nobody is queued *)
    assert (Hws : waiters s = []) by (apply (b_x2 s H); [exact Hw|symmetry; exact Hev]).
    assert (HQ : Q s = []) by (unfold Q; rewrite <- Hev, Hws; reflexivity).
    assert (Ewq : wq s = []).
    { pose proof (b_q1 s H) as F. rewrite HQ in F. inversion F. reflexivity. }
    constructor; cbn; rewrite ?Ewq, ?Hws; cbn.
    + intros t' E. inversion E; subst. rewrite upd_same. reflexivity.
    + intros t' E. destruct (Nat.eq_dec t' t) as [->|Hn]; [reflexivity|].
      rewrite upd_other in E by exact Hn. rewrite (Hother t' Hn) in E. discriminate.
    + unfold Q. cbn. rewrite ?Hws. constructor.
    + intros t' e' E. destruct (Nat.eq_dec t' t) as [->|Hn].
      * rewrite upd_same in E. discriminate.
      * rewrite upd_other in E by exact Hn. pose proof (b_q2 s H t' e' E) as Hin. rewrite Ewq in Hin. exact Hin.
    + constructor.
    + unfold Q. cbn. rewrite ?Hws. constructor.
    + unfold Q. cbn. rewrite ?Hws. intros e' [].
    + reflexivity.
    + discriminate.
    + intros e' [].
    + discriminate.
    + intros t' e' E. destruct (Nat.eq_dec t' t) as [->|Hn].
      * rewrite upd_same in E. discriminate.
      * rewrite upd_other in E by exact Hn. apply (b_s3 s H t' e' E).
    + apply (b_s4 s H).
    + rewrite (b_f1 s H), Ewq, !app_nil_r. reflexivity.
Qed.

Lemma NoDup_snoc' {A} (l : list A) (x : A) : NoDup l -> ~ In x l -> NoDup (l ++ [x]).
Proof.
  induction l as [|a l IH]; cbn; intros H Hn; [constructor; [tauto|constructor]|].
  inversion H; subst. constructor.
  - intros Hin. apply in_app_or in Hin. destruct Hin as [Hin|[->|[]]]; [tauto|]. apply Hn. left. reflexivity.
  - apply IH; [assumption|]. intros Hin. apply Hn. right. exact Hin.
Qed.

Lemma Forall2_snoc {A B} (R : A -> B -> Prop) l1 l2 x y :
  Forall2 R l1 l2 -> R x y -> Forall2 R (l1 ++ [x]) (l2 ++ [y]).
Proof. intros F Hxy. apply Forall2_app; [exact F|constructor; [exact Hxy|constructor]]. Qed.

(* the test of writer() fails only for a newcomer (event = None), who is then queued last *)
Lemma enqueue_B s t ev :
  InvB s -> pcs s t = Crit (CWriterTest ev) ->
  (match wtxn s with None => true | Some _ => false end) && oeqb ev (wevent s) = false ->
  ev = None /\
  InvB (mkSt (prg s) (upd (pcs s) t (Rel (Wait (nextev s)))) (lock s) (wtxn s) (wevent s)
             (waiters s ++ [nextev s]) (evset s) (S (nextev s)) (vz s) (failed s) (wq s ++ [t])
             (arrivals s ++ [t]) (granted s) (ended s)).
Proof.
  intros H Hpc Htest.
  assert (Hev : ev = None).
  { destruct ev as [e|]; [|reflexivity]. exfalso.
    destruct (woken_is_granted s t e H) as [Hw He]; [rewrite Hpc; reflexivity|rewrite Hpc; reflexivity|].
    rewrite Hw, He in Htest. cbn in Htest. rewrite Nat.eqb_refl in Htest. discriminate. }
  split; [exact Hev|]. subst ev.
  assert (Hnin : ~ In t (wq s)).
  { intros Hin. destruct (Forall2_in_l _ _ _ _ (b_q1 s H) Hin) as [e [_ Hw]]. rewrite Hpc in Hw. discriminate. }
  assert (Hact : act (pcs s t) = false) by (rewrite Hpc; reflexivity).
  assert (HQ : Q (mkSt (prg s) (upd (pcs s) t (Rel (Wait (nextev s)))) (lock s) (wtxn s) (wevent s)
             (waiters s ++ [nextev s]) (evset s) (S (nextev s)) (vz s) (failed s) (wq s ++ [t])
             (arrivals s ++ [t]) (granted s) (ended s)) = Q s ++ [nextev s]).
  { unfold Q. cbn. rewrite app_assoc. reflexivity. }
  constructor; rewrite ?HQ; cbn.
  - intros t' E. destruct (Nat.eq_dec t' t) as [->|Hn].
    + pose proof (b_w1 s H t E). congruence.
    + rewrite upd_other by exact Hn. apply (b_w1 s H). exact E.
  - intros t' E. destruct (Nat.eq_dec t' t) as [->|Hn].
    + rewrite upd_same in E. discriminate.
    + rewrite upd_other in E by exact Hn. apply (b_w2 s H). exact E.
  - apply Forall2_snoc.
    + eapply Forall2_impl_in; [|exact (b_q1 s H)]. intros x y Hx Hxy.
      rewrite upd_other; [exact Hxy|]. intros ->. contradiction.
    + rewrite upd_same. reflexivity.
  - intros t' e E. apply in_or_app. destruct (Nat.eq_dec t' t) as [->|Hn]; [right; left; reflexivity|].
    rewrite upd_other in E by exact Hn. left. apply (b_q2 s H t' e E).
  - apply NoDup_snoc'; [apply (b_q3 s H)|exact Hnin].
  - apply NoDup_snoc'; [apply (b_q4 s H)|]. intros Hin. pose proof (b_q5 s H _ Hin). lia.
  - intros e Hin. apply in_app_or in Hin. destruct Hin as [Hin|[<-|[]]]; [|lia].
    pose proof (b_q5 s H _ Hin). lia.
  - apply (b_x1 s H).
  - intros Hw He. exfalso. rewrite Hw, He in Htest. discriminate.
  - intros e Hin. apply in_app_or in Hin. destruct Hin as [Hin|[<-|[]]]; [apply (b_s1 s H); exact Hin|].
    change (mem (nextev s) (evset s) = false).
    destruct (mem (nextev s) (evset s)) eqn:E; [|reflexivity]. pose proof (b_s4 s H _ E). lia.
  - apply (b_s2 s H).
  - intros t' e E. destruct (Nat.eq_dec t' t) as [->|Hn].
    + rewrite upd_same in E. discriminate.
    + rewrite upd_other in E by exact Hn. apply (b_s3 s H t' e E).
  - intros e E. pose proof (b_s4 s H _ E). lia.
  - rewrite (b_f1 s H), app_assoc. reflexivity.
Qed.

Lemma mem_cons_true e e' l : mem e l = true -> mem e (e' :: l) = true.
Proof. unfold mem. cbn. intros ->. apply orb_true_r. Qed.

(* _end_write_unlocked + _maybe_wakeup_one_waiter_unlocked by the owner of the transaction *)
Lemma end_B s t z :
  InvB s -> act (pcs s t) = true -> wo (pcs s t) = None ->
  InvB (wakeup (mkSt (prg s) (upd (pcs s) t (Rel Done)) (lock s) None (wevent s) (waiters s)
                     (evset s) (nextev s) z (failed s) (wq s) (arrivals s) (granted s) (ended s ++ [t]))).
Proof.
  intros H Hact Hwo.
  assert (Hw : wtxn s = Some t) by (apply (b_w2 s H); exact Hact).
  assert (He : wevent s = None) by (apply (b_x1 s H); congruence).
  assert (Hnin : ~ In t (wq s)).
  { intros Hin. destruct (Forall2_in_l _ _ _ _ (b_q1 s H) Hin) as [e [_ Hw']]. congruence. }
  assert (Hother : forall t', t' <> t -> act (pcs s t') = false).
  { intros t' Hne. destruct (act (pcs s t')) eqn:E; [|reflexivity].
    pose proof (b_w2 s H t' E). congruence. }
  assert (HQs : Q s = waiters s) by (unfold Q; rewrite He; reflexivity).
  unfold wakeup. cbn [waiters].
  destruct (waiters s) as [|e rest] eqn:Ews; cbn.
  - (* nobody waiting *)
    constructor; cbn; try discriminate.
    + intros t' E. destruct (Nat.eq_dec t' t) as [->|Hn].
      * rewrite upd_same in E. discriminate.
      * rewrite upd_other in E by exact Hn. rewrite (Hother t' Hn) in E. discriminate.
    + unfold Q. cbn. rewrite ?He, ?Ews. cbn. pose proof (b_q1 s H) as F. rewrite HQs in F.
      eapply Forall2_impl_in; [|exact F]. intros x y Hx Hxy. rewrite upd_other; [exact Hxy|]. intros ->. contradiction.
    + intros t' e E. destruct (Nat.eq_dec t' t) as [->|Hn].
      * rewrite upd_same in E. discriminate.
      * rewrite upd_other in E by exact Hn. apply (b_q2 s H t' e E).
    + apply (b_q3 s H).
    + unfold Q. cbn. rewrite ?He, ?Ews. constructor.
    + unfold Q. cbn. rewrite ?He, ?Ews. intros e [].
    + intros _. exact He.
    + intros _ _. reflexivity.
    + intros e [].
    + rewrite He. discriminate.
    + intros t' e E. destruct (Nat.eq_dec t' t) as [->|Hn].
      * rewrite upd_same in E. discriminate.
      * rewrite upd_other in E by exact Hn. apply (b_s3 s H t' e E).
    + apply (b_s4 s H).
    + apply (b_f1 s H).
  - (* wake the first waiter *)
    pose proof (b_q4 s H) as ND. rewrite HQs in ND. inversion ND as [|? ? Hne ND']; subst.
    constructor; cbn; try discriminate.
    + intros t' E. destruct (Nat.eq_dec t' t) as [->|Hn].
      * rewrite upd_same in E. discriminate.
      * rewrite upd_other in E by exact Hn. rewrite (Hother t' Hn) in E. discriminate.
    + unfold Q. cbn. pose proof (b_q1 s H) as F. rewrite HQs in F.
      eapply Forall2_impl_in; [|exact F]. intros x y Hx Hxy. rewrite upd_other; [exact Hxy|]. intros ->. contradiction.
    + intros t' e' E. destruct (Nat.eq_dec t' t) as [->|Hn].
      * rewrite upd_same in E. discriminate.
      * rewrite upd_other in E by exact Hn. apply (b_q2 s H t' e' E).
    + apply (b_q3 s H).
    + unfold Q. cbn. exact ND.
    + unfold Q. cbn. intros e' He'. apply (b_q5 s H). rewrite HQs. exact He'.
    + intros Hc. destruct (Hc eq_refl).
    + intros e' He'. unfold mem. cbn.
      assert (e' <> e) by (intros ->; contradiction).
      destruct (Nat.eqb_spec e' e); [contradiction|]. cbn.
      apply (b_s1 s H). rewrite Ews. right. exact He'.
    + intros e' E. inversion E; subst. unfold mem. cbn. rewrite Nat.eqb_refl. reflexivity.
    + intros t' e' E. apply mem_cons_true. destruct (Nat.eq_dec t' t) as [->|Hn].
      * rewrite upd_same in E. discriminate.
      * rewrite upd_other in E by exact Hn. apply (b_s3 s H t' e' E).
    + intros e' E. unfold mem in E. cbn in E. apply orb_true_iff in E. destruct E as [E|E].
      * apply Nat.eqb_eq in E. subst. apply (b_q5 s H). rewrite HQs. left. reflexivity.
      * apply (b_s4 s H). exact E.
    + apply (b_f1 s H).
Qed.

Lemma keys_acq_crit c : wo (Crit c) = wo (Acq c) /\ act (Crit c) = act (Acq c) /\ psd (Crit c) = psd (Acq c).
Proof. destruct c as [[e|]| | | |]; repeat split; reflexivity. Qed.

Theorem stepB s t :
  InvB s -> enabled s t = true ->
  (forall id c, pcs s t = Crit (CEndWrite id c true) ->
     exists z r, VersM.step (vz_set_wtxn (vz s) (Some (mkW id c true))) WCommit = Ok (z, r)) ->
  InvB (step s t).
Proof.
  intros H He Hok. unfold step. unfold enabled in He.
  destruct (pcs s t) as [c|c|nx|e| |id|id c ch todo|h i c|] eqn:Hpc.
  - (* Acq -> Crit *)
    destruct (keys_acq_crit c) as [K1 [K2 K3]].
    apply (invB_fields (set_pc s t (Crit c))); try reflexivity.
    apply invB_move; rewrite ?Hpc; [exact H|exact K1|exact K2|]. intros e E. left. rewrite <- K3. exact E.
  - (* critical sections *)
    destruct c as [ev|id c cm|sel|h|p].
    + cbn [exec_crit].
      destruct ((match wtxn s with None => true | Some _ => false end) && oeqb ev (wevent s)) eqn:Ht.
      * apply andb_true_iff in Ht. destruct Ht as [Hw Hev]. apply oeqb_eq in Hev.
        destruct (wtxn s) eqn:Ew; [discriminate|].
        exact (grant_B s t ev H Hpc Ew Hev).
      * destruct (enqueue_B s t ev H Hpc Ht) as [-> HB]. exact HB.
    + cbn [exec_crit].
      assert (Hact : act (pcs s t) = true) by (rewrite Hpc; reflexivity).
      assert (Hwo : wo (pcs s t) = None) by (rewrite Hpc; reflexivity).
      assert (Hw : wtxn s = Some t) by (apply (b_w2 s H); exact Hact).
      destruct cm.
      * destruct (Hok id c eq_refl) as [z [r E]]. rewrite E, Hw, Nat.eqb_refl. apply end_B; assumption.
      * rewrite Hw, Nat.eqb_refl. apply end_B; assumption.
    + destruct (exec_crit_other s t (CReaderOpen sel)) as [nx [Ep [K1 [K2 [K3 [F1 [F2 [F3 [F4 [F5 [F6 [F7 [F8 _]]]]]]]]]]]]];
        try discriminate.
      apply (invB_ext s); try assumption.
      * intros t'. rewrite Ep. destruct (Nat.eq_dec t' t) as [->|Hn];
          [rewrite upd_same, Hpc; exact K1|rewrite upd_other by exact Hn; reflexivity].
      * intros t'. rewrite Ep. destruct (Nat.eq_dec t' t) as [->|Hn];
          [rewrite upd_same, Hpc; exact K2|rewrite upd_other by exact Hn; reflexivity].
      * intros t' e. rewrite Ep. destruct (Nat.eq_dec t' t) as [->|Hn];
          [rewrite upd_same; cbn; rewrite K3; discriminate|rewrite upd_other by exact Hn; tauto].
    + destruct (exec_crit_other s t (CReaderEnd h)) as [nx [Ep [K1 [K2 [K3 [F1 [F2 [F3 [F4 [F5 [F6 [F7 [F8 _]]]]]]]]]]]]];
        try discriminate.
      apply (invB_ext s); try assumption.
      * intros t'. rewrite Ep. destruct (Nat.eq_dec t' t) as [->|Hn];
          [rewrite upd_same, Hpc; exact K1|rewrite upd_other by exact Hn; reflexivity].
      * intros t'. rewrite Ep. destruct (Nat.eq_dec t' t) as [->|Hn];
          [rewrite upd_same, Hpc; exact K2|rewrite upd_other by exact Hn; reflexivity].
      * intros t' e. rewrite Ep. destruct (Nat.eq_dec t' t) as [->|Hn];
          [rewrite upd_same; cbn; rewrite K3; discriminate|rewrite upd_other by exact Hn; tauto].
    + destruct (exec_crit_other s t (CSetPolicy p)) as [nx [Ep [K1 [K2 [K3 [F1 [F2 [F3 [F4 [F5 [F6 [F7 [F8 _]]]]]]]]]]]]];
        try discriminate.
      apply (invB_ext s); try assumption.
      * intros t'. rewrite Ep. destruct (Nat.eq_dec t' t) as [->|Hn];
          [rewrite upd_same, Hpc; exact K1|rewrite upd_other by exact Hn; reflexivity].
      * intros t'. rewrite Ep. destruct (Nat.eq_dec t' t) as [->|Hn];
          [rewrite upd_same, Hpc; exact K2|rewrite upd_other by exact Hn; reflexivity].
      * intros t' e. rewrite Ep. destruct (Nat.eq_dec t' t) as [->|Hn];
          [rewrite upd_same; cbn; rewrite K3; discriminate|rewrite upd_other by exact Hn; tauto].
  - (* Rel nx -> nx: same meaning by definition *)
    apply (invB_fields (set_pc s t nx)); try reflexivity.
    apply invB_move; rewrite ?Hpc; [exact H|reflexivity|reflexivity|]. intros e E. left. exact E.
  - (* Wait e -> Acq (CWriterTest (Some e)): the event is set *)
    apply invB_move; rewrite ?Hpc; [exact H|reflexivity|reflexivity|].
    intros e' E. cbn in E. inversion E; subst. right. exact He.
  - apply invB_move; rewrite ?Hpc; [exact H|reflexivity|reflexivity|discriminate].
  - destruct (body_pc_keys (prg s t) id (base_content (prg s t) (vz s)) false (edits_of (prg s t))) as [K1 [K2 K3]].
    apply invB_move; rewrite ?Hpc; [exact H|exact K1|exact K2|]. intros e E. rewrite K3 in E. discriminate.
  - destruct todo as [|e todo].
    + destruct (body_pc_keys (prg s t) id c ch []) as [K1 [K2 K3]].
      apply invB_move; rewrite ?Hpc; [exact H|exact K1|exact K2|]. intros e E. rewrite K3 in E. discriminate.
    + destruct (body_pc_keys (prg s t) id (fst (apply_edit e (c, ch))) (snd (apply_edit e (c, ch))) todo) as [K1 [K2 K3]].
      apply invB_move; rewrite ?Hpc; [exact H|exact K1|exact K2|]. intros e' E. rewrite K3 in E. discriminate.
  - apply invB_move; rewrite ?Hpc; [exact H|reflexivity|reflexivity|discriminate].
  - discriminate.
Qed.
