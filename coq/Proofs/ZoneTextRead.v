(* C09: the Reader on the token lines that the printer produces (one record per line). *)
From DV Require Import Base.Prelude Model.NameM Model.ZoneTextM Proofs.ZoneTextBase Proofs.ZoneTextInv
  Proofs.ZoneTextRespell.
Open Scope Z_scope.

Definition opt_tok (o : option (list Z)) : list tok :=
  match o with Some v => [TId v] | None => [] end.

(* a type field as the printer writes it *)
Definition type_text_ok (t : list Z) (ty : Z) : Prop :=
  type_from_text t = Some ty /\ class_from_text t = None /\ ttl_from_text t = Lib eBadTTL.

Definition after_ttl (s : rstate) (explicit : bool) (ttl : Z) : rstate :=
  if explicit then set_lttl s ttl else s.

Definition after_soa (s : rstate) (ty : Z) (rd : rdata) : rstate :=
  if negb (dttl_known s) && (ty =? tSOA) then
    match nth_error rd 6 with
    | Some (VInt m) => set_dttl s m
    | _ => s
    end
  else s.

(* [ttl] [class] type rdata..., where an omitted TTL equals the known default *)
Lemma rr_fields_printed c s co zo n (explicit : bool) ttl clso tyt ty rdtoks rd :
  (if explicit then 0 <= ttl <= MAX_TTL else dttl_known s = true /\ dttl s = ttl) ->
  (forall ct, clso = Some ct -> class_from_text ct = Some (c_class c)) ->
  type_text_ok tyt ty ->
  parse_rdata ty rdtoks false co (c_rel c) zo = Ok rd ->
  rr_fields c s co zo n
    (opt_tok (if explicit then Some (dec ttl) else None) ++ opt_tok clso ++ TId tyt :: rdtoks) false =
  (let s1 := after_soa (after_ttl s explicit ttl) ty rd in
   do z' <- txn_add zo (c_rel c) (zn s1) n ttl ty rd; Ok (set_zn s1 z')).
Proof.
  intros Httl Hcls (Hty & Htc & Htt) Hrd.
  unfold rr_fields, after_ttl, after_soa.
  destruct explicit; destruct clso as [ct|]; cbn [opt_tok app get_ident bind].
  - (* ttl class type *)
    rewrite (ttl_from_text_dec _ Httl). cbn [get_ident bind].
    rewrite (Hcls ct eq_refl), Z.eqb_refl. cbn [negb get_ident bind].
    rewrite Hty, Hrd. cbn [bind]. st_simpl.
    destruct (negb (dttl_known s) && (ty =? tSOA)); [|reflexivity].
    destruct (nth_error rd 6) as [[| |m| |]|]; reflexivity.
  - (* ttl type *)
    rewrite (ttl_from_text_dec _ Httl). cbn [get_ident bind].
    rewrite Htc, Z.eqb_refl. cbn [negb get_ident bind].
    rewrite Hty, Hrd. cbn [bind]. st_simpl.
    destruct (negb (dttl_known s) && (ty =? tSOA)); [|reflexivity].
    destruct (nth_error rd 6) as [[| |m| |]|]; reflexivity.
  - (* class type *)
    destruct Httl as [Hk Hd].
    rewrite (class_not_ttl _ _ (Hcls ct eq_refl)). cbn [get_ident bind].
    rewrite (Hcls ct eq_refl), Z.eqb_refl. cbn [negb get_ident bind].
    rewrite Htt, Hk, Hd. cbn [bind get_ident].
    rewrite Hty, Hrd. cbn [bind]. rewrite Hk. reflexivity.
  - (* type *)
    destruct Httl as [Hk Hd].
    rewrite Htt. cbn [get_ident bind].
    rewrite Htc, Z.eqb_refl. cbn [negb get_ident bind].
    rewrite Htt, Hk, Hd. cbn [bind get_ident].
    rewrite Hty, Hrd. cbn [bind]. rewrite Hk. reflexivity.
Qed.

(* the whole record line: the owner is spelled (ownt) or inherited (leading white space) *)
Lemma rr_line_printed c s co zo nabs n (ownt : option (list Z)) (explicit : bool) ttl clso tyt ty rdtoks rd :
  corigin s = Some co -> zorigin s = Some zo ->
  match ownt with
  | Some v => as_name true v (Some co) false None = Ok nabs
  | None => lastname s = Some nabs
  end ->
  is_subdomain nabs zo = true ->
  (if c_rel c then lift_name true (relativize nabs zo) else Ok nabs) = Ok n ->
  (if explicit then 0 <= ttl <= MAX_TTL else dttl_known s = true /\ dttl s = ttl) ->
  (forall ct, clso = Some ct -> class_from_text ct = Some (c_class c)) ->
  type_text_ok tyt ty ->
  parse_rdata ty rdtoks false co (c_rel c) zo = Ok rd ->
  rr_line c s (match ownt with Some _ => false | None => true end)
    (opt_tok ownt ++ opt_tok (if explicit then Some (dec ttl) else None) ++ opt_tok clso ++ TId tyt :: rdtoks) false =
  (let s1 := after_soa (after_ttl (set_last s nabs) explicit ttl) ty rd in
   do z' <- txn_add zo (c_rel c) (zn s1) n ttl ty rd; Ok (set_zn s1 z')).
Proof.
  intros Hco Hzo Hown Hsub Hn Httl Hcls Hty Hrd.
  unfold rr_line. rewrite Hco.
  destruct ownt as [v|]; cbn [opt_tok app].
  - rewrite Hown. cbn [bind]. st_simpl. rewrite Hzo, Hsub. cbn [negb]. rewrite Hn. cbn [bind].
    apply (rr_fields_printed c (set_last s nabs)); assumption.
  - assert (Hne : exists t l, opt_tok (if explicit then Some (dec ttl) else None) ++ opt_tok clso ++ TId tyt :: rdtoks = t :: l).
    { destruct explicit; destruct clso; cbn; eauto. }
    destruct Hne as (t0 & l0 & Hne). rewrite Hne. cbn [bind]. rewrite Hown, Hzo, Hsub. cbn [negb]. rewrite Hn.
    cbn [bind]. rewrite <- Hne.
    rewrite (set_last_same s nabs Hown).
    apply (rr_fields_printed c s); assumption.
Qed.
