(* Proofs of the non-vacuity examples of Props/C02.v (kept here so that Props/C02.v, which is
   recompiled on every run, stays cheap). *)
From DV Require Import Base.Prelude Model.NameM Model.SchemaM Proofs.SchemaCodec Proofs.SchemaThm Proofs.SchemaFix Proofs.SchemaTable Proofs.SchemaOrigin.
From DV Require Proofs.NameValid.
From DV Require Import Model.DispatchM Proofs.SchemaDispatch Model.SchemaHand Proofs.SchemaHandThm Proofs.SchemaTotal Proofs.SchemaReenc.
Open Scope Z_scope.

Definition mx_schema := [FS (FU 2 65535); FS (FName true)].

Definition mx_value := [VS (VI 10); VS (VN [[109; 97; 105; 108]; [101; 120]; []])].

Lemma mx_wf_ex : schema_wf mx_schema = true.
Proof. reflexivity. Qed.

Lemma mx_encodes_ex :
  encode_rdata None mx_schema CkNone mx_value = Ok [0; 10; 4; 109; 97; 105; 108; 2; 101; 120; 0].
Proof. reflexivity. Qed.

Lemma mx_decodes_inside_message_ex :
  decode_rdata None mx_schema CkNone ([7; 7; 7] ++ [0; 10; 4; 109; 97; 105; 108; 2; 101; 120; 0] ++ [9]) 3 11
  = Ok mx_value.
Proof. reflexivity. Qed.

Definition nsec3_schema :=
  [FS (FU 1 255); FS (FU 1 255); FS (FU 2 65535); FS (FCounted 1 0 255); FS (FCounted 1 0 255);
   FRepeat false true [FU 1 255; FCounted 1 1 32]].

Lemma nsec3_wf_ex : schema_wf nsec3_schema = true.
Proof. reflexivity. Qed.

Lemma nsec3_roundtrip_ex :
  let v := [VS (VI 1); VS (VI 0); VS (VI 12); VS (VB [170; 187]); VS (VB [1; 2; 3]);
            VL [[VI 0; VB [64; 1]]; [VI 1; VB [128]]]] in
  exists b, encode_rdata None nsec3_schema CkNone v = Ok b /\
            decode_rdata None nsec3_schema CkNone b 0 (length b) = Ok v.
Proof. eexists. split; reflexivity. Qed.

Lemma a_record_trailing_octet_ex :
  decode_rdata None [FRemN 4] CkNone [1; 2; 3; 4; 5] 0 5 = Lib eFormError.
Proof. reflexivity. Qed.

Lemma a_entry_ok_ex :
  entry_ok (mk_entry 1 1 [(FS (FFixed 4), 0)] [(FRemN 4, 0)] CkNone) = true.
Proof. reflexivity. Qed.

Lemma mx_width_slip_rejected_ex :
  entry_ok (mk_entry 255 15 [(FS (FU 4 65535), 0); (FS (FName true), 1)]
                            [(FS (FU 2 65535), 0); (FS (FName true), 1)] CkNone) = false.
Proof. reflexivity. Qed.

Lemma srv_swap_rejected_ex :
  entry_ok (mk_entry 255 33
     [(FS (FU 2 65535), 1); (FS (FU 2 65535), 0); (FS (FU 2 65535), 2); (FS (FName true), 3)]
     [(FS (FU 2 65535), 0); (FS (FU 2 65535), 1); (FS (FU 2 65535), 2); (FS (FName true), 3)] CkNone) = false.
Proof. reflexivity. Qed.

Lemma mx_relative_with_origin_ex :
  let o := [[101; 120; 97; 109; 112; 108; 101]; []] in
  let v := [VS (VI 10); VS (VN [[109; 97; 105; 108]])] in
  nok_fields (nok_origin o) mx_schema v /\
  exists b, encode_rdata (Some o) mx_schema CkNone v = Ok b /\
            decode_rdata (Some o) mx_schema CkNone b 0 (length b) = Ok v.
Proof.
  split.
  - cbn. repeat split; try exact Logic.I. left. split; [reflexivity|]. split; [reflexivity|].
    unfold NameValid.Valid. cbn. repeat split; try lia; repeat constructor; cbn; try lia; discriminate.
  - eexists. split; vm_compute; reflexivity.
Qed.

Lemma dispatch_example_ex :
  let mods := [(cIN, 1); (cCH, 1); (cANY, 15)] in
  mods_ok mods = true /\ loadable mods [1; 15] = true /\
  forallb (safe_step mods) [Query 4 15; LoadAll true; Query cCH 15; Query cCH 1; Query cANY 15; Query 4 1] = true /\
  run_history mods [1; 15] [Query 4 15; LoadAll true; Query cCH 15; Query cCH 1; Query cANY 15; Query 4 1] init_state
  = [L [I 255; I 15]; L [I 255; I 15]; L [I 3; I 1]; L [I 255; I 15]; I 0].
Proof. repeat split; reflexivity. Qed.

Lemma hip_example_ex :
  exists b, hand_encode_rdata HHip None
              [VS (VB [1; 2; 3]); VS (VI 2); VS (VB [9; 9]); VL [[VN [[114; 118; 115]; []]]; [VN [[]]]]] = Ok b.
Proof. eexists. vm_compute. reflexivity. Qed.

Lemma ipseckey_example_ex :
  exists b, hand_encode_rdata HIpseckey None
              [VS (VI 10); VS (VI 3); VS (VI 2); VS (VN [[103; 119]; []]); VS (VB [1; 2])] = Ok b.
Proof. eexists. vm_compute. reflexivity. Qed.

Lemma amtrelay_example_ex :
  exists b, hand_encode_rdata HAmtrelay None [VS (VI 10); VS (VI 1); VS (VI 1); VS (VB [192; 0; 2; 1])] = Ok b
            /\ hand_decode_rdata HAmtrelay None b 0 (length b) = Ok [VS (VI 10); VS (VI 1); VS (VI 1); VS (VB [192; 0; 2; 1])].
Proof. eexists. split; vm_compute; reflexivity. Qed.

Lemma apl_example_ex :
  let v := [VL [[VI 1; VI 1; VB [0; 0; 0; 0]; VI 0]; [VI 2; VI 0; VB [32; 1; 0; 0; 0; 0; 0; 0; 0; 0; 0; 0; 0; 0; 0; 0]; VI 16]]] in
  apl_canon v /\ exists b, hand_encode_rdata HApl None v = Ok b /\ hand_decode_rdata HApl None b 0 (length b) = Ok v.
Proof.
  split; [cbn; constructor; [left; reflexivity|constructor; [right; left; reflexivity|constructor]]|].
  eexists. split; vm_compute; reflexivity.
Qed.

Lemma svcb_example_ex :
  let v := [VS (VI 1); VS (VN [[115; 118; 99]; []]);
            VL [[VI 0; VB [0; 1; 0; 3]]; [VI 1; VB [2; 104; 50]]; [VI 2; VB []]; [VI 3; VB [1; 187]]; [VI 4; VB [192; 0; 2; 1]]]] in
  exists b, hand_encode_rdata HSvcb None v = Ok b /\ hand_decode_rdata HSvcb None b 0 (length b) = Ok v.
Proof. eexists. split; vm_compute; reflexivity. Qed.

Lemma svcb_duplicate_key_normalised_ex :
  hand_decode_rdata HSvcb None [0; 1; 0; 0; 3; 0; 2; 0; 80; 0; 3; 0; 2; 1; 187] 0 15
  = Ok [VS (VI 1); VS (VN [[]]); VL [[VI 3; VB [1; 187]]]].
Proof. vm_compute. reflexivity. Qed.

Lemma loc_example_ex :
  let lat := [VI 42; VI 21; VI 54; VI 0; VI 1] in
  let lon := [VI 71; VI 6; VI 18; VI 0; VI (-1)] in
  coord_canon 90 lat /\ coord_canon 180 lon /\ In 100 loc_sizes /\ In 1000000 loc_sizes /\
  exists b, hand_encode_rdata HLoc None [VL [lat]; VL [lon]; VS (VI (-2400)); VS (VI 100); VS (VI 1000000); VS (VI 1000)] = Ok b.
Proof.
  cbn [coord_canon]. repeat split; try lia; try (left; reflexivity); try (right; reflexivity).
  - vm_compute. tauto.
  - vm_compute. tauto.
  - eexists. vm_compute. reflexivity.
Qed.

Lemma opt_example_ex :
  let v := [VL [[VI 8; VB [0; 1; 20; 0; 192; 0; 32]]; [VI 15; VB [0; 18; 195; 169]]; [VI 10; VB [1; 2; 3; 4; 5; 6; 7; 8]];
                [VI 18; VB [1; 97; 0]]; [VI 65001; VB []]]] in
  exists b, hand_encode_rdata HOpt None v = Ok b /\ hand_decode_rdata HOpt None b 0 (length b) = Ok v.
Proof. eexists. split; vm_compute; reflexivity. Qed.

Lemma opt_normalises_ex :
  hand_decode_rdata HOpt None [0; 8; 0; 7; 0; 1; 20; 0; 192; 0; 47;  0; 15; 0; 4; 0; 18; 120; 0] 0 19
  = Ok [VL [[VI 8; VB [0; 1; 20; 0; 192; 0; 32]]; [VI 15; VB [0; 18; 120]]]].
Proof. vm_compute. reflexivity. Qed.

Lemma nsec3_no_norm_ex : forallb no_norm nsec3_schema = true.
Proof. reflexivity. Qed.

Lemma gpos_example_ex :
  let fs := [FS (FCounted 1 0 255); FS (FCounted 1 0 255); FS (FCounted 1 0 255)] in
  check_wf CkGPOS fs = true /\
  (exists b, encode_rdata None fs CkGPOS [VS (VB [45; 57; 48]); VS (VB [49; 56; 48; 46; 48]); VS (VB [46; 53])] = Ok b) /\
  encode_rdata None fs CkGPOS [VS (VB [57; 48; 46; 48; 49]); VS (VB [48]); VS (VB [48])] = Lib eValueError.
Proof. repeat split; try reflexivity. eexists. vm_compute. reflexivity. Qed.
