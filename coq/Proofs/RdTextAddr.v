(* Address text codecs (dns/ipv4.py, dns/ipv6.py): inet_aton (inet_ntoa a) = a for every 4 / 16
   octet string.  Per-octet and per-chunk facts are finite sweeps (vm_compute over 256 / 65536 values)
   lifted by forallb_forall; the structure (split on '.', ':' ; the `::` zero run; embedded IPv4)
   is proved by induction / case analysis. *)
From DV Require Import Base.Prelude Model.NameM Model.TokM Model.RdTextM.
From DV Require Import Proofs.TokEsc Proofs.TokWords Proofs.TokDec Proofs.TokHex Proofs.TokGeneric.
Open Scope Z_scope.

Ltac Zify.zify_post_hook ::= Z.to_euclidean_division_equations.

(* ---------- bytes.split ---------- *)
Definition no_sep (sep : Z) (w : list Z) : bool := forallb (fun c => negb (c =? sep)) w.

Lemma split_on_word sep w : no_sep sep w = true -> forall r cur,
  split_on sep (w ++ sep :: r) cur = (rev cur ++ w) :: split_on sep r [].
Proof.
  induction w as [|c w IH]; intros Hw r cur.
  - cbn [app split_on]. rewrite Z.eqb_refl, app_nil_r. reflexivity.
  - cbn [no_sep forallb] in Hw. apply andb_true_iff in Hw as [Hc Hw]. apply negb_true_iff in Hc.
    cbn [app split_on]. rewrite Hc. rewrite IH by exact Hw. cbn [rev]. rewrite <- app_assoc. reflexivity.
Qed.

Lemma split_on_last sep w : no_sep sep w = true -> forall cur, split_on sep w cur = [rev cur ++ w].
Proof.
  induction w as [|c w IH]; intros Hw cur.
  - cbn. rewrite app_nil_r. reflexivity.
  - cbn [no_sep forallb] in Hw. apply andb_true_iff in Hw as [Hc Hw]. apply negb_true_iff in Hc.
    cbn [split_on]. rewrite Hc. rewrite IH by exact Hw. cbn [rev]. rewrite <- app_assoc. reflexivity.
Qed.

(* ---------- IPv4 ---------- *)
Definition octet_ok (n : Z) : bool :=
  ipv4_part_ok (dec n) && (dec_value (dec n) 0 =? n) && no_sep 46 (dec n) && no_sep 58 (dec n) && all_ascii (dec n).

Lemma octet_ok_all : forallb octet_ok (map Z.of_nat (seq 0 256)) = true.
Proof. vm_compute. reflexivity. Qed.

Lemma octet_facts n : 0 <= n < 256 ->
  ipv4_part_ok (dec n) = true /\ dec_value (dec n) 0 = n /\ no_sep 46 (dec n) = true
  /\ no_sep 58 (dec n) = true /\ all_ascii (dec n) = true.
Proof.
  intros Hn. pose proof octet_ok_all as H. rewrite forallb_forall in H. specialize (H n).
  assert (Hin : In n (map Z.of_nat (seq 0 256))).
  { rewrite <- (Z2Nat.id n) by lia. apply in_map. apply in_seq. lia. }
  specialize (H Hin). unfold octet_ok in H.
  apply andb_true_iff in H as [H A5]. apply andb_true_iff in H as [H A4]. apply andb_true_iff in H as [H A3].
  apply andb_true_iff in H as [A1 A2]. apply Z.eqb_eq in A2. repeat split; assumption.
Qed.

Lemma all_ascii_app a b : all_ascii a = true -> all_ascii b = true -> all_ascii (a ++ b) = true.
Proof. unfold all_ascii. intros. rewrite forallb_app. apply andb_true_iff. split; assumption. Qed.

Theorem ipv4_roundtrip_b a0 a1 a2 a3 :
  0 <= a0 < 256 -> 0 <= a1 < 256 -> 0 <= a2 < 256 -> 0 <= a3 < 256 ->
  ipv4_aton_b (dec a0 ++ 46 :: dec a1 ++ 46 :: dec a2 ++ 46 :: dec a3) = Ok [a0; a1; a2; a3].
Proof.
  intros H0 H1 H2 H3.
  destruct (octet_facts a0 H0) as (P0 & V0 & D0 & _ & _). destruct (octet_facts a1 H1) as (P1 & V1 & D1 & _ & _).
  destruct (octet_facts a2 H2) as (P2 & V2 & D2 & _ & _). destruct (octet_facts a3 H3) as (P3 & V3 & D3 & _ & _).
  unfold ipv4_aton_b.
  rewrite split_on_word by exact D0. rewrite split_on_word by exact D1. rewrite split_on_word by exact D2.
  rewrite split_on_last by exact D3. cbn [rev app length Nat.eqb negb forallb map].
  rewrite P0, P1, P2, P3. cbn [andb negb]. rewrite V0, V1, V2, V3.
  replace (a0 <=? 255) with true by lia. replace (a1 <=? 255) with true by lia.
  replace (a2 <=? 255) with true by lia. replace (a3 <=? 255) with true by lia. reflexivity.
Qed.

Theorem ipv4_roundtrip a : all_bytes a = true -> length a = 4%nat ->
  exists t, ipv4_ntoa a = Ok t /\ ipv4_aton t = Ok a.
Proof.
  intros Hb Hl. destruct a as [|a0 [|a1 [|a2 [|a3 [|? ?]]]]]; try discriminate.
  cbn [all_bytes forallb] in Hb. repeat (apply andb_true_iff in Hb as [? Hb]).
  repeat match goal with H : is_byte _ = true |- _ => apply is_byte_range in H end.
  eexists. split; [reflexivity|]. unfold ipv4_aton.
  destruct (octet_facts a0 ltac:(assumption)) as (_ & _ & _ & _ & A0).
  destruct (octet_facts a1 ltac:(assumption)) as (_ & _ & _ & _ & A1).
  destruct (octet_facts a2 ltac:(assumption)) as (_ & _ & _ & _ & A2).
  destruct (octet_facts a3 ltac:(assumption)) as (_ & _ & _ & _ & A3).
  rewrite utf8_ascii.
  - cbn [bind]. apply ipv4_roundtrip_b; assumption.
  - repeat (apply all_ascii_app; [assumption|]; change (all_ascii (46 :: ?x)) with (all_ascii ([46] ++ x));
            apply all_ascii_app; [reflexivity|]). assumption.
Qed.

(* ---------- IPv6: general list lemmas ---------- *)
Lemma split_on_nonempty sep s cur : exists x r, split_on sep s cur = x :: r.
Proof. revert cur. induction s as [|c s IH]; intros cur; cbn [split_on]; [eauto|]. destruct (c =? sep); eauto. Qed.

Lemma join_split : forall s cur, join_colon (split_on 58 s cur) = rev cur ++ s.
Proof.
  induction s as [|c s IH]; intros cur.
  - cbn. rewrite app_nil_r. reflexivity.
  - cbn [split_on]. destruct (c =? 58) eqn:E.
    + apply Z.eqb_eq in E. subst c.
      destruct (split_on_nonempty 58 s []) as (x & r & Ex). specialize (IH []). rewrite Ex in *.
      change (join_colon (rev cur :: x :: r)) with (rev cur ++ 58 :: join_colon (x :: r)).
      rewrite IH. reflexivity.
    + rewrite IH. cbn [rev]. rewrite <- app_assoc. reflexivity.
Qed.

Lemma no_sep_rev sep w : no_sep sep w = true -> no_sep sep (rev w) = true.
Proof.
  unfold no_sep. rewrite !forallb_forall. intros H x Hx. apply H. apply in_rev. exact Hx.
Qed.

(* the text after the last ':' *)
Lemma split_last_colon_app w c : no_sep 58 c = true ->
  split_last_colon (w ++ 58 :: c) = Some (w, c).
Proof.
  intros Hc. unfold split_last_colon. rewrite rev_app_distr. cbn [rev]. rewrite <- app_assoc. cbn [app].
  rewrite split_on_word by (apply no_sep_rev, Hc). cbn [rev app].
  destruct (split_on_nonempty 58 (rev w) []) as (x & r & E). rewrite E. rewrite <- E.
  rewrite join_split. cbn [rev app]. rewrite !rev_involutive. reflexivity.
Qed.

Lemma starts_with_cons_ne p c r : p <> c -> starts_with [p] (c :: r) = false.
Proof. intros H. unfold starts_with. cbn. replace (c =? p) with false by lia. reflexivity. Qed.

Lemma no_sep_head sep c w : no_sep sep (c :: w) = true -> c <> sep.
Proof. unfold no_sep. cbn [forallb]. intros H. apply andb_true_iff in H as [H _]. apply negb_true_iff in H. lia. Qed.

Lemma ends_with_app_ne p w c : c <> [] -> no_sep p c = true -> forall q, ends_with (q ++ [p]) (w ++ c) = false.
Proof.
  intros Hne Hc q. unfold ends_with. rewrite !rev_app_distr. cbn [rev app].
  pose proof (no_sep_rev p c Hc) as Hr. destruct (rev c) as [|x xs] eqn:E.
  - exfalso. apply Hne. rewrite <- (rev_involutive c), E. reflexivity.
  - apply no_sep_head in Hr. unfold starts_with. cbn [app length firstn zlist_eqb].
    replace (x =? p) with false by lia. reflexivity.
Qed.

(* canon_chunks on a non-empty chunk of at most 4 characters *)
Lemma canon_step c r l se : c <> [] -> (length c <= 4)%nat ->
  canon_chunks (c :: r) l se = (do rs <- canon_chunks r l se; Ok (pad4 c ++ fst rs, snd rs)).
Proof.
  intros Hne Hl. destruct c as [|x c]; [congruence|]. cbn [canon_chunks].
  replace (Nat.ltb 4 (length (x :: c))) with false by (symmetry; apply Nat.ltb_ge; exact Hl). reflexivity.
Qed.

Lemma canon_gap r l : canon_chunks ([] :: r) l false
  = (do rs <- canon_chunks r l true; Ok (concat (repeat [48; 48; 48; 48] (8 - l + 1)) ++ fst rs, snd rs)).
Proof. reflexivity. Qed.

(* ---------- IPv6: the zero-run search depends on the zero pattern only; finite sweep ---------- *)
Fixpoint zrun_loop_p (p : list bool) (i : Z) (bs bl st : Z) (lz : bool) : Z * Z * Z * bool :=
  match p with
  | [] => (bs, bl, st, lz)
  | z :: r =>
      if negb z then
        if lz then
          let cur := i - st in
          if cur >? bl then zrun_loop_p r (i + 1) st cur st false
          else zrun_loop_p r (i + 1) bs bl st false
        else zrun_loop_p r (i + 1) bs bl st lz
      else if negb lz then zrun_loop_p r (i + 1) bs bl i true
      else zrun_loop_p r (i + 1) bs bl st lz
  end.

Definition zrun_p (p : list bool) : Z * Z :=
  let '(bs, bl, st, lz) := zrun_loop_p p 0 0 0 (-1) false in
  if lz then let cur := 8 - st in if cur >? bl then (st, cur) else (bs, bl) else (bs, bl).

Lemma zrun_loop_pattern cs : forall i bs bl st lz,
  zrun_loop cs i bs bl st lz = zrun_loop_p (map is_zero_chunk cs) i bs bl st lz.
Proof.
  induction cs as [|c cs IH]; intros; [reflexivity|]. cbn [zrun_loop map zrun_loop_p].
  destruct (is_zero_chunk c); cbn [negb]; destruct lz; cbn [negb]; try apply IH.
  destruct (i - st >? bl); apply IH.
Qed.

Lemma zrun_pattern cs : zrun cs = zrun_p (map is_zero_chunk cs).
Proof. unfold zrun, zrun_p. rewrite zrun_loop_pattern. reflexivity. Qed.

Fixpoint all_bools (n : nat) : list (list bool) :=
  match n with
  | O => [[]]
  | S k => flat_map (fun t => [true :: t; false :: t]) (all_bools k)
  end.

Lemma all_bools_in p : In p (all_bools (length p)).
Proof.
  induction p as [|b p IH]; [left; reflexivity|]. cbn [length all_bools]. apply in_flat_map.
  exists p. split; [exact IH|]. destruct b; [left|right; left]; reflexivity.
Qed.

Definition zrun_good (p : list bool) : bool :=
  let '(bs, bl) := zrun_p p in
  (bl <=? 1) || ((0 <=? bs) && (2 <=? bl) && (bs + bl <=? 8)
                 && forallb (fun b => b) (firstn (Z.to_nat bl) (skipn (Z.to_nat bs) p))).

Lemma zrun_good_all : forallb zrun_good (all_bools 8) = true.
Proof. vm_compute. reflexivity. Qed.

Lemma zrun_spec p : length p = 8%nat -> zrun_good p = true.
Proof.
  intros H. pose proof zrun_good_all as G. rewrite forallb_forall in G. apply G. rewrite <- H. apply all_bools_in.
Qed.

(* ---------- IPv6: per-chunk facts, swept over all 65536 values ---------- *)
Fixpoint zrange (n : nat) (s : Z) : list Z :=
  match n with O => [] | S k => s :: zrange k (s + 1) end.

Lemma zrange_in n : forall s v, s <= v < s + Z.of_nat n -> In v (zrange n s).
Proof.
  induction n as [|n IH]; intros s v H; [lia|]. cbn [zrange].
  destruct (Z.eq_dec s v) as [->|Hne]; [left; reflexivity|]. right. apply IH. lia.
Qed.

Definition chunk_of (v : Z) : list Z := strip0 (hex4 v).

Definition chunk_ok (v : Z) : bool :=
  let c := chunk_of v in
  negb (is_nil c) && (Nat.leb (length c) 4) && no_sep 58 c && no_sep 46 c && all_ascii c
  && zlist_eqb (pad4 c) (hex4 v) && Bool.eqb (is_zero_chunk c) (v =? 0)
  && Bool.eqb (zlist_eqb c [102; 102; 102; 102]) (v =? 65535) && forallb safe c.

Lemma chunk_ok_all : forallb chunk_ok (zrange 65536 0) = true.
Proof. vm_compute. reflexivity. Qed.

Lemma zlist_eqb_eq a b : zlist_eqb a b = true -> a = b.
Proof.
  revert b. induction a as [|x a IH]; destruct b as [|y b]; cbn [zlist_eqb]; try discriminate; [reflexivity|].
  intros H. apply andb_true_iff in H as [H1 H2]. apply Z.eqb_eq in H1. subst. f_equal. apply IH, H2.
Qed.

Record chunk_facts (v : Z) (c : list Z) : Prop := {
  cf_ne : c <> [];
  cf_len : (length c <= 4)%nat;
  cf_colon : no_sep 58 c = true;
  cf_dot : no_sep 46 c = true;
  cf_ascii : all_ascii c = true;
  cf_pad : pad4 c = hex4 v;
  cf_zero : is_zero_chunk c = (v =? 0);
  cf_ffff : zlist_eqb c [102; 102; 102; 102] = (v =? 65535);
  cf_safe : forallb safe c = true }.

Lemma chunk_facts_of v : 0 <= v < 65536 -> chunk_facts v (chunk_of v).
Proof.
  intros Hv. pose proof chunk_ok_all as H. rewrite forallb_forall in H.
  assert (Hin : In v (zrange 65536 0)).
  { apply zrange_in. assert (E : Z.of_nat 65536 = 65536) by (vm_compute; reflexivity). rewrite E. lia. }
  specialize (H v Hin). unfold chunk_ok in H. cbv zeta in H.
  apply andb_true_iff in H as [H A9].
  apply andb_true_iff in H as [H A8]. apply andb_true_iff in H as [H A7]. apply andb_true_iff in H as [H A6].
  apply andb_true_iff in H as [H A5]. apply andb_true_iff in H as [H A4]. apply andb_true_iff in H as [H A3].
  apply andb_true_iff in H as [A1 A2].
  constructor; try assumption.
  - intros E. rewrite E in A1. discriminate.
  - apply Nat.leb_le, A2.
  - apply zlist_eqb_eq, A6.
  - apply Bool.eqb_prop, A7.
  - apply Bool.eqb_prop, A8.
Qed.

(* two octets of the address are the four hex digits of the chunk *)
Lemma hex4_bytes hi lo : 0 <= hi < 256 -> 0 <= lo < 256 ->
  hex4 (hi * 256 + lo) = [hexdigit (hi / 16); hexdigit (hi mod 16); hexdigit (lo / 16); hexdigit (lo mod 16)].
Proof.
  intros H1 H2. unfold hex4.
  replace ((hi * 256 + lo) / 4096) with (hi / 16) by lia.
  replace (((hi * 256 + lo) / 256) mod 16) with (hi mod 16) by lia.
  replace (((hi * 256 + lo) / 16) mod 16) with (lo / 16) by lia.
  replace ((hi * 256 + lo) mod 16) with (lo mod 16) by lia. reflexivity.
Qed.

(* ---------- IPv6: lists of chunks ---------- *)
Definition CF (vs : list Z) (cs : list (list Z)) : Prop := Forall2 chunk_facts vs cs.

Lemma CF_colon vs cs : CF vs cs -> Forall (fun c => no_sep 58 c = true) cs.
Proof. induction 1 as [|v c vs cs H _ IH]; constructor; [apply (cf_colon _ _ H)|exact IH]. Qed.

Lemma split_join_app cs : Forall (fun c => no_sep 58 c = true) cs -> cs <> [] -> forall r,
  split_on 58 (join_colon cs ++ 58 :: r) [] = cs ++ split_on 58 r [].
Proof.
  induction 1 as [|c cs Hc Hcs IH]; intros Hne r; [congruence|].
  destruct cs as [|c2 cs].
  - cbn [join_colon app]. rewrite split_on_word by exact Hc. reflexivity.
  - change (join_colon (c :: c2 :: cs)) with (c ++ 58 :: join_colon (c2 :: cs)).
    rewrite <- app_assoc. cbn [app]. rewrite split_on_word by exact Hc. cbn [rev app].
    rewrite IH by discriminate. reflexivity.
Qed.

Lemma split_join cs : Forall (fun c => no_sep 58 c = true) cs -> cs <> [] ->
  split_on 58 (join_colon cs) [] = cs.
Proof.
  induction 1 as [|c cs Hc Hcs IH]; intros Hne; [congruence|].
  destruct cs as [|c2 cs].
  - cbn [join_colon]. rewrite split_on_last by exact Hc. reflexivity.
  - change (join_colon (c :: c2 :: cs)) with (c ++ 58 :: join_colon (c2 :: cs)).
    rewrite split_on_word by exact Hc. cbn [rev app]. rewrite IH by discriminate. reflexivity.
Qed.

(* a non-empty join starts with a character that is not ':' ... *)
Lemma join_head vs cs : CF vs cs -> cs <> [] -> exists x t, join_colon cs = x :: t /\ x <> 58.
Proof.
  intros H Hne. destruct H as [|v c vs cs Hc H]; [congruence|].
  pose proof (cf_ne _ _ Hc) as N. pose proof (cf_colon _ _ Hc) as C.
  destruct c as [|x c]; [congruence|]. apply no_sep_head in C.
  destruct cs as [|c2 cs]; [exists x, c; auto|].
  change (join_colon ((x :: c) :: c2 :: cs)) with ((x :: c) ++ 58 :: join_colon (c2 :: cs)).
  cbn [app]. eauto.
Qed.

(* ... and ends with its last chunk *)
Lemma join_last vs cs : CF vs cs -> cs <> [] ->
  exists w v c, chunk_facts v c /\ join_colon cs = w ++ c /\ (w = [] \/ exists w', w = w' ++ [58]).
Proof.
  induction 1 as [|v c vs cs Hc H IH]; intros Hne; [congruence|].
  destruct cs as [|c2 cs].
  - exists [], v, c. cbn [join_colon app]. auto.
  - destruct (IH ltac:(discriminate)) as (w & v' & c' & F & E & Hw).
    change (join_colon (c :: c2 :: cs)) with (c ++ 58 :: join_colon (c2 :: cs)). rewrite E.
    exists (c ++ 58 :: w), v', c'. split; [exact F|]. split; [rewrite <- app_assoc; reflexivity|].
    right. destruct Hw as [->|[w' ->]]; [exists c; reflexivity|exists (c ++ 58 :: w')]. rewrite <- app_assoc. reflexivity.
Qed.

Lemma not_dotted c : no_sep 46 c = true -> is_dotted_quad c = false.
Proof. intros H. unfold is_dotted_quad. rewrite split_on_last by exact H. reflexivity. Qed.

(* canon_chunks over chunks with facts *)
Lemma canon_facts vs cs : CF vs cs -> forall r l se,
  canon_chunks (cs ++ r) l se
  = (do rs <- canon_chunks r l se; Ok (concat (map hex4 vs) ++ fst rs, snd rs)).
Proof.
  induction 1 as [|v c vs cs Hc H IH]; intros r l se.
  - cbn [app map concat]. destruct (canon_chunks r l se) as [[x y]| |]; reflexivity.
  - cbn [app]. rewrite canon_step by (apply (cf_ne _ _ Hc) || apply (cf_len _ _ Hc)). rewrite IH.
    destruct (canon_chunks r l se) as [[x y]| |]; cbn [bind fst snd]; try reflexivity.
    rewrite (cf_pad _ _ Hc). cbn [map concat]. rewrite <- app_assoc. reflexivity.
Qed.

Lemma CF_length vs cs : CF vs cs -> length vs = length cs.
Proof. induction 1; cbn; congruence. Qed.

Lemma CF_ascii vs cs : CF vs cs -> all_ascii (join_colon cs) = true.
Proof.
  induction 1 as [|v c vs cs Hc H IH]; [reflexivity|]. destruct cs as [|c2 cs]; [apply (cf_ascii _ _ Hc)|].
  change (join_colon (c :: c2 :: cs)) with (c ++ [58] ++ join_colon (c2 :: cs)).
  apply all_ascii_app; [apply (cf_ascii _ _ Hc)|]. apply all_ascii_app; [reflexivity|exact IH].
Qed.

(* no `::`: all eight chunks are written *)
Lemma ipv6_aton_plain vs cs : CF vs cs -> length cs = 8%nat ->
  ipv6_aton_b (join_colon cs) = match unhexlify (concat (map hex4 vs)) with Ok d => Ok d | _ => Lib eSyntax end.
Proof.
  intros H L. assert (Hne : cs <> []) by (destruct cs; [discriminate|discriminate]).
  destruct (join_head vs cs H Hne) as (x & t & Ej & Hx).
  destruct (join_last vs cs H Hne) as (w & v & c & F & El & Hw).
  set (T := join_colon cs) in *.
  assert (N0 : is_nil T = false) by (rewrite Ej; reflexivity).
  pose proof (ends_with_app_ne 58 w c (cf_ne _ _ F) (cf_colon _ _ F) []) as EW1. cbn [app] in EW1.
  pose proof (ends_with_app_ne 58 w c (cf_ne _ _ F) (cf_colon _ _ F) [58]) as EW2. cbn [app] in EW2.
  rewrite <- El in EW1, EW2.
  assert (SW1 : starts_with [58] T = false) by (rewrite Ej; apply starts_with_cons_ne; congruence).
  assert (SW2 : starts_with [58; 58] T = false)
    by (rewrite Ej; unfold starts_with; cbn; replace (x =? 58) with false by lia; reflexivity).
  assert (EQ : zlist_eqb T [58; 58] = false)
    by (rewrite Ej; cbn [zlist_eqb]; replace (x =? 58) with false by lia; reflexivity).
  assert (Hq : match split_last_colon T with
               | Some (pre, quad) => if is_dotted_quad quad then
                     do v0 <- ipv4_aton_b quad;
                     match v0 with [v0; v1; v2; v3] => Ok (pre ++ 58 :: hex2 v0 ++ hex2 v1 ++ 58 :: hex2 v2 ++ hex2 v3) | _ => Lib eSyntax end
                   else Ok T
               | None => Ok T end = Ok T).
  { destruct Hw as [->|[w' ->]].
    - cbn [app] in El. rewrite El. unfold split_last_colon. rewrite split_on_last by (apply no_sep_rev, (cf_colon _ _ F)).
      reflexivity.
    - rewrite El. rewrite <- app_assoc. cbn [app]. rewrite split_last_colon_app by (apply (cf_colon _ _ F)).
      rewrite not_dotted by (apply (cf_dot _ _ F)). reflexivity. }
  unfold ipv6_aton_b. rewrite N0, EW1, SW1, EQ. cbn [andb]. rewrite Hq. cbn [bind]. rewrite SW2, EW2.
  unfold T. rewrite split_join by (eauto using CF_colon). rewrite L. cbn [Nat.ltb Nat.leb].
  replace (canon_chunks cs 8 false) with (canon_chunks (cs ++ []) 8 false) by (rewrite app_nil_r; reflexivity).
  rewrite (canon_facts vs cs H). cbn [canon_chunks bind fst snd andb].
  rewrite app_nil_r. reflexivity.
Qed.

(* the part of inet_aton after the text has been cut into chunks *)
Definition aton_back (chunks : list (list Z)) : res (list Z) :=
  let l := length chunks in
  if Nat.ltb 8 l then Lib eSyntax
  else
    do cs <- canon_chunks chunks l false;
    if Nat.ltb l 8 && negb (snd cs) then Lib eSyntax
    else match unhexlify (fst cs) with Ok d => Ok d | _ => Lib eSyntax end.

Definition zeros4 (n : nat) : list Z := concat (repeat [48; 48; 48; 48] n).

Lemma aton_back_gap vpre pre vsuf suf : CF vpre pre -> CF vsuf suf -> (length pre + length suf <= 6)%nat ->
  aton_back (pre ++ [] :: suf)
  = match unhexlify (concat (map hex4 vpre) ++ zeros4 (8 - length pre - length suf) ++ concat (map hex4 vsuf)) with
    | Ok d => Ok d | _ => Lib eSyntax end.
Proof.
  intros Hp Hs Hl. unfold aton_back. rewrite app_length. cbn [length].
  replace (Nat.ltb 8 (length pre + S (length suf))) with false by (symmetry; apply Nat.ltb_ge; lia).
  rewrite (canon_facts vpre pre Hp). rewrite canon_gap.
  replace (suf) with (suf ++ []) at 1 by apply app_nil_r. rewrite (canon_facts vsuf suf Hs).
  cbn [canon_chunks bind fst snd negb]. rewrite andb_false_r. rewrite app_nil_r.
  replace (8 - (length pre + S (length suf)) + 1)%nat with (8 - length pre - length suf)%nat by lia.
  reflexivity.
Qed.

Lemma removelast_app2 {A} (w : list A) (x y : A) : removelast (w ++ [x; y]) = w ++ [x].
Proof. induction w as [|a w IH]; [reflexivity|]. cbn [app]. rewrite <- IH. destruct (w ++ [x; y]) eqn:E; [destruct w; discriminate|reflexivity]. Qed.

Lemma ends_with_app p w : ends_with p (w ++ p) = true.
Proof.
  unfold ends_with, starts_with. rewrite rev_app_distr, firstn_app, Nat.sub_diag, firstn_all. cbn [firstn].
  rewrite app_nil_r. apply zlist_eqb_refl.
Qed.

Lemma starts_with_app p w : starts_with p (p ++ w) = true.
Proof. unfold starts_with. rewrite firstn_app, Nat.sub_diag, firstn_all. cbn [firstn]. rewrite app_nil_r. apply zlist_eqb_refl. Qed.

(* the front end of inet_aton is transparent for a text without dotted quad and without the
   special first/last colon forms: what remains is the split *)
Lemma ipv6_aton_front T T' :
  is_nil T = false ->
  (ends_with [58] T && negb (ends_with [58; 58] T)) = false ->
  (starts_with [58] T && negb (starts_with [58; 58] T)) = false ->
  zlist_eqb T [58; 58] = false ->
  (forall pre quad, split_last_colon T = Some (pre, quad) -> is_dotted_quad quad = false) ->
  (if starts_with [58; 58] T then tl T else if ends_with [58; 58] T then removelast T else T) = T' ->
  ipv6_aton_b T = aton_back (split_on 58 T' []).
Proof.
  intros N E1 E2 E3 Hq ET. unfold ipv6_aton_b. rewrite N, E1, E2, E3.
  destruct (split_last_colon T) as [[pre quad]|] eqn:Es.
  - rewrite (Hq pre quad eq_refl). cbn [bind]. rewrite ET. reflexivity.
  - cbn [bind]. rewrite ET. reflexivity.
Qed.

Theorem ipv6_aton_gap vpre pre vsuf suf : CF vpre pre -> CF vsuf suf ->
  (length pre + length suf <= 6)%nat -> (pre <> [] \/ suf <> []) ->
  ipv6_aton_b (join_colon pre ++ [58; 58] ++ join_colon suf)
  = match unhexlify (concat (map hex4 vpre) ++ zeros4 (8 - length pre - length suf) ++ concat (map hex4 vsuf)) with
    | Ok d => Ok d | _ => Lib eSyntax end.
Proof.
  intros Hp Hs Hl Hne. rewrite <- (aton_back_gap vpre pre vsuf suf Hp Hs Hl).
  destruct pre as [|p0 pre']; destruct suf as [|s0 suf'].
  - destruct Hne; congruence.
  - (* ::suffix *)
    destruct (join_head _ _ Hs ltac:(discriminate)) as (x & t & Ej & Hx).
    destruct (join_last _ _ Hs ltac:(discriminate)) as (w & v & c & F & El & Hw).
    set (J := join_colon (s0 :: suf')) in *. change (join_colon [] ++ [58; 58] ++ J) with (58 :: 58 :: J).
    transitivity (aton_back (split_on 58 (58 :: J) [])); [apply ipv6_aton_front|].
    + reflexivity.
    + pose proof (ends_with_app_ne 58 (58 :: 58 :: w) c (cf_ne _ _ F) (cf_colon _ _ F) []) as E. cbn [app] in E.
      rewrite <- El in E. cbn [app] in E. rewrite E. reflexivity.
    + reflexivity.
    + rewrite Ej. cbn [zlist_eqb]. rewrite !Z.eqb_refl. reflexivity.
    + intros pre quad Hq. rewrite El in Hq. destruct Hw as [->|[w' ->]].
      * cbn [app] in Hq. change (58 :: 58 :: c) with ([58] ++ 58 :: c) in Hq.
        rewrite split_last_colon_app in Hq by (apply (cf_colon _ _ F)). inversion Hq; subst.
        apply not_dotted, (cf_dot _ _ F).
      * replace (58 :: 58 :: (w' ++ [58]) ++ c) with ((58 :: 58 :: w') ++ 58 :: c) in Hq
          by (cbn [app]; rewrite <- app_assoc; reflexivity).
        rewrite split_last_colon_app in Hq by (apply (cf_colon _ _ F)). inversion Hq; subst.
        apply not_dotted, (cf_dot _ _ F).
    + reflexivity.
    + cbn [split_on]. rewrite Z.eqb_refl. unfold J. rewrite split_join by (eauto using CF_colon; discriminate).
      reflexivity.
  - (* prefix:: *)
    destruct (join_head _ _ Hp ltac:(discriminate)) as (x & t & Ej & Hx).
    set (J := join_colon (p0 :: pre')) in *. change (J ++ [58; 58] ++ join_colon []) with (J ++ [58; 58] ++ []).
    rewrite app_nil_r.
    transitivity (aton_back (split_on 58 (J ++ [58]) [])); [apply ipv6_aton_front|].
    + rewrite Ej. reflexivity.
    + rewrite (ends_with_app [58; 58] J). cbn [negb]. apply andb_false_r.
    + rewrite Ej. cbn [app]. rewrite starts_with_cons_ne by congruence. reflexivity.
    + rewrite Ej. cbn [app zlist_eqb]. replace (x =? 58) with false by lia. reflexivity.
    + intros pre quad Hq. replace (J ++ [58; 58]) with ((J ++ [58]) ++ 58 :: []) in Hq by (rewrite <- app_assoc; reflexivity).
      rewrite split_last_colon_app in Hq by reflexivity. inversion Hq; subst. reflexivity.
    + replace (starts_with [58; 58] (J ++ [58; 58])) with false
        by (rewrite Ej; unfold starts_with; cbn; replace (x =? 58) with false by lia; reflexivity).
      rewrite (ends_with_app [58; 58] J). apply removelast_app2.
    + unfold J. change ([58]) with (58 :: @nil Z). rewrite split_join_app by (eauto using CF_colon; discriminate).
      reflexivity.
  - (* prefix::suffix *)
    destruct (join_head _ _ Hp ltac:(discriminate)) as (x & t & Ej & Hx).
    destruct (join_last _ _ Hs ltac:(discriminate)) as (w & v & c & F & El & Hw).
    set (J := join_colon (p0 :: pre')) in *. set (K := join_colon (s0 :: suf')) in *.
    transitivity (aton_back (split_on 58 (J ++ [58; 58] ++ K) [])); [apply ipv6_aton_front|].
    + rewrite Ej. reflexivity.
    + pose proof (ends_with_app_ne 58 (J ++ [58; 58] ++ w) c (cf_ne _ _ F) (cf_colon _ _ F) []) as E. cbn [app] in E.
      rewrite El. replace (J ++ [58; 58] ++ w ++ c) with ((J ++ 58 :: 58 :: w) ++ c) by (cbn [app]; rewrite <- app_assoc; reflexivity).
      rewrite E. reflexivity.
    + rewrite Ej. cbn [app]. rewrite starts_with_cons_ne by congruence. reflexivity.
    + rewrite Ej. cbn [app zlist_eqb]. replace (x =? 58) with false by lia. reflexivity.
    + intros pre quad Hq. rewrite El in Hq. destruct Hw as [->|[w' ->]].
      * cbn [app] in Hq. replace (J ++ 58 :: 58 :: c) with ((J ++ [58]) ++ 58 :: c) in Hq by (rewrite <- app_assoc; reflexivity).
        rewrite split_last_colon_app in Hq by (apply (cf_colon _ _ F)). inversion Hq; subst.
        apply not_dotted, (cf_dot _ _ F).
      * replace (J ++ [58; 58] ++ (w' ++ [58]) ++ c) with ((J ++ 58 :: 58 :: w') ++ 58 :: c) in Hq
          by (cbn [app]; rewrite <- !app_assoc; reflexivity).
        rewrite split_last_colon_app in Hq by (apply (cf_colon _ _ F)). inversion Hq; subst.
        apply not_dotted, (cf_dot _ _ F).
    + replace (starts_with [58; 58] (J ++ [58; 58] ++ K)) with false
        by (rewrite Ej; unfold starts_with; cbn; replace (x =? 58) with false by lia; reflexivity).
      pose proof (ends_with_app_ne 58 (J ++ [58; 58] ++ w) c (cf_ne _ _ F) (cf_colon _ _ F) [58]) as E. cbn [app] in E.
      rewrite El. replace (J ++ [58; 58] ++ w ++ c) with ((J ++ 58 :: 58 :: w) ++ c) by (cbn [app]; rewrite <- app_assoc; reflexivity).
      rewrite E. rewrite <- app_assoc. reflexivity.
    + unfold J, K. cbn [app]. rewrite split_join_app by (eauto using CF_colon; discriminate).
      cbn [split_on]. rewrite Z.eqb_refl. rewrite split_join by (eauto using CF_colon; discriminate). reflexivity.
Qed.

(* ---------- IPv6: embedded IPv4 forms ---------- *)
Definition hex2_ok (b : Z) : bool := no_sep 58 (hex2 b).
Lemma hex2_ok_all : forallb hex2_ok (map Z.of_nat (seq 0 256)) = true.
Proof. vm_compute. reflexivity. Qed.
Lemma hex2_colon b : 0 <= b < 256 -> no_sep 58 (hex2 b) = true.
Proof.
  intros Hb. pose proof hex2_ok_all as H. rewrite forallb_forall in H. apply (H b).
  rewrite <- (Z2Nat.id b) by lia. apply in_map. apply in_seq. lia.
Qed.

Lemma no_sep_app sep a b : no_sep sep a = true -> no_sep sep b = true -> no_sep sep (a ++ b) = true.
Proof. unfold no_sep. intros. rewrite forallb_app. apply andb_true_iff. split; assumption. Qed.

Lemma part_ok_digits p : ipv4_part_ok p = true -> negb (is_nil p) && forallb is_decimal p = true.
Proof. unfold ipv4_part_ok. intros H. apply andb_true_iff in H as [H _]. exact H. Qed.

Definition v4text (b0 b1 b2 b3 : Z) : list Z := dec b0 ++ 46 :: dec b1 ++ 46 :: dec b2 ++ 46 :: dec b3.

Lemma v4text_facts b0 b1 b2 b3 : 0 <= b0 < 256 -> 0 <= b1 < 256 -> 0 <= b2 < 256 -> 0 <= b3 < 256 ->
  no_sep 58 (v4text b0 b1 b2 b3) = true /\ is_dotted_quad (v4text b0 b1 b2 b3) = true /\
  all_ascii (v4text b0 b1 b2 b3) = true /\
  (forall w q, ends_with (q ++ [58]) (w ++ v4text b0 b1 b2 b3) = false) /\
  exists x t, v4text b0 b1 b2 b3 = x :: t /\ x <> 58.
Proof.
  intros H0 H1 H2 H3.
  destruct (octet_facts b0 H0) as (P0 & _ & D0 & C0 & A0). destruct (octet_facts b1 H1) as (P1 & _ & D1 & C1 & A1).
  destruct (octet_facts b2 H2) as (P2 & _ & D2 & C2 & A2). destruct (octet_facts b3 H3) as (P3 & _ & D3 & C3 & A3).
  unfold v4text. split; [|split; [|split; [|split]]].
  - repeat (apply no_sep_app; [assumption|]; change (no_sep 58 (46 :: ?x)) with (no_sep 58 ([46] ++ x));
            apply no_sep_app; [reflexivity|]). assumption.
  - unfold is_dotted_quad. rewrite split_on_word by exact D0. rewrite split_on_word by exact D1.
    rewrite split_on_word by exact D2. rewrite split_on_last by exact D3. cbn [rev app length Nat.eqb forallb andb].
    rewrite (part_ok_digits _ P0), (part_ok_digits _ P1), (part_ok_digits _ P2), (part_ok_digits _ P3). reflexivity.
  - repeat (apply all_ascii_app; [assumption|]; change (all_ascii (46 :: ?x)) with (all_ascii ([46] ++ x));
            apply all_ascii_app; [reflexivity|]). assumption.
  - intros w q.
    replace (w ++ dec b0 ++ 46 :: dec b1 ++ 46 :: dec b2 ++ 46 :: dec b3)
      with ((w ++ dec b0 ++ 46 :: dec b1 ++ 46 :: dec b2 ++ [46]) ++ dec b3)
      by (rewrite <- !app_assoc; cbn [app]; rewrite <- !app_assoc; cbn [app]; rewrite <- !app_assoc; reflexivity).
    apply ends_with_app_ne; [|exact C3]. apply part_ok_digits in P3. destruct (dec b3); [discriminate|discriminate].
  - apply part_ok_digits in P0. destruct (dec b0) as [|x t] eqn:E; [discriminate|].
    exists x, (t ++ 46 :: dec b1 ++ 46 :: dec b2 ++ 46 :: dec b3). split; [reflexivity|]. apply (no_sep_head 58 x t C0).
Qed.

Lemma hexlify_app a b : hexlify (a ++ b) = hexlify a ++ hexlify b.
Proof. unfold hexlify. apply flat_map_app. Qed.

Lemma pad4_4 a b c d : pad4 [a; b; c; d] = [a; b; c; d].
Proof. reflexivity. Qed.

(* "::" + dotted quad   and   "::ffff:" + dotted quad *)
Theorem ipv6_aton_embedded (mapped : bool) b0 b1 b2 b3 :
  0 <= b0 < 256 -> 0 <= b1 < 256 -> 0 <= b2 < 256 -> 0 <= b3 < 256 ->
  ipv6_aton_b ((if mapped then [58; 58; 102; 102; 102; 102; 58] else [58; 58]) ++ v4text b0 b1 b2 b3)
  = Ok (repeat 0 10 ++ (if mapped then [255; 255] else [0; 0]) ++ [b0; b1; b2; b3]).
Proof.
  intros H0 H1 H2 H3. destruct (v4text_facts b0 b1 b2 b3 H0 H1 H2 H3) as (VC & VQ & _ & VE & (x & t & Ex & Hx)).
  set (V := v4text b0 b1 b2 b3) in *.
  pose proof (hex2_colon b0 H0) as X0. pose proof (hex2_colon b1 H1) as X1.
  pose proof (hex2_colon b2 H2) as X2. pose proof (hex2_colon b3 H3) as X3.
  assert (R : ipv4_aton_b V = Ok [b0; b1; b2; b3]) by (apply ipv4_roundtrip_b; assumption).
  assert (U : unhexlify (hexlify (repeat 0 10 ++ (if mapped then [255; 255] else [0; 0]) ++ [b0; b1; b2; b3]))
              = Ok (repeat 0 10 ++ (if mapped then [255; 255] else [0; 0]) ++ [b0; b1; b2; b3])).
  { apply unhexlify_hexlify. destruct mapped; cbn [repeat app all_bytes forallb]; unfold is_byte;
      repeat (apply andb_true_iff; split); try reflexivity; lia. }
  unfold ipv6_aton_b. destruct mapped.
  - replace (is_nil ([58; 58; 102; 102; 102; 102; 58] ++ V)) with false by reflexivity.
    pose proof (VE [58; 58; 102; 102; 102; 102; 58] []) as E1. cbn [app] in E1. cbn [app]. rewrite E1.
    change (starts_with [58] (58 :: 58 :: 102 :: 102 :: 102 :: 102 :: 58 :: V)) with true.
    change (starts_with [58; 58] (58 :: 58 :: 102 :: 102 :: 102 :: 102 :: 58 :: V)) with true.
    change (zlist_eqb (58 :: 58 :: 102 :: 102 :: 102 :: 102 :: 58 :: V) [58; 58]) with false. cbn [andb negb].
    change (58 :: 58 :: 102 :: 102 :: 102 :: 102 :: 58 :: V) with ([58; 58; 102; 102; 102; 102] ++ 58 :: V).
    rewrite split_last_colon_app by exact VC. rewrite VQ, R. cbn [bind app].
    change (starts_with [58; 58] (58 :: 58 :: 102 :: 102 :: 102 :: 102 :: 58 :: hex2 b0 ++ hex2 b1 ++ 58 :: hex2 b2 ++ hex2 b3)) with true.
    cbn [tl].
    change (58 :: 102 :: 102 :: 102 :: 102 :: 58 :: hex2 b0 ++ hex2 b1 ++ 58 :: hex2 b2 ++ hex2 b3)
      with ([] ++ 58 :: [102; 102; 102; 102] ++ 58 :: (hex2 b0 ++ hex2 b1) ++ 58 :: hex2 b2 ++ hex2 b3).
    rewrite split_on_word by reflexivity. rewrite split_on_word by reflexivity.
    rewrite split_on_word by (apply no_sep_app; assumption). rewrite split_on_last by (apply no_sep_app; assumption).
    unfold hex2. cbn [rev app length Nat.ltb Nat.leb canon_chunks bind fst snd negb andb Nat.sub Nat.add repeat concat pad4].
    change (match unhexlify (hexlify [0; 0; 0; 0; 0; 0; 0; 0; 0; 0; 255; 255; b0; b1; b2; b3]) with Ok d => Ok d | _ => Lib eSyntax end
            = Ok [0; 0; 0; 0; 0; 0; 0; 0; 0; 0; 255; 255; b0; b1; b2; b3]).
    cbn [repeat app] in U. rewrite U. reflexivity.
  - replace (is_nil ([58; 58] ++ V)) with false by reflexivity.
    pose proof (VE [58; 58] []) as E1. cbn [app] in E1. cbn [app]. rewrite E1.
    change (starts_with [58] (58 :: 58 :: V)) with true. change (starts_with [58; 58] (58 :: 58 :: V)) with true.
    replace (zlist_eqb (58 :: 58 :: V) [58; 58]) with false by (rewrite Ex; reflexivity). cbn [andb negb].
    change (58 :: 58 :: V) with ([58] ++ 58 :: V).
    rewrite split_last_colon_app by exact VC. rewrite VQ, R. cbn [bind app].
    change (starts_with [58; 58] (58 :: 58 :: hex2 b0 ++ hex2 b1 ++ 58 :: hex2 b2 ++ hex2 b3)) with true.
    cbn [tl].
    change (58 :: hex2 b0 ++ hex2 b1 ++ 58 :: hex2 b2 ++ hex2 b3)
      with ([] ++ 58 :: (hex2 b0 ++ hex2 b1) ++ 58 :: hex2 b2 ++ hex2 b3).
    rewrite split_on_word by reflexivity.
    rewrite split_on_word by (apply no_sep_app; assumption). rewrite split_on_last by (apply no_sep_app; assumption).
    unfold hex2. cbn [rev app length Nat.ltb Nat.leb canon_chunks bind fst snd negb andb Nat.sub Nat.add repeat concat pad4].
    change (match unhexlify (hexlify [0; 0; 0; 0; 0; 0; 0; 0; 0; 0; 0; 0; b0; b1; b2; b3]) with Ok d => Ok d | _ => Lib eSyntax end
            = Ok [0; 0; 0; 0; 0; 0; 0; 0; 0; 0; 0; 0; b0; b1; b2; b3]).
    cbn [repeat app] in U. rewrite U. reflexivity.
Qed.

(* ---------- IPv6: assembling the round trip ---------- *)
Lemma Forall2_firstn {A B} (R : A -> B -> Prop) n : forall l1 l2, Forall2 R l1 l2 -> Forall2 R (firstn n l1) (firstn n l2).
Proof. induction n as [|n IH]; intros l1 l2 H; [constructor|]. destruct H; cbn [firstn]; constructor; auto. Qed.

Lemma Forall2_skipn {A B} (R : A -> B -> Prop) n : forall l1 l2, Forall2 R l1 l2 -> Forall2 R (skipn n l1) (skipn n l2).
Proof. induction n as [|n IH]; intros l1 l2 H; [exact H|]. destruct H; cbn [skipn]; [constructor|auto]. Qed.

Lemma skipn_add {A} n m : forall l : list A, skipn (n + m) l = skipn m (skipn n l).
Proof. induction n as [|n IH]; intros l; [reflexivity|]. destruct l; cbn [Nat.add skipn]; [destruct m; reflexivity|apply IH]. Qed.

Lemma zero_run_hex vs : forallb (fun v => v =? 0) vs = true -> concat (map hex4 vs) = zeros4 (length vs).
Proof.
  induction vs as [|v vs IH]; intros H; [reflexivity|]. cbn [forallb] in H. apply andb_true_iff in H as [Hv H].
  apply Z.eqb_eq in Hv. subst v. cbn [map concat length]. rewrite IH by exact H. reflexivity.
Qed.

Lemma CF_of vs : Forall (fun v => 0 <= v < 65536) vs -> CF vs (map chunk_of vs).
Proof. induction 1 as [|v vs Hv _ IH]; cbn [map]; constructor; [apply chunk_facts_of, Hv|exact IH]. Qed.

Lemma map_zero_chunk vs : Forall (fun v => 0 <= v < 65536) vs ->
  map is_zero_chunk (map chunk_of vs) = map (fun v => v =? 0) vs.
Proof.
  induction 1 as [|v vs Hv _ IH]; [reflexivity|]. cbn [map]. rewrite IH. f_equal. apply (cf_zero _ _ (chunk_facts_of v Hv)).
Qed.

Lemma ipv6_aton_ascii t : all_ascii t = true -> ipv6_aton t = ipv6_aton_b t.
Proof. intros H. unfold ipv6_aton. rewrite utf8_ascii by exact H. reflexivity. Qed.

Theorem ipv6_roundtrip a : all_bytes a = true -> length a = 16%nat ->
  exists t, ipv6_ntoa a = Ok t /\ ipv6_aton t = Ok a.
Proof.
  intros Hb Hl.
  destruct a as [|b0 [|b1 [|b2 [|b3 [|b4 [|b5 [|b6 [|b7 [|b8 [|b9 [|b10 [|b11 [|b12 [|b13 [|b14 [|b15 [|? ?]]]]]]]]]]]]]]]]];
    try discriminate.
  cbn [all_bytes forallb] in Hb. repeat (apply andb_true_iff in Hb as [? Hb]).
  repeat match goal with H : is_byte _ = true |- _ => apply is_byte_range in H end.
  set (a := [b0; b1; b2; b3; b4; b5; b6; b7; b8; b9; b10; b11; b12; b13; b14; b15]).
  set (vs := [b0 * 256 + b1; b2 * 256 + b3; b4 * 256 + b5; b6 * 256 + b7; b8 * 256 + b9; b10 * 256 + b11;
              b12 * 256 + b13; b14 * 256 + b15]).
  assert (Hvs : Forall (fun v => 0 <= v < 65536) vs) by (unfold vs; repeat constructor; lia).
  assert (Hhex : concat (map hex4 vs) = hexlify a).
  { unfold vs, a. cbn [map concat app]. rewrite !hex4_bytes by assumption. reflexivity. }
  assert (Hun : unhexlify (hexlify a) = Ok a).
  { apply unhexlify_hexlify. unfold a, all_bytes. cbn [forallb]. unfold is_byte.
    repeat (apply andb_true_iff; split); try reflexivity; lia. }
  pose proof (CF_of vs Hvs) as HCF. set (cs := map chunk_of vs) in *.
  assert (Lcs : length cs = 8%nat) by reflexivity.
  unfold ipv6_ntoa. change (length a) with 16%nat. cbn [Nat.eqb negb].
  change (map (fun v => strip0 (hex4 v)) (pairs16 a)) with cs.
  rewrite zrun_pattern. unfold cs at 1. rewrite map_zero_chunk by exact Hvs.
  pose proof (zrun_spec (map (fun v => v =? 0) vs) eq_refl) as G. unfold zrun_good in G.
  destruct (zrun_p (map (fun v => v =? 0) vs)) as [bs bl].
  destruct (bl >? 1) eqn:Ebl.
  2:{ (* no run of two or more zero chunks *)
      exists (join_colon cs). split; [reflexivity|].
      rewrite ipv6_aton_ascii by (apply (CF_ascii vs cs HCF)).
      rewrite (ipv6_aton_plain vs cs HCF Lcs), Hhex, Hun. reflexivity. }
  replace (bl <=? 1) with false in G by lia. cbn [orb] in G.
  apply andb_true_iff in G as [G Gz]. apply andb_true_iff in G as [G G3]. apply andb_true_iff in G as [G1 G2].
  set (nbs := Z.to_nat bs) in *. set (nbl := Z.to_nat bl) in *.
  assert (Hn : (2 <= nbl /\ nbs + nbl <= 8)%nat) by (unfold nbs, nbl; lia).
  (* the chunks of the run are zero *)
  assert (Gz' : forallb (fun v => v =? 0) (firstn nbl (skipn nbs vs)) = true).
  { fold nbs nbl in Gz. rewrite skipn_map, firstn_map in Gz. rewrite forallb_forall in *. intros v Hv.
    apply (Gz (v =? 0)). apply in_map_iff. exists v. split; [reflexivity|exact Hv]. }
  (* decomposition of values and chunks *)
  set (vpre := firstn nbs vs). set (vmid := firstn nbl (skipn nbs vs)). set (vsuf := skipn (nbs + nbl) vs).
  assert (Dv : vs = vpre ++ vmid ++ vsuf).
  { unfold vpre, vmid, vsuf. rewrite skipn_add. rewrite (firstn_skipn nbl). apply (eq_sym (firstn_skipn nbs vs)). }
  assert (Lmid : length vmid = nbl).
  { unfold vmid. rewrite firstn_length, skipn_length. change (length vs) with 8%nat. lia. }
  assert (Hcanon : concat (map hex4 vpre) ++ zeros4 nbl ++ concat (map hex4 vsuf) = hexlify a).
  { rewrite <- Hhex. rewrite Dv at 1. rewrite !map_app, !concat_app. rewrite (zero_run_hex vmid Gz'), Lmid. reflexivity. }
  destruct ((bs =? 0) && ((bl =? 6) || (bl =? 5) && zlist_eqb (nth 5 cs []) [102; 102; 102; 102])) eqn:Eemb.
  - (* embedded IPv4 *)
    apply andb_true_iff in Eemb as [E0 E1]. assert (bs = 0) by lia. subst bs.
    change (skipn 12 a) with [b12; b13; b14; b15]. cbn [ipv4_ntoa bind].
    destruct (v4text_facts b12 b13 b14 b15) as (_ & _ & VA & _); try assumption.
    destruct (bl =? 6) eqn:E6.
    + assert (bl = 6) by lia. subst bl. eexists. split; [reflexivity|].
      rewrite ipv6_aton_ascii by (apply all_ascii_app; [reflexivity|exact VA]).
      change (dec b12 ++ 46 :: dec b13 ++ 46 :: dec b14 ++ 46 :: dec b15) with (v4text b12 b13 b14 b15).
      rewrite (ipv6_aton_embedded false) by assumption.
      unfold vmid, nbl, nbs, vs in Gz'. cbn [Z.to_nat Pos.to_nat Pos.iter_op Nat.add skipn firstn forallb] in Gz'.
      repeat (apply andb_true_iff in Gz' as [? Gz']).
      repeat match goal with H : (_ =? 0) = true |- _ => apply Z.eqb_eq in H end.
      assert (b0 = 0 /\ b1 = 0 /\ b2 = 0 /\ b3 = 0 /\ b4 = 0 /\ b5 = 0 /\ b6 = 0 /\ b7 = 0 /\ b8 = 0 /\ b9 = 0 /\ b10 = 0 /\ b11 = 0)
        as (-> & -> & -> & -> & -> & -> & -> & -> & -> & -> & -> & ->) by lia.
      reflexivity.
    + cbn [orb] in E1. apply andb_true_iff in E1 as [E5 Ef]. assert (bl = 5) by lia. subst bl.
      eexists. split; [reflexivity|].
      rewrite ipv6_aton_ascii by (apply all_ascii_app; [reflexivity|exact VA]).
      change (dec b12 ++ 46 :: dec b13 ++ 46 :: dec b14 ++ 46 :: dec b15) with (v4text b12 b13 b14 b15).
      rewrite (ipv6_aton_embedded true) by assumption.
      unfold vmid, nbl, nbs, vs in Gz'. cbn [Z.to_nat Pos.to_nat Pos.iter_op Nat.add skipn firstn forallb] in Gz'.
      repeat (apply andb_true_iff in Gz' as [? Gz']).
      repeat match goal with H : (_ =? 0) = true |- _ => apply Z.eqb_eq in H end.
      change (nth 5 cs []) with (chunk_of (b10 * 256 + b11)) in Ef.
      rewrite (cf_ffff _ _ (chunk_facts_of (b10 * 256 + b11) ltac:(lia))) in Ef. apply Z.eqb_eq in Ef.
      assert (b0 = 0 /\ b1 = 0 /\ b2 = 0 /\ b3 = 0 /\ b4 = 0 /\ b5 = 0 /\ b6 = 0 /\ b7 = 0 /\ b8 = 0 /\ b9 = 0 /\ b10 = 255 /\ b11 = 255)
        as (-> & -> & -> & -> & -> & -> & -> & -> & -> & -> & -> & ->) by lia.
      reflexivity.
  - (* the general `::` form *)
    replace (Z.to_nat (bs + bl)) with (nbs + nbl)%nat by (unfold nbs, nbl; lia).
    set (pre := firstn nbs cs). set (suf := skipn (nbs + nbl) cs).
    assert (Hpre : CF vpre pre) by (apply Forall2_firstn, HCF).
    assert (Hsuf : CF vsuf suf) by (apply Forall2_skipn, HCF).
    assert (Lpre : length pre = nbs) by (unfold pre; rewrite firstn_length; change (length cs) with 8%nat; lia).
    assert (Lsuf : length suf = (8 - nbs - nbl)%nat) by (unfold suf; rewrite skipn_length; change (length cs) with 8%nat; lia).
    exists (join_colon pre ++ [58; 58] ++ join_colon suf). split; [reflexivity|].
    rewrite ipv6_aton_ascii
      by (apply all_ascii_app; [apply (CF_ascii _ _ Hpre)|apply all_ascii_app; [reflexivity|apply (CF_ascii _ _ Hsuf)]]).
    destruct pre as [|p0 pre'] eqn:Epre; destruct suf as [|s0 suf'] eqn:Esuf.
    + (* the all-zero address *)
      cbn [length] in Lpre, Lsuf. assert (nbl = 8%nat) by lia.
      change (join_colon [] ++ [58; 58] ++ join_colon []) with [58; 58].
      replace (ipv6_aton_b [58; 58]) with (@Ok (list Z) (repeat 0 16)) by (vm_compute; reflexivity).
      assert (Hz : hexlify a = zeros4 8).
      { rewrite <- Hcanon. replace nbl with 8%nat by assumption.
        replace vpre with (@nil Z) by (symmetry; apply length_zero_iff_nil; unfold vpre; rewrite firstn_length; lia).
        replace vsuf with (@nil Z)
          by (symmetry; apply length_zero_iff_nil; unfold vsuf; rewrite skipn_length; change (length vs) with 8%nat; lia).
        cbn [map concat app]. rewrite app_nil_r. reflexivity. }
      rewrite Hz in Hun. change (zeros4 8) with (hexlify (repeat 0 16)) in Hun.
      rewrite unhexlify_hexlify in Hun by reflexivity. exact Hun.
    + rewrite <- Epre, <- Esuf in *. rewrite (ipv6_aton_gap vpre pre vsuf suf Hpre Hsuf) by (rewrite ?Lpre, ?Lsuf, ?Esuf; try lia; right; discriminate).
      rewrite Lpre, Lsuf. replace (8 - nbs - (8 - nbs - nbl))%nat with nbl by lia. rewrite Hcanon, Hun. reflexivity.
    + rewrite <- Epre, <- Esuf in *. rewrite (ipv6_aton_gap vpre pre vsuf suf Hpre Hsuf) by (rewrite ?Lpre, ?Lsuf, ?Epre; try lia; left; discriminate).
      rewrite Lpre, Lsuf. replace (8 - nbs - (8 - nbs - nbl))%nat with nbl by lia. rewrite Hcanon, Hun. reflexivity.
    + rewrite <- Epre, <- Esuf in *. rewrite (ipv6_aton_gap vpre pre vsuf suf Hpre Hsuf) by (rewrite ?Lpre, ?Lsuf, ?Epre; try lia; left; discriminate).
      rewrite Lpre, Lsuf. replace (8 - nbs - (8 - nbs - nbl))%nat with nbl by lia. rewrite Hcanon, Hun. reflexivity.
Qed.


(* ---------- the printed addresses are single tokenizer words ---------- *)
Lemma safe_app a b : forallb safe a = true -> forallb safe b = true -> forallb safe (a ++ b) = true.
Proof. intros. rewrite forallb_app. apply andb_true_iff. split; assumption. Qed.

Lemma v4text_safe b0 b1 b2 b3 : 0 <= b0 -> 0 <= b1 -> 0 <= b2 -> 0 <= b3 ->
  forallb safe (v4text b0 b1 b2 b3) = true /\ v4text b0 b1 b2 b3 <> [].
Proof.
  intros. unfold v4text. split.
  - repeat (apply safe_app; [apply dec_safe; assumption|]; change (forallb safe (46 :: ?x)) with (forallb safe ([46] ++ x));
            apply safe_app; [reflexivity|]). apply dec_safe. assumption.
  - pose proof (dec_nonempty b0). destruct (dec b0); [congruence|discriminate].
Qed.

Theorem ipv4_ntoa_word a t : all_bytes a = true -> ipv4_ntoa a = Ok t -> forallb safe t = true /\ t <> [].
Proof.
  intros Hb. destruct a as [|a0 [|a1 [|a2 [|a3 [|? ?]]]]]; cbn [ipv4_ntoa]; try discriminate.
  cbn [all_bytes forallb] in Hb. repeat (apply andb_true_iff in Hb as [? Hb]).
  repeat match goal with H : is_byte _ = true |- _ => apply is_byte_range in H end.
  intros E. inversion E. apply (v4text_safe a0 a1 a2 a3); lia.
Qed.

Lemma join_safe vs cs : CF vs cs -> forallb safe (join_colon cs) = true.
Proof.
  induction 1 as [|v c vs cs Hc H IH]; [reflexivity|]. destruct cs as [|c2 cs]; [apply (cf_safe _ _ Hc)|].
  change (join_colon (c :: c2 :: cs)) with (c ++ [58] ++ join_colon (c2 :: cs)).
  apply safe_app; [apply (cf_safe _ _ Hc)|]. apply safe_app; [reflexivity|exact IH].
Qed.

Lemma pairs16_range a : all_bytes a = true -> Forall (fun v => 0 <= v < 65536) (pairs16 a).
Proof.
  revert a. fix IH 1. intros [|hi [|lo r]] H; cbn [pairs16]; try constructor.
  - cbn [all_bytes forallb] in H. apply andb_true_iff in H as [H1 H]. apply andb_true_iff in H as [H2 _].
    apply is_byte_range in H1. apply is_byte_range in H2. lia.
  - apply IH. cbn [all_bytes forallb] in H. apply andb_true_iff in H as [_ H]. apply andb_true_iff in H as [_ H]. exact H.
Qed.

Lemma in_skipn_in {A} n (l : list A) x : In x (skipn n l) -> In x l.
Proof. intros H. rewrite <- (firstn_skipn n l). apply in_or_app. right. exact H. Qed.

Theorem ipv6_ntoa_word a t : all_bytes a = true -> ipv6_ntoa a = Ok t -> forallb safe t = true /\ t <> [].
Proof.
  intros Hb. unfold ipv6_ntoa. destruct (Nat.eqb (length a) 16) eqn:EL; cbn [negb]; [|discriminate].
  pose proof (CF_of _ (pairs16_range a Hb)) as HCF.
  change (map (fun v => strip0 (hex4 v)) (pairs16 a)) with (map chunk_of (pairs16 a)).
  set (cs := map chunk_of (pairs16 a)) in *.
  assert (Hne : cs <> []).
  { unfold cs. destruct a as [|x0 [|x1 r]]; [discriminate EL|discriminate EL|cbn [pairs16 map]; discriminate]. }
  destruct (zrun cs) as [bs bl].
  destruct (bl >? 1).
  - destruct ((bs =? 0) && ((bl =? 6) || (bl =? 5) && zlist_eqb (nth 5 cs []) [102; 102; 102; 102])).
    + destruct (ipv4_ntoa (skipn 12 a)) as [v4| |] eqn:E4; cbn [bind]; try discriminate.
      assert (Hs : all_bytes (skipn 12 a) = true).
      { unfold all_bytes in *. rewrite forallb_forall in *. intros x Hx. apply Hb. eapply in_skipn_in; eauto. }
      destruct (ipv4_ntoa_word _ _ Hs E4) as [S4 N4]. intros E. inversion E. split.
      * apply safe_app; [destruct (bl =? 6); reflexivity|exact S4].
      * destruct (bl =? 6); discriminate.
    + intros E. inversion E. split.
      * apply safe_app; [apply (join_safe _ _ (Forall2_firstn _ _ _ _ HCF))|].
        change (58 :: 58 :: join_colon (skipn (Z.to_nat (bs + bl)) cs)) with ([58; 58] ++ join_colon (skipn (Z.to_nat (bs + bl)) cs)).
        apply safe_app; [reflexivity|apply (join_safe _ _ (Forall2_skipn _ _ _ _ HCF))].
      * destruct (join_colon (firstn (Z.to_nat bs) cs)); discriminate.
  - intros E. inversion E. split; [apply (join_safe _ _ HCF)|].
    destruct (join_head _ _ HCF Hne) as (x & r & Ej & _). rewrite Ej. discriminate.
Qed.
