(* Rendering the same Message object again (size probe, retransmission, the first envelope of a
   transfer served twice): to_wire stores the signed TSIG rdata and, for multi, the returned
   context in the object, but a later render is the same function of (message octets, key,
   request MAC, the tsig_ctx ARGUMENT, clock) as the first one - neither the stored rdata's MAC
   and time nor the stored context influence it. *)
From DV Require Import Base.Prelude.
From DV Require Model.NameM.
From DV Require Import Model.TsigM Proofs.TsigSpec Proofs.TsigLemmas.
Open Scope Z_scope.

Section WithH.
  Variable H : hashid -> bytes -> bytes -> bytes.

  (* signing with the rdata a previous sign returned = signing with the original rdata *)
  Lemma sign_again : forall wire k rd t rmac ctx multi rd' c',
    sign H wire k rd (Some t) rmac ctx multi = Ok (rd', c') ->
    forall wire2 t2 rmac2 ctx2 multi2,
      sign H wire2 k rd' (Some t2) rmac2 ctx2 multi2 = sign H wire2 k rd (Some t2) rmac2 ctx2 multi2.
  Proof.
    intros until c'. intros S wire2 t2 rmac2 ctx2 multi2.
    unfold sign in S.
    destruct (digest wire k rd (Some t) rmac ctx multi) as [c| |]; cbn [bind] in S; try discriminate.
    destruct (mk_tsig _ _ _ _ _ _ _) as [r| |] eqn:M; cbn [bind] in S; try discriminate.
    destruct (maybe_start_digest k (ctx_sign H c) multi) as [cc| |]; cbn [bind] in S; try discriminate.
    assert (r = rd') by congruence. subst r. clear S.
    apply mk_tsig_fields in M as (Fa & Ft & Ff & Fm & Fo & Fe & Fot).
    unfold sign.
    rewrite (digest_rd_irrelevant wire2 k rd' rd (Some t2) (Some t2) rmac2 ctx2 multi2) by (auto; reflexivity).
    rewrite Fa, Ff, Fo, Fe, Fot. reflexivity.
  Qed.

  Lemma rerender_is_render_lemma : forall wire k owner rmac ctx multi now1 o w1 o1,
    render H wire k owner rmac ctx multi now1 o = Ok (w1, o1) ->
    forall wire2 rmac2 ctx2 multi2 now2,
      sign_message H wire2 k owner (o_tsig o1) now2 rmac2 ctx2 multi2
      = sign_message H wire2 k owner (o_tsig o) now2 rmac2 ctx2 multi2.
  Proof.
    intros until o1. intros R wire2 rmac2 ctx2 multi2 now2. unfold render in R.
    destruct (sign_message H wire k owner (o_tsig o) now1 rmac ctx multi) as [[[w rd'] c']| |] eqn:SM;
      cbn [bind] in R; try discriminate.
    cbn [fst snd] in R. assert (o1 = {| o_tsig := rd'; o_ctx := if multi then c' else o_ctx o |}) by congruence.
    subst o1. cbn [o_tsig].
    unfold sign_message in SM.
    destruct (sign H wire k (o_tsig o) (Some now1) rmac ctx multi) as [[t c]| |] eqn:SG; cbn [bind] in SM; try discriminate.
    cbn [fst snd] in SM.
    destruct (tsig_rr owner t); cbn [bind] in SM; try discriminate.
    destruct (get_adcount wire); cbn [bind] in SM; try discriminate.
    destruct (pack_u16 _); cbn [bind] in SM; try discriminate.
    assert (t = rd') by congruence. subst t.
    unfold sign_message. rewrite (sign_again _ _ _ _ _ _ _ _ _ SG). reflexivity.
  Qed.
End WithH.
