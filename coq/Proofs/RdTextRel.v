(* Instances of the schema round trip: names left as they are, and the relativization choices
   (relativized on output and read back relative / absolute; derelativized on output).
   Also: values accepted from text are within the ranges the wire encoder needs. *)
From DV Require Import Base.Prelude Model.NameM Model.TokM Model.RdTextM.
From DV Require Import Proofs.NameValid Proofs.NameOrder Proofs.NameRel Proofs.NameText Proofs.TokEsc Proofs.TokWords
     Proofs.TokShape Proofs.RdTextName Proofs.RdTextLoc Proofs.RdText.
Open Scope Z_scope.

(* ---------- no origin on either side: the values come back unchanged ---------- *)
Lemma name_path_asis sty c n :
  s_origin sty = None -> p_origin c = None -> p_relativize_to c = None -> name_path sty c n = Ok n.
Proof.
  intros H1 H2 H3. unfold name_path, relto_or_origin. rewrite H1, H2, H3. cbn [choose_relativity bind].
  destruct (is_absolute n); reflexivity.
Qed.

Lemma names_path_asis sty c l : s_origin sty = None -> p_origin c = None -> p_relativize_to c = None ->
  map_res (name_path sty c) l = Ok l.
Proof.
  intros H1 H2 H3. induction l as [|n l IH]; [reflexivity|]. cbn [map_res].
  rewrite name_path_asis by assumption. cbn [bind]. rewrite IH. reflexivity.
Qed.

(* without any origin the names come back as they are; the only values that change are the three LOC sizes, which
   are read back from their two-decimal text (loc_expect) *)
Definition asis_val (f : tfield) (v : tval) : tval :=
  match f, v with
  | FLocRec, VLoc la lo alt sz hp vp => loc_expect la lo alt sz hp vp
  | _, _ => v
  end.

Fixpoint asis_vals (fs : list tfield) (vs : list tval) : list tval :=
  match fs, vs with
  | f :: fs', v :: vs' => asis_val f v :: asis_vals fs' vs'
  | _, _ => []
  end.

Lemma asis_vals_id fs vs : length fs = length vs -> existsb (fun f => match f with FLocRec => true | _ => false end) fs = false ->
  asis_vals fs vs = vs.
Proof.
  revert vs. induction fs as [|f fs IH]; intros [|v vs] Hl He; cbn [length] in Hl; try discriminate; [reflexivity|].
  cbn [existsb] in He. apply orb_false_iff in He as [E1 E2]. cbn [asis_vals]. rewrite IH by (auto; lia).
  destruct f; try discriminate; reflexivity.
Qed.

Lemma expects_asis sty c : s_origin sty = None -> p_origin c = None -> p_relativize_to c = None ->
  forall fs vs, Forall2 val_ok fs vs -> expects sty c fs vs = Ok (asis_vals fs vs).
Proof.
  intros H1 H2 H3. induction 1 as [|f v fs vs Hv _ IH]; [reflexivity|].
  cbn [expects asis_vals]. rewrite IH.
  destruct f, v; cbn [val_ok] in Hv; try contradiction; cbn [expect bind asis_val]; try reflexivity.
  - rewrite name_path_asis by assumption. reflexivity.
  - rewrite names_path_asis by assumption. reflexivity.
  - rewrite name_path_asis by (assumption || reflexivity). reflexivity.
  - destruct gw; try reflexivity. rewrite name_path_asis by assumption. reflexivity.
  - rewrite name_path_asis by assumption. reflexivity.
Qed.

Theorem record_roundtrip_asis sty c fs chk vs text rest fw tw :
  schema_wf fs -> Forall2 val_ok fs vs -> style_ok sty -> line_end rest ->
  s_origin sty = None -> p_origin c = None -> p_relativize_to c = None ->
  record_to_text sty fs vs = Ok text -> chk (asis_vals fs vs) = Ok tt ->
  record_from_text_gen fw tw c fs chk (text ++ rest) = Ok (asis_vals fs vs).
Proof.
  intros. eapply record_roundtrip; eauto. apply expects_asis; assumption.
Qed.

(* ---------- relativization ---------- *)
Definition sty_rel (sty : style) (o : name) (rel : bool) : style :=
  mkStyle (Some o) rel (s_hex_chunk sty) (s_hex_sep sty) (s_b64_chunk sty) (s_b64_sep sty) (s_txt_utf8 sty).

Lemma derel_not_abs r o x : derelativize r (x :: o) = Ok (r ++ x :: o) -> is_absolute r = false.
Proof.
  unfold derelativize. destruct (is_absolute r) eqn:E; [|reflexivity]. cbn [negb].
  intros H. inversion H as [H1]. exfalso.
  apply (f_equal (@length _)) in H1. rewrite app_length in H1. cbn [length] in H1. lia.
Qed.

(* relativized on output under origin o, read back with the same origin:
   relativize=True gives exactly relativize n o; relativize=False gives a name ci-equal to n
   (the origin's own spelling replaces the suffix) *)
Theorem name_path_relout sty n x o (rel_in : bool) :
  Valid n -> Valid (x :: o) -> is_absolute (x :: o) = true -> is_subdomain n (x :: o) = true ->
  exists r, relativize n (x :: o) = Ok r /\ ci_equal (r ++ x :: o) n /\
    name_path (sty_rel sty (x :: o) true) (mkPctx (Some (x :: o)) rel_in None) n
    = Ok (if rel_in then r else r ++ x :: o).
Proof.
  intros Vn Vo Ao Sd. destruct (rel_derel n (x :: o) Vn Sd) as (r & R1 & R2 & R3 & R4 & R5).
  exists r. split; [exact R1|]. split; [exact R5|].
  unfold name_path, sty_rel, relto_or_origin. cbn [s_origin s_relativize p_origin p_relativize p_relativize_to].
  cbn [choose_relativity]. rewrite R1. cbn [bind].
  pose proof (derel_not_abs _ _ _ R4) as Ar. rewrite Ar.
  assert (Vro : Valid (r ++ x :: o)).
  { unfold derelativize, concatenate in R4. rewrite Ar in R4. cbn [negb andb] in R4. apply mk_name_ok in R4. tauto. }
  rewrite (mk_name_valid _ Vro). cbn [bind].
  destruct rel_in.
  - assert (Vr : Valid r) by (eapply Valid_prefix; exact Vro).
    destruct (derel_rel r (x :: o) Vr Vo Ar Ao Vro) as [_ E]. exact E.
  - unfold derelativize. rewrite is_absolute_app, Ao. reflexivity.
Qed.

(* a relative name derelativized on output reads back (no origin needed) as the absolute name *)
Theorem name_path_absout sty r x o :
  Valid (r ++ x :: o) -> is_absolute r = false ->
  name_path (sty_rel sty (x :: o) false) (mkPctx None true None) r = Ok (r ++ x :: o).
Proof.
  intros V Ar. unfold name_path, sty_rel, relto_or_origin.
  cbn [s_origin s_relativize p_origin p_relativize p_relativize_to choose_relativity].
  unfold derelativize, concatenate. rewrite Ar. cbn [negb andb]. rewrite (mk_name_valid _ V). cbn [bind].
  destruct (is_absolute (r ++ x :: o)); reflexivity.
Qed.

(* ---------- accepted from text => within the wire field ranges ---------- *)
Definition val_encodable (f : tfield) (v : tval) : Prop :=
  match f, v with
  | FDec maxv, VInt z => 0 <= z <= maxv
  | FTtl, VInt z => 0 <= z <= MAX_TTL
  | FQStr _ ctormax _, VBytes b => ctormax = 0 \/ zlen b <= ctormax
  | FAlg, VInt z => 0 <= z <= 255
  | FHexTok, VBytes b => zlen b <= 255
  | FTag, VBytes b => zlen b <= 255
  | FB32, VBytes b => zlen b <= 255
  | FEnum k, VInt z => 0 <= z <= enum_max k
  | FIntC maxv, VInt z => 0 <= z <= maxv
  | FSigTime, VInt z => 0 <= z <= 4294967295
  | FOct16, VInt z => 0 <= z <= 65535
  | FQOpt, VBytes b => zlen b <= 255
  | FHexStr, VBytes b => zlen b <= 255
  | FB64Tok maxlen, VBytes b => zlen b <= maxlen
  | FB64RestOpt, VBytes b => zlen b <= 65535
  | FMac, VBytes b => zlen b <= 65535
  | FOther, VBytes b => zlen b <= 65535
  | FGposStr, VBytes b => zlen b <= 255
  | FKeyRec, VKey f p a _ _ => 0 <= f <= 65535 /\ 0 <= p <= 255 /\ 0 <= a <= 255
  | FWksProto, VInt z => 0 <= z <= 255
  | _, _ => True
  end.

Lemma alg_from_text_range t z : alg_from_text t = Ok z -> 0 <= z <= 255.
Proof.
  unfold alg_from_text.
  assert (T : forall k v, assoc_text k alg_table = Some v -> 0 <= v <= 255).
  { intros k v. unfold alg_table. cbn [assoc_text].
    repeat (destruct (zlist_eqb k _); [intros E; inversion E; lia|]). discriminate. }
  destruct (assoc_text (map upper_c t) alg_table) as [v|] eqn:E.
  - intros H. inversion H; subst. eapply T; eauto.
  - destruct (negb (is_nil (map upper_c t)) && forallb is_decimal (map upper_c t)) eqn:Ed; [|discriminate].
    destruct (dec_value (map upper_c t) 0 >? 255) eqn:Eg; [discriminate|]. intros H. inversion H; subst.
    apply andb_true_iff in Ed as [_ Ed]. split; [|lia].
    assert (G : forall s a, 0 <= a -> forallb is_decimal s = true -> 0 <= dec_value s a).
    { induction s as [|x s IHs]; intros a Ha Hs; [exact Ha|]. cbn [forallb] in Hs. apply andb_true_iff in Hs as [Hx Hs].
      cbn [dec_value]. apply IHs; [unfold is_decimal in Hx; lia|exact Hs]. }
    apply G; [lia|exact Ed].
Qed.

Lemma legacy_flags_range : forallb (fun v => (0 <=? v) && (v <=? 65535)) (map snd legacy_flags) = true.
Proof. vm_compute. reflexivity. Qed.

Lemma assoc_text_in' k t v : assoc_text k t = Some v -> In v (map snd t).
Proof.
  induction t as [|[n x] t IH]; cbn [assoc_text]; [discriminate|].
  destruct (zlist_eqb k n); [intros H; inversion H; left; reflexivity|intros H; right; apply IH, H].
Qed.

Lemma lor_u16 a b : 0 <= a <= 65535 -> 0 <= b <= 65535 -> 0 <= Z.lor a b <= 65535.
Proof.
  intros Ha Hb. split; [apply Z.lor_nonneg; lia|].
  assert (Z.lor a b < 2 ^ 16); [|lia].
  destruct (Z.eq_dec (Z.lor a b) 0) as [->|Hn]; [lia|].
  apply Z.log2_lt_pow2; [assert (0 <= Z.lor a b) by (apply Z.lor_nonneg; lia); lia|].
  rewrite Z.log2_lor by lia.
  assert (La : Z.log2 a < 16) by (destruct (Z.eq_dec a 0) as [->|]; [cbn; lia|apply Z.log2_lt_pow2; lia]).
  assert (Lb : Z.log2 b < 16) by (destruct (Z.eq_dec b 0) as [->|]; [cbn; lia|apply Z.log2_lt_pow2; lia]).
  lia.
Qed.

Lemma or_mnemonics_range ms : forall acc v, 0 <= acc <= 65535 -> or_mnemonics ms acc = Ok v -> 0 <= v <= 65535.
Proof.
  induction ms as [|m ms IH]; intros acc v Ha H; cbn [or_mnemonics] in H; [inversion H; subst; exact Ha|].
  destruct (assoc_text m legacy_flags) as [x|] eqn:E; try discriminate.
  eapply IH; [|exact H]. apply lor_u16; [exact Ha|].
  apply assoc_text_in' in E. pose proof legacy_flags_range as R. rewrite forallb_forall in R. specialize (R x E). lia.
Qed.

Lemma get_uint_range m st n st' : get_uint m st 10 = Ok (n, st') -> 0 <= n <= m.
Proof.
  unfold get_uint, as_uint.
  destruct (get_unescaped st) as [[t s1]| |]; cbn [bind fst snd]; try discriminate.
  destruct (as_int t 10) as [z| |]; cbn [bind fst snd]; try discriminate.
  destruct ((z <? 0) || (z >? m)) eqn:E; cbn [bind fst snd]; try discriminate. intros H; inversion H; subst. lia.
Qed.

Theorem parse_field_encodable c f st raw st' v :
  parse_field c f st = Ok (raw, st') -> ctor_field f raw = Ok v -> val_encodable f v.
Proof.
  destruct f as [maxv| |tokmax ctormax ne| | |sc| |v6| | | | | |k| |maxc| |en| | | | |bmax| | | |ipsec| | | | | | | | | | |]; cbn [parse_field]; intros H Hc.
  - unfold get_uint, as_uint in H.
    destruct (get_unescaped st) as [[t s1]| |]; cbn [bind fst snd] in H; try discriminate.
    destruct (as_int t 10) as [z| |]; cbn [bind fst snd] in H; try discriminate.
    destruct ((z <? 0) || (z >? maxv)) eqn:E; cbn [bind fst snd] in H; try discriminate.
    inversion H; subst. cbn [ctor_field] in Hc. inversion Hc; subst. cbn [val_encodable]. lia.
  - unfold get_ttl in H.
    destruct (get_unescaped st) as [[t s1]| |]; cbn [bind fst snd] in H; try discriminate.
    destruct (negb (is_identifier t)); try discriminate. unfold ttl_from_text in H.
    destruct (if negb (is_nil (tvalue t)) && forallb is_decimal (tvalue t) then Ok (dec_value (tvalue t) 0)
              else if is_nil (tvalue t) then Lib eBadTTL else ttl_loop (tvalue t) 0 0 true) as [z| |];
      cbn [bind fst snd] in H; try discriminate.
    destruct ((z <? 0) || (z >? MAX_TTL)) eqn:E; cbn [bind fst snd] in H; try discriminate.
    inversion H; subst. cbn [ctor_field] in Hc. inversion Hc; subst. cbn [val_encodable]. lia.
  - destruct (get_string_as_bytes st tokmax) as [[b s1]| |]; cbn [bind fst snd] in H; try discriminate.
    inversion H; subst. cbn [ctor_field] in Hc.
    destruct (negb (ctormax =? 0) && (zlen b >? ctormax)) eqn:E; try discriminate.
    destruct (ne && is_nil b); try discriminate. inversion Hc; subst. cbn [val_encodable]. lia.
  - destruct (get_name c st) as [[n s1]| |]; cbn [bind fst snd] in H; try discriminate.
    inversion H; subst. cbn [ctor_field] in Hc. inversion Hc; subst. exact Logic.I.
  - destruct v; exact Logic.I.
  - destruct v; exact Logic.I.
  - destruct v; exact Logic.I.
  - destruct v; exact Logic.I.
  - destruct raw as [z0|b|n0|l0|w0|ns0|g0 a0 gw0|it0|la0 lo0 al0 sz0 hp0 vp0|sp0 sn0 sps0|kf0 kp0 ka0 kat0 kk0]; cbn [ctor_field] in Hc; try (inversion Hc; subst; exact Logic.I).
    destruct (zlen b >? 255) eqn:E; try discriminate. inversion Hc; subst. cbn [val_encodable]. lia.
  - destruct (get_string st 0) as [[t s1]| |]; cbn [bind fst snd] in H; try discriminate. inversion H; subst.
    cbn [ctor_field] in Hc.
    destruct (alg_from_text t) as [z| |] eqn:E; cbn [bind] in Hc; try discriminate. inversion Hc; subst.
    cbn [val_encodable]. eapply alg_from_text_range; eauto.
  - destruct raw as [z0|b|n0|l0|w0|ns0|g0 a0 gw0|it0|la0 lo0 al0 sz0 hp0 vp0|sp0 sn0 sps0|kf0 kp0 ka0 kat0 kk0]; cbn [ctor_field] in Hc; try (inversion Hc; subst; exact Logic.I).
    destruct ((zlen b >? 255) || is_nil b || negb (forallb is_alnum b)) eqn:E; try discriminate.
    inversion Hc; subst. cbn [val_encodable]. lia.
  - destruct v; exact Logic.I.
  - destruct raw as [z0|b|n0|l0|w0|ns0|g0 a0 gw0|it0|la0 lo0 al0 sz0 hp0 vp0|sp0 sn0 sps0|kf0 kp0 ka0 kat0 kk0]; cbn [ctor_field] in Hc; try (inversion Hc; subst; exact Logic.I).
    destruct (zlen b >? 255) eqn:E; try discriminate. inversion Hc; subst. cbn [val_encodable]. lia.
  - destruct (get_string st 0) as [[t s1]| |]; cbn [bind fst snd] in H; try discriminate.
    destruct (enum_parse k t) as [z| |]; cbn [bind fst snd] in H; try discriminate. inversion H; subst.
    cbn [ctor_field] in Hc. unfold enum_ctor in Hc.
    destruct ((z <? 0) || (z >? enum_max k)) eqn:E; cbn [bind] in Hc; try discriminate. inversion Hc; subst.
    cbn [val_encodable]. lia.
  - destruct v; exact Logic.I.
  - destruct (get_int st 10) as [[z s1]| |]; cbn [bind fst snd] in H; try discriminate. inversion H; subst.
    cbn [ctor_field] in Hc. destruct ((z <? 0) || (z >? maxc)) eqn:E; try discriminate. inversion Hc; subst.
    cbn [val_encodable]. lia.
  - destruct (get_string st 0) as [[t s1]| |]; cbn [bind fst snd] in H; try discriminate.
    destruct (sigtime_to_posixtime t) as [z| |]; cbn [bind fst snd] in H; try discriminate. inversion H; subst.
    cbn [ctor_field] in Hc. destruct ((z <? 0) || (z >? 4294967295)) eqn:E; try discriminate. inversion Hc; subst.
    cbn [val_encodable]. lia.
  - destruct v; exact Logic.I.
  - destruct v; exact Logic.I.
  - unfold get_uint, as_uint in H.
    destruct (get_unescaped st) as [[t s1]| |]; cbn [bind fst snd] in H; try discriminate.
    destruct (as_int t 8) as [z| |]; cbn [bind fst snd] in H; try discriminate.
    destruct ((z <? 0) || (z >? max16)) eqn:E; cbn [bind fst snd] in H; try discriminate.
    inversion H; subst. cbn [ctor_field] in Hc. inversion Hc; subst. cbn [val_encodable]. unfold max16 in E. lia.
  - destruct raw as [z0|b|n0|l0|w0|ns0|g0 a0 gw0|it0|la0 lo0 al0 sz0 hp0 vp0|sp0 sn0 sps0|kf0 kp0 ka0 kat0 kk0]; cbn [ctor_field] in Hc; try (inversion Hc; subst; exact Logic.I).
    destruct (zlen b >? 255) eqn:E; try discriminate. inversion Hc; subst. cbn [val_encodable]. lia.
  - destruct raw as [z0|b|n0|l0|w0|ns0|g0 a0 gw0|it0|la0 lo0 al0 sz0 hp0 vp0|sp0 sn0 sps0|kf0 kp0 ka0 kat0 kk0]; cbn [ctor_field] in Hc; try (inversion Hc; subst; exact Logic.I).
    destruct (zlen b >? 255) eqn:E; try discriminate. inversion Hc; subst. cbn [val_encodable]. lia.
  - destruct raw as [z0|b|n0|l0|w0|ns0|g0 a0 gw0|it0|la0 lo0 al0 sz0 hp0 vp0|sp0 sn0 sps0|kf0 kp0 ka0 kat0 kk0]; cbn [ctor_field] in Hc; try (inversion Hc; subst; exact Logic.I).
    destruct (zlen b >? bmax) eqn:E; try discriminate. inversion Hc; subst. cbn [val_encodable]. lia.
  - destruct v; exact Logic.I.
  - destruct v; exact Logic.I.
  - destruct raw as [z0|b|n0|l0|w0|ns0|g0 a0 gw0|it0|la0 lo0 al0 sz0 hp0 vp0|sp0 sn0 sps0|kf0 kp0 ka0 kat0 kk0]; cbn [ctor_field] in Hc; try (inversion Hc; subst; exact Logic.I).
    destruct (zlen b >? 65535) eqn:E; try discriminate. inversion Hc; subst. cbn [val_encodable]. lia.
  - destruct v; exact Logic.I.
  - destruct v; exact Logic.I.
  - (* FMac *)
    destruct (get_uint max16 st 10) as [[n s1]| |] eqn:En; cbn [bind fst snd] in H; try discriminate.
    destruct (get_string s1 0) as [[t s2]| |]; cbn [bind fst snd] in H; try discriminate.
    destruct (b64decode_str t) as [b| |]; cbn [bind fst snd] in H; try discriminate.
    destruct (zlen b =? n) eqn:E; cbn [negb] in H; try discriminate. inversion H; subst.
    cbn [ctor_field] in Hc. inversion Hc; subst. cbn [val_encodable].
    apply Z.eqb_eq in E. pose proof (get_uint_range _ _ _ _ En). unfold max16 in *. lia.
  - (* FOther *)
    destruct (get_uint max16 st 10) as [[n s1]| |] eqn:En; cbn [bind fst snd] in H; try discriminate.
    destruct (n >? 0).
    + destruct (get_string s1 0) as [[t s2]| |]; cbn [bind fst snd] in H; try discriminate.
      destruct (b64decode_str t) as [b| |]; cbn [bind fst snd] in H; try discriminate.
      destruct (zlen b =? n) eqn:E; cbn [negb] in H; try discriminate. inversion H; subst.
      cbn [ctor_field] in Hc. inversion Hc; subst. cbn [val_encodable].
      apply Z.eqb_eq in E. pose proof (get_uint_range _ _ _ _ En). unfold max16 in *. lia.
    + inversion H; subst. cbn [ctor_field] in Hc. inversion Hc; subst. cbn [val_encodable]. unfold zlen. cbn. lia.
  - (* FGposStr *)
    destruct (get_string st 0) as [[t s1]| |]; cbn [bind fst snd] in H; try discriminate. inversion H; subst.
    cbn [ctor_field] in Hc. destruct (utf8_encode t) as [e| |]; cbn [bind] in Hc; try discriminate.
    destruct (zlen e >? 255) eqn:E; try discriminate. inversion Hc; subst. cbn [val_encodable]. lia.
  - destruct v; exact Logic.I.
  - (* FWksProto *)
    destruct (get_string st 0) as [[t s1]| |]; cbn [bind fst snd] in H; try discriminate.
    destruct (negb (is_nil t) && forallb is_decimal t); try discriminate. inversion H; subst.
    cbn [ctor_field] in Hc. destruct ((dec_value t 0 <? 0) || (dec_value t 0 >? 255)) eqn:E; try discriminate.
    inversion Hc; subst. cbn [val_encodable]. lia.
  - destruct v; exact Logic.I.
  - destruct v; exact Logic.I.
  - destruct v; exact Logic.I.
  - destruct v; exact Logic.I.
  - (* FKeyRec *)
    unfold key_from_text in H.
    destruct (get0 st) as [[t1 s1]| |]; cbn [bind fst snd] in H; try discriminate.
    destruct (key_number_or max16 _ t1) as [fl| |] eqn:Ef; cbn [bind fst snd] in H; try discriminate.
    destruct (get0 s1) as [[t2 s2]| |]; cbn [bind fst snd] in H; try discriminate.
    destruct (key_number_or max8 _ t2) as [pr| |] eqn:Epr; cbn [bind fst snd] in H; try discriminate.
    destruct (get_string s2 0) as [[at_ s3]| |]; cbn [bind fst snd] in H; try discriminate.
    assert (Hraw : exists k, raw = VKey fl pr 0 at_ k).
    { destruct (negb (Z.land fl 49152 =? 49152)).
      - destruct (concatenate_remaining_identifiers s3 false) as [[w s4]| |]; cbn [bind fst snd] in H; try discriminate.
        destruct (utf8_encode w) as [e| |]; cbn [bind] in H; try discriminate.
        destruct (b64decode e) as [k| |]; cbn [bind] in H; try discriminate. inversion H; subst. eauto.
      - inversion H; subst. eauto. }
    destruct Hraw as (k & ->). cbn [ctor_field] in Hc.
    destruct (alg_from_text at_) as [a| |] eqn:Ea; cbn [bind] in Hc; try discriminate. inversion Hc; subst.
    cbn [val_encodable]. split; [|split].
    + unfold key_number_or in Ef. destruct (as_uint max16 t1 10) as [x| |] eqn:Eu.
      * inversion Ef; subst. unfold as_uint in Eu. destruct (as_int t1 10) as [z| |]; cbn [bind] in Eu; try discriminate.
        destruct ((z <? 0) || (z >? max16)) eqn:E; try discriminate. inversion Eu; subst. unfold max16 in E. lia.
      * destruct (as_string t1 0) as [sname| |]; cbn [bind] in Ef; try discriminate.
        eapply or_mnemonics_range; [|exact Ef]. lia.
      * discriminate.
    + unfold key_number_or in Epr. destruct (as_uint max8 t2 10) as [x| |] eqn:Eu.
      * inversion Epr; subst. unfold as_uint in Eu. destruct (as_int t2 10) as [z| |]; cbn [bind] in Eu; try discriminate.
        destruct ((z <? 0) || (z >? max8)) eqn:E; try discriminate. inversion Eu; subst. unfold max8 in E. lia.
      * destruct (as_string t2 0) as [sname| |]; cbn [bind] in Epr; try discriminate.
        destruct (assoc_text sname key_protocols) as [v0|] eqn:Et; try discriminate. inversion Epr; subst.
        revert Et. unfold key_protocols. cbn [assoc_text].
        repeat (destruct (zlist_eqb sname _); [intros Et; inversion Et; lia|]). discriminate.
      * discriminate.
    + eapply alg_from_text_range; eauto.
Qed.

(* names accepted from text satisfy the DNS limits (hence to_wire with an origin cannot fail on length) *)
Theorem as_name_valid c t n : as_name c t = Ok n -> Valid n.
Proof.
  unfold as_name. destruct (negb (is_identifier t)); [discriminate|].
  destruct (NameM.from_text (tvalue t) (p_origin c)) as [n0| |] eqn:E; cbn [bind]; try discriminate.
  assert (V0 : Valid n0).
  { unfold NameM.from_text in E. cbv zeta in E.
    set (T := match tvalue t with [64] => [] | _ => tvalue t end) in E.
    destruct (list_eq_dec Z.eq_dec T [46]) as [HT|HT].
    - rewrite HT in E. apply mk_name_ok in E as [-> V]; exact V.
    - rewrite dot_match in E by exact HT.
      match type of E with (do labels <- ?X; _) = _ => destruct X as [ls| |] end; cbn [bind] in E; try discriminate.
      apply mk_name_ok in E as [-> V]; exact V. }
  intros H. unfold choose_relativity in H.
  destruct (relto_or_origin c) as [[|x o]|]; [inversion H; subst; exact V0| |inversion H; subst; exact V0].
  destruct (p_relativize c).
  - unfold relativize in H. destruct (is_subdomain n0 (x :: o)); [apply mk_name_ok in H as [-> V]; exact V|inversion H; subst; exact V0].
  - unfold derelativize in H. destruct (negb (is_absolute n0)); [|inversion H; subst; exact V0].
    unfold concatenate in H. destruct (is_absolute n0 && (0 <? zlen (x :: o))); [discriminate|].
    apply mk_name_ok in H as [-> V]; exact V.
Qed.
