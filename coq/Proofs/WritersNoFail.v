(* C12 - no critical section ever fails: reader handles stay valid and private to their thread, so
   _end_read always finds its transaction in _readers; together with commit_never_fails no assert /
   index / set.remove error can occur under any schedule (the model's `failed` flag stays None). *)
From DV Require Import Base.Prelude Model.VersM Model.WritersM.
From DV Require Import Proofs.VersInv Proofs.VersThms Proofs.WritersInv Proofs.WritersSerial.
Import VersM WritersM.

Local Open Scope Z_scope.

Fixpoint rh_of (p : pc) : option Z :=
  match p with
  | Rel nx => rh_of nx
  | RBody h _ _ => Some h
  | Acq (CReaderEnd h) | Crit (CReaderEnd h) => Some h
  | _ => None
  end.

Record InvD (s : st) : Prop := mkInvD {
  d_valid : forall t h, rh_of (pcs s t) = Some h -> has_reader h (readers (vz s)) = true /\ h < next_h (vz s);
  d_inj : forall t t' h, rh_of (pcs s t) = Some h -> rh_of (pcs s t') = Some h -> t = t';
  d_nofail : failed s = None
}.

Lemma initD progs : InvD (init progs).
Proof.
  constructor; cbn.
  - intros t h H. destruct (progs t); discriminate.
  - intros t t' h H. destruct (progs t); discriminate.
  - reflexivity.
Qed.

Lemma has_reader_snoc h rs r : has_reader h rs = true -> has_reader h (rs ++ [r]) = true.
Proof.
  induction rs as [|a rs IH]; cbn; [discriminate|].
  intros H. apply orb_true_iff in H. apply orb_true_iff. destruct H as [H|H]; [left; exact H|right; apply IH; exact H].
Qed.

Lemma has_reader_last h rs i : has_reader h (rs ++ [mkR h i]) = true.
Proof.
  induction rs as [|a rs IH]; cbn; [rewrite Z.eqb_refl; reflexivity|]. rewrite IH. apply orb_true_r.
Qed.

Lemma has_reader_remove h h' rs : h' <> h -> has_reader h' (remove_reader h rs) = has_reader h' rs.
Proof.
  intros Hn. induction rs as [|a rs IH]; cbn; [reflexivity|].
  destruct (rh a =? h) eqn:E.
  - assert (rh a =? h' = false) by lia. rewrite H. reflexivity.
  - cbn. rewrite IH. reflexivity.
Qed.

(* shape of the results of the VersM operations used by the sections *)
Lemma open_shape z o z' r :
  (o = OpenLatest \/ (exists i, o = OpenId i) \/ (exists x, o = OpenSerial x)) ->
  VersM.step z o = Ok (z', r) ->
  exists i c, r = ROpened (next_h z) i c /\ readers z' = readers z ++ [mkR (next_h z) i] /\ next_h z' = next_h z + 1.
Proof.
  intros Ho E. destruct Ho as [->|[[i ->]|[x ->]]]; cbn [VersM.step] in E.
  - destruct (last_opt (versions z)) as [v|]; [|discriminate]. unfold register in E. inversion E; subst. cbn. eauto.
  - destruct (find_id_rev _ _) as [v|]; [|discriminate]. unfold register in E. inversion E; subst. cbn. eauto.
  - destruct (find_serial_rev _ _) as [v|]; [|discriminate]. unfold register in E. inversion E; subst. cbn. eauto.
Qed.

Lemma close_ok z h :
  Inv z -> has_reader h (readers z) = true -> h < next_h z ->
  exists z', VersM.step z (Close h) = Ok (z', RUnit) /\ readers z' = remove_reader h (readers z) /\ next_h z' = next_h z.
Proof.
  intros H Hr Hh. cbn [VersM.step].
  assert (E1 : h <? next_h z = true) by lia. rewrite E1, Hr.
  assert (Hsub : forall r0, In r0 (remove_reader h (readers z)) -> In r0 (readers z))
    by (intros r0; apply in_remove_reader).
  destruct (prune_ok (policy z) (versions z) (remove_reader h (readers z))
              (inv_versions_sorted z H) (inv_nonempty z H) (pins_subset z _ H Hsub)) as [vs' [Ep _]].
  rewrite Ep. cbn [bind]. eexists. split; [reflexivity|]. cbn. split; reflexivity.
Qed.

Lemma policy_ok z p :
  Inv z -> exists z', VersM.step z (SetPolicy p) = Ok (z', RUnit) /\ readers z' = readers z /\ next_h z' = next_h z.
Proof.
  intros H. cbn [VersM.step]. unfold set_policy.
  destruct (prune_ok p (versions z) (readers z) (inv_versions_sorted z H) (inv_nonempty z H) (inv_pinned z H))
    as [vs' [Ep _]].
  rewrite Ep. cbn [bind]. eexists. split; [reflexivity|]. cbn. split; reflexivity.
Qed.

Lemma commit_readers z id c z' r :
  VersM.step (vz_set_wtxn z (Some (mkW id c true))) WCommit = Ok (z', r) ->
  readers z' = readers z /\ next_h z' = next_h z.
Proof.
  cbn. destruct (prune _ _ _); cbn; try discriminate. intros E; inversion E; subst. cbn. split; reflexivity.
Qed.

(* moving thread t to a pc with the same handle *)
Lemma invD_move s t p' :
  InvD s -> rh_of p' = rh_of (pcs s t) -> InvD (set_pc s t p').
Proof.
  intros [H1 H2 H3] E. constructor; cbn; [| |exact H3].
  - intros t' h. destruct (Nat.eq_dec t' t) as [->|Hn]; [rewrite upd_same, E; apply H1|rewrite upd_other by exact Hn; apply H1].
  - intros t1 t2 h.
    destruct (Nat.eq_dec t1 t) as [->|Hn1]; destruct (Nat.eq_dec t2 t) as [->|Hn2];
      rewrite ?upd_same, ?(upd_other _ _ _ _ Hn1), ?(upd_other _ _ _ _ Hn2), ?E; try reflexivity; apply H2.
Qed.

Lemma invD_fields s s' :
  pcs s' = pcs s -> vz s' = vz s -> failed s' = failed s -> InvD s -> InvD s'.
Proof. intros E1 E2 E3 [H1 H2 H3]. constructor; rewrite ?E1, ?E2, ?E3; assumption. Qed.

Lemma body_pc_rh pr id c ch todo : rh_of (body_pc pr id c ch todo) = None.
Proof. destruct todo; reflexivity. Qed.

Lemma rh_acq_crit c : rh_of (Crit c) = rh_of (Acq c).
Proof. destruct c; reflexivity. Qed.

(* thread t leaves with no handle; the readers other threads hold stay registered *)
Lemma invD_drop s t z' :
  InvD s -> failed s = None ->
  (forall t' h, t' <> t -> rh_of (pcs s t') = Some h -> has_reader h (readers z') = true /\ h < next_h z') ->
  InvD (set_vz (set_pc s t (Rel Done)) z').
Proof.
  intros [H1 H2 H3] Hf Hv. constructor; cbn; [| |exact H3].
  - intros t' h. destruct (Nat.eq_dec t' t) as [->|Hn]; [rewrite upd_same; discriminate|].
    rewrite upd_other by exact Hn. apply Hv. exact Hn.
  - intros t1 t2 h.
    destruct (Nat.eq_dec t1 t) as [->|Hn1]; [rewrite upd_same; discriminate|].
    destruct (Nat.eq_dec t2 t) as [->|Hn2]; [rewrite upd_same; discriminate|].
    rewrite !upd_other by assumption. apply H2.
Qed.

Theorem stepD s t : InvB s -> InvC s -> InvD s -> enabled s t = true -> InvD (step s t).
Proof.
  intros HB HC H He. pose proof H as [H1 H2 H3]. unfold step. unfold enabled in He.
  destruct (pcs s t) as [c|c|nx|e| |id|id c ch todo|h i c|] eqn:Hpc.
  - apply (invD_fields (set_pc s t (Crit c))); try reflexivity.
    apply invD_move; [exact H|]. rewrite Hpc. apply rh_acq_crit.
  - destruct c as [ev|id c cm|sel|h|p].
    + (* writer(): vz untouched, no handle *)
      cbn [exec_crit].
      destruct ((match wtxn s with None => true | Some _ => false end) && oeqb ev (wevent s)).
      * apply (invD_fields (set_pc s t (Rel SetupId))); try reflexivity.
        apply invD_move; [exact H|rewrite Hpc; reflexivity].
      * apply (invD_fields (set_pc s t (Rel (Wait (nextev s))))); try reflexivity.
        apply invD_move; [exact H|rewrite Hpc; reflexivity].
    + (* end of a write transaction *)
      cbn [exec_crit].
      assert (Hw : wtxn s = Some t) by (apply (b_w2 s HB); rewrite Hpc; reflexivity).
      assert (Hz : exists z' r, (if cm then VersM.step (vz_set_wtxn (vz s) (Some (mkW id c true))) WCommit
                                 else Ok (vz s, RUnit)) = Ok (z', r) /\
                   readers z' = readers (vz s) /\ next_h z' = next_h (vz s)).
      { destruct cm.
        - assert (Eid : id = next_id (versions (vz s))) by (apply (c_id s HC t); rewrite Hpc; reflexivity).
          destruct (vstep_commit (vz s) id c (c_inv s HC) (c_nowtxn s HC) Eid) as [z' [E _]].
          exists z', RUnit. split; [exact E|]. eapply commit_readers. exact E.
        - exists (vz s), RUnit. repeat split; reflexivity. }
      destruct Hz as [z' [r [Ez [Er En]]]]. rewrite Ez, Hw, Nat.eqb_refl.
      match goal with |- InvD (wakeup ?s0) => destruct (wakeup_fields s0) as [_ [W2 [_ [_ [W5 _]]]]];
        apply (invD_fields s0); [exact W2|exact W5|unfold wakeup; destruct (waiters s0); reflexivity|] end.
      apply (invD_fields (set_vz (set_pc s t (Rel Done)) z')); try reflexivity.
      apply invD_drop; [exact H|exact H3|]. intros t' h' _ E. rewrite Er, En. apply (H1 t' h' E).
    + (* reader(): a fresh handle *)
      cbn [exec_crit].
      assert (Ho : sel_op sel = OpenLatest \/ (exists i, sel_op sel = OpenId i) \/ (exists x, sel_op sel = OpenSerial x))
        by (destruct sel; cbn; eauto).
      destruct (VersM.step (vz s) (sel_op sel)) as [[z' r]|e|e] eqn:E.
      * destruct (open_shape _ _ _ _ Ho E) as [i [c [-> [Er En]]]].
        constructor; cbn; [| |exact H3].
        -- intros t' h'. destruct (Nat.eq_dec t' t) as [->|Hn].
           ++ rewrite upd_same. cbn. intros X; inversion X; subst. rewrite Er, En.
              split; [apply has_reader_last|lia].
           ++ rewrite upd_other by exact Hn. intros X. destruct (H1 t' h' X) as [Hr Hh]. rewrite Er, En.
              split; [apply has_reader_snoc; exact Hr|lia].
        -- intros t1 t2 h'.
           destruct (Nat.eq_dec t1 t) as [->|Hn1]; destruct (Nat.eq_dec t2 t) as [->|Hn2];
             rewrite ?upd_same, ?(upd_other _ _ _ _ Hn1), ?(upd_other _ _ _ _ Hn2); cbn; try reflexivity.
           ++ intros X Y. inversion X; subst. destruct (H1 t2 _ Y). lia.
           ++ intros X Y. inversion Y; subst. destruct (H1 t1 _ X). lia.
           ++ apply H2.
      * apply (invD_fields (set_vz (set_pc s t (Rel Done)) (vz s))); try reflexivity.
        apply invD_drop; [exact H|exact H3|]. intros t' h' _ X. apply (H1 t' h' X).
      * exfalso. eapply step_no_internal; [apply (c_inv s HC)|exact E].
    + (* _end_read: the handle is this thread's own and still registered *)
      cbn [exec_crit].
      destruct (H1 t h) as [Hr Hh]; [rewrite Hpc; reflexivity|].
      destruct (close_ok (vz s) h (c_inv s HC) Hr Hh) as [z' [E [Er En]]]. rewrite E.
      apply invD_drop; [exact H|exact H3|]. intros t' h' Hn X.
      assert (h' <> h).
      { intros ->. apply Hn. apply (H2 t' t h); [exact X|rewrite Hpc; reflexivity]. }
      destruct (H1 t' h' X) as [Hr' Hh']. rewrite Er, En. split; [rewrite has_reader_remove by assumption; exact Hr'|exact Hh'].
    + (* set_pruning_policy *)
      cbn [exec_crit].
      destruct (policy_ok (vz s) p (c_inv s HC)) as [z' [E [Er En]]]. rewrite E.
      apply invD_drop; [exact H|exact H3|]. intros t' h' _ X. rewrite Er, En. apply (H1 t' h' X).
  - apply (invD_fields (set_pc s t nx)); try reflexivity.
    apply invD_move; [exact H|rewrite Hpc; reflexivity].
  - apply invD_move; [exact H|rewrite Hpc; reflexivity].
  - apply invD_move; [exact H|rewrite Hpc; reflexivity].
  - apply invD_move; [exact H|rewrite Hpc; apply body_pc_rh].
  - destruct todo as [|e todo]; (apply invD_move; [exact H|rewrite Hpc; apply body_pc_rh]).
  - apply invD_move; [exact H|rewrite Hpc; reflexivity].
  - discriminate.
Qed.
