(* C19 - refinement, tree level: BTree.insert_element / BTree._delete / get / minimum on the store
   simulate the value-level functions. *)
From DV Require Import Base.Prelude Model.BTreeM Model.BTreeStoreM Proofs.BTreeBase Proofs.BTreeWf Proofs.BTreeInsert
  Proofs.BTreeLookup Proofs.BTreeDelete Proofs.BTreeStore Proofs.BTreeRefine Proofs.BTreeRefine2 Proofs.BTreeRefine3.

(* ---------------------------------------------------------------- depth *)

Lemma rep_depth_le s : forall id n fp, rep s id n fp -> (depth n <= length fp)%nat.
Proof.
  apply (rep_mind s (fun id n fp _ => (depth n <= length fp)%nat)
           (fun ids trs fps _ => match trs with [] => True | k :: _ => (depth k <= length (concat fps))%nat end)).
  - intros id n kids fps Hn Hlk Hr IH Hnd. cbn [depth length]. destruct kids; lia.
  - exact Logic.I.
  - intros k ks tr trs fp fps Hr IH Hrs IHs. cbn [concat]. rewrite app_length. lia.
Qed.

Lemma fp_le_store s id n fp : rep s id n fp -> (length fp <= length s)%nat.
Proof.
  intros Hr. pose proof (rep_nodup _ _ _ _ Hr) as Hnd.
  replace (length s) with (length (seq 0 (length s))) by apply seq_length.
  apply NoDup_incl_length; [assumption|]. intros x Hx. apply in_seq. pose proof (rep_valid _ _ _ _ Hr x Hx). lia.
Qed.

Lemma s_depth_sim s : forall fuel id n fp, rep s id n fp -> (depth n <= fuel)%nat -> s_depth fuel s id = depth n.
Proof.
  induction fuel as [|f IH]; intros id n fp Hr Hd.
  { destruct n as [lf es [|k ks]]; cbn in Hd; lia. }
  destruct n as [lf es ks]. apply rep_inv in Hr as (nn & fps & Hn & _ & _ & Hks & _).
  cbn [s_depth depth]. rewrite Hn. destruct ks as [|k ks].
  - apply reps_nil_inv in Hks as (-> & _). reflexivity.
  - apply reps_cons_inv in Hks as (kid & kids & fk & fps' & -> & _ & Hrk & _). f_equal.
    apply (IH kid k fk Hrk). cbn [depth] in Hd. lia.
Qed.

Lemma s_depth_root s id n fp : rep s id n fp -> s_depth (length s) s id = depth n.
Proof.
  intros Hr. apply (s_depth_sim s _ id n fp Hr).
  pose proof (rep_depth_le _ _ _ _ Hr). pose proof (fp_le_store _ _ _ _ Hr). lia.
Qed.

(* ---------------------------------------------------------------- get (read only) *)

Lemma get_sim s k : forall fuel fuel' id n fp r, (fuel <= fuel')%nat -> rep s id n fp -> get fuel n k = Ok r -> s_get fuel' s id k = Ok r.
Proof.
  induction fuel as [|f IH]; intros fuel' id n fp r Hf Hr Hv; [discriminate|].
  destruct fuel' as [|f']; [lia|].
  destruct n as [lf es ks]. cbn [get] in Hv. cbn [s_get].
  pose proof Hr as Hr0. apply rep_inv in Hr as (nn & fps & Hn & Hl & He & Hks & _).
  rewrite (sget_some _ _ _ Hn). cbn [bind]. rewrite He, Hl.
  destruct (search k es) as [(i & eq)| |]; cbn [bind] in Hv |- *; try discriminate.
  destruct eq; [exact Hv|]. destruct lf; [exact Hv|].
  destruct (split_at i ks) as [((ka & ck) & kb)| |] eqn:Esp; cbn [bind] in Hv; try discriminate.
  apply split_at_inv in Esp as (-> & Hi).
  apply reps_mid in Hks as (ia & cid & ib & fa & fc & fb & -> & _ & _ & Hrc & _ & Lia & _).
  rewrite <- Hi, <- Lia. rewrite split_at_app by reflexivity. cbn [bind]. eapply (IH f'); eauto. lia.
Qed.

Section SIM4.
Variable c : nat.
Notation own := (ownc c).

Definition tree_sr (s : store) (sb : sbtree) (b : btree) : Prop :=
  sb_t sb = b_t b /\ sb_size sb = b_size b /\ sb_immut sb = b_immut b /\ sb_inorder sb = b_inorder b /\
  exists fp, rep s (sb_root sb) (b_root b) fp.

Lemma maybe_cow_ok s id tr fp : rep s id tr fp -> exists s' id', s_maybe_cow s id c = Ok (s', id').
Proof.
  intros Hr. destruct tr as [lf es ks]. destruct (rep_root _ _ _ _ _ _ Hr) as (n & Hn & _).
  unfold s_maybe_cow. rewrite (sget_some _ _ _ Hn). cbn [bind]. destruct (s_cr n =? c)%nat; eauto.
  unfold alloc. eauto.
Qed.

(* ---------------------------------------------------------------- BTree.insert_element *)

Lemma insert_element_sim s sb b e io b' o :
  sb_cr sb = c -> tree_sr s sb b ->
  insert_element b e io = Ok (b', o) ->
  exists s' sb', s_insert_element s sb e io = Ok (s', sb', o) /\ tree_sr s' sb' b' /\ sb_cr sb' = c.
Proof.
  intros Hc (Ht & Hsz & Him & Hio & fp & Hr) Hv.
  unfold insert_element in Hv. unfold s_insert_element. rewrite Him, Hc, Ht.
  destruct (b_immut b); [discriminate|].
  destruct (insert_tree (b_t b) io (b_root b) e) as [(root2 & o2)| |] eqn:Eit; cbn [bind] in Hv; try discriminate.
  inversion Hv; subst b' o. clear Hv.
  destruct (maybe_cow_ok _ _ _ _ Hr) as (s1 & root1 & Ecow). rewrite Ecow. cbn [bind].
  destruct (cow_sim c _ _ _ _ _ _ Hr Ecow) as (fp1 & Hr1 & Ho1 & _ & _).
  unfold insert_tree, grow_root in Eit.
  destruct (b_root b) as [lf es ks] eqn:Eroot.
  destruct (rep_root _ _ _ _ _ _ Hr1) as (r1 & Hn1 & Hl1 & He1).
  rewrite (sget_some _ _ _ Hn1). cbn [bind]. rewrite He1.
  rewrite is_maximal_eq in Eit. cbn [n_elts] in Eit.
  destruct (is_maximal_l (b_t b) (length es)) as [mx| |] eqn:Emx; cbn [bind] in Eit |- *; try discriminate.
  assert (Hgrow : forall s2 root2' rootv fp2,
            rep s2 root2' rootv fp2 -> own s2 root2' ->
            ins (b_t b) (depth rootv) io rootv e = Ok (root2, o2) ->
            exists s3, s_ins (b_t b) (s_depth (length s2) s2 root2') io s2 root2' e = Ok (s3, o2) /\
                       exists fp3, rep s3 root2' root2 fp3).
  { intros s2 root2' rootv fp2 Hr2 Ho2 Hi. rewrite (s_depth_root _ _ _ _ Hr2).
    destruct (ins_sim c (b_t b) io e (depth rootv) s2 root2' rootv fp2 root2 o2 Hr2 Ho2 Hi) as (s3 & fp3 & Hs3 & Hr3 & _).
    exists s3. split; [assumption|eauto]. }
  destruct mx.
  - (* the root is full: a new root adopts the two halves *)
    destruct (split_node (b_t b) (Node lf es ks)) as [((l & m) & r)| |] eqn:Esp; cbn [bind] in Eit; try discriminate.
    destruct (adopt (b_t b) (Node false [] []) l m r 0) as [rootv| |] eqn:Ead; cbn [bind] in Eit; try discriminate.
    unfold alloc. set (nr := length s1). set (s1' := s1 ++ [mkS c false [] []]).
    assert (Hfa : fr s1 s1' []) by apply alloc_fr.
    assert (Hr1' : rep s1' root1 (Node lf es ks) fp1) by (eapply rep_fr; [exact Hr1|exact Hfa|]; intros x _ []).
    assert (Ho1' : own s1' root1) by (eapply ownc_fr; eauto).
    destruct (split_sim c _ _ _ _ _ _ _ _ Hr1' Ho1' Esp) as (s2 & fl & frr & Hs2 & Hrl & Hrr & Hnd & Hin & Hfr2 & Hol & Hor & Hlen2).
    rewrite Hs2. cbn [bind].
    assert (Hlen1 : length s1' = S nr) by (unfold s1'; rewrite app_length; cbn; lia).
    assert (Hroot1 : (root1 < nr)%nat) by (apply (rep_valid _ _ _ _ Hr1); eapply rep_root_in; eauto).
    assert (Hnr : nth_error s2 nr = Some (mkS c false [] [])).
    { destruct Hfr2 as (_ & F & _). rewrite F; [apply nth_alloc|lia|]. intros [Hx|[]]. lia. }
    unfold adopt in Ead. rewrite is_maximal_eq in Ead. cbn [n_elts length] in Ead.
    unfold s_adopt. rewrite (sget_some _ _ _ Hnr). cbn [bind s_elts length s_leaf s_kids s_cr].
    destruct (is_maximal_l (b_t b) 0) as [mx0| |]; cbn [bind] in Ead |- *; try discriminate.
    destruct mx0; try discriminate. cbn [search bs bind] in Ead |- *.
    destruct (search (fst m) []) as [(i0 & eq0)| |] eqn:Es0; cbn [bind] in Ead |- *; try discriminate.
    destruct eq0; try discriminate. inversion Ead; subst rootv. clear Ead.
    set (newroot := mkS c false (insert_at i0 m []) [root1; length s1']).
    assert (Hfr3 : fr s2 (sset s2 nr newroot) [nr]) by (eapply sset_fr; [exact Hnr|reflexivity]).
    assert (Hnin : forall x, In x (fl ++ frr) -> x <> nr).
    { intros x Hx. destruct (Hin x Hx) as [Hf|Hq]; [|lia]. pose proof (rep_valid _ _ _ _ Hr1 x Hf). unfold nr. lia. }
    assert (Hnr3 : nth_error (sset s2 nr newroot) nr = Some newroot).
    { apply nth_sset_eq. apply nth_error_Some. congruence. }
    assert (Hr3 : rep (sset s2 nr newroot) nr (Node false (insert_at i0 m []) [l; r]) (nr :: concat [fl; frr])).
    { apply (rep_build _ nr newroot false _ [l; r] [fl; frr] Hnr3 eq_refl eq_refl); [discriminate| |].
      - cbn [newroot s_kids]. constructor; [|constructor; [|constructor]].
        + eapply rep_fr; [exact Hrl|exact Hfr3|]. intros x Hx [<-|[]]. apply (Hnin nr); [apply in_app_iff; now left|reflexivity].
        + eapply rep_fr; [exact Hrr|exact Hfr3|]. intros x Hx [<-|[]]. apply (Hnin nr); [apply in_app_iff; now right|reflexivity].
      - cbn [concat]. rewrite app_nil_r. constructor; [|assumption]. intros Hx. now apply (Hnin nr Hx). }
    assert (Ho3 : own (sset s2 nr newroot) nr) by (exists newroot; auto).
    destruct (Hgrow _ _ _ _ Hr3 Ho3 Eit) as (s3 & Hs3 & fp3 & Hrep3).
    cbn [bind]. rewrite Hs3. cbn [bind].
    eexists _, _. split; [reflexivity|]. split; [|reflexivity].
    unfold tree_sr. cbn [sb_t sb_size sb_immut sb_inorder sb_root b_t b_size b_immut b_inorder b_root].
    rewrite Hsz, Hio. repeat split; eauto.
  - inversion Eit as [Eit']. clear Eit. cbn [bind] in Eit'.
    destruct (Hgrow _ _ _ _ Hr1 Ho1 Eit') as (s3 & Hs3 & fp3 & Hrep3). cbn [bind]. rewrite Hs3. cbn [bind].
    eexists _, _. split; [reflexivity|]. split; [|reflexivity].
    unfold tree_sr. cbn [sb_t sb_size sb_immut sb_inorder sb_root b_t b_size b_immut b_inorder b_root].
    rewrite Hsz, Hio. repeat split; eauto.
Qed.

(* ---------------------------------------------------------------- BTree._delete *)

Lemma delete_sim s sb b key exact b' o :
  sb_cr sb = c -> tree_sr s sb b -> wf (b_t b) (b_root b) ->
  delete_btree b key exact = Ok (b', o) ->
  exists s' sb', s_delete s sb key exact = Ok (s', sb', o) /\ tree_sr s' sb' b' /\ sb_cr sb' = c.
Proof.
  intros Hc (Ht & Hsz & Him & Hio & fp & Hr) (Ht3 & (h & Hwr) & Hs) Hv.
  unfold delete_btree in Hv. unfold s_delete. rewrite Him, Hc, Ht.
  destruct (b_immut b); [discriminate|].
  destruct (delete_tree (b_t b) (b_root b) key exact) as [(rootv2 & o2)| |] eqn:Edt; cbn [bind] in Hv; try discriminate.
  inversion Hv; subst b' o. clear Hv.
  destruct (maybe_cow_ok _ _ _ _ Hr) as (s1 & root1 & Ecow). rewrite Ecow. cbn [bind].
  destruct (cow_sim c _ _ _ _ _ _ Hr Ecow) as (fp1 & Hr1 & Ho1 & _ & _).
  unfold delete_tree in Edt.
  destruct (del (b_t b) (depth (b_root b)) true (b_root b) key exact) as [(rootv1 & o1)| |] eqn:Ed; cbn [bind] in Edt; try discriminate.
  rewrite (s_depth_root _ _ _ _ Hr1).
  unfold wfr in Hwr.
  destruct (del_sim c (b_t b) Ht3 (depth (b_root b)) h ltac:(rewrite (wfn_depth _ _ _ _ Hwr); lia) true (b_root b) key exact
              s1 root1 fp1 rootv1 o1 Hwr ltac:(discriminate) Hs Hr1 Ho1 Ed) as (s2 & fp2 & Hs2 & Hr2 & _ & _ & Ho2).
  rewrite Hs2. cbn [bind].
  destruct rootv1 as [lf es ks]. apply rep_inv in Hr2 as Hi. destruct Hi as (r2 & fps & Hn2 & Hl2 & He2 & Hks2 & -> & Hnd2 & Hlk2).
  rewrite (sget_some _ _ _ Hn2). cbn [bind]. rewrite He2, Hl2.
  assert (Hfin : forall root2 fpx, rep s2 root2 rootv2 fpx ->
            tree_sr s2 (mkSB (b_t b) root2 c (match o1 with DDel _ => sb_size sb - 1 | _ => sb_size sb end) false (sb_inorder sb))
                       (mkB (b_t b) rootv2 (match o1 with DDel _ => b_size b - 1 | _ => b_size b end) false (b_inorder b))).
  { intros root2 fpx Hx. unfold tree_sr. cbn [sb_t sb_size sb_immut sb_inorder sb_root b_t b_size b_immut b_inorder b_root].
    rewrite Hsz, Hio. repeat split; eauto. }
  cbn [collapse_root] in Edt.
  destruct es as [|e0 es].
  - destruct lf.
    + cbn [bind] in Edt |- *. inversion Edt; subst rootv2 o2.
      eexists _, _. split; [reflexivity|]. split; [eapply Hfin; eauto|reflexivity].
    + destruct ks as [|k [|k2 ks]]; cbn [bind] in Edt; try discriminate. inversion Edt; subst rootv2 o2.
      apply reps_cons_inv in Hks2 as (kid & kids & fk & fps' & Ek & -> & Hrk & Hrest).
      apply reps_nil_inv in Hrest as (-> & ->). rewrite Ek. cbn [bind].
      eexists _, _. split; [reflexivity|]. split; [eapply Hfin; eauto|reflexivity].
  - cbn [bind] in Edt |- *. inversion Edt; subst rootv2 o2.
    eexists _, _. split; [reflexivity|]. split; [eapply Hfin; eauto|reflexivity].
Qed.

End SIM4.
