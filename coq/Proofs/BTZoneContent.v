(* C20: the derived state is a function of the content - two histories (e.g. two load orders)
   that end with the same names and rdatasets end with the same flags and the same index. *)
From DV Require Import Base.Prelude Model.NameM Model.BTZoneM
     Proofs.BTZoneOrder Proofs.BTZoneList Proofs.BTZoneSpec Proofs.BTZoneInv Proofs.BTZoneMain.
Open Scope Z_scope.

(* same names (up to case) carrying the same rdataset lists, position by position *)
Definition same_content (l1 l2 : nodes_t) : Prop :=
  Forall2 (fun e1 e2 => K (fst e1) = K (fst e2) /\ nrds (snd e1) = nrds (snd e2)) l1 l2.

Lemma same_content_in : forall l1 l2, same_content l1 l2 ->
    forall k1 nd1, In (k1, nd1) l1 -> exists k2 nd2, In (k2, nd2) l2 /\ K k1 = K k2 /\ nrds nd1 = nrds nd2.
Proof.
  induction 1 as [|[a x] [b y] l1 l2 [E1 E2] H IH]; intros k1 nd1 Hin; [destruct Hin|].
  destruct Hin as [Hin|Hin].
  - inversion Hin; subst. exists b, y. cbn in *. split; auto.
  - destruct (IH _ _ Hin) as (k2 & nd2 & H2 & H3). exists k2, nd2. split; [right|]; tauto.
Qed.

Lemma same_content_sym : forall l1 l2, same_content l1 l2 -> same_content l2 l1.
Proof. induction 1 as [|? ? ? ? [E1 E2]]; constructor; auto. Qed.

Lemma same_content_owner : forall c l1 l2, same_content l1 l2 -> forall k, owner c l1 k -> owner c l2 k.
Proof.
  intros c l1 l2 H k (m & nd & Hin & Hns & E).
  destruct (same_content_in _ _ H _ _ Hin) as (m2 & nd2 & Hin2 & Ek & Er).
  exists m2, nd2. repeat split; auto; [|congruence].
  unfold ns_owner, has_ns in *. cbn [fst snd] in *. rewrite <- Er, <- (is_apex_ext c m m2); auto.
Qed.

Theorem derived_state_function_of_content_main : forall c h1 h2,
    history_ok c h1 -> history_ok c h2 ->
    same_content (z_nodes (exec c h1)) (z_nodes (exec c h2)) ->
    Forall2 (fun e1 e2 => nflags (snd e1) = nflags (snd e2)) (z_nodes (exec c h1)) (z_nodes (exec c h2)) /\
    map K (map fst (z_delegs (exec c h1))) = map K (map fst (z_delegs (exec c h2))).
Proof.
  intros c h1 h2 H1 H2 Hs.
  destruct (incremental_eq_spec_main c h1 H1) as [F1 D1].
  destruct (incremental_eq_spec_main c h2 H2) as [F2 D2]. cbn zeta in *.
  set (l1 := z_nodes (exec c h1)) in *. set (l2 := z_nodes (exec c h2)) in *.
  assert (Hown : forall k, owner c l1 k <-> owner c l2 k).
  { intros k. split; apply same_content_owner; auto. apply same_content_sym; auto. }
  assert (Hocc : forall n, occluded c l1 n = occluded c l2 n) by (intros; apply occluded_owner_ext; auto).
  split.
  - assert (G : forall a b, same_content a b -> (forall e, In e a -> In e l1) -> (forall e, In e b -> In e l2) ->
                Forall2 (fun e1 e2 => nflags (snd e1) = nflags (snd e2)) a b).
    { induction 1 as [|[k1 n1] [k2 n2] a b [E1 E2] H IH]; intros Ha Hb; constructor.
      - cbn [fst snd] in *. rewrite (F1 k1 n1) by (apply Ha; left; auto). rewrite (F2 k2 n2) by (apply Hb; left; auto).
        rewrite !flags_of_eq. rewrite (is_apex_ext c k1 k2), (occluded_ext c l1 k1 k2), Hocc by auto.
        unfold has_ns. rewrite E2. reflexivity.
      - apply IH; intros; [apply Ha|apply Hb]; right; auto. }
    apply G; auto.
  - rewrite D1, D2. apply ksorted_unique.
    + apply delegations_of_sorted. apply (inv_sn c _ (exec_inv c h1 H1)).
    + apply delegations_of_sorted. apply (inv_sn c _ (exec_inv c h2 H2)).
    + intros k. rewrite !delegations_of_in. unfold occk. split; intros [A B]; split; try (apply Hown; auto);
        intros (o & Ho & Hsb); apply B; exists o; split; auto; apply Hown; auto.
Qed.
