(* C13 - a secondary refreshing a zone of any content (singleton types, CNAME-kind RRsets, names changing
   between a CNAME and other data): the refresh theorems for general versions. *)
From DV Require Import Base.Prelude Model.XfrM Proofs.XfrSets Proofs.XfrSpec Proofs.XfrZone Proofs.XfrDiff
  Proofs.XfrSafety Proofs.XfrBasic Proofs.XfrRun Proofs.XfrIxfr Proofs.XfrAxfr Proofs.XfrPerm Proofs.XfrOrder
  Proofs.XfrRefresh Proofs.XfrGeneral Proofs.XfrGeneralAxfr Proofs.XfrGeneralOrder.
From Coq Require Import Sorting.Permutation.

Theorem refresh_converges_general : forall v0 chain z table recs ws,
  chain_ok_g v0 chain -> zeq z (zone_of v0) ->
  find_row table (Some (v_serial v0)) = Some ws ->
  ixfr_response_p v0 chain recs -> chunking tIXFR recs ws ->
  exists z', refresh1 z table = Ok (tIXFR, Some (v_serial v0), Some (v_serial v0), 0, z')
             /\ zeq z' (zone_of (last chain v0))
             /\ zone_serial z' = Some (v_serial (last chain v0)).
Proof.
  intros v0 chain z table recs ws Hok Hz Hrow Hresp Hch.
  destruct (ixfr_converges_general_any_order v0 chain z recs ws Hok Hz Hresp Hch) as [z' [n [Hrun Hz']]].
  exists z'. split; [|split; [exact Hz'|apply zone_serial_zeq, Hz']].
  unfold refresh1, make_query. rewrite (zone_serial_zeq z v0 Hz). cbn [Z.eqb bind extract_serial tIXFR tAXFR Pos.eqb negb].
  unfold pick. rewrite Hrow, Hrun. reflexivity.
Qed.

Theorem refresh_full_general : forall v z table B ws,
  version_wf_g v -> zone_serial z = None ->
  find_row table None = Some ws ->
  Permutation B (body (v_rest v)) -> chunking tAXFR (soa_rr v :: B ++ [soa_rr v]) ws ->
  exists z', refresh1 z table = Ok (tAXFR, None, None, 0, z')
             /\ zeq z' (zone_of v) /\ zone_serial z' = Some (v_serial v).
Proof.
  intros v z table B ws Hv Hs Hrow PB Hch.
  destruct (axfr_converges_general_any_order v z None B ws Hv PB Hch) as [z' [n [Hrun Hz']]].
  exists z'. split; [|split; [exact Hz'|apply zone_serial_zeq, Hz']].
  unfold refresh1, make_query. rewrite Hs. cbn [Z.eqb bind extract_serial tIXFR tAXFR Pos.eqb negb].
  unfold pick. rewrite Hrow, Hrun. reflexivity.
Qed.

Theorem refresh_axfr_style_general : forall v z zs table ws,
  version_wf_g v -> v_rest v <> [] -> zone_serial z = Some zs ->
  v_serial v <> zs -> serial_lt (v_serial v) zs = false ->
  find_row table (Some zs) = None -> find_row table None = Some ws ->
  chunking tIXFR (axfr_stream v) ws ->
  exists z', refresh1 z table = Ok (tIXFR, Some zs, Some zs, 0, z')
             /\ zeq z' (zone_of v) /\ zone_serial z' = Some (v_serial v).
Proof.
  intros v z zs table ws Hv Hne Hs Hser Hlt Hrow Hrow0 Hch.
  destruct (axfr_style_ixfr_converges_general v z zs ws Hv Hne Hser Hlt Hch) as [z' [n [Hrun Hz']]].
  exists z'. split; [|split; [exact Hz'|apply zone_serial_zeq, Hz']].
  unfold refresh1, make_query. rewrite Hs. cbn [Z.eqb bind extract_serial tIXFR tAXFR Pos.eqb negb].
  unfold pick. rewrite Hrow, Hrow0, Hrun. reflexivity.
Qed.

(* a whole sequence of incremental refreshes *)
Inductive refresh_plan_g : version -> list (list (option Z * list wmsg)) -> version -> Prop :=
| rpg_nil : forall v, refresh_plan_g v [] v
| rpg_cons : forall v chain table recs ws rest vfin,
    chain_ok_g v chain ->
    find_row table (Some (v_serial v)) = Some ws ->
    ixfr_response_p v chain recs -> chunking tIXFR recs ws ->
    refresh_plan_g (last chain v) rest vfin ->
    refresh_plan_g v (table :: rest) vfin.

Theorem refreshes_converge_general : forall v tables vfin, refresh_plan_g v tables vfin ->
  forall z, zeq z (zone_of v) ->
  length (refreshes z tables) = length tables
  /\ Forall refresh_ok (refreshes z tables)
  /\ zeq (final_zone z (refreshes z tables)) (zone_of vfin).
Proof.
  intros v tables vfin P. induction P as [v|v chain table recs ws rest vfin Hok Hrow Hresp Hch P IH]; intros z Hz.
  - cbn. split; [reflexivity|]. split; [constructor|exact Hz].
  - destruct (refresh_converges_general v chain z table recs ws Hok Hz Hrow Hresp Hch) as [z' [Hr [Hz' _]]].
    cbn [refreshes]. rewrite Hr.
    destruct (IH z' Hz') as (Hlen & Hall & Hfin).
    split; [cbn [length]; rewrite Hlen; reflexivity|].
    split; [constructor; [exists (v_serial v), z'; reflexivity|exact Hall]|].
    unfold final_zone in *. destruct (refreshes z' rest) as [|r rs] eqn:E.
    + cbn. cbn in Hfin. exact Hfin.
    + change (last (Ok (tIXFR, Some (v_serial v), Some (v_serial v), 0, z') :: r :: rs) (Ok (0, None, None, 0, z)))
        with (last (r :: rs) (Ok (0, None, None, 0, z))).
      rewrite (last_default (r :: rs) _ (Ok (0, None, None, 0, z'))) by discriminate.
      assert (Hin : In (last (r :: rs) (Ok (0, None, None, 0, z'))) (r :: rs)) by (apply last_in; discriminate).
      rewrite Forall_forall in Hall. destruct (Hall _ Hin) as [s0 [zl El]].
      rewrite El in *. exact Hfin.
Qed.

(* dns.query.inbound_xfr with udp_mode TRY_FIRST, versions of any content *)
Theorem try_first_falls_back_general : forall v0 chain z tbu tbt wu recs ws,
  chain_ok_g v0 chain -> zeq z (zone_of v0) ->
  find_row tbu (Some (v_serial v0)) = Some [wu] ->
  header_ok tIXFR wu -> w_records wu = [soa_rr (last chain v0)] ->
  find_row tbt (Some (v_serial v0)) = Some ws ->
  ixfr_response_p v0 chain recs -> chunking tIXFR recs ws ->
  (exists z', xfr_top z 1 tbu tbt = Ok (0, z') /\ zeq z' (zone_of (last chain v0)))
  /\ xfr_top z 2 tbu tbt = Ok (eUseTCP, z).
Proof.
  intros v0 chain z tbu tbt wu recs ws Hok Hz Hu Hwu Hru Ht Hresp Hch.
  pose proof Hok as (_ & _ & _ & Hser & Hlt).
  assert (UDP : inbound_xfr z tIXFR (Some (v_serial v0)) true [wu] = (Error eUseTCP z, 0%nat)).
  { apply (use_tcp_signalled z (v_serial v0) wu [] (soa_rr (last chain v0)) Hwu Hru); [split; reflexivity| |].
    - change (r_data (soa_rr (last chain v0)) mod two32) with (v_serial (last chain v0)).
      intros E. apply (Hser v0 (or_introl eq_refl)). symmetry. exact E.
    - exact Hlt. }
  destruct (ixfr_converges_general_any_order v0 chain z recs ws Hok Hz Hresp Hch) as [z' [n [Hrun Hz']]].
  split.
  - exists z'. split; [|exact Hz'].
    unfold xfr_top, make_query. rewrite (zone_serial_zeq z v0 Hz). cbn [Z.eqb bind tIXFR Pos.eqb negb andb].
    unfold xfr_core. cbn [Z.eqb tIXFR Pos.eqb negb andb].
    change (xfr_run false) with inbound_xfr.
    unfold pick. rewrite Hu, UDP. cbn [Z.eqb eUseTCP Pos.eqb]. rewrite Ht, Hrun. reflexivity.
  - unfold xfr_top, make_query. rewrite (zone_serial_zeq z v0 Hz). cbn [Z.eqb bind tIXFR Pos.eqb negb andb].
    unfold xfr_core. cbn [Z.eqb tIXFR Pos.eqb negb andb].
    change (xfr_run false) with inbound_xfr.
    unfold pick. rewrite Hu, UDP. reflexivity.
Qed.
