(* C04 for the irregular record types that C02 models by hand (Model/SchemaHand.v: HIP, IPSECKEY,
   AMTRELAY, APL, SVCB/HTTPS, LOC, OPT with every EDNS option class): dns.rdata.from_wire on
   arbitrary octets returns a record that consumed exactly rdlen, or a FormError-family error;
   the `while parser.remaining() > 0` loops terminate within the model's fuel. *)
From DV Require Import Base.Prelude Model.NameM Model.SchemaM Model.SchemaHand Model.UntrustedM
                       Proofs.NameValid Proofs.SchemaCodec Proofs.SchemaTotal.
From DV Require Proofs.ParserSafe Proofs.UntrustedSchema.
Open Scope Z_scope.

Definition Good {A} (r : res A) : Prop :=
  match r with Ok _ => True | Lib e => is_form e = true | Internal _ => False end.

Lemma good_ok {A} (a : A) : Good (Ok a). Proof. exact Logic.I. Qed.
Lemma good_form {A} : Good (@Lib A eFormError). Proof. reflexivity. Qed.
Lemma good_bind {A B} (r : res A) (k : A -> res B) :
  Good r -> (forall a, r = Ok a -> Good (k a)) -> Good (bind r k).
Proof. destruct r as [a|e|e]; cbn [bind]; auto. Qed.

Lemma good_of {A} (r : res A) : UntrustedSchema.FormOnly r -> (forall x, r <> Internal x) -> Good r.
Proof.
  intros F N. destruct r as [a|e|x]; cbn; auto. exfalso. eapply N; reflexivity.
Qed.

Section Hand.
  Variable w : list Z.
  Hypothesis Hw : ParserSafe.bytes_ok w.

  Lemma good_get_bytes e c n : Good (SchemaM.get_bytes w e c n).
  Proof. apply good_of; [apply UntrustedSchema.fo_get_bytes|apply get_bytes_lib]. Qed.

  Lemma good_get_u e c n : Good (get_u w e c n).
  Proof. unfold get_u. apply good_bind; [apply good_get_bytes|intros; exact Logic.I]. Qed.

  Lemma get_u_cur e c n v c' : get_u w e c n = Ok (v, c') -> c' = (c + n)%nat.
  Proof.
    unfold get_u. intros H. inv_bind H. inversion H; subst. destruct x as [l c1]. cbn.
    eapply get_bytes_cur; eauto.
  Qed.

  Lemma good_get_name o rel e c : Good (SchemaM.get_name w o rel e c).
  Proof. apply good_of; [apply UntrustedSchema.fo_get_name; exact Hw|apply get_name_lib]. Qed.

  Lemma good_dec_rows_names o fuel e c : (e - c < fuel)%nat -> Good (dec_rows w o fuel [FName true] e c).
  Proof.
    intros Hf. apply good_of; [apply UntrustedSchema.fo_dec_rows; exact Hw|].
    intros x. apply dec_rows_lib; [discriminate|reflexivity|exact Hf].
  Qed.

  (* ---------- HIP ---------- *)
  Lemma good_hip o e c : Good (hip_dec w o e c).
  Proof.
    unfold hip_dec.
    apply good_bind; [apply good_get_u|]; intros lh _.
    apply good_bind; [apply good_get_u|]; intros alg _.
    apply good_bind; [apply good_get_u|]; intros lk _.
    apply good_bind; [apply good_get_bytes|]; intros hit _.
    apply good_bind; [apply good_get_bytes|]; intros key _.
    apply good_bind; [apply good_dec_rows_names; lia|]; intros; exact Logic.I.
  Qed.

  (* ---------- Gateway / IPSECKEY / AMTRELAY ---------- *)
  Lemma good_gw o gt e c : Good (gw_dec w o gt e c).
  Proof.
    unfold gw_dec.
    destruct (gt =? 0); [exact Logic.I|].
    destruct (gt =? 1); [apply good_bind; [apply good_get_bytes|intros; exact Logic.I]|].
    destruct (gt =? 2); [apply good_bind; [apply good_get_bytes|intros; exact Logic.I]|].
    destruct (gt =? 3); [apply good_bind; [apply good_get_name|intros; exact Logic.I]|reflexivity].
  Qed.

  Lemma good_ipseckey o e c : Good (ipseckey_dec w o e c).
  Proof.
    unfold ipseckey_dec.
    apply good_bind; [apply good_get_u|]; intros prec _.
    apply good_bind; [apply good_get_u|]; intros gt _.
    apply good_bind; [apply good_get_u|]; intros alg _.
    apply good_bind; [apply good_gw|]; intros gw _.
    apply good_bind; [apply good_get_bytes|]; intros; exact Logic.I.
  Qed.

  Lemma good_amtrelay o e c : Good (amtrelay_dec w o e c).
  Proof.
    unfold amtrelay_dec.
    apply good_bind; [apply good_get_u|]; intros prec _.
    apply good_bind; [apply good_get_u|]; intros rt _. cbv zeta.
    apply good_bind; [apply good_gw|]; intros; exact Logic.I.
  Qed.

  (* ---------- APL ---------- *)
  Lemma good_apl_item e c : Good (apl_item_dec w e c).
  Proof.
    unfold apl_item_dec.
    apply good_bind; [apply good_get_u|]; intros fam _.
    apply good_bind; [apply good_get_u|]; intros pre _.
    apply good_bind; [apply good_get_u|]; intros afd _. cbv zeta.
    apply good_bind; [apply good_get_bytes|]; intros; exact Logic.I.
  Qed.

  Lemma apl_item_progress e c v c' : apl_item_dec w e c = Ok (v, c') -> (c + 4 <= c')%nat.
  Proof.
    unfold apl_item_dec. intros H.
    inv_bind H. inv_bind H. inv_bind H. cbv zeta in H. inv_bind H. inversion H; subst.
    destruct x as [v1 c1], x0 as [v2 c2], x1 as [v3 c3], x2 as [b c4]. cbn [fst snd] in *.
    apply get_u_cur in E. apply get_u_cur in E0. apply get_u_cur in E1. apply get_bytes_cur in E2. lia.
  Qed.

  Lemma good_apl_items : forall fuel e c, (e - c < fuel)%nat -> Good (apl_items_dec fuel w e c).
  Proof.
    induction fuel as [|f IH]; intros e c Hf; cbn [apl_items_dec].
    - destruct (Nat.leb_spec e c); [exact Logic.I|lia].
    - destruct (Nat.leb_spec e c); [exact Logic.I|].
      apply good_bind; [apply good_apl_item|]. intros [v c1] E.
      destruct (negb (apl_item_valid (fst (v, c1)))); [reflexivity|].
      apply apl_item_progress in E.
      apply good_bind; [apply IH; cbn; lia|intros; exact Logic.I].
  Qed.

  Lemma good_apl o e c : Good (apl_dec w o e c).
  Proof. unfold apl_dec. apply good_bind; [apply good_apl_items; lia|intros; exact Logic.I]. Qed.

  (* ---------- SVCB / HTTPS ---------- *)
  Lemma good_svcb_params : forall fuel e c prior, (e - c < fuel)%nat -> Good (svcb_params_dec fuel w e c prior).
  Proof.
    induction fuel as [|f IH]; intros e c prior Hf; cbn [svcb_params_dec].
    - destruct (Nat.leb_spec e c); [exact Logic.I|lia].
    - destruct (Nat.leb_spec e c); [exact Logic.I|].
      apply good_bind; [apply good_get_u|]. intros [k c1] E1. cbn [fst snd].
      destruct (k <? prior); [reflexivity|].
      apply good_bind; [apply good_get_u|]. intros [vl c2] E2. cbn [fst snd].
      apply good_bind; [apply good_get_bytes|]. intros [raw c3] E3. cbn [fst snd].
      destruct (negb (svcb_param_ok k raw)); [reflexivity|].
      apply get_u_cur in E1. apply get_u_cur in E2. apply get_bytes_cur in E3.
      apply good_bind; [apply IH; lia|intros; exact Logic.I].
  Qed.

  Lemma good_svcb o e c : Good (svcb_dec w o e c).
  Proof.
    unfold svcb_dec.
    apply good_bind; [apply good_get_u|]; intros prio _.
    apply good_bind; [apply good_get_name|]; intros tgt _.
    match goal with |- Good (if ?b then _ else _) => destruct b; [reflexivity|] end.
    apply good_bind; [apply good_svcb_params; lia|intros; exact Logic.I].
  Qed.

  (* ---------- LOC ---------- *)
  Lemma good_loc_size b : Good (loc_decode_size b).
  Proof. unfold loc_decode_size. cbv zeta. destruct (_ >? 9); [reflexivity|]. destruct (_ >? 9); [reflexivity|exact Logic.I]. Qed.

  Lemma good_loc o e c : Good (loc_dec w o e c).
  Proof.
    unfold loc_dec.
    do 7 (apply good_bind; [apply good_get_u|]; intros ? _).
    repeat match goal with |- Good (if ?b then _ else _) => destruct b; [reflexivity|] end.
    do 3 (apply good_bind; [apply good_loc_size|]; intros ? _). exact Logic.I.
  Qed.

  (* ---------- OPT ---------- *)
  Lemma good_opt_items : forall fuel e c, (e - c < fuel)%nat -> Good (opt_items_dec fuel w e c).
  Proof.
    induction fuel as [|f IH]; intros e c Hf; cbn [opt_items_dec].
    - destruct (Nat.leb_spec e c); [exact Logic.I|lia].
    - destruct (Nat.leb_spec e c); [exact Logic.I|].
      apply good_bind; [apply good_get_u|]. intros [ot c1] E1. cbn [fst snd].
      apply good_bind; [apply good_get_u|]. intros [ol c2] E2. cbn [fst snd].
      destruct (Nat.ltb_spec (e - c2) (Z.to_nat ol)); [reflexivity|]. cbv zeta.
      apply get_u_cur in E1. apply get_u_cur in E2.
      apply good_bind.
      + destruct (ot =? 18).
        * pose proof (good_get_name None false (c2 + Z.to_nat ol)%nat c2) as G.
          destruct (SchemaM.get_name w None false (c2 + Z.to_nat ol) c2) as [[n c3]|x|x]; cbn in G |- *; auto.
          destruct (Nat.eqb c3 (c2 + Z.to_nat ol)); [exact Logic.I|reflexivity].
        * apply good_bind; [apply good_get_bytes|]. intros d _.
          destruct (opt_norm ot (fst d)); [exact Logic.I|reflexivity].
      + intros payload _. apply good_bind; [apply IH; lia|intros; exact Logic.I].
  Qed.

  Lemma good_opt o e c : Good (opt_dec w o e c).
  Proof. unfold opt_dec. apply good_bind; [apply good_opt_items; lia|intros; exact Logic.I]. Qed.

  Lemma good_hand_dec h o e c : Good (hand_dec h w o e c).
  Proof.
    destruct h; cbn [hand_dec];
      [apply good_hip|apply good_ipseckey|apply good_amtrelay|apply good_apl|apply good_svcb|apply good_loc|apply good_opt].
  Qed.
End Hand.

(* dns.rdata.from_wire for HIP, IPSECKEY, AMTRELAY, APL, SVCB, HTTPS, LOC, OPT on arbitrary octets *)
Theorem hand_from_wire_family h o wire cur rdlen :
  ParserSafe.bytes_ok wire ->
  match hand_decode_rdata h o wire cur rdlen with
  | Ok vs => hand_valid h vs = true /\ (cur + rdlen <= length wire)%nat
  | Lib e => is_form e = true
  | Internal _ => False
  end.
Proof.
  intros Hw. unfold hand_decode_rdata.
  destruct (Nat.ltb_spec (length wire) cur); [reflexivity|].
  destruct (Nat.ltb_spec (length wire - cur) rdlen); [reflexivity|]. cbv zeta.
  pose proof (good_hand_dec wire Hw h o (cur + rdlen)%nat cur) as G.
  destruct (hand_dec h wire o (cur + rdlen) cur) as [[vs c]|e|e]; cbn [bind fst snd]; cbn in G; auto.
  destruct (hand_valid h vs) eqn:V; cbn [negb]; [|reflexivity].
  destruct (Nat.eqb c (cur + rdlen)); [split; [exact V|lia]|reflexivity].
Qed.

(* "every value returned can be rendered to wire again": the accepted record's own to_wire exists
   (C02's per-type fixed-point theorems) *)
From DV Require Proofs.SchemaHandThm Proofs.SchemaOptFix Proofs.SchemaAplFix Proofs.SchemaLocFix Proofs.SchemaSvcbFix.

Lemma bytes_ok_all_bytes l : ParserSafe.bytes_ok l -> all_bytes l = true.
Proof.
  intros H. unfold all_bytes. apply forallb_forall. intros x Hx.
  eapply Forall_forall in H; eauto. unfold is_byte. cbn beta in H. apply andb_true_iff. split; lia.
Qed.

Theorem hand_from_wire_renders h wire cur rdlen vs :
  ParserSafe.bytes_ok wire ->
  hand_decode_rdata h None wire cur rdlen = Ok vs ->
  exists w', hand_encode_rdata h None vs = Ok w'.
Proof.
  intros Hw H. pose proof (bytes_ok_all_bytes wire Hw) as Hb.
  destruct h.
  - destruct (SchemaHandThm.hip_fixed_point_thm wire cur rdlen vs Hb H) as (w' & E & _). eauto.
  - destruct (SchemaHandThm.ipseckey_fixed_point_thm wire cur rdlen vs H) as (w' & E & _). eauto.
  - destruct (SchemaHandThm.amtrelay_fixed_point_thm wire cur rdlen vs H) as (w' & E & _). eauto.
  - pose proof (hand_from_wire_family HApl None wire cur rdlen Hw) as F. rewrite H in F.
    destruct F as [V _]. cbn [hand_valid] in V.
    destruct vs as [|[s|items] [|? ?]]; try discriminate.
    destruct (SchemaAplFix.apl_fixed_point_thm items V) as (w' & E & _). eauto.
  - destruct (SchemaSvcbFix.svcb_fixed_point_thm wire cur rdlen vs H) as (w' & E & _). eauto.
  - destruct (SchemaLocFix.loc_fixed_point_thm wire cur rdlen vs Hb H) as (w' & E & _). eauto.
  - destruct (SchemaOptFix.opt_fixed_point_thm wire cur rdlen vs Hb H) as (w' & E & _). eauto.
Qed.
