(* C10: the rdataset-object model refines the value-level model (and hence the reference store): same
   results for every call of every history, published zones with the same content.  Part 1: the low-level
   operations, by dereferencing rdataset ids (`ov_deref`) onto the node-object model of Proofs/TxnHeap.v. *)
From DV Require Import Base.Prelude Model.NameM Model.TxnM.
From DV Require Import Proofs.NameValid Proofs.TxnName Proofs.TxnStore Proofs.TxnLow Proofs.TxnSim Proofs.TxnThm
                       Proofs.TxnIrrel Proofs.TxnSpec Proofs.TxnItems Proofs.TxnAbs Proofs.TxnHeap Proofs.TxnCount Proofs.TxnObj.
Open Scope Z_scope.

(* ---------------------------------------------------------------- dereferencing rdataset ids *)
Definition nval (rh : rheap) (nd : onode) : node := map (rval rh) nd.
Definition ov_deref (v : over) : hver := mkHver (map (nval (ov_rh v)) (ov_nh v)) (ov_nodes v) (ov_changed v).

Definition rids_ok (rh : rheap) (nh : list onode) : Prop := Forall (Forall (fun i => (i < length rh)%nat)) nh.
Definition agree_below (rh rh' : rheap) : Prop :=
  (length rh <= length rh')%nat /\ forall i, (i < length rh)%nat -> nth i rh' robj0 = nth i rh robj0.

Lemma agree_refl rh : agree_below rh rh.
Proof. split; auto. Qed.

Lemma agree_trans a b c : agree_below a b -> agree_below b c -> agree_below a c.
Proof. intros [L1 H1] [L2 H2]. split; [lia|]. intros i Hi. rewrite H2 by lia. auto. Qed.

Lemma rval_agree rh rh' i : agree_below rh rh' -> (i < length rh)%nat -> rval rh' i = rval rh i /\ rimm rh' i = rimm rh i.
Proof. intros [_ H] Hi. unfold rval, rimm. rewrite H by exact Hi. auto. Qed.

Lemma nval_agree rh rh' nd : agree_below rh rh' -> Forall (fun i => (i < length rh)%nat) nd -> nval rh' nd = nval rh nd.
Proof.
  intros A F. unfold nval. apply map_ext_in. intros i Hi. eapply Forall_forall in F; eauto. apply (rval_agree rh rh' i A F).
Qed.

Lemma heap_agree rh rh' nh : agree_below rh rh' -> rids_ok rh nh -> map (nval rh') nh = map (nval rh) nh.
Proof.
  intros A F. apply map_ext_in. intros nd Hn. eapply Forall_forall in F; eauto. apply nval_agree; auto.
Qed.

Lemma rids_ok_agree rh rh' nh : agree_below rh rh' -> rids_ok rh nh -> rids_ok rh' nh.
Proof.
  intros [L _] F. eapply Forall_impl; [|exact F]. intros nd Hn. eapply Forall_impl; [|exact Hn]. cbn. intros; lia.
Qed.

Lemma ralloc_agree rh x imm : agree_below rh (fst (ralloc rh x imm)).
Proof.
  unfold ralloc. cbn [fst]. split; [rewrite app_length; lia|]. intros i Hi. apply app_nth1. exact Hi.
Qed.

Lemma ralloc_val rh x imm : rval (fst (ralloc rh x imm)) (snd (ralloc rh x imm)) = x /\
                            rimm (fst (ralloc rh x imm)) (snd (ralloc rh x imm)) = imm /\
                            (snd (ralloc rh x imm) < length (fst (ralloc rh x imm)))%nat /\
                            snd (ralloc rh x imm) = length rh.
Proof.
  unfold ralloc, rval, rimm. cbn [fst snd]. rewrite app_nth2, Nat.sub_diag by lia. cbn.
  rewrite app_length. cbn. repeat split; lia.
Qed.

Lemma nth_lset_same {A} (l : list A) i x d : (i < length l)%nat -> nth i (lset l i x) d = x.
Proof. revert i. induction l as [|y l IH]; intros [|i] H; cbn in *; try lia; auto. apply IH. lia. Qed.

(* an in-place method on an object at or above the bound leaves everything below it alone *)
Lemma inplace_agree rh0 rh id f rh' :
  agree_below rh0 rh -> (length rh0 <= id)%nat -> o_inplace rh id f = Ok rh' -> agree_below rh0 rh'.
Proof.
  intros [L H] Hid. unfold o_inplace. destruct (rimm rh id); [discriminate|]. intros E; inversion E; subst.
  split; [rewrite lset_length; exact L|]. intros i Hi. rewrite nth_lset_other by lia. auto.
Qed.

Lemma inplace_val rh id f rh' :
  (id < length rh)%nat -> o_inplace rh id f = Ok rh' ->
  rval rh' id = f (rval rh id) /\ rimm rh' id = false /\ length rh' = length rh /\ rimm rh id = false.
Proof.
  intros Hid. unfold o_inplace. destruct (rimm rh id) eqn:Ei; [discriminate|]. intros E; inversion E; subst.
  unfold rval, rimm. rewrite nth_lset_same by exact Hid. cbn. rewrite lset_length. auto.
Qed.

(* Set.union / intersection / difference: a new object holding f(value of a); everything that existed is as before *)
Lemma setop_spec f rh a rh' id :
  (a < length rh)%nat -> o_setop f rh a = Ok (rh', id) ->
  agree_below rh rh' /\ rval rh' id = f (rval rh a) /\ (length rh <= id)%nat /\ (id < length rh')%nat.
Proof.
  intros Ha. unfold o_setop, o_clone.
  pose proof (ralloc_agree rh (rval rh a) false) as A1. pose proof (ralloc_val rh (rval rh a) false) as (V1 & I1 & B1 & E1).
  destruct (ralloc rh (rval rh a) false) as [h1 cid] eqn:E. cbn [fst snd] in *.
  destruct (o_inplace h1 cid f) as [h2| |] eqn:Ei; cbn [bind]; try discriminate.
  destruct (inplace_val h1 cid f h2 B1 Ei) as (V2 & _ & L2 & _).
  pose proof (inplace_agree rh h1 cid f h2 A1 (ltac:(lia)) Ei) as A2.
  destruct (rimm rh a).
  - intros H. unfold ralloc in H. injection H as H1 H2.
    pose proof (ralloc_agree h2 (rval h2 cid) true) as A3.
    pose proof (ralloc_val h2 (rval h2 cid) true) as (V3 & _ & B3 & E3). unfold ralloc in A3, V3, B3, E3.
    cbn [fst snd] in A3, V3, B3, E3. rewrite H1 in A3, V3, B3. rewrite H2 in V3, B3, E3.
    split; [eapply agree_trans; eauto|]. split; [rewrite V3, V2, V1; reflexivity|]. destruct A2 as [LA _]. split; lia.
  - intros H. injection H as H1 H2. rewrite <- H1, <- H2.
    split; [exact A2|]. split; [rewrite V2, V1; reflexivity|]. split; lia.
Qed.

Lemma setop_fails_same f rh a e : (a < length rh)%nat -> o_setop f rh a <> Lib e.
Proof.
  intros Ha. unfold o_setop, o_clone, o_inplace.
  pose proof (ralloc_val rh (rval rh a) false) as (_ & I1 & _ & _).
  destruct (ralloc rh (rval rh a) false) as [h1 cid]. cbn [fst snd] in *. rewrite I1. cbn [bind].
  destruct (rimm rh a); discriminate.
Qed.

Lemma setop_never_internal f rh a e : (a < length rh)%nat -> o_setop f rh a <> Internal e.
Proof.
  intros Ha. unfold o_setop, o_clone, o_inplace.
  pose proof (ralloc_val rh (rval rh a) false) as (_ & I1 & _ & _).
  destruct (ralloc rh (rval rh a) false) as [h1 cid]. cbn [fst snd] in *. rewrite I1. cbn [bind].
  destruct (rimm rh a); discriminate.
Qed.

(* ---------------------------------------------------------------- node list surgery commutes with dereferencing *)
Lemma onode_find_val rh nd cls ty cov :
  match onode_find rh nd cls ty cov with Some i => Some (rval rh i) | None => None end = node_find (nval rh nd) cls ty cov.
Proof.
  unfold nval. induction nd as [|i nd IH]; cbn [onode_find map node_find]; [reflexivity|].
  destruct (rds_match (rval rh i) cls ty cov); [reflexivity|exact IH].
Qed.

Lemma onode_find_in rh nd cls ty cov i : onode_find rh nd cls ty cov = Some i -> In i nd.
Proof.
  induction nd as [|j nd IH]; cbn [onode_find]; [discriminate|].
  destruct (rds_match (rval rh j) cls ty cov); [intros H; inversion H; left; reflexivity|intros H; right; auto].
Qed.

Lemma onode_delete_val rh nd cls ty cov : nval rh (onode_delete rh nd cls ty cov) = node_delete (nval rh nd) cls ty cov.
Proof.
  unfold nval. induction nd as [|i nd IH]; cbn [onode_delete map node_delete]; [reflexivity|].
  destruct (rds_match (rval rh i) cls ty cov); [reflexivity|cbn [map]; rewrite IH; reflexivity].
Qed.

Lemma filter_map_comm {A B} (f : A -> B) (p : B -> bool) l : filter p (map f l) = map f (filter (fun x => p (f x)) l).
Proof. induction l as [|x l IH]; cbn; [reflexivity|]. destruct (p (f x)); cbn; rewrite IH; reflexivity. Qed.

Lemma onode_append_val rh nd rid : nval rh (onode_append rh nd rid) = node_append (nval rh nd) (rval rh rid).
Proof.
  unfold onode_append, node_append, nval. destruct nd as [|i nd]; [reflexivity|].
  change (map (rval rh) (i :: nd)) with (rval rh i :: map (rval rh) nd) at 2.
  cbv iota. change (rval rh i :: map (rval rh) nd) with (map (rval rh) (i :: nd)).
  destruct (classify_rds (rval rh rid)); rewrite map_app; cbn [map]; try reflexivity;
    change (rval rh i :: map (rval rh) nd) with (map (rval rh) (i :: nd));
    rewrite (filter_map_comm (rval rh)); reflexivity.
Qed.

Lemma onode_replace_val rh nd rid : nval rh (onode_replace rh nd rid) = node_replace (nval rh nd) (rval rh rid).
Proof. unfold onode_replace, node_replace. rewrite onode_append_val, onode_delete_val. reflexivity. Qed.

Lemma onode_delete_ids rh nd cls ty cov i : In i (onode_delete rh nd cls ty cov) -> In i nd.
Proof.
  induction nd as [|j nd IH]; cbn [onode_delete]; [auto|].
  destruct (rds_match (rval rh j) cls ty cov); [intros H; right; exact H|]. intros [H|H]; [left; exact H|right; auto].
Qed.

Lemma onode_replace_ids rh nd rid i : In i (onode_replace rh nd rid) -> i = rid \/ In i nd.
Proof.
  unfold onode_replace, onode_append. set (d := onode_delete rh nd _ _ _).
  assert (forall j, In j d -> In j nd) as Hd by (intros j; apply onode_delete_ids).
  destruct d as [|x d'] eqn:Ed; [intros [H|[]]; auto|].
  destruct (classify_rds (rval rh rid)); rewrite in_app_iff; intros [H|[H|[]]]; auto;
    try (apply filter_In in H; destruct H as [H _]); right; apply Hd; exact H.
Qed.

(* ---------------------------------------------------------------- low-level operations *)
Lemma hnode_deref v nid : hnode (hv_heap (ov_deref v)) nid = nval (ov_rh v) (onode_of v nid).
Proof.
  unfold hnode, ov_deref, onode_of. cbn [hv_heap]. change (@nil rds) with (nval (ov_rh v) []). apply map_nth.
Qed.

Lemma hset_map rh (nh : list onode) i nd : hset (map (nval rh) nh) i (nval rh nd) = map (nval rh) (lset nh i nd).
Proof. revert i. induction nh as [|x nh IH]; intros [|i]; cbn; auto. rewrite IH. reflexivity. Qed.

Definition res_map {A B} (f : A -> B) (r : res A) : res B :=
  match r with Ok a => Ok (f a) | Lib e => Lib e | Internal e => Internal e end.

Section Low.
  Variable c : cfg.

  Lemma o_get_node_deref v n :
    h_get_node c (ov_deref v) n =
    res_map (fun on => match on with Some nid => Some (nval (ov_rh v) (onode_of v nid)) | None => None end) (o_get_node c v n).
  Proof.
    unfold h_get_node, o_get_node. destruct (validate_name c n); cbn [bind res_map]; try reflexivity.
    cbn [hv_nodes ov_deref]. destruct (amap_get (ov_nodes v) a); [rewrite hnode_deref|]; reflexivity.
  Qed.

  Lemma o_get_rdataset_deref v n ty cov :
    h_get_rdataset c (ov_deref v) n ty cov =
    res_map (fun o => match o with Some i => Some (rval (ov_rh v) i) | None => None end) (o_get_rdataset c v n ty cov).
  Proof.
    unfold h_get_rdataset, o_get_rdataset. rewrite o_get_node_deref.
    destruct (o_get_node c v n) as [on| |]; cbn [bind res_map]; try reflexivity.
    destruct on as [nid|]; [|reflexivity]. rewrite <- onode_find_val. reflexivity.
  Qed.

  Lemma o_cow_deref v n :
    h_maybe_cow c (ov_deref v) n = res_map (fun x => (ov_deref (fst (fst x)), snd (fst x), snd x)) (o_maybe_cow c v n).
  Proof.
    unfold h_maybe_cow, o_maybe_cow. destruct (validate_name c n) as [k| |]; cbn [bind res_map]; try reflexivity.
    cbn [hv_nodes hv_changed hv_heap ov_deref]. rewrite map_length.
    destruct (amap_get (ov_nodes v) k) as [nid|].
    - destruct (changed_has (ov_changed v) k); cbn [res_map fst snd]; [reflexivity|].
      unfold ov_deref. cbn [ov_rh ov_nh ov_nodes ov_changed]. rewrite map_app. cbn [map].
      pose proof (hnode_deref v nid) as H. unfold ov_deref in H. cbn [hv_heap] in H. rewrite H. reflexivity.
    - cbn [res_map fst snd]. unfold ov_deref. cbn [ov_rh ov_nh ov_nodes ov_changed]. rewrite map_app. reflexivity.
  Qed.

  Lemma o_put_deref v n rid :
    h_put_rdataset c (ov_deref v) n (rval (ov_rh v) rid) = res_map ov_deref (o_put_rdataset c v n rid).
  Proof.
    unfold h_put_rdataset, o_put_rdataset. rewrite o_cow_deref.
    destruct (o_maybe_cow c v n) as [[[v1 nid] k]| |] eqn:Cw; cbn [bind res_map fst snd]; try reflexivity.
    assert (ov_rh v1 = ov_rh v) as Er.
    { unfold o_maybe_cow in Cw. destruct (validate_name c n); cbn [bind] in Cw; try discriminate.
      destruct (amap_get _ _); [destruct (changed_has _ _)|]; inversion Cw; reflexivity. }
    rewrite hnode_deref, Er, <- onode_replace_val. unfold ov_deref at 2. cbn [ov_rh ov_nh ov_nodes ov_changed].
    cbn [hv_heap hv_nodes hv_changed ov_deref]. rewrite Er, hset_map. reflexivity.
  Qed.

  Lemma amap_del_res (m : hmap) k : amap_del m k = amap_del m k.
  Proof. reflexivity. Qed.

  Lemma o_del_rds_deref v n ty cov :
    h_delete_rdataset c (ov_deref v) n ty cov = res_map ov_deref (o_delete_rdataset c v n ty cov).
  Proof.
    unfold h_delete_rdataset, o_delete_rdataset. rewrite o_cow_deref.
    destruct (o_maybe_cow c v n) as [[[v1 nid] k]| |] eqn:Cw; cbn [bind res_map fst snd]; try reflexivity.
    rewrite hnode_deref, <- onode_delete_val.
    destruct (onode_delete (ov_rh v1) (onode_of v1 nid) cIN ty cov) as [|x nd'] eqn:D.
    - cbn [nval map]. cbn [hv_nodes hv_changed hv_heap ov_deref].
      destruct (amap_del (ov_nodes v1) k) as [m| |]; cbn [bind res_map]; try reflexivity.
      unfold ov_deref. cbn [ov_rh ov_nh ov_nodes ov_changed]. change (@nil rds) with (nval (ov_rh v1) []). rewrite hset_map. reflexivity.
    - change (nval (ov_rh v1) (x :: nd')) with (rval (ov_rh v1) x :: nval (ov_rh v1) nd'). cbn [res_map].
      unfold ov_deref. cbn [ov_rh ov_nh ov_nodes ov_changed hv_heap hv_nodes hv_changed].
      change (rval (ov_rh v1) x :: nval (ov_rh v1) nd') with (nval (ov_rh v1) (x :: nd')). rewrite hset_map. reflexivity.
  Qed.

  Lemma o_del_name_deref v n :
    h_delete_node c (ov_deref v) n = res_map ov_deref (o_delete_node c v n).
  Proof.
    unfold h_delete_node, o_delete_node. destruct (validate_name c n) as [k| |]; cbn [bind res_map]; try reflexivity.
    cbn [hv_nodes ov_deref]. destruct (amap_has (ov_nodes v) k); reflexivity.
  Qed.
End Low.

(* ---------------------------------------------------------------- Part 2: the front end *)
(* the Rdataset copy of an ImmutableRdataset (`trds.update(existing)`) is a faithful copy *)
Lemma fold_add_plain l : forall x, is_singleton (r_ty x) = false -> NoDup (r_items x ++ l) ->
  fold_left rds_add l x = set_items x (r_items x ++ l).
Proof.
  induction l as [|y l IH]; intros x Hs N; cbn [fold_left].
  - rewrite app_nil_r. destruct x; reflexivity.
  - assert (rds_add x y = set_items x (r_items x ++ [y])) as A.
    { unfold rds_add. rewrite Hs. assert (mem y (r_items x) = false) as M.
      { destruct (mem y (r_items x)) eqn:M; [|reflexivity]. apply mem_In in M. exfalso.
        apply NoDup_remove_2 in N. apply N. apply in_or_app. left. exact M. }
      destruct (r_items x) eqn:E; unfold set_add; [reflexivity|]. rewrite M. reflexivity. }
    rewrite A. rewrite IH.
    + cbn [set_items r_items]. rewrite <- app_assoc. reflexivity.
    + exact Hs.
    + cbn [set_items r_items]. rewrite <- app_assoc. exact N.
Qed.

Lemma copy_id ev :
  items_wf ev ->
  fold_left rds_add (r_items ev) (update_ttl (mkRds (r_cls ev) (r_ty ev) (r_cov ev) 0 []) (r_ttl ev)) = ev.
Proof.
  intros [N S1]. unfold update_ttl. cbn [r_items set_ttl r_cls r_ty r_cov].
  destruct (is_singleton (r_ty ev)) eqn:Sg.
  - specialize (S1 eq_refl). destruct ev as [cls ty cov ttl items]. cbn [r_items r_ty r_cls r_cov r_ttl] in *.
    destruct items as [|a [|b items]]; cbn [fold_left]; [reflexivity| |cbn in S1; lia].
    unfold rds_add. cbn [r_items r_ty set_items]. reflexivity.
  - rewrite fold_add_plain; [destruct ev; reflexivity|exact Sg|exact N].
Qed.

Lemma filter_len_le {A} (p : A -> bool) l : (length (filter p l) <= length l)%nat.
Proof. induction l as [|x l IH]; cbn; [lia|]. destruct (p x); cbn; lia. Qed.

Lemma intersection_wf e r : items_wf e -> items_wf (rds_intersection e r).
Proof.
  intros He. pose proof (update_ttl_wf e (r_ttl r) He) as [N S1]. unfold rds_intersection, items_wf.
  cbn [r_items r_ty set_items]. split; [apply NoDup_filter; exact N|].
  intros Sg. specialize (S1 Sg). eapply Nat.le_trans; [apply filter_len_le|exact S1].
Qed.

Definition rwf (rh : rheap) : Prop := Forall (fun o => items_wf (ro_val o)) rh.

Lemma rwf_val rh i : rwf rh -> (i < length rh)%nat -> items_wf (rval rh i).
Proof. intros H Hi. unfold rval. eapply Forall_forall in H; [exact H|]. apply nth_In. exact Hi. Qed.

Lemma ralloc_rwf rh x imm : rwf rh -> items_wf x -> rwf (fst (ralloc rh x imm)).
Proof. intros H Hx. unfold ralloc. cbn [fst]. apply Forall_app. split; [exact H|constructor; [exact Hx|constructor]]. Qed.

Lemma lset_forall {A} (Q : A -> Prop) l i x : Forall Q l -> Q x -> Forall Q (lset l i x).
Proof. revert i. induction l as [|y l IH]; intros [|i] H Hx; cbn; auto; inversion H; subst; constructor; auto. Qed.

Lemma inplace_rwf rh id f rh' : rwf rh -> (id < length rh)%nat -> (forall x, items_wf x -> items_wf (f x)) ->
  o_inplace rh id f = Ok rh' -> rwf rh'.
Proof.
  intros H Hid Hf. unfold o_inplace. destruct (rimm rh id); [discriminate|]. intros E; inversion E; subst.
  apply lset_forall; [exact H|]. cbn. apply Hf. apply rwf_val; auto.
Qed.

Lemma setop_rwf f rh a rh' id : rwf rh -> (a < length rh)%nat -> (forall x, items_wf x -> items_wf (f x)) ->
  o_setop f rh a = Ok (rh', id) -> rwf rh'.
Proof.
  intros H Ha Hf. unfold o_setop, o_clone.
  pose proof (ralloc_rwf rh (rval rh a) false H (rwf_val rh a H Ha)) as H1.
  pose proof (ralloc_val rh (rval rh a) false) as (_ & _ & B1 & _).
  destruct (ralloc rh (rval rh a) false) as [h1 cid]. cbn [fst snd] in *.
  destruct (o_inplace h1 cid f) as [h2| |] eqn:Ei; cbn [bind]; try discriminate.
  pose proof (inplace_rwf h1 cid f h2 H1 B1 Hf Ei) as H2.
  destruct (inplace_val h1 cid f h2 B1 Ei) as (_ & _ & L2 & _).
  destruct (rimm rh a); intros E; inversion E; subst; [|exact H2].
  apply ralloc_rwf; [exact H2|]. apply rwf_val; [exact H2|lia].
Qed.

(* ---------------------------------------------------------------- the relation with the value-level version *)
Definition RO (v : over) (zv : version) : Prop :=
  RSh (ov_deref v) zv /\ rids_ok (ov_rh v) (ov_nh v) /\ rwf (ov_rh v).

Lemma rids_ok_app rh nh nd : rids_ok rh nh -> Forall (fun i => (i < length rh)%nat) nd -> rids_ok rh (nh ++ [nd]).
Proof. intros H Hn. apply Forall_app. split; [exact H|constructor; [exact Hn|constructor]]. Qed.

Lemma rids_ok_nth rh nh nid : rids_ok rh nh -> Forall (fun i => (i < length rh)%nat) (nth nid nh []).
Proof.
  intros H. destruct (Nat.lt_ge_cases nid (length nh)) as [L|L].
  - eapply Forall_forall in H; [exact H|]. apply nth_In. exact L.
  - rewrite nth_overflow by exact L. constructor.
Qed.

Section Front.
  Variable c : cfg.

  Lemma res_rel_map {A B C} (Rl : B -> C -> Prop) (f : A -> B) (x : res A) (y : res C) :
    res_rel Rl (res_map f x) y -> res_rel (fun a c0 => Rl (f a) c0) x y.
  Proof. destruct x, y; cbn; auto. Qed.

  Lemma with_rh_RO v zv rh' : RO v zv -> agree_below (ov_rh v) rh' -> rwf rh' -> RO (with_rh v rh') zv.
  Proof.
    intros (H1 & H2 & H3) A W. split; [|split; [eapply rids_ok_agree; eauto|exact W]].
    unfold ov_deref, with_rh in *. cbn [ov_rh ov_nh ov_nodes ov_changed] in *. rewrite (heap_agree _ _ _ A H2). exact H1.
  Qed.

  Lemma RO_get v zv n ty cov :
    RO v zv ->
    res_map (fun o => match o with Some i => Some (rval (ov_rh v) i) | None => None end) (o_get_rdataset c v n ty cov)
    = get_rdataset c zv n ty cov.
  Proof. intros (H1 & _). rewrite <- o_get_rdataset_deref. apply hsim_get. exact H1. Qed.

  Lemma RO_get_bound v zv n ty cov e : RO v zv -> o_get_rdataset c v n ty cov = Ok (Some e) -> (e < length (ov_rh v))%nat.
  Proof.
    intros (_ & H2 & _). unfold o_get_rdataset. destruct (o_get_node c v n) as [on| |]; cbn [bind]; try discriminate.
    destruct on as [nid|]; [|discriminate]. intros H; inversion H as [F]. apply onode_find_in in F.
    pose proof (rids_ok_nth _ _ nid H2) as K. eapply Forall_forall in K; eauto.
  Qed.

  Lemma RO_node v zv n : RO v zv ->
    res_map (fun on => match on with Some nid => Some (onode_val v nid) | None => None end) (o_get_node c v n) = get_node c zv n.
  Proof. intros (H1 & _). rewrite <- (hsim_node c (ov_deref v) zv n H1), o_get_node_deref. reflexivity. Qed.

  Lemma RO_put v zv n rid :
    RO v zv -> (rid < length (ov_rh v))%nat ->
    res_rel RO (o_put_rdataset c v n rid) (put_rdataset c zv n (rval (ov_rh v) rid)).
  Proof.
    intros (H1 & H2 & H3) Hr.
    pose proof (hsim_put c (ov_deref v) zv n (rval (ov_rh v) rid) H1) as S. rewrite o_put_deref in S.
    apply res_rel_map in S.
    destruct (o_put_rdataset c v n rid) as [v'| |] eqn:Ep, (put_rdataset c zv n (rval (ov_rh v) rid)) as [zv'| |];
      cbn in S |- *; try contradiction; auto.
    split; [exact S|].
    unfold o_put_rdataset in Ep. destruct (o_maybe_cow c v n) as [[[v1 nid] k]| |] eqn:Cw; cbn [bind] in Ep; try discriminate.
    inversion Ep; subst v'. cbn [ov_rh ov_nh].
    assert (ov_rh v1 = ov_rh v /\ rids_ok (ov_rh v) (ov_nh v1)) as [Er Hk].
    { unfold o_maybe_cow in Cw. destruct (validate_name c n); cbn [bind] in Cw; try discriminate.
      destruct (amap_get _ _) as [i|]; [destruct (changed_has _ _)|]; inversion Cw; subst; cbn [ov_rh ov_nh]; split; auto.
      - apply rids_ok_app; [exact H2|]. apply rids_ok_nth. exact H2.
      - apply rids_ok_app; [exact H2|constructor]. }
    rewrite Er. split; [|exact H3]. apply lset_forall; [exact Hk|].
    apply Forall_forall. intros i Hi. apply onode_replace_ids in Hi. destruct Hi as [->|Hi]; [exact Hr|].
    pose proof (rids_ok_nth _ _ nid Hk) as K. unfold onode_of in Hi. eapply Forall_forall in K; eauto.
  Qed.

  Lemma RO_del_rds v zv n ty cov :
    RO v zv -> res_rel RO (o_delete_rdataset c v n ty cov) (delete_rdataset c zv n ty cov).
  Proof.
    intros (H1 & H2 & H3).
    pose proof (hsim_del_rds c (ov_deref v) zv n ty cov H1) as S. rewrite o_del_rds_deref in S.
    apply res_rel_map in S.
    destruct (o_delete_rdataset c v n ty cov) as [v'| |] eqn:Ep, (delete_rdataset c zv n ty cov) as [zv'| |];
      cbn in S |- *; try contradiction; auto.
    split; [exact S|].
    unfold o_delete_rdataset in Ep. destruct (o_maybe_cow c v n) as [[[v1 nid] k]| |] eqn:Cw; cbn [bind] in Ep; try discriminate.
    assert (ov_rh v1 = ov_rh v /\ rids_ok (ov_rh v) (ov_nh v1)) as [Er Hk].
    { unfold o_maybe_cow in Cw. destruct (validate_name c n); cbn [bind] in Cw; try discriminate.
      destruct (amap_get _ _) as [i|]; [destruct (changed_has _ _)|]; inversion Cw; subst; cbn [ov_rh ov_nh]; split; auto.
      - apply rids_ok_app; [exact H2|]. apply rids_ok_nth. exact H2.
      - apply rids_ok_app; [exact H2|constructor]. }
    assert (rids_ok (ov_rh v) (lset (ov_nh v1) nid (onode_delete (ov_rh v1) (onode_of v1 nid) cIN ty cov))) as Hl.
    { apply lset_forall; [exact Hk|]. apply Forall_forall. intros i Hi. apply onode_delete_ids in Hi.
      pose proof (rids_ok_nth _ _ nid Hk) as K. unfold onode_of in Hi. eapply Forall_forall in K; eauto. }
    destruct (onode_delete (ov_rh v1) (onode_of v1 nid) cIN ty cov).
    - destruct (amap_del (ov_nodes v1) k); cbn [bind] in Ep; try discriminate. inversion Ep; subst. cbn [ov_rh ov_nh].
      rewrite Er. split; [exact Hl|exact H3].
    - inversion Ep; subst. cbn [ov_rh ov_nh]. rewrite Er. split; [exact Hl|exact H3].
  Qed.

  Lemma RO_del_name v zv n : RO v zv -> res_rel RO (o_delete_node c v n) (delete_node c zv n).
  Proof.
    intros (H1 & H2 & H3).
    pose proof (hsim_del_name c (ov_deref v) zv n H1) as S. rewrite o_del_name_deref in S. apply res_rel_map in S.
    destruct (o_delete_node c v n) as [v'| |] eqn:Ep, (delete_node c zv n) as [zv'| |]; cbn in S |- *; try contradiction; auto.
    split; [exact S|]. unfold o_delete_node in Ep. destruct (validate_name c n); cbn [bind] in Ep; try discriminate.
    destruct (amap_has _ _); inversion Ep; subst; cbn [ov_rh ov_nh]; auto.
  Qed.
End Front.

(* ---------------------------------------------------------------- _add / _delete on objects vs on values *)
Section FrontEnd.
  Variable c : cfg.

  (* an object-level set operation on a stored rdataset, followed by a use of the result *)
  Lemma RO_setop v zv f rh e rh' u :
    RO v zv -> agree_below (ov_rh v) rh -> rwf rh -> (e < length rh)%nat ->
    (forall x, items_wf x -> items_wf (f x)) ->
    o_setop f rh e = Ok (rh', u) ->
    RO (with_rh v rh') zv /\ rval rh' u = f (rval rh e) /\ (u < length rh')%nat /\ agree_below rh rh'.
  Proof.
    intros HR A W He Hf Es. destruct (setop_spec f rh e rh' u He Es) as (A2 & V & _ & B).
    split; [|auto]. apply with_rh_RO; [exact HR|eapply agree_trans; eauto|eapply setop_rwf; eauto].
  Qed.

  Lemma RO_add rep args v zv :
    RO v zv -> Forall arg_items_wf args ->
    res_rel RO (o_add c rep args v) (hl_add (zstore c) c rep args zv).
  Proof.
    intros HR Fw. unfold o_add, hl_add. destruct args as [|a rest]; [reflexivity|].
    destruct (add_parse a rest) as [[[n r] rest1]| |] eqn:Ep; cbn [bind]; try reflexivity.
    pose proof (add_parse_wf a rest n r rest1 Fw Ep) as Wr.
    destruct (negb _); [reflexivity|]. destruct (_ && _); [reflexivity|]. destruct rest1; [|reflexivity].
    pose proof HR as (_ & _ & W0).
    pose proof (ralloc_agree (ov_rh v) r false) as A1. pose proof (ralloc_val (ov_rh v) r false) as (V1 & _ & B1 & _).
    pose proof (ralloc_rwf (ov_rh v) r false W0 Wr) as W1.
    destruct (ralloc (ov_rh v) r false) as [rh1 rid]. cbn [fst snd] in *.
    pose proof (with_rh_RO v zv rh1 HR A1 W1) as HR1.
    destruct rep; cbn [bind fst snd].
    - rewrite <- V1. apply (RO_put c (with_rh v rh1) zv n rid HR1 B1).
    - cbn [s_get s_put zstore]. rewrite <- (RO_get c (with_rh v rh1) zv n (r_ty r) (r_cov r) HR1).
      destruct (o_get_rdataset c (with_rh v rh1) n (r_ty r) (r_cov r)) as [ex| |] eqn:G; cbn [bind res_map]; try reflexivity.
      destruct ex as [e|]; cbn [bind fst snd].
      + pose proof (RO_get_bound c (with_rh v rh1) zv n _ _ e HR1 G) as Be. cbn [ov_rh with_rh] in Be |- *.
        (* once the existing rdataset is available as a mutable object e' with the same value *)
        assert (forall rh4 e', agree_below rh1 rh4 -> rwf rh4 -> (e' < length rh4)%nat -> rval rh4 e' = rval rh1 e ->
                  res_rel RO (do y <- (do u <- o_union rh4 e' (rval rh4 rid); Ok (with_rh v (fst u), snd u));
                              o_put_rdataset c (fst y) n (snd y))
                             (put_rdataset c zv n (rds_union (rval rh1 e) r))) as K.
        { intros rh4 e' A4 W4 B4 V4.
          destruct (o_union rh4 e' (rval rh4 rid)) as [[rh5 u]| |] eqn:Eu; cbn [bind fst snd].
          - assert (agree_below (ov_rh v) rh4) as A04 by (eapply agree_trans; eauto).
            destruct (RO_setop v zv _ rh4 e' rh5 u HR A04 W4 B4 (fun x Hx => union_wf x _ Hx) Eu) as (HR5 & V5 & B5 & _).
            assert (rval rh4 rid = r) as Vr by (destruct (rval_agree rh1 rh4 rid A4 B1) as [-> _]; exact V1).
            rewrite V4, Vr in V5.
            replace (rds_union (rval rh1 e) r) with (rval (ov_rh (with_rh v rh5)) u) by (cbn [ov_rh with_rh]; exact V5).
            apply (RO_put c (with_rh v rh5) zv n u HR5 B5).
          - exfalso. eapply setop_fails_same; eauto.
          - exfalso. eapply setop_never_internal; eauto. }
        destruct (rimm rh1 e) eqn:Ei.
        * pose proof (ralloc_agree rh1 (mkRds (r_cls (rval rh1 e)) (r_ty (rval rh1 e)) (r_cov (rval rh1 e)) 0 []) false) as A2.
          pose proof (ralloc_val rh1 (mkRds (r_cls (rval rh1 e)) (r_ty (rval rh1 e)) (r_cov (rval rh1 e)) 0 []) false) as (V2 & I2 & B2 & E2).
          assert (rwf (fst (ralloc rh1 (mkRds (r_cls (rval rh1 e)) (r_ty (rval rh1 e)) (r_cov (rval rh1 e)) 0 []) false))) as W2.
          { apply ralloc_rwf; [exact W1|]. split; cbn; [constructor|intros _; lia]. }
          destruct (ralloc rh1 (mkRds (r_cls (rval rh1 e)) (r_ty (rval rh1 e)) (r_cov (rval rh1 e)) 0 []) false) as [rh2 t].
          cbn [fst snd] in *.
          destruct (o_inplace rh2 t (fun tv => fold_left rds_add (r_items (rval rh1 e)) (update_ttl tv (r_ttl (rval rh1 e))))) as [rh3| |] eqn:Ein;
            cbn [bind].
          -- destruct (inplace_val rh2 t _ _ B2 Ein) as (V3 & _ & L3 & _).
             apply K.
             ++ refine (inplace_agree rh1 rh2 t _ rh3 A2 _ Ein). rewrite E2. apply Nat.le_refl.
             ++ eapply inplace_rwf; [exact W2|exact B2| |exact Ein]. intros x Hx. apply fold_add_wf, update_ttl_wf, Hx.
             ++ rewrite L3. exact B2.
             ++ rewrite V3, V2. apply copy_id. apply rwf_val; auto.
          -- exfalso. unfold o_inplace in Ein. rewrite I2 in Ein. discriminate.
          -- exfalso. unfold o_inplace in Ein. rewrite I2 in Ein. discriminate.
        * cbn [bind]. apply K; auto using agree_refl.
      + rewrite <- V1. apply (RO_put c (with_rh v rh1) zv n rid HR1 B1).
  Qed.

  Lemma RO_delete_common exact n ord rest v zv :
    RO v zv -> match ord with Some r => items_wf r | None => True end ->
    res_rel RO (o_delete_common c exact n ord rest v) (hl_delete_common (zstore c) exact n ord rest zv).
  Proof.
    intros HR Wo. unfold o_delete_common, hl_delete_common. destruct rest; [|reflexivity].
    assert (res_rel RO (if exact then do on <- o_get_node c v n; match on with None => Lib eDeleteNotExact | Some _ => o_delete_node c v n end
                        else o_delete_node c v n)
                       (if exact then do ex <- s_exists (zstore c) zv n; if negb ex then Lib eDeleteNotExact else s_del_name (zstore c) zv n
                        else s_del_name (zstore c) zv n)) as Kname.
    { destruct exact; [|apply RO_del_name; exact HR]. cbn [s_exists s_del_name zstore].
      rewrite <- (RO_node c v zv n HR). destruct (o_get_node c v n) as [on| |]; cbn [bind res_map]; try reflexivity.
      destruct on; cbn [negb]; [apply RO_del_name; exact HR|reflexivity]. }
    destruct ord as [[cls ty cov ttl items]|]; [|exact Kname]. destruct items as [|i items]; [exact Kname|].
    destruct (negb _); [reflexivity|]. cbn [s_get s_put s_del_rds zstore].
    rewrite <- (RO_get c v zv n ty cov HR).
    destruct (o_get_rdataset c v n ty cov) as [ex| |] eqn:G; cbn [bind res_map]; try reflexivity.
    destruct ex as [e|]; [|destruct exact; [reflexivity|exact HR]].
    pose proof (RO_get_bound c v zv n ty cov e HR G) as Be. pose proof HR as (_ & _ & W0).
    set (r := mkRds cls ty cov ttl (i :: items)) in *.
    (* the exact test *)
    destruct exact; cbn [andb bind].
    - destruct (o_intersection (ov_rh v) e r) as [[rhw w]| |] eqn:Ew; cbn [bind fst snd].
      + destruct (RO_setop v zv _ (ov_rh v) e rhw w HR (agree_refl _) W0 Be (fun x Hx => intersection_wf x r Hx) Ew) as (HRw & Vw & _ & Aw).
        rewrite Vw. destruct (negb (rds_eqb (rds_intersection (rval (ov_rh v) e) r) r)); [reflexivity|]. cbn [bind].
        assert (e < length rhw)%nat as Bew by (destruct Aw; lia).
        destruct (o_difference rhw e r) as [[rhd d]| |] eqn:Ed; cbn [bind fst snd].
        * assert (rwf rhw) as Ww by (destruct HRw as (_ & _ & X); exact X).
          destruct (RO_setop v zv _ rhw e rhd d HR Aw Ww Bew (fun x Hx => difference_wf x r Hx) Ed) as (HRd & Vd & Bd & _).
          destruct (rval_agree (ov_rh v) rhw e Aw Be) as [Ve _]. rewrite Vd, Ve.
          destruct (r_items (rds_difference (rval (ov_rh v) e) r)) eqn:Di.
          -- apply RO_del_rds; exact HRd.
          -- replace (rds_difference (rval (ov_rh v) e) r) with (rval (ov_rh (with_rh v rhd)) d)
               by (cbn [ov_rh with_rh]; rewrite Vd, Ve; reflexivity).
             apply (RO_put c (with_rh v rhd) zv n d HRd Bd).
        * exfalso. eapply setop_fails_same; eauto.
        * exfalso. eapply setop_never_internal; eauto.
      + exfalso. eapply (setop_fails_same _ (ov_rh v) e); eauto.
      + exfalso. eapply (setop_never_internal _ (ov_rh v) e); eauto.
    - destruct (o_difference (ov_rh v) e r) as [[rhd d]| |] eqn:Ed; cbn [bind fst snd].
      + destruct (RO_setop v zv _ (ov_rh v) e rhd d HR (agree_refl _) W0 Be (fun x Hx => difference_wf x r Hx) Ed) as (HRd & Vd & Bd & _).
        rewrite Vd.
        destruct (r_items (rds_difference (rval (ov_rh v) e) r)) eqn:Di.
        * apply RO_del_rds; exact HRd.
        * replace (rds_difference (rval (ov_rh v) e) r) with (rval (ov_rh (with_rh v rhd)) d)
            by (cbn [ov_rh with_rh]; rewrite Vd; reflexivity).
          apply (RO_put c (with_rh v rhd) zv n d HRd Bd).
      + exfalso. eapply (setop_fails_same _ (ov_rh v) e); eauto.
      + exfalso. eapply (setop_never_internal _ (ov_rh v) e); eauto.
  Qed.

  Lemma RO_delete_bytype exact n t rest1 v zv :
    RO v zv -> res_rel RO (o_delete_bytype c exact n t rest1 v) (hl_delete_bytype (zstore c) exact n t rest1 zv).
  Proof.
    intros HR. unfold o_delete_bytype, hl_delete_bytype. destruct (make_type t) as [ty| |]; cbn [bind]; try reflexivity.
    destruct (match rest1 with [] => Ok (0, []) | c0 :: rest2 => do cv <- make_type c0; Ok (cv, rest2) end) as [[cov rest2]| |];
      cbn [bind]; try reflexivity.
    destruct rest2; [|reflexivity]. cbn [s_get s_del_rds zstore].
    rewrite <- (RO_get c v zv n ty cov HR).
    destruct (o_get_rdataset c v n ty cov) as [ex| |]; cbn [bind res_map]; try reflexivity.
    destruct ex; [apply RO_del_rds; exact HR|destruct exact; [reflexivity|exact HR]].
  Qed.

  Lemma RO_delete exact args v zv :
    RO v zv -> Forall arg_items_wf args ->
    res_rel RO (o_delete c exact args v) (hl_delete (zstore c) exact args zv).
  Proof.
    intros HR Fw. unfold o_delete, hl_delete. destruct args as [|a rest]; [reflexivity|].
    inversion Fw as [|? ? Fa Fr]; subst.
    assert (forall n, res_rel RO (do y <- rdataset_from_args true rest; o_delete_common c exact n (fst y) (snd y) v)
                                 (do y <- rdataset_from_args true rest; hl_delete_common (zstore c) exact n (fst y) (snd y) zv)) as Kc.
    { intros n. destruct (rdataset_from_args true rest) as [[o r1]| |] eqn:E; cbn [bind fst snd]; try reflexivity.
      apply RO_delete_common; [exact HR|]. apply (rdataset_from_args_wf true rest o r1 Fr E). }
    destruct a; try reflexivity.
    - destruct rest as [|t rest1]; [apply Kc|]. destruct (is_type_arg t); [apply RO_delete_bytype; exact HR|apply Kc].
    - destruct rest as [|t rest1]; [apply Kc|]. destruct (is_type_arg t); [apply RO_delete_bytype; exact HR|apply Kc].
    - apply RO_delete_common; [exact HR|exact Fa].
  Qed.
End FrontEnd.

(* ---------------------------------------------------------------- transactions, commit, histories *)
Section Txns.
  Variable c : cfg.

  Definition RTo (t : txn (S:=over)) (zt : txn (S:=version)) : Prop :=
    RO (t_st t) (t_st zt) /\ t_ro t = t_ro zt /\ t_ended t = t_ended zt.

  (* a published object-level zone and a published value-level zone *)
  Definition RPo (oz : ozone) (z : nmap) : Prop := RO (o_begin oz false) (mkVer z []).

  Lemma RO_write f g t zt :
    RTo t zt -> (forall v zv, RO v zv -> res_rel RO (f v) (g zv)) -> res_rel RTo (o_write f t) (hl_write g zt).
  Proof.
    intros (HR & Hro & Hen) Hf. unfold o_write, hl_write. rewrite Hro, Hen.
    destruct (t_ended zt) eqn:Een; [reflexivity|]. destruct (t_ro zt) eqn:Ero; [reflexivity|].
    specialize (Hf _ _ HR). destruct (f (t_st t)), (g (t_st zt)); cbn in *; try contradiction; auto.
    unfold RTo, with_st. cbn [t_st t_ro t_ended]. split; [exact Hf|split; congruence].
  Qed.

  Lemma RO_count v zv : RO v zv ->
    (zlen (ov_nodes v), fold_right (fun kn acc => zlen (onode_of v (snd kn)) + acc) 0 (ov_nodes v)) = s_count (zstore c) zv.
  Proof.
    intros ((Hn & _) & _). cbn [s_count zstore]. rewrite Hn. unfold deref. cbn [fst snd hv_heap hv_nodes ov_deref].
    f_equal; [unfold zlen; rewrite map_length; reflexivity|].
    induction (ov_nodes v) as [|[k nid] m IH]; cbn [map fold_right fst snd]; [reflexivity|].
    rewrite IH. f_equal. pose proof (hnode_deref v nid) as H. unfold ov_deref in H. cbn [hv_heap] in H.
    rewrite H. unfold zlen, nval. rewrite map_length. reflexivity.
  Qed.

  Lemma RO_changed v zv : RO v zv -> o_changed v = s_changed (zstore c) zv.
  Proof. intros ((_ & Hc & _) & _). unfold o_changed. cbn [s_changed zstore]. rewrite Hc. reflexivity. Qed.

  (* ImmutableVersion wrapping: new objects, same content *)
  Lemma wrap_spec rh ids : forall rh' ids',
    rwf rh -> Forall (fun i => (i < length rh)%nat) ids -> o_wrap_rdatasets rh ids = (rh', ids') ->
    agree_below rh rh' /\ rwf rh' /\ nval rh' ids' = nval rh ids /\ Forall (fun i => (i < length rh')%nat) ids'.
  Proof.
    revert rh. induction ids as [|x ids IH]; intros rh rh' ids' W F; cbn [o_wrap_rdatasets].
    - intros H; inversion H; subst. repeat split; auto using agree_refl.
    - inversion F as [|? ? Fx Fr]; subst.
      pose proof (ralloc_agree rh (rval rh x) true) as A1. pose proof (ralloc_val rh (rval rh x) true) as (V1 & _ & B1 & _).
      pose proof (ralloc_rwf rh (rval rh x) true W (rwf_val rh x W Fx)) as W1.
      destruct (ralloc rh (rval rh x) true) as [rh1 j]. cbn [fst snd] in *.
      destruct (o_wrap_rdatasets rh1 ids) as [rh2 js] eqn:E. intros H. injection H as H1 H2. subst rh' ids'.
      assert (Forall (fun i => (i < length rh1)%nat) ids) as Fr1.
      { eapply Forall_impl; [|exact Fr]. cbn. destruct A1. intros; lia. }
      destruct (IH rh1 rh2 js W1 Fr1 E) as (A2 & W2 & V2 & F2).
      split; [eapply agree_trans; eauto|]. split; [exact W2|]. split.
      + unfold nval in *. cbn [map]. rewrite V2. f_equal.
        * destruct (rval_agree rh1 rh2 j A2 B1) as [-> _]. exact V1.
        * apply map_ext_in. intros i Hi. eapply Forall_forall in Fr; eauto. apply (rval_agree rh rh1 i A1 Fr).
      + constructor; [destruct A2; lia|exact F2].
  Qed.

  Lemma RO_strip v zv : RO v zv -> RO (mkOver (ov_rh v) (ov_nh v) (ov_nodes v) []) (mkVer (v_nodes zv) []).
  Proof. intros ((Hn & _ & Hi & Hd) & H2 & H3). split; [split; [exact Hn|split; [reflexivity|split; assumption]]|split; assumption]. Qed.

  Lemma make_immutable_RPo names : forall rh nh m z,
    RPo (rh, nh, m) z -> RPo (o_make_immutable names (rh, nh, m)) z.
  Proof.
    induction names as [|k names IH]; intros rh nh m z HP; cbn [o_make_immutable]; [exact HP|].
    destruct (amap_get m k) as [nid|] eqn:G; [|apply IH; exact HP].
    destruct (nth nid nh []) as [|x ids] eqn:En; [apply IH; exact HP|].
    destruct HP as ((Hn & Hc & Hi & Hd) & H2 & H3). cbn [o_begin ov_rh ov_nh ov_nodes ov_changed ov_deref hv_heap hv_nodes v_nodes v_changed] in *.
    destruct (o_wrap_rdatasets rh (x :: ids)) as [rh1 ids'] eqn:Ew.
    assert (Forall (fun i => (i < length rh)%nat) (x :: ids)) as Fx by (rewrite <- En; apply rids_ok_nth; exact H2).
    destruct (wrap_spec rh (x :: ids) rh1 ids' H3 Fx Ew) as (A1 & W1 & V1 & F1).
    apply IH. split; [split; [|split; [reflexivity|split]]|split].
    - (* same content *)
      cbn [o_begin ov_rh ov_nh ov_nodes ov_changed ov_deref hv_heap hv_nodes v_nodes].
      rewrite Hn. rewrite map_app. cbn [map]. rewrite (heap_agree rh rh1 nh A1 H2).
      rewrite deref_set. rewrite <- (map_length (nval rh) nh), hnode_app_new, V1, <- En.
      rewrite deref_app by exact Hi.
      (* writing back the value that is already there *)
      assert (map_get (deref (map (nval rh) nh, m)) k = Some (nval rh (nth nid nh []))) as Gk.
      { rewrite deref_get, G. unfold hnode. change (@nil rds) with (nval rh []). rewrite map_nth. reflexivity. }
      symmetry. apply map_set_same. exact Gk.
    - cbn [o_begin ov_rh ov_nh ov_nodes ov_deref hv_heap hv_nodes]. rewrite map_app. cbn [map].
      rewrite (heap_agree rh rh1 nh A1 H2). rewrite <- (map_length (nval rh) nh). apply ids_ok_set. exact Hi.
    - cbn [o_begin ov_nodes ov_deref hv_nodes]. apply nodup_amap_set; [exact Hd|].
      rewrite <- (map_length (nval rh) nh). apply fresh_not_in. exact Hi.
    - cbn [o_begin ov_rh ov_nh]. apply rids_ok_app; [eapply rids_ok_agree; eauto|exact F1].
    - cbn [o_begin ov_rh]. exact W1.
  Qed.

  Lemma RO_publish v zv : RO v zv -> RPo (o_publish c v) (s_publish (zstore c) zv).
  Proof.
    intros HR. pose proof (RO_strip v zv HR) as HS. unfold o_publish. cbn [s_publish zstore].
    destruct (c_kind c =? 0); [exact HS|]. apply make_immutable_RPo. exact HS.
  Qed.

  Lemma RPo_begin oz z b : RPo oz z -> RO (o_begin oz b) (s_begin (zstore c) z b).
  Proof.
    intros HP. destruct oz as [[rh nh] m]. cbn [s_begin zstore o_begin]. destruct b; [|exact HP].
    destruct HP as (_ & H2 & H3). cbn [o_begin ov_rh ov_nh] in *.
    split; [|split; assumption]. split; [reflexivity|split; [reflexivity|split; [intros i []|constructor]]].
  Qed.

  Definition REo (x : ozone * txn (S:=over)) (y : nmap * txn (S:=version)) : Prop := RPo (fst x) (fst y) /\ RTo (snd x) (snd y).

  Lemma RO_end commit oz z t zt : RPo oz z -> RTo t zt -> res_rel REo (o_end c commit oz t) (hl_end (zstore c) commit z zt).
  Proof.
    intros HP (HR & Hro & Hen). unfold o_end, hl_end. rewrite Hen, Hro, (RO_changed _ _ HR).
    destruct (t_ended zt); [reflexivity|]. cbn [res_rel]. split; cbn [fst snd].
    - destruct (negb (t_ro zt) && commit && s_changed (zstore c) (t_st zt)); [apply RO_publish; exact HR|exact HP].
    - unfold RTo. cbn. auto.
  Qed.

  Definition op_items_ok (o : op) : Prop := op_items_wf o.

  Definition RStepo (x : out * ozone * txn (S:=over)) (y : out * nmap * txn (S:=version)) : Prop :=
    fst (fst x) = fst (fst y) /\ RPo (snd (fst x)) (snd (fst y)) /\ RTo (snd x) (snd y).

  Lemma RO_update_serial value rel nm t zt :
    RTo t zt -> res_rel RTo (o_update_serial c value rel nm t) (hl_update_serial (zstore c) c value rel nm zt).
  Proof.
    intros HT. pose proof HT as (HR & Hro & Hen). unfold o_update_serial, hl_update_serial. rewrite Hen.
    destruct (t_ended zt); [reflexivity|]. destruct (value <? 0); [reflexivity|].
    destruct (match nm with None => Ok NameM.empty | Some a => name_of_arg a end) as [n| |]; cbn [bind]; try reflexivity.
    cbn [s_get zstore]. rewrite <- (RO_get c (t_st t) (t_st zt) n tSOA 0 HR).
    destruct (o_get_rdataset c (t_st t) n tSOA 0) as [ex| |]; cbn [bind res_map]; try reflexivity.
    destruct ex as [e|]; [|reflexivity].
    destruct (r_items (rval (ov_rh (t_st t)) e)) as [|[body serial] ?]; [reflexivity|].
    destruct (if rel then serial_add serial value else Ok (value mod 4294967296)); cbn [bind]; try reflexivity.
    apply RO_write; [exact HT|]. intros v zv Hv. apply RO_add; [exact Hv|].
    constructor; [exact Logic.I|constructor; [|constructor]]. cbn. split; cbn; [repeat constructor; intros []|intros _; lia].
  Qed.

  Lemma RO_step o oz z t zt :
    op_items_wf o -> RPo oz z -> RTo t zt -> res_rel RStepo (o_step c o oz t) (step (zstore c) c o z zt).
  Proof.
    intros Wo HP HT. pose proof HT as (HR & Hro & Hen).
    assert (forall (x : res (txn (S:=over))) (y : res (txn (S:=version))), res_rel RTo x y ->
              res_rel RStepo (do t' <- x; Ok (RNone, oz, t')) (do t' <- y; Ok (RNone, z, t'))) as Kw.
    { intros x y H. destruct x, y; cbn in *; try contradiction; auto. unfold RStepo. cbn. auto. }
    assert (forall commit, res_rel RStepo (do x <- o_end c commit oz t; Ok (RNone, fst x, snd x))
                                          (do x <- hl_end (zstore c) commit z zt; Ok (RNone, fst x, snd x))) as Ke.
    { intros commit. pose proof (RO_end commit oz z t zt HP HT) as H.
      destruct (o_end c commit oz t), (hl_end (zstore c) commit z zt); cbn in *; try contradiction; auto.
      destruct H. unfold RStepo. cbn. auto. }
    destruct o; cbn [o_step step op_items_wf] in *.
    - apply Kw, RO_write; [exact HT|]. intros; apply RO_add; auto.
    - apply Kw, RO_write; [exact HT|]. intros; apply RO_add; auto.
    - apply Kw, RO_write; [exact HT|]. intros; apply RO_delete; auto.
    - apply Kw, RO_write; [exact HT|]. intros; apply RO_delete; auto.
    - apply Kw, RO_update_serial; auto.
    - rewrite Hen. destruct (t_ended zt); [reflexivity|].
      destruct (name_of_arg n) as [n0| |]; cbn [bind]; try reflexivity.
      destruct (make_type (AInt ty)) as [ty'| |]; cbn [bind]; try reflexivity.
      destruct (make_type (AInt cov)) as [cov'| |]; cbn [bind]; try reflexivity.
      cbn [s_get zstore]. rewrite <- (RO_get c (t_st t) (t_st zt) n0 ty' cov' HR).
      destruct (o_get_rdataset c (t_st t) n0 ty' cov'); cbn [bind res_map]; try reflexivity. unfold RStepo. cbn. auto.
    - rewrite Hen. destruct (t_ended zt); [reflexivity|].
      destruct (name_of_arg n) as [n0| |]; cbn [bind]; try reflexivity.
      cbn [s_exists zstore]. rewrite <- (RO_node c (t_st t) (t_st zt) n0 HR).
      destruct (o_get_node c (t_st t) n0) as [on| |]; cbn [bind res_map]; try reflexivity.
      unfold RStepo. cbn. destruct on; auto.
    - rewrite Hen, Hro, (RO_changed _ _ HR). destruct (t_ended zt); [reflexivity|]. unfold RStepo. cbn. auto.
    - rewrite Hen. destruct (t_ended zt); [reflexivity|]. rewrite <- (RO_count _ _ HR).
      unfold RStepo. cbn [res_rel fst snd]. auto.
    - rewrite Hen. destruct (t_ended zt); [reflexivity|].
      destruct (name_of_arg n) as [n0| |]; cbn [bind]; try reflexivity.
      cbn [s_node zstore]. rewrite <- (RO_node c (t_st t) (t_st zt) n0 HR).
      destruct (o_get_node c (t_st t) n0) as [on| |]; cbn [bind res_map]; try reflexivity.
      unfold RStepo. cbn. auto.
    - apply Ke.
    - apply Ke.
  Qed.

  Lemma RO_exit clean oz z t zt : RPo oz z -> RTo t zt -> RPo (o_exit c clean oz t) (hl_exit (zstore c) clean z zt).
  Proof.
    intros HP HT. unfold o_exit, hl_exit. pose proof (RO_end clean oz z t zt HP HT) as H.
    destruct (o_end c clean oz t) as [[? ?]| |], (hl_end (zstore c) clean z zt) as [[? ?]| |];
      cbn in *; try contradiction; auto. destruct H. auto.
  Qed.

  Definition ROuto (x : list (res out) * ozone) (y : list (res out) * nmap) : Prop := fst x = fst y /\ RPo (snd x) (snd y).

  Lemma RO_run_manual ops : forall oz z t zt,
    Forall op_items_wf ops -> RPo oz z -> RTo t zt ->
    ROuto (o_run_manual c ops oz t) (run_manual (zstore c) c ops z zt).
  Proof.
    induction ops as [|o ops IH]; intros oz z t zt F HP HT; cbn [o_run_manual run_manual].
    - split; [reflexivity|]. apply RO_exit; auto.
    - inversion F as [|? ? Fo Fr]; subst.
      pose proof (RO_step o oz z t zt Fo HP HT) as H.
      destruct (o_step c o oz t) as [[[x1 z1'] t1']|e1|e1], (step (zstore c) c o z zt) as [[[x2 z2'] t2']|e2|e2];
        cbn in H; try contradiction.
      + destruct H as (Ho & HP' & HT'). cbn in Ho, HP', HT'. subst x2.
        specialize (IH z1' z2' t1' t2' Fr HP' HT').
        destruct (o_run_manual c ops z1' t1'), (run_manual (zstore c) c ops z2' t2'). destruct IH as [I1 I2].
        cbn in *. split; cbn; [congruence|exact I2].
      + subst e2. specialize (IH oz z t zt Fr HP HT).
        destruct (o_run_manual c ops oz t), (run_manual (zstore c) c ops z zt). destruct IH as [I1 I2].
        cbn in *. split; cbn; [congruence|exact I2].
      + subst e2. specialize (IH oz z t zt Fr HP HT).
        destruct (o_run_manual c ops oz t), (run_manual (zstore c) c ops z zt). destruct IH as [I1 I2].
        cbn in *. split; cbn; [congruence|exact I2].
  Qed.

  Lemma RO_run_with ops : forall fault oz z t zt,
    Forall op_items_wf ops -> RPo oz z -> RTo t zt ->
    ROuto (o_run_with c ops fault oz t) (run_with (zstore c) c ops fault z zt).
  Proof.
    induction ops as [|o ops IH]; intros fault oz z t zt F HP HT.
    - destruct fault as [[|k]|]; cbn [o_run_with run_with]; (split; [reflexivity|apply RO_exit; auto]).
    - inversion F as [|? ? Fo Fr]; subst.
      destruct fault as [[|k]|]; cbn [o_run_with run_with].
      + split; [reflexivity|apply RO_exit; auto].
      + pose proof (RO_step o oz z t zt Fo HP HT) as H.
        destruct (o_step c o oz t) as [[[x1 z1'] t1']|e1|e1], (step (zstore c) c o z zt) as [[[x2 z2'] t2']|e2|e2];
          cbn in H; try contradiction.
        * destruct H as (Ho & HP' & HT'). cbn in Ho, HP', HT'. subst x2.
          specialize (IH (Some k) z1' z2' t1' t2' Fr HP' HT').
          destruct (o_run_with c ops (Some k) z1' t1'), (run_with (zstore c) c ops (Some k) z2' t2'). destruct IH as [I1 I2].
          cbn in *. split; cbn; [congruence|exact I2].
        * subst e2. split; [reflexivity|apply RO_exit; auto].
        * subst e2. split; [reflexivity|apply RO_exit; auto].
      + pose proof (RO_step o oz z t zt Fo HP HT) as H.
        destruct (o_step c o oz t) as [[[x1 z1'] t1']|e1|e1], (step (zstore c) c o z zt) as [[[x2 z2'] t2']|e2|e2];
          cbn in H; try contradiction.
        * destruct H as (Ho & HP' & HT'). cbn in Ho, HP', HT'. subst x2.
          specialize (IH None z1' z2' t1' t2' Fr HP' HT').
          destruct (o_run_with c ops None z1' t1'), (run_with (zstore c) c ops None z2' t2'). destruct IH as [I1 I2].
          cbn in *. split; cbn; [congruence|exact I2].
        * subst e2. split; [reflexivity|apply RO_exit; auto].
        * subst e2. split; [reflexivity|apply RO_exit; auto].
  Qed.

  Lemma RO_open mode oz z : RPo oz z -> RTo (o_open mode oz) (open_txn (zstore c) mode z).
  Proof.
    intros HP. unfold o_open, open_txn. destruct (mode =? 2); unfold RTo; cbn [t_st t_ro t_ended];
      (split; [apply RPo_begin; exact HP|auto]).
  Qed.

  (* Every history: the rdataset-object model and the value-level model give the same result for every call
     (iterate calls included), and the published objects dereference to the published value. *)
  Theorem obj_refines_value h : forall oz z,
    Forall spec_items_wf h -> RPo oz z ->
    Forall2 ROuto (obj_hist c h oz) (impl_hist c h z).
  Proof.
    unfold impl_hist. induction h as [|x h IH]; intros oz z F HP; cbn [obj_hist run_hist]; [constructor|].
    inversion F as [|? ? Fx Fh]; subst.
    assert (ROuto (o_run_txn c x oz) (run_txn (zstore c) c x z)) as H.
    { unfold o_run_txn, run_txn. destruct (x_style x =? 1).
      - apply RO_run_with; auto. apply RO_open; exact HP.
      - apply RO_run_manual; auto. apply RO_open; exact HP. }
    destruct (o_run_txn c x oz) as [o1 z1'], (run_txn (zstore c) c x z) as [o2 z2'].
    constructor; [exact H|]. apply IH; [exact Fh|]. destruct H. auto.
  Qed.
End Txns.

Lemma RPo_empty : RPo ([], [], []) [].
Proof.
  split; [split; [reflexivity|split; [reflexivity|split; [intros i []|constructor]]]|split; constructor].
Qed.

(* what the relation says to an observer: the published objects dereference to the published value *)
Lemma RPo_oderef oz z : RPo oz z -> z = oderef oz.
Proof.
  destruct oz as [[rh nh] m]. intros ((Hn & _) & _). cbn [o_begin ov_deref ov_rh ov_nh ov_nodes v_nodes hv_heap hv_nodes] in Hn.
  rewrite Hn. unfold deref, oderef. cbn [fst snd]. apply map_ext. intros [k nid]. cbn [fst snd]. f_equal.
  unfold hnode, nval. change (@nil rds) with (map (rval rh) []). apply map_nth.
Qed.

(* the whole chain: rdataset objects -> values -> reference store *)
Theorem obj_refines_reference c h oz z l :
  wfc c -> Forall spec_valid h -> Forall spec_items_wf h -> RPo oz z -> RP c z l ->
  Forall2 (fun x y => fst x = fst y /\ exists z', RPo (snd x) z' /\ RP c z' (snd y)) (obj_hist c h oz) (spec_hist c h l).
Proof.
  intros W V Fi HPo HP.
  pose proof (obj_refines_value c h oz z Fi HPo) as R1.
  pose proof (refines_hist c h z l W V HP) as R2.
  pose proof (Forall2_compose _ _ _ _ _ R1 R2) as K.
  eapply Forall2_impl; [|exact K]. intros x y (b & [A1 A2] & [B1 B2]). split; [congruence|]. exists (snd b). auto.
Qed.
