(* C08 + C03: the truncated result parses back to the prefix message. *)
From DV Require Import Base.Prelude Model.NameM Model.MessageM.
From DV Require Import Proofs.NameOrder Proofs.NameValid Proofs.NameRel Proofs.NameWire Proofs.NameCompress.
From DV Require Import Proofs.MessageName Proofs.MessageRender Proofs.MessageRead Proofs.MessageRoundtrip Proofs.MessageRoundtrip2.
From DV Require Import Proofs.MessageBits Proofs.MessageSize Proofs.MessageTrunc Proofs.MessageRoundtrip3.
Open Scope Z_scope.

Lemma keys_fresh_prefix : forall l1 l2 S, keys_fresh S (l1 ++ l2) -> keys_fresh S l1.
Proof.
  induction l1 as [|rs l1 IH]; intros l2 S H; [exact Logic.I|].
  cbn [app keys_fresh] in *. destruct H as (A & B). split; [exact A|]. eapply IH. exact B.
Qed.

Lemma Forall_prefix {A} (P : A -> Prop) l1 l2 : Forall P (l1 ++ l2) -> Forall P l1.
Proof. intros H. apply Forall_app in H. tauto. Qed.

Lemma opcode_tc f : opcode_from_flags (Z.lor f fTC) = opcode_from_flags f.
Proof.
  unfold opcode_from_flags, fTC. rewrite Z.land_lor_distr_l. change (Z.land 512 30720) with 0.
  rewrite Z.lor_0_r. reflexivity.
Qed.

Lemma WfMsg_cut o m q1 q2 a1 a2 u1 u2 d1 d2 fl :
  WfMsg o m -> mq m = q1 ++ q2 -> man m = a1 ++ a2 -> mau m = u1 ++ u2 -> mad m = d1 ++ d2 ->
  (fl = mflags m \/ fl = Z.lor (mflags m) fTC) ->
  WfMsg o (cut_msg m fl q1 a1 u1 d1).
Proof.
  intros [W0 WQ WA WU WD KA KU KD WO] EQ EA EU ED HF.
  rewrite EQ in WQ. rewrite EA in WA, KA. rewrite EU in WU, KU. rewrite ED in WD, KD.
  constructor; cbn [cut_msg mflags mq man mau mad mopt].
  - destruct HF as [->| ->]; [exact W0|rewrite opcode_tc; exact W0].
  - eapply Forall_prefix; exact WQ.
  - eapply Forall_prefix; exact WA.
  - eapply Forall_prefix; exact WU.
  - eapply Forall_prefix; exact WD.
  - eapply keys_fresh_prefix; exact KA.
  - eapply keys_fresh_prefix; exact KU.
  - eapply keys_fresh_prefix; exact KD.
  - exact WO.
Qed.

(* prefer_truncation: the result parses; it holds a prefix of the record sets in section order;
   TC is set exactly when the cut lies before the additional section; OPT and TSIG are kept *)
Theorem trunc_parses_lemma o m ms rp w :
  org_ok o -> WfMsg o m -> wf_tsig m -> to_wire m o ms rp true 0 = Ok w ->
  exists q1 q2 a1 a2 u1 u2 d1 d2 m',
    mq m = q1 ++ q2 /\ man m = a1 ++ a2 /\ mau m = u1 ++ u2 /\ mad m = d1 ++ d2 /\
    (q2 <> [] -> a1 = [] /\ u1 = [] /\ d1 = []) /\ (a2 <> [] -> u1 = [] /\ d1 = []) /\ (u2 <> [] -> d1 = []) /\
    from_wire w o po0 = Ok m' /\
    msg_equiv_t m' (cut_msg m (if cut_before q2 a2 u2 then Z.lor (mflags m) fTC else mflags m) q1 a1 u1 d1).
Proof.
  intros OO WF WT H.
  destruct (trunc_prefix_lemma _ _ _ _ _ _ H) as (q1 & q2 & a1 & a2 & u1 & u2 & d1 & d2 & EQ & EA & EU & ED & C1 & C2 & C3 & R).
  set (fl := if cut_before q2 a2 u2 then Z.lor (mflags m) fTC else mflags m) in *.
  assert (WC : WfMsg o (cut_msg m fl q1 a1 u1 d1)).
  { eapply WfMsg_cut; try eassumption. unfold fl. destruct (cut_before q2 a2 u2); auto. }
  destruct (render_parse_full_lemma o OO _ _ _ _ WC WT R) as (m' & F & E).
  exists q1, q2, a1, a2, u1, u2, d1, d2, m'. auto 12.
Qed.

(* ... for every padding block size: the parsed message carries the padding option in addition *)
Theorem trunc_parses_pad_lemma o pad m ms rp w :
  org_ok o -> WfMsg o m -> wf_tsig m -> to_wire m o ms rp true pad = Ok w ->
  exists q1 q2 a1 a2 u1 u2 d1 d2 m',
    mq m = q1 ++ q2 /\ man m = a1 ++ a2 /\ mau m = u1 ++ u2 /\ mad m = d1 ++ d2 /\
    (q2 <> [] -> a1 = [] /\ u1 = [] /\ d1 = []) /\ (a2 <> [] -> u1 = [] /\ d1 = []) /\ (u2 <> [] -> d1 = []) /\
    from_wire w o po0 = Ok m' /\
    msg_equiv_p pad m' (cut_msg m (if cut_before q2 a2 u2 then Z.lor (mflags m) fTC else mflags m) q1 a1 u1 d1).
Proof.
  intros OO WF WT H.
  destruct (trunc_prefix_lemma _ _ _ _ _ _ H) as (q1 & q2 & a1 & a2 & u1 & u2 & d1 & d2 & EQ & EA & EU & ED & C1 & C2 & C3 & R).
  set (fl := if cut_before q2 a2 u2 then Z.lor (mflags m) fTC else mflags m) in *.
  assert (WC : WfMsg o (cut_msg m fl q1 a1 u1 d1)).
  { eapply WfMsg_cut; try eassumption. unfold fl. destruct (cut_before q2 a2 u2); auto. }
  destruct (render_parse_pad_lemma o OO pad _ _ _ _ WC WT R) as (m' & F & E).
  exists q1, q2, a1, a2, u1, u2, d1, d2, m'. auto 12.
Qed.
