(* C13 - the transfer is only as good as the stream: an IXFR response with a well-formed SOA skeleton
   is applied section by section, whatever its records are. *)
From DV Require Import Base.Prelude Model.XfrM Proofs.XfrSets Proofs.XfrSpec Proofs.XfrZone Proofs.XfrDiff
  Proofs.XfrSafety Proofs.XfrBasic Proofs.XfrRun Proofs.XfrIxfr Proofs.XfrAxfr Proofs.XfrPerm Proofs.XfrOrder
  Proofs.XfrFault Proofs.XfrGlue.

(* one difference sequence as received: the SOAs are given by (pseudo-)versions of which only the
   SOA matters; the deleted / added records are arbitrary *)
Record sect := mkSect { c_old : version; c_dels : list rr; c_new : version; c_adds : list rr }.

Fixpoint secs_stream (secs : list sect) : list rr :=
  match secs with
  | [] => []
  | c :: r => soa_rr (c_old c) :: c_dels c ++ soa_rr (c_new c) :: c_adds c ++ secs_stream r
  end.

(* what the sections denote: exact deletion of the (in-zone) deleted records, replacement of the SOA,
   union with the (in-zone) added records; None when a deletion does not apply *)
Fixpoint apply_secs (z : zone) (secs : list sect) : option zone :=
  match secs with
  | [] => Some z
  | c :: r =>
      match dels z (erase (c_dels c)) with
      | Some z1 => apply_secs (adds (zput soakey (v_ttl (c_new c), [v_soa (c_new c)]) z1) (erase (c_adds c))) r
      | None => None
      end
  end.

(* the SOA skeleton: every deletion section starts at the current serial (and is not the announced
   SOA); the records are plain in-zone records or out-of-zone glue *)
Fixpoint skel_ok (cur : Z) (fin : version) (secs : list sect) : Prop :=
  match secs with
  | [] => True
  | c :: r =>
      v_serial (c_old c) = cur /\ v_soa (c_old c) <> v_soa fin /\ ttl_ok (v_ttl (c_new c)) /\
      Forall okrec (c_dels c) /\ Forall okrec (c_adds c) /\ skel_ok (v_serial (c_new c)) fin r
  end.

Fixpoint end_serial (cur : Z) (secs : list sect) : Z :=
  match secs with [] => cur | c :: r => end_serial (v_serial (c_new c)) r end.

Lemma quiet_sec : forall c z z1, Forall okrec (c_adds c) -> quiet z -> dels z (erase (c_dels c)) = Some z1 ->
  quiet z1 /\ quiet (zput soakey (v_ttl (c_new c), [v_soa (c_new c)]) z1) /\
  quiet (adds (zput soakey (v_ttl (c_new c), [v_soa (c_new c)]) z1) (erase (c_adds c))).
Proof.
  intros c z z1 OA Hq Hd.
  assert (Hq1 : quiet z1) by (apply (quiet_dels _ _ _ Hd Hq)).
  assert (Hq2 : quiet (zput soakey (v_ttl (c_new c), [v_soa (c_new c)]) z1)) by (apply quiet_zput; [exact Hq1|discriminate]).
  split; [exact Hq1|]. split; [exact Hq2|]. apply quiet_adds; [apply erase_plain, OA|exact Hq2].
Qed.

Lemma quiet_apply_secs : forall secs cur fin z z', skel_ok cur fin secs -> apply_secs z secs = Some z' ->
  quiet z -> quiet z'.
Proof.
  induction secs as [|c r IH]; intros cur fin z z' Hch Hap Hq; cbn [apply_secs] in Hap.
  - inversion Hap; subst. exact Hq.
  - cbn [skel_ok] in Hch. destruct Hch as (Hser & Hne & Httl & OD & OA & Hrest).
    destruct (dels z (erase (c_dels c))) as [z1|] eqn:Hd; [|discriminate].
    destruct (quiet_sec c z z1 OA Hq Hd) as (_ & _ & Hq3).
    apply (IH _ _ _ _ Hrest Hap Hq3).
Qed.

Lemma secs_run : forall u secs p tz cur fin e z',
  skel_ok cur fin secs -> apply_secs tz secs = Some z' -> quiet tz ->
  loopn (ist u p tz cur (single (soa_rr fin)) e false) (map single (secs_stream secs)) =
  (ist u p z' (end_serial cur secs) (single (soa_rr fin)) (match secs with [] => e | _ => false end) false, None).
Proof.
  intros u secs. induction secs as [|c r IH]; intros p tz cur fin e z' Hch Hap Hq.
  - cbn in *. inversion Hap; subst. reflexivity.
  - cbn [skel_ok] in Hch. destruct Hch as (Hser & Hne & Httl & OD & OA & Hrest).
    cbn [apply_secs] in Hap. destruct (dels tz (erase (c_dels c))) as [z1|] eqn:Hd; [|discriminate].
    destruct (quiet_sec c tz z1 OA Hq Hd) as (Hq1 & Hq2 & Hq3).
    cbn [secs_stream map loopn end_serial]. rewrite <- Hser. rewrite step_del_start by exact Hne.
    rewrite map_app, loopn_app.
    rewrite (loopn_erase_dels (c_dels c) u p tz z1 _ _ OD Hq Hd).
    cbn [map loopn]. rewrite step_add_start by assumption.
    rewrite map_app, loopn_app, (loopn_erase_adds (c_adds c) u p _ _ _ OA Hq2).
    rewrite (IH p _ (v_serial (c_new c)) fin false z' Hrest Hap Hq3).
    destruct r; reflexivity.
Qed.

Lemma secs_stream_app : forall a b, secs_stream (a ++ b) = secs_stream a ++ secs_stream b.
Proof.
  induction a as [|c a IH]; intros b; cbn [app secs_stream]; [reflexivity|].
  rewrite IH. rewrite <- !app_assoc. cbn [app]. rewrite <- !app_assoc. reflexivity.
Qed.

Lemma skel_ok_app : forall a b cur fin, skel_ok cur fin (a ++ b) ->
  skel_ok cur fin a /\ skel_ok (end_serial cur a) fin b.
Proof.
  induction a as [|c a IH]; intros b cur fin H; cbn [app skel_ok end_serial] in *; [auto|].
  destruct H as (H1 & H2 & H3 & H4 & H5 & H6). destruct (IH _ _ _ H6) as [Ha Hb]. auto 10.
Qed.

Lemma apply_secs_none_split : forall secs z, apply_secs z secs = None ->
  exists pre c post z1, secs = pre ++ c :: post /\ apply_secs z pre = Some z1 /\
                        dels z1 (erase (c_dels c)) = None.
Proof.
  induction secs as [|c r IH]; intros z H; cbn [apply_secs] in H; [discriminate|].
  destruct (dels z (erase (c_dels c))) as [z1|] eqn:Hd.
  - destruct (IH _ H) as (pre & c' & post & z2 & -> & Hp & Hn).
    exists (c :: pre), c', post, z2. split; [reflexivity|]. split; [|exact Hn].
    cbn [apply_secs]. rewrite Hd. exact Hp.
  - exists [], c, r, z. auto.
Qed.

(* a deletion that does not apply: the first one *)
Lemma dels_none_split : forall D z, Forall okrec D -> dels z (erase D) = None ->
  exists D1 x D2 z1, D = D1 ++ x :: D2 /\ dels z (erase D1) = Some z1 /\ plain x
                     /\ del1 (look z1 (rkey x)) (r_data x) = None.
Proof.
  induction D as [|r D IH]; intros z Hok Hn; cbn [erase filter dels] in Hn; [discriminate|].
  inversion Hok as [|? ? Hr Hok']; subst. fold (erase D) in Hn.
  destruct Hr as [Hg|Hp].
  - rewrite Hg in Hn. cbn [negb] in Hn. destruct (IH z Hok' Hn) as (D1 & x & D2 & z1 & -> & Hd & Hx & Hf).
    exists (r :: D1), x, D2, z1. split; [reflexivity|]. split; [|split; assumption].
    cbn [erase filter]. rewrite Hg. exact Hd.
  - assert (Hg : glue r = false).
    { destruct Hp as (_ & _ & Hnm & _). unfold glue. apply andb_false_iff. left. apply Z.ltb_ge. exact Hnm. }
    rewrite Hg in Hn. cbn [negb dels] in Hn.
    destruct (del1 (look z (rkey r)) (r_data r)) as [oe|] eqn:Hd1.
    + destruct (IH _ Hok' Hn) as (D1 & x & D2 & z1 & -> & Hd & Hx & Hf).
      exists (r :: D1), x, D2, z1. split; [reflexivity|]. split; [|split; assumption].
      cbn [erase filter]. rewrite Hg. cbn [negb dels]. rewrite Hd1. exact Hd.
    + exists [], r, D, z. split; [reflexivity|]. split; [reflexivity|]. split; assumption.
Qed.

(* Whatever the records of the sections are: if the SOA skeleton is well formed and every deletion
   applies, the transfer completes with exactly the zone the sections denote (any division into
   messages).  The transfer is only as good as the stream. *)
Theorem ixfr_sections_applied : forall fin secs z0 z' ser ws,
  secs <> [] -> skel_ok ser fin secs -> end_serial ser secs = v_serial fin -> ttl_ok (v_ttl fin) ->
  v_serial fin <> ser -> serial_lt (v_serial fin) ser = false ->
  quiet z0 -> apply_secs z0 secs = Some z' ->
  chunking tIXFR (soa_rr fin :: secs_stream secs ++ [soa_rr fin]) ws ->
  exists n, inbound_xfr z0 tIXFR (Some ser) false ws = (Done (zput soakey (v_ttl fin, [v_soa fin]) z'), n).
Proof.
  intros fin secs z0 z' ser ws Hne Hsk Hend Httl Hs Hlt Hq0 Hap Hch.
  apply chunking_first in Hch. destruct Hch as (w & ws' & a & -> & Hr & Hw & Hws & Hcat).
  pose proof (secs_run false secs z0 z0 ser fin true z' Hsk Hap Hq0) as Hl.
  assert (E : (match secs with [] => true | _ :: _ => false end) = false) by (destruct secs; [congruence|reflexivity]).
  rewrite E, Hend in Hl.
  pose proof (step_final false z0 z' fin Httl (quiet_apply_secs _ _ _ _ _ Hsk Hap Hq0)) as Hf.
  unfold inbound_xfr, xfr_run. rewrite init_ixfr. cbn [Z.eqb tIXFR Pos.eqb]. rewrite drive_cons by solve_req.
  rewrite (first_message_ixfr z0 ser false w (soa_rr fin) a Hw Hr) by (split; reflexivity).
  cbv zeta. change (r_data (soa_rr fin) mod two32) with (v_serial fin).
  apply Z.eqb_neq in Hs. rewrite Hs, Hlt. cbn [andb]. rewrite after_tcp by reflexivity.
  assert (Hrun : running (ist false z0 z0 ser (single (soa_rr fin)) true false)).
  { repeat split; try reflexivity; discriminate. }
  destruct (cont_records ws' a (ist false z0 z0 ser (single (soa_rr fin)) true false)
              (secs_stream secs) (soa_rr fin) _ _ Hrun Hws Hcat Hl eq_refl Hf eq_refl) as [n Hn].
  exists n. exact Hn.
Qed.

(* ... and if some deletion does not apply, the transfer is rejected with DeleteNotExact and the
   zone is untouched, whatever follows *)
Theorem ixfr_sections_rejected : forall fin secs tail z0 ser ws,
  skel_ok ser fin secs ->
  v_serial fin <> ser -> serial_lt (v_serial fin) ser = false ->
  quiet z0 -> apply_secs z0 secs = None ->
  chunking tIXFR (soa_rr fin :: secs_stream secs ++ tail) ws ->
  exists n, inbound_xfr z0 tIXFR (Some ser) false ws = (Error eDeleteNotExact z0, n).
Proof.
  intros fin secs tail z0 ser ws Hsk Hs Hlt Hq0 Hap Hch.
  destruct (apply_secs_none_split secs z0 Hap) as (pre & c & post & z1 & -> & Hpre & Hnone).
  destruct (skel_ok_app pre (c :: post) ser fin Hsk) as [Hskp Hskc].
  cbn [skel_ok] in Hskc. destruct Hskc as (Hser & Hne & _ & OD & _ & _).
  destruct (dels_none_split (c_dels c) z1 OD Hnone) as (D1 & x & D2 & z2 & HD & Hd1 & Hx & Hfail).
  apply chunking_first in Hch. destruct Hch as (w & ws' & a & -> & Hr & Hw & Hws & Hcat).
  unfold inbound_xfr, xfr_run. rewrite init_ixfr. cbn [Z.eqb tIXFR Pos.eqb]. rewrite drive_cons by solve_req.
  rewrite (first_message_ixfr z0 ser false w (soa_rr fin) a Hw Hr) by (split; reflexivity).
  cbv zeta. change (r_data (soa_rr fin) mod two32) with (v_serial fin).
  apply Z.eqb_neq in Hs. rewrite Hs, Hlt. cbn [andb]. rewrite after_tcp by reflexivity.
  assert (Hrun : running (ist false z0 z0 ser (single (soa_rr fin)) true false)).
  { repeat split; try reflexivity; discriminate. }
  pose proof (secs_run false pre z0 z0 ser fin true z1 Hskp Hpre Hq0) as Hl.
  assert (Hq1 : quiet z1) by (apply (quiet_apply_secs _ _ _ _ _ Hskp Hpre Hq0)).
  set (e1 := match pre with [] => true | _ :: _ => false end) in *.
  assert (OD1 : Forall okrec D1) by (rewrite HD in OD; apply Forall_app in OD; tauto).
  assert (Hl2 : loopn (ist false z0 z0 ser (single (soa_rr fin)) true false)
                  (map single (secs_stream pre ++ soa_rr (c_old c) :: D1)) =
                (ist false z0 z2 (end_serial ser pre) (single (soa_rr fin)) false true, None)).
  { rewrite map_app, loopn_app, Hl. cbn [map loopn]. rewrite <- Hser. rewrite step_del_start by exact Hne.
    rewrite (loopn_erase_dels D1 false z0 z1 z2 _ _ OD1 Hq1 Hd1). reflexivity. }
  assert (Hq2 : quiet z2) by (apply (quiet_dels _ _ _ Hd1 Hq1)).
  assert (Hbad : forall l, step l (ist false z0 z2 (end_serial ser pre) (single (soa_rr fin)) false true) (single x) =
                           (ist false z0 z2 (end_serial ser pre) (single (soa_rr fin)) false true, Some eDeleteNotExact)).
  { intros l. unfold ist. rewrite step_plain_del by assumption. rewrite Hfail. reflexivity. }
  assert (Hcat2 : exists rest, a ++ concat (map w_records ws') = (secs_stream pre ++ soa_rr (c_old c) :: D1) ++ x :: rest).
  { rewrite Hcat, secs_stream_app. cbn [secs_stream]. rewrite HD.
    eexists. rewrite <- !app_assoc. cbn [app]. rewrite <- !app_assoc. cbn [app]. reflexivity. }
  destruct Hcat2 as [rest Hcat2].
  destruct (cont_error_after ws' a _ _ x rest _ _ eDeleteNotExact Hrun Hws Hcat2 Hl2 eq_refl Hbad) as [n Hn].
  exists n. exact Hn.
Qed.

(* ---- how far a single altered / dropped record can change the outcome ---- *)
Lemma fa_skip : forall k r A1 A2 e, key_eqb (rkey r) k = false ->
  fa k e (A1 ++ r :: A2) = fa k e (A1 ++ A2).
Proof.
  intros k r A1. induction A1 as [|x A1 IH]; intros A2 e H; cbn [app].
  - rewrite fa_cons, H. reflexivity.
  - rewrite !fa_cons. apply IH, H.
Qed.

Lemma fd_skip : forall k r D1 D2 e, key_eqb (rkey r) k = false ->
  fd k e (D1 ++ r :: D2) = fd k e (D1 ++ D2).
Proof.
  intros k r D1. induction D1 as [|x D1 IH]; intros D2 e H; cbn [app fd].
  - rewrite H. reflexivity.
  - destruct (key_eqb (rkey x) k); [|apply IH, H].
    destruct (del1 e (r_data x)); cbn [bindo]; [apply IH, H|reflexivity].
Qed.

(* an addition a replaced by another record a' (last section): the denoted zones agree everywhere
   except at the two RRsets concerned *)
Lemma adds_altered : forall z A1 a a' A2 k, rkey a <> k -> rkey a' <> k ->
  look (adds z (A1 ++ a' :: A2)) k = look (adds z (A1 ++ a :: A2)) k.
Proof.
  intros z A1 a a' A2 k Ha Ha'. rewrite !look_adds_fa.
  rewrite !fa_skip by (apply key_eqb_neq; assumption). reflexivity.
Qed.

(* a deletion d that is dropped from the stream: if both streams apply, the zones after the deletions
   agree everywhere except at d's RRset *)
Lemma dels_dropped : forall z D1 d D2 z1 z2 k, rkey d <> k ->
  dels z (D1 ++ d :: D2) = Some z1 -> dels z (D1 ++ D2) = Some z2 -> look z2 k = look z1 k.
Proof.
  intros z D1 d D2 z1 z2 k Hd H1 H2.
  pose proof (look_dels_fd _ _ _ H1 k) as F1. pose proof (look_dels_fd _ _ _ H2 k) as F2.
  rewrite fd_skip in F1 by (apply key_eqb_neq; exact Hd). rewrite F1 in F2. inversion F2; reflexivity.
Qed.

Definition set_adds (c : sect) (A : list rr) : sect := mkSect (c_old c) (c_dels c) (c_new c) A.

(* the whole-transfer form: the last section's addition a is received as a' *)
Theorem ixfr_altered_addition : forall fin pre c A1 a a' A2 z0 z1 z2 ser ws1 ws2,
  c_adds c = A1 ++ a :: A2 -> plain a -> plain a' ->
  skel_ok ser fin (pre ++ [c]) -> end_serial ser (pre ++ [c]) = v_serial fin -> ttl_ok (v_ttl fin) ->
  v_serial fin <> ser -> serial_lt (v_serial fin) ser = false -> quiet z0 ->
  apply_secs z0 (pre ++ [c]) = Some z1 ->
  apply_secs z0 (pre ++ [set_adds c (A1 ++ a' :: A2)]) = Some z2 ->
  chunking tIXFR (soa_rr fin :: secs_stream (pre ++ [c]) ++ [soa_rr fin]) ws1 ->
  chunking tIXFR (soa_rr fin :: secs_stream (pre ++ [set_adds c (A1 ++ a' :: A2)]) ++ [soa_rr fin]) ws2 ->
  exists zf1 zf2 n1 n2,
    inbound_xfr z0 tIXFR (Some ser) false ws1 = (Done zf1, n1) /\
    inbound_xfr z0 tIXFR (Some ser) false ws2 = (Done zf2, n2) /\
    forall k, rkey a <> k -> rkey a' <> k -> look zf2 k = look zf1 k.
Proof.
  intros fin pre c A1 a a' A2 z0 z1 z2 ser ws1 ws2 HA Hpa Hpa' Hsk Hend Httl Hs Hlt Hq0 Hap1 Hap2 Hc1 Hc2.
  assert (Hsk2 : skel_ok ser fin (pre ++ [set_adds c (A1 ++ a' :: A2)])).
  { clear - Hsk HA Hpa'. revert ser Hsk. induction pre as [|p pre IH]; intros ser Hsk; cbn [app skel_ok] in *.
    - destruct Hsk as (H1 & H2 & H3 & H4 & H5 & H6).
      split; [exact H1|]. split; [exact H2|]. split; [exact H3|]. split; [exact H4|]. split; [|exact H6].
      cbn [set_adds c_adds]. rewrite HA in H5. apply Forall_app in H5. destruct H5 as [F1 F2].
      inversion F2; subst. apply Forall_app. split; [exact F1|]. constructor; [right; exact Hpa'|assumption].
    - destruct Hsk as (H1 & H2 & H3 & H4 & H5 & H6).
      split; [exact H1|]. split; [exact H2|]. split; [exact H3|]. split; [exact H4|]. split; [exact H5|].
      apply IH, H6. }
  assert (Hend2 : end_serial ser (pre ++ [set_adds c (A1 ++ a' :: A2)]) = v_serial fin).
  { rewrite <- Hend. clear. revert ser. induction pre as [|p pre IH]; intros ser; cbn [app end_serial]; [reflexivity|apply IH]. }
  assert (N1 : pre ++ [c] <> []) by (destruct pre; discriminate).
  assert (N2 : pre ++ [set_adds c (A1 ++ a' :: A2)] <> []) by (destruct pre; discriminate).
  destruct (ixfr_sections_applied fin _ z0 z1 ser ws1 N1 Hsk Hend Httl Hs Hlt Hq0 Hap1 Hc1) as [n1 R1].
  destruct (ixfr_sections_applied fin _ z0 z2 ser ws2 N2 Hsk2 Hend2 Httl Hs Hlt Hq0 Hap2 Hc2) as [n2 R2].
  eexists. eexists. exists n1, n2. split; [exact R1|]. split; [exact R2|].
  intros k Hk Hk'. rewrite !look_zput. destruct (key_eqb k soakey); [reflexivity|].
  (* the two denotations differ only in the additions of the last section *)
  clear - Hap1 Hap2 HA Hk Hk' Hpa Hpa'.
  revert z0 Hap1 Hap2. induction pre as [|p pre IH]; intros z0 Hap1 Hap2; cbn [app apply_secs] in *.
  - cbn [set_adds c_dels c_new c_adds] in Hap2.
    destruct (dels z0 (erase (c_dels c))) as [zd|]; [|discriminate].
    inversion Hap1; inversion Hap2; subst. rewrite HA.
    assert (Ga : glue a = false) by (destruct Hpa as (_ & _ & Hn & _); unfold glue; apply andb_false_iff; left; apply Z.ltb_ge; exact Hn).
    assert (Ga' : glue a' = false) by (destruct Hpa' as (_ & _ & Hn & _); unfold glue; apply andb_false_iff; left; apply Z.ltb_ge; exact Hn).
    rewrite !erase_app. cbn [erase filter]. rewrite Ga, Ga'. cbn [negb]. fold (erase A2).
    apply adds_altered; assumption.
  - destruct (dels z0 (erase (c_dels p))) as [zd|]; [|discriminate]. eapply IH; eassumption.
Qed.
