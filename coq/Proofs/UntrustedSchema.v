(* C04 for EVERY record type of the generated rdtypes table: the generic schema decoder of C02
   (Model/SchemaM.v: Parser + restrict_to + cls.from_wire_parser + constructor + wrapper) on
   arbitrary octets returns a record that consumed exactly rdlen, or a FormError-family error;
   and every record it returns can be rendered to wire again. *)
From DV Require Import Base.Prelude Model.NameM Model.SchemaM Model.UntrustedM
                       Proofs.NameValid Proofs.SchemaCodec Proofs.SchemaThm Proofs.SchemaFix
                       Proofs.SchemaTable Proofs.SchemaTotal.
From DV Require Proofs.NameWire Proofs.ParserSafe.
Open Scope Z_scope.

(* every library error is in the FormError family *)
Definition FormOnly {A} (r : res A) : Prop := forall e, r = Lib e -> is_form e = true.

Lemma fo_ok {A} (a : A) : FormOnly (Ok a).
Proof. intros e H; discriminate. Qed.
Lemma fo_form {A} : FormOnly (@Lib A eFormError).
Proof. intros e H; inversion H; reflexivity. Qed.
Lemma fo_internal {A} x : FormOnly (@Internal A x).
Proof. intros e H; discriminate. Qed.
Lemma fo_bind {A B} (r : res A) (k : A -> res B) :
  FormOnly r -> (forall a, FormOnly (k a)) -> FormOnly (bind r k).
Proof.
  intros Hr Hk e H. destruct r as [a|e'|x]; cbn [bind] in H.
  - eapply Hk; eauto.
  - inversion H; subst. apply Hr. reflexivity.
  - discriminate.
Qed.

(* ---------- dns.name.from_wire (the NameM model used by the schema decoder) ---------- *)
Definition short (l : label) : Prop := 0 < zlen l < 64.

Lemma fw_go_shape wire : ParserSafe.bytes_ok wire -> forall fuel p big acc,
  Forall short acc ->
  match NameM.fw_go wire fuel p big acc with
  | Ok (ls, _) => exists body, ls = body ++ [[]] /\ Forall short body
  | Lib e => e = eFormError \/ e = eBadPointer \/ e = eBadLabelType
  | Internal _ => True
  end.
Proof.
  intros Hw. induction fuel as [|f IH]; intros p big acc Hacc; cbn [NameM.fw_go]; [exact Logic.I|].
  destruct (NameM.get_u8 wire p) as [[count p1]|e|e] eqn:E1.
  2:{ unfold NameM.get_u8, NameM.get_bytes in E1.
      destruct (Nat.ltb _ _) in E1; [inversion E1; auto|].
      destruct (firstn 1 _) as [|? [|? ?]] in E1; inversion E1; auto. }
  2:{ exact Logic.I. }
  destruct (count =? 0) eqn:E0.
  { exists (rev acc). split; [cbn; reflexivity|]. apply Forall_rev; auto. }
  destruct (count <? 64) eqn:E64.
  { destruct (NameM.get_bytes wire p1 (Z.to_nat count)) as [[l p2]|e|e] eqn:E2.
    - apply NameWire.get_bytes_inv in E2 as (Hn & Hl & _).
      apply NameWire.get_u8_inv in E1 as (_ & Hnth & _). apply nth_error_In in Hnth.
      eapply Forall_forall in Hnth; [|exact Hw]. cbn beta in Hnth.
      apply IH. constructor; auto. unfold short, zlen. subst l.
      rewrite firstn_length, skipn_length. lia.
    - unfold NameM.get_bytes in E2. destruct (Nat.ltb _ _) in E2; inversion E2; auto.
    - exact Logic.I. }
  destruct (192 <=? count) eqn:E192; [|auto].
  destruct (NameM.get_u8 wire p1) as [[lo p2]|e|e] eqn:E3.
  2:{ unfold NameM.get_u8, NameM.get_bytes in E3.
      destruct (Nat.ltb _ _) in E3; [inversion E3; auto|].
      destruct (firstn 1 _) as [|? [|? ?]] in E3; inversion E3; auto. }
  2:{ exact Logic.I. }
  destruct (Nat.leb big _); [auto|].
  destruct (Nat.ltb _ _); [auto|].
  apply IH. exact Hacc.
Qed.

Lemma labels_name body :
  Forall short body ->
  mk_name (body ++ [[]]) = Ok (body ++ [[]]) \/ mk_name (body ++ [[]]) = Lib eNameTooLong.
Proof.
  intros Hb. apply (ParserSafe.wire_labels_name body).
  eapply Forall_impl; [|exact Hb]. intros l H. exact H.
Qed.

(* a valid absolute name, or FormError / BadPointer / BadLabelType / NameTooLong *)
Lemma nm_from_wire_family wire start :
  ParserSafe.bytes_ok wire ->
  match NameM.from_wire wire start with
  | Ok (n, _) => Valid n
  | Lib e => is_form e = true
  | Internal _ => False
  end.
Proof.
  intros Hw. pose proof (NameWire.from_wire_total wire start) as NI.
  unfold NameM.from_wire in *.
  destruct (Nat.ltb (length wire) start); [reflexivity|].
  pose proof (fw_go_shape wire Hw (NameM.fw_fuel wire start) {| cur := start; furthest := start |} start [] (Forall_nil _)) as S.
  destruct (NameM.fw_go wire (NameM.fw_fuel wire start) {| cur := start; furthest := start |} start []) as [[ls p]|e|e].
  - destruct S as (body & -> & Hb).
    destruct (labels_name body Hb) as [E|E]; unfold label in *; rewrite E; cbn [bind].
    + apply mk_name_ok in E. tauto.
    + reflexivity.
  - destruct S as [-> | [-> | ->]]; reflexivity.
  - exfalso. eapply NI; reflexivity.
Qed.

(* ---------- field by field ---------- *)
Section Fields.
Variable w : list Z.
Hypothesis Hw : ParserSafe.bytes_ok w.

Lemma fo_get_bytes e c n : FormOnly (SchemaM.get_bytes w e c n).
Proof. unfold SchemaM.get_bytes. destruct (Nat.ltb (e - c) n); [apply fo_form|apply fo_ok]. Qed.

Lemma relativize_valid_ok n o : Valid n -> exists m, relativize n o = Ok m.
Proof.
  intros V. unfold relativize. destruct (is_subdomain n o); [|eauto].
  assert (V' : Valid (drop_last (length o) n)).
  { unfold drop_last. apply (Valid_prefix _ (skipn (length n - length o) n)).
    rewrite firstn_skipn. exact V. }
  eexists. apply mk_name_valid. exact V'.
Qed.

Lemma fo_get_name o rel e c : FormOnly (SchemaM.get_name w o rel e c).
Proof.
  unfold SchemaM.get_name. pose proof (nm_from_wire_family (firstn e w) c (ParserSafe.bytes_ok_firstn w e Hw)) as F.
  destruct (NameM.from_wire (firstn e w) c) as [[n k]|e'|x].
  - destruct (if rel then o else None) as [[|y o']|]; try apply fo_ok.
    destruct (relativize_valid_ok n (y :: o') F) as [m ->]. cbn [bind]. apply fo_ok.
  - intros e0 H. inversion H; subst. exact F.
  - contradiction.
Qed.

Lemma fo_dec_s o f e c : FormOnly (dec_s w o f e c).
Proof.
  destruct f as [wd m|n|wd lo hi|rel]; cbn [dec_s].
  - apply fo_bind; [apply fo_get_bytes|intros; apply fo_ok].
  - apply fo_bind; [apply fo_get_bytes|intros; apply fo_ok].
  - apply fo_bind; [apply fo_get_bytes|]. intros lc.
    apply fo_bind; [apply fo_get_bytes|intros; apply fo_ok].
  - apply fo_bind; [apply fo_get_name|intros; apply fo_ok].
Qed.

Lemma fo_dec_row o : forall fs e c, FormOnly (dec_row w o fs e c).
Proof.
  induction fs as [|f fr IH]; intros e c; cbn [dec_row]; [apply fo_ok|].
  apply fo_bind; [apply fo_dec_s|]. intros vc.
  apply fo_bind; [apply IH|intros; apply fo_ok].
Qed.

Lemma fo_dec_rows o row : forall fuel e c, FormOnly (dec_rows w o fuel row e c).
Proof.
  induction fuel as [|f IH]; intros e c; cbn [dec_rows].
  - destruct (Nat.leb e c); [apply fo_ok|apply fo_internal].
  - destruct (Nat.leb e c); [apply fo_ok|].
    apply fo_bind; [apply fo_dec_row|]. intros rc.
    apply fo_bind; [apply IH|intros; apply fo_ok].
Qed.

Lemma fo_dec_f o f e c : FormOnly (dec_f w o f e c).
Proof.
  destruct f as [s|lo|n|hi|m a row]; cbn [dec_f].
  - apply fo_bind; [apply fo_dec_s|intros; apply fo_ok].
  - apply fo_bind; [apply fo_get_bytes|intros; apply fo_ok].
  - apply fo_bind; [apply fo_get_bytes|intros; apply fo_ok].
  - destruct (Nat.ltb c e); [|apply fo_ok].
    apply fo_bind; [apply fo_dec_s|intros; apply fo_ok].
  - apply fo_bind; [apply fo_dec_rows|intros; apply fo_ok].
Qed.

Lemma fo_dec_fields o : forall fs e c, FormOnly (dec_fields w o fs e c).
Proof.
  induction fs as [|f fr IH]; intros e c; cbn [dec_fields]; [apply fo_ok|].
  apply fo_bind; [apply fo_dec_f|]. intros vc.
  apply fo_bind; [apply IH|intros; apply fo_ok].
Qed.

End Fields.

(* ---------- dns.rdata.from_wire for a schema type ---------- *)
Theorem schema_from_wire_family o fs ck wire cur rdlen :
  ParserSafe.bytes_ok wire -> schema_wf fs = true ->
  match decode_rdata o fs ck wire cur rdlen with
  | Ok vs =>
      validate fs ck vs = true /\ (cur + rdlen <= length wire)%nat /\
      dec_fields wire o fs (cur + rdlen) cur = Ok (vs, (cur + rdlen)%nat)
  | Lib e => is_form e = true
  | Internal _ => False
  end.
Proof.
  intros Hw Hwf.
  pose proof (decode_never_internal_thm o fs ck wire cur rdlen) as NI.
  destruct (decode_rdata o fs ck wire cur rdlen) as [vs|e|x] eqn:E.
  - split; [eapply decode_validates; eauto|]. eapply SchemaThm.exact_consumption; eauto.
  - revert E. unfold decode_rdata.
    destruct (Nat.ltb (length wire) cur); [intros H; inversion H; reflexivity|].
    destruct (Nat.ltb (length wire - cur) rdlen); [intros H; inversion H; reflexivity|]. cbv zeta.
    pose proof (fo_dec_fields wire Hw o fs (cur + rdlen)%nat cur) as F.
    destruct (dec_fields wire o fs (cur + rdlen) cur) as [[vs c]|e'|x]; cbn [bind fst snd].
    + destruct (negb (validate fs ck vs)); [intros H; inversion H; reflexivity|].
      destruct (Nat.eqb c (cur + rdlen)); intros H; inversion H; reflexivity.
    + intros H; inversion H; subst. apply F. reflexivity.
    + discriminate.
  - exfalso. eapply NI; eauto.
Qed.

(* ---------- every entry of a table read from dns/rdtypes/** ---------- *)
Lemma find_entry_in c t : forall tbl e, find_entry c t tbl = Some e -> In e tbl.
Proof.
  induction tbl as [|x r IH]; intros e H; cbn in H; [discriminate|].
  destruct ((e_class x =? c) && (e_type x =? t)); [inversion H; left; reflexivity|right; auto].
Qed.

(* get_rdata_class(rdclass, rdtype): an entry of the table, or GenericRdata *)
Lemma lookup_cases tbl c t :
  (exists e, In e tbl /\ lookup tbl c t = e_codec e) \/ lookup tbl c t = generic_codec.
Proof.
  unfold lookup. destruct (find_entry c t tbl) as [e|] eqn:E1.
  - left. exists e. split; [eapply find_entry_in; eauto|reflexivity].
  - destruct (find_entry 255 t tbl) as [e|] eqn:E2.
    + left. exists e. split; [eapply find_entry_in; eauto|reflexivity].
    + right. reflexivity.
Qed.

(* dns.rdata.from_wire(rdclass, rdtype, wire, cur, rdlen) for the reader side r of an entry:
   a record that passed the constructor, consumed exactly rdlen and can be rendered to wire
   again (its own to_wire exists) - or a FormError-family error; never a Python-level exception *)
Theorem entry_from_wire_family e w r ck wire cur rdlen :
  ParserSafe.bytes_ok wire -> entry_ok e = true -> e_codec e = CSchema w r ck ->
  match decode_rdata None (map fst r) ck wire cur rdlen with
  | Ok vs =>
      (cur + rdlen <= length wire)%nat /\
      exists w', encode_rdata None (map fst w) ck vs = Ok w' /\
                 decode_rdata None (map fst r) ck w' 0 (length w') = Ok vs
  | Lib x => is_form x = true
  | Internal _ => False
  end.
Proof.
  intros Hw Hok Hc.
  rewrite (entry_ok_decode e w r ck wire cur rdlen Hok Hc).
  pose proof (schema_from_wire_family None (map fst w) ck wire cur rdlen Hw (entry_ok_wf e w r ck Hok Hc)) as F.
  destruct (decode_rdata None (map fst w) ck wire cur rdlen) as [vs|x|x] eqn:E; auto.
  destruct F as (_ & Hlen & _). split; [exact Hlen|].
  destruct (schema_fixed_point_none _ _ _ _ _ _ (entry_ok_wf e w r ck Hok Hc) E) as (w' & H1 & H2 & _).
  exists w'. split; [exact H1|]. rewrite (entry_ok_decode e w r ck _ _ _ Hok Hc). exact H2.
Qed.

Theorem table_from_wire_family tbl c t w r ck wire cur rdlen :
  ParserSafe.bytes_ok wire -> forallb entry_ok tbl = true -> lookup tbl c t = CSchema w r ck ->
  match decode_rdata None (map fst r) ck wire cur rdlen with
  | Ok vs =>
      (cur + rdlen <= length wire)%nat /\
      exists w', encode_rdata None (map fst w) ck vs = Ok w' /\
                 decode_rdata None (map fst r) ck w' 0 (length w') = Ok vs
  | Lib x => is_form x = true
  | Internal _ => False
  end.
Proof.
  intros Hw Ht Hl. destruct (lookup_cases tbl c t) as [(e & Hin & He)|Hg].
  - rewrite forallb_forall in Ht. apply (entry_from_wire_family e w r ck wire cur rdlen Hw (Ht e Hin)). congruence.
  - apply (entry_from_wire_family (mk_ent 0 0 generic_codec) w r ck wire cur rdlen Hw generic_entry_ok).
    cbn [e_codec]. congruence.
Qed.
