(* Rdataset / ImmutableRdataset / RRset of Model/SetM.v: refusals, singleton types, the set
   algebra through the Rdataset overrides, and the invariants of every reachable state. *)
From DV Require Import Base.Prelude Model.SetM Proofs.SetAlg Proofs.SetRdata Proofs.SetMachine.
Open Scope Z_scope.

(* ---------- field lemmas ---------- *)

Lemma update_ttl_fields s t :
  kd (update_ttl s t) = kd s /\ cls (update_ttl s t) = cls s /\ typ (update_ttl s t) = typ s /\
  cov (update_ttl s t) = cov s /\ items (update_ttl s t) = items s /\
  oname (update_ttl s t) = oname s /\ deleting (update_ttl s t) = deleting s.
Proof.
  unfold update_ttl. destruct (isempty s); [repeat split|].
  destruct (t <? ttl s); repeat split.
Qed.

Lemma update_ttl_ttl s t :
  ttl (update_ttl s t) = if isempty s then t else Z.min (ttl s) t.
Proof.
  unfold update_ttl. destruct (isempty s); [reflexivity|].
  destruct (Z.ltb_spec t (ttl s)); cbn; lia.
Qed.

Lemma update_ttl_isempty s t : isempty (update_ttl s t) = isempty s.
Proof. unfold isempty. destruct (update_ttl_fields s t) as (_&_&_&_&->&_). reflexivity. Qed.

Lemma update_ttl_self s : update_ttl s (ttl s) = s.
Proof.
  unfold update_ttl. destruct (isempty s); [destruct s; reflexivity|].
  rewrite Z.ltb_irrefl. reflexivity.
Qed.

(* ---------- well-formed rdatasets ---------- *)

Record wf (s : rds) : Prop := mkWf {
  wf_nd : ND (items s);
  wf_ct : forall x, In x (items s) -> rcls x = cls s /\ rtyp x = typ s;
  wf_cov : is_sigtype (typ s) = true -> forall x, In x (items s) -> rcov x = cov s;
  wf_single : is_singleton (typ s) = true -> (length (items s) <= 1)%nat
}.

Lemma wf_empty k c t v tt n d : wf (mkRds k c t v tt [] n d).
Proof. constructor; cbn; try (intros; contradiction); try constructor. intros; lia. Qed.

Lemma wf_update_ttl s t : wf s -> wf (update_ttl s t).
Proof.
  intros [H1 H2 H3 H4]. destruct (update_ttl_fields s t) as (_&Ec&Et&Ev&Ei&_).
  constructor; rewrite ?Ec, ?Et, ?Ev, ?Ei; assumption.
Qed.

(* wf only looks at class, type, covers and the members *)
Lemma wf_ext s s' :
  cls s' = cls s -> typ s' = typ s -> cov s' = cov s -> items s' = items s -> wf s -> wf s'.
Proof.
  intros Ec Et Ev Ei [H1 H2 H3 H4]. constructor; rewrite ?Ec, ?Et, ?Ev, ?Ei; assumption.
Qed.

Lemma In_sadd x y s : In x (sadd rd_eqb y s) -> In x s \/ x = y.
Proof.
  unfold sadd. destruct (mem rd_eqb y s); [auto|]. rewrite in_app_iff. cbn. intuition.
Qed.

Lemma In_filter_sub {A} f (x : A) l : In x (filter f l) -> In x l.
Proof. intros H. apply filter_In in H. tauto. Qed.

Lemma In_sdel x y s : In x (sdel rd_eqb y s) -> In x s.
Proof.
  induction s as [|k r IH]; cbn; [auto|]. destruct (rd_eqb k y); cbn; intuition.
Qed.

Lemma length_sdel_le y s : (length (sdel rd_eqb y s) <= length s)%nat.
Proof. induction s as [|k r IH]; cbn; [lia|]. destruct (rd_eqb k y); cbn; lia. Qed.

(* removing members keeps an rdataset well-formed *)
Lemma wf_sub s l :
  wf s -> ND l -> (forall x, In x l -> In x (items s)) -> (length l <= length (items s))%nat ->
  wf (with_items s l).
Proof.
  intros [H1 H2 H3 H4] Hl Hsub Hlen. constructor; cbn; auto.
  intros Hs. specialize (H4 Hs). lia.
Qed.

(* ---------- Rdataset.add ---------- *)

Definition compat (s : rds) (rd : rdata) : Prop := rcls rd = cls s /\ rtyp rd = typ s.

(* the covers check passes *)
Definition cov_ok (s : rds) (rd : rdata) : Prop :=
  is_sigtype (typ s) = false \/ (isempty s = true /\ cov s = 0) \/ cov s = rcov rd.

Definition merged_ttl (s : rds) (ottl : option Z) : Z :=
  match ottl with
  | Some t => if isempty s then t else Z.min (ttl s) t
  | None => ttl s
  end.

Lemma compat_dec s rd : {compat s rd} + {~ compat s rd}.
Proof.
  unfold compat. destruct (Z.eq_dec (rcls rd) (cls s)), (Z.eq_dec (rtyp rd) (typ s)); tauto.
Qed.

(* a record of a different class or type is refused and nothing at all changes *)
Theorem radd_refuses_type s rd ottl :
  ~ compat s rd -> radd s rd ottl = (s, Lib eIncompatibleTypes).
Proof.
  intros H. unfold radd.
  destruct (cls s =? rcls rd) eqn:E1; [|reflexivity].
  destruct (typ s =? rtyp rd) eqn:E2; [|reflexivity].
  apply Z.eqb_eq in E1, E2. exfalso. apply H. split; congruence.
Qed.

Lemma radd_compat_unfold s rd ottl :
  compat s rd ->
  radd s rd ottl =
    let s1 := match ottl with Some t => update_ttl s t | None => s end in
    let chk : rds * res unit :=
      if is_sigtype (typ s1) then
        if isempty s1 && (cov s1 =? 0) then (with_cov s1 (rcov rd), Ok tt)
        else if negb (cov s1 =? rcov rd) then (s1, Lib eDifferingCovers)
        else (s1, Ok tt)
      else (s1, Ok tt) in
    match chk with
    | (s2, Ok _) =>
        let s3 := if is_singleton (rtyp rd) && negb (isempty s2) then with_items s2 [] else s2 in
        (with_items s3 (sadd rd_eqb rd (items s3)), Ok tt)
    | (s2, Lib e) => (s2, Lib e)
    | (s2, Internal e) => (s2, Internal e)
    end.
Proof.
  intros [Hc Ht]. unfold radd. rewrite Hc, Ht, !Z.eqb_refl. reflexivity.
Qed.

Lemma s1_fields s ottl :
  let s1 := match ottl with Some t => update_ttl s t | None => s end in
  kd s1 = kd s /\ cls s1 = cls s /\ typ s1 = typ s /\ cov s1 = cov s /\ items s1 = items s /\
  oname s1 = oname s /\ deleting s1 = deleting s /\ isempty s1 = isempty s /\
  ttl s1 = merged_ttl s ottl.
Proof.
  destruct ottl as [t|]; cbn.
  - destruct (update_ttl_fields s t) as (A&B&C&D&F&G&H).
    repeat split; auto using update_ttl_isempty, update_ttl_ttl.
  - repeat split.
Qed.

(* a signature covering another type is refused: members, class, type, covers unchanged; the
   TTL has already been minimised, exactly as in the code *)
Theorem radd_refuses_covers s rd ottl :
  compat s rd -> ~ cov_ok s rd ->
  radd s rd ottl = (match ottl with Some t => update_ttl s t | None => s end, Lib eDifferingCovers).
Proof.
  intros Hc Hn. rewrite radd_compat_unfold by exact Hc. cbv zeta.
  destruct (s1_fields s ottl) as (_&_&Et&Ev&_&_&_&Ee&_). cbv zeta in *.
  rewrite Et, Ee, Ev.
  unfold cov_ok in Hn.
  destruct (is_sigtype (typ s)); [|exfalso; apply Hn; auto].
  destruct (isempty s) eqn:E1; cbn [andb].
  - destruct (cov s =? 0) eqn:E2.
    + apply Z.eqb_eq in E2. exfalso. apply Hn. auto.
    + destruct (cov s =? rcov rd) eqn:E3; cbn [negb]; [|reflexivity].
      apply Z.eqb_eq in E3. exfalso. apply Hn. auto.
  - destruct (cov s =? rcov rd) eqn:E3; cbn [negb]; [|reflexivity].
    apply Z.eqb_eq in E3. exfalso. apply Hn. auto.
Qed.

(* an acceptable record is added; a singleton type keeps exactly the newest record *)
Theorem radd_accepts s rd ottl :
  compat s rd -> cov_ok s rd ->
  exists s', radd s rd ottl = (s', Ok tt) /\
    items s' = (if is_singleton (typ s) then [rd] else sadd rd_eqb rd (items s)) /\
    ttl s' = merged_ttl s ottl /\
    kd s' = kd s /\ cls s' = cls s /\ typ s' = typ s /\
    oname s' = oname s /\ deleting s' = deleting s /\
    cov s' = (if is_sigtype (typ s) && isempty s && (cov s =? 0) then rcov rd else cov s).
Proof.
  intros Hc Hok. rewrite radd_compat_unfold by exact Hc. cbv zeta.
  destruct (s1_fields s ottl) as (Ek&Ec&Et&Ev&Ei&En&Ed&Ee&Ettl). cbv zeta in *.
  set (s1 := match ottl with Some t => update_ttl s t | None => s end) in *.
  destruct Hc as [Hcls Htyp]. rewrite Htyp.
  assert (Hsing : forall s2, items s2 = items s -> isempty s2 = isempty s ->
            items (if is_singleton (typ s) && negb (isempty s2) then with_items s2 [] else s2)
            = if is_singleton (typ s) && negb (isempty s) then [] else items s).
  { intros s2 H1 H2. rewrite H2. destruct (is_singleton (typ s) && negb (isempty s)); cbn; auto. }
  assert (Hres : forall s2,
            items s2 = items s -> isempty s2 = isempty s ->
            sadd rd_eqb rd (items (if is_singleton (typ s) && negb (isempty s2) then with_items s2 [] else s2))
            = (if is_singleton (typ s) then [rd] else sadd rd_eqb rd (items s))).
  { intros s2 H1 H2. rewrite (Hsing s2 H1 H2).
    destruct (is_singleton (typ s)); cbn [andb]; [|reflexivity].
    unfold isempty. destruct (items s); reflexivity. }
  rewrite Et, Ee, Ev.
  destruct (is_sigtype (typ s)) eqn:Esig; cbn [andb].
  - destruct (isempty s && (cov s =? 0)) eqn:E1.
    + eexists. split; [reflexivity|].
      assert (Hi : items (with_cov s1 (rcov rd)) = items s) by (cbn; exact Ei).
      assert (He : isempty (with_cov s1 (rcov rd)) = isempty s) by (unfold isempty; rewrite Hi; reflexivity).
      cbn [items with_items]. rewrite (Hres _ Hi He).
      split; [reflexivity|].
      destruct (is_singleton (typ s) && negb (isempty (with_cov s1 (rcov rd)))); cbn;
        repeat split; auto.
    + destruct (cov s =? rcov rd) eqn:E3; cbn [negb].
      * eexists. split; [reflexivity|].
        cbn [items with_items]. rewrite (Hres _ Ei Ee). split; [reflexivity|].
        destruct (is_singleton (typ s) && negb (isempty s1)); cbn; repeat split; auto.
      * exfalso. destruct Hok as [H|[[H1 H2]|H]]; [congruence| |].
        -- rewrite H1, H2 in E1. discriminate.
        -- rewrite H, Z.eqb_refl in E3. discriminate.
  - eexists. split; [reflexivity|].
    cbn [items with_items]. rewrite (Hres _ Ei Ee). split; [reflexivity|].
    destruct (is_singleton (typ s) && negb (isempty s1)); cbn; repeat split; auto.
Qed.

Lemma cov_ok_dec s rd : {cov_ok s rd} + {~ cov_ok s rd}.
Proof.
  unfold cov_ok.
  destruct (is_sigtype (typ s)); [|left; auto].
  destruct (isempty s), (Z.eq_dec (cov s) 0), (Z.eq_dec (cov s) (rcov rd));
    try (left; tauto); right; intros [H|[[H1 H2]|H]]; congruence.
Qed.

(* Rdataset.add succeeds exactly on records of the set's class, type and covered type *)
Theorem radd_ok_iff s rd ottl :
  snd (radd s rd ottl) = Ok tt <-> compat s rd /\ cov_ok s rd.
Proof.
  split.
  - intros H. destruct (compat_dec s rd) as [Hc|Hc].
    + destruct (cov_ok_dec s rd) as [Ho|Ho]; [auto|].
      rewrite (radd_refuses_covers s rd ottl Hc Ho) in H. discriminate.
    + rewrite (radd_refuses_type s rd ottl Hc) in H. discriminate.
  - intros [Hc Ho]. destruct (radd_accepts s rd ottl Hc Ho) as (s' & E & _). rewrite E. reflexivity.
Qed.

(* every failure of add leaves the members (and class, type, covers) as they were *)
Theorem radd_failure_keeps_members s rd ottl :
  snd (radd s rd ottl) <> Ok tt ->
  items (fst (radd s rd ottl)) = items s /\ cls (fst (radd s rd ottl)) = cls s /\
  typ (fst (radd s rd ottl)) = typ s /\ cov (fst (radd s rd ottl)) = cov s.
Proof.
  intros H. destruct (compat_dec s rd) as [Hc|Hc].
  - destruct (cov_ok_dec s rd) as [Ho|Ho].
    + exfalso. apply H. apply radd_ok_iff. auto.
    + rewrite (radd_refuses_covers s rd ottl Hc Ho). cbn [fst].
      destruct (s1_fields s ottl) as (_&Ec&Et&Ev&Ei&_). cbv zeta in *. auto.
  - rewrite (radd_refuses_type s rd ottl Hc). cbn. auto.
Qed.

Lemma wf_radd s rd ottl : wf s -> wf (fst (radd s rd ottl)).
Proof.
  intros Hwf. destruct (compat_dec s rd) as [Hc|Hc].
  2:{ rewrite (radd_refuses_type s rd ottl Hc). exact Hwf. }
  destruct (cov_ok_dec s rd) as [Ho|Ho].
  2:{ rewrite (radd_refuses_covers s rd ottl Hc Ho). cbn [fst].
      destruct ottl; [apply wf_update_ttl|]; exact Hwf. }
  destruct (radd_accepts s rd ottl Hc Ho) as (s' & E & Ei & _ & _ & Ec & Et & _ & _ & Ev).
  rewrite E. cbn [fst]. destruct Hwf as [H1 H2 H3 H4]. destruct Hc as [Hcls Htyp].
  constructor; rewrite ?Ec, ?Et, ?Ei.
  - destruct (is_singleton (typ s)); [repeat constructor|apply ND_sadd, H1].
  - intros x Hx. assert (In x (items s) \/ x = rd) as [Hin| ->]; auto.
    destruct (is_singleton (typ s)); [cbn in Hx; intuition|apply In_sadd, Hx].
  - intros Hs x Hx. rewrite Ev, Hs. cbn [andb].
    assert (In x (items s) \/ x = rd) as [Hin| ->].
    { destruct (is_singleton (typ s)); [cbn in Hx; intuition|apply In_sadd, Hx]. }
    + assert (isempty s = false) as -> by (unfold isempty; destruct (items s); [contradiction|reflexivity]).
      cbn. apply H3; assumption.
    + destruct (isempty s && (cov s =? 0)) eqn:E1; [reflexivity|].
      destruct Ho as [Ho|[[Ho1 Ho2]|Ho]]; [congruence| |auto].
      rewrite Ho1, Ho2 in E1. discriminate.
  - intros Hs. rewrite Hs. cbn. lia.
Qed.

(* ---------- for item in other: self.add(item) ---------- *)

Lemma wf_radd_all l s : wf s -> wf (fst (radd_all s l)).
Proof.
  revert s. induction l as [|x l IH]; intros s H; cbn; [exact H|].
  pose proof (wf_radd s x None H) as H1.
  destruct (radd s x None) as [s' [[]| |]]; cbn in *; auto.
Qed.

(* merging a list of records that all fit, into a non-singleton rdataset: Set.update *)
Lemma radd_all_ok l : forall s c,
  is_singleton (typ s) = false ->
  (forall x, In x l -> compat s x) ->
  (is_sigtype (typ s) = true -> (forall x, In x l -> rcov x = c) /\
                                (cov s = c \/ (isempty s = true /\ cov s = 0))) ->
  exists s', radd_all s l = (s', Ok tt) /\
    items s' = supdate rd_eqb (items s) l /\ ttl s' = ttl s /\ kd s' = kd s /\
    cls s' = cls s /\ typ s' = typ s /\ oname s' = oname s /\ deleting s' = deleting s /\
    (is_sigtype (typ s) = false -> cov s' = cov s) /\
    (is_sigtype (typ s) = true -> cov s' = match l with [] => cov s | _ :: _ => c end).
Proof.
  induction l as [|x l IH]; intros s c Hns Hc Hsig.
  - exists s. cbn. repeat split; auto.
  - assert (Hcx : compat s x) by (apply Hc; left; reflexivity).
    assert (Hox : cov_ok s x).
    { unfold cov_ok. destruct (is_sigtype (typ s)) eqn:E; [|auto]. right.
      destruct (Hsig eq_refl) as [Hall [H|H]]; [right|left; exact H].
      rewrite H. symmetry. apply Hall. left. reflexivity. }
    destruct (radd_accepts s x None Hcx Hox) as (s1 & E & Ei & Ettl & Ek & Ecl & Et & En & Ed & Ev).
    cbn [radd_all]. rewrite E. rewrite Hns in Ei.
    destruct (IH s1 c) as (s' & E' & Ei' & Ettl' & Ek' & Ecl' & Et' & En' & Ed' & Ev1 & Ev2).
    + rewrite Et. exact Hns.
    + intros y Hy. unfold compat. rewrite Ecl, Et. apply Hc. right. exact Hy.
    + rewrite Et. intros Hs. destruct (Hsig Hs) as [Hall Hcov]. split.
      * intros y Hy. apply Hall. right. exact Hy.
      * left. rewrite Ev, Hs. cbn [andb].
        destruct Hcov as [H|[H1 H2]].
        -- destruct (isempty s && (cov s =? 0)) eqn:E1; [|exact H].
           apply Hall. left. reflexivity.
        -- rewrite H1, H2. cbn. apply Hall. left. reflexivity.
    + exists s'. split; [exact E'|]. cbn in Ettl. rewrite Et in *.
      repeat split; try congruence.
      * rewrite Ei', Ei. reflexivity.
      * intros Hs. rewrite (Ev1 Hs), Ev, Hs. reflexivity.
      * intros Hs. rewrite (Ev2 Hs). destruct (Hsig Hs) as [Hall Hcov].
        destruct l; [|reflexivity].
        rewrite Ev, Hs. cbn [andb].
        destruct Hcov as [H|[H1 H2]].
        -- destruct (isempty s && (cov s =? 0)); [apply Hall; left; reflexivity|exact H].
        -- rewrite H1, H2. cbn. apply Hall. left. reflexivity.
Qed.

(* merging into a singleton-type rdataset keeps the newest record only *)
Lemma radd_all_singleton l : forall s c,
  is_singleton (typ s) = true ->
  (forall x, In x l -> compat s x) ->
  (is_sigtype (typ s) = true -> (forall x, In x l -> rcov x = c) /\
                                (cov s = c \/ (isempty s = true /\ cov s = 0))) ->
  exists s', radd_all s l = (s', Ok tt) /\
    items s' = match rev l with [] => items s | y :: _ => [y] end /\ ttl s' = ttl s.
Proof.
  induction l as [|x l IH]; intros s c Hs Hc Hsig.
  - exists s. cbn. auto.
  - assert (Hcx : compat s x) by (apply Hc; left; reflexivity).
    assert (Hox : cov_ok s x).
    { unfold cov_ok. destruct (is_sigtype (typ s)) eqn:E; [|auto]. right.
      destruct (Hsig eq_refl) as [Hall [H|H]]; [right|left; exact H].
      rewrite H. symmetry. apply Hall. left. reflexivity. }
    destruct (radd_accepts s x None Hcx Hox) as (s1 & E & Ei & Ettl & Ek & Ecl & Et & En & Ed & Ev).
    cbn [radd_all]. rewrite E. rewrite Hs in Ei.
    destruct (IH s1 c) as (s' & E' & Ei' & Ettl').
    + rewrite Et. exact Hs.
    + intros y Hy. unfold compat. rewrite Ecl, Et. apply Hc. right. exact Hy.
    + rewrite Et. intros Hsg. destruct (Hsig Hsg) as [Hall Hcov]. split.
      * intros y Hy. apply Hall. right. exact Hy.
      * left. rewrite Ev, Hsg. cbn [andb].
        destruct Hcov as [H|[H1 H2]].
        -- destruct (isempty s && (cov s =? 0)) eqn:E1; [|exact H].
           apply Hall. left. reflexivity.
        -- rewrite H1, H2. cbn. apply Hall. left. reflexivity.
    + exists s'. split; [exact E'|]. split; [|cbn in Ettl; congruence].
      rewrite Ei'. cbn [rev]. destruct (rev l) as [|y r] eqn:Er; cbn; [exact Ei|reflexivity].
Qed.

(* a foreign record stops the merge with IncompatibleTypes before anything is added *)
Lemma radd_all_refuses s x l :
  ~ compat s x -> radd_all s (x :: l) = (s, Lib eIncompatibleTypes).
Proof. intros H. cbn. rewrite (radd_refuses_type s x None H). reflexivity. Qed.

(* ---------- the four algorithms through the Rdataset overrides ---------- *)

(* the two rdatasets can be merged: same class and type, and for RRSIG/SIG the same covered
   type unless self is still uncommitted *)
Definition mergeable (self other : rds) : Prop :=
  cls other = cls self /\ typ other = typ self /\
  (is_sigtype (typ self) = true ->
     items other = [] \/ cov self = cov other \/ (isempty self = true /\ cov self = 0)).

Lemma mergeable_members self other :
  wf other -> mergeable self other -> forall x, In x (items other) -> compat self x.
Proof.
  intros Hw (Hc & Ht & _) x Hx. destruct (wf_ct other Hw x Hx). unfold compat. split; congruence.
Qed.

Lemma mergeable_sig self other t :
  wf other -> mergeable self other ->
  is_sigtype (typ (update_ttl self t)) = true ->
  (forall x, In x (items other) -> rcov x = cov other) /\
  (cov (update_ttl self t) = cov other \/ (isempty (update_ttl self t) = true /\ cov (update_ttl self t) = 0))
  \/ items other = [].
Proof.
  intros Hw (Hc & Ht & Hs). destruct (update_ttl_fields self t) as (_&_&Et&Ev&_).
  rewrite Et, Ev, update_ttl_isempty. intros Hsig.
  destruct (Hs Hsig) as [H|H]; [right; exact H|left]. split; [|exact H].
  apply (wf_cov other Hw). congruence.
Qed.

(* union_update / update between distinct, mergeable, non-singleton rdatasets: the members are
   Set.union_update's, the TTL is minimised, nothing else changes *)
Theorem r_union_update_ok self other :
  wf other -> mergeable self other -> is_singleton (typ self) = false ->
  exists s', r_union_update self other false = (s', Ok tt) /\
    items s' = sunion_update rd_eqb (items self) (items other) false /\
    ttl s' = (if isempty self then ttl other else Z.min (ttl self) (ttl other)) /\
    kd s' = kd self /\ cls s' = cls self /\ typ s' = typ self.
Proof.
  intros Hw Hm Hns. unfold r_union_update.
  destruct (update_ttl_fields self (ttl other)) as (Ek&Ec&Et&Ev&Ei&En&Ed).
  pose proof (mergeable_members self other Hw Hm) as Hmem.
  destruct (items other) as [|y l] eqn:Eo.
  - eexists. split; [reflexivity|]. rewrite Ei, update_ttl_ttl. repeat split; auto.
  - destruct (radd_all_ok (y :: l) (update_ttl self (ttl other)) (cov other))
      as (s' & E & Ei' & Ettl & Ek' & Ec' & Et' & _).
    + congruence.
    + intros x Hx. unfold compat. rewrite Ec, Et. apply Hmem, Hx.
    + intros Hsig. destruct (mergeable_sig self other (ttl other) Hw Hm Hsig) as [H|H].
      * rewrite Eo in H. exact H.
      * rewrite Eo in H. discriminate.
    + exists s'. split; [exact E|]. rewrite Ei', Ei, Ettl, update_ttl_ttl.
      repeat split; congruence.
Qed.

Theorem r_union_update_singleton self other y :
  wf other -> mergeable self other -> is_singleton (typ self) = true -> items other = [y] ->
  exists s', r_union_update self other false = (s', Ok tt) /\ items s' = [y] /\
    ttl s' = (if isempty self then ttl other else Z.min (ttl self) (ttl other)).
Proof.
  intros Hw Hm Hs Ey. unfold r_union_update.
  destruct (update_ttl_fields self (ttl other)) as (Ek&Ec&Et&Ev&Ei&En&Ed).
  pose proof (mergeable_members self other Hw Hm) as Hmem. rewrite Ey in *.
  destruct (radd_all_singleton [y] (update_ttl self (ttl other)) (cov other)) as (s' & E & Ei' & Ettl).
  - congruence.
  - intros x Hx. unfold compat. rewrite Ec, Et. apply Hmem, Hx.
  - intros Hsig. destruct (mergeable_sig self other (ttl other) Hw Hm Hsig) as [H|H].
    + rewrite Ey in H. exact H.
    + rewrite Ey in H. discriminate.
  - exists s'. split; [exact E|]. split; [exact Ei'|]. rewrite Ettl. apply update_ttl_ttl.
Qed.

(* a non-empty rdataset of another class or type cannot be merged in: IncompatibleTypes, the
   members stay, only the TTL has been minimised *)
Theorem r_union_update_refuses self other :
  wf other -> items other <> [] -> (cls other <> cls self \/ typ other <> typ self) ->
  r_union_update self other false = (update_ttl self (ttl other), Lib eIncompatibleTypes).
Proof.
  intros Hw Hne Hd. unfold r_union_update.
  destruct (items other) as [|y l] eqn:Eo; [contradiction|].
  apply radd_all_refuses. intros [H1 H2].
  destruct (update_ttl_fields self (ttl other)) as (_&Ec&Et&_).
  destruct (wf_ct other Hw y) as [A B]; [rewrite Eo; left; reflexivity|].
  destruct Hd; congruence.
Qed.

Theorem r_inter_update_spec self other same :
  r_inter_update self other same
  = (with_items (update_ttl self (if same then ttl self else ttl other))
       (sinter_update rd_eqb (items self) (items other) same), Ok tt).
Proof.
  unfold r_inter_update. destruct (update_ttl_fields self (if same then ttl self else ttl other))
    as (_&_&_&_&->&_). reflexivity.
Qed.

Theorem r_diff_update_spec self other same :
  r_diff_update self other same
  = (with_items self (sdiff_update rd_eqb (items self) (items other) same), Ok tt).
Proof. reflexivity. Qed.

Theorem r_sym_update_ok self other :
  wf other -> mergeable self other -> is_singleton (typ self) = false ->
  exists s', r_sym_update self other false = (s', Ok tt) /\
    items s' = ssym_update rd_eqb (items self) (items other) false /\
    ttl s' = (if isempty self then ttl other else Z.min (ttl self) (ttl other)) /\
    kd s' = kd self /\ cls s' = cls self /\ typ s' = typ self.
Proof.
  intros Hw Hm Hns. unfold r_sym_update.
  destruct (r_union_update_ok self other Hw Hm Hns) as (s1 & E & Ei & Ettl & Ek & Ec & Et).
  rewrite E. rewrite r_inter_update_spec, r_diff_update_spec. cbn [fst items with_items].
  eexists. split; [reflexivity|]. cbn [items with_items ttl kd cls typ].
  split.
  - rewrite Ei. unfold ssym_update, sclone.
    assert (items (rclone self) = items self) as -> by (unfold rclone; destruct (kd self); reflexivity).
    reflexivity.
  - repeat split; assumption.
Qed.

(* aliased in-place calls a.<op>_update(a): members as in Set, TTL untouched *)
Theorem ralg_aliased a self :
  ralg a self self true = (with_items self (salg a (items self) (items self) true), Ok tt).
Proof.
  destruct a; cbn [ralg salg].
  - unfold r_union_update. rewrite update_ttl_self. destruct self; reflexivity.
  - rewrite r_inter_update_spec, update_ttl_self. reflexivity.
  - reflexivity.
  - reflexivity.
Qed.

(* all four algorithms, distinct mergeable non-singleton operands: Set's members; the TTL is
   the minimum (difference does not merge) *)
Theorem ralg_ok a self other :
  wf other -> mergeable self other -> is_singleton (typ self) = false ->
  exists s', ralg a self other false = (s', Ok tt) /\
    items s' = salg a (items self) (items other) false /\
    ttl s' = (match a with
              | ADiff => ttl self
              | _ => if isempty self then ttl other else Z.min (ttl self) (ttl other)
              end) /\
    kd s' = kd self /\ cls s' = cls self /\ typ s' = typ self.
Proof.
  intros Hw Hm Hns. destruct a; cbn [ralg salg].
  - apply r_union_update_ok; assumption.
  - rewrite r_inter_update_spec. eexists. split; [reflexivity|].
    cbn [items with_items ttl kd cls typ].
    destruct (update_ttl_fields self (ttl other)) as (Ek&Ec&Et&_).
    rewrite update_ttl_ttl. repeat split; auto.
  - rewrite r_diff_update_spec. eexists. split; [reflexivity|]. repeat split.
  - apply r_sym_update_ok; assumption.
Qed.

(* ---------- corollaries used by Props/C07.v ---------- *)

Corollary singleton_newest s rd ottl :
  is_singleton (typ s) = true -> compat s rd -> cov_ok s rd ->
  exists s', radd s rd ottl = (s', Ok tt) /\ items s' = [rd] /\ ttl s' = merged_ttl s ottl.
Proof.
  intros Hs Hc Ho. destruct (radd_accepts s rd ottl Hc Ho) as (s' & E & Ei & Et & _).
  exists s'. rewrite Hs in Ei. auto.
Qed.

Corollary add_nonsingleton s rd ottl :
  is_singleton (typ s) = false -> compat s rd -> cov_ok s rd ->
  exists s', radd s rd ottl = (s', Ok tt) /\ items s' = sadd rd_eqb rd (items s) /\
             ttl s' = merged_ttl s ottl.
Proof.
  intros Hs Hc Ho. destruct (radd_accepts s rd ottl Hc Ho) as (s' & E & Ei & Et & _).
  exists s'. rewrite Hs in Ei. auto.
Qed.

(* set theory for rdatasets: members of the result of each in-place algorithm *)
Corollary ralg_mem a self other :
  wf self -> wf other -> mergeable self other -> is_singleton (typ self) = false ->
  exists s', ralg a self other false = (s', Ok tt) /\
    (forall x, rmem x (items s') = alg_bool a (rmem x (items self)) (rmem x (items other))) /\
    items s' = alg_order rdata rd_eqb a (items self) (items other).
Proof.
  intros Hs Ho Hm Hns. destruct (ralg_ok a self other Ho Hm Hns) as (s' & E & Ei & _).
  exists s'. split; [exact E|]. rewrite Ei. split.
  - intros x. apply set_alg_mem; [apply Hs|apply Ho|discriminate].
  - apply set_alg_order; [apply Hs|apply Ho].
Qed.

Lemma rclone_fields s :
  cls (rclone s) = cls s /\ typ (rclone s) = typ s /\ cov (rclone s) = cov s /\
  ttl (rclone s) = ttl s /\ items (rclone s) = items s /\ isempty (rclone s) = isempty s.
Proof. unfold rclone, isempty. destruct (kd s); repeat split. Qed.

(* copying forms: a new object of the same kind (immutable stays immutable) with Set's members;
   o may be the same object as self *)
Theorem r_func_ok w self other :
  wf other -> mergeable self other -> is_singleton (typ self) = false ->
  exists x, r_func w self other = Ok x /\
    items x = salg (func_alg w) (items self) (items other) false /\
    kd x = kd self /\
    ttl x = (match func_alg w with
             | ADiff => ttl self
             | _ => if isempty self then ttl other else Z.min (ttl self) (ttl other)
             end).
Proof.
  intros Ho Hm Hns. destruct (rclone_fields self) as (Ec&Et&Ev&Ettl&Ei&Ee).
  assert (Hm' : mergeable (rclone self) other).
  { destruct Hm as (A&B&C). unfold mergeable. rewrite Ec, Et, Ev, Ee. auto. }
  destruct (ralg_ok (func_alg w) (rclone self) other Ho Hm') as (s' & E & Ei' & Ettl' & Ek' & _).
  { congruence. }
  unfold r_func. rewrite E. eexists. split; [reflexivity|].
  rewrite Ei, Ee, Ettl in *.
  destruct (kd self) eqn:Ek; cbn [items kd ttl rimm]; repeat split; auto;
    rewrite Ek'; unfold rclone; rewrite Ek; cbn; assumption.
Qed.

(* ---------- a boolean test for wf (for examples) ---------- *)

Fixpoint nodupb (l : list rdata) : bool :=
  match l with
  | [] => true
  | x :: r => negb (mem rd_eqb x r) && nodupb r
  end.

Lemma nodupb_ND l : nodupb l = true -> ND l.
Proof.
  induction l as [|x r IH]; cbn; intros H; [constructor|].
  apply andb_true_iff in H as [H1 H2]. constructor; [apply negb_true_iff, H1|apply IH, H2].
Qed.

Definition wfb (s : rds) : bool :=
  nodupb (items s) &&
  forallb (fun x => (rcls x =? cls s) && (rtyp x =? typ s)) (items s) &&
  (if is_sigtype (typ s) then forallb (fun x => rcov x =? cov s) (items s) else true) &&
  (if is_singleton (typ s) then Nat.leb (length (items s)) 1 else true).

Lemma wfb_wf s : wfb s = true -> wf s.
Proof.
  unfold wfb. rewrite !andb_true_iff. intros [[[H1 H2] H3] H4]. constructor.
  - apply nodupb_ND, H1.
  - intros x Hx. rewrite forallb_forall in H2. specialize (H2 x Hx).
    apply andb_true_iff in H2 as [A B]. apply Z.eqb_eq in A, B. auto.
  - intros Hs x Hx. rewrite Hs in H3. rewrite forallb_forall in H3. apply Z.eqb_eq, H3, Hx.
  - intros Hs. rewrite Hs in H4. apply Nat.leb_le, H4.
Qed.
