(* C13 - the order of the records inside a deletion / addition section (and inside an AXFR body)
   does not matter: adding and exact-deleting commute up to finite-map equality. *)
From DV Require Import Base.Prelude Model.XfrM Proofs.XfrSets Proofs.XfrSpec Proofs.XfrZone Proofs.XfrDiff
  Proofs.XfrSafety Proofs.XfrBasic Proofs.XfrRun Proofs.XfrIxfr Proofs.XfrAxfr.
From Coq Require Import Sorting.Permutation.

Lemma ins_comm : forall a b l, ssorted l -> ins a (ins b l) = ins b (ins a l).
Proof.
  intros a b l Hl. apply ssorted_ext; try (apply ins_sorted, ins_sorted, Hl).
  intros x. rewrite !ins_In. tauto.
Qed.

Lemma tmin_comm3 : forall a b c, tmin a (tmin b c) = tmin b (tmin a c).
Proof.
  intros a b c. unfold tmin.
  destruct (b <? c) eqn:E1; destruct (a <? c) eqn:E2; destruct (a <? b) eqn:E3; destruct (b <? a) eqn:E4;
    rewrite ?E1, ?E2, ?E3, ?E4; try reflexivity;
    repeat match goal with
           | H : (_ <? _) = true |- _ => apply Z.ltb_lt in H
           | H : (_ <? _) = false |- _ => apply Z.ltb_ge in H
           end; try lia.
Qed.

Definition add1o (e : option entry) (r : rr) : option entry := Some (add1 e (r_ttl r) (r_data r)).

Lemma add1_comm : forall e r1 r2, wf_e e -> add1o (add1o e r1) r2 = add1o (add1o e r2) r1.
Proof.
  intros e r1 r2 He. unfold add1o. f_equal. destruct e as [[t0 S0]|]; cbn [add1 wf_e] in *.
  - fold (tmin (r_ttl r1) t0). fold (tmin (r_ttl r2) t0).
    fold (tmin (r_ttl r2) (tmin (r_ttl r1) t0)). fold (tmin (r_ttl r1) (tmin (r_ttl r2) t0)).
    rewrite tmin_comm3. f_equal. apply ins_comm, He.
  - fold (tmin (r_ttl r2) (r_ttl r1)). fold (tmin (r_ttl r1) (r_ttl r2)).
    f_equal.
    + unfold tmin. destruct (r_ttl r2 <? r_ttl r1) eqn:E1; destruct (r_ttl r1 <? r_ttl r2) eqn:E2; try reflexivity;
        repeat match goal with
               | H : (_ <? _) = true |- _ => apply Z.ltb_lt in H
               | H : (_ <? _) = false |- _ => apply Z.ltb_ge in H
               end; lia.
    + apply (ins_comm (r_data r2) (r_data r1) []). constructor.
Qed.

Lemma fa_cons : forall k e r x,
  fa k e (r :: x) = fa k (if key_eqb (rkey r) k then add1o e r else e) x.
Proof. reflexivity. Qed.

Lemma wf_e_add1o : forall e r, wf_e e -> wf_e (add1o e r).
Proof.
  intros e r He. unfold add1o. destruct e as [[t0 S0]|]; cbn [add1 wf_e] in *; [apply ins_sorted, He|apply ssorted_one].
Qed.

Lemma fa_perm : forall k x y, Permutation x y -> forall e, wf_e e -> fa k e x = fa k e y.
Proof.
  intros k x y P. induction P as [|r x y P IH|r1 r2 x|x y z P1 IH1 P2 IH2]; intros e He.
  - reflexivity.
  - rewrite !fa_cons. apply IH. destruct (key_eqb (rkey r) k); [apply wf_e_add1o|]; exact He.
  - rewrite !fa_cons. destruct (key_eqb (rkey r1) k), (key_eqb (rkey r2) k); try reflexivity.
    rewrite add1_comm by exact He. reflexivity.
  - rewrite IH1 by exact He. apply IH2, He.
Qed.

(* adding records in any order gives the same zone *)
Lemma adds_perm : forall x y z, Permutation x y -> zsorted z -> zeq (adds z x) (adds z y).
Proof.
  intros x y z P Hz k. rewrite !look_adds_fa. apply fa_perm; [exact P|apply Hz].
Qed.

(* ---- exact deletions ---- *)
Definition bindo {A B} (o : option A) (f : A -> option B) : option B :=
  match o with Some a => f a | None => None end.

(* effect on the entry at key k of deleting the records x in order; None = DeleteNotExact *)
Fixpoint fd (k : key) (e : option entry) (x : list rr) : option (option entry) :=
  match x with
  | [] => Some e
  | r :: x' => if key_eqb (rkey r) k
               then bindo (del1 e (r_data r)) (fun e' => fd k e' x')
               else fd k e x'
  end.

Lemma diff_one_In : forall S0 d x, In x (diff S0 [d]) <-> In x S0 /\ x <> d.
Proof. intros. rewrite diff_In. cbn. intuition. Qed.

Lemma norm_some : forall t l, l <> [] -> norm t l = Some (t, l).
Proof. intros t [|x l] H; [congruence|reflexivity]. Qed.

Lemma del1_comm : forall e a b, wf_e e ->
  bindo (del1 e a) (fun e' => del1 e' b) = bindo (del1 e b) (fun e' => del1 e' a).
Proof.
  intros e a b He. destruct e as [[t S0]|]; [|reflexivity]. cbn [wf_e] in He.
  assert (KEY : forall a b, bindo (del1 (Some (t, S0)) a) (fun e' => del1 e' b) =
            if mem a S0 && mem b S0 && negb (a =? b) then Some (norm t (diff S0 [a; b])) else None).
  { clear a b. intros a b. cbn [del1]. destruct (mem a S0) eqn:Ma; cbn [bindo andb]; [|reflexivity].
    unfold norm at 1. destruct (diff S0 [a]) as [|x rest] eqn:Ed.
    - (* S0 = {a}: b cannot be deleted afterwards *)
      cbn [del1]. destruct (mem b S0) eqn:Mb; cbn [andb]; [|reflexivity].
      destruct (a =? b) eqn:Eab; cbn [negb]; [reflexivity|]. exfalso.
      apply Z.eqb_neq in Eab. apply mem_In in Mb.
      assert (In b (diff S0 [a])) by (apply diff_one_In; auto). rewrite Ed in H. destruct H.
    - rewrite <- Ed. cbn [del1].
      assert (Hm : mem b (diff S0 [a]) = mem b S0 && negb (a =? b)).
      { destruct (mem b (diff S0 [a])) eqn:E.
        - apply mem_In, diff_one_In in E. destruct E as [E1 E2]. apply mem_In in E1. rewrite E1.
          assert ((a =? b) = false) by (apply Z.eqb_neq; auto). rewrite H. reflexivity.
        - destruct (mem b S0) eqn:Mb; [|reflexivity]. destruct (a =? b) eqn:Eab; [reflexivity|]. exfalso.
          apply Z.eqb_neq in Eab. apply mem_In in Mb.
          assert (In b (diff S0 [a])) by (apply diff_one_In; auto). apply mem_In in H. congruence. }
      rewrite Hm. destruct (mem b S0 && negb (a =? b)); [|reflexivity].
      f_equal. change [a; b] with ([a] ++ [b]). rewrite <- diff_diff. reflexivity. }
  etransitivity; [apply (KEY a b)|]. symmetry. etransitivity; [apply (KEY b a)|]. symmetry.
  rewrite (andb_comm (mem b S0) (mem a S0)), (Z.eqb_sym b a).
  destruct (mem a S0 && mem b S0 && negb (a =? b)); [|reflexivity].
  f_equal. f_equal. unfold diff. apply filter_ext. intros x. cbn [mem]. rewrite !orb_false_r, orb_comm. reflexivity.
Qed.

Lemma wf_e_del1 : forall e d e', wf_e e -> del1 e d = Some e' -> wf_e e'.
Proof.
  intros e d e' He H. destruct e as [[t S0]|]; [|discriminate]. cbn [del1 wf_e] in *.
  destruct (mem d S0); [|discriminate]. inversion H; subst. unfold norm.
  destruct (diff S0 [d]) eqn:E; [exact Logic.I|]. cbn [wf_e]. rewrite <- E. apply filter_sorted, He.
Qed.

Lemma fd_perm : forall k x y, Permutation x y -> forall e, wf_e e -> fd k e x = fd k e y.
Proof.
  intros k x y P. induction P as [|r x y P IH|r1 r2 x|x y z P1 IH1 P2 IH2]; intros e He.
  - reflexivity.
  - cbn [fd]. destruct (key_eqb (rkey r) k); [|apply IH, He].
    destruct (del1 e (r_data r)) as [e'|] eqn:E; cbn [bindo]; [|reflexivity].
    apply IH. eapply wf_e_del1; eassumption.
  - cbn [fd]. destruct (key_eqb (rkey r1) k), (key_eqb (rkey r2) k); try reflexivity.
    pose proof (del1_comm e (r_data r2) (r_data r1) He) as C.
    destruct (del1 e (r_data r2)) as [e2|] eqn:E2; destruct (del1 e (r_data r1)) as [e1|] eqn:E1; cbn [bindo] in *.
    + destruct (del1 e2 (r_data r1)) as [e21|] eqn:E21; destruct (del1 e1 (r_data r2)) as [e12|] eqn:E12;
        cbn [bindo]; try discriminate; [inversion C; reflexivity|reflexivity].
    + destruct (del1 e2 (r_data r1)); [discriminate|reflexivity].
    + destruct (del1 e1 (r_data r2)); [discriminate|reflexivity].
    + reflexivity.
  - rewrite IH1 by exact He. apply IH2, He.
Qed.

Lemma look_dels_fd : forall x z z', dels z x = Some z' -> forall k, fd k (look z k) x = Some (look z' k).
Proof.
  induction x as [|r x IH]; intros z z' H k; cbn [dels fd] in *.
  - inversion H; reflexivity.
  - destruct (del1 (look z (rkey r)) (r_data r)) as [oe|] eqn:E; [|discriminate].
    specialize (IH _ _ H k). rewrite look_zset in IH. rewrite (key_eqb_sym k (rkey r)) in IH.
    destruct (key_eqb (rkey r) k) eqn:Ek.
    + apply key_eqb_eq in Ek. subst k. rewrite E. cbn [bindo]. exact IH.
    + exact IH.
Qed.

Lemma dels_fd_complete : forall x z, (forall k, fd k (look z k) x <> None) -> exists z', dels z x = Some z'.
Proof.
  induction x as [|r x IH]; intros z H; cbn [dels].
  - eauto.
  - pose proof (H (rkey r)) as Hr. cbn [fd] in Hr. rewrite key_eqb_refl in Hr.
    destruct (del1 (look z (rkey r)) (r_data r)) as [oe|] eqn:E; [|cbn in Hr; congruence].
    apply IH. intros k. specialize (H k). cbn [fd] in H. rewrite look_zset, (key_eqb_sym k (rkey r)).
    destruct (key_eqb (rkey r) k) eqn:Ek.
    + apply key_eqb_eq in Ek. subst k. rewrite E in H. exact H.
    + exact H.
Qed.

(* exact deletion of records in any order: succeeds iff, and gives the same zone *)
Lemma dels_perm : forall x y z z1, Permutation x y -> zsorted z -> dels z x = Some z1 ->
  exists z2, dels z y = Some z2 /\ zeq z2 z1.
Proof.
  intros x y z z1 P Hz H.
  assert (F : forall k, fd k (look z k) y = Some (look z1 k)).
  { intros k. rewrite <- (fd_perm k x y P _ (Hz k)). apply look_dels_fd, H. }
  destruct (dels_fd_complete y z) as [z2 H2].
  { intros k. rewrite F. discriminate. }
  exists z2. split; [exact H2|]. intros k.
  pose proof (look_dels_fd _ _ _ H2 k) as G. rewrite F in G. inversion G; reflexivity.
Qed.

(* ---- additions are idempotent: only the SET of added records matters ---- *)
Lemma rr_eq_dec : forall a b : rr, {a = b} + {a <> b}.
Proof. decide equality; apply Z.eq_dec. Qed.

Lemma ins_idem : forall d l, ssorted l -> ins d (ins d l) = ins d l.
Proof.
  intros d l Hl. apply ssorted_ext; try (repeat apply ins_sorted; exact Hl).
  intros x. rewrite !ins_In. tauto.
Qed.

Lemma tmin_idem : forall a b, tmin a (tmin a b) = tmin a b.
Proof.
  intros a b. unfold tmin. destruct (a <? b) eqn:E; rewrite ?E; [apply min_same|reflexivity].
Qed.

Lemma add1_idem : forall e r, wf_e e -> add1o (add1o e r) r = add1o e r.
Proof.
  intros e r He. unfold add1o. f_equal. destruct e as [[t0 S0]|]; cbn [add1 wf_e] in *.
  - fold (tmin (r_ttl r) t0). fold (tmin (r_ttl r) (tmin (r_ttl r) t0)). rewrite tmin_idem.
    f_equal. apply ins_idem, He.
  - rewrite min_same. f_equal. apply (ins_idem (r_data r) []). constructor.
Qed.

Lemma fa_dup_head : forall k e r x, wf_e e -> In r x -> fa k e (r :: x) = fa k e x.
Proof.
  intros k e r x He Hin. apply in_split in Hin. destruct Hin as [l1 [l2 ->]].
  rewrite (fa_perm k (r :: l1 ++ r :: l2) (r :: r :: l1 ++ l2)) by
    (apply perm_skip, Permutation_sym, Permutation_middle || exact He).
  rewrite (fa_perm k (l1 ++ r :: l2) (r :: l1 ++ l2)) by
    (apply Permutation_sym, Permutation_middle || exact He).
  rewrite !fa_cons. destruct (key_eqb (rkey r) k); [|reflexivity].
  rewrite add1_idem by exact He. reflexivity.
Qed.

Lemma fa_nodup : forall k x e, wf_e e -> fa k e (nodup rr_eq_dec x) = fa k e x.
Proof.
  intros k x. induction x as [|r x IH]; intros e He; cbn [nodup]; [reflexivity|].
  destruct (in_dec rr_eq_dec r x) as [Hin|Hnin].
  - rewrite IH by exact He. symmetry. apply fa_dup_head; assumption.
  - rewrite !fa_cons. apply IH. destruct (key_eqb (rkey r) k); [apply wf_e_add1o|]; exact He.
Qed.

Lemma adds_same_set : forall x y z, same_set x y -> zsorted z -> zeq (adds z x) (adds z y).
Proof.
  intros x y z H Hz k. rewrite !look_adds_fa.
  rewrite <- (fa_nodup k x) by apply Hz. rewrite <- (fa_nodup k y) by apply Hz.
  apply fa_perm; [|apply Hz].
  apply NoDup_Permutation; try apply NoDup_nodup.
  intros r. rewrite !nodup_In. apply H.
Qed.
